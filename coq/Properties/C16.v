(* Properties/C16.v : Transfer slots are bounded and always given back.
   Only statements, closed by lemmas of Proofs/Slots.v, each followed by Print Assumptions.
   `true` as first argument of offer / out_events / gossip_path / gossip_round selects the flow of the code as it is
   now (repaired), `false` the code as found.  The inbound and the outbound semaphore are two instances of the same
   model (utpController holds two semaphore.Weighted of the same size), every theorem applies to each of them. *)
From Shisui Require Import Base.Bytes Model.Slots Proofs.Slots.
From Shisui Require Import Gen.K_wire.

(* ---- (1) at no time more slots in use than the limit: any sequence of TryAcquire / Release on the semaphore,
   from any admissible counter value, every limit >= 0 *)
Theorem C16_counter_bounded : forall limit ops c,
  c <= limit -> Forall (fun x => x <= limit) (sem_trace limit ops c).
Proof. exact sem_bounded. Qed.
Print Assumptions C16_counter_bounded.

(* ... for the shipped default (regenerated K_DefaultUtpConnSize), from the idle state *)
Theorem C16_counter_bounded_default : forall ops,
  Forall (fun x => x <= K_DefaultUtpConnSize) (sem_trace K_DefaultUtpConnSize ops 0).
Proof. intros ops. apply sem_bounded. vm_compute. discriminate. Qed.
Print Assumptions C16_counter_bounded_default.

(* a request for a slot is refused only when all `limit` slots are in use *)
Theorem C16_refused_only_when_full : forall limit c,
  c <= limit -> (try_acquire limit c = None <-> c = limit).
Proof. exact try_acquire_fails_only_when_full. Qed.
Print Assumptions C16_refused_only_when_full.

(* ---- (2) every slot taken is returned exactly once, whatever the outcome.
   release_once evs :=  the semaphore is released (effective evs) once if the offer acquired a slot and never otherwise,
                        with >= 1 calls of permit.Release() if acquired and none if not. *)

(* outbound: gossip -> queue -> offerWorker -> offer -> processOffer -> transfer goroutine, all outcomes: no permit,
   queue full, marshal error, peer silent, empty reply, wrong code, undecodable, wrong verdict count, all declined,
   accepted then shutdown / dial failure / write failure / success.
   EXCLUDED, explicitly: the request is still in the queue when closeCtx is cancelled (see C16_shutdown_queued_keeps_slot). *)
Theorem C16_outbound_release_once : forall o,
  o <> OGot PShutdownQueued -> release_once (out_events true o).
Proof. exact out_release_once. Qed.
Print Assumptions C16_outbound_release_once.

(* offer() with a caller-supplied permit: exactly one Release call on every one of its exits *)
Theorem C16_offer_exactly_one_release_call : forall s,
  calls (offer true s) = 1%nat /\ effective (Acquire :: offer true s) = 1%nat.
Proof. exact offer_one_call. Qed.
Print Assumptions C16_offer_exactly_one_release_call.

(* inbound: handleOffer -> receive goroutine: version error, filter error, no key accepted, no permit, and for an
   accepted offer ANY sequence of loop iterations (shutdown, accept failure, read then decode error / count mismatch /
   enqueued / queue full - the last two go round the loop again) after which the goroutine has returned *)
Theorem C16_inbound_release_once : forall o evs,
  in_events o = (evs, true) -> release_once evs.
Proof. exact in_release_once. Qed.
Print Assumptions C16_inbound_release_once.

(* the "release permit fast" call: once a read has completed the slot is back even while the goroutine still loops *)
Theorem C16_inbound_released_after_first_read : forall h rest evs f,
  in_events (IGot (RRead h :: rest)) = (evs, f) -> effective evs = 1%nat.
Proof. exact in_released_after_first_read. Qed.
Print Assumptions C16_inbound_released_after_first_read.

(* an inbound offer whose goroutine has not returned holds its slot only while it has not read anything (it sits in
   AcceptWithCid, bounded by defaultUTPConnectTimeout - a runtime fact outside the model) *)
Theorem C16_inbound_unfinished_is_looping : forall its evs,
  in_events (IGot its) = (evs, false) ->
  evs = Acquire :: repeat Release (length its) /\ Forall (fun it => exists h, it = RRead h /\ handled_err h = false) its.
Proof. exact in_unfinished_means_looping. Qed.
Print Assumptions C16_inbound_unfinished_is_looping.

(* the gossip loop on the real semaphore, any number of targets, any queue room: what is held afterwards is what was held
   before plus exactly the requests that were queued; dropped and skipped targets hold nothing; no panic *)
Theorem C16_gossip_round_conserves : forall limit targets sem room q d s sem' room' q' d' s',
  sem <= limit ->
  gossip_round true limit targets sem room (q, d, s) = Ok (sem', room', (q', d', s')) ->
  sem' <= limit /\ sem' + q = sem + q' /\ room' + q' = room + q /\ q' + d' + s' = q + d + s + N.of_nat targets.
Proof. exact gossip_round_conserves. Qed.
Print Assumptions C16_gossip_round_conserves.

Theorem C16_gossip_round_total : forall limit targets sem room acc,
  exists r, gossip_round true limit targets sem room acc = Ok r.
Proof. exact gossip_round_total. Qed.
Print Assumptions C16_gossip_round_total.

(* ---- (3) any number of offers under ANY schedule (every interleaving of their steps that respects each offer's own
   order; acquisition succeeds or fails according to the counter at that moment), stopped at ANY point: no
   "released more than held" panic, never more than `limit` slots in use, the counter is exactly the number of offers
   holding an unreleased permit, and once all have finished the counter is 0 and exactly `limit` acquisitions succeed. *)
Theorem C16_any_schedule : forall limit ks sched,
  Forall (fun k => (1 <= k)%nat) ks ->
  exists sem ls,
    sched_run limit sched (0, map LPending ks) = Ok (sem, ls) /\
    sem <= limit /\ sem = N.of_nat (nheld ls) /\
    (all_finished ls = true ->
       sem = 0 /\ acquire_many limit (N.to_nat limit) sem = Some limit /\ try_acquire limit limit = None).
Proof. exact any_schedule. Qed.
Print Assumptions C16_any_schedule.

(* the premise `1 <= k` is (2): instantiated with the outbound flows ... *)
Theorem C16_any_schedule_outbound : forall limit paths sched,
  Forall (fun p => p <> PShutdownQueued) paths ->
  exists sem ls,
    sched_run limit sched (0, start_offers (map (gossip_path true) paths)) = Ok (sem, ls) /\
    sem <= limit /\
    (all_finished ls = true -> sem = 0 /\ acquire_many limit (N.to_nat limit) sem = Some limit).
Proof. exact any_schedule_outbound. Qed.
Print Assumptions C16_any_schedule_outbound.

(* ... and with the inbound flows whose goroutines have returned *)
Theorem C16_any_schedule_inbound : forall limit (itss : list (list recv_iter)) sched,
  Forall (fun its => snd (recv_goroutine its) = true) itss ->
  exists sem ls,
    sched_run limit sched (0, start_offers (map (fun its => fst (recv_goroutine its)) itss)) = Ok (sem, ls) /\
    sem <= limit /\
    (all_finished ls = true -> sem = 0 /\ acquire_many limit (N.to_nat limit) sem = Some limit).
Proof. exact any_schedule_inbound. Qed.
Print Assumptions C16_any_schedule_inbound.

(* "all finished" is reachable: the sequential composition of the offers is a schedule that ends with everything
   finished and the counter at 0 *)
Theorem C16_sequential_schedule_finishes : forall limit ks,
  Forall (fun k => (1 <= k)%nat) ks ->
  exists ls, sched_run limit (seq_sched 0 ks) (0, map LPending ks) = Ok (0, ls) /\ all_finished ls = true.
Proof. exact seq_sched_finishes0. Qed.
Print Assumptions C16_sequential_schedule_finishes.

(* with no more slots than queue places the overflow branch of gossip is never taken (all slots in use are held by queued
   or running offers); the shipped default satisfies the side condition by a wide margin *)
Theorem C16_gossip_no_overflow_when_limit_small : forall limit targets sem room q d s sem' room' q' d' s',
  sem <= limit -> limit <= sem + room ->
  gossip_round true limit targets sem room (q, d, s) = Ok (sem', room', (q', d', s')) -> d' = d.
Proof. exact gossip_never_overflows_when_limit_small. Qed.
Print Assumptions C16_gossip_no_overflow_when_limit_small.

Theorem C16_default_limit_below_queue_size : K_DefaultUtpConnSize <= K_offerQueueSize.
Proof. vm_compute. discriminate. Qed.
Print Assumptions C16_default_limit_below_queue_size.

(* ---- the code AS FOUND (flow `false`): the full property is false of it *)

(* offer(): TalkRequest error (silent peer) and MarshalSSZ error return with the permit acquired and never released *)
Theorem C16_offer_leak_refuted :
  (exists s, acquired (Acquire :: offer false s) = true /\ calls (offer false s) = 0%nat /\
             effective (Acquire :: offer false s) = 0%nat /\ s = STalkErr) /\
  (exists s, acquired (Acquire :: offer false s) = true /\ calls (offer false s) = 0%nat /\
             effective (Acquire :: offer false s) = 0%nat /\ s = SMarshalErr).
Proof. exact offer_leak_refuted. Qed.
Print Assumptions C16_offer_leak_refuted.

(* GossipAndReturnPeers: queue full, request dropped, permit kept *)
Theorem C16_gossip_queue_full_leak_refuted :
  acquired (out_events false (OGot PQueueFull)) = true /\
  calls (out_events false (OGot PQueueFull)) = 0%nat /\ effective (out_events false (OGot PQueueFull)) = 0%nat.
Proof. exact gossip_queue_full_leak_refuted. Qed.
Print Assumptions C16_gossip_queue_full_leak_refuted.

(* these three exits (and the queued-at-shutdown case) were the only ones *)
Theorem C16_as_found_leaks_exactly : forall o,
  release_once (out_events false o) <->
  (o <> OGot PQueueFull /\ o <> OGot (PWorker SMarshalErr) /\ o <> OGot (PWorker STalkErr) /\ o <> OGot PShutdownQueued).
Proof. exact as_found_leaks_exactly. Qed.
Print Assumptions C16_as_found_leaks_exactly.

(* and (3) failed: one offer to a silent peer run to its end leaves the counter at 1 for good *)
Theorem C16_any_schedule_as_found_refuted :
  exists limit sched sem ls,
    sched_run limit sched (0, start_offers [gossip_path false (PWorker STalkErr)]) = Ok (sem, ls) /\
    all_finished ls = true /\ sem = 1 /\ acquire_many limit (N.to_nat limit) sem = None.
Proof. exact any_schedule_as_found_refuted. Qed.
Print Assumptions C16_any_schedule_as_found_refuted.

(* ---- NOT repaired, stated: a request that is still in the offer queue when closeCtx is cancelled keeps its slot -
   the workers have returned, nobody takes it out.  The process is going away; the semaphore dies with it.
   DESIRED (false, in the repaired code too):  release_once (out_events true (OGot PShutdownQueued)). *)
Theorem C16_shutdown_queued_keeps_slot_refuted : forall fixed,
  acquired (out_events fixed (OGot PShutdownQueued)) = true /\ effective (out_events fixed (OGot PShutdownQueued)) = 0%nat.
Proof. exact shutdown_queued_keeps_slot. Qed.
Print Assumptions C16_shutdown_queued_keeps_slot_refuted.

(* non-vacuity: concrete runs of the definitions the theorems speak about *)
(* ---------------------------------------------------------------- in progress => slot held (order of the phases)
   An inbound transfer is IN PROGRESS from the moment its slot is taken until the read of its stream has ended or the
   goroutine gave up.  recv_phases early loops = the receive goroutine with the order of AcceptWithCid, ReadToEOF/Close and
   the Release calls made explicit.  recv_phases false false is the code as it is NOW (release after the read; the
   goroutine returns after the stream it was started for, fixes/C16-receive-goroutine-returns-after-success.diff);
   loops = true is the code as found; early = true the ordering with the release right after AcceptWithCid. *)

(* forgetting the phases of the looping goroutine gives exactly the slot events used in the theorems above (whose
   statements quantify over all iteration lists and therefore cover the repaired goroutine as a special case) *)
Theorem C16_phases_refine_events : forall early its,
  (Acquire :: fst (recv_goroutine its), snd (recv_goroutine its)) =
  (erase_phases (fst (recv_phases early true its)), snd (recv_phases early true its)).
Proof. exact phases_erase. Qed.
Print Assumptions C16_phases_refine_events.

(* the code as it is now: Release never precedes the end of the read; while a transfer is in progress its slot is held *)
Theorem C16_slot_held_while_in_progress : forall its,
  slot_covers false false (fst (recv_phases false false its)) = true.
Proof. exact recv_phases_covered. Qed.
Print Assumptions C16_slot_held_while_in_progress.

(* At no time are more inbound transfers in progress than the limit: any number of offers with any outcomes, any
   interleaving of their phases on the real semaphore, stopped anywhere: in progress <= slots held = counter <= limit,
   and the semaphore never panics. *)
Theorem C16_inbound_in_progress_bounded : forall limit (itss : list (list recv_iter)) sched,
  exists sem ts,
    isched_run limit sched (0, map (fun its => it_start (fst (recv_phases false false its))) itss) = Ok (sem, ts) /\
    (N.of_nat (n_inprog ts) <= sem) /\ sem = N.of_nat (n_held ts) /\ sem <= limit.
Proof. exact inbound_in_progress_bounded_code. Qed.
Print Assumptions C16_inbound_in_progress_bounded.

(* the same for any phase lists that keep the slot while in progress (slot_covers is what the monitor evaluates on the
   order of events observed on the implementation) *)
Theorem C16_in_progress_bounded_general : forall limit (pss : list (list phase)) sched,
  Forall (fun ps => slot_covers false false ps = true) pss ->
  exists sem ts,
    isched_run limit sched (0, map it_start pss) = Ok (sem, ts) /\
    (N.of_nat (n_inprog ts) <= sem) /\ sem = N.of_nat (n_held ts) /\ sem <= limit.
Proof. exact inbound_in_progress_bounded. Qed.
Print Assumptions C16_in_progress_bounded_general.

(* the ordering with "release permit fast" right after AcceptWithCid does not have the property: the predicate fails and
   two transfers are in progress under limit 1 (so the theorems above do depend on the order) *)
Theorem C16_early_release_refuted :
  slot_covers false false (fst (recv_phases true false [RRead HEnqueued; RAcceptFail])) = false /\
  exists sched sem ts,
    isched_run 1 sched (0, map (fun its => it_start (fst (recv_phases true false its)))
                              [[RRead HEnqueued; RAcceptFail]; [RRead HEnqueued; RAcceptFail]]) = Ok (sem, ts) /\
    n_inprog ts = 2%nat.
Proof. split; [exact early_release_not_covered | exact early_release_exceeds_limit]. Qed.
Print Assumptions C16_early_release_refuted.

(* CODE AS FOUND: after a successfully handled stream the goroutine did not return but accepted again on the same
   connection id; a second stream arriving there was read (and its contents enqueued) with no slot held: a transfer in
   progress while the counter is 0.  Without a second stream the as-found loop was fine. *)
Theorem C16_second_stream_unslotted_refuted :
  slot_covers false false (fst (recv_phases false true [RRead HEnqueued; RRead HEnqueued; RAcceptFail])) = false /\
  exists sched sem ts,
    isched_run 1 sched (0, [it_start (fst (recv_phases false true [RRead HEnqueued; RRead HEnqueued; RAcceptFail]))]) = Ok (sem, ts) /\
    sem = 0 /\ n_inprog ts = 1%nat.
Proof. split; [exact second_stream_not_covered | exact second_stream_exceeds]. Qed.
Print Assumptions C16_second_stream_unslotted_refuted.

Theorem C16_as_found_loop_single_stream : forall limit (itss : list (list recv_iter)) sched,
  Forall (fun its => single_stream its = true) itss ->
  exists sem ts,
    isched_run limit sched (0, map (fun its => it_start (fst (recv_phases false true its))) itss) = Ok (sem, ts) /\
    (N.of_nat (n_inprog ts) <= sem) /\ sem = N.of_nat (n_held ts) /\ sem <= limit.
Proof. exact inbound_in_progress_bounded_loop. Qed.
Print Assumptions C16_as_found_loop_single_stream.

(* the scenario the harness plays on the real code (stalled sender, probe, second offer), computed on the model *)
Theorem C16_stall_scenario :
  stall_scenario false false 1 0 = Ok (0, false, 1) /\ stall_scenario false false 3 0 = Ok (2, true, 3) /\
  stall_scenario false false 3 2 = Ok (0, false, 1) /\ stall_scenario false false 50 49 = Ok (0, false, 1) /\
  stall_scenario true false 1 0 = Ok (1, true, 1).
Proof. destruct stall_scenario_code as (A & B & C & D). pose proof stall_scenario_early. repeat split; assumption. Qed.
Print Assumptions C16_stall_scenario.

(* ---------------------------------------------------------------- outbound: in progress => slot held
   The same phases for the outbound side: in progress from the moment gossip takes the slot until the offer has ended -
   offer()/processOffer returned without starting a transfer, or the transfer goroutine finished dialling and writing or
   gave up.  out_phases false = the code as it is; out_phases true = the deferred closure of processOffer evaluating
   notStartedUtp at the defer statement (Release at return although the transfer goroutine was started). *)
Theorem C16_out_phases_refine_events : forall o, erase_phases (out_phases false o) = out_events true o.
Proof. exact out_phases_erase. Qed.
Print Assumptions C16_out_phases_refine_events.

Theorem C16_outbound_slot_held_while_in_progress : forall o, slot_covers false false (out_phases false o) = true.
Proof. exact out_phases_covered. Qed.
Print Assumptions C16_outbound_slot_held_while_in_progress.

(* at no time are more outbound transfers in progress than the limit: any outcomes, any interleaving, stopped anywhere *)
Theorem C16_outbound_in_progress_bounded : forall limit (os : list out_outcome) sched,
  exists sem ts,
    isched_run limit sched (0, map (fun o => it_start (out_phases false o)) os) = Ok (sem, ts) /\
    (N.of_nat (n_inprog ts) <= sem) /\ sem = N.of_nat (n_held ts) /\ sem <= limit.
Proof. exact outbound_in_progress_bounded. Qed.
Print Assumptions C16_outbound_in_progress_bounded.

Theorem C16_outbound_early_release_refuted :
  (forall t, slot_covers false false (out_phases true (OGot (PWorker (SReply (RAccepted t))))) = false) /\
  exists sched sem ts,
    isched_run 1 sched (0, map (fun o => it_start (out_phases true o))
                              [OGot (PWorker (SReply (RAccepted TSuccess))); OGot (PWorker (SReply (RAccepted TSuccess)))]) = Ok (sem, ts) /\
    n_inprog ts = 2%nat.
Proof. split; [exact out_early_release_not_covered | exact out_early_release_exceeds_limit]. Qed.
Print Assumptions C16_outbound_early_release_refuted.

(* the outbound scenario of the harness (accepted offer, the receiver never lets the stream come up), on the model *)
Theorem C16_ostall_scenario :
  ostall_scenario false 1 0 = Ok (0, 1) /\ ostall_scenario false 3 0 = Ok (2, 3) /\
  ostall_scenario false 3 2 = Ok (0, 1) /\ ostall_scenario true 1 0 = Ok (1, 1).
Proof. exact ostall_scenario_code. Qed.
Print Assumptions C16_ostall_scenario.

(* ---------------------------------------------------------------- stale handles
   The protocol code keeps permit handles and releases through them more than once (handleOffer: "release permit fast",
   then the deferred call).  For ANY sequence of Get and Release calls, Release through any handle ever handed out and any
   number of times: no semaphore panic, slots in use = handles not yet released <= limit after every step (a repeated
   Release through an old handle frees nothing, whatever was handed out in between), Get fails exactly at the limit. *)
Theorem C16_stale_handles_harmless : forall limit ops,
  exists l, pops_run limit ops (0, []) = Ok l /\ Forall (fun x => snd x <= limit) l.
Proof. intros. apply stale_handles_harmless. split; [reflexivity | cbn; lia]. Qed.
Print Assumptions C16_stale_handles_harmless.

Theorem C16_stale_handle_step : forall limit st o, pinv limit st ->
  exists c hs ok, pop_step limit st o = Ok (c, hs, ok) /\ c = N.of_nat (n_live hs) /\ c <= limit /\
    (o = PopGet -> (ok = true <-> fst st < limit)).
Proof. exact get_after_stale_release. Qed.
Print Assumptions C16_stale_handle_step.

(* the call sequence of two overlapping inbound transfers under limit 1: A released, B acquired, A released AGAIN
   (A's deferred call): B still holds the only slot, the next Get fails *)
Theorem C16_stale_release_example :
  pops_run 1 [PopGet; PopRelease 0; PopGet; PopRelease 0; PopGet; PopRelease 1; PopGet] (0, []) =
  Ok [(true, 1); (true, 0); (true, 1); (true, 1); (false, 1); (true, 0); (true, 1)].
Proof. exact stale_release_example. Qed.
Print Assumptions C16_stale_release_example.

(* a further UtpTransportService.Start() (one per sub-network sharing the service) leaves the slots as they are: the
   stale-handle theorems above quantify over sequences that contain PopRestart anywhere *)
Theorem C16_restart_keeps_slots : forall limit st, pop_step limit st PopRestart = Ok (fst st, snd st, true).
Proof. exact restart_keeps_slots. Qed.
Print Assumptions C16_restart_keeps_slots.

Theorem C16_restart_scenario :
  pops_run 1 [PopGet; PopGet; PopRestart; PopGet] (0, []) = Ok [(true, 1); (false, 1); (true, 1); (false, 1)].
Proof. exact restart_scenario. Qed.
Print Assumptions C16_restart_scenario.

Example C16_nonvacuous :
  out_events true (OGot (PWorker STalkErr)) = [Acquire; Release] /\
  out_events false (OGot (PWorker STalkErr)) = [Acquire] /\
  out_events true (OGot (PWorker (SReply (RAccepted TDialFail)))) = [Acquire; Release] /\
  in_events (IGot [RRead HEnqueued; RAcceptFail]) = ([Acquire; Release; Release], true) /\
  effective [Acquire; Release; Release] = 1%nat /\
  sem_trace 2 [OpTryAcquire; OpTryAcquire; OpTryAcquire; OpRelease] 0 = [0; 1; 2; 2; 1] /\
  (* three offers on two slots, interleaved: the third is refused while two are in flight, everything ends at 0 *)
  sched_run 2 [0; 1; 2; 1; 0; 0]%nat (0, map LPending [2; 1; 1]%nat) =
    Ok (0, [LRunning (ReleasePermit true) 0; LRunning (ReleasePermit true) 0; LRunning NoPermit 0]) /\
  gossip_round true 3 5 0 1 (0, 0, 0) = Ok (1, 0, (1, 4, 0)) /\
  gossip_round false 3 5 0 1 (0, 0, 0) = Ok (3, 0, (1, 2, 2)).
Proof. repeat split; vm_compute; reflexivity. Qed.
