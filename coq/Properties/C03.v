(* Properties/C03.v : Header proofs in all four eras.
   Only statements, closed by lemmas of Proofs/HeaderProof.v, each followed by Print Assumptions.

   Model: Model/HeaderProof.v, `validate_header_and_proof H guard epochs roots sums oracle number hash proof`
     H      any pair hash (sha_pair in the runs); soundness clauses end in `\/ Collision H` (an explicit collision)
     guard  true = the repaired code (fixes/C03-historical-roots-bounds.diff), false = the code as found
   Accumulators are ARBITRARY: every entry is `troot H t` of some binary tree t; a clause speaks about a position only
   under the premise that the tree has it (`subtree t path = Some s`), so nothing is assumed about how they were built.
   Positions:  pre-merge   path_of 15 (4*8192 + 2*(n mod 8192))           in the tree of epoch n / 8192
               Merge..     path_of 14 (2*8192 + slot mod 8192)            in the tree of historical root slot / 8192,
                           then path_of 11 3228 inside the beacon block tree found there
               Shanghai..  path_of 13 (8192 + slot mod 8192)              in the tree of summary (slot - capella_start)/8192 (uint64),
                           then path_of 11 3228 (path_of 12 6444 from Cancun on)
   All numerals above are stated through the compiled constants K_... of Gen/K_header.v. *)
From Shisui Require Import Base.Bytes Base.Merkle Base.Sha256 Gen.K_header Model.HeaderProof Model.HeaderProver Proofs.Merkle Proofs.HeaderProof Proofs.HeaderProver.

(* ---------------------------------------------------------------- index arithmetic against the compiled constants *)

Theorem C03_epoch_sizes_agree : K_epochSize = K_EpochSize /\ K_PreMergeEpochs = (K_MergeBlockNumber + K_EpochSize - 1) / K_EpochSize.
Proof. exact (conj K_epoch_sizes_agree K_premerge_epochs). Qed.
Print Assumptions C03_epoch_sizes_agree.

Theorem C03_eras_ordered : K_MergeBlockNumber < K_ShanghaiBlockNumber /\ K_ShanghaiBlockNumber < K_CancunNumber /\ K_CancunNumber < two64.
Proof. exact K_eras_ordered. Qed.
Print Assumptions C03_eras_ordered.

Theorem C03_premerge_epoch_in_range : forall n, n < K_MergeBlockNumber -> n / K_EpochSize < K_PreMergeEpochs.
Proof. exact premerge_epoch_in_range. Qed.
Print Assumptions C03_premerge_epoch_in_range.

Theorem C03_premerge_gindex_depth : forall n, N.log2 (K_epochSize * 2 * 2 + (n mod K_EpochSize) * 2) = 15.
Proof. exact premerge_gindex_depth. Qed.
Print Assumptions C03_premerge_gindex_depth.

Theorem C03_exec_gindex_depths : N.log2 3228 = 11 /\ N.log2 6444 = 12.
Proof. exact exec_gindex_depths. Qed.
Print Assumptions C03_exec_gindex_depths.

Theorem C03_summary_index_no_wrap : forall slot,
  K_capellaForkEpoch * K_slotsPerEpoch <= slot -> slot < two64 ->
  summary_index slot = (slot - K_capellaForkEpoch * K_slotsPerEpoch) / K_epochSize.
Proof. exact summary_index_no_wrap. Qed.
Print Assumptions C03_summary_index_no_wrap.

Theorem C03_summary_index_wrap : forall slot,
  slot < K_capellaForkEpoch * K_slotsPerEpoch ->
  summary_index slot = (slot + two64 - K_capellaForkEpoch * K_slotsPerEpoch) / K_epochSize /\ 2251799813684489 < summary_index slot.
Proof. exact summary_index_wrap. Qed.
Print Assumptions C03_summary_index_wrap.

(* ---------------------------------------------------------------- (a) acceptance fixes the position (or a collision) *)

Theorem C03_accept_pre_merge : forall H g etrees roots sums oracle n hash proof,
  n < K_MergeBlockNumber ->
  validate_header_and_proof H g (map (troot H) etrees) roots sums oracle n hash proof = Ok tt ->
  exists t, nth_error etrees (N.to_nat (n / K_EpochSize)) = Some t /\
    forall s, subtree t (path_of 15 (K_epochSize * 2 * 2 + (n mod K_EpochSize) * 2)) = Some s -> troot H s = hash \/ Collision H.
Proof. exact accept_pre_merge. Qed.
Print Assumptions C03_accept_pre_merge.

Theorem C03_accept_merge_to_capella : forall H g epochs rtrees sums oracle n hash proof,
  K_MergeBlockNumber <= n -> n < K_ShanghaiBlockNumber ->
  validate_header_and_proof H g epochs (map (troot H) rtrees) sums oracle n hash proof = Ok tt ->
  exists p rt, decode_post 14 11 proof = Ok p /\
    nth_error rtrees (N.to_nat (pp_slot p / K_epochSize)) = Some rt /\
    forall bt es,
      subtree rt (path_of 14 (2 * K_epochSize + pp_slot p mod K_epochSize)) = Some bt ->
      subtree bt (path_of 11 3228) = Some es ->
      troot H es = hash \/ Collision H.
Proof. exact accept_merge_to_capella. Qed.
Print Assumptions C03_accept_merge_to_capella.

Theorem C03_accept_capella_to_deneb : forall H g epochs roots strees otrees n hash proof,
  K_ShanghaiBlockNumber <= n -> n < K_CancunNumber ->
  validate_header_and_proof H g epochs roots (map (troot H) strees) (oracle_roots H otrees) n hash proof = Ok tt ->
  exists p st, decode_post 13 11 proof = Ok p /\
    summary_tree strees otrees (pp_slot p) = Some st /\
    forall bt es,
      subtree st (path_of 13 (K_epochSize + pp_slot p mod K_epochSize)) = Some bt ->
      subtree bt (path_of 11 3228) = Some es ->
      troot H es = hash \/ Collision H.
Proof. exact accept_capella_to_deneb. Qed.
Print Assumptions C03_accept_capella_to_deneb.

Theorem C03_accept_post_deneb : forall H g epochs roots strees otrees n hash proof,
  K_CancunNumber <= n ->
  validate_header_and_proof H g epochs roots (map (troot H) strees) (oracle_roots H otrees) n hash proof = Ok tt ->
  exists p st, decode_post 13 12 proof = Ok p /\
    summary_tree strees otrees (pp_slot p) = Some st /\
    forall bt es,
      subtree st (path_of 13 (K_epochSize + pp_slot p mod K_epochSize)) = Some bt ->
      subtree bt (path_of 12 6444) = Some es ->
      troot H es = hash \/ Collision H.
Proof. exact accept_post_deneb. Qed.
Print Assumptions C03_accept_post_deneb.

(* ---------------------------------------------------------------- (b) honest proofs (siblings read off the trees) are accepted *)

Theorem C03_honest_pre_merge : forall H g etrees roots sums oracle n t s ss,
  n < K_MergeBlockNumber ->
  nth_error etrees (N.to_nat (n / K_EpochSize)) = Some t ->
  subtree t (path_of 15 (premerge_gindex n)) = Some s ->
  siblings H t (path_of 15 (premerge_gindex n)) = Some ss ->
  Forall len32 ss ->
  validate_header_and_proof H g (map (troot H) etrees) roots sums oracle n (troot H s) (concat (rev ss)) = Ok tt.
Proof. exact honest_pre_merge. Qed.
Print Assumptions C03_honest_pre_merge.

Theorem C03_honest_merge_to_capella : forall H g epochs rtrees sums oracle n slot rt bt es bsibs esibs,
  K_MergeBlockNumber <= n -> n < K_ShanghaiBlockNumber -> slot < two64 ->
  nth_error rtrees (N.to_nat (slot / K_epochSize)) = Some rt ->
  subtree rt (path_of 14 (2 * K_epochSize + slot mod K_epochSize)) = Some bt ->
  siblings H rt (path_of 14 (2 * K_epochSize + slot mod K_epochSize)) = Some bsibs ->
  subtree bt (path_of 11 3228) = Some es ->
  siblings H bt (path_of 11 3228) = Some esibs ->
  Forall len32 bsibs -> Forall len32 esibs -> len32 (troot H bt) ->
  validate_header_and_proof H g epochs (map (troot H) rtrees) sums oracle n (troot H es)
    (encode_post (rev bsibs) (troot H bt) (rev esibs) slot) = Ok tt.
Proof. exact honest_merge_to_capella. Qed.
Print Assumptions C03_honest_merge_to_capella.

Theorem C03_honest_capella_to_deneb : forall H g epochs roots strees otrees n slot st bt es bsibs esibs,
  K_ShanghaiBlockNumber <= n -> n < K_CancunNumber -> slot < two64 ->
  summary_tree strees otrees slot = Some st ->
  subtree st (path_of 13 (K_epochSize + slot mod K_epochSize)) = Some bt ->
  siblings H st (path_of 13 (K_epochSize + slot mod K_epochSize)) = Some bsibs ->
  subtree bt (path_of 11 3228) = Some es ->
  siblings H bt (path_of 11 3228) = Some esibs ->
  Forall len32 bsibs -> Forall len32 esibs -> len32 (troot H bt) ->
  validate_header_and_proof H g epochs roots (map (troot H) strees) (oracle_roots H otrees) n (troot H es)
    (encode_post (rev bsibs) (troot H bt) (rev esibs) slot) = Ok tt.
Proof. exact honest_capella_to_deneb. Qed.
Print Assumptions C03_honest_capella_to_deneb.

Theorem C03_honest_post_deneb : forall H g epochs roots strees otrees n slot st bt es bsibs esibs,
  K_CancunNumber <= n -> slot < two64 ->
  summary_tree strees otrees slot = Some st ->
  subtree st (path_of 13 (K_epochSize + slot mod K_epochSize)) = Some bt ->
  siblings H st (path_of 13 (K_epochSize + slot mod K_epochSize)) = Some bsibs ->
  subtree bt (path_of 12 6444) = Some es ->
  siblings H bt (path_of 12 6444) = Some esibs ->
  Forall len32 bsibs -> Forall len32 esibs -> len32 (troot H bt) ->
  validate_header_and_proof H g epochs roots (map (troot H) strees) (oracle_roots H otrees) n (troot H es)
    (encode_post (rev bsibs) (troot H bt) (rev esibs) slot) = Ok tt.
Proof. exact honest_post_deneb. Qed.
Print Assumptions C03_honest_post_deneb.

(* ---------------------------------------------------------------- (b') the PROVER: history.Accumulator (Update/Finish) + history.BuildProof
   Model/HeaderProver.v: acc_update / acc_run / acc_finish (epoch root = MixInLength(hash_tree_root of the 8192 zero-padded
   records, epochSize)), build_proof (14 hashes of tree.Prove(2*8192 + 2*(number mod 8192)) then the size chunk). *)

Theorem C03_prover_constants_agree :
  K_proverEpochSize = K_EpochSize /\ K_proverEpochSize = K_epochSize /\ K_proverMergeBlockNumber = K_MergeBlockNumber /\
  2 ^ 14 = 2 * K_proverEpochSize.
Proof. exact K_prover_agrees. Qed.
Print Assumptions C03_prover_constants_agree.

(* one epoch, ANY number of records in it (chunks = hash_0, td_0, hash_1, td_1, ... as far as the epoch is filled): the proof
   built for block number n verifies against the root the builder computes for those records *)
Theorem C03_built_proof_verifies_epoch : forall H, (forall a b, len32 (H a b)) ->
  forall g epochs roots sums oracle n chunks hash,
  n < K_MergeBlockNumber ->
  nth_error epochs (N.to_nat (n / K_EpochSize)) = Some (epoch_root H chunks) ->
  Forall len32 chunks ->
  nth (N.to_nat (2 * (n mod K_proverEpochSize))) chunks zero_chunk = hash ->
  validate_header_and_proof H g epochs roots sums oracle n hash (concat (build_proof H chunks n)) = Ok tt.
Proof. exact built_proof_verifies_epoch. Qed.
Print Assumptions C03_built_proof_verifies_epoch.

(* whole chains: for every header list accepted by Update (any length: empty, partial last epoch, many epochs), every position i
   whose header carries number i, the proof BuildProof emits from the records the builder held for i's epoch when it closed it
   (state a_e, reached after the first k headers) verifies against the accumulator Finish returns *)
Theorem C03_built_proof_verifies : forall H, (forall a b, len32 (H a b)) ->
  forall hs a i hash diff,
  Forall hdr_ok hs ->
  acc_run H acc_new hs = Ok a ->
  nth_error hs (N.to_nat i) = Some (i, hash, diff) ->
  exists a_e k, acc_run H acc_new (firstn k hs) = Ok a_e /\
    forall g roots sums oracle,
      validate_header_and_proof H g (acc_finish H a) roots sums oracle i hash (concat (build_proof H (a_chunks a_e) i)) = Ok tt.
Proof. exact built_proof_verifies. Qed.
Print Assumptions C03_built_proof_verifies.

(* the instance that runs: SHA-256 does return 32 bytes *)
Theorem C03_built_proof_verifies_sha : forall hs a i hash diff,
  Forall hdr_ok hs ->
  acc_run sha_pair acc_new hs = Ok a ->
  nth_error hs (N.to_nat i) = Some (i, hash, diff) ->
  exists a_e k, acc_run sha_pair acc_new (firstn k hs) = Ok a_e /\
    forall g roots sums oracle,
      validate_header_and_proof sha_pair g (acc_finish sha_pair a) roots sums oracle i hash
        (concat (build_proof sha_pair (a_chunks a_e) i)) = Ok tt.
Proof. exact built_proof_verifies_sha. Qed.
Print Assumptions C03_built_proof_verifies_sha.

(* ---------------------------------------------------------------- (c) another hash, an altered node, another era or size: rejected, or a collision *)

(* two different header hashes accepted at the same position *)
Theorem C03_two_hashes_pre_merge : forall H g etrees roots sums oracle n h1 h2 proof1 proof2 t s,
  n < K_MergeBlockNumber ->
  validate_header_and_proof H g (map (troot H) etrees) roots sums oracle n h1 proof1 = Ok tt ->
  validate_header_and_proof H g (map (troot H) etrees) roots sums oracle n h2 proof2 = Ok tt ->
  nth_error etrees (N.to_nat (n / K_EpochSize)) = Some t ->
  subtree t (path_of 15 (premerge_gindex n)) = Some s ->
  h1 = h2 \/ Collision H.
Proof. exact two_hashes_pre_merge. Qed.
Print Assumptions C03_two_hashes_pre_merge.

Theorem C03_two_hashes_merge_to_capella : forall H g epochs rtrees sums oracle n1 n2 h1 h2 proof1 proof2 p1 p2 rt bt es,
  K_MergeBlockNumber <= n1 -> n1 < K_ShanghaiBlockNumber -> K_MergeBlockNumber <= n2 -> n2 < K_ShanghaiBlockNumber ->
  validate_header_and_proof H g epochs (map (troot H) rtrees) sums oracle n1 h1 proof1 = Ok tt ->
  validate_header_and_proof H g epochs (map (troot H) rtrees) sums oracle n2 h2 proof2 = Ok tt ->
  decode_post 14 11 proof1 = Ok p1 -> decode_post 14 11 proof2 = Ok p2 -> pp_slot p1 = pp_slot p2 ->
  nth_error rtrees (N.to_nat (pp_slot p1 / K_epochSize)) = Some rt ->
  subtree rt (path_of 14 (2 * K_epochSize + pp_slot p1 mod K_epochSize)) = Some bt ->
  subtree bt (path_of 11 3228) = Some es ->
  h1 = h2 \/ Collision H.
Proof. exact two_hashes_merge_to_capella. Qed.
Print Assumptions C03_two_hashes_merge_to_capella.

Theorem C03_two_hashes_capella_to_deneb : forall H g epochs roots strees otrees n1 n2 h1 h2 proof1 proof2 p1 p2 st bt es,
  K_ShanghaiBlockNumber <= n1 -> n1 < K_CancunNumber -> K_ShanghaiBlockNumber <= n2 -> n2 < K_CancunNumber ->
  validate_header_and_proof H g epochs roots (map (troot H) strees) (oracle_roots H otrees) n1 h1 proof1 = Ok tt ->
  validate_header_and_proof H g epochs roots (map (troot H) strees) (oracle_roots H otrees) n2 h2 proof2 = Ok tt ->
  decode_post 13 11 proof1 = Ok p1 -> decode_post 13 11 proof2 = Ok p2 -> pp_slot p1 = pp_slot p2 ->
  summary_tree strees otrees (pp_slot p1) = Some st ->
  subtree st (path_of 13 (K_epochSize + pp_slot p1 mod K_epochSize)) = Some bt ->
  subtree bt (path_of 11 3228) = Some es ->
  h1 = h2 \/ Collision H.
Proof. exact two_hashes_capella_to_deneb. Qed.
Print Assumptions C03_two_hashes_capella_to_deneb.

Theorem C03_two_hashes_post_deneb : forall H g epochs roots strees otrees n1 n2 h1 h2 proof1 proof2 p1 p2 st bt es,
  K_CancunNumber <= n1 -> K_CancunNumber <= n2 ->
  validate_header_and_proof H g epochs roots (map (troot H) strees) (oracle_roots H otrees) n1 h1 proof1 = Ok tt ->
  validate_header_and_proof H g epochs roots (map (troot H) strees) (oracle_roots H otrees) n2 h2 proof2 = Ok tt ->
  decode_post 13 12 proof1 = Ok p1 -> decode_post 13 12 proof2 = Ok p2 -> pp_slot p1 = pp_slot p2 ->
  summary_tree strees otrees (pp_slot p1) = Some st ->
  subtree st (path_of 13 (K_epochSize + pp_slot p1 mod K_epochSize)) = Some bt ->
  subtree bt (path_of 12 6444) = Some es ->
  h1 = h2 \/ Collision H.
Proof. exact two_hashes_post_deneb. Qed.
Print Assumptions C03_two_hashes_post_deneb.

(* the accepted proof is, byte for byte, the honest proof for that position: any altered sibling / beacon block root makes it
   rejected (or exhibits a collision); together with (a), a proof for another position or slot is a proof of another leaf *)
Theorem C03_accepted_is_honest_pre_merge : forall H g etrees roots sums oracle n hash proof t ss,
  n < K_MergeBlockNumber ->
  validate_header_and_proof H g (map (troot H) etrees) roots sums oracle n hash proof = Ok tt ->
  nth_error etrees (N.to_nat (n / K_EpochSize)) = Some t ->
  siblings H t (path_of 15 (premerge_gindex n)) = Some ss ->
  proof = concat (rev ss) \/ Collision H.
Proof. exact accepted_is_honest_pre_merge. Qed.
Print Assumptions C03_accepted_is_honest_pre_merge.

Theorem C03_accepted_is_honest_merge_to_capella : forall H g epochs rtrees sums oracle n hash proof p rt bt bsibs esibs,
  K_MergeBlockNumber <= n -> n < K_ShanghaiBlockNumber ->
  validate_header_and_proof H g epochs (map (troot H) rtrees) sums oracle n hash proof = Ok tt ->
  decode_post 14 11 proof = Ok p ->
  nth_error rtrees (N.to_nat (pp_slot p / K_epochSize)) = Some rt ->
  subtree rt (path_of 14 (2 * K_epochSize + pp_slot p mod K_epochSize)) = Some bt ->
  siblings H rt (path_of 14 (2 * K_epochSize + pp_slot p mod K_epochSize)) = Some bsibs ->
  siblings H bt (path_of 11 3228) = Some esibs ->
  proof = encode_post (rev bsibs) (troot H bt) (rev esibs) (pp_slot p) \/ Collision H.
Proof. exact accepted_is_honest_merge_to_capella. Qed.
Print Assumptions C03_accepted_is_honest_merge_to_capella.

Theorem C03_accepted_is_honest_summary_eras : forall H g epochs roots strees otrees n hash proof ne ge p st bt bsibs esibs,
  (K_ShanghaiBlockNumber <= n /\ n < K_CancunNumber /\ ne = 11%nat /\ ge = 3228) \/ (K_CancunNumber <= n /\ ne = 12%nat /\ ge = 6444) ->
  validate_header_and_proof H g epochs roots (map (troot H) strees) (oracle_roots H otrees) n hash proof = Ok tt ->
  decode_post 13 ne proof = Ok p ->
  summary_tree strees otrees (pp_slot p) = Some st ->
  subtree st (path_of 13 (K_epochSize + pp_slot p mod K_epochSize)) = Some bt ->
  siblings H st (path_of 13 (K_epochSize + pp_slot p mod K_epochSize)) = Some bsibs ->
  siblings H bt (path_of ne ge) = Some esibs ->
  proof = encode_post (rev bsibs) (troot H bt) (rev esibs) (pp_slot p) \/ Collision H.
Proof. exact accepted_is_honest_summary_eras. Qed.
Print Assumptions C03_accepted_is_honest_summary_eras.

(* a proof whose size is not the one of the block number's era (840 / 808 / 840 bytes; a Capella proof for a Deneb header, a
   pre-merge proof for a post-merge header ...) is rejected.  Bellatrix and Deneb containers have the same size: that swap is
   covered by (a) - whatever is accepted proves the Deneb position. *)
Theorem C03_wrong_size_rejected : forall H g epochs roots sums oracle n hash proof,
  K_MergeBlockNumber <= n -> length proof <> era_proof_size n ->
  validate_header_and_proof H g epochs roots sums oracle n hash proof = Err E_SIZE.
Proof. exact wrong_size_rejected. Qed.
Print Assumptions C03_wrong_size_rejected.

Theorem C03_wrong_size_rejected_pre_merge : forall H g epochs roots sums oracle n hash proof,
  n < K_MergeBlockNumber -> n / K_EpochSize < nlen epochs -> length proof <> 480%nat ->
  validate_header_and_proof H g epochs roots sums oracle n hash proof = Err E_MULT32 \/
  validate_header_and_proof H g epochs roots sums oracle n hash proof = Err E_PROOF_LEN.
Proof. exact wrong_size_rejected_pre_merge. Qed.
Print Assumptions C03_wrong_size_rejected_pre_merge.

(* ---------------------------------------------------------------- (d) out-of-range positions give an error *)

(* repaired code *)
Theorem C03_roots_out_of_range_err : forall H epochs roots sums oracle n hash proof p,
  K_MergeBlockNumber <= n -> n < K_ShanghaiBlockNumber ->
  decode_post 14 11 proof = Ok p -> nlen roots <= pp_slot p / K_epochSize ->
  exists e, validate_header_and_proof H true epochs roots sums oracle n hash proof = Err e.
Proof. exact roots_out_of_range_err. Qed.
Print Assumptions C03_roots_out_of_range_err.

Theorem C03_summaries_out_of_range_err : forall H g epochs roots sums oracle n hash proof p,
  (K_ShanghaiBlockNumber <= n /\ n < K_CancunNumber /\ decode_post 13 11 proof = Ok p) \/
  (K_CancunNumber <= n /\ decode_post 13 12 proof = Ok p) ->
  nlen sums <= summary_index (pp_slot p) ->
  match oracle with Some (Ok l) => nlen l <= summary_index (pp_slot p) | Some Panic => False | _ => True end ->
  exists e, validate_header_and_proof H g epochs roots sums oracle n hash proof = Err e.
Proof. exact summaries_out_of_range_err. Qed.
Print Assumptions C03_summaries_out_of_range_err.

Theorem C03_summaries_underflow_err : forall H g epochs roots sums n hash proof p,
  (K_ShanghaiBlockNumber <= n /\ n < K_CancunNumber /\ decode_post 13 11 proof = Ok p) \/
  (K_CancunNumber <= n /\ decode_post 13 12 proof = Ok p) ->
  pp_slot p < capella_start -> nlen sums <= 2251799813684489 ->
  exists e, validate_header_and_proof H g epochs roots sums None n hash proof = Err e.
Proof. exact summaries_underflow_err. Qed.
Print Assumptions C03_summaries_underflow_err.

(* the code as found: for EVERY hash, the same situation is a panic as soon as the execution stage passes ... *)
Theorem C03_as_found_roots_out_of_range_panics : forall H epochs roots sums oracle n hash proof p,
  K_MergeBlockNumber <= n -> n < K_ShanghaiBlockNumber ->
  decode_post 14 11 proof = Ok p -> nlen roots <= pp_slot p / K_epochSize ->
  verify_exec H 3228 hash (pp_exec p) (pp_root p) = Ok true ->
  validate_header_and_proof H false epochs roots sums oracle n hash proof = Panic.
Proof. exact roots_out_of_range_as_found. Qed.
Print Assumptions C03_as_found_roots_out_of_range_panics.

(* ... and with SHA-256 there is such an input (the witness replayed on the real code by the harness): (d) and (e) are REFUTED
   for the code as found *)
Theorem C03_as_found_out_of_range_err_refuted :
  exists epochs roots sums oracle n hash proof p,
    K_MergeBlockNumber <= n /\ n < K_ShanghaiBlockNumber /\ decode_post 14 11 proof = Ok p /\
    nlen roots <= pp_slot p / K_epochSize /\
    ~ (exists e, validate_header_and_proof sha_pair false epochs roots sums oracle n hash proof = Err e).
Proof. exact as_found_out_of_range_err_refuted. Qed.
Print Assumptions C03_as_found_out_of_range_err_refuted.

Theorem C03_as_found_never_panics_refuted :
  exists epochs roots sums oracle n hash proof,
    K_PreMergeEpochs <= nlen epochs /\ oracle <> Some Panic /\
    validate_header_and_proof sha_pair false epochs roots sums oracle n hash proof = Panic.
Proof. exact as_found_never_panics_refuted. Qed.
Print Assumptions C03_as_found_never_panics_refuted.

(* ---------------------------------------------------------------- (e) the repaired validator never panics *)

(* for every hash function, all accumulators that cover the pre-merge epochs (the embedded one has exactly PreMergeEpochs entries:
   checked by the harness on every run), every block number, hash and proof, and any oracle answer that is not itself a panic *)
Theorem C03_never_panics : forall H epochs roots sums oracle n hash proof,
  K_PreMergeEpochs <= nlen epochs -> oracle <> Some Panic ->
  validate_header_and_proof H true epochs roots sums oracle n hash proof <> Panic.
Proof. exact never_panics. Qed.
Print Assumptions C03_never_panics.

(* the hypothesis on the pre-merge accumulator cannot be dropped: HistoricalEpochs[epochIndex] is unguarded in both variants.
   Not reachable through the public constructors (they embed the full accumulator); reachable only for a caller-supplied shorter one. *)
Theorem C03_short_epochs_panic : forall H g epochs roots sums oracle n hash proof,
  n < K_MergeBlockNumber -> nlen epochs <= n / K_EpochSize ->
  validate_header_and_proof H g epochs roots sums oracle n hash proof = Panic.
Proof. exact short_epochs_panic. Qed.
Print Assumptions C03_short_epochs_panic.

(* the repair changes nothing else: wherever the repaired validator does not answer with the new bounds error, the code as found
   computes the same result (so (a)-(c) hold for both variants, as stated, and the fix cannot have broken an accepted proof) *)
Theorem C03_fix_changes_only_the_panic : forall H epochs roots sums oracle n hash proof,
  validate_header_and_proof H true epochs roots sums oracle n hash proof <> Err E_ROOTS_RANGE ->
  validate_header_and_proof H false epochs roots sums oracle n hash proof =
  validate_header_and_proof H true epochs roots sums oracle n hash proof.
Proof. exact as_found_agrees_unless_guard_fires. Qed.
Print Assumptions C03_fix_changes_only_the_panic.

(* ---------------------------------------------------------------- (f) HISTORIES on one validator: the summaries cache is state
   Model: get_historical_summary_st (value and cache after the call: the cache is REPLACED by the oracle's list exactly when that
   list contains the requested index), validate_step, run_history.  Hypothesis on the oracle, stated precisely: every answer
   `Some (Ok l)` given during the history is a prefix of ONE list `truth` (the eventual list of true summaries; errors and a nil oracle
   are allowed at any step), and the initial cache is a prefix of it:  oracle_consistent truth o, is_prefix cache truth. *)

(* the verdict of a step is ValidateHeaderAndProof over the cache of that moment: all per-call theorems above apply to every step *)
Theorem C03_step_verdict : forall H g epochs roots cache oracle n hash proof,
  fst (validate_step H g epochs roots cache (oracle, n, hash, proof)) =
  validate_header_and_proof H g epochs roots cache oracle n hash proof.
Proof. exact validate_step_verdict. Qed.
Print Assumptions C03_step_verdict.

(* invariant: after every call of every history the cache is a prefix of the true list (never misaligned) *)
Theorem C03_history_cache_is_true_prefix : forall H truth g epochs roots evs cache,
  is_prefix cache truth -> Forall (fun ev => oracle_consistent truth (ev_oracle ev)) evs ->
  Forall (fun vc => is_prefix (snd vc) truth) (run_history H g epochs roots cache evs).
Proof. exact history_cache_is_true_prefix. Qed.
Print Assumptions C03_history_cache_is_true_prefix.

(* the summary used for slot s is the TRUE summary of index (s - capella_start)/8192 (uint64), and every covered one is found *)
Theorem C03_summary_used_is_true : forall truth cache oracle slot r,
  is_prefix cache truth -> oracle_consistent truth oracle ->
  get_historical_summary cache oracle slot = Ok r ->
  nth_error truth (N.to_nat (summary_index slot)) = Some r.
Proof. exact summary_is_true. Qed.
Print Assumptions C03_summary_used_is_true.

Theorem C03_summary_known_is_found : forall truth cache oracle slot r,
  is_prefix cache truth -> oracle_consistent truth oracle ->
  nth_error truth (N.to_nat (summary_index slot)) = Some r ->
  (summary_index slot < nlen cache \/ exists l, oracle = Some (Ok l) /\ summary_index slot < nlen l) ->
  get_historical_summary cache oracle slot = Ok r.
Proof. exact summary_is_known. Qed.
Print Assumptions C03_summary_known_is_found.

(* call number k of ANY history: accepted => the header hash is the node at the position fixed by the CLAIMED slot inside the true
   summary of that slot's index (or a collision).  Hence a proof re-claimed at another slot (another period, same record) is
   rejected at every step: it would have to prove the leaf of the other period's true summary. *)
Theorem C03_history_accept_summary_eras : forall H g epochs roots ttrees evs cache k oracle n hash proof ne ge,
  is_prefix cache (map (troot H) ttrees) ->
  Forall (fun ev => oracle_consistent (map (troot H) ttrees) (ev_oracle ev)) evs ->
  nth_error evs k = Some (oracle, n, hash, proof) ->
  summary_era n ne ge ->
  option_map fst (nth_error (run_history H g epochs roots cache evs) k) = Some (Ok tt) ->
  exists p st, decode_post 13 ne proof = Ok p /\
    nth_error ttrees (N.to_nat (summary_index (pp_slot p))) = Some st /\
    forall bt es,
      subtree st (path_of 13 (K_epochSize + pp_slot p mod K_epochSize)) = Some bt ->
      subtree bt (path_of ne ge) = Some es ->
      troot H es = hash \/ Collision H.
Proof. exact history_accept_summary_eras. Qed.
Print Assumptions C03_history_accept_summary_eras.

(* call number k of ANY history: the honest proof is accepted whenever the cache of that moment or the oracle's answer of that
   step covers its summary *)
Theorem C03_history_honest_summary_eras : forall H g epochs roots ttrees evs cache k oracle n ne ge slot st bt es bsibs esibs,
  is_prefix cache (map (troot H) ttrees) ->
  Forall (fun ev => oracle_consistent (map (troot H) ttrees) (ev_oracle ev)) evs ->
  nth_error evs k = Some (oracle, n, troot H es, encode_post (rev bsibs) (troot H bt) (rev esibs) slot) ->
  summary_era n ne ge -> slot < two64 ->
  nth_error ttrees (N.to_nat (summary_index slot)) = Some st ->
  (summary_index slot < nlen (cache_before H g epochs roots cache evs k) \/ exists l, oracle = Some (Ok l) /\ summary_index slot < nlen l) ->
  subtree st (path_of 13 (K_epochSize + slot mod K_epochSize)) = Some bt ->
  siblings H st (path_of 13 (K_epochSize + slot mod K_epochSize)) = Some bsibs ->
  subtree bt (path_of ne ge) = Some es ->
  siblings H bt (path_of ne ge) = Some esibs ->
  Forall len32 bsibs -> Forall len32 esibs -> len32 (troot H bt) ->
  option_map fst (nth_error (run_history H g epochs roots cache evs) k) = Some (Ok tt).
Proof. exact history_honest_summary_eras. Qed.
Print Assumptions C03_history_honest_summary_eras.

(* no other state: the verdict of call k of ANY history (all four eras) is ValidateHeaderAndProof of that call's own inputs over the
   summaries cache of that moment - having accepted a header before does not make any other proof for it acceptable *)
Theorem C03_history_step_verdict : forall H g epochs roots evs cache k oracle n hash proof,
  nth_error evs k = Some (oracle, n, hash, proof) ->
  option_map fst (nth_error (run_history H g epochs roots cache evs) k) =
  Some (validate_header_and_proof H g epochs roots (cache_before H g epochs roots cache evs k) oracle n hash proof).
Proof. exact history_step_verdict. Qed.
Print Assumptions C03_history_step_verdict.

(* pre-merge and Merge..Shanghai: no state at all *)
Theorem C03_verdict_ignores_cache_before_shanghai : forall H g epochs roots cache1 oracle1 cache2 oracle2 n hash proof,
  n < K_ShanghaiBlockNumber ->
  validate_header_and_proof H g epochs roots cache1 oracle1 n hash proof =
  validate_header_and_proof H g epochs roots cache2 oracle2 n hash proof.
Proof. exact verdict_ignores_cache_before_shanghai. Qed.
Print Assumptions C03_verdict_ignores_cache_before_shanghai.

Theorem C03_step_keeps_cache_before_shanghai : forall H g epochs roots cache oracle n hash proof,
  n < K_ShanghaiBlockNumber -> snd (validate_step H g epochs roots cache (oracle, n, hash, proof)) = cache.
Proof. exact step_keeps_cache_before_shanghai. Qed.
Print Assumptions C03_step_keeps_cache_before_shanghai.

(* OVERLAPPING calls on one validator.  They see one oracle answer o that extends the cache (or an error, or no oracle); whatever
   the first call did to the provider, the verdict of the second is the one it gets on the untouched cache: for every
   interleaving of atomic provider accesses every verdict is ValidateHeaderAndProof of the call's own inputs, and the sequential
   run_history is the specification of the overlapping groups the harness schedules (first call held inside the oracle lookup
   until the others have gone as far as they can) *)
Theorem C03_overlapping_calls_order_independent : forall H g epochs roots cache o n1 hash1 proof1 n2 hash2 proof2,
  oracle_extends cache o ->
  fst (validate_step H g epochs roots (snd (validate_step H g epochs roots cache (o, n1, hash1, proof1))) (o, n2, hash2, proof2)) =
  fst (validate_step H g epochs roots cache (o, n2, hash2, proof2)).
Proof. exact overlapping_calls_order_independent. Qed.
Print Assumptions C03_overlapping_calls_order_independent.

(* ---------------------------------------------------------------- premises are satisfiable by non-trivial values *)
Example C03_nonvacuous :
  let n := 8197 in                                   (* epoch 1, record 5 *)
  let path := path_of 15 (premerge_gindex n) in
  let sibs := map (fun b => repeat b 32) [x01; x02; x03; x04; x05; x06; x07; x08; x09; x0a; x0b; x0c; x0d; x0e; x0f] in
  let t := path_tree path sibs (Leaf w_hash) in
  let etrees := [Leaf zero32; t] in
  subtree t path = Some (Leaf w_hash) /\
  siblings sha_pair t path = Some sibs /\ Forall len32 sibs /\
  validate_header_and_proof sha_pair true (map (troot sha_pair) etrees) [] [] None n w_hash (concat (rev sibs)) = Ok tt /\
  validate_header_and_proof sha_pair true (map (troot sha_pair) etrees) [] [] None n w_root (concat (rev sibs)) = Err E_MERKLE /\
  validate_header_and_proof sha_pair true w_epochs w_roots [] None 16000000 w_hash w_proof = Err E_ROOTS_RANGE /\
  validate_header_and_proof sha_pair true w_epochs (w_roots ++ [w_root]) [] None 16000000 w_hash
      (concat (repeat zero32 14) ++ w_root ++ concat (repeat zero32 11) ++ n2le 8 (758 * 8192)) = Err E_MERKLE.
Proof.
  cbv zeta. split; [vm_compute; reflexivity|]. split; [vm_compute; reflexivity|].
  split; [repeat (apply Forall_cons; [vm_compute; reflexivity|]); apply Forall_nil|].
  split; [vm_compute; reflexivity|]. split; [vm_compute; reflexivity|].
  split; vm_compute; reflexivity.
Qed.

(* the prover on a 3-header chain (a partial epoch): premises hold and the built proof verifies *)
Example C03_prover_nonvacuous :
  Forall hdr_ok ex_chain /\
  exists a, acc_run sha_pair acc_new ex_chain = Ok a /\ a_count a = 3 /\ length (acc_finish sha_pair a) = 1%nat /\
    validate_header_and_proof sha_pair true (acc_finish sha_pair a) [] [] None 2 (repeat x33 32)
      (concat (build_proof sha_pair (a_chunks a) 2)) = Ok tt.
Proof.
  split; [repeat (apply Forall_cons; [vm_compute; reflexivity|]); apply Forall_nil|].
  eexists. split; [vm_compute; reflexivity|]. split; [reflexivity|]. split; [reflexivity|].
  vm_compute; reflexivity.
Qed.

(* a history step whose execution stage passes (w_root is folded from w_hash) consults the oracle, the cache becomes the oracle's
   list although the verdict is an error; the next call is served from the cache (the failing oracle is not asked) *)
Example C03_history_nonvacuous :
  let proof := concat (repeat zero32 13) ++ w_root ++ concat (repeat zero32 11) ++ n2le 8 (capella_start + 8192) in
  let answer := [zero32; w_root] in
  oracle_consistent (answer ++ [zero32]) (Some (Ok answer)) /\
  map snd (run_history sha_pair true [] [] [] [(Some (Ok answer), K_ShanghaiBlockNumber, w_hash, proof);
                                               (Some (Err 8), K_ShanghaiBlockNumber, w_hash, proof)]) = [answer; answer] /\
  map fst (run_history sha_pair true [] [] [] [(Some (Err 8), K_ShanghaiBlockNumber, w_hash, proof)]) = [Err E_ORACLE].
Proof.
  cbv zeta. split; [exists [zero32]; reflexivity|]. split; vm_compute; reflexivity.
Qed.
