(* Properties/C15.v : Content stream framing round-trips and rejects malformed streams.
   Only statements, closed by lemmas of Proofs/Framing.v, each followed by Print Assumptions. *)
From Shisui Require Import Base.Bytes Model.Framing Proofs.Framing Proofs.FramingExtra Model.Dispatch Proofs.Dispatch.

(* splitting inverts joining, for any list of items shorter than 2^32 bytes (empty items and the empty list included) *)
Theorem C15_roundtrip : forall l : list bytes,
  Forall short l -> decode_contents (encode_contents l) = Ok l.
Proof. exact decode_encode_contents. Qed.
Print Assumptions C15_roundtrip.

Theorem C15_single_roundtrip : forall d r, short d -> decode_single (encode_single d ++ r) = Ok (d, r).
Proof. exact decode_single_encode. Qed.
Print Assumptions C15_single_roundtrip.

(* any accepted stream is the forced concatenation header_i ++ item_i, header_i a <=5-byte varint that decodes to |item_i| *)
Theorem C15_image : forall data l, decode_contents data = Ok l -> framed data l.
Proof. exact decode_contents_image. Qed.
Print Assumptions C15_image.

(* truncated stream: rejected, or cut exactly on an item boundary (then it is the encoding of a prefix of the list) *)
Theorem C15_truncation : forall l, Forall short l ->
  forall p z l', p ++ z = encode_contents l -> decode_contents p = Ok l' ->
    exists k, l' = firstn k l /\ p = encode_contents l'.
Proof. exact decode_prefix. Qed.
Print Assumptions C15_truncation.

(* length prefix beyond the remaining bytes *)
Theorem C15_length_exceeds : forall data clen hsz rest,
  leb_decode_u32 data = Ok (clen, hsz, rest) -> nlen rest < clen ->
  decode_single data = Err E_INSUFFICIENT.
Proof. exact decode_single_truncated. Qed.
Print Assumptions C15_length_exceeds.

(* varint overflowing 32 bits *)
Theorem C15_varint_too_long : forall b1 b2 b3 b4 b5 r,
  cont b1 -> cont b2 -> cont b3 -> cont b4 -> cont b5 ->
  leb_decode_u32 (b1 :: b2 :: b3 :: b4 :: b5 :: r) = Err E_OVERFLOW32.
Proof. exact leb_five_continuations. Qed.
Print Assumptions C15_varint_too_long.

Theorem C15_varint_high_bits : forall b1 b2 b3 b4 b5 r,
  cont b1 -> cont b2 -> cont b3 -> cont b4 -> 16 <= b2n b5 ->
  leb_decode_u32 (b1 :: b2 :: b3 :: b4 :: b5 :: r) = Err E_OVERFLOW32.
Proof. exact leb_fifth_byte_overflow. Qed.
Print Assumptions C15_varint_high_bits.

(* single-item stream: accepted iff the prefix covers exactly the remaining bytes *)
Theorem C15_single_item_exact : forall data c,
  decode_utp_content 1 data = Ok c <->
  exists h, data = h ++ c /\ (1 <= length h <= 5)%nat /\
            (forall r', leb_decode_u32 (h ++ r') = Ok (nlen c, nlen h, r')).
Proof. exact decode_utp_v1_iff. Qed.
Print Assumptions C15_single_item_exact.

Theorem C15_single_item_trailing : forall d x r,
  short d -> decode_utp_content 1 (encode_single d ++ x :: r) = Err E_LEN_MISMATCH.
Proof. exact utp_v1_trailing_rejected. Qed.
Print Assumptions C15_single_item_trailing.

Theorem C15_utp_roundtrip : forall v d, short d -> decode_utp_content v (encode_utp_content v d) = Ok d.
Proof. exact utp_roundtrip. Qed.
Print Assumptions C15_utp_roundtrip.

(* decoding never panics (feeds C01) *)
Theorem C15_total : forall data, decode_contents data <> Panic.
Proof. exact decode_contents_no_panic. Qed.
Print Assumptions C15_total.

(* the consumer on the OFFER path (handleOfferedContents): something is enqueued only when the WHOLE stream decodes
   and holds exactly one item per awaited key - a malformed tail or surplus items discard everything *)
Theorem C15_offered_contents_whole_stream : forall nkeys payload cs,
  handle_offered_contents nkeys payload = Ok (Some cs) -> length cs = nkeys /\ decode_contents payload = Ok cs.
Proof. exact handle_offered_contents_count. Qed.
Print Assumptions C15_offered_contents_whole_stream.

(* split items can be joined again, any number of times, and give the same stream: joining is a function of the items
   (the harness checks the implementation's side of this on items that are sub-slices of a receive buffer) *)
Theorem C15_rejoin : forall (l : list bytes) k,
  Forall short l ->
  match decode_contents (encode_contents l) with
  | Ok l' => Nat.iter k (fun s => match decode_contents s with Ok x => encode_contents x | _ => s end) (encode_contents l') = encode_contents l
  | _ => False
  end.
Proof. exact rejoin_split_stream. Qed.
Print Assumptions C15_rejoin.

(* unique decodability: "rejected rather than split differently" - a stream has one split, a list one canonical stream *)
Theorem C15_join_injective : forall l1 l2 : list bytes,
  Forall short l1 -> Forall short l2 -> encode_contents l1 = encode_contents l2 -> l1 = l2.
Proof. exact encode_contents_injective. Qed.
Print Assumptions C15_join_injective.

Theorem C15_split_unique : forall data l1 l2, framed data l1 -> framed data l2 -> l1 = l2.
Proof. exact framed_functional. Qed.
Print Assumptions C15_split_unique.

(* size accounting of any accepted stream: between 1 and 5 prefix bytes per item plus the items' bytes, so the
   splitter can neither invent bytes nor produce more items than the stream has bytes (resource bound used by C01) *)
Theorem C15_split_size_lower : forall data l,
  decode_contents data = Ok l -> (length l + total_len l <= length data)%nat.
Proof. exact decode_contents_size. Qed.
Print Assumptions C15_split_size_lower.

Theorem C15_split_size_upper : forall data l,
  decode_contents data = Ok l -> (length data <= 5 * length l + total_len l)%nat.
Proof. exact decode_contents_upper. Qed.
Print Assumptions C15_split_size_upper.

(* streams compose: joining distributes over append, and two accepted streams laid end to end split into the two lists
   laid end to end - no item straddles the seam (what lets a sender write the frames one after another) *)
Theorem C15_join_append : forall l1 l2 : list bytes,
  encode_contents (l1 ++ l2) = encode_contents l1 ++ encode_contents l2.
Proof. exact encode_contents_app. Qed.
Print Assumptions C15_join_append.

Theorem C15_split_append : forall s1 l1 s2 l2,
  decode_contents s1 = Ok l1 -> decode_contents s2 = Ok l2 -> decode_contents (s1 ++ s2) = Ok (l1 ++ l2).
Proof. exact decode_contents_app. Qed.
Print Assumptions C15_split_append.

(* why `short` is in the statements: encodeSingleContent converts len(data) to uint32, so an item of exactly 2^32
   bytes is framed as an EMPTY item followed by its bytes, which the splitter reads as further items.  Not reachable
   over uTP with the item sizes the quantifier names (<= 2^20); stated so that the hypothesis is seen to be necessary. *)
Theorem C15_long_item_wraps : forall d r,
  nlen d = two32 -> decode_single (encode_single d ++ r) = Ok ([], d ++ r).
Proof. exact long_item_wraps. Qed.
Print Assumptions C15_long_item_wraps.

Theorem C15_long_item_roundtrip_refuted : forall d,
  nlen d = two32 -> decode_contents (encode_contents [d]) <> Ok [d].
Proof. exact long_item_not_roundtrip. Qed.
Print Assumptions C15_long_item_roundtrip_refuted.

(* observation, not demanded by the property: length prefixes need not be minimal, two streams can carry one list *)
Theorem C15_noncanonical_prefix_accepted :
  exists s1 s2 l, s1 <> s2 /\ decode_contents s1 = Ok l /\ decode_contents s2 = Ok l /\ s1 = encode_contents l.
Proof. exact noncanonical_prefix_accepted. Qed.
Print Assumptions C15_noncanonical_prefix_accepted.

(* single-item streams between two sides: the bytes arrive exactly when both frame alike (C19 supplies "alike") *)
Theorem C15_utp_version_mismatch : forall vs vr d,
  (vs =? 1) <> (vr =? 1) -> decode_utp_content vr (encode_utp_content vs d) <> Ok d.
Proof. exact utp_version_mismatch_never_right. Qed.
Print Assumptions C15_utp_version_mismatch.

Theorem C15_utp_version_match : forall vs vr d,
  (vs =? 1) = (vr =? 1) -> short d -> decode_utp_content vr (encode_utp_content vs d) = Ok d.
Proof. exact utp_same_version_right. Qed.
Print Assumptions C15_utp_version_match.

(* premises are satisfiable by non-trivial values *)
Example C15_nonvacuous :
  Forall short [[x01; x02]; []; [xff]] /\
  decode_contents (encode_contents [[x01; x02]; []; [xff]]) = Ok [[x01; x02]; []; [xff]] /\
  decode_contents [x80; x80; x80; x80; x80; x00] = Err E_OVERFLOW32 /\
  decode_contents [x05; x01] = Err E_INSUFFICIENT /\
  decode_utp_content 1 [x01; xaa; xbb] = Err E_LEN_MISMATCH.
Proof.
  split; [repeat (apply Forall_cons; [vm_compute; reflexivity|]); apply Forall_nil|].
  split; [vm_compute; reflexivity|]. split; [vm_compute; reflexivity|].
  split; vm_compute; reflexivity.
Qed.
