(* Properties/C09.v : OFFER gets one verdict per key and accepted content arrives intact under its key.
   Only statements, closed by lemmas of Proofs/Offer.v, each followed by Print Assumptions.
   handle_offer is the model of the REPAIRED handleOffer (fixes/C09-v0-offer-without-permit.diff); the code as found is
   handle_offer_as_found and is refuted below.
   Standing hypotheses: version v is 0 or 1 (what getOrStoreHighestVersion yields for the versions this build implements,
   C19); at most 64 keys (the OFFER decoder's ssz-max, K_ContentKeysLimit); the uTP socket hands out a 16-bit connection id. *)
From Shisui Require Import Base.Bytes Model.Framing Proofs.Framing Model.Versions Model.Offer Proofs.Offer.
From Shisui Require Import Gen.K_wire.

(* The reply parses (with the offerer's own parser for that version) to exactly |keys| verdicts, in order;
   index i is marked accepted only if key i is in range, not stored, (v1) not in flight, and a transfer slot was obtained;
   accepted keys <-> the announced connection id is the one a receive goroutine waits on with exactly the accepted keys;
   no accepted key <-> connection id 0, no listener, no slot taken. *)
Theorem C09_reply_verdicts : forall v nv pf cid keys r,
  v = 0 \/ v = 1 -> (length keys <= 64)%nat -> cid < 65536 ->
  handle_offer (Ok v) nv pf cid keys = Ok r ->
  exists payload connid body ixs,
    or_reply r = n2b K_msg_ACCEPT :: payload /\
    parse_offer_resp (Ok v) payload = Ok (connid, body, length keys, ixs) /\
    ixs = positions 0 (final_flags v nv pf keys) /\
    (forall i, In i ixs ->
       exists k, nth_error keys i = Some k /\ nv_inrange nv k = true /\ nv_stored nv k = false /\
                 (v = 1 -> nv_inflight nv k = false) /\ pf = true /\ or_permit_taken r = true) /\
    (ixs <> [] -> be16_dec connid = Ok cid /\ or_listen r = Some (cid, select (final_flags v nv pf keys) keys)) /\
    (ixs = [] -> be16_dec connid = Ok 0 /\ or_listen r = None /\ or_permit_taken r = false).
Proof. exact offer_reply_verdicts. Qed.
Print Assumptions C09_reply_verdicts.

(* the constant the 64-key hypothesis refers to *)
Theorem C09_keys_limit_is_64 : K_ContentKeysLimit = 64 /\ accept_keys_limit = 64%nat.
Proof. split; reflexivity. Qed.
Print Assumptions C09_keys_limit_is_64.

(* End to end: the offerer processes the very reply handle_offer produced, the stream arrives intact: the element handed to
   validation is (accepted keys, offered contents at the accepted positions), in order - or dropped when the queue is full;
   with nothing accepted nothing is dialled and nobody listens. *)
Theorem C09_end_to_end : forall v nv pf cid keys cs r lookup room,
  v = 0 \/ v = 1 -> (length keys <= 64)%nat -> cid < 65536 ->
  length cs = length keys -> Forall short cs ->
  handle_offer (Ok v) nv pf cid keys = Ok r ->
  let flags := final_flags v nv pf keys in
  let req := ReqTransient (combine keys cs) in
  (anyb flags = false ->
     or_listen r = None /\ exists body, process_offer (Ok v) lookup (or_reply r) req = Ok (body, None)) /\
  (anyb flags = true ->
     or_listen r = Some (cid, select flags keys) /\
     (exists body, process_offer (Ok v) lookup (or_reply r) req = Ok (body, Some (cid, encode_contents (select flags cs)))) /\
     handle_offered_contents (select flags keys) (encode_contents (select flags cs)) room =
       if room then Ok (Some (select flags keys, select flags cs)) else Ok None).
Proof. exact offer_end_to_end. Qed.
Print Assumptions C09_end_to_end.

(* the same when the offerer sends from its own store (PersistOfferRequest): each accepted key arrives with what the
   offerer's store holds for it (an empty item when it holds nothing) *)
Theorem C09_end_to_end_persist : forall v nv pf cid keys r lookup room,
  v = 0 \/ v = 1 -> (length keys <= 64)%nat -> cid < 65536 ->
  (forall k c, lookup k = Some c -> short c) ->
  handle_offer (Ok v) nv pf cid keys = Ok r ->
  let flags := final_flags v nv pf keys in
  let sent := map (stored_or_empty lookup) (select flags keys) in
  anyb flags = true ->
     or_listen r = Some (cid, select flags keys) /\
     (exists body, process_offer (Ok v) lookup (or_reply r) (ReqPersist keys) = Ok (body, Some (cid, encode_contents sent))) /\
     handle_offered_contents (select flags keys) (encode_contents sent) room =
       if room then Ok (Some (select flags keys, sent)) else Ok None.
Proof. exact offer_end_to_end_persist. Qed.
Print Assumptions C09_end_to_end_persist.

(* something is enqueued iff the stream decodes to exactly as many items as keys are awaited (and the queue has room) *)
Theorem C09_enqueue_iff : forall keys payload room ks cs,
  handle_offered_contents keys payload room = Ok (Some (ks, cs)) <->
  room = true /\ ks = keys /\ decode_contents payload = Ok cs /\ length cs = length keys.
Proof. exact offered_contents_enqueue_iff. Qed.
Print Assumptions C09_enqueue_iff.

Theorem C09_wrong_count_discarded : forall keys payload room cs,
  decode_contents payload = Ok cs -> length cs <> length keys ->
  handle_offered_contents keys payload room = Err E_CONTENT_COUNT.
Proof. exact wrong_count_rejected. Qed.
Print Assumptions C09_wrong_count_discarded.

(* the two accept encodings read back what was written (go-bitfield + fastssz semantics re-implemented in the model) *)
Theorem C09_bitlist_roundtrip : forall bs,
  bl_len (bl_encode bs) = length bs /\ bit_indices (bl_encode bs) = positions 0 bs /\
  ((length bs <= 64)%nat -> validate_bitlist (bl_encode bs) accept_keys_limit = Ok tt).
Proof. intros bs. split; [apply bl_len_encode | split; [apply bit_indices_encode | apply validate_encode]]. Qed.
Print Assumptions C09_bitlist_roundtrip.

(* CODE AS FOUND (before fixes/C09-v0-offer-without-permit.diff): a version-0 OFFER of two fresh keys to a node with no free
   inbound slot is answered 07 0000 06000000 07 - both keys accepted, connection id 0, nobody listening, no slot taken. *)
Theorem C09_v0_accepts_without_permit_refuted :
  exists r, handle_offer_as_found (Ok 0) witness_nv false 7 [[x01]; [x02]] = Ok r /\
            or_reply r = [x07; x00; x00; x06; x00; x00; x00; x07] /\
            parse_offer_resp (Ok 0) (tl (or_reply r)) = Ok ([x00; x00], [x07], 2%nat, [0%nat; 1%nat]) /\
            or_listen r = None /\ or_permit_taken r = false.
Proof. exact v0_accepts_without_permit_refuted. Qed.
Print Assumptions C09_v0_accepts_without_permit_refuted.

(* PARTIAL - concurrent overlapping offers.  DESIRED (full statement, not proved because it is false of the code):
     for every schedule evs of OFFERs and goroutine starts, no key is in two entries of rx_accepted (rx_run false evs)
     while its first transfer is still pending.
   The in-flight mark is written by the receive goroutine (cacheTransferringKeys is its first statement), not by
   handleOffer, so the faithful schedule model refutes it; known finding `inflight-mark-async-double-accept`.
   What IS proved: the refutation, and that the sequential schedule (goroutine ran before the next offer) refuses the key.
   Missing: a proof for an atomically marking handleOffer over all schedules (the code has no such variant). *)
Theorem C09_inflight_race_refuted :
  exists k, rx_accepted (rx_run false [EvOffer [k]; EvOffer [k]]) = [[k]; [k]].
Proof. exact inflight_race_refuted. Qed.
Print Assumptions C09_inflight_race_refuted.

Theorem C09_inflight_sequential_partial : forall k,
  rx_accepted (rx_run false [EvOffer [k]; EvGoroutineRuns 0; EvOffer [k]]) = [[]; [k]].
Proof. exact inflight_sequential_ok. Qed.
Print Assumptions C09_inflight_sequential_partial.

(* ---- the in-flight set across a HISTORY of offers (receiver-side schedule model rx_step: OFFER / goroutine marks /
   transfer ends and un-marks exactly the keys THAT transfer accepted).  The known finding above is about the mark being SET
   late; these theorems are about it being KEPT: once a key is marked it stays marked, whatever other offers are made,
   accepted and finished in between, until a transfer that accepted it ends - so every OFFER of it in between is answered
   InboundTransferInProgress; and it is cleared when that transfer ends. *)
Theorem C09_inflight_mark_kept : forall sync k evs s,
  mem_bytes k (rx_marked s) = true -> no_owner_ends k sync s evs = true ->
  mem_bytes k (rx_marked (fold_left (rx_step sync) evs s)) = true.
Proof. exact mark_preserved_history. Qed.
Print Assumptions C09_inflight_mark_kept.

Theorem C09_inflight_key_declined_throughout : forall sync k evs s keys,
  mem_bytes k (rx_marked s) = true -> no_owner_ends k sync s evs = true ->
  match rx_accepted (rx_step sync (fold_left (rx_step sync) evs s) (EvOffer keys)) with
  | acc :: _ => mem_bytes k acc = false | [] => False end.
Proof. exact inflight_history_declines. Qed.
Print Assumptions C09_inflight_key_declined_throughout.

Theorem C09_inflight_mark_cleared_at_end : forall sync s n ks k,
  nth_error (rx_pending s) n = Some ks -> mem_bytes k ks = true ->
  mem_bytes k (rx_marked (rx_step sync s (EvTransferEnds n))) = false.
Proof. exact mark_cleared_at_end. Qed.
Print Assumptions C09_inflight_mark_cleared_at_end.

(* the three-offer scenario the harness plays on the real code (newest offer first): O1 [K] accepted and stalled, O2 [K;L]
   -> [in progress; accepted] and finished, O3 [K] -> in progress, O1 finishes, O4 [K] -> accepted *)
Theorem C09_three_offer_scenario :
  rx_accepted (rx_run false [EvOffer [[x01]]; EvGoroutineRuns 0; EvOffer [[x01]; [x02]]; EvGoroutineRuns 1;
                             EvTransferEnds 1; EvOffer [[x01]]; EvTransferEnds 0; EvOffer [[x01]]])
  = [[[x01]]; []; [[x02]]; [[x01]]].
Proof. exact three_offer_scenario. Qed.
Print Assumptions C09_three_offer_scenario.

Example C09_nonvacuous :
  let nv := {| nv_nilid := fun _ => false; nv_inrange := fun k => negb (bytes_eqb k [x03]);
               nv_stored := fun k => bytes_eqb k [x02]; nv_inflight := fun _ => false; nv_queue_room := true |} in
  exists r, handle_offer (Ok 1) nv true 770 [[x01]; [x02]; [x03]; [x04]] = Ok r /\
    or_listen r = Some (770, [[x01]; [x04]]) /\
    process_offer (Ok 1) (fun _ => None) (or_reply r)
      (ReqTransient [([x01], [xaa]); ([x02], [xbb]); ([x03], [xcc]); ([x04], [xdd; xdd])]) =
      Ok ([x00; x02; x03; x00], Some (770, [x01; xaa; x02; xdd; xdd])) /\
    handle_offered_contents [[x01]; [x04]] [x01; xaa; x02; xdd; xdd] true = Ok (Some ([[x01]; [x04]], [[xaa]; [xdd; xdd]])) /\
    handle_offered_contents [[x01]; [x04]] [x01; xaa] true = Err E_CONTENT_COUNT.
Proof. eexists. vm_compute. repeat split. Qed.
