(* Properties/C09.v : OFFER gets one verdict per key and accepted content arrives intact under its key.
   Only statements, closed by lemmas of Proofs/Offer.v, each followed by Print Assumptions.
   handle_offer is the model of the REPAIRED handleOffer (fixes/C09-v0-offer-without-permit.diff); the code as found is
   handle_offer_as_found and is refuted below.
   Standing hypotheses: version v is 0 or 1 (what getOrStoreHighestVersion yields for the versions this build implements,
   C19); at most 64 keys (the OFFER decoder's ssz-max, K_ContentKeysLimit); the uTP socket hands out a 16-bit connection id. *)
From Shisui Require Import Base.Bytes Model.Framing Proofs.Framing Model.Versions Model.Offer Proofs.Offer.
From Shisui Require Import Gen.K_wire.

(* The reply parses (with the offerer's own parser for that version) to exactly |keys| verdicts, in order;
   index i is marked accepted only if key i is in range, not stored, (v1) not in flight, and a transfer slot was obtained;
   accepted keys <-> the announced connection id is the one a receive goroutine waits on with exactly the accepted keys;
   no accepted key <-> connection id 0, no listener, no slot taken. *)
Theorem C09_reply_verdicts : forall v nv pf cid keys r,
  v = 0 \/ v = 1 -> (length keys <= 64)%nat -> cid < 65536 ->
  handle_offer (Ok v) nv pf cid keys = Ok r ->
  exists payload connid body ixs,
    or_reply r = n2b K_msg_ACCEPT :: payload /\
    parse_offer_resp (Ok v) payload = Ok (connid, body, length keys, ixs) /\
    ixs = positions 0 (final_flags v nv pf keys) /\
    (forall i, In i ixs ->
       exists k, nth_error keys i = Some k /\ nv_inrange nv k = true /\ nv_stored nv k = false /\
                 (v = 1 -> nv_inflight nv k = false) /\ pf = true /\ or_permit_taken r = true) /\
    (ixs <> [] -> be16_dec connid = Ok cid /\ or_listen r = Some (cid, select (final_flags v nv pf keys) keys)) /\
    (ixs = [] -> be16_dec connid = Ok 0 /\ or_listen r = None /\ or_permit_taken r = false).
Proof. exact offer_reply_verdicts. Qed.
Print Assumptions C09_reply_verdicts.

(* the constant the 64-key hypothesis refers to *)
Theorem C09_keys_limit_is_64 : K_ContentKeysLimit = 64 /\ accept_keys_limit = 64%nat.
Proof. split; reflexivity. Qed.
Print Assumptions C09_keys_limit_is_64.

(* End to end: the offerer processes the very reply handle_offer produced, the stream arrives intact: the element handed to
   validation is (accepted keys, offered contents at the accepted positions), in order - or dropped when the queue is full;
   with nothing accepted nothing is dialled and nobody listens. *)
Theorem C09_end_to_end : forall v nv pf cid keys cs r lookup room,
  v = 0 \/ v = 1 -> (length keys <= 64)%nat -> cid < 65536 ->
  length cs = length keys -> Forall short cs ->
  handle_offer (Ok v) nv pf cid keys = Ok r ->
  let flags := final_flags v nv pf keys in
  let req := ReqTransient (combine keys cs) in
  (anyb flags = false ->
     or_listen r = None /\ exists body, process_offer (Ok v) lookup (or_reply r) req = Ok (body, None)) /\
  (anyb flags = true ->
     or_listen r = Some (cid, select flags keys) /\
     (exists body, process_offer (Ok v) lookup (or_reply r) req = Ok (body, Some (cid, encode_contents (select flags cs)))) /\
     handle_offered_contents (select flags keys) (encode_contents (select flags cs)) room =
       if room then Ok (Some (select flags keys, select flags cs)) else Ok None).
Proof. exact offer_end_to_end. Qed.
Print Assumptions C09_end_to_end.

(* the same when the offerer sends from its own store (PersistOfferRequest): each accepted key arrives with what the
   offerer's store holds for it (an empty item when it holds nothing) *)
Theorem C09_end_to_end_persist : forall v nv pf cid keys r lookup room,
  v = 0 \/ v = 1 -> (length keys <= 64)%nat -> cid < 65536 ->
  (forall k c, lookup k = Some c -> short c) ->
  handle_offer (Ok v) nv pf cid keys = Ok r ->
  let flags := final_flags v nv pf keys in
  let sent := map (stored_or_empty lookup) (select flags keys) in
  anyb flags = true ->
     or_listen r = Some (cid, select flags keys) /\
     (exists body, process_offer (Ok v) lookup (or_reply r) (ReqPersist keys) = Ok (body, Some (cid, encode_contents sent))) /\
     handle_offered_contents (select flags keys) (encode_contents sent) room =
       if room then Ok (Some (select flags keys, sent)) else Ok None.
Proof. exact offer_end_to_end_persist. Qed.
Print Assumptions C09_end_to_end_persist.

(* something is enqueued iff the stream decodes to exactly as many items as keys are awaited (and the queue has room) *)
Theorem C09_enqueue_iff : forall keys payload room ks cs,
  handle_offered_contents keys payload room = Ok (Some (ks, cs)) <->
  room = true /\ ks = keys /\ decode_contents payload = Ok cs /\ length cs = length keys.
Proof. exact offered_contents_enqueue_iff. Qed.
Print Assumptions C09_enqueue_iff.

Theorem C09_wrong_count_discarded : forall keys payload room cs,
  decode_contents payload = Ok cs -> length cs <> length keys ->
  handle_offered_contents keys payload room = Err E_CONTENT_COUNT.
Proof. exact wrong_count_rejected. Qed.
Print Assumptions C09_wrong_count_discarded.

(* the two accept encodings read back what was written (go-bitfield + fastssz semantics re-implemented in the model) *)
Theorem C09_bitlist_roundtrip : forall bs,
  bl_len (bl_encode bs) = length bs /\ bit_indices (bl_encode bs) = positions 0 bs /\
  ((length bs <= 64)%nat -> validate_bitlist (bl_encode bs) accept_keys_limit = Ok tt).
Proof. intros bs. split; [apply bl_len_encode | split; [apply bit_indices_encode | apply validate_encode]]. Qed.
Print Assumptions C09_bitlist_roundtrip.

(* CODE AS FOUND (before fixes/C09-v0-offer-without-permit.diff): a version-0 OFFER of two fresh keys to a node with no free
   inbound slot is answered 07 0000 06000000 07 - both keys accepted, connection id 0, nobody listening, no slot taken. *)
Theorem C09_v0_accepts_without_permit_refuted :
  exists r, handle_offer_as_found (Ok 0) witness_nv false 7 [[x01]; [x02]] = Ok r /\
            or_reply r = [x07; x00; x00; x06; x00; x00; x00; x07] /\
            parse_offer_resp (Ok 0) (tl (or_reply r)) = Ok ([x00; x00], [x07], 2%nat, [0%nat; 1%nat]) /\
            or_listen r = None /\ or_permit_taken r = false.
Proof. exact v0_accepts_without_permit_refuted. Qed.
Print Assumptions C09_v0_accepts_without_permit_refuted.

(* PARTIAL - concurrent overlapping offers.  DESIRED (full statement, not proved because it is false of the code):
     for every schedule evs of OFFERs and goroutine starts, no key is in two entries of rx_accepted (rx_run false evs)
     while its first transfer is still pending.
   The in-flight mark is written by the receive goroutine (cacheTransferringKeys is its first statement), not by
   handleOffer, so the faithful schedule model refutes it; known finding `inflight-mark-async-double-accept`.
   What IS proved: the refutation, and that the sequential schedule (goroutine ran before the next offer) refuses the key.
   Missing: a proof for an atomically marking handleOffer over all schedules (the code has no such variant). *)
Theorem C09_inflight_race_refuted :
  exists k, rx_accepted (rx_run false [EvOffer [k]; EvOffer [k]]) = [[k]; [k]].
Proof. exact inflight_race_refuted. Qed.
Print Assumptions C09_inflight_race_refuted.

Theorem C09_inflight_sequential_partial : forall k,
  rx_accepted (rx_run false [EvOffer [k]; EvGoroutineRuns 0; EvOffer [k]]) = [[]; [k]].
Proof. exact inflight_sequential_ok. Qed.
Print Assumptions C09_inflight_sequential_partial.

(* ---- the in-flight set across a HISTORY of offers (receiver-side schedule model rx_step: OFFER / goroutine marks /
   transfer ends and un-marks exactly the keys THAT transfer accepted).  The known finding above is about the mark being SET
   late; these theorems are about it being KEPT: once a key is marked it stays marked, whatever other offers are made,
   accepted and finished in between, until a transfer that accepted it ends - so every OFFER of it in between is answered
   InboundTransferInProgress; and it is cleared when that transfer ends. *)
Theorem C09_inflight_mark_kept : forall sync k evs s,
  mem_bytes k (rx_marked s) = true -> no_owner_ends k sync s evs = true ->
  mem_bytes k (rx_marked (fold_left (rx_step sync) evs s)) = true.
Proof. exact mark_preserved_history. Qed.
Print Assumptions C09_inflight_mark_kept.

Theorem C09_inflight_key_declined_throughout : forall sync k evs s keys,
  mem_bytes k (rx_marked s) = true -> no_owner_ends k sync s evs = true ->
  match rx_accepted (rx_step sync (fold_left (rx_step sync) evs s) (EvOffer keys)) with
  | acc :: _ => mem_bytes k acc = false | [] => False end.
Proof. exact inflight_history_declines. Qed.
Print Assumptions C09_inflight_key_declined_throughout.

Theorem C09_inflight_mark_cleared_at_end : forall sync s n ks k,
  nth_error (rx_pending s) n = Some ks -> mem_bytes k ks = true ->
  mem_bytes k (rx_marked (rx_step sync s (EvTransferEnds n))) = false.
Proof. exact mark_cleared_at_end. Qed.
Print Assumptions C09_inflight_mark_cleared_at_end.

(* mixed versions: the keys a version-0 transfer brings in are marked by its goroutine too, so a version-1 OFFER of such a
   key is answered "in progress"; a version-0 OFFER is not filtered by the marks at all (code as it is; the property's
   in-flight condition is stated for version 1 only) *)
Theorem C09_v0_transfer_marks_for_v1 : forall k,
  rx_accepted (rx_run false [EvOfferV0 [k]; EvGoroutineRuns 0; EvOffer [k]]) = [[]; [k]] /\
  rx_accepted (rx_run false [EvOffer [k]; EvGoroutineRuns 0; EvOfferV0 [k]]) = [[k]; [k]] /\
  rx_accepted (rx_run false [EvOfferV0 [k]; EvGoroutineRuns 0; EvOfferV0 [k]]) = [[k]; [k]].
Proof. exact v0_transfer_marks_for_v1. Qed.
Print Assumptions C09_v0_transfer_marks_for_v1.

(* an OFFER answered without a free inbound slot starts no transfer: it neither marks nor un-marks anything - in
   particular it does not wipe the marks of other pending transfers whose keys it offers (a version-0 offer always has
   such keys among its candidates, the v0 filter ignores the marks) *)
Theorem C09_rate_limited_offer_keeps_marks : forall sync s keys,
  rx_marked (rx_step sync s (EvOfferNoSlot keys)) = rx_marked s.
Proof. exact rate_limited_offer_keeps_marks. Qed.
Print Assumptions C09_rate_limited_offer_keeps_marks.

Theorem C09_rate_limited_scenario : forall k,
  rx_accepted (rx_run false [EvOffer [k]; EvGoroutineRuns 0; EvOfferNoSlot [k]; EvOffer [k]]) = [[]; []; [k]] /\
  rx_accepted (rx_run false [EvOfferV0 [k]; EvGoroutineRuns 0; EvOfferNoSlot [k]; EvOffer [k]]) = [[]; []; [k]].
Proof. exact rate_limited_scenario. Qed.
Print Assumptions C09_rate_limited_scenario.

(* the three-offer scenario the harness plays on the real code (newest offer first): O1 [K] accepted and stalled, O2 [K;L]
   -> [in progress; accepted] and finished, O3 [K] -> in progress, O1 finishes, O4 [K] -> accepted *)
Theorem C09_three_offer_scenario :
  rx_accepted (rx_run false [EvOffer [[x01]]; EvGoroutineRuns 0; EvOffer [[x01]; [x02]]; EvGoroutineRuns 1;
                             EvTransferEnds 1; EvOffer [[x01]]; EvTransferEnds 0; EvOffer [[x01]]])
  = [[[x01]]; []; [[x02]]; [[x01]]].
Proof. exact three_offer_scenario. Qed.
Print Assumptions C09_three_offer_scenario.

Example C09_nonvacuous :
  let nv := {| nv_nilid := fun _ => false; nv_inrange := fun k => negb (bytes_eqb k [x03]);
               nv_stored := fun k => bytes_eqb k [x02]; nv_inflight := fun _ => false; nv_queue_room := true |} in
  exists r, handle_offer (Ok 1) nv true 770 [[x01]; [x02]; [x03]; [x04]] = Ok r /\
    or_listen r = Some (770, [[x01]; [x04]]) /\
    process_offer (Ok 1) (fun _ => None) (or_reply r)
      (ReqTransient [([x01], [xaa]); ([x02], [xbb]); ([x03], [xcc]); ([x04], [xdd; xdd])]) =
      Ok ([x00; x02; x03; x00], Some (770, [x01; xaa; x02; xdd; xdd])) /\
    handle_offered_contents [[x01]; [x04]] [x01; xaa; x02; xdd; xdd] true = Ok (Some ([[x01]; [x04]], [[xaa]; [xdd; xdd]])) /\
    handle_offered_contents [[x01]; [x04]] [x01; xaa] true = Err E_CONTENT_COUNT.
Proof. eexists. vm_compute. repeat split. Qed.

(* ======================================================================================================================
   END TO END ACROSS BOTH NODES (Model/EndToEnd.v, Proofs/EndToEnd.v): from the OFFER request to the receiver's Put.
   The property's last sentence - "the items handed to validation are exactly the offered contents of the accepted keys
   paired with those keys in order" - continued through validation down to the store:
     receiver  handle_offer (verdicts, connection id, listener)                                         C09
     offerer   process_offer on that very reply (what is dialled, encode_contents of the accepted items) C09 / C15
     transport [deliver]: what the receiver reads given what the offerer wrote - an ARBITRARY function; "the stream arrives
               intact" is the hypothesis  deliver sent = sent
     receiver  handle_offered_contents (C15: one item per awaited key or nothing), then validateContents:
               history = C02's validator with C03's header proof check; state = C13 behind the key switch; then Put
   [offer_exchange] chains the four; the versions are what each side derives from the other's record (C19).
   Statement, for every offer (keys, contents), every receiver view nv (radius, stored set, in-flight set, queue room), permit,
   store, header source, library instantiation, and both protocol versions:
     - whatever the transport delivers, every Put is bound to its key (genuine / C13's chain predicate) and its key is an
       ACCEPTED key of the offer (so nothing is Put under a declined key);
     - if the stream arrives intact, the Puts are, in order, offered pairs (k_i, c_i) at accepted indices i;
     - a stream that does not decode to exactly one item per accepted key (truncated, extended, malformed) Puts nothing;
     - nothing accepted: nothing is dialled, nobody listens, nothing is Put.
   STILL ABSTRACT: uTP (connection establishment, delivery, timeouts: the function [deliver] and the intactness hypothesis;
   loss / reordering are not modelled), discv5 delivery of the TALKREQ / TALKRESP pair (the reply the offerer processes is
   the one the receiver produced), goroutines / permits beyond the one boolean, the content queue (never full here), the
   library functions of C02 / C03 / C13 (universally quantified, see Properties/C01.v), pebble behind Put, gossip afterwards.
   Standing hypotheses as above in this file: at most 64 keys, a 16-bit connection id, items shorter than 2^32 bytes. *)
From Shisui Require Import Model.History Model.StateTrie Model.ContentFull Model.EndToEnd
     Proofs.History Proofs.StateTrie Proofs.ContentFull Proofs.EndToEnd.

(* history network *)
Theorem C09_history_end_to_end : forall v nv pf cid lookup keys cs deliver B A src s r s' puts,
  v = 0 \/ v = 1 -> (length keys <= 64)%nat -> cid < 65536 -> length cs = length keys -> Forall short cs ->
  store_ok (lib_of B A) s ->
  history_exchange (Ok v) (Ok v) nv pf cid lookup keys cs deliver B A src s = Ok (r, s', puts) ->
  let flags := final_flags v nv pf keys in
  let sent := encode_contents (select flags cs) in
  store_ok (lib_of B A) s' /\
  Forall (fun p => genuine (lib_of B A) (fst p) (snd p) /\ In (fst p) (select flags keys)) puts /\
  (deliver sent = sent ->
     subseq puts (select flags (combine keys cs)) /\
     forall k c, In (k, c) puts ->
       exists i, nth_error flags i = Some true /\ nth_error keys i = Some k /\ nth_error cs i = Some c) /\
  ((forall contents, decode_contents (deliver sent) = Ok contents -> length contents <> length (select flags keys)) ->
     puts = [] /\ s' = s) /\
  (anyb flags = false -> puts = [] /\ s' = s).
Proof. exact history_end_to_end. Qed.
Print Assumptions C09_history_end_to_end.

(* an accepted index means what C09_reply_verdicts says of the receiver's state: in radius, not stored, (v1) not in flight,
   (v0) room in the queue, a transfer slot obtained *)
Theorem C09_accepted_index_means : forall v nv pf keys i,
  v = 0 \/ v = 1 -> nth_error (final_flags v nv pf keys) i = Some true ->
  exists k, nth_error keys i = Some k /\ nv_inrange nv k = true /\ nv_stored nv k = false /\
            (v = 1 -> nv_inflight nv k = false) /\ (v = 0 -> nv_queue_room nv = true) /\ pf = true.
Proof. exact accepted_index_means. Qed.
Print Assumptions C09_accepted_index_means.

(* with the versions the two nodes derive from each other's ENR on first contact (C19_two_nodes_compose): they agree; an
   offerer implementing versions 0 and 1 gets one of them; the statement above holds for it *)
Theorem C09_history_end_to_end_negotiated : forall va vb cx cy nx ny nv pf cid lookup keys cs deliver B A src s r s' puts,
  cx ny = None -> cy nx = None -> (forall x, In x va -> x = 0 \/ x = 1) ->
  (length keys <= 64)%nat -> cid < 65536 -> length cs = length keys -> Forall short cs -> store_ok (lib_of B A) s ->
  history_exchange (version_at_offerer va vb cx ny) (version_at_receiver va vb cy nx) nv pf cid lookup keys cs deliver B A src s
    = Ok (r, s', puts) ->
  exists v, (v = 0 \/ v = 1) /\ version_at_offerer va vb cx ny = Ok v /\ version_at_receiver va vb cy nx = Ok v /\
            history_e2e_ok v nv pf keys cs deliver (lib_of B A) s s' puts.
Proof. exact history_end_to_end_negotiated. Qed.
Print Assumptions C09_history_end_to_end_negotiated.

(* state network: a new value under a content id is justified by a position j of (accepted keys, received items):
   state_item_at = the key has a state key type, its content id is that id, the pair decodes to a request satisfying C13's
   chain predicate content_ok against the header answer of that step, and the value is what Put derives from it *)
Theorem C09_state_end_to_end : forall v nv pf cid lookup keys cs deliver L s r s',
  v = 0 \/ v = 1 -> (length keys <= 64)%nat -> cid < 65536 -> length cs = length keys -> Forall short cs ->
  state_exchange (Ok v) (Ok v) nv pf cid lookup keys cs deliver L s = Ok (r, s') ->
  let flags := final_flags v nv pf keys in
  let sent := encode_contents (select flags cs) in
  (forall id val, StateTrie.store_get s' id = Some val ->
     StateTrie.store_get s id = Some val \/
     exists contents j k c, decode_contents (deliver sent) = Ok contents /\ In k (select flags keys) /\
                            state_item_at L (select flags keys) contents id val j k c) /\
  (deliver sent = sent ->
     forall id val, StateTrie.store_get s' id = Some val ->
       StateTrie.store_get s id = Some val \/
       exists i j k c, nth_error flags i = Some true /\ nth_error keys i = Some k /\ nth_error cs i = Some c /\
                       state_item_at L (select flags keys) (select flags cs) id val j k c) /\
  ((forall contents, decode_contents (deliver sent) = Ok contents -> length contents <> length (select flags keys)) -> s' = s) /\
  (anyb flags = false -> s' = s).
Proof. exact state_end_to_end. Qed.
Print Assumptions C09_state_end_to_end.

Theorem C09_state_end_to_end_negotiated : forall va vb cx cy nx ny nv pf cid lookup keys cs deliver L s r s',
  cx ny = None -> cy nx = None -> (forall x, In x va -> x = 0 \/ x = 1) ->
  (length keys <= 64)%nat -> cid < 65536 -> length cs = length keys -> Forall short cs ->
  state_exchange (version_at_offerer va vb cx ny) (version_at_receiver va vb cy nx) nv pf cid lookup keys cs deliver L s = Ok (r, s') ->
  exists v, (v = 0 \/ v = 1) /\ version_at_offerer va vb cx ny = Ok v /\ version_at_receiver va vb cy nx = Ok v /\
            state_e2e_ok v nv pf keys cs deliver L s s'.
Proof. exact state_end_to_end_negotiated. Qed.
Print Assumptions C09_state_end_to_end_negotiated.

(* the receiver side alone, for ANY stream and ANY awaited keys: one item per key and the Puts taken in order from the
   (key, item) pairs - or nothing happened *)
Theorem C09_receiver_puts_from_stream : forall B A src awaited stream s r s' puts,
  history_offered_contents B A src awaited stream s = (r, s', puts) ->
  (exists contents, decode_contents stream = Ok contents /\ length contents = length awaited /\
                    subseq puts (combine awaited contents)) \/
  (puts = [] /\ s' = s /\ forall contents, decode_contents stream = Ok contents -> length contents <> length awaited).
Proof. exact history_offered_shape. Qed.
Print Assumptions C09_receiver_puts_from_stream.

(* a two-key offer, one key declined (the body key is outside the receiver's radius): only the header item travels and is
   Put, after the REAL SHA-256 header proof check; with no free permit nothing travels; a truncated stream Puts nothing;
   state network the same with a declined second key; the versions of a [0; 1] offerer and a [1] receiver meet at 1 *)
Definition ex_nv_history : nodeview := {| nv_nilid := fun _ => false; nv_inrange := fun k => negb (bytes_eqb k ex_body_key);
   nv_stored := fun _ => false; nv_inflight := fun _ => false; nv_queue_room := true |}.
Definition ex_nv_state : nodeview := {| nv_nilid := fun _ => false; nv_inrange := fun k => negb (bytes_eqb k [x20; x00]);
   nv_stored := fun _ => false; nv_inflight := fun _ => false; nv_queue_room := true |}.
Example C09_end_to_end_nonvacuous :
  final_flags 1 ex_nv_history true [ex_body_key; ex_header_key] = [false; true] /\
  history_exchange (Ok 1) (Ok 1) ex_nv_history true 770 (fun _ => None) [ex_body_key; ex_header_key]
      [ex_body_content; ex_header_content] (fun x => x) ex_hlib ex_hacc ex_src [] =
    Ok (Ok tt, [(ex_header_key, ex_header_content)], [(ex_header_key, ex_header_content)]) /\
  history_exchange (Ok 0) (Ok 0) ex_nv_history true 770 (fun _ => None) [ex_body_key; ex_header_key]
      [ex_body_content; ex_header_content] (fun x => x) ex_hlib ex_hacc ex_src [] =
    Ok (Ok tt, [(ex_header_key, ex_header_content)], [(ex_header_key, ex_header_content)]) /\
  history_exchange (Ok 1) (Ok 1) ex_nv_history true 770 (fun _ => None) [ex_body_key; ex_header_key]
      [ex_body_content; ex_header_content] (fun x => firstn 100 x) ex_hlib ex_hacc ex_src [] = Ok (Err E_INSUFFICIENT, [], []) /\
  history_exchange (Ok 1) (Ok 1) ex_nv_history false 770 (fun _ => None) [ex_body_key; ex_header_key]
      [ex_body_content; ex_header_content] (fun x => x) ex_hlib ex_hacc ex_src [] = Ok (Ok tt, [], []) /\
  state_exchange (Ok 1) (Ok 1) ex_nv_state true 9 (fun _ => None) [ex_state_key; [x20; x00]]
      [ex_state_content [[x02]; [x03]]; [x01]] (fun x => x) ex_slib [] =
    Ok (Ok tt, [(firstn 3 ex_state_key, [x04; x00; x00; x00; x03])]) /\
  state_exchange (Ok 1) (Ok 1) ex_nv_state true 9 (fun _ => None) [ex_state_key; [x20; x00]]
      [ex_state_content [[x02]; [x03]]; [x01]] (fun x => x ++ [x00]) ex_slib [] = Ok (Err Dispatch.E_COUNT, []) /\
  (version_at_offerer [0; 1] [1] empty_cache 2, version_at_receiver [0; 1] [1] empty_cache 1) = (Ok 1, Ok 1).
Proof. repeat match goal with |- _ /\ _ => split end; vm_compute; reflexivity. Qed.
