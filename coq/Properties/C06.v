(* Properties/C06.v : Radius, admission and retained content agree under the XOR metric.
   The store model is parametric in the key decoder `dec`.  The theorems hold for every decoder that is strictly
   monotone for pebble's key order and bounded (`good`); big-endian is (C06_be_good), the decoder the code uses -
   uint256.UnmarshalSSZ, little-endian - is not (C06_le_not_monotone) and the code's instance violates the invariant
   (C06_le_instance_refuted; known finding, the little-endian radius bytes are pinned by TestPrune).
   inRange: repaired (fix C06-inrange-xor-distance), C06_in_range_rule; the old rule is refuted in C06_in_range_logdist_refuted. *)
From Shisui Require Import Base.Bytes Gen.K_storage Model.Storage Model.StorageConc Proofs.Storage Proofs.StorageConc.

(* at all times of every history (restarts and crashes included) every retained item lies within the advertised radius *)
Theorem C06_retained_within_radius : forall (V : Type) (vlen : V -> N) (vhead8 : V -> res N) (dec : bytes -> N) cm pp nd ops y,
  good dec -> length nd = 32%nat -> Forall (valid_op nd) ops ->
  run vlen vhead8 dec (init cm pp nd) ops = Ok y ->
  forall k v, In (k, v) (kv (sdb (mem y))) -> dec k <= rad (mem y).
Proof. exact @history_radius. Qed.
Print Assumptions C06_retained_within_radius.

(* a put is refused exactly when its distance is not below the radius (C05_put_prunes spells out the accepted branch) *)
Theorem C06_refused_iff : forall (V : Type) (vlen : V -> N) (vhead8 : V -> res N) (dec : bytes -> N) Q (s : st (V:=V)) id v s' r bs,
  Inv vlen Q s -> valid_id (node s) id -> put vlen dec s id v = Ok (s', r, bs) ->
  (r = Refused <-> rad s <= dec (xor_bytes id (node s))).
Proof. exact refused_iff. Qed.
Print Assumptions C06_refused_iff.

(* the radius only shrinks during a run, and a put that does not prune leaves it alone *)
Theorem C06_radius_antitone : forall (V : Type) (vlen : V -> N) (vhead8 : V -> res N) (dec : bytes -> N) ops Q (y0 y : sys (V:=V)),
  good dec -> SInv vlen Q y0 -> RInv dec (mem y0) ->
  Forall (valid_op (node (mem y0))) ops -> forallb is_put_or_get ops = true ->
  run vlen vhead8 dec y0 ops = Ok y -> rad (mem y) <= rad (mem y0).
Proof. exact @run_radius_antitone. Qed.
Print Assumptions C06_radius_antitone.

Theorem C06_put_radius : forall (V : Type) (vlen : V -> N) (vhead8 : V -> res N) (dec : bytes -> N) Q (s : st (V:=V)) id v s' r bs,
  mono dec -> Inv vlen Q s -> length id = 32%nat -> id <> node s -> RInv dec s ->
  put vlen dec s id v = Ok (s', r, bs) -> RInv dec s' /\ rad s' <= rad s.
Proof. exact @put_rinv. Qed.
Print Assumptions C06_put_radius.

(* ---- the same clauses over CONCURRENT histories (small-step machine of Model/StorageConc.v: N goroutines, any
   scheduler, Put split at its shared accesses; the radius check is the first step INSIDE the lock, as the code has it):
   whenever nobody is inside Put - in particular after every schedule has run to the end - every retained item is
   within the radius and the radius has not grown ... *)
Theorem C06_conc_retained_within_radius : forall (V : Type) (vlen : V -> N) (vhead8 : V -> res N) (dec : bytes -> N) Q
    (y0 : sys (V:=V)) work sched,
  good dec -> SInv vlen Q y0 -> RInv dec (mem y0) ->
  Forall (fun p => valid_id (node (mem y0)) (fst p)) (concat work) ->
  let c := exec vlen dec true false (start (mem y0) work) sched in
  lock c = None -> RInv dec (sh c) /\ rad (sh c) <= rad (mem y0).
Proof. exact @conc_radius_inv. Qed.
Print Assumptions C06_conc_retained_within_radius.

(* ... and between any two such points of one execution the radius only shrinks *)
Theorem C06_conc_radius_antitone : forall (V : Type) (vlen : V -> N) (vhead8 : V -> res N) (dec : bytes -> N) Q
    (y0 : sys (V:=V)) work sched1 sched2,
  good dec -> SInv vlen Q y0 -> RInv dec (mem y0) ->
  Forall (fun p => valid_id (node (mem y0)) (fst p)) (concat work) ->
  let c1 := exec vlen dec true false (start (mem y0) work) sched1 in
  let c2 := exec vlen dec true false c1 sched2 in
  lock c1 = None -> lock c2 = None -> rad (sh c2) <= rad (sh c1).
Proof. exact @conc_radius_antitone. Qed.
Print Assumptions C06_conc_radius_antitone.

(* with the radius check made BEFORE Lock() the clauses fail (big-endian decoder, so this is not the little-endian
   finding): goroutine B passes the check and waits, A prunes and shrinks the radius to 3, B stores at distance 200 *)
Theorem C06_conc_check_outside_lock_refuted :
  let c := exec nv_len be_to_N true true (start chk_s0 chk_work2) chk_sched2 in
  quiescent c = true /\ lock c = None /\ rad (sh c) = 3 /\
  In (key32 x00 xc8, 17) (kv (sdb (sh c))) /\ rad (sh c) < be_to_N (key32 x00 xc8).
Proof. exact check_outside_lock_refuted. Qed.
Print Assumptions C06_conc_check_outside_lock_refuted.

(* and a later prune then makes the advertised radius grow (3 -> 200) *)
Theorem C06_conc_check_outside_lock_radius_grows :
  let c1 := exec nv_len be_to_N true true (start chk_s0 chk_work3) (firstn 13 chk_sched3) in
  let c2 := exec nv_len be_to_N true true (start chk_s0 chk_work3) chk_sched3 in
  lock c1 = None /\ rad (sh c1) = 3 /\ quiescent c2 = true /\ rad (sh c2) = 200.
Proof. exact check_outside_lock_radius_grows. Qed.
Print Assumptions C06_conc_check_outside_lock_radius_grows.

(* the reading the property fixes is monotone, the reading the code uses is not *)
Theorem C06_be_good : good be_to_N.
Proof. exact be_good. Qed.
Print Assumptions C06_be_good.

Theorem C06_le_not_monotone : ~ mono le_to_N.
Proof. exact le_not_mono. Qed.
Print Assumptions C06_le_not_monotone.

(* the code's instance: after one prune the store advertises radius 2 and still holds 01 00..00 and 00..00 09 *)
Theorem C06_le_instance_refuted :
  exists y, run nv_len nv_head le_to_N (init 1 K_contentDeletionPPM zero32) le_witness_ops = Ok y /\
    Forall (valid_op zero32) le_witness_ops /\
    rad (mem y) = 2 /\
    In (key32 x01 x00, 300000) (kv (sdb (mem y))) /\ rad (mem y) < be_to_N (key32 x01 x00) /\
    In (key32 x00 x09, 300000) (kv (sdb (mem y))) /\ rad (mem y) < le_to_N (key32 x00 x09).
Proof. exact le_instance_refuted. Qed.
Print Assumptions C06_le_instance_refuted.

(* the in-range test used for offers, the store RPC and gossip targets applies the same rule: XOR distance, read
   big-endian, strictly below the radius - for every node id, radius and 32-byte content id *)
Theorem C06_in_range_rule : forall node radius cid, length cid = 32%nat ->
  in_range_code node radius cid = Ok (in_range_spec node radius cid).
Proof. exact in_range_agrees. Qed.
Print Assumptions C06_in_range_rule.

(* the helper as it was written before fix C06-inrange-xor-distance compared the radius with the LOG distance:
   radius 2^9 against XOR distance 2^200 was "in range" *)
Theorem C06_in_range_logdist_refuted :
  in_range_logdist zero32 (2 ^ 9) inr_cid = Ok true /\ in_range_spec zero32 (2 ^ 9) inr_cid = false /\
  be_to_N (xor_bytes zero32 inr_cid) = 2 ^ 200.
Proof. exact in_range_logdist_refuted. Qed.
Print Assumptions C06_in_range_logdist_refuted.

Example C06_nonvacuous :
  exists y, run nv_len nv_head be_to_N (init 1 K_contentDeletionPPM zero32) le_witness_ops = Ok y /\
    forall k v, In (k, v) (kv (sdb (mem y))) -> be_to_N k <= rad (mem y).
Proof. exact be_instance_ok. Qed.
