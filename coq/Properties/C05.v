(* Properties/C05.v : Storage stays within capacity by pruning farthest-first.
   Sequential clauses: theorems over all histories.
   Concurrent clause ("whether they were issued one after another or concurrently"): Model/StorageConc.v is a
   small-step machine - N goroutines, an arbitrary scheduler, Put split at every shared access (radius load, counter
   add, batch commit, prune: snapshot scan / counter load / counter store + synced batch), with or without the mutex.
   Proved for EVERY schedule of the machine with the mutex: the store is the serial execution of the Puts in
   lock-acquisition order (C05_conc_locked_serial, induction over schedules), hence the accounting invariant and the
   capacity bound hold after every concurrent history (C05_conc_locked_accounting, C05_conc_locked_within_capacity);
   refuted for the machine without the mutex with two interleaved prune passes (C05_conc_unlocked_refuted).
   What remains PARTIAL: that the real sync.Mutex / defer Unlock make the real Put behave as the locked machine, and
   the Go memory model, are not proved; the harness checks it by a linearizability search over recorded concurrent
   histories of the real store (lin lines) and by stress runs (conc lines).  Get running concurrently with Put is
   not part of the machine. *)
From Shisui Require Import Base.Bytes Gen.K_storage Model.Storage Model.StorageConc Proofs.Storage Proofs.StorageConc.

(* the usage figure kept and persisted never under-reports: after every history (restarts and crashes included)
   held <= counter, persisted record = counter; Inv unfolds to exactly that (C05_inv_meaning) *)
Theorem C05_accounting : forall (V : Type) (vlen : V -> N) (vhead8 : V -> res N) (dec : bytes -> N) cm pp nd ops,
  length nd = 32%nat -> Forall (valid_op nd) ops ->
  exists y, run vlen vhead8 dec (init cm pp nd) ops = Ok y /\ Inv vlen (was_put nd ops) (mem y) /\
    (forall c, (synced y <= c <= length (disk y))%nat -> DInv vlen (was_put nd ops) (replay (firstn c (disk y)))).
Proof. exact accounting_history. Qed.
Print Assumptions C05_accounting.

Theorem C05_inv_meaning : forall (V : Type) (vlen : V -> N) Q (s : st (V:=V)), Inv vlen Q s ->
  held vlen s <= cnt s /\ (rec (sdb s) = None /\ cnt s = 0 \/ rec (sdb s) = Some (SizeRec (cnt s))).
Proof. exact inv_meaning. Qed.
Print Assumptions C05_inv_meaning.

(* a put that leaves the counter over capacity prunes in the same call: a suffix of the key order is dropped
   (farthest first) and at least `expect` = capacity * fraction bytes are freed, or everything *)
Theorem C05_put_prunes : forall (V : Type) (vlen : V -> N) (vhead8 : V -> res N) (dec : bytes -> N) Q (s : st (V:=V)) id v,
  Inv vlen Q s -> length id = 32%nat -> id <> node s ->
  exists k, xor_key id (node s) = Ok k /\ length k = 32%nat /\ k <> sizekey /\
    ((dec k < rad s -> False) /\ put vlen dec s id v = Ok (s, Refused, []) \/
     dec k < rad s /\
     let n := cnt s + 32 + vlen v in
     let s1 := with_db s {| rec := Some (SizeRec n); kv := ins k v (kv (sdb s)) |} n (rad s) in
     let b1 := [BSetSize n; BSetItem k v] in
     Inv vlen (fun k' v' => Q k' v' \/ (k' = k /\ v' = v)) s1 /\ apply_batch (sdb s) b1 = sdb s1 /\
     ((n <= cap s /\ put vlen dec s id v = Ok (s1, Stored, [(b1, false)])) \/
      (cap s < n /\ exists s2 b2, put vlen dec s id v = Ok (s2, Stored, [(b1, false); (b2, true)]) /\
         Inv vlen (fun k' v' => Q k' v' \/ (k' = k /\ v' = v)) s2 /\ sdb s2 = apply_batch (sdb s1) b2 /\
         cfg_eq s s2 /\ pruned_from vlen dec s1 s2))).
Proof. exact @put_inv. Qed.
Print Assumptions C05_put_prunes.

(* farthest first: everything a pruning pass drops sorts after everything it keeps ... *)
Theorem C05_prune_farthest_first : forall (V : Type) (vlen : V -> N) (dec : bytes -> N) (s s' : st (V:=V)),
  kv_ok (kv (sdb s)) -> pruned_from vlen dec s s' ->
  exists dropped, kv (sdb s) = kv (sdb s') ++ dropped /\
    forall k v k' v', In (k, v) (kv (sdb s')) -> In (k', v') dropped -> blt k k'.
Proof. exact @prune_farthest_first. Qed.
Print Assumptions C05_prune_farthest_first.

(* ... and key order is XOR distance read big-endian: a dropped item is farther from the node id than a kept one *)
Theorem C05_key_order_is_distance : forall a b, length a = 32%nat -> length b = 32%nat -> blt a b -> be_to_N a < be_to_N b.
Proof. exact be_mono. Qed.
Print Assumptions C05_key_order_is_distance.

(* with items no larger than the pruning target the counter (hence the bytes held) never exceeds the capacity *)
Theorem C05_put_within_capacity : forall (V : Type) (vlen : V -> N) (vhead8 : V -> res N) (dec : bytes -> N) Q (s : st (V:=V)) id v s' r bs,
  Inv vlen Q s -> valid_id (node s) id -> put vlen dec s id v = Ok (s', r, bs) ->
  cnt s <= cap s -> 32 + vlen v <= expect s -> cnt s' <= cap s /\ held vlen s' <= cap s.
Proof. exact @put_within_capacity. Qed.
Print Assumptions C05_put_within_capacity.

Theorem C05_history_within_capacity : forall (V : Type) (vlen : V -> N) (vhead8 : V -> res N) (dec : bytes -> N) ops Q y0 y,
  SInv vlen Q y0 -> cnt (mem y0) <= cap (mem y0) ->
  Forall (small_op vlen (node (mem y0)) (expect (mem y0))) ops -> run vlen vhead8 dec y0 ops = Ok y ->
  cnt (mem y) <= cap (mem y) /\ held vlen (mem y) <= cap (mem y).
Proof. exact @history_within_capacity. Qed.
Print Assumptions C05_history_within_capacity.

(* the compiled fraction: expect is 5 percent of the capacity, the reload threshold 95 percent *)
Theorem C05_five_percent : forall (V : Type) cm nd (d : db (V:=V)) c,
  let s := fresh cm K_contentDeletionPPM nd d c in
  20 * expect s = cap s /\ thr s + expect s = cap s.
Proof. exact five_percent. Qed.
Print Assumptions C05_five_percent.

(* ---- concurrent clause: the small-step machine of Model/StorageConc.v (N goroutines, scheduler = any list of
   goroutine indices, Put split at its shared accesses including the three stages of prune) *)

(* the six steps of one Put, run without interference, are exactly Put *)
Theorem C05_conc_put_steps_are_put : forall (V : Type) (vlen : V -> N) (dec : bytes -> N) (s : st (V:=V)) id v,
  length (node s) = 32%nat ->
  exists r, micro_iter vlen dec 6 s id v MCheck = (put_state vlen dec s (id, v), MDone r).
Proof. exact @micro_run_put. Qed.
Print Assumptions C05_conc_put_steps_are_put.

(* with the mutex: for EVERY schedule, whenever nobody is inside Put (in particular once all goroutines have
   finished) the shared store equals the Puts started so far executed one after another in lock-acquisition order *)
Theorem C05_conc_locked_serial : forall (V : Type) (vlen : V -> N) (dec : bytes -> N) (s0 : st (V:=V)) work sched,
  length (node s0) = 32%nat ->
  let c := exec vlen dec true false (start s0 work) sched in
  (lock c = None -> sh c = seq_puts vlen dec s0 (log c)) /\ (quiescent c = true -> lock c = None).
Proof. exact @locked_is_serial. Qed.
Print Assumptions C05_conc_locked_serial.

(* hence the sequential theorems hold after every concurrent history: the final store is the memory of a run of the
   sequential model over those Puts (each one given to some goroutine), with the accounting invariant ... *)
Theorem C05_conc_locked_accounting : forall (V : Type) (vlen : V -> N) (vhead8 : V -> res N) (dec : bytes -> N) Q
    (y0 : sys (V:=V)) work sched,
  SInv vlen Q y0 -> Forall (fun p => valid_id (node (mem y0)) (fst p)) (concat work) ->
  let c := exec vlen dec true false (start (mem y0) work) sched in
  quiescent c = true ->
  exists y', run vlen vhead8 dec y0 (map (fun p => OPut (fst p) (snd p)) (log c)) = Ok y' /\ mem y' = sh c /\
    SInv vlen (fun k v => Q k v \/ was_put (node (mem y0)) (map (fun p => OPut (fst p) (snd p)) (log c)) k v) y' /\
    forall p, In p (log c) -> In p (concat work).
Proof. exact @locked_quiescent_inv. Qed.
Print Assumptions C05_conc_locked_accounting.

(* ... and, with items no larger than the pruning target, within capacity *)
Theorem C05_conc_locked_within_capacity : forall (V : Type) (vlen : V -> N) (vhead8 : V -> res N) (dec : bytes -> N) Q
    (y0 : sys (V:=V)) work sched,
  SInv vlen Q y0 -> cnt (mem y0) <= cap (mem y0) ->
  Forall (fun p => valid_id (node (mem y0)) (fst p) /\ 32 + vlen (snd p) <= expect (mem y0)) (concat work) ->
  let c := exec vlen dec true false (start (mem y0) work) sched in
  quiescent c = true -> cnt (sh c) <= cap (sh c) /\ held vlen (sh c) <= cap (sh c).
Proof. exact @locked_quiescent_within_capacity. Qed.
Print Assumptions C05_conc_locked_within_capacity.

(* the code before fix C05-put-mutex: two goroutines, both pass the capacity, both prune passes scan the same
   database and both subtract - the usage figure and the persisted record under-report, the bytes held exceed the capacity *)
Theorem C05_conc_unlocked_refuted :
  let c := exec nv_len le_to_N false false (start conc_s0 conc_work) conc_sched in
  quiescent c = true /\
  cnt (sh c) = 900096 /\ held nv_len (sh c) = 1000128 /\
  rec (sdb (sh c)) = Some (SizeRec 900096) /\
  cap (sh c) < held nv_len (sh c).
Proof. exact conc_unlocked_refuted. Qed.
Print Assumptions C05_conc_unlocked_refuted.

(* the same goroutines and scheduler choices with the mutex *)
Example C05_conc_locked_example :
  let c := exec nv_len le_to_N true false (start conc_s0 conc_work) (conc_sched ++ conc_sched) in
  quiescent c = true /\ held nv_len (sh c) <= cnt (sh c) /\ cnt (sh c) <= cap (sh c).
Proof. exact conc_locked_same_schedule. Qed.

Example C05_nonvacuous :
  exists y, run nv_len nv_head be_to_N (init 1 K_contentDeletionPPM zero32) demo_ops = Ok y /\ cnt (mem y) = 940064.
Proof. exact demo_counter. Qed.
