(* Properties/C10.v : Lookups terminate, ask each peer once, and return the closest nodes seen.
   Only statements, closed by lemmas of Proofs/Lookup.v, each followed by Print Assumptions.
   Setting: node identifiers are N; `xkey target x = x xor target` is the distance; `ans p` is whatever peer p answers
   (any list of optional identifiers: duplicates, the asker, cycles, nil entries, nothing); `tbl` is the table content;
   U is any finite list containing everything the table and the peers can mention.  `reachable` / `steps` range over
   EVERY sequence of events: startQueries doing something, the table's or any outstanding peer's reply being received
   next, cancellation at any moment. *)
From Shisui Require Import Base.Bytes Gen.K_table Gen.K_wire Model.Lookup Proofs.Lookup.

(* never more than alpha = 3 queries in flight; pending within asked; nobody asked twice; the local node never asked *)
Theorem C10_in_flight_and_asked_once : forall target self tbl ans U s,
  incl tbl U -> (forall p x, In (Some x) (ans p) -> In x U) ->
  reachable (xkey target) ans tbl self s ->
  (length (pending s) <= 3)%nat /\ N.of_nat (length (pending s)) <= K_alpha /\
  incl (pending s) (asked s) /\ NoDup (pending s) /\ NoDup (asked s) /\
  asked s = qlog s ++ [self] /\ ~ In self (qlog s) /\ ~ In self (pending s).
Proof.
  intros target self tbl ans U s H1 H2 R.
  destruct (reachable_bounds (xkey target) (xkey_inj target) self tbl ans U H1 H2 s R) as [B rest].
  assert (E : alphaZ = 3%Z) by (vm_compute; reflexivity).
  assert (E' : K_alpha = 3) by (vm_compute; reflexivity).
  split; [lia|]. split; [lia | exact rest].
Qed.
Print Assumptions C10_in_flight_and_asked_once.

(* at most one query per peer of the universe, whatever the schedule *)
Theorem C10_one_query_per_peer : forall target self tbl ans U s,
  incl tbl U -> (forall p x, In (Some x) (ans p) -> In x U) ->
  reachable (xkey target) ans tbl self s ->
  NoDup (qlog s) /\ incl (qlog s) U /\ (length (qlog s) <= length (nodup N.eq_dec U))%nat /\ ~ In self (qlog s).
Proof. intros target self tbl ans U s H1 H2. exact (queries_once (xkey target) (xkey_inj target) self tbl ans U H1 H2 s). Qed.
Print Assumptions C10_one_query_per_peer.

(* termination: no run, under any schedule, has more than 2|U|+3 events *)
Theorem C10_termination : forall target self tbl ans U n s,
  incl tbl U -> (forall p x, In (Some x) (ans p) -> In x U) ->
  steps (xkey target) ans tbl n (init self) s ->
  (n <= 2 * length (nodup N.eq_dec U) + 3)%nat.
Proof.
  intros target self tbl ans U n s H1 H2 St.
  pose proof (run_length (xkey target) (xkey_inj target) self tbl ans U H1 H2 n s St). unfold Un in *. lia.
Qed.
Print Assumptions C10_termination.

(* no event ever panics (slice indices, binary search fuel) or blocks on a receive nobody will satisfy *)
Theorem C10_no_panic_no_block : forall target self tbl ans U s,
  incl tbl U -> (forall p x, In (Some x) (ans p) -> In x U) ->
  reachable (xkey target) ans tbl self s ->
  (exists s' b, start_queries (xkey target) tbl s = Ok (s', b)) /\
  (forall l, tpending s = Some l -> exists s', deliver_table (xkey target) s = Ok s') /\
  (forall p, In p (pending s) -> exists s', deliver_peer (xkey target) s p (ans p) = Ok s') /\
  (exists s', shutdown s = Ok s').
Proof. intros target self tbl ans U s H1 H2. exact (reachable_progress (xkey target) (xkey_inj target) self tbl ans U H1 H2 s). Qed.
Print Assumptions C10_no_panic_no_block.

(* the result is, at every moment, the first 16 of the seen nodes in distance order:
   strictly sorted, duplicate-free, at most 16, and whatever seen node is missing is farther than all 16 returned *)
Theorem C10_result_closest : forall target self tbl ans U s,
  incl tbl U -> (forall p x, In (Some x) (ans p) -> In x U) ->
  reachable (xkey target) ans tbl self s ->
  result s = firstn (N.to_nat K_bucketSize) (isort (xkey target) (seen s)) /\ NoDup (seen s) /\
  ssorted (xkey target) (result s) /\ NoDup (result s) /\ (length (result s) <= 16)%nat /\ incl (result s) (seen s) /\
  (forall x, In x (seen s) -> ~ In x (result s) ->
     length (result s) = 16%nat /\ forall r, In r (result s) -> xkey target r < xkey target x).
Proof.
  intros target self tbl ans U s H1 H2 R.
  assert (E : bucket_size = 16%nat) by (vm_compute; reflexivity).
  pose proof (reachable_result (xkey target) (xkey_inj target) self tbl ans U H1 H2 s R) as H. rewrite E in H. exact H.
Qed.
Print Assumptions C10_result_closest.

(* when lookup.run returns (startQueries answers false): nothing is outstanding, and unless it was cancelled every returned node has been asked *)
Theorem C10_finished : forall target self tbl ans U s,
  incl tbl U -> (forall p x, In (Some x) (ans p) -> In x U) ->
  reachable (xkey target) ans tbl self s -> finished (xkey target) tbl s ->
  start_queries (xkey target) tbl s = Ok (s, false) /\ pending s = [] /\ tpending s = None /\
  (alive s = true -> forall x, In x (result s) -> In x (asked s)).
Proof. intros target self tbl ans U s H1 H2. exact (reachable_finished (xkey target) (xkey_inj target) self tbl ans U H1 H2 s). Qed.
Print Assumptions C10_finished.

(* a run that has not ended (startQueries answered true) is waiting for a reply that is really outstanding and whose
   delivery succeeds: the select never waits for nothing.  With C10_termination: every run ends, none gets stuck. *)
Theorem C10_never_stuck : forall target self tbl ans U s s',
  incl tbl U -> (forall p x, In (Some x) (ans p) -> In x U) ->
  reachable (xkey target) ans tbl self s -> start_queries (xkey target) tbl s = Ok (s', true) ->
  (exists l s'', tpending s' = Some l /\ deliver_table (xkey target) s' = Ok s'') \/
  (exists p s'', In p (pending s') /\ deliver_peer (xkey target) s' p (ans p) = Ok s'').
Proof. intros target self tbl ans U s s' H1 H2. exact (never_stuck (xkey target) (xkey_inj target) self tbl ans U H1 H2 s s'). Qed.
Print Assumptions C10_never_stuck.

(* cancellation at any point: one step drains everything outstanding, keeps the result, and the run is over *)
Theorem C10_cancel_drains : forall target self tbl ans U s,
  incl tbl U -> (forall p x, In (Some x) (ans p) -> In x U) ->
  reachable (xkey target) ans tbl self s -> alive s = true ->
  exists s', shutdown s = Ok s' /\ lstep (xkey target) ans tbl s s' /\ pending s' = [] /\ tpending s' = None /\
             result s' = result s /\ asked s' = asked s /\ finished (xkey target) tbl s'.
Proof. intros target self tbl ans U s H1 H2. exact (reachable_cancel (xkey target) (xkey_inj target) self tbl ans U H1 H2 s). Qed.
Print Assumptions C10_cancel_drains.

(* nodesByDistance.push (binary search, append, copy) on a sorted bounded list = insert and cut; for ANY key function *)
Theorem C10_push_inserts : forall (key : N -> N) e n mx,
  sorted key e -> (length e <= mx)%nat -> push key e n mx = Ok (firstn mx (ins key n e)).
Proof. exact push_ok. Qed.
Print Assumptions C10_push_inserts.

(* inserting into the k smallest keeps the k smallest; any injective key *)
Theorem C10_topk_insert : forall (key : N -> N), (forall a b, key a = key b -> a = b) ->
  forall k n s, firstn k (ins key n (topk key k s)) = topk key k (n :: s).
Proof. intros key _. exact (topk_cons key). Qed.
Print Assumptions C10_topk_insert.

(* the executable schedule interpreter `run` (what the driver replays) only visits reachable states *)
Theorem C10_run_in_system : forall target self tbl ans sched s s' b,
  reachable (xkey target) ans tbl self s -> run (xkey target) ans tbl sched s = Ok (s', b) ->
  reachable (xkey target) ans tbl self s' /\
  (b = true -> exists s0, reachable (xkey target) ans tbl self s0 /\ start_queries (xkey target) tbl s0 = Ok (s', false)).
Proof. intros target self tbl ans. exact (run_reachable (xkey target) self tbl ans). Qed.
Print Assumptions C10_run_in_system.

(* content lookup: returns some content iff a queried peer supplied content, and then it is one of those answers *)
Theorem C10_content_first_wins : forall target self tbl cans U s,
  incl tbl U -> (forall p x, In (Some x) (cnodes cans p) -> In x U) ->
  creachable (xkey target) cans tbl self s -> finished (xkey target) tbl (base s) ->
  (forall c, content_result s = Some c -> exists p, In p (qlog (base s)) /\ cans p = AContent c) /\
  ((exists p c, In p (qlog (base s)) /\ cans p = AContent c) -> exists c, content_result s = Some c).
Proof. intros target self tbl cans U s H1 H2. exact (content_first_wins (xkey target) (xkey_inj target) self tbl cans U H1 H2 s). Qed.
Print Assumptions C10_content_first_wins.

(* the node-lookup theorems apply to the content lookup: its lookup state is a reachable state of the base system *)
Theorem C10_content_is_a_lookup : forall target self tbl cans s,
  creachable (xkey target) cans tbl self s -> reachable (xkey target) (cnodes cans) tbl self (base s).
Proof. intros target self tbl cans. exact (cbase_reachable (xkey target) self tbl cans). Qed.
Print Assumptions C10_content_is_a_lookup.

Theorem C10_content_cancel_drains : forall target self tbl cans U s,
  incl tbl U -> (forall p x, In (Some x) (cnodes cans p) -> In x U) ->
  creachable (xkey target) cans tbl self s -> alive (base s) = true ->
  (forall p, In p (pending (base s)) -> In p (worked s)) ->
  exists b', cstep (xkey target) cans tbl s (with_base s b') /\ pending b' = [] /\ tpending b' = None /\ finished (xkey target) tbl b'.
Proof. intros target self tbl cans U s H1 H2. exact (content_cancel_drains (xkey target) (xkey_inj target) self tbl cans U H1 H2 s). Qed.
Print Assumptions C10_content_cancel_drains.

(* the success flag lookup.query hands to the table: a query counts as successful iff its reply contained at least one
   entry; an empty (fruitless) reply is reported as a failure whether or not the query function returned an error *)
Theorem C10_query_success_flag : forall r : list (option N),
  (track_success r = true <-> r <> []) /\ track_success [] = false.
Proof. intros r. split; [exact (track_success_iff r) | reflexivity]. Qed.
Print Assumptions C10_query_success_flag.

(* the glue of node lookups: whatever a peer's FINDNODES answer was, the reply PortalProtocol.lookupWorker hands to the
   lookup never contains the local node, has at most portalFindnodesResultLimit = 32 entries, only entries of the answer,
   in distance order; and building it never panics *)
Theorem C10_worker_reply : forall target self r,
  exists l, lookup_worker_reply (xkey target) self r = Ok l /\ ~ In self l /\
            (length l <= 32)%nat /\ N.of_nat (length l) <= K_wire.K_portalFindnodesResultLimit /\
            incl l r /\ sorted (xkey target) l.
Proof.
  intros target self r. destruct (lookup_worker_reply_spec (xkey target) self r) as [l [H1 [H2 [H3 [H4 H5]]]]].
  assert (E : findnodes_limit = 32%nat) by (vm_compute; reflexivity).
  assert (E' : K_wire.K_portalFindnodesResultLimit = 32) by (vm_compute; reflexivity).
  exists l. repeat split; try assumption; lia.
Qed.
Print Assumptions C10_worker_reply.

(* premises are satisfiable by a non-trivial run: target 0, local node 100, table [5;9], peer 5 answers with a duplicate,
   the asker and a cycle back to 9, peer 9 points to 5 and to 2; replies taken in the order 9, 5, 2 *)
Example C10_nonvacuous :
  let ans := fun p => if N.eqb p 5 then [Some 9; Some 100; Some 5; Some 9; None] else if N.eqb p 9 then [Some 5; Some 2] else [] in
  exists s, run (xkey 0) ans [5; 9] [CTable; CReply 9; CReply 5; CReply 2; CReply 100] (init 100) = Ok (s, true) /\
            result s = [2; 5; 9; 100] /\ qlog s = [2; 9; 5] /\ asked s = [2; 9; 5; 100] /\ pending s = [] /\ queries s = 0%Z.
Proof. eexists. vm_compute. repeat split. Qed.
