(* Properties/C11.v : FINDNODES replies and their acceptance obey distance, size and relay rules.
   Only statements, closed by lemmas of Proofs/Handlers.v, each followed by Print Assumptions.
   [shuf d] is the shuffle the responder applies to the bucket of distance d; every theorem holds for every
   function that returns a permutation of its argument ([is_shuffle]). *)
From Shisui Require Import Base.Bytes Gen.K_wire Gen.K_table Model.Handlers Proofs.Handlers.
From Coq Require Import Permutation.

(* the reply fits one discv5 packet: for every table, distance list, asker address, shuffle and request id of at most 8 bytes *)
Theorem C11_reply_fits_one_packet : forall shuf, is_shuffle shuf ->
  forall tab self rip dists enrs reqid s1 s2,
  handle_find_nodes tab self rip shuf dists = Ok enrs -> reqid <= 8 ->
  talkresp_datagram reqid s1 (nodes_reply_len enrs) s2 <= K_maxPacketSize.
Proof. exact findnodes_reply_fits. Qed.
Print Assumptions C11_reply_fits_one_packet.

(* the constant the code subtracts bounds what discv5 adds around any TALKRESP (RLP length rules written out) *)
Theorem C11_talkresp_overhead_bound : forall reqid s1 resp s2,
  reqid <= 8 -> resp < 65000 -> talkresp_datagram reqid s1 resp s2 <= resp + K_talkRespOverhead.
Proof. exact talkresp_datagram_bound. Qed.
Print Assumptions C11_talkresp_overhead_bound.

(* at most 32 records; each is relay-safe for the asker and is the local record (only if 0 was requested) or a
   liveness-checked entry of the bucket covering a requested distance in 1..256 *)
Theorem C11_reply_records : forall shuf, is_shuffle shuf ->
  forall tab self rip dists enrs,
  handle_find_nodes tab self rip shuf dists = Ok enrs ->
  nlen enrs <= 32 /\
  forall r, In r enrs ->
    relay_ok rip (rflags r) = true /\
    ((r = self /\ In 0 dists) \/
     (exists d b, In d dists /\ 1 <= d <= 256 /\ nth_error tab (bucket_index d) = Some b /\ In (r, true) b)).
Proof. exact findnodes_reply_records. Qed.
Print Assumptions C11_reply_records.

(* the same in either phase of the table: also while the initial seeding is still running (Table.isInitDone() false) only
   liveness-checked entries are offered *)
Theorem C11_reply_records_any_table_phase : forall shuf, is_shuffle shuf ->
  forall init_done tab self rip dists enrs,
  handle_find_nodes_st init_done tab self rip shuf dists = Ok enrs ->
  nlen enrs <= 32 /\
  forall r, In r enrs ->
    relay_ok rip (rflags r) = true /\
    ((r = self /\ In 0 dists) \/
     (exists d b, In d dists /\ 1 <= d <= 256 /\ nth_error tab (bucket_index d) = Some b /\ In (r, true) b)).
Proof. exact findnodes_reply_records_any_phase. Qed.
Print Assumptions C11_reply_records_any_table_phase.
Theorem C11_table_phase_irrelevant : forall init_done tab self rip shuf dists,
  handle_find_nodes_st init_done tab self rip shuf dists = handle_find_nodes tab self rip shuf dists.
Proof. exact findnodes_any_phase. Qed.
Print Assumptions C11_table_phase_irrelevant.

(* a request served through the talk handler is checked against the packet's source address, whatever endpoint (or none) the
   sender's record advertises *)
Theorem C11_talk_relay_check_uses_packet_source : forall shuf, is_shuffle shuf ->
  forall init_done tab self packet_src enr_endpoint dists enrs,
  handle_talk_find_nodes init_done tab self packet_src enr_endpoint shuf dists = Ok enrs ->
  forall r, In r enrs -> relay_ok packet_src (rflags r) = true.
Proof. exact talk_find_nodes_relay. Qed.
Print Assumptions C11_talk_relay_check_uses_packet_source.

(* invalid (> 256) and repeated distances contribute nothing: the reply is that of the de-duplicated valid distances *)
Theorem C11_invalid_and_repeated_distances_ignored : forall shuf tab self rip dists,
  handle_find_nodes tab self rip shuf dists = handle_find_nodes tab self rip shuf (clean_dists dists []) /\
  NoDup (clean_dists dists []) /\
  (forall d, In d (clean_dists dists []) <-> In d dists /\ d <= 256).
Proof. exact findnodes_ignores_bad_distances. Qed.
Print Assumptions C11_invalid_and_repeated_distances_ignored.

(* the handler always answers (no panic, no encoder error) on a table with the compiled number of buckets
   (bucket index of distance 256 is below K_nBuckets: proved against K_bucketMinDistance / K_nBuckets) *)
Theorem C11_handler_total : forall shuf, is_shuffle shuf ->
  forall tab self rip dists, length tab = N.to_nat K_nBuckets ->
  exists enrs, handle_find_nodes tab self rip shuf dists = Ok enrs.
Proof. exact findnodes_total. Qed.
Print Assumptions C11_handler_total.

(* records are dropped from the end only for lack of room: the cut is at the first record that does not fit *)
Theorem C11_truncation_only_when_full : forall nodes total maxSize,
  truncate_aux nodes total maxSize 4 = nodes \/
  exists n rest, nodes = truncate_aux nodes total maxSize 4 ++ n :: rest /\
                 maxSize < total + enrs_size (truncate_aux nodes total maxSize 4) + rsize n + 4.
Proof. exact truncate_aux_maximal. Qed.
Print Assumptions C11_truncation_only_when_full.

(* asking side: the returned list is exactly the records meeting the five conditions, in order
   (accepted_spec keeps the record at a position iff accept_conditions_b holds of it and the records before it) *)
Theorem C11_asker_accepts_iff : forall sender enrs dists,
  filter_nodes sender enrs dists = accepted_spec sender dists [] enrs.
Proof. exact filter_nodes_spec. Qed.
Print Assumptions C11_asker_accepts_iff.

Theorem C11_asker_accepts_only_good_records : forall sender enrs dists r,
  In r (filter_nodes sender enrs dists) ->
  In r enrs /\ rvalid r = true /\ relay_ok (rflags sender) (rflags r) = true /\ 1024 < rport r /\
  (forall ds, dists = Some ds -> In (logdist (rid sender) (rid r)) ds).
Proof. exact asker_accepts_sound. Qed.
Print Assumptions C11_asker_accepts_only_good_records.

Theorem C11_asker_no_repeats : forall sender enrs dists, NoDup (map rid (filter_nodes sender enrs dists)).
Proof. exact asker_no_repeats. Qed.
Print Assumptions C11_asker_no_repeats.

Theorem C11_process_nodes_wellformed : forall c body enrs sender dists,
  b2n c = K_msg_NODES ->
  process_nodes (c :: body) (Ok enrs) sender dists = Ok (filter_nodes sender enrs dists).
Proof. exact process_nodes_wellformed. Qed.
Print Assumptions C11_process_nodes_wellformed.

Theorem C11_process_nodes_total : forall resp dec sender dists, dec <> Panic -> process_nodes resp dec sender dists <> Panic.
Proof. exact process_nodes_no_panic. Qed.
Print Assumptions C11_process_nodes_total.

(* the witness mechanism of the correspondence driver only ever hands the model a permutation *)
Theorem C11_witness_is_shuffle : forall ws : N -> option (list nrec), is_shuffle (fun d g => pick_perm (ws d) g).
Proof. exact witness_is_shuffle. Qed.
Print Assumptions C11_witness_is_shuffle.

(* premises are satisfiable by a non-trivial state *)
Example C11_nonvacuous :
  let a := mkRec 1 (2^255 + 5) 1 30303 300 true in        (* public address, 300-byte record, distance 256 from id 5 *)
  let l := mkRec 2 (2^255 + 9) 25 30303 120 true in       (* loopback address *)
  let dead := mkRec 3 (2^255 + 17) 1 30303 120 true in
  let self := mkRec 0 5 25 9009 110 true in
  let tab := repeat [] 16 ++ [[(a, true); (l, true); (dead, false)]] in
  length tab = N.to_nat K_nBuckets /\
  handle_find_nodes tab self 1 (fun _ g => g) [300; 256; 256; 0] = Ok [a] /\        (* public asker: no loopback records, no dead entry, not self *)
  handle_find_nodes tab self 25 (fun _ g => rev g) [0; 256] = Ok [self; l; a] /\
  filter_nodes self [a; l; a; dead] (Some [256]) = [a; l; dead] /\
  filter_nodes (mkRec 9 5 1 9009 110 true) [a; l; mkRec 4 77 1 80 100 true] (Some [256; 7]) = [a].
Proof. vm_compute. repeat split; reflexivity. Qed.
