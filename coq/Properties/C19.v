(* Properties/C19.v : Peers settle on the highest common protocol version and frame data accordingly.
   Only statements, closed by lemmas of Proofs/Versions.v, each followed by Print Assumptions.
   Version values are N here; the code's uint8 range plays no role in any statement. *)
From Shisui Require Import Base.Bytes Model.Framing Proofs.Framing Proofs.FramingExtra Model.Versions Proofs.Versions Proofs.VersionsExtra.
From Shisui Require Import Gen.K_wire.

(* findBiggestSameNumber succeeds with m  iff  m is the maximum of the intersection of the two advertised sets *)
Theorem C19_max_common : forall a b m,
  find_biggest_same a b = (m, None) <-> common a b m /\ forall x, common a b x -> x <= m.
Proof. exact fbs_ok_iff. Qed.
Print Assumptions C19_max_common.

(* it fails (returning value 0 next to the error)  iff  the intersection is empty - an empty list included *)
Theorem C19_error_iff_disjoint : forall a b,
  (exists e, find_biggest_same a b = (0, Some e)) <-> (forall x, ~ common a b x).
Proof. exact fbs_err_iff. Qed.
Print Assumptions C19_error_iff_disjoint.

(* symmetric for any two advertised sets (value and error class) *)
Theorem C19_symmetric : forall a b, find_biggest_same a b = find_biggest_same b a.
Proof. exact fbs_sym. Qed.
Print Assumptions C19_symmetric.

(* the peer advertises nothing: own first-listed version, and it is cached *)
Theorem C19_no_entry_base_version : forall own c node v0 rest,
  c node = None -> own = v0 :: rest ->
  get_or_store own c node PvMissing = (Ok v0, vcache_set c node v0).
Proof. exact gos_missing. Qed.
Print Assumptions C19_no_entry_base_version.

(* undecodable entry: error, nothing cached *)
Theorem C19_malformed_entry : forall own c node,
  c node = None -> get_or_store own c node PvMalformed = (Err E_ENR_LOAD, c).
Proof. exact gos_malformed. Qed.
Print Assumptions C19_malformed_entry.

(* first contact (peer not cached): success iff max of the intersection, error iff disjoint, never a panic *)
Theorem C19_first_contact_ok : forall own c node l m,
  c node = None ->
  (fst (get_or_store own c node (PvList l)) = Ok m <-> common own l m /\ forall x, common own l x -> x <= m).
Proof. exact gos_list_ok. Qed.
Print Assumptions C19_first_contact_ok.

Theorem C19_first_contact_err : forall own c node l,
  c node = None ->
  ((exists e, fst (get_or_store own c node (PvList l)) = Err e) <-> forall x, ~ common own l x).
Proof. exact gos_list_err. Qed.
Print Assumptions C19_first_contact_err.

(* Two nodes X (advertising A) and Y (advertising B) that do not have each other cached: both derive the same result;
   if it is a version v then v is the highest common one, it selects the same ACCEPT encoding on both sides (same v), and
   whatever X frames for the uTP stream Y unframes to the original (C15 round trip composes); with no common version
   both sides refuse to frame/unframe at all (no transfer). *)
Theorem C19_two_nodes_compose : forall A B cx cy nx ny,
  cx ny = None -> cy nx = None ->
  fst (get_or_store A cx ny (PvList B)) = fst (get_or_store B cy nx (PvList A)) /\
  (forall v, fst (get_or_store A cx ny (PvList B)) = Ok v ->
     (common A B v /\ forall x, common A B x -> x <= v) /\
     forall d, short d ->
       exists w, node_encode_utp A cx ny (PvList B) d = Ok w /\ node_decode_utp B cy nx (PvList A) w = Ok d) /\
  ((forall x, ~ common A B x) ->
     forall d, is_err (node_encode_utp A cx ny (PvList B) d) = true /\ is_err (node_decode_utp B cy nx (PvList A) d) = true).
Proof. exact two_nodes_compose. Qed.
Print Assumptions C19_two_nodes_compose.

(* only versions 0 and 1 select an ACCEPT encoding; anything else is "unsupported version" *)
Theorem C19_version_switch : forall v,
  (v = 0 /\ accept_kind_of v = Ok AcceptBitlist) \/ (v = 1 /\ accept_kind_of v = Ok AcceptCodes) \/
  (1 < v /\ accept_kind_of v = Err E_UNSUPPORTED_VERSION).
Proof. exact accept_kind_total. Qed.
Print Assumptions C19_version_switch.

(* every version this build advertises (regenerated K_Versions) has an ACCEPT encoding and a framing *)
Theorem C19_advertised_versions_supported : forall v, In v K_Versions -> is_ok (accept_kind_of v) = true.
Proof. intros v H. vm_compute in H. destruct H as [H|[H|[]]]; subst; reflexivity. Qed.
Print Assumptions C19_advertised_versions_supported.

(* a successful negotiation is stable under the cache *)
Theorem C19_second_call_after_ok : forall own c node e v,
  fst (get_or_store own c node e) = Ok v -> get_twice own c node e = (Ok v, Ok v).
Proof. exact second_call_after_ok. Qed.
Print Assumptions C19_second_call_after_ok.

(* DESIRED (false of the code, pinned by TestGetOrStoreHighestVersion/Get_version_0_from_no_compatible_versions):
     forall own c node l, c node = None -> (forall x, ~ common own l x) ->
       exists e1 e2, get_twice own c node (PvList l) = (Err e1, Err e2).
   The faithful model refutes it: 0 is cached next to the error, so every later call within the cache lifetime
   answers "version 0" without error. *)
Theorem C19_cached_after_error_refuted :
  exists own peer, get_twice own empty_cache 0 (PvList peer) = (Err E_NO_COMMON, Ok 0).
Proof. exact cached_after_error_refuted. Qed.
Print Assumptions C19_cached_after_error_refuted.

(* ... and it is systematic: it happens for every pair of disjoint sets *)
Theorem C19_cached_after_error_always : forall own c node l,
  c node = None -> (forall x, ~ common own l x) ->
  exists e, get_twice own c node (PvList l) = (Err e, Ok 0).
Proof. exact second_call_after_error. Qed.
Print Assumptions C19_cached_after_error_always.

(* ---- histories of calls on ONE instance.  The own version list is an argument no call changes (findBiggestSameNumber
   only reads its slices; the harness checks after every call that the instance's list is unchanged). *)

(* frame: the answer about a peer no earlier call was about is the first-contact answer, whatever the history *)
Theorem C19_history_fresh_peer : forall own c pre node e,
  ~ In node (map fst pre) ->
  fst (gos_history own c (pre ++ [(node, e)])) = fst (gos_history own c pre) ++ [fst (get_or_store own c node e)].
Proof. exact history_fresh_peer. Qed.
Print Assumptions C19_history_fresh_peer.

(* the base version handed to a peer without a `pv` entry is own's first-listed version at every point of every history *)
Theorem C19_history_base_stable : forall own v0 rest c pre node,
  own = v0 :: rest -> c node = None -> ~ In node (map fst pre) ->
  fst (gos_history own c (pre ++ [(node, PvMissing)])) = fst (gos_history own c pre) ++ [Ok v0].
Proof. exact history_base_stable. Qed.
Print Assumptions C19_history_base_stable.

(* a peer asked about before (successfully) gets the same answer again, whatever happened in between *)
Theorem C19_history_cached_peer : forall own c pre mid node e v,
  fst (get_or_store own (snd (gos_history own c pre)) node e) = Ok v ->
  ~ In node (map fst mid) ->
  forall e', fst (gos_history own c (pre ++ (node, e) :: mid ++ [(node, e')])) =
             fst (gos_history own c (pre ++ (node, e) :: mid)) ++ [Ok v].
Proof. exact history_cached_peer. Qed.
Print Assumptions C19_history_cached_peer.

(* ---- the cache key is the identity of the RECORD OBJECT the call is made with (the code keys by *enode.Node pointer),
   named rec_key (node id) (record sequence number).  The answer for a record depends only on that record's pv entry, the
   own list and earlier calls WITH THAT RECORD - not on what was negotiated with any other record, other records of the
   SAME node (an older or a republished one) included. *)
Theorem C19_history_record_independent : forall own c pre id seq e,
  seq < 18446744073709551616 ->
  Forall (fun st => exists i s, fst st = rec_key i s /\ s < 18446744073709551616 /\ (i, s) <> (id, seq)) pre ->
  fst (gos_history own c (pre ++ [(rec_key id seq, e)])) =
  fst (gos_history own c pre) ++ [fst (get_or_store own c (rec_key id seq) e)].
Proof. exact history_record_independent. Qed.
Print Assumptions C19_history_record_independent.

(* upgrade / downgrade: a node seen with pv = old republishes with pv = new: the new record is negotiated from `new` alone *)
Theorem C19_history_republished_record : forall own id s1 s2 old new,
  s1 < 18446744073709551616 -> s2 < 18446744073709551616 -> s1 <> s2 ->
  fst (gos_history own empty_cache [(rec_key id s1, PvList old); (rec_key id s2, PvList new)]) =
  [negotiate own old; negotiate own new].
Proof. exact history_republished_record. Qed.
Print Assumptions C19_history_republished_record.

(* the answer depends only on the two advertised SETS: order and repetition of entries in either list play no role
   (value and error class) - a peer listing [0;0;1] is treated as one listing [0;1] or [1;0] *)
Theorem C19_set_extensional : forall a a' b b',
  same_set a a' -> same_set b b' -> find_biggest_same a b = find_biggest_same a' b'.
Proof. exact fbs_set_extensional. Qed.
Print Assumptions C19_set_extensional.

Theorem C19_peer_duplicate_irrelevant : forall a v b1 b2,
  find_biggest_same a (b1 ++ v :: b2) = find_biggest_same a (v :: b1 ++ v :: b2).
Proof. exact fbs_peer_duplicate. Qed.
Print Assumptions C19_peer_duplicate_irrelevant.

Theorem C19_negotiate_set_extensional : forall A A' B B',
  same_set A A' -> same_set B B' -> negotiate A B = negotiate A' B'.
Proof. exact negotiate_set_extensional. Qed.
Print Assumptions C19_negotiate_set_extensional.

(* the same for getOrStoreHighestVersion with any cache state (result and cache afterwards), and for whole call histories *)
Theorem C19_get_or_store_set_extensional : forall own own' c node l l',
  same_set own own' -> same_set l l' ->
  get_or_store own c node (PvList l) = get_or_store own' c node (PvList l').
Proof. exact gos_set_extensional. Qed.
Print Assumptions C19_get_or_store_set_extensional.

Theorem C19_history_set_extensional : forall own steps steps' c,
  Forall2 (fun s s' => fst s = fst s' /\ same_entry (snd s) (snd s')) steps steps' ->
  gos_history own c steps = gos_history own c steps'.
Proof. exact gos_history_set_extensional. Qed.
Print Assumptions C19_history_set_extensional.

(* why both sides must derive the SAME version: a single-item uTP stream framed under one version and unframed under
   the other never yields the sent bytes - it is either rejected or altered (1..5 bytes more, or at least one fewer) *)
Theorem C19_framing_mismatch_never_delivers : forall vs vr d,
  (vs =? 1) <> (vr =? 1) -> decode_utp_content vr (encode_utp_content vs d) <> Ok d.
Proof. exact utp_version_mismatch_never_right. Qed.
Print Assumptions C19_framing_mismatch_never_delivers.

Theorem C19_framing_match_delivers : forall vs vr d,
  (vs =? 1) = (vr =? 1) -> short d -> decode_utp_content vr (encode_utp_content vs d) = Ok d.
Proof. exact utp_same_version_right. Qed.
Print Assumptions C19_framing_match_delivers.

Example C19_nonvacuous :
  find_biggest_same [0; 1] [1; 2; 0] = (1, None) /\
  find_biggest_same [0; 1] [2; 3] = (0, Some E_NO_COMMON) /\
  find_biggest_same [0; 1] [] = (0, Some E_EMPTY_SLICE) /\
  negotiate [0; 1; 2] [2; 0] = Ok 2 /\
  node_decode_utp [1] empty_cache 7 (PvList [0; 1]) (encode_utp_content 1 [x01; x02]) = Ok [x01; x02] /\
  fst (gos_history [1; 0] empty_cache [(1, PvMissing); (2, PvList [0; 1]); (3, PvMissing)]) = [Ok 1; Ok 1; Ok 1].
Proof. repeat split; vm_compute; reflexivity. Qed.
