# C11 FINDNODES replies and acceptance of NODES replies
PROP = dict(
    coq_targets=["Properties/C11.v"], property_file="Properties/C11.v",
    extract_file="Extract/ExC11.v", extract_module="c11_model", driver_files=["drv_c11.ml"],
    go_tags=["c11", "vhandlers", "vwire", "vtable"], const_groups=["wire", "table"],
    trusted_base=COMMON_TB + [
        "a node record is abstracted to (id, address predicates of netutil, UDP port, RLP length, validity under enode.New); the harness computes these with the same library calls the implementation makes",
        "discv5 framing constants of an ordinary packet (16-byte IV, 23-byte static header, 32-byte authdata, 16-byte GCM tag) are written into talkresp_datagram and validated against recorded datagrams of two live instances",
        "witness reconstruction in ocaml/drv_c11.ml (which permutation the responder's shuffle produced): can only cause a false DIFF because the extracted model re-checks every witness (pick_perm)",
    ],
    rule="seeded generator. Responder: protocol instances (local record on loopback / LAN / public address) whose routing table is filled through addFoundNode with 0..272 records (unsigned 'null' records of chosen log distance and signed v4 records from a key pool; loopback, LAN, public, special, link-local, IPv6 addresses; record sizes up to the 300-byte maximum incl. 16 maximum records in every bucket; live and not-yet-validated entries); distance lists: empty, [0], single, repeated, invalid (>256), all 256 values, several distances of bucket 0, >256 entries, random; askers on loopback/LAN/public/special/IPv6 addresses; direct handler calls and calls through handleTalkRequest. Asker: NODES responses built from a signing pool (valid, corrupted signature, corrupted content, null scheme, garbage, truncated, repeated bytes, repeated id with newer seq, no address, unspecified address, ports around 1024) with requested-distance lists derived from the actual distances +-1, nil and empty; malformed responses (empty, wrong code, truncated, garbage). Live: two instances over loopback UDP, responder table full of maximum-size signed records, recorded datagram sizes. One case = one line; non-trivial = the reply / response holds at least one record; distinct by sha1 of the line",
    nontrivial=lambda l: (" | ok" in l) and not l.rstrip().endswith(" .") and not l.rstrip().endswith("| ok ."),
    modelled=["netutil.CheckRelayAddr over the five address predicates (valid, unspecified, special network, loopback, LAN) computed by the library",
              "enode.New / rlp decoding of a record as one validity boolean per record; SSZ decoding of the NODES message taken from Nodes.UnmarshalSSZ (C14's subject)",
              "rand.Shuffle as an arbitrary permutation (theorems quantify over all of them)",
              "discv5 packet framing as the talkresp_datagram formula (checked against live datagrams every run)"],
    assumptions=["NetRestrict is nil (the harness instances have none); NoFindnodeLivenessCheck is false (default)",
                 "request ids of at most 8 bytes (go-ethereum uses 8)",
                 "rlp.EncodeToBytes of a table record never fails",
                 "error class is not compared, only ok/err/panic and the returned values"],
    timeout={"quick": 600, "thorough": 3000},
)
MANIFEST = dict(
    level="Machine-checked proof (Coq 8.16, no axioms) over a Gallina model of handleFindNodes / collectTableNodes / appendBucketNodes / truncateNodes and of processNodes / filterNodes / verifyResponseNode: for every table, distance list, asker address, shuffle and request id <= 8 bytes the reply datagram is <= maxPacketSize (stated against the regenerated K_maxPacketSize, K_talkRespOverhead, K_portalFindnodesResultLimit, K_bucketMinDistance, K_nBuckets, with the RLP length rules of the enclosing TALKRESP written out); at most 32 records, each relay-safe and either the local record (only when 0 was requested) or a live entry of the bucket of a requested distance in 1..256; invalid and repeated distances contribute nothing; the handler is total; the asker returns exactly the records meeting the five conditions (iff, as an equation with the specification list), never a repeat. Tied to the code on every run by differential execution of the real handlers (hook verif_export_handlers.go) against the extracted model with a reconstructed shuffle witness, by monitors evaluating each clause on the implementation's own replies, and by two live instances over loopback UDP whose recorded datagram sizes must equal the model's formula.",
    note="Trusted: Coq kernel, extraction + OCaml driver (witness reconstruction can only raise false alarms), Go harness and hooks; record abstraction computed with the implementation's own libraries (netutil, enode, rlp); SSZ decoding of NODES belongs to C14. Live part is exercised, not proved (discv5 framing constants are validated by measurement).",
    technique="Coq proof (induction over the distance list / response list, size arithmetic with lia) + relational correspondence run with permutation witnesses + live datagram measurement",
)
