# C08 FINDCONTENT
PROP = dict(
    coq_targets=["Properties/C08.v"], property_file="Properties/C08.v",
    extract_file="Extract/ExC08.v", extract_module="c08_model", driver_files=["drv_c08.ml"],
    go_tags=["c08", "vhandlers", "vwire", "vtable"], const_groups=["wire", "table", "handlers"],
    trusted_base=COMMON_TB + [
        "a node record is abstracted to (id, address predicates, UDP port, RLP length, validity under enode.New), computed by the harness with the implementation's own libraries",
        "discv5 framing constants inside talkresp_datagram (validated against recorded datagrams of live instances: inline content of exactly the threshold gives a 1280-byte datagram)",
        "witness reconstruction in ocaml/drv_c08.ml (tie order of sort.Slice): can only cause a false DIFF because the extracted model re-checks the witness (pick_sorted)",
        "uTP delivery (library): the large-content path is exercised over loopback, not proved",
    ],
    rule="seeded generator. Responder, handler level: instance with an in-memory store; content held with sizes 0,1,2,100,1000,1173..1177,2047..2049,4096, not held, or store failure; routing table of 0..272 records (ids near the content id / in chosen buckets / random; sizes incl. 300-byte maximum records and sizes around the packing boundary); requester in or not in the table; askers on loopback/LAN/public/IPv6. Asker, handler level: CONTENT responses: empty, one byte, wrong code, bad selector, raw payloads 0..3000 bytes, connection ids of wrong length, ENR lists from a signing pool (valid, corrupted, repeated, garbage; truncated lists). Handler level stream framing: encodeUtpContent / decodeUtpContent INCLUDING the version lookup, for own versions {0,1},{0},{1} and fresh peers whose record has no pv entry (legacy), an empty / malformed one, or the lists 0,1,01,10,2,12; bare, v1-framed and damaged frames. Live: for the version pairs ({0,1},{0,1}), ({0},{0,1}), ({0,1},{0}), ({1},{0,1}) and for legacy peers that advertise NO pv entry (asker without pv vs {0,1}; {0,1} vs responder without pv; both without; contents of 1176 and 4096 bytes) two real instances over loopback UDP, contents of 0,1,1174..1177,4096,60000 bytes (thorough: 300 kB, 1 MB) fetched by the real findContent (uTP for the large ones), all datagram sizes recorded; three lookups of content that is not held. One case = one line; non-trivial = the reply carries content or at least one record; distinct by sha1 of the line",
    nontrivial=lambda l: any(k in l for k in (" | raw ", " | connid ", " | ok ")) or (" | enrs " in l and not l.rstrip().endswith(" .")),
    modelled=["storage as found(bytes) / not found / error", "sort.Slice as any sorted permutation (ties in any order)",
              "the uTP connection id as an opaque 2-byte value; the stream as delivering exactly the encoded bytes (C15 round trip)",
              "SSZ decoding of Enrs taken from the implementation's decoder (C14's subject)",
              "version negotiation: C19's model of getOrStoreHighestVersion (Model/Versions.v) is reused for the handler-level framing lines; the live runs use both versions on either side and legacy peers without a pv entry"],
    assumptions=["node ids are unique in the routing table (hypothesis NoDup of C08_not_held; the table guarantees it, C07)",
                 "request ids of at most 8 bytes", "toContentId is the default sha256 (32-byte content ids)",
                 "content shorter than 2^32 bytes for the stream round trip (C15's hypothesis)",
                 "no packet loss / reordering shim: delivery under loss is uTP library behaviour, not covered"],
    timeout={"quick": 900, "thorough": 3000},
)
MANIFEST = dict(
    level="Machine-checked proof (Coq 8.16, no axioms) over a Gallina model of handleFindContent / findNodesCloseToContent / truncateNodes and of processContent: every reply (inline bytes, connection id, records) gives a datagram <= maxPacketSize for request ids <= 8 bytes (against the regenerated K_maxPacketSize / K_talkRespOverhead; the threshold is proved to be exactly the room left); held content of at most the threshold is returned inline and the asker extracts exactly those bytes; larger content is announced by a 2-byte connection id and the stream encoding round-trips for either version (C15); content not held yields only table records, at most 32, in non-decreasing log distance, among the 32 nearest, never the asker (for unique table ids); both handlers are total (processContent under the probed length guard); a legacy peer without a pv entry is served and read unframed by any node whose version list starts with 0. PARTIAL: the multi-packet path (connection id + uTP stream) and version negotiation are exercised by live transfers between two real instances over loopback UDP for both versions on either side (bytes compared by hash, all datagrams <= 1280), not proved; packet loss / reordering is not injected.",
    note="Trusted: Coq kernel, extraction + OCaml driver (witness reconstruction can only raise false alarms), Go harness and hooks, uTP library delivery. The one-byte-response panic of processContent (C01) is mirrored through a probed constant: the model follows whichever behaviour the compiled code has.",
    technique="Coq proof (size arithmetic, sortedness/permutation lemmas) + relational correspondence run + live transfers over loopback",
)
