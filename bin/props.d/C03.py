# C03 header proofs in all four eras
PROP = dict(
    coq_targets=["Properties/C03.v"], property_file="Properties/C03.v",
    extract_file="Extract/ExC03.v", extract_module="c03_model", driver_files=["drv_c03.ml"],
    go_tags=["c03", "vheader"], const_groups=["header"],
    trusted_base=COMMON_TB,
    rule="one case = one call of the real HeaderValidator (ValidateHeaderAndProof on synthetic types.Header values with chosen Number over caller-supplied sparse accumulators; the public constructors' validator on the repository's mainnet vectors); generator: honest sparse Merkle paths folded with crypto/sha256 for all four eras at first/last record of an epoch, first/last block of each era, first/last slot of a period, the Capella boundary slot, first/last/one-past-last accumulator entry, uint64 wrap of the summary index, oracle nil/error/longer list; EVERY single-node corruption of one honest proof per era (each sibling, the beacon block root, each slot byte), other header at the same position, neighbouring block numbers, the twelve wrong-era combinations (proof honestly built for the submitted header in another era's format), 17 wrong sizes per era, 0..16-sibling pre-merge proofs, full 8192-record epochs through history.BuildProof, random proofs with a valid execution stage; non-trivial = the proof field is not empty; distinct by sha1 of the line",
    nontrivial=lambda l: l.startswith("validate") and l.split(" ")[6] != "-",
    modelled=["fastssz ssz.VerifyProof and zrnt merkle.VerifyMerkleBranch re-implemented in Gallina (Base/Merkle.v) and SHA-256 re-implemented in Gallina (Base/Sha256.v); both are exercised by every case of this correspondence run (the model recomputes every hash)",
              "types.Header.Hash() (keccak of the RLP) is not modelled: the header enters the model as (number, hash)",
              "Oracle.GetHistoricalSummaries: its answer is an argument of the model (nil / error / list); only one call is modelled, the cache replacement affects later calls only"],
    assumptions=["theorems hold for every pair hash H; soundness clauses conclude `... \\/ Collision H` (an explicit pair of different inputs with equal hash), nothing assumes SHA-256 injective",
                 "accumulator entries are roots of arbitrary binary trees having the addressed positions (no assumption on how they were built)",
                 "C03_never_panics assumes PreMergeEpochs <= len(HistoricalEpochs) (checked on the embedded accumulator by the `embedded` line on every run) and that the oracle itself does not panic",
                 "header.Number < 2^64 (Number.Uint64() truncates otherwise); header hash and tree nodes are 32 bytes in the completeness clauses",
                 "error class is not compared, only ok/err/panic"],
    timeout={"quick": 600, "thorough": 3000},
)
MANIFEST = dict(
    level="Machine-checked proof (Coq 8.16, no axioms) over a Gallina model of ValidateHeaderAndProof (era dispatch, the four proof decoders, both Merkle procedures, accumulator indexing as checked index, summaries provider with explicit uint64 wrap), for ANY pair hash and ANY accumulators that are roots of trees: acceptance implies the header hash is the node at the position fixed by the block number (pre-merge) or by the proof's slot (post-merge, two stages) or an explicit hash collision; honest proofs are accepted; other hash / altered node / wrong-size or wrong-era proofs are rejected or give a collision; out-of-range slots give an error; the repaired validator never panics. The as-found code violates the last two (HistoricalRoots[slot/8192] unguarded: remote panic, replayed through the harness, refuted theorem with vm_compute witness) and is repaired by fixes/C03-historical-roots-bounds.diff. Model tied to the code by differential execution of the real validator vs the extracted model (which recomputes every SHA-256) on all four eras incl. the mainnet vectors, with monitors for forged/corrupted/wrong-era acceptance, honest rejection and panics.",
    note="Trusted: Coq kernel, extraction + OCaml driver, Go harness; model/code agreement outside the generated inputs is tested, not proved. keccak/RLP header hashing and the oracle are inputs of the model. Literal gindices 3228/6444, depths 14/13 and container layouts are literals in the model (not extractable as Go constants), tied by the correspondence; era and epoch constants come from K_header.v.",
    technique="Coq proof (soundness-or-collision via Merkle lemmas, decoder inversion, totality) + model/implementation correspondence run",
)
