# C01 no remote input can crash or wedge the node
PROP = dict(
    coq_targets=["Properties/C01.v"], property_file="Properties/C01.v",
    extract_file="Extract/ExC01.v", extract_module="c01_model", driver_files=["drv_c01.ml"],
    go_tags=["c01", "vdispatch", "vframing", "vwire"], const_groups=["wire"],
    trusted_base=COMMON_TB,
    rule="a real node (portal.NewNode: history, beacon, state networks with their pebble storage adapters; validators over a harness oracle) receives, under recover and a 40 s watchdog: every 0..3-byte prefix of every message code / selector on all five request and response paths, uTP stream bodies, storage Get/Put and ValidateContent with peer-chosen keys (empty, 1 byte, every type byte, short and long bodies), a stateful beacon historical-summaries prelude (record stored, then keys of length 0..12), every well-formed message kind unmutated and under truncation / extension / bit flip / offset shift / code and selector rewrite, and random bytes; one case = one delivered input; non-trivial = input longer than one byte; distinct by sha1 of the line",
    nontrivial=lambda l: len(l.split(" | ")[0].split(" ")[-1]) > 2,
    modelled=["first layer (Model/Dispatch.v): what lies behind the dispatch is a universally quantified function with a no-panic hypothesis; second layer (Model/DispatchFull.v): those hypotheses are discharged with the real models - Wire.v decoders (C14 totality), handle_find_nodes (C11), handle_find_content (C08), handle_offer + version negotiation (C09/C19), ping/pong payload processing (C20), accept parsing and stream framing (C09/C15) - giving unconditional totality theorems for the TALKREQ and TALKRESP paths",
              "still abstract after the composition: uTP (dial/accept/read/timeouts), goroutines and locks ('the call returns' is not a theorem), table mutation by addInboundNode/addFoundNode, the storage adapters behind storage.Get (their key dispatch is C01_key_dispatch_total), content validation (C02/C03/C13), ENR RLP/signature checks",
              "discv5 / uTP library code and goroutine scheduling: exercised, not modelled"],
    assumptions=["partial by nature: totality of the modelled dispatch and indexing is proved; library panics and 'the call returns' are covered by the recover / watchdog run only",
                 "replay re-executes single inputs after the standard beacon prelude (one stored historical-summaries record)"],
    timeout={"quick": 600, "thorough": 3000},
    # other properties' generators reach the same entry points with deeper, boundary-directed inputs (forged header
    # proofs with chosen slots, synthetic tries, mutated bodies, every wire decoder): any panic they observe counts here
    panic_scan=["C02", "C03", "C13", "C14"],
)
MANIFEST = dict(
    level="Proof (Coq, no axioms) that no index or slice expression of the modelled entry points - TALKREQ dispatch, the four TALKRESP processors, the uTP stream-body handler, the content-key dispatch of the three networks' storage adapters and validators, the beacon historical-summaries record handling - can panic for any byte string, any stored record and any order of operations, given that the code behind the dispatch does not; refutation lemmas (with witnesses) for the code as found, which were replayed on the real node and repaired by four fix: commits. Tied to the code by running a real three-network node under recover and a watchdog on boundary-directed and mutated inputs on every run. PARTIAL: library panics, handler internals and liveness are exercised, not proved.",
    note="Trusted: Coq kernel, extraction + driver, Go harness. The composed theorems (DispatchFull) discharge the sub-handler hypotheses with the models of C08/C09/C11/C14/C19/C20; uTP, scheduling, table mutation, storage internals and content validation stay abstract. Direct handler calls run under recover; the live attack runs a full node in a child process over loopback discv5; the panic scan feeds the generators of C02/C03/C13/C14 through their own drivers.",
    technique="Coq totality proof over a model of every index/slice expression on the remote entry points + recover/watchdog differential run against a real node",
)
