# C14 wire messages round-trip and decode canonically within their limits
PROP = dict(
    coq_targets=["Properties/C14.v"], property_file="Properties/C14.v",
    extract_file="Extract/ExC14.v", extract_module="c14_model", driver_files=["drv_c14_more.ml", "drv_c14.ml"],
    go_tags=["c14", "vwire"], const_groups=["wire"],
    trusted_base=COMMON_TB,
    rule="seeded generator, per type: values with every field on its boundary grid (0, 1, max-1, max, random) and values just beyond one limit (max+1, count+1, one over-long item, invalid bitlists); byte strings: valid encodings, one or two mutations of them (bit flip, truncation, extension, trailing zeros, one offset shifted by +-1/+-4/2/8, offsets swapped, offset set to 0/4/len/len+-1/2^31/2^32-1, all offsets shifted, insert, delete), random strings, the fixed strings 00000000 / 04000000 / 0400000000000000 / ... alone and behind the type's fixed part; `hold` lines (encode A, keep the bytes, encode other values of the same and of other types, report A's bytes) and `redec` lines (decode X then Y into the same object, incl. the same bytes twice and longest-then-shortest); one case = one line (kind, type, input, implementation observable); non-trivial = input not empty; distinct by sha1 of the line",
    nontrivial=lambda l: not (l.split(" | ")[0].split(" ")[-1] in ("-", ".")),
    modelled=["ferranbt/fastssz v0.1.4 ReadOffset, DecodeDynamicLength, UnmarshalDynamic, DivideInt2, ValidateBitlist re-implemented in Gallina (validated by the same correspondence run)",
              "protolambda/ztyp v0.2.2 DecodingReader (Read, SubScope, Container, FixedLenContainer, List, ByteList) and EncodingWriter re-implemented in Gallina (validated by the same correspondence run)"],
    assumptions=["error class is not compared, only ok/err/panic and the returned values",
                 "dec_T is a function of the bytes alone; for the decoders that are receiver-independent today (Offer, Nodes, Enrs, FindNodes, ...) a second decode into a used object is compared with it as part of the correspondence (`redec` lines, a difference is a DIFF); 30 types follow the stock fastssz/ztyp receiver convention (append to / keep the receiver's old contents; all call sites use fresh receivers) and are not compared - an observation, not a violation of the property as stated"],
    timeout={"quick": 600, "thorough": 3000},
)
MANIFEST = dict(
    level="Machine-checked proof (Coq 8.16, no axioms) over Gallina models of the SSZ codecs: 48 Go types plus the fork-digest dispatch of the 5 beacon Forked* wrappers, all with theorems. "
          "codec_ok (round trip + over-limit values rejected + decoded values within the declared limits + canonicity) for: the 11 portalwire messages; the 5 ping_ext payloads and CustomPayloadExtensionsFormatPayload; "
          "17 history-network containers (the accumulator/roots/summaries proofs, both BlockHeaderWithProof types, the ephemeral-header keys and payload, PortalReceipts, HeaderRecord, "
          "BlockBodyLegacy, PortalBlockBodyShanghai, EpochAccumulator, SSZProof, MasterAccumulator); the 4 fastssz beacon keys and HistoricalSummariesWithProofKey; the 9 state-network types (the three content keys, "
          "TrieNode, TrieProof, ContractBytecodeContainer and the three *WithProof containers). The ztyp-based types are derived from generic theorems about the library combinators "
          "(Proofs/Ztyp.v: a Container reads exactly what the encoder writes, for any exact field decoders; dynamic lists; totality). Forked* wrappers: unknown digests rejected, the digest "
          "selects the fork's payload type, round trip and canonicity of digest||payload for any payload codec satisfying the stated library contract (Section hypotheses: round trip, "
          "re-encoding is a prefix of what was read). The declared numeric limits are one theorem (64 keys against K_ContentKeysLimit, 2048-byte keys/ENRs, 32 ENRs, 256 distances, 1100-byte "
          "payload, 2-byte connection id). Decoder totality (never Panic) for every modelled decoder in every variant (C14_decoders_total, C14_decoders_total_state, C14_Forked_total). "
          "Round trips of PortalReceipts / the block bodies / the *WithProof containers carry the explicit hypothesis that the encoding fits 32-bit offsets. "
          "Eighteen decoders were lax or wrong as found (zero first offset, trailing bytes after fixed-size ztyp values, empty list not round-tripping); all are repaired in /repo "
          "(fixes/C14-*.diff); theorems are stated against model flags that say which variant the tree has; as-found variants keep `_refuted` lemmas with witnesses. "
          "Not modelled: LightClientUpdateRange, the zrnt payload codecs themselves (opaque). Every model is tied to the code on every run by differential "
          "execution of the real Marshal/Unmarshal (Serialize/Deserialize) against the extracted model (about 23,000 cases per quick run); struct tags, exported limits and fork digests are "
          "compared with the model's literals.",
    note="Trusted: Coq kernel, extraction + OCaml driver, Go harness; model/code agreement outside the generated inputs is tested, not proved. fastssz and ztyp helpers are re-implemented "
         "in the model (validated by the same run); the zrnt payload codecs behind the Forked* wrappers are Section variables whose per-input values the harness obtains by calling the library. "
         "Receiver-independent decoders are also run a second time on a used object (`redec` lines, correspondence only) and encodings are held across later encodes (`hold` lines, monitor encoding-changed-by-later-encode-<Type>). List counts near 16384 (receipts, transactions) and the 16 MiB item limit are not exercised; the 65536-witness boundary of SSZProof only in the thorough tier. Observation (not a C14 defect, not changed): "
         "ForkedHistoricalSummariesWithProof has no digest switch - every fork digest is accepted. Repaired defects are status=fixed in known_findings.d/C14.json and suppress nothing.",
    technique="Coq proof (combinator lemmas for offsets/lists, generic invariants of the ztyp reader/Container/List, iff-characterisation or closed form of each decoder) + model/implementation correspondence run with property monitors",
)
