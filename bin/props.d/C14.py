# C14 wire messages round-trip and decode canonically within their limits
PROP = dict(
    coq_targets=["Properties/C14.v"], property_file="Properties/C14.v",
    extract_file="Extract/ExC14.v", extract_module="c14_model", driver_files=["drv_c14_more.ml", "drv_c14.ml"],
    go_tags=["c14", "vwire"], const_groups=["wire"],
    trusted_base=COMMON_TB,
    rule="seeded generator, per type: values with every field on its boundary grid (0, 1, max-1, max, random) and values just beyond one limit (max+1, count+1, one over-long item, invalid bitlists); byte strings: valid encodings, one or two mutations of them (bit flip, truncation, extension, trailing zeros, one offset shifted by +-1/+-4/2/8, offsets swapped, offset set to 0/4/len/len+-1/2^31/2^32-1, all offsets shifted, insert, delete), random strings, the fixed strings 00000000 / 04000000 / 0400000000000000 / ... alone and behind the type's fixed part; one case = one line (kind, type, input, implementation observable); non-trivial = input not empty; distinct by sha1 of the line",
    nontrivial=lambda l: not (l.split(" | ")[0].split(" ")[-1] in ("-", ".")),
    modelled=["ferranbt/fastssz v0.1.4 ReadOffset, DecodeDynamicLength, UnmarshalDynamic, DivideInt2, ValidateBitlist re-implemented in Gallina (validated by the same correspondence run)",
              "protolambda/ztyp v0.2.2 DecodingReader (Read, SubScope, Container, FixedLenContainer, List, ByteList) and EncodingWriter re-implemented in Gallina (validated by the same correspondence run)"],
    assumptions=["error class is not compared, only ok/err/panic and the returned values",
                 "decoders are run on a fresh zero value (the append-to-existing-slice behaviour of the generated code is not modelled)"],
    timeout={"quick": 600, "thorough": 3000},
)
MANIFEST = dict(
    level="Machine-checked proof (Coq 8.16, no axioms) over Gallina models of the SSZ codecs, 41 Go types modelled. "
          "THEOREMS (codec_ok = round trip + over-limit values rejected + decoded values within the declared limits + canonicity) for 33 types: "
          "the 11 portalwire messages (Ping, Pong, FindNodes, FindContent, Offer, Nodes, ConnectionId, Content, Enrs, Accept, AcceptV1), "
          "the 5 ping_ext payloads (ClientInfoAndCapabilities, BasicRadius, HistoryRadius, Error, Capabilities), "
          "11 history-network containers (BlockProofHistoricalHashesAccumulator, the three BlockProofHistorical* proofs, BlockHeaderWithProof, "
          "FindContentEphemeralHeadersKey, EphemeralHeaderPayload, OfferEphemeralHeaderKey, OfferEphemeralHeader, PortalReceipts - its round trip under the "
          "hypothesis that the encoding fits 32-bit offsets -, HeaderRecord), the 4 fastssz beacon keys and the 2 fixed-size ztyp keys "
          "(ContractBytecodeKey, HistoricalSummariesWithProofKey); the declared numeric limits as one theorem (64 keys against K_ContentKeysLimit, 2048-byte keys/ENRs, "
          "32 ENRs, 256 distances, 1100-byte payload, 2-byte connection id); decoder totality (never Panic) for all 31+2 of these decoders in every variant. "
          "Ten decoders were lax or wrong as found (zero first offset accepted by 5 list decoders, trailing bytes ignored by 4 fixed-size ztyp decoders, empty "
          "EphemeralHeaderPayload / PortalReceipts not surviving their own round trip); they are repaired in /repo (fixes/C14-*.diff), the theorems are stated "
          "against flags of the model that say which variant the tree has, and the as-found variants keep their weaker theorems plus `_refuted` lemmas with witnesses. "
          "PARTIAL (correspondence only, no theorems): 8 state-network types built from ztyp Container / dynamic List / the Nibbles codec. Not modelled: beacon Forked* "
          "wrappers, history block bodies, EpochAccumulator, SSZProof, MasterAccumulator. Every model is tied to the code on every run by differential execution of the real "
          "Marshal/Unmarshal (Serialize/Deserialize) against the extracted model (41 types, about 650 cases each); struct tags and exported limits are compared with the model's literals.",
    note="Trusted: Coq kernel, extraction + OCaml driver, Go harness; model/code agreement outside the generated inputs is tested, not proved. fastssz and ztyp "
         "helpers are re-implemented in the model (validated by the same run). Decoders are run on fresh values only. PortalReceipts: list counts near the 16384 limit are "
         "not exercised (model side too slow); ClientInfo well-formedness includes length < 2^32-40 (ztyp WriteOffset panics beyond). Repaired defects are recorded as "
         "status=fixed in known_findings.d/C14.json and suppress nothing: the monitors fire with canonicity-zero-offset-<T> / canonicity-trailing-bytes-<T> / roundtrip-<T> if one returns.",
    technique="Coq proof (combinator lemmas for offsets/lists/ztyp reader composed per type, iff-characterisation or closed form of each decoder) + model/implementation correspondence run with property monitors",
)
