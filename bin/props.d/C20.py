# C20 gossip target selection and radius bookkeeping
PROP = dict(
    coq_targets=["Properties/C20.v"], property_file="Properties/C20.v",
    extract_file="Extract/ExC20.v", extract_module="c20_model", driver_files=["drv_c20.ml"],
    go_tags=["c20", "vhandlers", "vwire", "vtable"], const_groups=["wire", "table", "handlers"],
    trusted_base=COMMON_TB + [
        "a table node is abstracted to its id (plus tag); ping/pong events to (ping|pong, sender id, sender in table or replacement list when the payload is processed, payload type, DataRadius as decoded by the payload decoder of that type); the harness obtains these with the implementation's own decoders and table accessor",
        "witness reconstruction in ocaml/drv_c20.ml (tie order of sort.Slice, outcome of rand.Shuffle): can only cause a false DIFF because the extracted model re-checks every witness (pick_sorted, pick_perm)",
        "hook HandleTalkRequest waits for the goroutine handlePing spawns (go processPing) by polling runtime.NumGoroutine",
    ],
    rule="seeded generator of histories on one real protocol instance (history / state / beacon / a network with the default extension set; 50 or 0..7 uTP permits): routing table of 0..272 records (ids near the content id, in chosen buckets, random) inserted through addFoundNode, then 2..90 operations: PING bytes served by handleTalkRequest and PONG bytes given to processPong, from table nodes and outsiders (no address / unspecified address: cannot enter the table), payload types ClientInfo / BasicRadius / HistoryRadius / Error / unknown, radii 0, 1, the node's log distance to the content, that +1, 255..258, powers of two, random, maximum; truncated / extended payloads, truncated messages, wrong message code; table deletions; malformed cache entries written directly; GossipAndReturnPeers calls with source nil / in table / not in table, 1..64 items, key-count mismatches and empty content. After every event the radius cache is read back; for every gossip call the returned nodes and the offers found in the offer queue are recorded. One case = one history; non-trivial = at least one gossip call returned a target; distinct by sha1 of the line",
    nontrivial=lambda l: any(o.startswith("ok~") and not o.startswith("ok~.") for o in l.split(" | ")[-1].split("+")),
    modelled=["fastcache as an exact map (no eviction at these sizes)", "SSZ decoding of Ping/Pong and of the three payload types (C14's subject) taken from the implementation's decoders",
              "table membership (getNodeOrReplacement) observed from the real table, not modelled (C07's subject)",
              "sort.Slice as any sorted permutation, rand.Shuffle as any permutation",
              "inRange as the code has it: which of the two rules (radius > log distance, the original; radius > XOR distance, the C06 repair) the compiled code applies is probed on every run and regenerated as K_inRange_xor; all theorems hold for either"],
    assumptions=["ENR sequence numbers in pings/pongs do not exceed the table's (no RequestENR network call in the middle of processing)",
                 "ping payloads are processed one at a time (the code processes each in its own goroutine; two pings of one node racing each other are outside the model)",
                 "offer queue not full (the queue-full permit leak is C16's subject)"],
    timeout={"quick": 900, "thorough": 3000},
)
MANIFEST = dict(
    level="Machine-checked proof (Coq 8.16, no axioms) over a Gallina model of GossipAndReturnPeers / findNodesCloseToContent / inRange and of the radius-cache updates of handlePing+processPing and processPong+processPongPayload: for every table, cache, source, content id, tie order of the sort and shuffle: at most 8 targets, all among the 32 nearest (nothing outside is strictly closer), each with a cached radius that covers (in-range test as the compiled code has it: log-distance or XOR rule, probed every run as K_inRange_xor), never the source, never a node with unknown radius, the first min(4,n) targets are the closest covered ones in order, offers only to returned targets; for every interleaving of ping/pong events (fold over an event list) the cached radius of an id is the one it last reported while in the table. Tied to the code on every run by histories executed on a real protocol instance (real table, real fastcache, real SSZ decoders, real offer queue) against the extracted model with reconstructed sort/shuffle witnesses, plus monitors for each clause on the implementation's own answers.",
    note="Trusted: Coq kernel, extraction + OCaml driver (witness reconstruction can only raise false alarms), Go harness and hooks. Table membership is observed, not modelled. The in-range rule is the code's (probed: the XOR rule after the C06 repair, the log-distance rule before it). Asynchronous ping processing is serialised by the hook.",
    technique="Coq proof (fold invariant over event lists, sortedness/permutation lemmas) + relational correspondence run over histories on a real instance",
)
