# C15 content stream framing
PROP = dict(
    coq_targets=["Properties/C15.v"], property_file="Properties/C15.v",
    extract_file="Extract/ExC15.v", extract_module="c15_model", driver_files=["drv_c15.ml"],
    go_tags=["c15", "vframing"], const_groups=[],
    trusted_base=COMMON_TB,
    rule="seeded generator: lists of 0..64 items with lengths on the varint boundary grid (0,1,127,128,16383,16384,2^21-1..), their encodings, truncations at random cut points, mutated encodings (bit flip, extension, truncation, forced continuation bit, over-long varint), varint-heavy and plain random byte strings, fixed boundary corpus; the consumer handleOfferedContents with the exact / wrong key counts and good streams followed by malformed tails or surplus items; one case = one line (kind, input, implementation observable); non-trivial = input is not the empty string/list; distinct by sha1 of the line",
    nontrivial=lambda l: not (l.split(" | ")[0].split(" ")[-1] in ("-", ".")),
    modelled=["tetratelabs/wabin leb128 EncodeUint32/DecodeUint32 re-implemented in Gallina (validated by the same correspondence run)"],
    assumptions=["items shorter than 2^32 bytes (uint32(len) wraps otherwise; stated as hypothesis `short`)",
                 "error class is not compared, only ok/err/panic and the returned values"],
)
MANIFEST = dict(
    level="Machine-checked proof (Coq 8.16, no axioms) over a Gallina model of the four framing helpers and the LEB128 codec: inverse law for every list of items < 2^32 bytes, image characterisation (an accepted stream is exactly header_i++item_i), truncation, over-long / overflowing varints, exact cover for single-item streams, totality, unique decodability (one split per stream, one canonical stream per list), size accounting of an accepted stream (1..5 prefix bytes per item), and for a single-item stream between two sides: the sent bytes arrive iff both frame under the same version. The uint32 wrap of a 2^32-byte item and the acceptance of non-minimal length prefixes are proved as stated observations (C15_long_item_*, C15_noncanonical_prefix_accepted). The model is tied to the code on every run by differential execution (real helpers via build-tag hooks vs the extracted model) on boundary-directed inputs; monitors derived from the iff-theorems turn any divergence of the accepting set into a concrete failing input.",
    note="Trusted: Coq kernel, extraction + OCaml driver, Go harness; model/code agreement outside the generated inputs is tested, not proved. leb128 library re-implemented in the model. Items >= 2^32 bytes excluded by hypothesis (uint32 wrap).",
    technique="Coq proof (induction, inverse law + image characterisation) + model/implementation correspondence run",
)
