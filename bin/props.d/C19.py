# C19 version negotiation
PROP = dict(
    coq_targets=["Properties/C19.v"], property_file="Properties/C19.v",
    extract_file="Extract/ExC19.v", extract_module="c19_model", driver_files=["drv_c19.ml"],
    go_tags=["c19", "voffer", "vwire"], const_groups=["wire"],
    trusted_base=COMMON_TB,
    rule="all 49 ordered pairs of non-empty subsets of {0,1,2} (helper, first+second call on a signed ENR, both directions, framing through both ends), missing / malformed (RLP list) / empty `pv` entries against 7 own lists (empty own list included), seeded random lists over 0..255 and over 0..5 with duplicates, permutations and forced common elements, histories of 2..8 calls on ONE instance with own lists in non-ascending order ([1,0], [2,0,1], ...) mixing no-pv / pv / malformed / no-common peers and repeated peers (each step result compared, the instance's own list observed after every call), which ACCEPT encoding a reply is in (`accenc`: a full instance answers a real OFFER through handleTalkRequest while its routing table holds an OLDER record of the peer advertising other versions than the record of the request, with and without a free inbound slot; the encoding must be the one negotiated from the request's record: monitor accept-encoded-in-wrong-version), and live pairs of two real protocol instances over loopback UDP (one OFFER with uTP transfer and one large FINDCONTENT each; 4 pairings per quick run, all 40 pairings sharing 0 or 1 in thorough); one case = one line; non-trivial = both lists non-empty; distinct by sha1 of the line",
    nontrivial=lambda l: " - " not in l.split(" | ")[0] + " ",
    modelled=["expirable versions cache modelled as an arbitrary partial map argument (expiry = any smaller map); cache keyed by node identity",
              "enode.Node.Load of the `pv` entry modelled as a three-way case (missing / undecodable / byte string)"],
    assumptions=["the two live instances run in one process over 127.0.0.1 (real discv5 + uTP)",
                 "content items shorter than 2^32 bytes for the framing round trip (hypothesis `short`)"],
    timeout={"quick": 600, "thorough": 3000},
)
MANIFEST = dict(
    level="Machine-checked proof (Coq 8.16, no axioms) over a Gallina model of findBiggestSameNumber, getOrStoreHighestVersion (cache as argument) and the version switch of ACCEPT parsing / uTP framing: result = maximum of the intersection (iff), error iff the intersection is empty, symmetry for any two lists, missing entry -> own first version, malformed entry -> error and nothing cached, the frame property over call histories (a peer not asked about before gets the first-contact answer whatever the history; the base version for no-pv peers is own's first-listed version at every point; a cached peer keeps its answer) and the two-node composition theorem (both ends derive the same version, so what one end frames the other unframes - C15 round trip reused). The code's caching of version 0 next to the 'no common version' error is proved as C19_cached_after_error_refuted / _always (test-pinned, known finding). Tied to the code on every run by differential execution (real helper and real getOrStoreHighestVersion on signed ENRs, exhaustive over subsets of {0,1,2}) plus live offer / find-content transfers between two real instances.",
    note="Trusted: Coq kernel, extraction + OCaml driver, Go harness. The cache is keyed by *enode.Node pointer in the code; the model keys it by an opaque node id. Advertising a version > 1 on both sides negotiates an unsupported version (model and code agree: offer refused); no build advertises one (theorem against regenerated K_Versions).",
    technique="Coq proof (loop invariant, iff characterisations, symmetry) + model/implementation correspondence run incl. live two-node transfers",
)
