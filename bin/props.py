# bin/props.py : loads the per-property configuration files bin/props.d/Cxx.py
# Each file defines  PROP = dict(...)  (for bin/check)  and  MANIFEST = dict(level=, note=, technique=)  (for bin/mkmanifest).
import os, glob, importlib.machinery, importlib.util

ALLOWED_AXIOMS = {
    # only axioms the standard library itself declares; listed in DESIGN.md section 8
    "functional_extensionality_dep", "FunctionalExtensionality.functional_extensionality_dep",
    "proof_irrelevance", "ProofIrrelevance.proof_irrelevance", "classic", "Classical_Prop.classic",
    "JMeq_eq", "JMeq.JMeq_eq", "Eqdep.Eq_rect_eq.eq_rect_eq", "eq_rect_eq",
}
COMMON_TB = [
    "hand-written Gallina model tied to the code by the correspondence run (Go harness, build tag verif, vs Coq-extracted OCaml driver on the same inputs)",
    "Coq extraction (ExtrOcamlBasic directives only: bool, option, list, prod, unit, sumbool), ocamlopt, ocaml/util.ml + driver (Obj.magic between structurally identical extracted types)",
    "Go harness, bin/check, constgen (prints compiled Go constants into coq/Gen/K_*.v)",
]
PROPS = {}
MANIFEST_TEXT = {}
NOT_CLAIMED = {}
_d = os.path.join(os.path.dirname(os.path.abspath(__file__)), "props.d")
for _f in sorted(glob.glob(os.path.join(_d, "C*.py"))):
    _name = os.path.basename(_f)[:-3]
    _l = importlib.machinery.SourceFileLoader("props_" + _name, _f)
    _spec = importlib.util.spec_from_loader(_l.name, _l)
    _m = importlib.util.module_from_spec(_spec)
    _m.COMMON_TB = COMMON_TB
    _l.exec_module(_m)
    if hasattr(_m, "PROP"):
        PROPS[_name] = _m.PROP
        MANIFEST_TEXT[_name] = _m.MANIFEST
    if hasattr(_m, "NOT_CLAIMED_REASON"):
        NOT_CLAIMED[_name] = _m.NOT_CLAIMED_REASON
