//go:build c05 || all

package main

// C05, concurrent clause: recorded concurrent histories of the REAL store for the linearizability search.
//
//	lin <capMB> <node> <plan> | ok <events> <final observation>
//	   plan   = goroutines separated by '/', each a list of puts  <id>,<val>  separated by ';'
//	   events = for every put of the plan, in plan order:  <invocation>.<response>.<result>  separated by ';'
//	            (invocation / response are ticks of one global atomic clock: a put that responded before another was
//	            invoked must precede it in any linearization)
//	   final  = observation after all goroutines have finished, same format as a history step
import (
	"errors"
	"fmt"
	"os"
	"strconv"
	"strings"
	"sync"
	"sync/atomic"

	"github.com/cockroachdb/pebble"
	"github.com/cockroachdb/pebble/vfs"
	"github.com/zen-eth/shisui/storage"
	spebble "github.com/zen-eth/shisui/storage/pebble"
)

func stLin(c *Ctx, capMB uint64, node [32]byte, plan [][]linPut) {
	head := fmt.Sprintf("lin %d %s %s", capMB, hx(node[:]), linPlanString(plan))
	var out string
	p, msg := guard(func() {
		dir := stTempDir()
		defer os.RemoveAll(dir)
		s, err := stOpen(dir, capMB, node)
		if err != nil {
			panic(err)
		}
		defer func() { s.close() }()
		var clock atomic.Int64
		events := make([][]string, len(plan))
		var wg sync.WaitGroup
		startGate := make(chan struct{})
		for t := range plan {
			events[t] = make([]string, len(plan[t]))
			wg.Add(1)
			go func(t int) {
				defer wg.Done()
				<-startGate
				for j, pt := range plan[t] {
					b := pt.val.Bytes()
					inv := clock.Add(1)
					err := s.cs.Put(nil, pt.id, b)
					resp := clock.Add(1)
					events[t][j] = fmt.Sprintf("%d.%d.%s", inv, resp, putRes(err))
				}
			}(t)
		}
		close(startGate)
		wg.Wait()
		waitPruneGoroutines()
		var ids [][]byte
		seen := map[string]bool{}
		var ev []string
		for t := range plan {
			for j, pt := range plan[t] {
				if !seen[string(pt.id)] {
					seen[string(pt.id)] = true
					ids = append(ids, pt.id)
				}
				ev = append(ev, events[t][j])
			}
		}
		out = strings.Join(ev, ";") + " " + s.observe("-", ids)
	})
	if p {
		c.Emit("%s | panic %s", head, msg)
		return
	}
	c.Emit("%s | ok %s", head, out)
}

func init() {
	stExtraExec["lin"] = func(c *Ctx, f []string) {
		var node [32]byte
		copy(node[:], unhx(f[2]))
		n, _ := strconv.ParseUint(f[1], 10, 64)
		stLin(c, n, node, linParsePlan(f[3]))
	}
	stExtraExec["rderr05"] = func(c *Ctx, f []string) {
		var node [32]byte
		copy(node[:], unhx(f[2]))
		n, _ := strconv.ParseUint(f[1], 10, 64)
		stReadErr(c, n, node, parseOps(f[3]))
	}
	stExtraGens["05"] = func(c *Ctx) {
		r := c.Rng
		for i := 0; i < 3; i++ {
			node := genNode(c)
			ids := genIds(c, node, false)
			var ops []stOp
			for _, o := range genOps(c, 1, ids, 4+r.Intn(8), r.Pick([]int{1, 2, 3}), false) {
				if o.kind == 'p' {
					ops = append(ops, o)
				}
			}
			c.Count("read_error_restart")
			stReadErr(c, 1, node, ops)
		}
		n := 40
		if c.Tier == "thorough" {
			n = 1500
		}
		for i := 0; i < n; i++ {
			node := genNode(c)
			ids := genIds(c, node, false)
			if len(ids) > 6 {
				ids = ids[:6]
			}
			k := 2 + r.Intn(7) // 2..8 goroutines
			total := 4 + r.Intn(5)
			if total < k {
				total = k
			}
			if total > 8 {
				total = 8
				if k > 8 {
					k = 8
				}
			}
			plan := make([][]linPut, k)
			var vidc uint64 = uint64(r.Intn(1000)) * 1000
			prof := r.Pick([]int{2, 2, 0, 3})
			for j := 0; j < total; j++ {
				t := j % k
				if j >= k {
					t = r.Intn(k)
				}
				plan[t] = append(plan[t], linPut{ids[r.Intn(len(ids))], genVal(c, 1, &vidc, prof)})
			}
			c.Count(fmt.Sprintf("lin_goroutines_%d", k))
			stLin(c, 1, node, plan)
		}
	}
}

// ---------------------------------------------------------------- a restart whose read of the size record fails
//
//	rderr05 <capMB> <node> <ops> | <outcome of NewStorage while sstable reads fail> <observation after a healthy reopen>
//
// pebble on an in-memory file system; the puts of <ops> are flushed into sstables and the store is closed.  Then every
// read of an *.sst file fails with an I/O error and the store is opened again: db.Get(SizeKey) inside NewStorage cannot
// succeed.  Outcome: `openerr` (NewStorage refuses to start) or `started,<counter>,<radius>`.  Finally the fault is
// removed and the store is reopened and observed as usual.
type failFS struct {
	vfs.FS
	armed atomic.Bool
}
type failFile struct {
	vfs.File
	fs *failFS
}

var errInjectedRead = errors.New("injected I/O error")

func (f *failFS) Open(name string, opts ...vfs.OpenOption) (vfs.File, error) {
	file, err := f.FS.Open(name, opts...)
	if err != nil || !strings.HasSuffix(name, ".sst") {
		return file, err
	}
	return &failFile{File: file, fs: f}, nil
}
func (f *failFile) ReadAt(p []byte, off int64) (int, error) {
	if f.fs.armed.Load() {
		return 0, errInjectedRead
	}
	return f.File.ReadAt(p, off)
}
func (f *failFile) Read(p []byte) (int, error) {
	if f.fs.armed.Load() {
		return 0, errInjectedRead
	}
	return f.File.Read(p)
}

func rdOpen(fs vfs.FS, capMB uint64, node [32]byte) (*stStore, error) {
	db, err := pebble.Open("db", &pebble.Options{FS: fs, MemTableSize: 4 << 20})
	if err != nil {
		return nil, err
	}
	var cs storage.ContentStorage
	if p, msg := guard(func() {
		cs, err = spebble.NewStorage(storage.PortalStorageConfig{StorageCapacityMB: capMB, NodeId: node, NetworkName: "verif"}, db)
	}); p {
		err = errors.New("panic: " + msg)
	}
	if err != nil {
		waitPruneGoroutines()
		db.Close()
		return nil, err
	}
	return &stStore{capMB: capMB, node: node, db: db, cs: cs, pruned: true}, nil
}

func stReadErr(c *Ctx, capMB uint64, node [32]byte, ops []stOp) {
	head := fmt.Sprintf("rderr05 %d %s %s", capMB, hx(node[:]), opsString(ops))
	var out string
	p, msg := guard(func() {
		ffs := &failFS{FS: vfs.NewMem()}
		s, err := rdOpen(ffs, capMB, node)
		if err != nil {
			panic("open: " + err.Error())
		}
		for _, o := range ops {
			if o.kind == 'p' {
				_ = s.cs.Put(nil, o.id, o.val.Bytes())
			}
		}
		waitPruneGoroutines()
		if err := s.db.Flush(); err != nil {
			panic(err)
		}
		s.close()
		ffs.armed.Store(true)
		outcome := "openerr"
		if s2, err := rdOpen(ffs, capMB, node); err == nil {
			outcome = fmt.Sprintf("started,%d,%s", spebble.VerifCounter(s2.cs), s2.cs.Radius().Hex()[2:])
			ffs.armed.Store(false)
			s2.close()
		}
		ffs.armed.Store(false)
		s3, err := rdOpen(ffs, capMB, node)
		if err != nil {
			panic("healthy reopen: " + err.Error())
		}
		out = outcome + " " + s3.observe("-", idPool(ops))
		s3.close()
	})
	if p {
		c.Emit("%s | panic %s", head, msg)
		return
	}
	c.Emit("%s | %s", head, out)
}
