//go:build c05 || all

package main

// C05, concurrent clause: recorded concurrent histories of the REAL store for the linearizability search.
//
//	lin <capMB> <node> <plan> | ok <events> <final observation>
//	   plan   = goroutines separated by '/', each a list of puts  <id>,<val>  separated by ';'
//	   events = for every put of the plan, in plan order:  <invocation>.<response>.<result>  separated by ';'
//	            (invocation / response are ticks of one global atomic clock: a put that responded before another was
//	            invoked must precede it in any linearization)
//	   final  = observation after all goroutines have finished, same format as a history step
import (
	"fmt"
	"os"
	"strconv"
	"strings"
	"sync"
	"sync/atomic"
)

func stLin(c *Ctx, capMB uint64, node [32]byte, plan [][]linPut) {
	head := fmt.Sprintf("lin %d %s %s", capMB, hx(node[:]), linPlanString(plan))
	var out string
	p, msg := guard(func() {
		dir := stTempDir()
		defer os.RemoveAll(dir)
		s, err := stOpen(dir, capMB, node)
		if err != nil {
			panic(err)
		}
		defer func() { s.close() }()
		var clock atomic.Int64
		events := make([][]string, len(plan))
		var wg sync.WaitGroup
		startGate := make(chan struct{})
		for t := range plan {
			events[t] = make([]string, len(plan[t]))
			wg.Add(1)
			go func(t int) {
				defer wg.Done()
				<-startGate
				for j, pt := range plan[t] {
					b := pt.val.Bytes()
					inv := clock.Add(1)
					err := s.cs.Put(nil, pt.id, b)
					resp := clock.Add(1)
					events[t][j] = fmt.Sprintf("%d.%d.%s", inv, resp, putRes(err))
				}
			}(t)
		}
		close(startGate)
		wg.Wait()
		waitPruneGoroutines()
		var ids [][]byte
		seen := map[string]bool{}
		var ev []string
		for t := range plan {
			for j, pt := range plan[t] {
				if !seen[string(pt.id)] {
					seen[string(pt.id)] = true
					ids = append(ids, pt.id)
				}
				ev = append(ev, events[t][j])
			}
		}
		out = strings.Join(ev, ";") + " " + s.observe("-", ids)
	})
	if p {
		c.Emit("%s | panic %s", head, msg)
		return
	}
	c.Emit("%s | ok %s", head, out)
}

func init() {
	stExtraExec["lin"] = func(c *Ctx, f []string) {
		var node [32]byte
		copy(node[:], unhx(f[2]))
		n, _ := strconv.ParseUint(f[1], 10, 64)
		stLin(c, n, node, linParsePlan(f[3]))
	}
	stExtraGens["05"] = func(c *Ctx) {
		r := c.Rng
		n := 40
		if c.Tier == "thorough" {
			n = 1500
		}
		for i := 0; i < n; i++ {
			node := genNode(c)
			ids := genIds(c, node, false)
			if len(ids) > 6 {
				ids = ids[:6]
			}
			k := 2 + r.Intn(7) // 2..8 goroutines
			total := 4 + r.Intn(5)
			if total < k {
				total = k
			}
			if total > 8 {
				total = 8
				if k > 8 {
					k = 8
				}
			}
			plan := make([][]linPut, k)
			var vidc uint64 = uint64(r.Intn(1000)) * 1000
			prof := r.Pick([]int{2, 2, 0, 3})
			for j := 0; j < total; j++ {
				t := j % k
				if j >= k {
					t = r.Intn(k)
				}
				plan[t] = append(plan[t], linPut{ids[r.Intn(len(ids))], genVal(c, 1, &vidc, prof)})
			}
			c.Count(fmt.Sprintf("lin_goroutines_%d", k))
			stLin(c, 1, node, plan)
		}
	}
}
