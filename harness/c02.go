//go:build c02 || all

package main

// C02: history content bound to its key.  Runs the REAL HistoryValidator.ValidateContent with a
// harness-controlled header source (honest or lying), the real Network.validateContents / getters on two live
// nodes (recording storage), and the real ValidationOracle against an in-process JSON-RPC server.
//
// hdesc  = <hash>,<number hex>,<uncleHash>,<txHash>,<receiptHash>,<withdrawalsHash|n>
// H      = x (ssz decode of header-with-proof failed) | y (ssz ok, header rlp failed) | <hdesc>/<o|e|p>   (o/e/p = real header proof check)
// B      = xs|xt|xu|xw (container / a transaction / the uncles field / a withdrawal does not decode) | <uncleHash>,<txRoot>,<withdrawalsRoot|n>          (ground truth from DecodePortalBlockBodyBytes + CalcUncleHash/DeriveSha)
// R      = x | <receiptRoot>                                      (DecodeReceipts + DeriveSha)
// S      = e | <hdesc>@<header rlp>                                            (what the header source answers for key[1:])
//
// Lines:
//   vc <key> <content> <H> <B> <R> <S> | ok / err <msg> / panic <msg>
//   orc <hash> <served: n | hex> <H> | ok <hdesc> / err
//   hist <op>;<op>...  | ok <obs>;<obs>...
//       op  = O:<item>+<item>...       item = key~content~H~B~R~S          (offered batch -> validateContents)
//           | G<t>:<hash>~<remote: n|content>~H~B~R~S                      (getter t=0 header,1 body,2 receipts; remote = what the network lookup yields)
//       obs = o|e|p , puts  /  for getters  o<retid>|e|p , puts            puts = key:content+key:content (in order)

import (
	"bytes"
	"context"
	"crypto/ecdsa"
	"encoding/binary"
	"encoding/json"
	"errors"
	"fmt"
	"math/big"
	"net"
	"os"
	"path/filepath"
	"runtime"
	"sort"
	"strings"
	"sync"
	"time"

	"github.com/ethereum/go-ethereum/common"
	"github.com/ethereum/go-ethereum/common/hexutil"
	"github.com/ethereum/go-ethereum/core/types"
	"github.com/ethereum/go-ethereum/crypto"
	"github.com/ethereum/go-ethereum/log"
	"github.com/ethereum/go-ethereum/p2p/discover"
	"github.com/ethereum/go-ethereum/p2p/enode"
	"github.com/ethereum/go-ethereum/rlp"
	"github.com/ethereum/go-ethereum/rpc"
	"github.com/ethereum/go-ethereum/trie"
	cache "github.com/go-pkgz/expirable-cache/v3"
	"github.com/holiman/uint256"
	"github.com/protolambda/zrnt/eth2/beacon/capella"
	"github.com/protolambda/zrnt/eth2/configs"
	"github.com/protolambda/ztyp/codec"
	"github.com/zen-eth/shisui/history"
	"github.com/zen-eth/shisui/portalwire"
	"github.com/zen-eth/shisui/storage"
	htypes "github.com/zen-eth/shisui/types/history"
	"github.com/zen-eth/shisui/validation"
	"gopkg.in/yaml.v3"
)

func init() { registry["C02"] = runC02 }

func c02repo() string {
	if r := os.Getenv("VERIF_REPO"); r != "" {
		return r
	}
	return "/repo"
}

// ---------------------------------------------------------------- header source

type c02Oracle struct {
	summaries capella.HistoricalSummaries
	src       func(hash []byte) (*types.Header, error)
}

func (o *c02Oracle) GetHistoricalSummaries(epoch uint64) (capella.HistoricalSummaries, error) {
	if o.summaries == nil {
		return nil, errors.New("no summaries")
	}
	return o.summaries, nil
}
func (o *c02Oracle) GetBlockHeaderByHash(hash []byte) (*types.Header, error) { return o.src(hash) }
func (o *c02Oracle) GetFinalizedStateRoot() ([]byte, error)                  { return nil, errors.New("none") }

var c02Summaries capella.HistoricalSummaries

func c02LoadSummaries() {
	content, err := os.ReadFile(filepath.Join(c02repo(), "validation/testdata/beacon_data/historical_summaries_at_slot_11476992.ssz"))
	if err != nil {
		panic(err)
	}
	s := new(capella.HistoricalSummaries)
	if err := s.Deserialize(configs.Mainnet, codec.NewDecodingReader(bytes.NewReader(content), uint64(len(content)))); err != nil {
		panic(err)
	}
	c02Summaries = *s
}

// ---------------------------------------------------------------- ground truth (same library functions as the validator)

func c02hdesc(h *types.Header) string {
	wd := "n"
	if h.WithdrawalsHash != nil {
		wd = hx(h.WithdrawalsHash.Bytes())
	}
	num := "0"
	if h.Number != nil {
		num = h.Number.Text(16)
	}
	return fmt.Sprintf("%s,%s,%s,%s,%s,%s", hx(h.Hash().Bytes()), num, hx(h.UncleHash.Bytes()), hx(h.TxHash.Bytes()), hx(h.ReceiptHash.Bytes()), wd)
}

// proof check of the real header validator (C03's subject) as a three-valued observation
func c02proof(hv validation.HeaderValidator, h *types.Header, proof []byte) string {
	var err error
	if p, _ := guard(func() { err = hv.ValidateHeaderAndProof(h, proof) }); p {
		return "p"
	}
	if err != nil {
		return "e"
	}
	return "o"
}

// Ground truth is computed WITHOUT the repository's decoding glue (DecodeBlockHeaderWithProof, DecodePortalBlockBodyBytes,
// FromPortalBlockBodyShanghai, FromBlockBodyLegacy, DecodeReceipts, FromPortalReceipts are part of what C02 checks):
// the SSZ containers are opened with their generated UnmarshalSSZ and every field is decoded on its own with the
// go-ethereum decoder for that field.  A field that does not decode can never match a header: the whole item is "x".
func c02H(hv validation.HeaderValidator, content []byte) string {
	hwp := new(htypes.BlockHeaderWithProof)
	if err := hwp.UnmarshalSSZ(content); err != nil {
		return "x"
	}
	h := new(types.Header)
	if err := rlp.DecodeBytes(hwp.Header, h); err != nil {
		return "y"
	}
	return c02hdesc(h) + "/" + c02proof(hv, h, hwp.Proof)
}

func c02bodyRoots(body *types.Body) string {
	u := types.CalcUncleHash(body.Uncles)
	t := types.DeriveSha(types.Transactions(body.Transactions), trie.NewStackTrie(nil))
	w := "n"
	if body.Withdrawals != nil {
		r := types.DeriveSha(types.Withdrawals(body.Withdrawals), trie.NewStackTrie(nil))
		w = hx(r[:])
	}
	return fmt.Sprintf("%s,%s,%s", hx(u[:]), hx(t[:]), w)
}

// c02fields decodes the three fields of a body one by one; which = "" when all decode, else xt / xu / xw
func c02fields(txs [][]byte, uncles []byte, wds [][]byte, shanghai bool) (*types.Body, string) {
	body := &types.Body{Transactions: []*types.Transaction{}, Uncles: []*types.Header{}}
	for _, t := range txs {
		tx := new(types.Transaction)
		if err := tx.UnmarshalBinary(t); err != nil {
			return nil, "xt"
		}
		body.Transactions = append(body.Transactions, tx)
	}
	if err := rlp.DecodeBytes(uncles, &body.Uncles); err != nil {
		return nil, "xu"
	}
	if shanghai {
		body.Withdrawals = []*types.Withdrawal{}
		for _, w := range wds {
			wd := new(types.Withdrawal)
			if err := rlp.DecodeBytes(w, wd); err != nil {
				return nil, "xw"
			}
			body.Withdrawals = append(body.Withdrawals, wd)
		}
	}
	return body, ""
}

// c02B: the Shanghai container is tried first, then the legacy one (the documented dispatch of the portal body types)
func c02B(content []byte) string {
	out := "xs"
	guard(func() {
		sh := new(history.PortalBlockBodyShanghai)
		if err := sh.UnmarshalSSZ(content); err == nil {
			body, bad := c02fields(sh.Transactions, sh.Uncles, sh.Withdrawals, true)
			if body == nil {
				out = bad
				return
			}
			out = c02bodyRoots(body)
			return
		}
		lg := new(history.BlockBodyLegacy)
		if err := lg.UnmarshalSSZ(content); err == nil {
			body, bad := c02fields(lg.Transactions, lg.Uncles, nil, false)
			if body == nil {
				out = bad
				return
			}
			out = c02bodyRoots(body)
		}
	})
	return out
}

func c02R(content []byte) string {
	out := "x"
	guard(func() {
		pr := new(history.PortalReceipts)
		if err := pr.UnmarshalSSZ(content); err != nil {
			return
		}
		rs := make([]*types.Receipt, 0, len(pr.Receipts))
		for _, rb := range pr.Receipts {
			rc := new(types.Receipt)
			if err := rc.UnmarshalBinary(rb); err != nil {
				return
			}
			rs = append(rs, rc)
		}
		r := types.DeriveSha(types.Receipts(rs), trie.NewStackTrie(nil))
		out = hx(r[:])
	})
	return out
}

// ---------------------------------------------------------------- blocks

type c02Block struct {
	name     string
	header   *types.Header
	hash     []byte
	number   uint64
	hdrC     []byte // header-with-proof content
	bodyC    []byte
	rcptC    []byte
	body     *types.Body
	receipts []*types.Receipt
	mainnet  bool
}

func (b *c02Block) key(t byte) []byte {
	if t == 3 {
		k := make([]byte, 9)
		k[0] = 3
		binary.LittleEndian.PutUint64(k[1:], b.number)
		return k
	}
	return append([]byte{t}, b.hash...)
}
func (b *c02Block) content(t byte) []byte {
	switch t {
	case 0, 3:
		return b.hdrC
	case 1:
		return b.bodyC
	default:
		return b.rcptC
	}
}

type c02Entry struct {
	ContentKey   string `yaml:"content_key" json:"content_key"`
	ContentValue string `yaml:"content_value" json:"content_value"`
	Value        string `json:"value"`
}

func c02blockFromEntries(name string, es []c02Entry) *c02Block {
	b := &c02Block{name: name, mainnet: true}
	for _, e := range es {
		k := hexutil.MustDecode(e.ContentKey)
		v := e.ContentValue
		if v == "" {
			v = e.Value
		}
		c := hexutil.MustDecode(v)
		switch k[0] {
		case 0:
			b.hdrC = c
			b.hash = k[1:]
			hwp, err := htypes.DecodeHeaderWithProof(c)
			if err != nil {
				panic(err)
			}
			b.header = hwp.Header
			b.number = hwp.Header.Number.Uint64()
		case 1:
			b.bodyC = c
		case 2:
			b.rcptC = c
		}
	}
	if b.bodyC != nil {
		b.body, _ = history.DecodePortalBlockBodyBytes(b.bodyC)
		b.receipts, _ = history.DecodeReceipts(b.rcptC)
	}
	return b
}

func c02LoadVectors() []*c02Block {
	var out []*c02Block
	root := c02repo()
	// all four proof eras: blocks 1, 100, 7000000 (pre-merge), 15600000 (bellatrix), 17510000 (capella), 19463337 (deneb)
	data, err := os.ReadFile(filepath.Join(root, "history/testdata/test_data_collection_of_forks_blocks.yaml"))
	if err != nil {
		panic(err)
	}
	var es []c02Entry
	if err := yaml.Unmarshal(data, &es); err != nil {
		panic(err)
	}
	for i := 0; i+3 < len(es); i += 4 {
		out = append(out, c02blockFromEntries(fmt.Sprintf("forks%d", i/4), es[i:i+4]))
	}
	// last pre-merge block
	data, err = os.ReadFile(filepath.Join(root, "history/testdata/validation/15537393.yaml"))
	if err != nil {
		panic(err)
	}
	es = nil
	if err := yaml.Unmarshal(data, &es); err != nil {
		panic(err)
	}
	out = append(out, c02blockFromEntries("premerge-last", es))
	// block 14764013
	data, err = os.ReadFile(filepath.Join(root, "history/testdata/block_14764013.json"))
	if err != nil {
		panic(err)
	}
	m := map[string]c02Entry{}
	if err := json.Unmarshal(data, &m); err != nil {
		panic(err)
	}
	out = append(out, c02blockFromEntries("b14764013", []c02Entry{m["header"], m["body"], m["receipts"]}))
	// header-only vectors of the three post-merge proof eras (bellatrix, capella, deneb)
	data, err = os.ReadFile(filepath.Join(root, "types/history/testdata/header_with_proof.yaml"))
	if err != nil {
		panic(err)
	}
	es = nil
	if err := yaml.Unmarshal(data, &es); err != nil {
		panic(err)
	}
	for i, en := range es {
		if strings.HasPrefix(en.ContentKey, "0x00") {
			out = append(out, c02blockFromEntries(fmt.Sprintf("postmerge%d", i), []c02Entry{en}))
		}
	}
	// header-only vectors 1000001..1000010
	data, err = os.ReadFile(filepath.Join(root, "validation/testdata/header_with_proofs.json"))
	if err != nil {
		panic(err)
	}
	m = map[string]c02Entry{}
	if err := json.Unmarshal(data, &m); err != nil {
		panic(err)
	}
	names := make([]string, 0, len(m))
	for k := range m {
		names = append(names, k)
	}
	sort.Strings(names)
	for _, n := range names {
		out = append(out, c02blockFromEntries("hdr"+n, []c02Entry{m[n]}))
	}
	return out
}

var c02Key *ecdsa.PrivateKey

func c02tx(r *Rng, nonce uint64) *types.Transaction {
	to := common.BytesToAddress(r.Bytes(20))
	var tx *types.Transaction
	switch r.Intn(3) {
	case 0:
		tx = types.NewTx(&types.LegacyTx{Nonce: nonce, To: &to, Value: big.NewInt(int64(r.Intn(1000000))), Gas: 21000, GasPrice: big.NewInt(int64(1 + r.Intn(1000))), Data: r.Bytes(r.Intn(40))})
		s, err := types.SignTx(tx, types.HomesteadSigner{}, c02Key)
		if err != nil {
			panic(err)
		}
		return s
	case 1:
		tx = types.NewTx(&types.DynamicFeeTx{ChainID: big.NewInt(1), Nonce: nonce, To: &to, Value: big.NewInt(int64(r.Intn(1000000))), Gas: 30000, GasFeeCap: big.NewInt(100), GasTipCap: big.NewInt(2), Data: r.Bytes(r.Intn(40))})
	default:
		tx = types.NewTx(&types.AccessListTx{ChainID: big.NewInt(1), Nonce: nonce, To: &to, Value: big.NewInt(1), Gas: 30000, GasPrice: big.NewInt(7), Data: r.Bytes(r.Intn(10))})
	}
	s, err := types.SignTx(tx, types.LatestSignerForChainID(big.NewInt(1)), c02Key)
	if err != nil {
		panic(err)
	}
	return s
}

func c02rndHeader(r *Rng, number uint64) *types.Header {
	return &types.Header{
		ParentHash: common.BytesToHash(r.Bytes(32)), UncleHash: types.EmptyUncleHash, Coinbase: common.BytesToAddress(r.Bytes(20)),
		Root: common.BytesToHash(r.Bytes(32)), TxHash: types.EmptyTxsHash, ReceiptHash: types.EmptyReceiptsHash,
		Difficulty: big.NewInt(int64(r.Intn(1 << 30))), Number: new(big.Int).SetUint64(number), GasLimit: 30000000, GasUsed: uint64(r.Intn(30000000)),
		Time: uint64(1500000000 + r.Intn(100000000)), Extra: r.Bytes(r.Intn(8)),
	}
}

func c02encodeBody(body *types.Body, shanghai bool) []byte {
	txs := make([][]byte, 0)
	for _, tx := range body.Transactions {
		b, err := tx.MarshalBinary()
		if err != nil {
			panic(err)
		}
		txs = append(txs, b)
	}
	uncles := body.Uncles
	if uncles == nil {
		uncles = []*types.Header{}
	}
	ub, err := rlp.EncodeToBytes(uncles)
	if err != nil {
		panic(err)
	}
	var out []byte
	if shanghai {
		wds := make([][]byte, 0)
		for _, w := range body.Withdrawals {
			b, err := rlp.EncodeToBytes(w)
			if err != nil {
				panic(err)
			}
			wds = append(wds, b)
		}
		out, err = (&history.PortalBlockBodyShanghai{Transactions: txs, Uncles: ub, Withdrawals: wds}).MarshalSSZ()
	} else {
		out, err = (&history.BlockBodyLegacy{Transactions: txs, Uncles: ub}).MarshalSSZ()
	}
	if err != nil {
		panic(err)
	}
	return out
}

func c02encodeReceipts(rs []*types.Receipt) []byte {
	out, err := history.EncodeReceipts(rs)
	if err != nil {
		panic(err)
	}
	return out
}

func c02encodeHeader(h *types.Header, proof []byte) []byte {
	hb, err := rlp.EncodeToBytes(h)
	if err != nil {
		panic(err)
	}
	out, err := (&htypes.BlockHeaderWithProof{Header: hb, Proof: proof}).MarshalSSZ()
	if err != nil {
		panic(err)
	}
	return out
}

// synthetic block: shanghai = header has a withdrawals root and the body is Shanghai-encoded
func c02synth(c *Ctx, name string, shanghai bool, ntx, nuncle, nwd int) *c02Block {
	r := c.Rng
	var number uint64
	if shanghai {
		number = 17034870 + uint64(r.Intn(1000000))
	} else {
		number = uint64(1 + r.Intn(15000000))
	}
	h := c02rndHeader(r, number)
	body := &types.Body{}
	var receipts []*types.Receipt
	cum := uint64(0)
	for i := 0; i < ntx; i++ {
		tx := c02tx(r, uint64(i))
		body.Transactions = append(body.Transactions, tx)
		cum += 21000 + uint64(r.Intn(50000))
		rc := &types.Receipt{Type: tx.Type(), Status: uint64(r.Intn(2)), CumulativeGasUsed: cum}
		for j := r.Intn(3); j > 0; j-- {
			lg := &types.Log{Address: common.BytesToAddress(r.Bytes(20)), Data: r.Bytes(r.Intn(20))}
			for k := r.Intn(3); k > 0; k-- {
				lg.Topics = append(lg.Topics, common.BytesToHash(r.Bytes(32)))
			}
			rc.Logs = append(rc.Logs, lg)
		}
		if rc.Logs == nil {
			rc.Logs = []*types.Log{}
		}
		rc.Bloom = types.CreateBloom(rc)
		receipts = append(receipts, rc)
	}
	for i := 0; i < nuncle; i++ {
		body.Uncles = append(body.Uncles, c02rndHeader(r, number-1))
	}
	if body.Uncles == nil {
		body.Uncles = []*types.Header{}
	}
	if shanghai {
		body.Withdrawals = []*types.Withdrawal{}
		for i := 0; i < nwd; i++ {
			body.Withdrawals = append(body.Withdrawals, &types.Withdrawal{Index: uint64(r.Intn(1 << 20)), Validator: uint64(r.Intn(1 << 20)), Address: common.BytesToAddress(r.Bytes(20)), Amount: uint64(r.Intn(1 << 30))})
		}
		wh := types.DeriveSha(types.Withdrawals(body.Withdrawals), trie.NewStackTrie(nil))
		h.WithdrawalsHash = &wh
		h.BaseFee = big.NewInt(7)
		h.Difficulty = big.NewInt(0)
	}
	h.UncleHash = types.CalcUncleHash(body.Uncles)
	h.TxHash = types.DeriveSha(types.Transactions(body.Transactions), trie.NewStackTrie(nil))
	h.ReceiptHash = types.DeriveSha(types.Receipts(receipts), trie.NewStackTrie(nil))
	b := &c02Block{name: name, header: h, hash: h.Hash().Bytes(), number: number, body: body, receipts: receipts}
	b.hdrC = c02encodeHeader(h, r.Bytes(32*r.Pick([]int{0, 1, 15})))
	b.bodyC = c02encodeBody(body, shanghai)
	b.rcptC = c02encodeReceipts(receipts)
	c.Count(fmt.Sprintf("synth_shanghai=%v_tx%d_uncle%d_wd%d", shanghai, min(ntx, 2), min(nuncle, 1), min(nwd, 1)))
	return b
}

// ---------------------------------------------------------------- one ValidateContent case

type c02Env struct {
	c      *Ctx
	oracle *c02Oracle
	val    *history.HistoryValidator
	hv     validation.HeaderValidator
}

func c02NewEnv(c *Ctx) *c02Env {
	o := &c02Oracle{summaries: c02Summaries}
	return &c02Env{c: c, oracle: o, val: history.NewHistoryValidator(o), hv: validation.NewHeaderValidatorWithOracle(o)}
}

// src: nil = the source answers with an error
func c02S(src *types.Header) string {
	if src == nil {
		return "e"
	}
	rl, err := rlp.EncodeToBytes(src)
	if err != nil {
		panic(err)
	}
	return c02hdesc(src) + "@" + hx(rl)
}

func c02parseS(s string) *types.Header {
	if s == "e" {
		return nil
	}
	i := strings.IndexByte(s, '@')
	h := new(types.Header)
	if err := rlp.DecodeBytes(unhx(s[i+1:]), h); err != nil {
		panic(err)
	}
	return h
}

func (e *c02Env) setSrc(src *types.Header) {
	e.oracle.src = func(hash []byte) (*types.Header, error) {
		if src == nil {
			return nil, errors.New("header not found")
		}
		return types.CopyHeader(src), nil
	}
}

func c02obs(f func() error) string {
	var err error
	if p, msg := guard(func() { err = f() }); p {
		return "panic " + msg
	}
	if err != nil {
		m := err.Error()
		if len(m) > 60 {
			m = m[:60]
		}
		return "err " + strings.ReplaceAll(m, " ", "_")
	}
	return "ok"
}

func (e *c02Env) truth(content []byte, src *types.Header) string {
	return fmt.Sprintf("%s %s %s %s", c02H(e.hv, content), c02B(content), c02R(content), c02S(src))
}

func (e *c02Env) vc(kind string, key, content []byte, src *types.Header) {
	e.setSrc(src)
	out := c02obs(func() error { return e.val.ValidateContent(key, content) })
	e.c.Count("vc_" + kind)
	e.c.Count("vc_result_" + out[:2])
	if len(key) > 0 {
		e.c.Count(fmt.Sprintf("vc_type%d_%s", key[0], out[:2]))
	}
	e.c.Emit("vc %s %s %s | %s", hx(key), hx(content), e.truth(content, src), out)
}

// ---------------------------------------------------------------- mutations

func c02flip(b []byte, pos int, bit uint) []byte {
	m := append([]byte{}, b...)
	m[pos] ^= 1 << bit
	return m
}

// positions aimed at the structure: the SSZ offsets, the item boundaries, the ends, plus random ones
func c02positions(r *Rng, n, k int) []int {
	if n == 0 {
		return nil
	}
	set := map[int]bool{0: true, n - 1: true}
	for _, p := range []int{1, 3, 4, 7, 8, 11, 12, 13, n / 2, n - 2, n - 33} {
		if p >= 0 && p < n {
			set[p] = true
		}
	}
	for i := 0; i < k; i++ {
		set[r.Intn(n)] = true
	}
	out := make([]int, 0, len(set))
	for p := range set {
		out = append(out, p)
	}
	sort.Ints(out)
	return out
}

// byte-level mutations of one genuine (key, content) pair with an honest source
func (e *c02Env) byteMutations(b *c02Block, t byte, k int) {
	r := e.c.Rng
	key, content := b.key(t), b.content(t)
	if content == nil {
		return
	}
	for _, p := range c02positions(r, len(content), k) {
		e.vc("bitflip", key, c02flip(content, p, uint(r.Intn(8))), b.header)
	}
	for i := 0; i < 2 && len(content) > 0; i++ {
		m := append([]byte{}, content...)
		m[r.Intn(len(m))] = byte(r.Intn(256))
		e.vc("byte", key, m, b.header)
	}
	for _, cut := range []int{0, 1, 4, 8, 12, len(content) - 1, len(content) - 32, r.Intn(len(content) + 1)} {
		if cut >= 0 && cut < len(content) {
			e.vc("truncate", key, content[:cut], b.header)
		}
	}
	e.vc("extend", key, append(append([]byte{}, content...), 0), b.header)
	e.vc("extend", key, append(append([]byte{}, content...), r.Bytes(1+r.Intn(40))...), b.header)
	// key mutations: flipped hash bit, wrong selector, truncated / extended key, empty key
	e.vc("keyflip", c02flip(key, 1+r.Intn(len(key)-1), uint(r.Intn(8))), content, b.header)
	e.vc("keytrunc", key[:len(key)-1], content, b.header)
	e.vc("keyext", append(append([]byte{}, key...), byte(r.Intn(256))), content, b.header)
	for _, sel := range []byte{0, 1, 2, 3, 4, 5, 0xff} {
		if sel != t {
			e.vc("selector", append([]byte{sel}, key[1:]...), content, b.header)
		}
	}
}

// key-shape mutations with genuine content and the honest header: a key that is not exactly selector ++ 32 bytes
// (selector ++ 8 bytes for 0x03) must be rejected, wherever the genuine hash / number sits inside it
func (e *c02Env) keyShapes(b *c02Block, t byte, thorough bool) {
	r := e.c.Rng
	key, content := b.key(t), b.content(t)
	if content == nil {
		return
	}
	sel, kh := key[:1], key[1:]
	cat := func(parts ...[]byte) []byte {
		var o []byte
		for _, p := range parts {
			o = append(o, p...)
		}
		return o
	}
	ks := []int{1, 2, 8, 31, 32, 33, 40}
	if len(content) < 3000 || thorough {
		ks = ks[:0]
		for k := 1; k <= 40; k++ {
			ks = append(ks, k)
		}
	}
	for _, k := range ks {
		e.vc("key_left_extended", cat(sel, r.Bytes(k), kh), content, b.header) // the LAST bytes are the genuine hash / number
	}
	e.vc("key_left_extended_zero", cat(sel, []byte{0}, kh), content, b.header)
	e.vc("key_left_extended_zero", cat(sel, make([]byte, 32), kh), content, b.header)
	for _, k := range []int{1, 2, 8, 32} {
		e.vc("key_right_extended", cat(sel, kh, r.Bytes(k)), content, b.header) // the FIRST bytes are genuine
	}
	e.vc("key_right_extended_zero", cat(sel, kh, []byte{0}), content, b.header)
	e.vc("key_left_truncated", cat(sel, kh[1:]), content, b.header)
	e.vc("key_right_truncated", cat(sel, kh[:len(kh)-1]), content, b.header)
	e.vc("key_doubled", cat(sel, kh, kh), content, b.header)
	e.vc("key_selector_doubled", cat(sel, sel, kh), content, b.header)
	if t != 3 {
		// a 32-byte hash with the selector byte missing / the hash of the other by-hash selectors at the wrong length
		e.vc("key_left_truncated", cat(sel, kh[8:]), content, b.header)
	} else {
		e.vc("key_number_padded_to_32", cat(sel, kh, make([]byte, 24)), content, b.header)
		e.vc("key_number_padded_to_32", cat(sel, make([]byte, 24), kh), content, b.header)
	}
}

// raw-field mutations of a body: the SSZ container is well formed and two of the three fields are genuine, the third is
// undecodable, not of the right RLP shape, or decodable but different
func (e *c02Env) rawBodyFields(b *c02Block) {
	if b.body == nil {
		return
	}
	r := e.c.Rng
	key := b.key(1)
	var txs, wds [][]byte
	for _, tx := range b.body.Transactions {
		x, err := tx.MarshalBinary()
		if err != nil {
			panic(err)
		}
		txs = append(txs, x)
	}
	for _, w := range b.body.Withdrawals {
		x, err := rlp.EncodeToBytes(w)
		if err != nil {
			panic(err)
		}
		wds = append(wds, x)
	}
	if txs == nil {
		txs = [][]byte{}
	}
	if wds == nil {
		wds = [][]byte{}
	}
	uncles, err := rlp.EncodeToBytes(b.body.Uncles)
	if err != nil {
		panic(err)
	}
	otherUncles, _ := rlp.EncodeToBytes([]*types.Header{c02rndHeader(r, b.number)})
	enc := func(shanghai bool, txs [][]byte, uncles []byte, wds [][]byte) []byte {
		var out []byte
		var err error
		if shanghai {
			out, err = (&history.PortalBlockBodyShanghai{Transactions: txs, Uncles: uncles, Withdrawals: wds}).MarshalSSZ()
		} else {
			out, err = (&history.BlockBodyLegacy{Transactions: txs, Uncles: uncles}).MarshalSSZ()
		}
		if err != nil {
			panic(err)
		}
		return out
	}
	sh := b.header.WithdrawalsHash != nil
	tag := fmt.Sprintf("_sh=%v_wd%d", sh, min(len(wds), 1))
	// uncles field
	for i, u := range [][]byte{{}, {0x01}, {0x80}, {0xde, 0xad, 0xbe, 0xef}, {0xc0, 0x00}, {0x83, 1, 2, 3}, {0xc1, 0x80}, {0xc2, 0xc0, 0xc0}, otherUncles,
		append(append([]byte{}, uncles...), 0xc0), uncles[:len(uncles)-1], r.Bytes(1 + r.Intn(30))} {
		e.vc(fmt.Sprintf("raw_uncles_%d%s", i, tag), key, enc(sh, txs, u, wds), b.header)
	}
	// one transaction
	for i, x := range [][]byte{{}, {0x01}, {0xc0}, {0xde, 0xad, 0xbe, 0xef}, r.Bytes(1 + r.Intn(60))} {
		e.vc(fmt.Sprintf("raw_tx_appended_%d%s", i, tag), key, enc(sh, append(append([][]byte{}, txs...), x), uncles, wds), b.header)
		if len(txs) > 0 {
			m := append([][]byte{}, txs...)
			m[r.Intn(len(m))] = x
			e.vc(fmt.Sprintf("raw_tx_replaced_%d%s", i, tag), key, enc(sh, m, uncles, wds), b.header)
		}
	}
	if len(txs) > 0 && len(txs[0]) > 1 {
		m := append([][]byte{}, txs...)
		m[0] = m[0][:len(m[0])-1]
		e.vc("raw_tx_truncated"+tag, key, enc(sh, m, uncles, wds), b.header)
		m = append([][]byte{}, txs...)
		m[0] = append(append([]byte{}, m[0]...), 0)
		e.vc("raw_tx_extended"+tag, key, enc(sh, m, uncles, wds), b.header)
	}
	// one withdrawal
	if sh {
		for i, x := range [][]byte{{}, {0x01}, {0xc0}, {0xde, 0xad, 0xbe, 0xef}, r.Bytes(1 + r.Intn(30))} {
			if len(wds) < 16 {
				e.vc(fmt.Sprintf("raw_wd_appended_%d%s", i, tag), key, enc(true, txs, uncles, append(append([][]byte{}, wds...), x)), b.header)
			}
			if len(wds) > 0 {
				m := append([][]byte{}, wds...)
				m[r.Intn(len(m))] = x
				e.vc(fmt.Sprintf("raw_wd_replaced_%d%s", i, tag), key, enc(true, txs, uncles, m), b.header)
				// junk in one withdrawal AND junk uncles: an error of one field must not hide the other's
				e.vc(fmt.Sprintf("raw_wd_and_uncles_%d%s", i, tag), key, enc(true, txs, []byte{0x01}, m), b.header)
			}
		}
		if len(wds) > 0 {
			// junk uncles with the junk withdrawal first / last and a good one after / before it
			good := wds[0]
			e.vc("raw_uncles_junk_wd_order"+tag, key, enc(true, txs, []byte{0xde, 0xad}, [][]byte{good, good}), b.header)
		}
	}
	// receipts: one undecodable / different receipt among genuine ones
	if b.receipts != nil && len(b.receipts) > 0 {
		var rs [][]byte
		for _, rc := range b.receipts {
			x, err := rc.MarshalBinary()
			if err != nil {
				panic(err)
			}
			rs = append(rs, x)
		}
		for i, x := range [][]byte{{}, {0x01}, {0xc0}, {0xde, 0xad, 0xbe, 0xef}} {
			m := append([][]byte{}, rs...)
			m[r.Intn(len(m))] = x
			out, err := (&history.PortalReceipts{Receipts: m}).MarshalSSZ()
			if err != nil {
				panic(err)
			}
			e.vc(fmt.Sprintf("raw_receipt_replaced_%d", i), b.key(2), out, b.header)
			out, _ = (&history.PortalReceipts{Receipts: append(append([][]byte{}, rs...), x)}).MarshalSSZ()
			e.vc(fmt.Sprintf("raw_receipt_appended_%d", i), b.key(2), out, b.header)
		}
	}
}

// State carried from one decode to the next (recycled decoding containers, buffers appended to): back to back on one
// goroutine, with nothing else decoded in between,
//
//	(1) a body whose container is malformed AFTER its uncles field (withdrawals section of one byte; for the legacy
//	    layout: a malformed transactions section) and whose uncles field is a PREFIX U[:p] of the genuine uncles bytes,
//	(2) the genuine body with its uncles field replaced by the rest U[p:] (left-over ++ own = genuine): not a body of
//	    this block, must be rejected,
//	(3) the genuine body: must be accepted; also (1) directly followed by (3).
//
// Repeated, because pooled objects are per scheduler slot and dropped by the garbage collector.
func (e *c02Env) carriedState(b *c02Block, reps int) {
	if b.body == nil {
		return
	}
	runtime.LockOSThread()
	defer runtime.UnlockOSThread()
	r := e.c.Rng
	key := b.key(1)
	sh := b.header.WithdrawalsHash != nil
	var txs, wds [][]byte
	for _, tx := range b.body.Transactions {
		x, _ := tx.MarshalBinary()
		txs = append(txs, x)
	}
	for _, w := range b.body.Withdrawals {
		x, _ := rlp.EncodeToBytes(w)
		wds = append(wds, x)
	}
	if txs == nil {
		txs = [][]byte{}
	}
	if wds == nil {
		wds = [][]byte{}
	}
	U, _ := rlp.EncodeToBytes(b.body.Uncles)
	enc := func(uncles []byte) []byte {
		var out []byte
		var err error
		if sh {
			out, err = (&history.PortalBlockBodyShanghai{Transactions: txs, Uncles: uncles, Withdrawals: wds}).MarshalSSZ()
		} else {
			out, err = (&history.BlockBodyLegacy{Transactions: txs, Uncles: uncles}).MarshalSSZ()
		}
		if err != nil {
			panic(err)
		}
		return out
	}
	le := func(v int) []byte { return binary.LittleEndian.AppendUint32(nil, uint32(v)) }
	// malformed after the uncles: no transactions, uncles = stale, then a one-byte withdrawals section
	poison := func(stale []byte) []byte {
		if sh {
			return append(append(append(append(le(12), le(12)...), le(12+len(stale))...), stale...), 0xff)
		}
		// legacy layout: a one-byte transactions section, then the uncles
		return append(append(append(le(8), le(9)...), 0xff), stale...)
	}
	// a genuine Shanghai body cut inside its withdrawals offsets is malformed after the uncles as well
	genuine := b.bodyC
	for i := 0; i < reps; i++ {
		p := len(U)
		if i%2 == 1 && len(U) > 1 {
			p = 1 + r.Intn(len(U)-1)
		}
		stale, rest := U[:p], U[p:]
		ps := poison(stale)
		if sh && i%3 == 2 && len(wds) > 0 {
			full := enc(stale)
			ps = full[:len(full)-len(wds[len(wds)-1])-4*len(wds)+1] // cut inside the withdrawals offsets
		}
		// the whole sequence as ONE case line (a replay of it is self-contained):
		//   seq <key> <S> <content~H~B~R>;...  | ok <o|e|p per step>
		e.seq(key, b.header, [][]byte{ps, enc(rest), genuine, ps, genuine, ps, enc(rest), enc(rest)})
	}
}

// seq: ValidateContent on several contents under one key, back to back with nothing in between; ground truth afterwards
func (e *c02Env) seq(key []byte, src *types.Header, contents [][]byte) {
	e.setSrc(src)
	res := make([]byte, len(contents))
	for i, c := range contents {
		res[i] = c02obs(func() error { return e.val.ValidateContent(key, c) })[0]
	}
	parts := make([]string, len(contents))
	for i, c := range contents {
		parts[i] = fmt.Sprintf("%s~%s~%s~%s", hx(c), c02H(e.hv, c), c02B(c), c02R(c))
	}
	e.c.Count("seq")
	e.c.Emit("seq %s %s %s | ok %s", hx(key), c02S(src), strings.Join(parts, ";"), string(res))
}

// field-level mutations: decode, change one field, re-encode
func (e *c02Env) fieldMutations(b *c02Block) {
	r := e.c.Rng
	if b.body != nil {
		key := b.key(1)
		sh := b.header.WithdrawalsHash != nil
		cp := func() *types.Body {
			return &types.Body{Transactions: append([]*types.Transaction{}, b.body.Transactions...), Uncles: append([]*types.Header{}, b.body.Uncles...), Withdrawals: append([]*types.Withdrawal{}, b.body.Withdrawals...)}
		}
		// transactions: drop last, add one, swap two
		m := cp()
		if len(m.Transactions) > 0 {
			m.Transactions = m.Transactions[:len(m.Transactions)-1]
			e.vc("field_tx_drop", key, c02encodeBody(m, sh), b.header)
		}
		m = cp()
		m.Transactions = append(m.Transactions, c02tx(r, 99))
		e.vc("field_tx_add", key, c02encodeBody(m, sh), b.header)
		m = cp()
		if len(m.Transactions) > 1 {
			m.Transactions[0], m.Transactions[1] = m.Transactions[1], m.Transactions[0]
			e.vc("field_tx_swap", key, c02encodeBody(m, sh), b.header)
		}
		// uncles
		m = cp()
		m.Uncles = append(m.Uncles, c02rndHeader(r, b.number))
		e.vc("field_uncle_add", key, c02encodeBody(m, sh), b.header)
		m = cp()
		if len(m.Uncles) > 0 {
			m.Uncles = m.Uncles[1:]
			e.vc("field_uncle_drop", key, c02encodeBody(m, sh), b.header)
		}
		// withdrawals: other list, legacy encoding of a Shanghai block, Shanghai encoding of a legacy block
		if sh {
			m = cp()
			m.Withdrawals = append(m.Withdrawals, &types.Withdrawal{Index: 1, Validator: 2, Amount: 3})
			if len(m.Withdrawals) <= 16 {
				e.vc("field_wd_add", key, c02encodeBody(m, true), b.header)
			}
			m = cp()
			if len(m.Withdrawals) > 0 {
				m.Withdrawals = m.Withdrawals[:len(m.Withdrawals)-1]
				e.vc("field_wd_drop", key, c02encodeBody(m, true), b.header)
			}
			e.vc("field_legacy_encoding_for_shanghai_header", key, c02encodeBody(b.body, false), b.header)
		} else {
			m = cp()
			e.vc("field_shanghai_encoding_for_legacy_header_0wd", key, c02encodeBody(m, true), b.header)
			m.Withdrawals = []*types.Withdrawal{{Index: 1, Validator: 2, Amount: 3}}
			e.vc("field_shanghai_encoding_for_legacy_header_1wd", key, c02encodeBody(m, true), b.header)
		}
	}
	if b.rcptC != nil && b.receipts != nil {
		key := b.key(2)
		rs := append([]*types.Receipt{}, b.receipts...)
		if len(rs) > 0 {
			e.vc("field_rcpt_drop", key, c02encodeReceipts(rs[:len(rs)-1]), b.header)
			c0 := *rs[0]
			c0.Status ^= 1
			c0.PostState = nil
			m := append([]*types.Receipt{&c0}, rs[1:]...)
			e.vc("field_rcpt_status", key, c02encodeReceipts(m), b.header)
			c1 := *rs[len(rs)-1]
			c1.CumulativeGasUsed++
			m = append(append([]*types.Receipt{}, rs[:len(rs)-1]...), &c1)
			e.vc("field_rcpt_gas", key, c02encodeReceipts(m), b.header)
		}
		extra := &types.Receipt{Status: 1, CumulativeGasUsed: 1 << 40, Logs: []*types.Log{}}
		e.vc("field_rcpt_add", key, c02encodeReceipts(append(rs, extra)), b.header)
		// the ssz decoder quirk: a zero first offset
		e.vc("field_rcpt_zero_offset", key, []byte{0, 0, 0, 0}, b.header)
	}
	if b.hdrC != nil {
		hwp, err := htypes.DecodeBlockHeaderWithProof(b.hdrC)
		if err == nil {
			for _, t := range []byte{0, 3} {
				key := b.key(t)
				h := types.CopyHeader(b.header)
				h.Extra = append(append([]byte{}, h.Extra...), 1)
				e.vc("field_hdr_extra", key, c02encodeHeader(h, hwp.Proof), b.header)
				h = types.CopyHeader(b.header)
				h.Number = new(big.Int).Add(h.Number, big.NewInt(1))
				e.vc("field_hdr_number", key, c02encodeHeader(h, hwp.Proof), b.header)
				h = types.CopyHeader(b.header)
				h.Number = new(big.Int).Add(h.Number, new(big.Int).Lsh(big.NewInt(1), 64))
				e.vc("field_hdr_number_plus_2^64", key, c02encodeHeader(h, hwp.Proof), b.header)
				h = types.CopyHeader(b.header)
				h.TxHash[0] ^= 1
				e.vc("field_hdr_txroot", key, c02encodeHeader(h, hwp.Proof), b.header)
				if len(hwp.Proof) > 0 {
					p := c02flip(hwp.Proof, r.Intn(len(hwp.Proof)), uint(r.Intn(8)))
					e.vc("field_proof_flip", key, c02encodeHeader(b.header, p), b.header)
					e.vc("field_proof_trunc", key, c02encodeHeader(b.header, hwp.Proof[:len(hwp.Proof)-min(32, len(hwp.Proof))]), b.header)
				}
				e.vc("field_proof_empty", key, c02encodeHeader(b.header, nil), b.header)
			}
		}
	}
}

// cross pairing of two blocks: content of A under the key of B (honest source), and header of A served for the hash of B
func (e *c02Env) cross(a, b *c02Block) {
	for _, t := range []byte{0, 1, 2, 3} {
		if a.content(t) == nil {
			continue
		}
		e.vc("cross_content", b.key(t), a.content(t), b.header) // honest source: header of B
		if t == 1 || t == 2 {
			e.vc("cross_source_lies", b.key(t), a.content(t), a.header) // lying source: serves A's header for B's hash
			e.vc("cross_source_lies_genuine_content", b.key(t), b.content(t), a.header)
		}
	}
	// content of the wrong type under the key
	if a.bodyC != nil {
		e.vc("cross_type", a.key(1), a.rcptC, a.header)
		e.vc("cross_type", a.key(2), a.bodyC, a.header)
		e.vc("cross_type", a.key(1), a.hdrC, a.header)
		e.vc("cross_type", a.key(0), a.bodyC, a.header)
	}
}

func (e *c02Env) genuine(b *c02Block) {
	for _, t := range []byte{0, 3, 1, 2} {
		if b.content(t) == nil {
			continue
		}
		e.vc("genuine", b.key(t), b.content(t), b.header)
		if t == 1 || t == 2 {
			e.vc("source_error", b.key(t), b.content(t), nil)
		}
	}
}

// ---------------------------------------------------------------- real ValidationOracle over in-process JSON-RPC

type c02RPC struct {
	mu    sync.Mutex
	serve map[string][]byte
	raw   bool
}

func (s *c02RPC) HistoryGetContent(key string) (*portalwire.ContentInfo, error) {
	s.mu.Lock()
	defer s.mu.Unlock()
	d, ok := s.serve[key]
	if !ok {
		return nil, errors.New("content not found")
	}
	if s.raw {
		return &portalwire.ContentInfo{Content: string(d)}, nil // an endpoint that does not answer with hex
	}
	return &portalwire.ContentInfo{Content: hexutil.Encode(d)}, nil
}

type c02OracleEnv struct {
	e      *c02Env
	api    *c02RPC
	oracle *validation.ValidationOracle
}

func c02NewOracleEnv(e *c02Env) *c02OracleEnv {
	srv := rpc.NewServer()
	api := &c02RPC{serve: map[string][]byte{}}
	if err := srv.RegisterName("portal", api); err != nil {
		panic(err)
	}
	return &c02OracleEnv{e: e, api: api, oracle: validation.NewOracle(rpc.DialInProc(srv))}
}

func (o *c02OracleEnv) orc(kind string, hash []byte, served []byte) {
	o.api.mu.Lock()
	o.api.serve = map[string][]byte{}
	if served != nil {
		o.api.serve[hexutil.Encode(append([]byte{0}, hash...))] = served
	}
	o.api.mu.Unlock()
	var h *types.Header
	out := c02obs(func() error {
		var err error
		h, err = o.oracle.GetBlockHeaderByHash(hash)
		return err
	})
	if out == "ok" {
		out = "ok " + c02hdesc(h)
	}
	sv := "n"
	H := "x"
	if served != nil {
		sv = hx(served)
		H = c02H(o.e.hv, served)
	}
	o.e.c.Count("orc_" + kind)
	o.e.c.Count("orc_result_" + out[:2])
	o.e.c.Emit("orc %s %s %s | %s", hx(hash), sv, H, out)
}

// the endpoint answers with a string that is not hex: orcraw <hash> <string as hex> | err
func (o *c02OracleEnv) orcRaw(hash []byte, raw []byte) {
	o.api.mu.Lock()
	o.api.serve = map[string][]byte{hexutil.Encode(append([]byte{0}, hash...)): raw}
	o.api.mu.Unlock()
	out := c02obs(func() error { _, err := o.oracle.GetBlockHeaderByHash(hash); return err })
	o.e.c.Count("orc_raw_" + out[:2])
	o.e.c.Emit("orcraw %s %s | %s", hx(hash), hx(raw), out)
}

// ---------------------------------------------------------------- two live nodes: validateContents and the getters

type c02Event struct {
	kind byte // 'g' Get found, 'n' Get not found, 'x' Get failed, 'p' Put stored, 'f' Put failed, 'v' validator accepted, 'r' validator rejected
	key  string
}

type c02Storage struct {
	mu      sync.Mutex
	db      map[string][]byte
	puts    []string
	failGet bool // scripted fault: Get returns an error other than ErrContentNotFound
	failPut bool // scripted fault: Put returns an error and stores nothing
	ev      chan c02Event
}

func (s *c02Storage) emit(kind byte, key []byte) {
	if s.ev != nil {
		select {
		case s.ev <- c02Event{kind, string(key)}:
		default:
		}
	}
}

func (s *c02Storage) Get(contentKey []byte, contentId []byte) ([]byte, error) {
	s.mu.Lock()
	defer s.mu.Unlock()
	if s.failGet {
		s.emit('x', contentKey)
		return nil, errors.New("scripted storage read failure")
	}
	if v, ok := s.db[string(contentId)]; ok {
		s.emit('g', contentKey)
		return v, nil
	}
	s.emit('n', contentKey)
	return nil, storage.ErrContentNotFound
}
func (s *c02Storage) Put(contentKey []byte, contentId []byte, content []byte) error {
	s.mu.Lock()
	defer s.mu.Unlock()
	if s.failPut {
		s.emit('f', contentKey)
		return errors.New("scripted storage write failure")
	}
	s.db[string(contentId)] = append([]byte{}, content...)
	s.puts = append(s.puts, hx(contentKey)+":"+hx(content))
	s.emit('p', contentKey)
	return nil
}

// poke writes straight into the database (fault injection: the store holds bytes that never passed the gate)
func (s *c02Storage) poke(contentId []byte, content []byte) {
	s.mu.Lock()
	s.db[string(contentId)] = append([]byte{}, content...)
	s.mu.Unlock()
}
func (s *c02Storage) Radius() *uint256.Int { return storage.MaxDistance }
func (s *c02Storage) Close() error         { return nil }
func (s *c02Storage) reset() {
	s.mu.Lock()
	s.db = map[string][]byte{}
	s.puts = nil
	s.failGet, s.failPut = false, false
	s.mu.Unlock()
}
func (s *c02Storage) takePuts() string {
	s.mu.Lock()
	defer s.mu.Unlock()
	p := strings.Join(s.puts, "+")
	s.puts = nil
	if p == "" {
		p = "."
	}
	return p
}

type c02Node struct {
	pp    *portalwire.PortalProtocol
	st    *c02Storage
	queue chan *portalwire.ContentElement
}

// start = false leaves Start() to the caller (history.Network.Start starts the protocol AND processContentLoop)
func c02StartNode(boot []*enode.Node, start bool) (*c02Node, error) {
	conf := portalwire.DefaultPortalProtocolConfig()
	conf.VersionsCacheTTL = 5 * time.Minute
	conf.ListenAddr = "127.0.0.1:0"
	if boot != nil {
		conf.BootstrapNodes = boot
	}
	addr, err := net.ResolveUDPAddr("udp", conf.ListenAddr)
	if err != nil {
		return nil, err
	}
	conn, err := net.ListenUDP("udp", addr)
	if err != nil {
		return nil, err
	}
	port := conn.LocalAddr().(*net.UDPAddr).Port
	conf.ListenAddr = fmt.Sprintf("127.0.0.1:%d", port)
	privKey, err := crypto.GenerateKey()
	if err != nil {
		return nil, err
	}
	discCfg := discover.Config{PrivateKey: privKey, NetRestrict: conf.NetRestrict, Bootnodes: conf.BootstrapNodes}
	nodeDB, err := enode.OpenDB(conf.NodeDBPath)
	if err != nil {
		return nil, err
	}
	localNode := enode.NewLocalNode(nodeDB, privKey)
	localNode.SetFallbackIP(net.IP{127, 0, 0, 1})
	localNode.SetFallbackUDP(port)
	localNode.Set(portalwire.Tag)
	discV5, err := discover.ListenV5(conn, localNode, discCfg)
	if err != nil {
		return nil, err
	}
	contentQueue := make(chan *portalwire.ContentElement, 50)
	utpSocket := portalwire.NewZenEthUtp(context.Background(), conf, discV5, conn)
	versionsCache := cache.NewCache[*enode.Node, uint8]().WithMaxKeys(conf.VersionsCacheSize).WithTTL(conf.VersionsCacheTTL)
	st := &c02Storage{db: map[string][]byte{}}
	pp, err := portalwire.NewPortalProtocol(conf, portalwire.History, privKey, conn, localNode, discV5, utpSocket, st, contentQueue, versionsCache)
	if err != nil {
		return nil, err
	}
	if start {
		if err := pp.Start(); err != nil {
			return nil, err
		}
	}
	return &c02Node{pp: pp, st: st, queue: contentQueue}, nil
}

type c02Net struct {
	e         *c02Env
	a, b      *c02Node // a = node under test (recording storage), b = the "network": serves whatever the harness stores
	net       *history.Network
	remote    map[string]bool
	rpcOracle *validation.ValidationOracle
	val       *c02Validator // what the networks below call: the real validator, or a scripted verdict
	ev        chan c02Event
}

func c02StartNet(e *c02Env) (*c02Net, error) {
	log.SetDefault(log.NewLogger(log.DiscardHandler()))
	b, err := c02StartNode(nil, true)
	if err != nil {
		return nil, err
	}
	a, err := c02StartNode([]*enode.Node{b.pp.Self()}, false)
	if err != nil {
		return nil, err
	}
	ev := make(chan c02Event, 4096)
	a.st.ev = ev
	val := &c02Validator{inner: e.val, script: 'r', ev: ev}
	n := &c02Net{e: e, a: a, b: b, net: history.NewHistoryNetwork(a.pp, val), remote: map[string]bool{}, val: val, ev: ev}
	// the REAL start-up path: Network.Start starts the portal protocol and processContentLoop on a's content queue
	if err := n.net.Start(); err != nil {
		return nil, err
	}
	a.pp.AddEnr(b.pp.Self())
	// wait until a lookup from a reaches b
	probe := []byte{0xfe, 1, 2, 3}
	_ = b.pp.Put(probe, b.pp.ToContentId(probe), []byte("probe"))
	deadline := time.Now().Add(30 * time.Second)
	for {
		got, _, err := a.pp.ContentLookup(probe, a.pp.ToContentId(probe))
		if err == nil && string(got) == "probe" {
			break
		}
		if time.Now().After(deadline) {
			return nil, fmt.Errorf("nodes did not connect: %v", err)
		}
		a.pp.AddEnr(b.pp.Self())
		time.Sleep(200 * time.Millisecond)
	}
	return n, nil
}

type c02Item struct {
	key, content []byte
	src          *types.Header
}

func (n *c02Net) itemStr(it c02Item) string {
	return fmt.Sprintf("%s~%s~%s~%s~%s~%s", hx(it.key), hx(it.content), c02H(n.e.hv, it.content), c02B(it.content), c02R(it.content), c02S(it.src))
}

type c02Op struct {
	getter int // -1 = offer
	items  []c02Item
	hash   []byte
	remote []byte // nil = the lookup finds nothing
	src    *types.Header
}

// source used during one op: per key hash (an offered batch may mix blocks)
func (n *c02Net) setSrcFor(items []c02Item, def *types.Header) {
	m := map[string]*types.Header{}
	for _, it := range items {
		if len(it.key) > 0 {
			m[string(it.key[1:])] = it.src
		}
	}
	n.e.oracle.src = func(hash []byte) (*types.Header, error) {
		h, ok := m[string(hash)]
		if !ok {
			h = def
		}
		if h == nil {
			return nil, errors.New("header not found")
		}
		return types.CopyHeader(h), nil
	}
}

func (n *c02Net) runHist(ops []c02Op) {
	n.a.st.reset()
	for k := range n.remote {
		delete(n.remote, k)
	}
	n.b.st.reset()
	var opS, obsS []string
	for _, op := range ops {
		if op.getter < 0 {
			var keys, contents [][]byte
			var its []string
			for _, it := range op.items {
				keys = append(keys, it.key)
				contents = append(contents, it.content)
				its = append(its, n.itemStr(it))
			}
			n.setSrcFor(op.items, nil)
			out := c02obs(func() error { return history.VerifHistValidateContents(n.net, keys, contents) })
			opS = append(opS, "O:"+strings.Join(its, "+"))
			obsS = append(obsS, out[:1]+","+n.a.st.takePuts())
			n.e.c.Count("hist_offer_" + out[:2])
			continue
		}
		key := append([]byte{byte(op.getter)}, op.hash...)
		// the network: node b holds exactly op.remote under the key (or nothing)
		n.b.st.reset()
		if op.remote != nil {
			_ = n.b.pp.Put(key, n.b.pp.ToContentId(key), op.remote)
		}
		// the transport is not the subject: make sure the network really delivers op.remote before the getter runs
		// (a history whose lookup does not deliver after three attempts is dropped and counted)
		if op.remote != nil {
			if _, hit := n.a.st.db[string(n.a.pp.ToContentId(key))]; !hit {
				delivered := false
				for try := 0; try < 3 && !delivered; try++ {
					got, _, err := n.a.pp.ContentLookup(key, n.a.pp.ToContentId(key))
					delivered = err == nil && bytes.Equal(got, op.remote)
				}
				if !delivered {
					n.e.c.Count("hist_dropped_lookup_did_not_deliver")
					return
				}
			}
		}
		n.setSrcFor(nil, op.src)
		var retid string
		t0 := time.Now()
		out := c02obs(func() error {
			switch op.getter {
			case 0:
				h, err := n.net.GetBlockHeader(op.hash)
				if err == nil {
					retid = hx(h.Hash().Bytes())
				}
				return err
			case 1:
				b, err := n.net.GetBlockBody(op.hash)
				if err == nil {
					retid = c02bodyRoots(b)
				}
				return err
			default:
				rs, err := n.net.GetReceipts(op.hash)
				if err == nil {
					r := types.DeriveSha(types.Receipts(rs), trie.NewStackTrie(nil))
					retid = hx(r[:])
				}
				return err
			}
		})
		if os.Getenv("C02_TIMING") != "" {
			fmt.Fprintf(os.Stderr, "get%d remote=%d %s %v\n", op.getter, len(op.remote), out[:2], time.Since(t0))
		}
		rem := "n"
		content := op.remote
		if op.remote != nil {
			rem = hx(op.remote)
		}
		opS = append(opS, fmt.Sprintf("G%d:%s~%s~%s~%s~%s~%s", op.getter, hx(op.hash), rem, c02H(n.e.hv, content), c02B(content), c02R(content), c02S(op.src)))
		obsS = append(obsS, out[:1]+retid+","+n.a.st.takePuts())
		n.e.c.Count(fmt.Sprintf("hist_get%d_%s", op.getter, out[:2]))
	}
	n.e.c.Emit("hist %s | ok %s", strings.Join(opS, ";"), strings.Join(obsS, ";"))
}

// ---------------------------------------------------------------- replay

func c02replay(c *Ctx, lines []string) {
	e := c02NewEnv(c)
	var n *c02Net
	for _, ln := range lines {
		f := strings.Fields(strings.SplitN(ln, "|", 2)[0])
		if len(f) == 0 {
			continue
		}
		switch f[0] {
		case "vc":
			e.vc("replay", unhx(f[1]), unhx(f[2]), c02parseS(f[6]))
		case "orc":
			o := c02NewOracleEnv(e)
			var served []byte
			if f[2] != "n" {
				served = unhx(f[2])
			}
			o.orc("replay", unhx(f[1]), served)
		case "seq":
			var cs [][]byte
			for _, p := range strings.Split(f[3], ";") {
				cs = append(cs, unhx(strings.Split(p, "~")[0]))
			}
			runtime.LockOSThread()
			e.seq(unhx(f[1]), c02parseS(f[2]), cs)
			runtime.UnlockOSThread()
		case "orcraw":
			o := c02NewOracleEnv(e)
			o.api.raw = true
			o.orcRaw(unhx(f[1]), unhx(f[2]))
		case "gf", "of", "loop", "drop", "orcnet":
			if n == nil {
				var err error
				if n, err = c02StartNet(e); err != nil {
					panic(err)
				}
			}
			c02GlueReplay(n, f)
		case "hist":
			if n == nil {
				var err error
				if n, err = c02StartNet(e); err != nil {
					panic(err)
				}
			}
			var ops []c02Op
			for _, o := range strings.Split(f[1], ";") {
				if strings.HasPrefix(o, "O:") {
					op := c02Op{getter: -1}
					for _, it := range strings.Split(o[2:], "+") {
						p := strings.Split(it, "~")
						op.items = append(op.items, c02Item{key: unhx(p[0]), content: unhx(p[1]), src: c02parseS(p[5])})
					}
					ops = append(ops, op)
				} else {
					p := strings.Split(o[3:], "~")
					op := c02Op{getter: int(o[1] - '0'), hash: unhx(p[0]), src: c02parseS(p[5])}
					if p[1] != "n" {
						op.remote = unhx(p[1])
					}
					ops = append(ops, op)
				}
			}
			n.runHist(ops)
		}
	}
}

// ---------------------------------------------------------------- driver

func runC02(c *Ctx) {
	k, err := crypto.ToECDSA(bytes.Repeat([]byte{0x42}, 32))
	if err != nil {
		panic(err)
	}
	c02Key = k
	c02LoadSummaries()
	vectors := c02LoadVectors()
	if len(c.Args) >= 2 && c.Args[0] == "replay" {
		c02replay(c, readReplayCases(c.Args[1]))
		return
	}
	thorough := c.Tier == "thorough"
	e := c02NewEnv(c)
	r := c.Rng
	// The bellatrix-era vectors of types/history/testdata/header_with_proof.yaml are serialized in the field order of an
	// older spec revision (execution proof[11], beacon root, historical-roots proof[14], slot); the code (and the current
	// spec) reads (historical-roots proof[14], beacon root, execution proof[11], slot).  Re-serialize them so that the
	// fourth proof era has accepted vectors too; kept only if the real header validator then accepts.
	for _, b := range vectors {
		if b.number >= htypes.MergeBlockNumber && b.number < htypes.ShanghaiBlockNumber {
			hwp, err := htypes.DecodeBlockHeaderWithProof(b.hdrC)
			if err == nil && len(hwp.Proof) == 840 && c02proof(e.hv, b.header, hwp.Proof) == "e" {
				p := hwp.Proof
				np := append(append(append(append([]byte{}, p[12*32:26*32]...), p[11*32:12*32]...), p[0:11*32]...), p[26*32:]...)
				if c02proof(e.hv, b.header, np) == "o" {
					b.hdrC = c02encodeHeader(b.header, np)
					c.Count("bellatrix_vector_relayout")
				}
			}
		}
	}

	// synthetic blocks
	var synth []*c02Block
	shapes := [][4]int{ // shanghai, ntx, nuncle, nwd
		{0, 0, 0, 0}, {0, 1, 0, 0}, {0, 3, 1, 0}, {0, 2, 2, 0}, {1, 0, 0, 0}, {1, 0, 0, 1}, {1, 2, 0, 3}, {1, 4, 0, 16}, {1, 1, 0, 0},
	}
	rounds := 2
	if thorough {
		rounds = 10
	}
	for i := 0; i < rounds; i++ {
		for j, s := range shapes {
			synth = append(synth, c02synth(c, fmt.Sprintf("synth%d_%d", i, j), s[0] == 1, s[1], s[2], s[3]))
		}
	}
	all := append(append([]*c02Block{}, vectors...), synth...)

	// 1. genuine content (honest source), source errors
	for _, b := range all {
		e.genuine(b)
	}
	// 2. byte-level mutations
	for _, b := range all {
		k := 6
		if !b.mainnet {
			k = 10
		}
		if thorough {
			k *= 6
		}
		for _, t := range []byte{0, 3, 1, 2} {
			kk := k
			if len(b.content(t)) > 20000 {
				kk = 1
				if thorough {
					kk = 8
				}
			}
			e.byteMutations(b, t, kk)
		}
	}
	// 3. field-level mutations
	for _, b := range all {
		e.fieldMutations(b)
	}
	// 3b. raw fields inside a well-formed container; 3c. key shapes
	for _, b := range all {
		if len(b.bodyC)+len(b.rcptC) < 60000 || thorough {
			e.rawBodyFields(b)
		}
	}
	for _, b := range all {
		for _, t := range []byte{0, 3, 1, 2} {
			e.keyShapes(b, t, thorough)
		}
	}
	// 3d. state carried between consecutive decodes (Shanghai and legacy layouts, with and without uncles)
	{
		reps := 6
		if thorough {
			reps = 40
		}
		cs := []*c02Block{
			c02synth(c, "carried_sh", true, 1, 0, 2), c02synth(c, "carried_sh_uncle", true, 2, 1, 1),
			c02synth(c, "carried_sh_0wd", true, 0, 0, 0), c02synth(c, "carried_legacy_uncle", false, 1, 2, 0),
		}
		for _, b := range all {
			if b.mainnet && b.body != nil && b.header.WithdrawalsHash != nil && len(b.bodyC) < 40000 {
				cs = append(cs, b)
			}
		}
		for _, b := range cs {
			e.carriedState(b, reps)
		}
	}
	// a block whose hash starts with a zero byte: the 32-byte key selector ++ hash[1:] is not its key
	{
		z := c02synth(c, "zerohash", true, 1, 0, 1)
		for i := 0; z.hash[0] != 0 && i < 100000; i++ {
			z.header.Extra = binary.BigEndian.AppendUint32(nil, uint32(i))
			z.hash = z.header.Hash().Bytes()
		}
		z.hdrC = c02encodeHeader(z.header, nil)
		if z.hash[0] == 0 {
			c.Count("zero_leading_hash_block")
			e.genuine(z)
			for _, t := range []byte{0, 1, 2} {
				e.vc("key_zero_leading_byte_dropped", append([]byte{t}, z.hash[1:]...), z.content(t), z.header)
				e.vc("key_zero_leading_byte_doubled", append([]byte{t, 0}, z.hash...), z.content(t), z.header)
			}
		}
	}
	// 4. cross pairing: every ordered pair of small blocks, a sample of the large ones
	for _, a := range all {
		for _, b := range all {
			if a == b {
				continue
			}
			big := len(a.bodyC)+len(a.rcptC)+len(b.bodyC)+len(b.rcptC) > 30000
			if big && ((!thorough && r.Intn(20) != 0) || (thorough && r.Intn(4) != 0)) {
				continue
			}
			if !thorough && a.bodyC == nil && b.bodyC == nil && r.Intn(4) != 0 {
				continue
			}
			e.cross(a, b)
		}
	}
	// 5. empty and short keys, unknown selectors, random junk
	for _, key := range [][]byte{{}, {0}, {1}, {2}, {3}, {4}, {5}, {3, 1, 2, 3}, {3, 1, 0, 0, 0, 0, 0, 0, 0}} {
		e.vc("shortkey", key, all[0].hdrC, all[0].header)
		e.vc("shortkey", key, []byte{}, nil)
	}
	for i := 0; i < 40; i++ {
		key := append([]byte{byte(r.Intn(4))}, r.Bytes(32)...)
		var src *types.Header
		if r.Bool() {
			src = all[r.Intn(len(all))].header
		}
		e.vc("junk", key, r.Bytes(r.Intn(64)), src)
	}

	// 6. the real ValidationOracle against an in-process JSON-RPC server serving arbitrary bytes
	o := c02NewOracleEnv(e)
	for i, b := range all {
		o.orc("genuine", b.hash, b.hdrC)
		o.orc("absent", b.hash, nil)
		other := all[(i+1)%len(all)]
		o.orc("other_header", b.hash, other.hdrC)
		o.orc("flip", b.hash, c02flip(b.hdrC, r.Intn(len(b.hdrC)), uint(r.Intn(8))))
		o.orc("trunc", b.hash, b.hdrC[:r.Intn(len(b.hdrC))])
		if b.bodyC != nil {
			o.orc("body_bytes", b.hash, b.bodyC)
		}
	}
	o.api.raw = true
	o.orcRaw(all[0].hash, []byte("zz-not-hex"))
	o.orcRaw(all[0].hash, []byte("0x0"))
	o.api.raw = false
	o.orc("empty", all[0].hash, []byte{})
	o.orc("shorthash", []byte{1, 2, 3}, all[0].hdrC)

	// 7. two live nodes: validateContents gating Put and the three getters
	if os.Getenv("C02_NO_NET") == "" {
		n, err := c02StartNet(e)
		if err != nil {
			panic(err)
		}
		c02Histories(n, all, thorough)
		c02Glue(n, all, thorough)
	}
}

const c02Direct = 1050

func c02Histories(n *c02Net, all []*c02Block, thorough bool) {
	r := n.e.c.Rng
	var full, hdrs []*c02Block
	for _, b := range all {
		if b.bodyC != nil && len(b.bodyC)+len(b.rcptC) < 20000 {
			full = append(full, b)
		}
		if b.hdrC != nil && b.mainnet && strings.HasSuffix(c02H(n.e.hv, b.hdrC), "/o") {
			hdrs = append(hdrs, b)
		}
	}
	count := 150
	if thorough {
		count = 3000
	}
	pick := func(t byte) *c02Block {
		if (t == 0 || t == 3) && r.Intn(4) != 0 {
			return hdrs[r.Intn(len(hdrs))]
		}
		return full[r.Intn(len(full))]
	}
	other := func(t byte, b *c02Block) *c02Block {
		for {
			if o := pick(t); o != b {
				return o
			}
		}
	}
	pickItem := func() c02Item {
		t := []byte{0, 1, 2, 3}[r.Intn(4)]
		b := pick(t)
		it := c02Item{key: b.key(t), content: b.content(t), src: b.header}
		switch r.Intn(7) {
		case 0: // content of another block, honest source
			it.content = other(t, b).content(t)
		case 1: // lying source + content of the block the source serves
			o := other(t, b)
			it.content = o.content(t)
			it.src = o.header
		case 2:
			if len(it.content) > 0 {
				it.content = c02flip(it.content, r.Intn(len(it.content)), uint(r.Intn(8)))
			}
		case 3:
			if t == 1 { // other encoding of the same body
				it.content = c02encodeBody(b.body, b.header.WithdrawalsHash == nil)
			}
		}
		return it
	}
	// directed shape: some keys are ALREADY STORED (through an earlier offer or getter call) when a multi-item batch
	// arrives that carries those keys at early positions, followed by fresh items; afterwards the getters read back
	// what was stored.  Aims at any confusion between positions in the batch and positions in the list of new items.
	genuineItem := func(b *c02Block, t byte) c02Item { return c02Item{key: b.key(t), content: b.content(t), src: b.header} }
	directed := func() []c02Op {
		n.e.c.Count("hist_directed")
		var ops []c02Op
		nblk := 2 + r.Intn(3)
		var its []c02Item
		seen := map[string]bool{}
		for len(its) < nblk {
			t := []byte{1, 2, 1, 2, 0, 3}[r.Intn(6)]
			b := pick(t)
			it := genuineItem(b, t)
			if t == 0 || t == 3 { // only headers whose proof verifies can be stored
				b = hdrs[r.Intn(len(hdrs))]
				it = genuineItem(b, t)
			}
			if seen[string(it.key)] {
				continue
			}
			seen[string(it.key)] = true
			its = append(its, it)
		}
		// which items are stored beforehand: a non-empty proper subset, biased to the early positions
		pre := make([]bool, nblk)
		pre[0] = r.Intn(4) != 0
		for i := 1; i < nblk-1; i++ {
			pre[i] = r.Intn(3) == 0
		}
		if !pre[0] && nblk > 2 {
			pre[1] = true
		}
		for i, it := range its {
			if !pre[i] {
				continue
			}
			hash := it.key[1:]
			if it.key[0] <= 2 && len(it.content) <= c02Direct && r.Bool() {
				ops = append(ops, c02Op{getter: int(it.key[0]), hash: hash, src: it.src, remote: it.content})
			} else {
				ops = append(ops, c02Op{getter: -1, items: []c02Item{it}})
			}
		}
		// the batch: stored keys keep their position; their offered bytes are the stored ones, junk, or another item's
		batch := c02Op{getter: -1}
		for i, it := range its {
			o := it
			if pre[i] {
				switch r.Intn(3) {
				case 0:
					o.content = r.Bytes(1 + r.Intn(40))
				case 1:
					o.content = its[(i+1)%nblk].content
				}
			}
			batch.items = append(batch.items, o)
		}
		ops = append(ops, batch)
		// read back through the getters (local hit expected for everything stored)
		for _, it := range its {
			if it.key[0] <= 2 && r.Intn(4) != 0 {
				op := c02Op{getter: int(it.key[0]), hash: it.key[1:], src: it.src}
				if len(it.content) <= c02Direct {
					op.remote = it.content
				}
				ops = append(ops, op)
			}
		}
		return ops
	}
	for i := 0; i < count; i++ {
		if i%3 == 0 {
			n.runHist(directed())
			continue
		}
		var ops []c02Op
		for j := 1 + r.Intn(4); j > 0; j-- {
			if r.Intn(2) == 0 {
				op := c02Op{getter: -1}
				for k := 1 + r.Intn(3); k > 0; k-- {
					op.items = append(op.items, pickItem())
				}
				ops = append(ops, op)
				if r.Intn(3) == 0 { // offer the same keys again with other content: already in the db -> skipped
					op2 := c02Op{getter: -1}
					for _, it := range op.items {
						it2 := it
						if r.Bool() {
							it2.content = append(append([]byte{}, it.content...), 0xff)
						}
						op2.items = append(op2.items, it2)
					}
					ops = append(ops, op2)
				}
			} else {
				// getter lookups stay below the single-datagram limit: larger answers travel over uTP, whose occasional
				// 5 s connect timeouts on loopback would be reported as rejected genuine content (transport, not C02)
				t := r.Intn(3)
				b := pick(byte(t))
				for tries := 0; len(b.content(byte(t))) > c02Direct && tries < 50; tries++ {
					b = pick(byte(t))
				}
				if len(b.content(byte(t))) > c02Direct {
					continue
				}
				op := c02Op{getter: t, hash: b.hash, src: b.header, remote: b.content(byte(t))}
				switch r.Intn(7) {
				case 0:
					op.remote = nil
				case 1:
					op.remote = other(byte(t), b).content(byte(t))
				case 2:
					o := other(byte(t), b)
					op.remote = o.content(byte(t))
					op.src = o.header
				case 3:
					if len(op.remote) > 0 {
						op.remote = c02flip(op.remote, r.Intn(len(op.remote)), uint(r.Intn(8)))
					}
				case 4:
					if t == 1 {
						op.remote = c02encodeBody(b.body, b.header.WithdrawalsHash == nil)
					}
				}
				if len(op.remote) > c02Direct {
					op.remote = nil
				}
				ops = append(ops, op)
				if r.Intn(3) == 0 { // ask again: local hit path when the first call stored the content
					ops = append(ops, op)
				}
			}
		}
		n.runHist(ops)
	}
}
