//go:build c14 || all

package main

// C14: SSZ wire codecs.  One table entry per Go type; everything else is generic over the table.
//
// Lines (fields of a value dump are separated by '/': number = decimal, bytes = hex or '-',
// list of byte strings = comma separated or '.', list of numbers = decimal comma separated or '.'):
//
//	enc   <Type> <dump> | ok <hex> / err
//	rt    <Type> <dump> | ok <dump'> / err / encerr / panic    decode(encode v) on the implementation (monitor input)
//	dec   <Type> <hex>  | ok <dump> / err / panic <msg>
//	reenc <Type> <hex>  | ok <hex'> / err / nodec / panic      encode(decode b) on the implementation (monitor input)
//	const <name>        | ok <value>                           compiled constant / struct tag next to the model's literal

import (
	"encoding/binary"
	"fmt"
	"reflect"
	"strconv"
	"strings"

	"github.com/protolambda/ztyp/tree"
	"github.com/protolambda/ztyp/view"
	"github.com/zen-eth/shisui/portalwire"
	pingext "github.com/zen-eth/shisui/portalwire/ping_ext"
)

type c14field struct {
	n  uint64
	b  []byte
	l  [][]byte
	nl []uint64
}

// per-field generator spec
type c14fs struct {
	name       string
	kind       byte // 'N' number, 'B' bytes, 'L' list of bytes, 'U' list of numbers
	bits       int  // N / U: width of the Go integer type
	max        int  // B: max length, L / U: max count (0 = none)
	exact      int  // B: required length where the Go type is a slice (violations are representable)
	arr        int  // B: Go array length (violations are not representable); L: items are Go arrays of this length
	itemMax    int  // L: max item length
	itemExact  int  // L: items are slices that must have this length
	bitlist    bool // B: bitlist with `max` bits
	encMax     int  // B bitlist: byte length the marshaller itself refuses (0 = none)
	cnt        int  // L: the list is a vector of exactly cnt items
	noItemOver bool // L: the item limit is too large to exceed in a test
	hugeCount  bool // L: max count so large that over-count values are megabytes: only one boundary pair per run
	nibble     bool // B: every byte is a nibble (< 16)
}

type c14type struct {
	name    string
	fields  []c14fs
	enc     func(f []c14field) ([]byte, error)
	dec2    func(bs ...[]byte) ([]c14field, error) // decodes the byte strings one after the other into one object
	fixOffs []int                                  // positions of 4-byte offsets in the fixed part
	tableAt int                                    // position of an offset table of a list of variable-size items (-1 = none)
	small   bool                                   // very large values: only a handful of cases
}

var c14types []*c14type

func c14reg(t *c14type) { c14types = append(c14types, t) }

func (t *c14type) dec(b []byte) ([]c14field, error) { return t.dec2(b) }

func c14find(name string) *c14type {
	for _, t := range c14types {
		if t.name == name {
			return t
		}
	}
	return nil
}

func cp(b []byte) []byte { return append([]byte{}, b...) }
func cpl(l [][]byte) [][]byte {
	o := make([][]byte, len(l))
	for i := range l {
		o[i] = cp(l[i])
	}
	return o
}
func root32(b []byte) (r tree.Root) { copy(r[:], b); return }

func init() {
	registry["C14"] = runC14
	pp := func(name string) *c14type {
		return &c14type{name: name, tableAt: -1, fixOffs: []int{10},
			fields: []c14fs{{name: "EnrSeq", kind: 'N', bits: 64}, {name: "PayloadType", kind: 'N', bits: 16}, {name: "Payload", kind: 'B', max: 1100}}}
	}
	ping := pp("Ping")
	ping.enc = func(f []c14field) ([]byte, error) {
		return (&portalwire.Ping{EnrSeq: f[0].n, PayloadType: uint16(f[1].n), Payload: f[2].b}).MarshalSSZ()
	}
	ping.dec2 = func(bs ...[]byte) ([]c14field, error) {
		var v portalwire.Ping
		var err error
		for _, b := range bs { // decoded one after the other into the SAME object
			err = v.UnmarshalSSZ(b)
		}
		return []c14field{{n: v.EnrSeq}, {n: uint64(v.PayloadType)}, {b: v.Payload}}, err
	}
	c14reg(ping)
	pong := pp("Pong")
	pong.enc = func(f []c14field) ([]byte, error) {
		return (&portalwire.Pong{EnrSeq: f[0].n, PayloadType: uint16(f[1].n), Payload: f[2].b}).MarshalSSZ()
	}
	pong.dec2 = func(bs ...[]byte) ([]c14field, error) {
		var v portalwire.Pong
		var err error
		for _, b := range bs { // decoded one after the other into the SAME object
			err = v.UnmarshalSSZ(b)
		}
		return []c14field{{n: v.EnrSeq}, {n: uint64(v.PayloadType)}, {b: v.Payload}}, err
	}
	c14reg(pong)
	c14reg(&c14type{name: "FindNodes", tableAt: -1, fixOffs: []int{0},
		fields: []c14fs{{name: "Distances", kind: 'L', max: 256, arr: 2}},
		enc: func(f []c14field) ([]byte, error) {
			d := make([][2]byte, len(f[0].l))
			for i, x := range f[0].l {
				copy(d[i][:], x)
			}
			return (&portalwire.FindNodes{Distances: d}).MarshalSSZ()
		},
		dec2: func(bs ...[]byte) ([]c14field, error) {
			var v portalwire.FindNodes
			var err error
			for _, b := range bs { // decoded one after the other into the SAME object
				err = v.UnmarshalSSZ(b)
			}
			l := make([][]byte, len(v.Distances))
			for i := range v.Distances {
				l[i] = cp(v.Distances[i][:])
			}
			return []c14field{{l: l}}, err
		}})
	c14reg(&c14type{name: "FindContent", tableAt: -1, fixOffs: []int{0},
		fields: []c14fs{{name: "ContentKey", kind: 'B', max: 2048}},
		enc:    func(f []c14field) ([]byte, error) { return (&portalwire.FindContent{ContentKey: f[0].b}).MarshalSSZ() },
		dec2: func(bs ...[]byte) ([]c14field, error) {
			var v portalwire.FindContent
			var err error
			for _, b := range bs { // decoded one after the other into the SAME object
				err = v.UnmarshalSSZ(b)
			}
			return []c14field{{b: v.ContentKey}}, err
		}})
	c14reg(&c14type{name: "Offer", tableAt: 4, fixOffs: []int{0},
		fields: []c14fs{{name: "ContentKeys", kind: 'L', max: 64, itemMax: 2048}},
		enc:    func(f []c14field) ([]byte, error) { return (&portalwire.Offer{ContentKeys: f[0].l}).MarshalSSZ() },
		dec2: func(bs ...[]byte) ([]c14field, error) {
			var v portalwire.Offer
			var err error
			for _, b := range bs { // decoded one after the other into the SAME object
				err = v.UnmarshalSSZ(b)
			}
			return []c14field{{l: v.ContentKeys}}, err
		}})
	c14reg(&c14type{name: "Nodes", tableAt: 5, fixOffs: []int{1},
		fields: []c14fs{{name: "Total", kind: 'N', bits: 8}, {name: "Enrs", kind: 'L', max: 32, itemMax: 2048}},
		enc: func(f []c14field) ([]byte, error) {
			return (&portalwire.Nodes{Total: uint8(f[0].n), Enrs: f[1].l}).MarshalSSZ()
		},
		dec2: func(bs ...[]byte) ([]c14field, error) {
			var v portalwire.Nodes
			var err error
			for _, b := range bs { // decoded one after the other into the SAME object
				err = v.UnmarshalSSZ(b)
			}
			return []c14field{{n: uint64(v.Total)}, {l: v.Enrs}}, err
		}})
	c14reg(&c14type{name: "ConnectionId", tableAt: -1,
		fields: []c14fs{{name: "Id", kind: 'B', exact: 2}},
		enc:    func(f []c14field) ([]byte, error) { return (&portalwire.ConnectionId{Id: f[0].b}).MarshalSSZ() },
		dec2: func(bs ...[]byte) ([]c14field, error) {
			var v portalwire.ConnectionId
			var err error
			for _, b := range bs { // decoded one after the other into the SAME object
				err = v.UnmarshalSSZ(b)
			}
			return []c14field{{b: v.Id}}, err
		}})
	c14reg(&c14type{name: "Content", tableAt: -1,
		fields: []c14fs{{name: "Content", kind: 'B', max: 2048}},
		enc:    func(f []c14field) ([]byte, error) { return (&portalwire.Content{Content: f[0].b}).MarshalSSZ() },
		dec2: func(bs ...[]byte) ([]c14field, error) {
			var v portalwire.Content
			var err error
			for _, b := range bs { // decoded one after the other into the SAME object
				err = v.UnmarshalSSZ(b)
			}
			return []c14field{{b: v.Content}}, err
		}})
	c14reg(&c14type{name: "Enrs", tableAt: 0,
		fields: []c14fs{{name: "Enrs", kind: 'L', max: 32, itemMax: 2048}},
		enc:    func(f []c14field) ([]byte, error) { return (&portalwire.Enrs{Enrs: f[0].l}).MarshalSSZ() },
		dec2: func(bs ...[]byte) ([]c14field, error) {
			var v portalwire.Enrs
			var err error
			for _, b := range bs { // decoded one after the other into the SAME object
				err = v.UnmarshalSSZ(b)
			}
			return []c14field{{l: v.Enrs}}, err
		}})
	c14reg(&c14type{name: "Accept", tableAt: -1, fixOffs: []int{2},
		fields: []c14fs{{name: "ConnectionId", kind: 'B', exact: 2}, {name: "ContentKeys", kind: 'B', max: 64, bitlist: true, encMax: 64}},
		enc: func(f []c14field) ([]byte, error) {
			return (&portalwire.Accept{ConnectionId: f[0].b, ContentKeys: f[1].b}).MarshalSSZ()
		},
		dec2: func(bs ...[]byte) ([]c14field, error) {
			var v portalwire.Accept
			var err error
			for _, b := range bs { // decoded one after the other into the SAME object
				err = v.UnmarshalSSZ(b)
			}
			return []c14field{{b: v.ConnectionId}, {b: v.ContentKeys}}, err
		}})
	c14reg(&c14type{name: "AcceptV1", tableAt: -1, fixOffs: []int{2},
		fields: []c14fs{{name: "ConnectionId", kind: 'B', exact: 2}, {name: "ContentKeys", kind: 'B', max: 64}},
		enc: func(f []c14field) ([]byte, error) {
			return (&portalwire.AcceptV1{ConnectionId: f[0].b, ContentKeys: f[1].b}).MarshalSSZ()
		},
		dec2: func(bs ...[]byte) ([]c14field, error) {
			var v portalwire.AcceptV1
			var err error
			for _, b := range bs { // decoded one after the other into the SAME object
				err = v.UnmarshalSSZ(b)
			}
			return []c14field{{b: v.ConnectionId}, {b: v.ContentKeys}}, err
		}})
	// ---- ping_ext (ztyp)
	caps := func(nl []uint64) pingext.CapabilitiesPayload {
		var c pingext.CapabilitiesPayload
		for _, x := range nl {
			c = append(c, view.Uint16View(x))
		}
		return c
	}
	uncaps := func(c pingext.CapabilitiesPayload) []uint64 {
		o := make([]uint64, len(c))
		for i, x := range c {
			o[i] = uint64(x)
		}
		return o
	}
	c14reg(&c14type{name: "ClientInfo", tableAt: -1, fixOffs: []int{0, 36},
		fields: []c14fs{{name: "ClientInfo", kind: 'B', max: 200}, {name: "DataRadius", kind: 'B', arr: 32}, {name: "Capabilities", kind: 'U', bits: 16, max: 400}},
		enc: func(f []c14field) ([]byte, error) {
			return pingext.ClientInfoAndCapabilitiesPayload{ClientInfo: pingext.ClientInfoBytes(f[0].b), DataRadius: root32(f[1].b), Capabilities: caps(f[2].nl)}.MarshalSSZ()
		},
		dec2: func(bs ...[]byte) ([]c14field, error) {
			var v pingext.ClientInfoAndCapabilitiesPayload
			var err error
			for _, b := range bs { // decoded one after the other into the SAME object
				err = v.UnmarshalSSZ(b)
			}
			return []c14field{{b: []byte(v.ClientInfo)}, {b: cp(v.DataRadius[:])}, {nl: uncaps(v.Capabilities)}}, err
		}})
	c14reg(&c14type{name: "BasicRadius", tableAt: -1,
		fields: []c14fs{{name: "DataRadius", kind: 'B', arr: 32}},
		enc: func(f []c14field) ([]byte, error) {
			return pingext.BasicRadiusPayload{DataRadius: root32(f[0].b)}.MarshalSSZ()
		},
		dec2: func(bs ...[]byte) ([]c14field, error) {
			var v pingext.BasicRadiusPayload
			var err error
			for _, b := range bs { // decoded one after the other into the SAME object
				err = v.UnmarshalSSZ(b)
			}
			return []c14field{{b: cp(v.DataRadius[:])}}, err
		}})
	c14reg(&c14type{name: "HistoryRadius", tableAt: -1,
		fields: []c14fs{{name: "DataRadius", kind: 'B', arr: 32}, {name: "EphemeralHeaderCount", kind: 'N', bits: 16}},
		enc: func(f []c14field) ([]byte, error) {
			return pingext.HistoryRadiusPayload{DataRadius: root32(f[0].b), EphemeralHeaderCount: view.Uint16View(f[1].n)}.MarshalSSZ()
		},
		dec2: func(bs ...[]byte) ([]c14field, error) {
			var v pingext.HistoryRadiusPayload
			var err error
			for _, b := range bs { // decoded one after the other into the SAME object
				err = v.UnmarshalSSZ(b)
			}
			return []c14field{{b: cp(v.DataRadius[:])}, {n: uint64(v.EphemeralHeaderCount)}}, err
		}})
	c14reg(&c14type{name: "ErrorPayload", tableAt: -1, fixOffs: []int{2},
		fields: []c14fs{{name: "ErrorCode", kind: 'N', bits: 16}, {name: "Message", kind: 'B', max: 300}},
		enc: func(f []c14field) ([]byte, error) {
			return pingext.ErrorPayload{ErrorCode: view.Uint16View(f[0].n), Message: pingext.ErrMessage(f[1].b)}.MarshalSSZ()
		},
		dec2: func(bs ...[]byte) ([]c14field, error) {
			var v pingext.ErrorPayload
			var err error
			for _, b := range bs { // decoded one after the other into the SAME object
				err = v.UnmarshalSSZ(b)
			}
			return []c14field{{n: uint64(v.ErrorCode)}, {b: []byte(v.Message)}}, err
		}})
	c14reg(&c14type{name: "Capabilities", tableAt: -1,
		fields: []c14fs{{name: "Capabilities", kind: 'U', bits: 16, max: 400}},
		enc:    func(f []c14field) ([]byte, error) { return caps(f[0].nl).MarshalSSZ() },
		dec2: func(bs ...[]byte) ([]c14field, error) {
			var v pingext.CapabilitiesPayload
			var err error
			for _, b := range bs { // decoded one after the other into the SAME object
				err = v.UnmarshalSSZ(b)
			}
			return []c14field{{nl: uncaps(v)}}, err
		}})
	c14initMore()
}

// ---------------------------------------------------------------- dump / parse

func c14dump(t *c14type, f []c14field) string {
	p := make([]string, len(t.fields))
	for i, s := range t.fields {
		switch s.kind {
		case 'N':
			p[i] = strconv.FormatUint(f[i].n, 10)
		case 'B':
			p[i] = hx(f[i].b)
		case 'L':
			p[i] = hxl(f[i].l)
		case 'U':
			if len(f[i].nl) == 0 {
				p[i] = "."
			} else {
				q := make([]string, len(f[i].nl))
				for j, x := range f[i].nl {
					q[j] = strconv.FormatUint(x, 10)
				}
				p[i] = strings.Join(q, ",")
			}
		}
	}
	return strings.Join(p, "/")
}

func c14parse(t *c14type, s string) []c14field {
	parts := strings.Split(s, "/")
	f := make([]c14field, len(t.fields))
	for i, sp := range t.fields {
		if i >= len(parts) {
			break
		}
		switch sp.kind {
		case 'N':
			f[i].n, _ = strconv.ParseUint(parts[i], 10, 64)
		case 'B':
			f[i].b = unhx(parts[i])
		case 'L':
			f[i].l = unhxl(parts[i])
		case 'U':
			if parts[i] != "." {
				for _, q := range strings.Split(parts[i], ",") {
					x, _ := strconv.ParseUint(q, 10, 64)
					f[i].nl = append(f[i].nl, x)
				}
			}
		}
	}
	return f
}

// ---------------------------------------------------------------- running the implementation

func c14enc(t *c14type, f []c14field) (out []byte, obs string) {
	var err error
	if p, msg := guard(func() { out, err = t.enc(f) }); p {
		return nil, "panic " + msg
	}
	if err != nil {
		return nil, "err"
	}
	if out == nil {
		out = []byte{}
	}
	return out, "ok " + hx(out)
}

func c14dec(t *c14type, b []byte) (f []c14field, obs string) {
	var err error
	if p, msg := guard(func() { f, err = t.dec(cp(b)) }); p {
		return nil, "panic " + msg
	}
	if err != nil {
		return nil, "err 1"
	}
	return f, "ok " + c14dump(t, f)
}

func c14value(c *Ctx, t *c14type, f []c14field) {
	d := c14dump(t, f)
	enc, obs := c14enc(t, f)
	c.Emit("enc %s %s | %s", t.name, d, obs)
	if !strings.HasPrefix(obs, "ok") {
		c.Emit("rt %s %s | encerr", t.name, d)
		return
	}
	_, dobs := c14dec(t, enc)
	if strings.HasPrefix(dobs, "err") {
		dobs = "err"
	}
	c.Emit("rt %s %s | %s", t.name, d, dobs)
}

func c14bytes(c *Ctx, t *c14type, b []byte) {
	f, obs := c14dec(t, b)
	c.Count("dec_" + t.name + "_" + obs[:2])
	c.Emit("dec %s %s | %s", t.name, hx(b), obs)
	if f == nil {
		c.Emit("reenc %s %s | nodec", t.name, hx(b))
		return
	}
	_, eobs := c14enc(t, f)
	c.Emit("reenc %s %s | %s", t.name, hx(b), eobs)
}

// ---------------------------------------------------------------- generators

func c14lenGrid(r *Rng, max int) int {
	if max >= 8192 && r.Intn(4) != 0 { // large byte fields: mostly small values, the boundary now and then
		return r.Intn(300)
	}
	switch r.Intn(8) {
	case 0:
		return 0
	case 1:
		return 1
	case 2:
		return max
	case 3:
		if max > 0 {
			return max - 1
		}
		return 0
	case 4:
		return r.Intn(max + 1)
	default:
		m := max
		if m > 40 {
			m = 40
		}
		return r.Intn(m + 1)
	}
}

func c14bitlist(r *Rng, nbits int) []byte {
	b := r.Bytes(nbits/8 + 1)
	last := len(b) - 1
	k := uint(nbits % 8)
	b[last] = (b[last] & byte((1<<k)-1)) | byte(1<<k)
	return b
}

// c14gen builds a value; over = -1 for an in-limit value, otherwise the index of the field whose limit is exceeded
// (returns ok=false when that field has no limit that a Go value can exceed).
func c14gen(c *Ctx, t *c14type, over int) ([]c14field, bool) {
	r := c.Rng
	f := make([]c14field, len(t.fields))
	violated := false
	for i, s := range t.fields {
		ov := i == over
		switch s.kind {
		case 'N':
			switch r.Intn(4) {
			case 0:
				f[i].n = 0
			case 1:
				f[i].n = ^uint64(0) >> (64 - uint(s.bits))
			default:
				f[i].n = r.U64() >> (64 - uint(s.bits))
			}
		case 'B':
			switch {
			case s.arr > 0:
				f[i].b = r.Bytes(s.arr)
			case s.bitlist:
				if !ov {
					nb := []int{0, 1, 7, 8, 9, 63, 64, r.Intn(65)}[r.Intn(8)]
					f[i].b = c14bitlist(r, nb)
				} else {
					violated = true
					switch r.Intn(5) {
					case 0:
						f[i].b = c14bitlist(r, 65+r.Intn(8))
					case 1:
						f[i].b = c14bitlist(r, 72+r.Intn(400))
					case 2:
						f[i].b = []byte{} // no delimiter bit
					case 3:
						f[i].b = append(r.Bytes(r.Intn(8)), 0) // trailing zero byte
					default:
						f[i].b = c14bitlist(r, 8*s.encMax+r.Intn(9)) // beyond what the marshaller itself accepts
					}
				}
			case s.exact > 0:
				if !ov {
					f[i].b = r.Bytes(s.exact)
				} else {
					violated = true
					f[i].b = r.Bytes([]int{0, s.exact - 1, s.exact + 1, s.exact + 2, s.exact * 2}[r.Intn(5)])
				}
			default:
				if !ov {
					f[i].b = r.Bytes(c14lenGrid(r, s.max))
				} else {
					violated = true
					f[i].b = r.Bytes(s.max + []int{1, 1, 2, 1 + r.Intn(64), s.max}[r.Intn(5)])
				}
			}
			if s.nibble {
				for j := range f[i].b {
					f[i].b[j] &= 0x0f
				}
			}
		case 'L':
			cnt := c14lenGrid(r, s.max)
			if s.max > 1000 { // the boundary itself is too slow for the model side (quadratic slicing): stay small
				cnt = []int{0, 1, 2, r.Intn(12), r.Intn(300)}[r.Intn(5)]
			}
			if s.itemMax >= 1024 && cnt > 8 && r.Intn(4) != 0 {
				cnt = r.Intn(9)
			}
			if s.cnt > 0 {
				cnt = s.cnt
			}
			overCount := ov && (s.itemMax == 0 && s.itemExact == 0 || s.noItemOver || r.Bool()) && (!s.hugeCount || c.Tier == "thorough" && r.Intn(8) == 0)
			if overCount {
				violated = true
				cnt = s.max + 1 + []int{0, 0, 1, r.Intn(8)}[r.Intn(4)]
				if s.cnt > 0 && r.Bool() {
					cnt = []int{0, s.cnt - 1}[r.Intn(2)]
				}
			}
			l := make([][]byte, cnt)
			for j := range l {
				switch {
				case s.arr > 0:
					l[j] = r.Bytes(s.arr)
				case s.itemExact > 0:
					l[j] = r.Bytes(s.itemExact)
				default:
					m := s.itemMax
					if m > 4096 {
						m = 300
					}
					if cnt > 1000 {
						m = 0
					}
					if cnt > 4 && r.Intn(8) != 0 {
						m = 48
					}
					l[j] = r.Bytes(c14lenGrid(r, m))
				}
			}
			if ov && !overCount {
				if cnt == 0 {
					l = [][]byte{nil}
				}
				violated = true
				j := r.Intn(len(l))
				if s.itemExact > 0 {
					l[j] = r.Bytes([]int{0, s.itemExact - 1, s.itemExact + 1}[r.Intn(3)])
				} else {
					l[j] = r.Bytes(s.itemMax + 1 + []int{0, 0, 1, r.Intn(32)}[r.Intn(4)])
				}
			}
			f[i].l = l
		case 'U':
			cnt := c14lenGrid(r, s.max)
			if ov {
				violated = true
				cnt = s.max + 1 + []int{0, 0, 1, r.Intn(8)}[r.Intn(4)]
			}
			f[i].nl = make([]uint64, cnt)
			for j := range f[i].nl {
				f[i].nl[j] = r.U64() >> (64 - uint(s.bits))
			}
		}
	}
	return f, over < 0 || violated
}

func c14putU32(b []byte, pos int, v uint32) {
	if pos >= 0 && pos+4 <= len(b) {
		binary.LittleEndian.PutUint32(b[pos:], v)
	}
}
func c14getU32(b []byte, pos int) uint32 {
	if pos >= 0 && pos+4 <= len(b) {
		return binary.LittleEndian.Uint32(b[pos:])
	}
	return 0
}

// positions of all 4-byte offsets of an encoding
func c14offsets(t *c14type, enc []byte) []int {
	pos := append([]int{}, t.fixOffs...)
	if t.tableAt >= 0 && t.tableAt+4 <= len(enc) {
		first := int(c14getU32(enc, t.tableAt))
		for i := 0; i < first/4 && i < 300 && t.tableAt+4*i+4 <= len(enc); i++ {
			pos = append(pos, t.tableAt+4*i)
		}
	}
	return pos
}

func c14mutate(c *Ctx, t *c14type, enc []byte) []byte {
	r := c.Rng
	m := cp(enc)
	offs := c14offsets(t, m)
	k := r.Intn(12)
	if len(offs) == 0 && k >= 4 && k <= 8 {
		k = r.Intn(4)
	}
	switch k {
	case 0:
		c.Count("mut_bitflip")
		if len(m) > 0 {
			p := r.Intn(len(m))
			if r.Bool() && len(m) > 16 {
				p = r.Intn(16)
			}
			m[p] ^= byte(1 << r.Intn(8))
		}
	case 1:
		c.Count("mut_truncate")
		if len(m) > 0 {
			if r.Bool() {
				m = m[:len(m)-1]
			} else {
				m = m[:r.Intn(len(m))]
			}
		}
	case 2:
		c.Count("mut_extend")
		m = append(m, r.Bytes([]int{1, 1, 2, 4, 8, 1 + r.Intn(40)}[r.Intn(6)])...)
	case 3:
		c.Count("mut_trailing_zero")
		m = append(m, make([]byte, []int{1, 4, 8}[r.Intn(3)])...)
	case 4, 5:
		c.Count("mut_offset_shift")
		p := offs[r.Intn(len(offs))]
		d := []int{1, -1, 4, -4, 2, 8}[r.Intn(6)]
		c14putU32(m, p, uint32(int(c14getU32(m, p))+d))
	case 6:
		c.Count("mut_offset_swap")
		if len(offs) >= 2 {
			i := r.Intn(len(offs) - 1)
			a, b := c14getU32(m, offs[i]), c14getU32(m, offs[i+1])
			c14putU32(m, offs[i], b)
			c14putU32(m, offs[i+1], a)
		} else {
			c14putU32(m, offs[0], uint32(len(m))+uint32(r.Intn(3)))
		}
	case 7:
		c.Count("mut_offset_special")
		p := offs[r.Intn(len(offs))]
		c14putU32(m, p, []uint32{0, 4, uint32(len(m)), uint32(len(m)) + 1, 0xffffffff, 0x80000000, 3, 5, uint32(len(m)) - 1}[r.Intn(9)])
	case 8:
		c.Count("mut_offset_all_shift")
		d := []int{1, -1, 4, -4}[r.Intn(4)]
		for _, p := range offs {
			c14putU32(m, p, uint32(int(c14getU32(m, p))+d))
		}
	case 9:
		c.Count("mut_insert")
		p := r.Intn(len(m) + 1)
		ins := r.Bytes(1 + r.Intn(4))
		m = append(append(cp(m[:p]), ins...), m[p:]...)
	case 10:
		c.Count("mut_delete")
		if len(m) > 0 {
			p := r.Intn(len(m))
			m = append(cp(m[:p]), m[p+1:]...)
		}
	default:
		c.Count("mut_byte_set")
		if len(m) > 0 {
			m[r.Intn(len(m))] = []byte{0, 1, 4, 0xff, 0x80}[r.Intn(5)]
		}
	}
	return m
}

// c14rawList builds prefix ++ offset table ++ items without going through the (limit-checking) marshaller.
func c14rawList(prefix []byte, items [][]byte) []byte {
	out := cp(prefix)
	off := 4 * len(items)
	for _, it := range items {
		out = binary.LittleEndian.AppendUint32(out, uint32(off))
		off += len(it)
	}
	for _, it := range items {
		out = append(out, it...)
	}
	return out
}

// c14overRaw emits well-formed encodings of values just beyond a limit of the LAST field (the marshallers refuse to
// produce them, so they are built by hand): one more byte, one more item, one over-long item.
func c14overRaw(c *Ctx, t *c14type, round int) {
	r := c.Rng
	last := t.fields[len(t.fields)-1]
	if last.max > 1000 && last.kind == 'L' && last.arr == 0 && last.itemExact == 0 {
		return // too large for the model side (lists of variable-size items are sliced quadratically there)
	}
	if last.hugeCount && (round > 0 || c.Tier != "thorough") {
		return // megabytes per case: the count boundary of such a list is exercised in the thorough tier only
	}
	base, _ := c14gen(c, t, -1)
	li := len(t.fields) - 1
	switch {
	case last.kind == 'B' && last.max > 0 && !last.bitlist && last.arr == 0 && last.exact == 0:
		base[li].b = r.Bytes(last.max)
		if enc, obs := c14enc(t, base); strings.HasPrefix(obs, "ok") {
			c.Count("type_" + t.name + "_bytes_overlimit_raw")
			c14bytes(c, t, enc)
			c14bytes(c, t, append(cp(enc), byte(r.Intn(256))))
		}
	case last.kind == 'L' && t.tableAt >= 0 && last.cnt == 0:
		base[li].l = nil
		enc, obs := c14enc(t, base)
		if !strings.HasPrefix(obs, "ok") || len(enc) < t.tableAt {
			return
		}
		prefix := enc // the empty last list contributes no bytes: the raw list body goes right behind
		mk := func(n, sz int) [][]byte {
			l := make([][]byte, n)
			for i := range l {
				l[i] = r.Bytes(sz)
			}
			return l
		}
		c.Count("type_" + t.name + "_bytes_overlimit_raw")
		c14bytes(c, t, c14rawList(prefix, mk(last.max, 1)))
		c14bytes(c, t, c14rawList(prefix, mk(last.max+1, 1)))
		c14bytes(c, t, c14rawList(prefix, mk(last.max+1, 0)))
		c14bytes(c, t, c14rawList(prefix, mk(last.max+2, 3)))
		if last.itemMax > 0 && !last.noItemOver {
			l := mk(3, 5)
			l[1] = r.Bytes(last.itemMax)
			c14bytes(c, t, c14rawList(prefix, l))
			l[1] = r.Bytes(last.itemMax + 1)
			c14bytes(c, t, c14rawList(prefix, l))
			l = mk(1, last.itemMax+1)
			c14bytes(c, t, c14rawList(prefix, l))
		}
	case last.kind == 'L' && (last.arr > 0 || last.itemExact > 0) && last.cnt == 0:
		isz := last.arr + last.itemExact
		l := make([][]byte, last.max)
		for i := range l {
			l[i] = r.Bytes(isz)
		}
		base[li].l = l
		if enc, obs := c14enc(t, base); strings.HasPrefix(obs, "ok") {
			c.Count("type_" + t.name + "_bytes_overlimit_raw")
			c14bytes(c, t, enc)
			c14bytes(c, t, append(cp(enc), r.Bytes(isz)...))
		}
	}
}

// c14dynFields lists the indices of the variable-size fields, in layout order (fixOffs[j] is the offset of the j-th).
func c14dynFields(t *c14type) []int {
	var d []int
	for i, s := range t.fields {
		if (s.kind == 'B' && s.arr == 0 && s.exact == 0) || s.kind == 'L' && s.cnt == 0 || s.kind == 'U' {
			d = append(d, i)
		}
	}
	return d
}

// c14insertAt inserts ins at byte position pos (the end of the j-th variable-size field's region, or inside it) and
// moves the offsets of the following variable-size fields accordingly.
func c14insertAt(t *c14type, enc []byte, j int, pos int, ins []byte) []byte {
	m := append(append(cp(enc[:pos]), ins...), enc[pos:]...)
	for k := j + 1; k < len(t.fixOffs); k++ {
		c14putU32(m, t.fixOffs[k], c14getU32(m, t.fixOffs[k])+uint32(len(ins)))
	}
	return m
}

// c14overMiddle: for every variable-size byte field that is NOT the last one, an encoding with that field at its
// limit and one with the field one byte longer (following offsets moved); and, for a list of variable-size items
// that is not the last region, the zero-first-offset encoding 00000000 of the empty list in its place.
func c14overMiddle(c *Ctx, t *c14type) {
	dyn := c14dynFields(t)
	if len(dyn) != len(t.fixOffs) || len(dyn) < 2 {
		return
	}
	r := c.Rng
	for j, fi := range dyn[:len(dyn)-1] {
		s := t.fields[fi]
		base, _ := c14gen(c, t, -1)
		for _, k := range dyn {
			switch t.fields[k].kind {
			case 'B':
				base[k].b = r.Bytes(r.Intn(20))
			case 'L':
				base[k].l = [][]byte{r.Bytes(3)}
			case 'U':
				base[k].nl = []uint64{7}
			}
		}
		switch {
		case s.kind == 'B' && s.max > 0 && !s.bitlist:
			base[fi].b = r.Bytes(s.max)
			enc, obs := c14enc(t, base)
			if !strings.HasPrefix(obs, "ok") {
				continue
			}
			end := int(c14getU32(enc, t.fixOffs[j+1]))
			if end > len(enc) {
				continue
			}
			c.Count("type_" + t.name + "_bytes_overlimit_middle")
			c14bytes(c, t, enc)
			c14bytes(c, t, c14insertAt(t, enc, j, end, []byte{byte(r.Intn(256))}))
		case s.kind == 'L' && s.itemMax > 0:
			base[fi].l = nil
			enc, obs := c14enc(t, base)
			if !strings.HasPrefix(obs, "ok") {
				continue
			}
			end := int(c14getU32(enc, t.fixOffs[j+1]))
			if end > len(enc) {
				continue
			}
			c.Count("type_" + t.name + "_bytes_zero_offset_middle")
			c14bytes(c, t, c14insertAt(t, enc, j, end, []byte{0, 0, 0, 0}))
			c14bytes(c, t, c14insertAt(t, enc, j, end, []byte{4, 0, 0, 0}))
		}
	}
}

// c14hold: encode value A and KEEP the returned slice, encode other values (same type, same sizes first, then other
// types), then report A's bytes.  An encoder must hand out bytes that later encodes do not touch.
func c14hold(c *Ctx, t *c14type, a []c14field) {
	encA, obs := c14enc(t, a)
	if !strings.HasPrefix(obs, "ok") {
		return
	}
	r := c.Rng
	// same shape, different content: the most likely way to be overwritten in place
	b := make([]c14field, len(a))
	for i := range a {
		b[i] = c14field{n: a[i].n ^ 0x5a5a, b: c14flip(a[i].b), l: make([][]byte, len(a[i].l)), nl: make([]uint64, len(a[i].nl))}
		for j := range a[i].l {
			b[i].l[j] = c14flip(a[i].l[j])
		}
		for j := range a[i].nl {
			b[i].nl[j] = a[i].nl[j] ^ 0x5a
		}
		if s := t.fields[i]; s.kind == 'N' && s.bits < 64 {
			b[i].n &= (uint64(1) << uint(s.bits)) - 1
		}
		if t.fields[i].nibble {
			for j := range b[i].b {
				b[i].b[j] &= 0x0f
			}
		}
	}
	var keep [][]byte
	for k := 0; k < 4; k++ {
		e, _ := c14enc(t, b)
		keep = append(keep, e)
	}
	for k := 0; k < 2; k++ {
		if f, ok := c14gen(c, t, -1); ok {
			e, _ := c14enc(t, f)
			keep = append(keep, e)
		}
	}
	for k := 0; k < 2; k++ { // other types (encoders may share scratch state)
		o := c14types[r.Intn(len(c14types))]
		if o.small {
			continue
		}
		if f, ok := c14gen(c, o, -1); ok {
			e, _ := c14enc(o, f)
			keep = append(keep, e)
		}
	}
	_ = keep
	c.Count("type_" + t.name + "_hold")
	c.Emit("hold %s %s | ok %s", t.name, c14dump(t, a), hx(encA))
}

func c14flip(b []byte) []byte {
	o := make([]byte, len(b))
	for i := range b {
		o[i] = ^b[i]
	}
	return o
}

// c14redec: decode x into an object, then decode y into the SAME object and report what it holds.
// A decoder's result must be a function of the bytes it is given, not of what the destination held before.
func c14redec(c *Ctx, t *c14type, x, y []byte) {
	var f []c14field
	var err error
	obs := ""
	if p, msg := guard(func() { f, err = t.dec2(cp(x), cp(y)) }); p {
		obs = "panic " + msg
	} else if err != nil {
		obs = "err 1"
	} else {
		obs = "ok " + c14dump(t, f)
	}
	c.Count("type_" + t.name + "_redec")
	c.Emit("redec %s %s %s | %s", t.name, hx(x), hx(y), obs)
}

// c14joint: the JOINT boundary of every list of variable-size items: the maximum count with every item at the maximum
// item size (and a mix of sizes just below it).  In-limit values, so encode and decode(encode) must both succeed.
func c14joint(c *Ctx, t *c14type) {
	r := c.Rng
	for i, s := range t.fields {
		if s.kind != 'L' || s.itemMax == 0 || s.noItemOver || s.max > 1000 {
			continue
		}
		variants := 2
		if s.max*s.itemMax > 100000 {
			variants = 1 // a hundred kilobytes per line and quadratic slicing on the model side: one case
		}
		if s.max*s.itemMax > 300000 && c.Tier != "thorough" {
			continue // half a megabyte (EphemeralHeaderPayload 256 x 2048): minutes on the model side, thorough tier only
		}
		for v := 0; v < variants; v++ {
			f, ok := c14gen(c, t, -1)
			if !ok {
				continue
			}
			for k, o := range t.fields { // keep the other fields small
				if k != i && o.kind == 'B' && o.arr == 0 && o.exact == 0 && !o.bitlist && len(f[k].b) > 64 {
					f[k].b = f[k].b[:r.Intn(64)]
				}
				if k != i && o.kind == 'L' && o.cnt == 0 && len(f[k].l) > 2 {
					f[k].l = f[k].l[:2]
				}
			}
			l := make([][]byte, s.max)
			for j := range l {
				n := s.itemMax
				if v == 1 {
					n -= j % 4
				}
				l[j] = r.Bytes(n)
			}
			f[i].l = l
			c.Count("type_" + t.name + "_value_joint_boundary")
			c14value(c, t, f)
		}
	}
}

// c14gap: a second encoding of a genuine value - g junk bytes between the fixed part and the first variable-size
// field, every field offset raised by g.  The first offset then no longer equals the size of the fixed part: must be rejected.
func c14gap(c *Ctx, t *c14type, enc []byte) {
	if len(t.fixOffs) == 0 || t.fixOffs[0]+4 > len(enc) {
		return
	}
	r := c.Rng
	first := int(c14getU32(enc, t.fixOffs[0]))
	if first > len(enc) {
		return
	}
	for _, g := range []int{1, 4, 1 + r.Intn(16)} {
		m := append(append(cp(enc[:first]), r.Bytes(g)...), enc[first:]...)
		for _, p := range t.fixOffs {
			c14putU32(m, p, c14getU32(m, p)+uint32(g))
		}
		c.Count("type_" + t.name + "_bytes_first_offset_gap")
		c14bytes(c, t, m)
	}
}

// c14decreasing: field offsets that run backwards.  With every variable-size field non-empty, offset k is set just
// below offset k-1 (and, from the third offset on, back to the first offset): must be rejected, never sliced.
func c14decreasing(c *Ctx, t *c14type) {
	dyn := c14dynFields(t)
	if len(dyn) != len(t.fixOffs) || len(dyn) < 2 {
		return
	}
	r := c.Rng
	base, _ := c14gen(c, t, -1)
	for _, k := range dyn {
		switch t.fields[k].kind {
		case 'B':
			if !t.fields[k].bitlist {
				base[k].b = r.Bytes(5 + r.Intn(20))
			}
		case 'L':
			base[k].l = [][]byte{r.Bytes(3), r.Bytes(2)}
		case 'U':
			base[k].nl = []uint64{7, 9}
		}
		if t.fields[k].nibble {
			for j := range base[k].b {
				base[k].b[j] &= 0x0f
			}
		}
	}
	enc, obs := c14enc(t, base)
	if !strings.HasPrefix(obs, "ok") {
		return
	}
	for k := 1; k < len(t.fixOffs); k++ {
		prev := c14getU32(enc, t.fixOffs[k-1])
		vals := []uint32{prev - 1, prev - 4}
		if k >= 2 {
			vals = append(vals, c14getU32(enc, t.fixOffs[0]), c14getU32(enc, t.fixOffs[0])+1)
		}
		for _, v := range vals {
			m := cp(enc)
			c14putU32(m, t.fixOffs[k], v)
			c.Count("type_" + t.name + "_bytes_decreasing_offsets")
			c14bytes(c, t, m)
		}
	}
}

// fixed-part prefix of an encoding of the "empty" value, used to aim the four-byte strings at the list field
func c14emptyPrefix(t *c14type) []byte {
	f := make([]c14field, len(t.fields))
	for i, s := range t.fields {
		if s.kind == 'B' {
			n := s.arr
			if s.exact > 0 {
				n = s.exact
			}
			f[i].b = make([]byte, n)
			if s.bitlist {
				f[i].b = []byte{1}
			}
		}
	}
	enc, _ := c14enc(t, f)
	return enc
}

func c14replay(c *Ctx, lines []string) {
	for _, ln := range lines {
		f := strings.Fields(strings.SplitN(ln, "|", 2)[0])
		if len(f) < 2 {
			continue
		}
		if f[0] == "const" {
			if strings.HasPrefix(f[1], "digest_") {
				c14forkedConsts(c)
			} else {
				c14const(c, f[1])
			}
			continue
		}
		if c14forkedReplay(c, f) {
			continue
		}
		t := c14find(f[1])
		if t == nil || len(f) < 3 {
			continue
		}
		switch f[0] {
		case "enc", "rt":
			c14value(c, t, c14parse(t, f[2]))
		case "dec", "reenc":
			c14bytes(c, t, unhx(f[2]))
		case "hold":
			c14hold(c, t, c14parse(t, f[2]))
		case "redec":
			if len(f) >= 4 {
				c14redec(c, t, unhx(f[2]), unhx(f[3]))
			}
		}
	}
}

func c14tag(v any, field, tag string) string {
	sf, ok := reflect.TypeOf(v).FieldByName(field)
	if !ok {
		return "missing"
	}
	return strings.ReplaceAll(sf.Tag.Get(tag), " ", "")
}

var c14consts = map[string]func() string{
	"tag_Ping_Payload":             func() string { return c14tag(portalwire.Ping{}, "Payload", "ssz-max") },
	"tag_Pong_Payload":             func() string { return c14tag(portalwire.Pong{}, "Payload", "ssz-max") },
	"tag_FindNodes_Distances":      func() string { return c14tag(portalwire.FindNodes{}, "Distances", "ssz-max") },
	"tag_FindContent_ContentKey":   func() string { return c14tag(portalwire.FindContent{}, "ContentKey", "ssz-max") },
	"tag_Offer_ContentKeys":        func() string { return c14tag(portalwire.Offer{}, "ContentKeys", "ssz-max") },
	"tag_Nodes_Enrs":               func() string { return c14tag(portalwire.Nodes{}, "Enrs", "ssz-max") },
	"tag_ConnectionId_Id":          func() string { return c14tag(portalwire.ConnectionId{}, "Id", "ssz-size") },
	"tag_Content_Content":          func() string { return c14tag(portalwire.Content{}, "Content", "ssz-max") },
	"tag_Enrs_Enrs":                func() string { return c14tag(portalwire.Enrs{}, "Enrs", "ssz-max") },
	"tag_Accept_ContentKeys":       func() string { return c14tag(portalwire.Accept{}, "ContentKeys", "ssz-max") },
	"tag_AcceptV1_ContentKeys":     func() string { return c14tag(portalwire.AcceptV1{}, "ContentKeys", "ssz-max") },
	"ContentKeysLimit":             func() string { return fmt.Sprint(portalwire.ContentKeysLimit) },
	"MaxClientInfoByteLength":      func() string { return fmt.Sprint(pingext.MaxClientInfoByteLength) },
	"MaxCapabilitiesLength":        func() string { return fmt.Sprint(pingext.MaxCapabilitiesLength) },
	"MaxErrorByteLength":           func() string { return fmt.Sprint(pingext.MaxErrorByteLength) },
	"CustomPayloadExtensionsLimit": func() string { return fmt.Sprint(pingext.CustomPayloadExtensionsFormatPayloadLimit) },
}

func c14const(c *Ctx, name string) {
	if g, ok := c14consts[name]; ok {
		c.Emit("const %s | ok %s", name, g())
	}
}

func runC14(c *Ctx) {
	if len(c.Args) >= 2 && c.Args[0] == "replay" {
		c14replay(c, readReplayCases(c.Args[1]))
		return
	}
	nv, nb := 90, 170
	if c.Tier == "thorough" {
		nv, nb = 1500, 4000
	}
	if c.N > 0 {
		nv, nb = c.N, 2*c.N
	}
	r := c.Rng
	names := make([]string, 0, len(c14consts))
	for k := range c14consts {
		names = append(names, k)
	}
	sortStrings(names)
	for _, k := range names {
		c14const(c, k)
	}
	nv0, nb0 := nv, nb
	for _, t := range c14types {
		nv, nb = nv0, nb0
		if t.small {
			nv, nb = 3, 8
		} else if c.Tier != "thorough" && c.N == 0 {
			// shard the quick budget: types whose values are tens of kilobytes get fewer cases
			for _, s := range t.fields {
				if s.kind == 'B' && s.max >= 8192 {
					nv, nb = nv0/3, nb0/3
				}
			}
		}
		// ---- values inside and just beyond each limit
		var pool [][]byte
		for i := 0; i < nv; i++ {
			over := -1
			if i%3 == 2 {
				over = r.Intn(len(t.fields))
			}
			f, ok := c14gen(c, t, over)
			if !ok {
				f, _ = c14gen(c, t, -1)
				over = -1
			}
			if over < 0 {
				c.Count("type_" + t.name + "_value_inlimit")
			} else {
				c.Count("type_" + t.name + "_value_overlimit")
			}
			c14value(c, t, f)
			if over < 0 {
				if enc, _ := c14enc(t, f); enc != nil && (len(enc) < 6000 || t.small) {
					pool = append(pool, enc)
				}
			}
		}
		if !t.small {
			c14joint(c, t)
			c14decreasing(c, t)
			if len(pool) > 0 {
				c14gap(c, t, pool[r.Intn(len(pool))])
			}
		}
		// ---- encodings held across later encodes; decoding twice into one object
		nh, nr := 5, 8
		if t.small {
			nh, nr = 1, 1
		} else if nv < nv0 {
			nh, nr = 2, 3
		}
		if c.Tier == "thorough" {
			nh, nr = 4*nh, 4*nr
		}
		for i := 0; i < nh; i++ {
			if f, ok := c14gen(c, t, -1); ok {
				c14hold(c, t, f)
			}
		}
		for i := 0; i < nr && len(pool) > 0; i++ {
			x, y := pool[r.Intn(len(pool))], pool[r.Intn(len(pool))]
			switch i {
			case 0: // the same bytes twice: exposes append-to-existing
				y = x
			case 1: // the longest encoding, then the shortest: exposes kept lengths / kept slots
				for _, e := range pool {
					if len(e) > len(x) {
						x = e
					}
					if len(e) < len(y) {
						y = e
					}
				}
			}
			c14redec(c, t, x, y)
		}
		// ---- byte strings
		prefix := c14emptyPrefix(t)
		fixed := [][]byte{{}, {0, 0, 0, 0}, {4, 0, 0, 0}, {4, 0, 0, 0, 0, 0, 0, 0}, {0, 0, 0, 0, 0, 0, 0, 0}, {8, 0, 0, 0, 8, 0, 0, 0},
			{8, 0, 0, 0, 7, 0, 0, 0}, {8, 0, 0, 0, 9, 0, 0, 0, 1}, {5, 0, 0, 0, 1}, {4, 0, 0, 0, 4, 0, 0, 0}}
		for _, x := range fixed {
			c.Count("type_" + t.name + "_bytes_fixed")
			c14bytes(c, t, x)
			if len(prefix) > 0 {
				c14bytes(c, t, append(cp(prefix), x...))
			}
		}
		for k := 0; k < 3; k++ {
			c14overRaw(c, t, k)
			c14overMiddle(c, t)
		}
		if len(pool) == 0 {
			pool = append(pool, prefix)
		}
		for i := 0; i < nb; i++ {
			switch k := r.Intn(10); {
			case k < 1:
				c.Count("type_" + t.name + "_bytes_random")
				c14bytes(c, t, r.Bytes(r.Intn(48)))
			case k < 2:
				c.Count("type_" + t.name + "_bytes_valid")
				c14bytes(c, t, pool[r.Intn(len(pool))])
			case k < 3:
				c.Count("type_" + t.name + "_bytes_mutated2")
				c14bytes(c, t, c14mutate(c, t, c14mutate(c, t, pool[r.Intn(len(pool))])))
			default:
				c.Count("type_" + t.name + "_bytes_mutated")
				c14bytes(c, t, c14mutate(c, t, pool[r.Intn(len(pool))]))
			}
		}
	}
	c14forked(c)
}

func sortStrings(s []string) {
	for i := 1; i < len(s); i++ {
		for j := i; j > 0 && s[j] < s[j-1]; j-- {
			s[j], s[j-1] = s[j-1], s[j]
		}
	}
}
