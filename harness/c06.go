//go:build c06 || all

package main

// C06, second half: the in-range helper of portalwire (offer filtering, store RPC, gossip target selection).
//
//	inr <node> <radius hex> <content id> | ok true|false / panic
import (
	"fmt"
	"os"
	"runtime"
	"strconv"
	"strings"
	"sync"
	"sync/atomic"
	"time"

	"github.com/ethereum/go-ethereum/p2p/enode"
	"github.com/holiman/uint256"
	"github.com/zen-eth/shisui/portalwire"
)

func stInRange(c *Ctx, node []byte, radius *uint256.Int, cid []byte) {
	var id enode.ID
	copy(id[:], node)
	var r bool
	if p, msg := guard(func() { r = portalwire.VerifInRange(id, radius, cid) }); p {
		c.Emit("inr %s %s %s | panic %s", hx(node), radius.Hex()[2:], hx(cid), msg)
		return
	}
	c.Emit("inr %s %s %s | ok %v", hx(node), radius.Hex()[2:], hx(cid), r)
}

func init() {
	stExtraExec["inr"] = func(c *Ctx, f []string) {
		r, _ := uint256.FromHex("0x" + f[2])
		stInRange(c, unhx(f[1]), r, unhx(f[3]))
	}
	stExtraExec["lin06"] = func(c *Ctx, f []string) {
		var node [32]byte
		copy(node[:], unhx(f[2]))
		n, _ := strconv.ParseUint(f[1], 10, 64)
		g, _ := strconv.Atoi(f[4])
		stLin06(c, n, node, linParsePlan(f[3]), g)
	}
	stExtraGens["06"] = func(c *Ctx) {
		lin06Gen(c)
		node06Gen(c)
		rpc06Gen(c)
		r := c.Rng
		n := 1500
		if c.Tier == "thorough" {
			n = 40000
		}
		max := uint256.MustFromHex("0xffffffffffffffffffffffffffffffffffffffffffffffffffffffffffffffff")
		for i := 0; i < n; i++ {
			node := genNode(c)
			// content id at a chosen XOR distance from the node
			dist := make([]byte, 32)
			switch r.Intn(5) {
			case 0:
				copy(dist, r.Bytes(32))
			case 1: // a single bit
				b := r.Intn(256)
				dist[b/8] = 1 << (7 - uint(b%8))
			case 2: // small distances
				dist[31] = byte(r.Intn(256))
				dist[30] = byte(r.Intn(3))
			case 3: // a low byte only in the first position (little/big-endian confusion)
				dist[0] = byte(1 + r.Intn(255))
			default: // distance zero
			}
			cid := xor32(dist, node[:])
			var rad *uint256.Int
			switch r.Intn(7) {
			case 0:
				rad = max.Clone()
				c.Count("inr_radius_max")
			case 1:
				rad = uint256.NewInt(uint64(r.Intn(600))) // radii below 2^9 and around the log-distance range 0..256
				c.Count("inr_radius_small")
			case 2:
				rad = uint256.NewInt(0)
				c.Count("inr_radius_zero")
			case 3: // the distance itself and its neighbours: the boundary of the rule
				rad = new(uint256.Int).SetBytes(dist)
				switch r.Intn(3) {
				case 0:
					rad.AddUint64(rad, 1)
				case 1:
					if !rad.IsZero() {
						rad.SubUint64(rad, 1)
					}
				}
				c.Count("inr_radius_boundary")
			case 4: // a power of two
				rad = new(uint256.Int).Lsh(uint256.NewInt(1), uint(r.Intn(256)))
				c.Count("inr_radius_pow2")
			default:
				rad = new(uint256.Int).SetBytes(r.Bytes(32))
				c.Count("inr_radius_random")
			}
			if r.Intn(60) == 0 { // malformed content ids (the helper converts with enode.ID(contentId))
				cid = r.Bytes(r.Pick([]int{0, 1, 31, 33, 64}))
				c.Count("inr_cid_other_length")
			}
			stInRange(c, node[:], rad, cid)
		}
		// the witness of the design
		cid := make([]byte, 32)
		cid[6] = 1
		stInRange(c, make([]byte, 32), uint256.NewInt(512), cid)
	}
}

// ---------------------------------------------------------------- radius clauses under concurrent puts
//
//	lin06 <capMB> <node> <plan> <gate> | ok <events> <final observation> <observation after the race> <radius samples>
//
// plan/events/final as in the lin lines of C05.  Goroutine 0 is the writer that fills the store: it issues its first
// <gate> puts alone; just before its put number <gate> - the one that goes over capacity, prunes and shrinks the
// radius - all other goroutines are released, each putting one FAR id; after they have all returned goroutine 0
// issues the rest of its puts (another over-capacity put, so that a second prune runs).  A sampler goroutine reads
// Radius() in a loop during the whole run; its (totally ordered) samples are reported with repetitions removed.
// Node id 0 and ids 00..00 xx: on this family the little-endian reading the code uses orders keys exactly as their
// byte order does (it is the big-endian value times 2^248), so the check is independent of the known
// little-endian finding.
func stLin06(c *Ctx, capMB uint64, node [32]byte, plan [][]linPut, gate int) {
	head := fmt.Sprintf("lin06 %d %s %s %d", capMB, hx(node[:]), linPlanString(plan), gate)
	var out string
	p, msg := guard(func() {
		dir := stTempDir()
		defer os.RemoveAll(dir)
		s, err := stOpen(dir, capMB, node)
		if err != nil {
			panic(err)
		}
		defer func() { s.close() }()
		var clock atomic.Int64
		events := make([][]string, len(plan))
		for t := range plan {
			events[t] = make([]string, len(plan[t]))
		}
		// the bytes of every value are generated beforehand: nothing but the Put itself runs inside the race
		vals := make([][][]byte, len(plan))
		for t := range plan {
			vals[t] = make([][]byte, len(plan[t]))
			for j, pt := range plan[t] {
				vals[t][j] = pt.val.Bytes()
			}
		}
		put := func(t, j int) {
			pt := plan[t][j]
			b := vals[t][j]
			inv := clock.Add(1)
			err := s.cs.Put(nil, pt.id, b)
			resp := clock.Add(1)
			events[t][j] = fmt.Sprintf("%d.%d.%s", inv, resp, putRes(err))
		}
		// the sampler
		var stop atomic.Bool
		var samples []string
		var sampDone sync.WaitGroup
		sampDone.Add(1)
		go func() {
			defer sampDone.Done()
			last := ""
			for !stop.Load() {
				r := s.cs.Radius().Hex()[2:]
				if r != last {
					samples = append(samples, r)
					last = r
				}
				runtime.Gosched()
			}
			r := s.cs.Radius().Hex()[2:]
			if r != last {
				samples = append(samples, r)
			}
		}()
		for j := 0; j < gate && j < len(plan[0]); j++ {
			put(0, j)
		}
		var wg sync.WaitGroup
		var release atomic.Bool
		for t := 1; t < len(plan); t++ {
			wg.Add(1)
			go func(t int) {
				defer wg.Done()
				for !release.Load() {
				}
				// arrive a few microseconds after the pruning put has started (it takes the lock at once and then
				// spends > 100 us committing 150 kB and some milliseconds pruning): the window of the race
				t0 := time.Now()
				for time.Since(t0) < time.Duration(5+7*t)*time.Microsecond {
				}
				for j := range plan[t] {
					put(t, j)
				}
			}(t)
		}
		time.Sleep(200 * time.Microsecond) // let the waiting goroutines reach their spin loop
		if gate < len(plan[0]) {
			release.Store(true)
			put(0, gate)
		} else {
			release.Store(true)
		}
		wg.Wait()
		// quiescent: everybody has returned from the race.  The observation here is the one the retained-within-radius
		// monitor looks at (the second prune below may remove the evidence again)
		var ids0 [][]byte
		seen0 := map[string]bool{}
		for t := range plan {
			for _, pt := range plan[t] {
				if !seen0[string(pt.id)] {
					seen0[string(pt.id)] = true
					ids0 = append(ids0, pt.id)
				}
			}
		}
		mid := s.observe("-", ids0)
		for j := gate + 1; j < len(plan[0]); j++ {
			put(0, j)
		}
		waitPruneGoroutines()
		stop.Store(true)
		sampDone.Wait()
		var ids [][]byte
		seen := map[string]bool{}
		var ev []string
		for t := range plan {
			for j, pt := range plan[t] {
				if !seen[string(pt.id)] {
					seen[string(pt.id)] = true
					ids = append(ids, pt.id)
				}
				ev = append(ev, events[t][j])
			}
		}
		out = strings.Join(ev, ";") + " " + s.observe("-", ids) + " " + mid + " " + strings.Join(samples, ">")
	})
	if p {
		c.Emit("%s | panic %s", head, msg)
		return
	}
	c.Emit("%s | ok %s", head, out)
}

func lin06Gen(c *Ctx) {
	r := c.Rng
	rounds := 10
	if c.Tier == "thorough" {
		rounds = 150
	}
	var node [32]byte
	key := func(x byte) []byte { k := make([]byte, 32); k[31] = x; return k }
	for i := 0; i < rounds; i++ {
		var vid uint64 = uint64(7000 + 100*i)
		big := func(n int) stVal { vid++; return stVal{long: true, vid: vid, n: n} }
		// goroutine 0: three near items fill 90% of 1 MB, the gate put goes over capacity (prune: radius -> 00..03),
		// afterwards an overwrite of a near item goes over capacity again (second prune)
		w0 := []linPut{{key(1), big(300000)}, {key(2), big(300000)}, {key(3), big(300000)},
			{key(4), big(150000 + 1000*r.Intn(100))}, {key(1), big(300000)}}
		plan := [][]linPut{w0}
		k := 3 + r.Intn(5)
		for t := 0; t < k; t++ {
			far := byte(0x80 + r.Intn(0x7f))
			v := stVal{raw: r.Bytes(1 + r.Intn(15))}
			if t%2 == 1 {
				v = big(60000) // large enough that a later prune stops right after it (the radius would grow)
			}
			plan = append(plan, []linPut{{key(far), v}})
		}
		c.Count(fmt.Sprintf("lin06_waiting_goroutines_%d", k))
		stLin06(c, 1, node, plan, 3)
	}
}
