//go:build c06 || all

package main

// C06, second half: the in-range helper of portalwire (offer filtering, store RPC, gossip target selection).
//
//	inr <node> <radius hex> <content id> | ok true|false / panic
import (
	"github.com/ethereum/go-ethereum/p2p/enode"
	"github.com/holiman/uint256"
	"github.com/zen-eth/shisui/portalwire"
)

func stInRange(c *Ctx, node []byte, radius *uint256.Int, cid []byte) {
	var id enode.ID
	copy(id[:], node)
	var r bool
	if p, msg := guard(func() { r = portalwire.VerifInRange(id, radius, cid) }); p {
		c.Emit("inr %s %s %s | panic %s", hx(node), radius.Hex()[2:], hx(cid), msg)
		return
	}
	c.Emit("inr %s %s %s | ok %v", hx(node), radius.Hex()[2:], hx(cid), r)
}

func init() {
	stExtraExec["inr"] = func(c *Ctx, f []string) {
		r, _ := uint256.FromHex("0x" + f[2])
		stInRange(c, unhx(f[1]), r, unhx(f[3]))
	}
	stExtraGens["06"] = func(c *Ctx) {
		r := c.Rng
		n := 1500
		if c.Tier == "thorough" {
			n = 40000
		}
		max := uint256.MustFromHex("0xffffffffffffffffffffffffffffffffffffffffffffffffffffffffffffffff")
		for i := 0; i < n; i++ {
			node := genNode(c)
			// content id at a chosen XOR distance from the node
			dist := make([]byte, 32)
			switch r.Intn(5) {
			case 0:
				copy(dist, r.Bytes(32))
			case 1: // a single bit
				b := r.Intn(256)
				dist[b/8] = 1 << (7 - uint(b%8))
			case 2: // small distances
				dist[31] = byte(r.Intn(256))
				dist[30] = byte(r.Intn(3))
			case 3: // a low byte only in the first position (little/big-endian confusion)
				dist[0] = byte(1 + r.Intn(255))
			default: // distance zero
			}
			cid := xor32(dist, node[:])
			var rad *uint256.Int
			switch r.Intn(7) {
			case 0:
				rad = max.Clone()
				c.Count("inr_radius_max")
			case 1:
				rad = uint256.NewInt(uint64(r.Intn(600))) // radii below 2^9 and around the log-distance range 0..256
				c.Count("inr_radius_small")
			case 2:
				rad = uint256.NewInt(0)
				c.Count("inr_radius_zero")
			case 3: // the distance itself and its neighbours: the boundary of the rule
				rad = new(uint256.Int).SetBytes(dist)
				switch r.Intn(3) {
				case 0:
					rad.AddUint64(rad, 1)
				case 1:
					if !rad.IsZero() {
						rad.SubUint64(rad, 1)
					}
				}
				c.Count("inr_radius_boundary")
			case 4: // a power of two
				rad = new(uint256.Int).Lsh(uint256.NewInt(1), uint(r.Intn(256)))
				c.Count("inr_radius_pow2")
			default:
				rad = new(uint256.Int).SetBytes(r.Bytes(32))
				c.Count("inr_radius_random")
			}
			if r.Intn(60) == 0 { // malformed content ids (the helper converts with enode.ID(contentId))
				cid = r.Bytes(r.Pick([]int{0, 1, 31, 33, 64}))
				c.Count("inr_cid_other_length")
			}
			stInRange(c, node[:], rad, cid)
		}
		// the witness of the design
		cid := make([]byte, 32)
		cid[6] = 1
		stInRange(c, make([]byte, 32), uint256.NewInt(512), cid)
	}
}
