//go:build c15 || all

package main

import (
	"fmt"
	"strconv"
	"strings"

	"github.com/zen-eth/shisui/portalwire"
)

// C15: content stream framing.  Lines:
//
//	enc <items> | <hex>
//	dec <hex> | ok <items>  /  err <class>  / panic
//	dec1 <hex> | ok <content> <remaining> / err <class>
//	utpenc <ver> <hex> | ok <hex> / err
//	utpdec <ver> <hex> | ok <hex> / err <class>
//	trunc <items> <cut> | <result of decoding the first <cut> bytes of the encoding>   (monitor input)
var c15errs = []struct {
	frag string
	cls  int
}{{"EOF", 1}, {"overflows a 32-bit integer", 2}, {"insufficient data", 3}, {"content length mismatch", 4}}

func c15decLine(b []byte) string {
	var items [][]byte
	var err error
	if p, msg := guard(func() { items, err = portalwire.VerifDecodeContents(b) }); p {
		return "panic " + msg
	}
	if err != nil {
		return fmt.Sprintf("err %d", classify(err, c15errs))
	}
	return "ok " + hxl(items)
}

func init() { registry["C15"] = runC15 }

var c15lens = []int{0, 0, 1, 1, 2, 3, 5, 16, 100, 126, 127, 128, 129, 255, 256, 300, 16383, 16384, 16385}

func c15item(c *Ctx, big bool) []byte {
	r := c.Rng
	var n int
	switch k := r.Intn(20); {
	case k < 14:
		n = r.Pick(c15lens)
	case k < 18:
		n = r.Intn(600)
	case k == 18 && big:
		n = r.Pick([]int{2097151, 2097152, 2097153, 1 << 20, 300000})
	default:
		n = r.Intn(40000)
	}
	c.Count(fmt.Sprintf("item_len_bucket_%d", bucket(n)))
	return r.Bytes(n)
}
func bucket(n int) int {
	b := 0
	for n > 0 {
		n >>= 1
		b++
	}
	return b
}

// c15replay re-executes the inputs of recorded case lines on the current implementation.
func c15replay(c *Ctx, lines []string) {
	for _, ln := range lines {
		f := strings.Fields(strings.SplitN(ln, "|", 2)[0])
		if len(f) < 2 {
			continue
		}
		switch f[0] {
		case "dec":
			c.Emit("dec %s | %s", f[1], c15decLine(unhx(f[1])))
		case "dec1":
			c15dec1(c, unhx(f[1]))
		case "hoc":
			nk, _ := strconv.Atoi(f[1])
			c15hoc(c, nk, unhx(f[2]))
		case "utpdec":
			v, _ := strconv.Atoi(f[1])
			c15utpdec(c, uint8(v), unhx(f[2]))
		case "hold":
			c15hold(c, unhxl(f[1]), unhxl(f[2]))
		case "rejoin":
			c15rejoin(c, unhxl(f[1]))
		case "encn":
			c15encn(c, unhxl(f[1]))
		case "enc", "rt", "trunc":
			items := unhxl(f[1])
			enc := portalwire.VerifEncodeContents(items)
			switch f[0] {
			case "enc":
				c.Emit("enc %s | %s", f[1], hx(enc))
			case "rt":
				c.Emit("rt %s | %s", f[1], c15decLine(enc))
			case "trunc":
				cut, _ := strconv.Atoi(f[2])
				if cut > len(enc) {
					cut = len(enc)
				}
				c.Emit("trunc %s %d | %s", f[1], cut, c15decLine(enc[:cut]))
			}
		case "utpenc", "utprt":
			v, _ := strconv.Atoi(f[1])
			enc, dec := portalwire.VerifUtpCodec(uint8(v))
			e, err := enc(unhx(f[2]))
			if f[0] == "utpenc" {
				if err != nil {
					c.Emit("utpenc %d %s | err", v, f[2])
				} else {
					c.Emit("utpenc %d %s | ok %s", v, f[2], hx(e))
				}
			} else {
				back, err := dec(e)
				if err != nil {
					c.Emit("utprt %d %s | err %d", v, f[2], classify(err, c15errs))
				} else {
					c.Emit("utprt %d %s | ok %s", v, f[2], hx(back))
				}
			}
		}
	}
}

func runC15(c *Ctx) {
	if len(c.Args) >= 2 && c.Args[0] == "replay" {
		c15replay(c, readReplayCases(c.Args[1]))
		return
	}
	n := c.N
	if n == 0 {
		n = 1500
		if c.Tier == "thorough" {
			n = 30000
		}
	}
	r := c.Rng
	emitDec := func(kind string, b []byte) {
		c.Count("dec_" + kind)
		out := c15decLine(b)
		c.Count("dec_result_" + out[:2])
		c.Emit("dec %s | %s", hx(b), out)
	}
	// fixed boundary corpus first
	for _, s := range []string{"-", "00", "0000", "80", "8000", "8080808000", "808080808000", "ffffffff0f", "ffffffff1f", "ffffffff7f",
		"0501", "01aa", "01aa01", "0101", "7f", "80808080", "8080808010", "ff", "8100aa", "810001", "00000000", "02aabb00", "8180808000aa"} {
		emitDec("corpus", unhx(s))
		b := unhx(s)
		for _, v := range []uint8{0, 1} {
			c15utpdec(c, v, b)
		}
		c15dec1(c, b)
	}
	for _, sizes := range [][]int{{0}, {0, 0}, {3, 0, 2}, {0, 5}, {5, 0}, {0, 0, 0, 1}} {
		items := make([][]byte, len(sizes))
		for j, n := range sizes {
			items[j] = r.Bytes(n)
		}
		c15encn(c, items)
	}
	for _, sizes := range [][]int{{130, 5}, {200, 0, 3}, {5, 130, 5}, {16384, 1}, {1}, {127, 128, 127}} {
		items := make([][]byte, len(sizes))
		for j, n := range sizes {
			items[j] = r.Bytes(n)
		}
		c15rejoin(c, items)
	}
	bigBudget := 2
	if c.Tier == "thorough" {
		bigBudget = 40
	}
	for i := 0; i < n; i++ {
		switch k := r.Intn(10); {
		case k < 4: // encode a list, decode what the implementation produced, and truncate it
			cnt := r.Pick([]int{0, 1, 1, 2, 3, 5, 8, 64})
			if r.Intn(4) == 0 {
				cnt = r.Intn(65)
			}
			items := make([][]byte, cnt)
			total := 0
			for j := range items {
				big := bigBudget > 0 && cnt <= 3
				items[j] = c15item(c, big)
				if len(items[j]) > 100000 {
					bigBudget--
				}
				total += len(items[j])
				if total > 400000 && !(big && j == 0) {
					items = items[:j+1]
					break
				}
			}
			c.Count(fmt.Sprintf("enc_items_%d", bucket(len(items))))
			enc := portalwire.VerifEncodeContents(items)
			c.Emit("enc %s | %s", hxl(items), hx(enc))
			if len(enc) < 70000 {
				c15hoc(c, len(items), enc)
				if len(items) > 0 {
					c15hoc(c, len(items)-1, enc)
					// N good items followed by a malformed tail / surplus items must discard everything
					for _, tail := range [][]byte{{0x80}, {0x05, 0x01}, {0x00}, {0x80, 0x80, 0x80, 0x80, 0x80, 0x00}, {0x01}} {
						c15hoc(c, len(items), append(append([]byte{}, enc...), tail...))
					}
				}
				c.Emit("rt %s | %s", hxl(items), c15decLine(enc))
				// truncations: a few cut points, always including item boundaries +-1
				for t := 0; t < 3 && len(enc) > 0; t++ {
					cut := r.Intn(len(enc))
					c.Count("trunc")
					c.Emit("trunc %s %d | %s", hxl(items), cut, c15decLine(enc[:cut]))
				}
			}
			if len(enc) < 20000 && len(items) > 0 && r.Intn(3) == 0 {
				// a joined payload is a value: later joins (of payloads that fit the same scratch space) must not change it
				other := make([][]byte, len(items))
				for j := range other {
					other[j] = r.Bytes(len(items[j]))
				}
				c.Count("hold")
				c15hold(c, items, other)
			}
			hasEmpty := false
			for _, it := range items {
				if len(it) == 0 {
					hasEmpty = true
				}
			}
			if hasEmpty && len(enc) < 20000 {
				c.Count("encn")
				c15encn(c, items)
			}
			if len(enc) < 20000 && len(items) > 0 && r.Intn(3) == 0 {
				c.Count("rejoin")
				c15rejoin(c, items)
			}
		case k < 6: // mutate a valid encoding
			cnt := 1 + r.Intn(4)
			items := make([][]byte, cnt)
			for j := range items {
				items[j] = r.Bytes(r.Pick([]int{0, 1, 2, 5, 127, 128, 130, 200}))
			}
			enc := portalwire.VerifEncodeContents(items)
			m := append([]byte{}, enc...)
			switch r.Intn(5) {
			case 0:
				if len(m) > 0 {
					m[r.Intn(len(m))] ^= byte(1 << r.Intn(8))
				}
			case 1:
				m = append(m, r.Bytes(1+r.Intn(3))...)
			case 2:
				if len(m) > 0 {
					m = m[:r.Intn(len(m))]
				}
			case 3:
				if len(m) > 0 {
					m[0] |= 0x80
				}
			case 4:
				m = append([]byte{0x80, 0x80, 0x80, 0x80, byte(r.Intn(256))}, m...)
			}
			emitDec("mutated", m)
			c15dec1(c, m)
			c15utpdec(c, uint8(r.Intn(2)), m)
		case k < 8: // varint-heavy random bytes
			l := r.Intn(12)
			b := make([]byte, l)
			for j := range b {
				switch r.Intn(4) {
				case 0:
					b[j] = 0x80 | byte(r.Intn(128))
				case 1:
					b[j] = byte(r.Intn(16))
				default:
					b[j] = byte(r.Intn(256))
				}
			}
			emitDec("varint", b)
			c15dec1(c, b)
			c15utpdec(c, 1, b)
		case k < 9: // plain random
			emitDec("random", r.Bytes(r.Intn(40)))
		default: // utp single item round trip
			d := c15item(c, false)
			v := uint8(r.Intn(3))
			enc, dec := portalwire.VerifUtpCodec(v)
			e, err := enc(d)
			if err != nil {
				c.Emit("utpenc %d %s | err", v, hx(d))
				continue
			}
			c.Emit("utpenc %d %s | ok %s", v, hx(d), hx(e))
			back, err := dec(e)
			if err != nil {
				c.Emit("utprt %d %s | err %d", v, hx(d), classify(err, c15errs))
			} else {
				c.Emit("utprt %d %s | ok %s", v, hx(d), hx(back))
			}
			if r.Bool() {
				c15utpdec(c, v, append(e, r.Bytes(1+r.Intn(2))...))
			}
		}
	}
}

// c15hold joins a, keeps the payload, joins b a few times (as concurrent offers do while the first payload waits for its
// uTP connection) and reports the first payload as it is then.
func c15hold(c *Ctx, a, b [][]byte) {
	pa := portalwire.VerifEncodeContents(a)
	for t := 0; t < 4; t++ {
		_ = portalwire.VerifEncodeContents(b)
	}
	c.Emit("hold %s %s | %s", hxl(a), hxl(b), hx(pa))
}

// c15rejoin joins a list, splits the stream out of an append-grown receive buffer (the items are then sub-slices with
// spare capacity, as on the gossip path: received contents are offered on to several peers) and joins the split items
// twice; both joins must be the stream again and the items must still be the items.
func c15rejoin(c *Ctx, items [][]byte) {
	stream := portalwire.VerifEncodeContents(items)
	buf := make([]byte, 0, len(stream)+64) // spare room behind the last item, like a read buffer grown by append
	buf = append(buf, stream...)
	got, err := portalwire.VerifDecodeContents(buf)
	if err != nil {
		c.Emit("rejoin %s | err %d", hxl(items), classify(err, c15errs))
		return
	}
	j1 := append([]byte{}, portalwire.VerifEncodeContents(got)...)
	j2 := append([]byte{}, portalwire.VerifEncodeContents(got)...)
	c.Emit("rejoin %s | %s %s %s", hxl(items), hx(j1), hx(j2), hxl(got))
}

// c15encn joins a list whose empty items are nil slices (what storage.Get hands back next to an error, what a zero
// value is): an empty item is an item whatever its Go spelling.
func c15encn(c *Ctx, items [][]byte) {
	in := make([][]byte, len(items))
	for i, it := range items {
		if len(it) == 0 {
			in[i] = nil
		} else {
			in[i] = it
		}
	}
	c.Emit("encn %s | %s", hxl(items), hx(portalwire.VerifEncodeContents(in)))
}

func c15dec1(c *Ctx, b []byte) {
	var content, rem []byte
	var err error
	if p, msg := guard(func() { content, rem, err = portalwire.VerifDecodeSingleContent(b) }); p {
		c.Emit("dec1 %s | panic %s", hx(b), msg)
		return
	}
	c.Count("dec1")
	if err != nil {
		c.Emit("dec1 %s | err %d", hx(b), classify(err, c15errs))
		return
	}
	c.Emit("dec1 %s | ok %s %s", hx(b), hx(content), hx(rem))
}

// c15hoc drives the consumer of the decoder on the OFFER path: handleOfferedContents with nk awaited keys.
func c15hoc(c *Ctx, nk int, b []byte) {
	var items [][]byte
	var err error
	if p, msg := guard(func() { items, err = portalwire.VerifFramingOfferedContents(nk, b) }); p {
		c.Emit("hoc %d %s | panic %s", nk, hx(b), msg)
		return
	}
	c.Count("hoc")
	if err != nil {
		c.Emit("hoc %d %s | err", nk, hx(b))
		return
	}
	if items == nil {
		c.Emit("hoc %d %s | ok none", nk, hx(b))
		return
	}
	c.Emit("hoc %d %s | ok %s", nk, hx(b), hxl(items))
}

func c15utpdec(c *Ctx, v uint8, b []byte) {
	_, dec := portalwire.VerifUtpCodec(v)
	var out []byte
	var err error
	if p, msg := guard(func() { out, err = dec(b) }); p {
		c.Emit("utpdec %d %s | panic %s", v, hx(b), msg)
		return
	}
	c.Count("utpdec")
	if err != nil {
		c.Emit("utpdec %d %s | err %d", v, hx(b), classify(err, c15errs))
		return
	}
	c.Emit("utpdec %d %s | ok %s", v, hx(b), hx(out))
}
