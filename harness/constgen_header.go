//go:build vheader || vall

package main

import (
	"github.com/zen-eth/shisui/history"
	"github.com/zen-eth/shisui/validation"
)

func init() {
	registry["constgen_header"] = func(c *Ctx) {
		m := validation.VerifConstantsHeader()
		for k, v := range history.VerifConstantsProver() {
			m[k] = v
		}
		emitConsts(c, "header", m, nil)
	}
}
