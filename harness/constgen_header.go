//go:build vheader || vall

package main

import "github.com/zen-eth/shisui/validation"

func init() {
	registry["constgen_header"] = func(c *Ctx) {
		emitConsts(c, "header", validation.VerifConstantsHeader(), nil)
	}
}
