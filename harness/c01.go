//go:build c01 || all

package main

import (
	"crypto/ecdsa"
	"fmt"
	"math/big"
	"net"
	"os"
	"runtime"
	"strconv"
	"strings"
	"time"

	"github.com/ethereum/go-ethereum/common"
	"github.com/ethereum/go-ethereum/core/types"
	"github.com/ethereum/go-ethereum/crypto"
	"github.com/ethereum/go-ethereum/log"
	"github.com/ethereum/go-ethereum/p2p/enode"
	"github.com/ethereum/go-ethereum/p2p/enr"
	"github.com/protolambda/zrnt/eth2/beacon/capella"
	"github.com/protolambda/zrnt/eth2/configs"
	"github.com/zen-eth/shisui/beacon"
	"github.com/zen-eth/shisui/history"
	"github.com/zen-eth/shisui/portal"
	"github.com/zen-eth/shisui/portalwire"
	"github.com/zen-eth/shisui/state"
	"github.com/zen-eth/shisui/storage"
	"github.com/zen-eth/shisui/validation"
)

// C01: no remote input crashes the node.  One line per delivered input:
//
//	talk <net> <hex> | ok <replylen> / panic <msg>
//	pong|nodes|content|offer <net> <hex> | ok / err / panic <msg>
//	stream <net> <nkeys> <hex> | ok / err / panic
//	validate <net> <keyhex> <contenthex> | ok / err / panic
//	get|put <net> <keyhex> [<contenthex>] | ok / err / panic
func init() { registry["C01"] = runC01 }

type c01oracle struct{ hdr *types.Header }

func (o *c01oracle) GetHistoricalSummaries(epoch uint64) (capella.HistoricalSummaries, error) {
	return capella.HistoricalSummaries{}, nil
}
func (o *c01oracle) GetBlockHeaderByHash(hash []byte) (*types.Header, error) {
	if o.hdr == nil {
		return nil, fmt.Errorf("not found")
	}
	return o.hdr, nil
}
func (o *c01oracle) GetFinalizedStateRoot() ([]byte, error) { return make([]byte, 32), nil }

type c01net struct {
	name  string
	p     *portalwire.PortalProtocol
	store storage.ContentStorage
	val   validation.Validator
}

type c01env struct {
	oracle     *c01oracle
	defaultHdr *types.Header
	nets       []*c01net
	peer       *enode.Node
	addr       *net.UDPAddr
	dir        string
	node       *portal.Node
}

func c01setup(c *Ctx) *c01env {
	log.SetDefault(log.NewLogger(log.DiscardHandler()))
	dir, err := os.MkdirTemp("", "verif-c01-")
	if err != nil {
		panic(err)
	}
	key, _ := crypto.ToECDSA(common.LeftPadBytes([]byte{0x42, byte(c.Seed)}, 32))
	cfg := portal.DefaultConfig()
	cfg.PrivateKey = key
	cfg.DataDir = dir
	cfg.DataCapacity = 10
	cfg.RpcAddr = "127.0.0.1:0"
	cfg.Networks = []string{"history", "beacon", "state"}
	cfg.DisableTableInitCheck = true
	cfg.PortalProtocolConfig.ListenAddr = "127.0.0.1:0"
	cfg.PortalProtocolConfig.NodeDBPath = ""
	n, err := portal.NewNode(cfg)
	if err != nil {
		panic(err)
	}
	h, b, s := n.VerifDNetworks()
	env := &c01env{dir: dir, node: n}
	// a header the lying-or-honest oracle hands to validators that ask for one
	hdr := &types.Header{Number: big.NewInt(1), Difficulty: big.NewInt(1)}
	or := &c01oracle{hdr: hdr}
	env.oracle = or
	env.defaultHdr = hdr
	for _, x := range []struct {
		name string
		p    *portalwire.PortalProtocol
		val  validation.Validator
	}{
		{"history", h.VerifDProtocol(), history.NewHistoryValidator(or)},
		{"beacon", b.VerifDProtocol(), beacon.NewBeaconValidator(or, configs.Mainnet)},
		{"state", s.VerifDProtocol(), state.NewStateValidator(or)},
	} {
		if err := x.p.Start(); err != nil {
			panic(err)
		}
		env.nets = append(env.nets, &c01net{name: x.name, p: x.p, store: x.p.VerifDStorage(), val: x.val})
	}
	// the remote peer: a signed record on loopback
	pk, _ := crypto.ToECDSA(common.LeftPadBytes([]byte{0x77}, 32))
	env.peer = c01peer(pk, 30999)
	env.addr = &net.UDPAddr{IP: net.IPv4(127, 0, 0, 1), Port: 30999}
	return env
}

func c01peer(pk *ecdsa.PrivateKey, port int) *enode.Node {
	var r enr.Record
	r.Set(enr.IP(net.IPv4(127, 0, 0, 1)))
	r.Set(enr.UDP(port))
	r.SetSeq(1)
	if err := enode.SignV4(&r, pk); err != nil {
		panic(err)
	}
	n, err := enode.New(enode.ValidSchemes, &r)
	if err != nil {
		panic(err)
	}
	return n
}

func (e *c01env) close() {
	done := make(chan struct{})
	go func() { defer close(done); defer func() { recover() }(); e.node.Stop() }()
	select {
	case <-done:
	case <-time.After(10 * time.Second):
	}
	os.RemoveAll(e.dir)
}

// c01hung is set once a call did not return within the watchdog: the node is wedged (a lock left held, a channel never
// served), every later call on it would block too, so the run stops delivering inputs and reports this one.
var c01hung bool

// call runs f under recover and a watchdog; returns the observable.
func c01call(f func() string) string {
	res := make(chan string, 1)
	go func() {
		var out string
		p, msg := guard(func() { out = f() })
		if p {
			res <- "panic " + c01short(msg)
		} else {
			res <- out
		}
	}()
	select {
	case r := <-res:
		return r
	case <-time.After(20 * time.Second):
		c01hung = true
		return "hang"
	}
}
func c01short(m string) string {
	if len(m) > 90 {
		m = m[:90]
	}
	return m
}
func errStr(err error) string {
	if err != nil {
		return "err"
	}
	return "ok"
}

func (e *c01env) exec(c *Ctx, kind string, nt *c01net, args ...[]byte) {
	if c01hung {
		return
	}
	var out string
	switch kind {
	case "talk":
		out = c01call(func() string {
			r := nt.p.VerifDHandleTalkRequest(e.peer, e.addr, args[0])
			if len(r) == 0 {
				return "ok empty"
			}
			return "ok reply"
		})
		c.Emit("talk %s %s | %s", nt.name, hx(args[0]), out)
	case "pong":
		out = c01call(func() string { return errStr(nt.p.VerifDProcessPong(e.peer, args[0])) })
		c.Emit("pong %s %s | %s", nt.name, hx(args[0]), out)
	case "nodes":
		out = c01call(func() string {
			_, err := nt.p.VerifDProcessNodes(e.peer, args[0], []uint{256, 255})
			return errStr(err)
		})
		c.Emit("nodes %s %s | %s", nt.name, hx(args[0]), out)
	case "content":
		out = c01call(func() string { _, err := nt.p.VerifDProcessContent(e.peer, args[0]); return errStr(err) })
		c.Emit("content %s %s | %s", nt.name, hx(args[0]), out)
	case "offer":
		out = c01call(func() string {
			return errStr(nt.p.VerifDProcessOffer(e.peer, args[0], [][]byte{{0, 1}, {0, 2}, {0, 3}}))
		})
		c.Emit("offer %s %s | %s", nt.name, hx(args[0]), out)
	case "stream":
		nk := int(args[0][0])
		keys := make([][]byte, nk)
		for i := range keys {
			keys[i] = []byte{0, byte(i)}
		}
		out = c01call(func() string { return errStr(nt.p.VerifDHandleOfferedContents(e.peer.ID(), keys, args[1])) })
		c.Emit("stream %s %d %s | %s", nt.name, nk, hx(args[1]), out)
	case "streamfull":
		// the same stream body handed over while the content queue is full and nobody drains it (a busy validation loop)
		nk := int(args[0][0])
		out = c01call(func() string {
			returned, err := portalwire.VerifFramingOfferedContentsFullQueue(nk, args[1], 3, 3, 3*time.Second)
			if !returned {
				return "hang"
			}
			return errStr(err)
		})
		c.Emit("streamfull %s %d %s | %s", nt.name, nk, hx(args[1]), out)
	case "validate":
		out = c01call(func() string { return errStr(nt.val.ValidateContent(args[0], args[1])) })
		c.Emit("validate %s %s %s | %s", nt.name, hx(args[0]), hx(args[1]), out)
	case "get":
		out = c01call(func() string {
			_, err := nt.store.Get(args[0], nt.p.VerifDToContentId(args[0]))
			return errStr(err)
		})
		c.Emit("get %s %s | %s", nt.name, hx(args[0]), out)
	case "put":
		out = c01call(func() string {
			return errStr(nt.store.Put(args[0], nt.p.VerifDToContentId(args[0]), args[1]))
		})
		c.Emit("put %s %s %s | %s", nt.name, hx(args[0]), hx(args[1]), out)
	}
	c.Count(kind + "_" + strings.Fields(out)[0])
}

func runC01(c *Ctx) {
	if len(c.Args) >= 1 && c.Args[0] == "victim" {
		c01victim(c)
		return
	}
	if len(c.Args) >= 1 && c.Args[0] == "live" {
		runC01Live(c, 200)
		return
	}
	env := c01setup(c)
	defer env.close()
	if len(c.Args) >= 2 && c.Args[0] == "replay" {
		// standard prelude: one stored historical-summaries record (the state the stateful cases start from)
		for _, nt := range env.nets {
			if nt.name == "beacon" {
				key := []byte{0x14, 1, 0, 0, 0, 0, 0, 0, 0}
				env.exec(c, "put", nt, key, make([]byte, 100))
			}
		}
		var live []c01liveItem
		replayBase := runtime.NumGoroutine()
		defer func() {
			// let goroutines started by the replayed calls run BEFORE the node is stopped (stopping cancels their context):
			// a panic in one of them is what a crash replay is looking for
			c.Out.Flush()
			// at least 1.5 s, then until the goroutines the replayed calls started have ended (the count is back at what
			// it was before the replay; 20 s at most - a uTP dial to a silent peer gives up after 10-15 s and the
			// goroutine that then panics is what a crash replay is looking for)
			time.Sleep(1500 * time.Millisecond)
			maxWait := 185
			if v, err := strconv.Atoi(os.Getenv("VERIF_REPLAY_WAIT_S")); err == nil && v > 0 {
				maxWait = v * 10
			}
			for w := 0; w < maxWait && runtime.NumGoroutine() > replayBase; w++ {
				time.Sleep(100 * time.Millisecond)
			}
			if len(live) > 0 {
				runC01LiveList(c, 0, live)
			}
		}()
		for _, ln := range readReplayCases(c.Args[1]) {
			f := strings.Fields(strings.SplitN(ln, "|", 2)[0])
			if len(f) < 3 {
				continue
			}
			if f[0] == "liveflood" {
				k, _ := strconv.Atoi(f[2])
				live = append(live, c01liveItem{"utp-flood", []byte{byte(k >> 8), byte(k)}})
				continue
			}
			if f[0] == "live" {
				live = append(live, c01liveItem{f[1], unhx(f[2])})
				continue
			}
			var nt *c01net
			for _, x := range env.nets {
				if x.name == f[1] {
					nt = x
				}
			}
			if nt == nil {
				continue
			}
			switch f[0] {
			case "stream", "streamfull":
				k, _ := strconv.Atoi(f[2])
				env.exec(c, f[0], nt, []byte{byte(k)}, unhx(f[3]))
			case "validate", "put":
				env.exec(c, f[0], nt, unhx(f[2]), unhx(f[3]))
			default:
				env.exec(c, f[0], nt, unhx(f[2]))
			}
		}
		return
	}
	n := c.N
	if n == 0 {
		n = 4000
		if c.Tier == "thorough" {
			n = 60000
		}
	}
	r := c.Rng
	// (a) every short prefix of every message kind / selector
	var shorts [][]byte
	shorts = append(shorts, []byte{})
	for code := 0; code < 10; code++ {
		shorts = append(shorts, []byte{byte(code)})
		for b2 := 0; b2 < 4; b2++ {
			shorts = append(shorts, []byte{byte(code), byte(b2)})
			shorts = append(shorts, []byte{byte(code), byte(b2), 0})
			shorts = append(shorts, []byte{byte(code), byte(b2), 0xff})
		}
	}
	shorts = append(shorts, []byte{0xff}, []byte{0xff, 0xff})
	for _, nt := range env.nets {
		for _, s := range shorts {
			env.exec(c, "talk", nt, s)
			env.exec(c, "pong", nt, s)
			env.exec(c, "nodes", nt, s)
			if !(len(s) >= 2 && s[0] == portalwire.CONTENT && s[1] == portalwire.ContentConnIdSelector && len(s) == 4) {
				env.exec(c, "content", nt, s)
			}
			env.exec(c, "offer", nt, s)
			env.exec(c, "stream", nt, []byte{byte(len(s) % 3)}, s)
			env.exec(c, "get", nt, s)
			env.exec(c, "put", nt, s, []byte{1, 2, 3})
			env.exec(c, "validate", nt, s, []byte{})
			env.exec(c, "validate", nt, s, []byte{1, 2, 3})
		}
	}
	// (a0) uTP stream bodies on the varint boundaries (length prefixes that overflow, wrap or exceed the data)
	for _, nt := range env.nets {
		for _, h := range []string{"80", "8000", "8080808000", "808080808000", "ffffffff0f", "ffffffff1f", "ffffffff7f", "fbffffff0f", "fcffffff0f",
			"fdffffff0f", "feffffff0f", "faffffff0f", "ffffffff07", "8080808008", "0501", "01aa", "01aa01", "8100aa", "ffffff7f", "80808080", "8080808010"} {
			env.exec(c, "stream", nt, []byte{1}, unhx(h))
			env.exec(c, "stream", nt, []byte{2}, append(unhx(h), 0))
		}
	}
	for _, items := range [][][]byte{{{1, 2, 3}}, {{}, {9}}, {r.Bytes(200)}, {r.Bytes(5), r.Bytes(130)}} {
		body := portalwire.VerifEncodeContents(items)
		env.exec(c, "streamfull", env.nets[0], []byte{byte(len(items))}, body)
		env.exec(c, "streamfull", env.nets[0], []byte{byte(len(items) + 1)}, body)
		env.exec(c, "streamfull", env.nets[0], []byte{byte(len(items))}, append(append([]byte{}, body...), 0x80))
	}
	// (a') stateful prelude: a stored historical-summaries record, then short / long keys of that type
	for _, nt := range env.nets {
		if nt.name != "beacon" {
			continue
		}
		env.exec(c, "put", nt, append([]byte{0x14}, 1, 0, 0, 0, 0, 0, 0, 0), r.Bytes(100))
		for l := 0; l <= 12; l++ {
			env.exec(c, "get", nt, append([]byte{0x14}, r.Bytes(l)...))
			env.exec(c, "talk", nt, c01findContent(append([]byte{0x14}, r.Bytes(l)...)))
			env.exec(c, "put", nt, append([]byte{0x14}, r.Bytes(l)...), r.Bytes(20))
		}
	}
	// (a1) beacon cache entries (finality / optimistic update) under get / put / get sequences with other slots: the
	// adapter guards its cache with a lock; a path that forgets to release it wedges the next call (watchdog)
	for _, v := range c01loadVectors() {
		if len(v.key) != 9 || (v.key[0] != 0x12 && v.key[0] != 0x13) {
			continue
		}
		nt := env.nets[1]
		later := append([]byte{v.key[0]}, 0xff, 0xff, 0xff, 0xff, 0, 0, 0, 0)
		earlier := append([]byte{v.key[0]}, 1, 0, 0, 0, 0, 0, 0, 0)
		for round := 0; round < 2; round++ {
			env.exec(c, "put", nt, v.key, v.val)
			env.exec(c, "get", nt, later)
			env.exec(c, "get", nt, earlier)
			env.exec(c, "get", nt, v.key)
			env.exec(c, "talk", nt, c01findContent(later))
		}
		env.exec(c, "put", nt, v.key, v.val)
	}
	// (a2) the ephemeral-header adapter of the history store with a populated database (the local store API can write
	// it: offer-type keys are stored verbatim): FINDCONTENT keys of type 0x04 then walk hash -> number key -> headers
	// with a peer-chosen ancestor count over whatever the database holds (short number keys, gaps, garbage values)
	{
		nt := env.nets[0]
		hashKey := append([]byte{0x05}, r.Bytes(31)...) // 32-byte key: what Get looks up as "block hash"
		numKey := []byte{0x05, 0, 0, 0, 0, 0, 0, 9}     // 8-byte key: decodes as a block number
		env.exec(c, "put", nt, hashKey, numKey)
		env.exec(c, "put", nt, numKey, r.Bytes(120))
		for _, k := range [][]byte{{0x05, 0, 0, 0, 0, 0, 0, 8}, {0x05, 0, 0, 0, 0, 0, 0, 7}, {0x05, 0, 0, 0, 0, 0, 0, 5}, {0x05, 0, 0, 0, 0, 0, 0}, {0x05}} {
			env.exec(c, "put", nt, k, r.Bytes(60))
		}
		badHash := append([]byte{0x05}, r.Bytes(31)...)
		env.exec(c, "put", nt, badHash, []byte{1, 2, 3}) // number key of the wrong length
		dangling := append([]byte{0x05}, r.Bytes(31)...)
		env.exec(c, "put", nt, dangling, []byte{0x05, 0, 0, 0, 0, 0, 1, 0}) // number key without a header
		for _, h := range [][]byte{hashKey, badHash, dangling, r.Bytes(32)} {
			for _, cnt := range []byte{0, 1, 2, 3, 4, 5, 255} {
				key := append(append([]byte{0x04}, h...), cnt)
				env.exec(c, "get", nt, key)
				env.exec(c, "talk", nt, c01findContent(key))
			}
			env.exec(c, "get", nt, append([]byte{0x04}, h...))
			env.exec(c, "get", nt, append(append([]byte{0x04}, h...), 1, 0))
		}
	}
	// (a'') genuine test vectors of the repository, unchanged and under structured mutation, through the
	// validators (with the vector's own header served by the oracle when the file carries one) and the storage adapters
	vectors := c01loadVectors()
	c.Stats["vectors_loaded"] = len(vectors)
	nv := 300
	if c.Tier == "thorough" {
		nv = 6000
	}
	for i := 0; i < nv && len(vectors) > 0; i++ {
		v := vectors[r.Intn(len(vectors))]
		var nt *c01net
		switch {
		case v.key[0] < 0x10:
			nt = env.nets[0]
		case v.key[0] < 0x20:
			nt = env.nets[1]
		default:
			nt = env.nets[2]
		}
		if v.header != nil {
			env.oracle.hdr = v.header
		}
		key := v.key
		if r.Intn(6) == 0 {
			key = c01mutateContent(r, key)
		}
		content := c01mutateContent(r, v.val)
		if len(content) > 30000 && r.Intn(4) != 0 {
			continue // keep the case file small; large vectors only occasionally
		}
		switch r.Intn(4) {
		case 0:
			env.exec(c, "put", nt, key, content)
		default:
			env.exec(c, "validate", nt, key, content)
		}
	}
	env.oracle.hdr = env.defaultHdr
	// (b) encoder output, plain and mutated
	valid := c01validMessages(r)
	for _, nt := range env.nets {
		for _, m := range valid {
			env.exec(c, "talk", nt, m)
		}
	}
	for i := 0; i < n; i++ {
		nt := env.nets[r.Intn(len(env.nets))]
		switch k := r.Intn(10); {
		case k < 4:
			m := c01mutate(r, valid[r.Intn(len(valid))])
			kind := []string{"talk", "talk", "pong", "nodes", "content", "offer"}[r.Intn(6)]
			if kind == "content" && len(m) == 4 && m[0] == portalwire.CONTENT && m[1] == portalwire.ContentConnIdSelector {
				continue // a well-formed connection id makes the call dial uTP for 15 s (exercised once below)
			}
			env.exec(c, kind, nt, m)
		case k < 6:
			key := c01key(r, nt.name)
			content := r.Bytes(r.Pick([]int{0, 1, 8, 9, 32, 100, 600}))
			switch r.Intn(3) {
			case 0:
				env.exec(c, "get", nt, key)
			case 1:
				env.exec(c, "put", nt, key, content)
			default:
				env.exec(c, "validate", nt, key, content)
			}
		case k < 7:
			env.exec(c, "stream", nt, []byte{byte(r.Intn(4))}, c01mutate(r, portalwire.VerifEncodeContents([][]byte{r.Bytes(r.Intn(5)), r.Bytes(r.Intn(200))})))
		default:
			m := r.Bytes(r.Intn(48))
			if r.Bool() && len(m) > 0 {
				m[0] = byte(r.Intn(9))
			}
			kind := []string{"talk", "pong", "nodes", "content", "offer"}[r.Intn(5)]
			if kind == "content" && len(m) == 4 && m[0] == portalwire.CONTENT && m[1] == portalwire.ContentConnIdSelector {
				continue
			}
			env.exec(c, kind, nt, m)
		}
	}
	if c01hung {
		return
	}
	// live attack over loopback UDP against a child process (handlers run in the discv5 goroutines, no recover)
	if c.Tier == "thorough" {
		runC01Live(c, 3000)
	} else {
		runC01Live(c, 150)
	}
	// one well-formed connection-id CONTENT response: the call must return (uTP dial to a dead peer times out)
	if c.Tier == "thorough" {
		env.exec(c, "content", env.nets[0], []byte{portalwire.CONTENT, portalwire.ContentConnIdSelector, 0x12, 0x34})
	}
}

func c01findContent(key []byte) []byte {
	b, _ := (&portalwire.FindContent{ContentKey: key}).MarshalSSZ()
	return append([]byte{portalwire.FINDCONTENT}, b...)
}

func c01key(r *Rng, net string) []byte {
	var sel byte
	switch net {
	case "history":
		sel = byte(r.Pick([]int{0, 1, 2, 3, 4, 5, 6}))
	case "beacon":
		sel = byte(r.Pick([]int{0x10, 0x11, 0x12, 0x13, 0x14, 0x15}))
	default:
		sel = byte(r.Pick([]int{0x20, 0x21, 0x22, 0x23}))
	}
	body := r.Bytes(r.Pick([]int{0, 1, 7, 8, 9, 16, 31, 32, 33, 40, 64, 100}))
	return append([]byte{sel}, body...)
}

func c01mutate(r *Rng, m []byte) []byte {
	out := append([]byte{}, m...)
	switch r.Intn(7) {
	case 0:
		if len(out) > 0 {
			out = out[:r.Intn(len(out))]
		}
	case 1:
		out = append(out, r.Bytes(1+r.Intn(8))...)
	case 2:
		if len(out) > 0 {
			out[r.Intn(len(out))] ^= byte(1 << r.Intn(8))
		}
	case 3: // shift an offset-looking field
		if len(out) > 5 {
			i := 1 + r.Intn(len(out)-4)
			out[i] += byte(r.Pick([]int{1, 4, 255, 252}))
		}
	case 4:
		if len(out) > 0 {
			out[0] = byte(r.Intn(10))
		}
	case 5:
		if len(out) > 1 {
			out[1] = byte(r.Intn(5))
		}
	}
	return out
}

func c01validMessages(r *Rng) [][]byte {
	var out [][]byte
	add := func(code byte, m interface{ MarshalSSZ() ([]byte, error) }) {
		b, err := m.MarshalSSZ()
		if err == nil {
			out = append(out, append([]byte{code}, b...))
		}
	}
	for _, pt := range []uint16{0, 1, 2, 65535, 7} {
		add(portalwire.PING, &portalwire.Ping{EnrSeq: 1, PayloadType: pt, Payload: r.Bytes(r.Pick([]int{0, 32, 34, 40}))})
		add(portalwire.PONG, &portalwire.Pong{EnrSeq: 1, PayloadType: pt, Payload: r.Bytes(r.Pick([]int{0, 32, 34, 40}))})
	}
	add(portalwire.FINDNODES, &portalwire.FindNodes{Distances: [][2]byte{{0, 0}, {0, 1}, {255, 0}}})
	add(portalwire.FINDNODES, &portalwire.FindNodes{Distances: [][2]byte{}})
	add(portalwire.NODES, &portalwire.Nodes{Total: 1, Enrs: [][]byte{r.Bytes(60), r.Bytes(3)}})
	add(portalwire.NODES, &portalwire.Nodes{Total: 1, Enrs: [][]byte{}})
	add(portalwire.FINDCONTENT, &portalwire.FindContent{ContentKey: append([]byte{0}, r.Bytes(32)...)})
	add(portalwire.FINDCONTENT, &portalwire.FindContent{ContentKey: []byte{}})
	add(portalwire.FINDCONTENT, &portalwire.FindContent{ContentKey: []byte{0x13}})
	add(portalwire.OFFER, &portalwire.Offer{ContentKeys: [][]byte{append([]byte{0}, r.Bytes(32)...), {}}})
	add(portalwire.OFFER, &portalwire.Offer{ContentKeys: [][]byte{{0x13, 1}, {0x21}}})
	add(portalwire.OFFER, &portalwire.Offer{ContentKeys: [][]byte{}})
	add(portalwire.ACCEPT, &portalwire.Accept{ConnectionId: []byte{1, 2}, ContentKeys: []byte{0x0d}})
	add(portalwire.ACCEPT, &portalwire.AcceptV1{ConnectionId: []byte{1, 2}, ContentKeys: []byte{0, 1, 2}})
	out = append(out, []byte{portalwire.CONTENT, portalwire.ContentRawSelector, 1, 2, 3})
	out = append(out, []byte{portalwire.CONTENT, portalwire.ContentEnrsSelector, 4, 0, 0, 0, 1, 2})
	out = append(out, []byte{portalwire.CONTENT, portalwire.ContentConnIdSelector, 1, 2, 3})
	return out
}
