//go:build c09 || all

package main

import (
	"context"
	"crypto/ecdsa"
	"crypto/sha256"
	"fmt"
	"strconv"
	"strings"
	"sync"
	"time"

	bitfield "github.com/OffchainLabs/go-bitfield"
	"github.com/ethereum/go-ethereum/p2p/enode"
	"github.com/holiman/uint256"
	"github.com/zen-eth/shisui/portalwire"
	"github.com/zen-eth/shisui/storage"
)

// C09: OFFER verdicts and pairing of accepted content.  Lines (hex fields, "-" empty, lists comma separated, "." empty list):
//
//	bl <bools> | ok enc=<hex> len=<n> idx=<i,i,..>          NewBitlist(n)+SetBitAt -> bytes, then Len / BitIndices of those bytes
//	blraw <hex> | ok len=<n> idx=<..> at=<bools>            Len / BitIndices / BitAt(0..len+2) of arbitrary bytes
//	acc <ver> <hex> | ok cid=<hex> body=<hex> klen=<n> idx=<..> / err     parseOfferResp of arbitrary bytes (version ver)
//	ho <own> <pvkind> <pv> <L> <h> <qcap> <qfill> <cid> <keys> <flags> | ok reply=<hex> taken=<n> / err
//	     handleOffer on a fresh/clean receiver: own = its versions, pvkind/pv = the offerer's record, L = inbound limit,
//	     h = permits already held, qcap/qfill = validation queue capacity / fill, cid = connection id found in the reply
//	     (library output, input of the model), flags = per key one hex digit: 1 in range, 2 stored, 4 in flight, 8 nil content id
//	hoc <nkeys> <room> <payload> | ok enq=<items> / ok dropped / err      handleOfferedContents with nkeys keys
//	po <own> <pvkind> <pv> <kind> <nkeys> <resp> | ok keys=<hex> started=<0|1> / err    processOffer return value
//	e2e <ownO> <ownR> <tamper> <keys> <flags> <contents> | ok reply=<hex> enq=<keys>/<contents> or enq=none
//	     receiver handles the offer, the reply is (optionally) tampered with, the offerer processes it and streams over real uTP
//	inflight3 <K> <L> | ok o1=<codes> o2=<codes> o3=<codes> o4=<codes> d1=<0|1> d2=<0|1>
//	     version-1 receiver, real sender: O1 = [K] accepted, the sender opens the uTP stream and stalls; O2 = [K, L] arrives and
//	     its transfer completes; O3 = [K] while the first transfer is still running; then the first transfer completes; O4 = [K]
//	inflight2 <va> <vb> <K> | ok o1=<A|P|D> o2=<A|P|D> d1=<0|1>
//	     two different senders negotiating version va and vb: the first one's OFFER [K] is accepted, it opens the uTP stream and
//	     stalls; the second one offers the same K before delivery (A accepted, P inbound transfer in progress, D declined)
//	inflightrl <va> <K> | ok o1=<A|P|D> o2=<A|P|D> o3=<A|P|D> d1=<0|1>
//	     receiver with 2 inbound slots, one held by the harness: sender A (version va) offers [K], accepted, stream open and
//	     stalled; a version-0 peer offers [K] while NO slot is free; the harness frees its slot; a version-1 peer offers [K]
//	shared <ownR> <keys> <flagsA> <flagsB> <contents> | ok enqA=<keys>/<contents> enqB=<keys>/<contents> list=<keys>
//	     ONE gossip batch offered to two peers the way GossipAndReturnPeers builds it: two TransientOfferRequests sharing the
//	     same Contents slice; receiver A answers first (its verdicts follow flagsA), its reply is processed and streamed, then
//	     receiver B's; what each receiver enqueues, and the shared list's keys afterwards
//	race <n> | ok second=<codes>        two back-to-back version-1 offers of the same fresh keys, codes of the second reply
func init() { registry["C09"] = runC09 }

type c09store struct {
	mu     sync.Mutex
	db     map[string][]byte
	radius *uint256.Int
}

func (s *c09store) Get(k, id []byte) ([]byte, error) {
	s.mu.Lock()
	defer s.mu.Unlock()
	if v, ok := s.db[string(id)]; ok {
		return v, nil
	}
	return nil, storage.ErrContentNotFound
}
func (s *c09store) Put(k, id, v []byte) error {
	s.mu.Lock()
	defer s.mu.Unlock()
	s.db[string(id)] = v
	return nil
}
func (s *c09store) Radius() *uint256.Int { return s.radius }
func (s *c09store) Close() error         { return nil }

var _ storage.ContentStorage = (*c09store)(nil)

func c09cid(k []byte) []byte {
	if len(k) > 0 && k[0] == 0xEE {
		return nil
	}
	d := sha256.Sum256(k)
	return d[:]
}

// c09storedValue: what the harness stores for a key it marks "stored": empty, one byte or 33 bytes, chosen by the key
// itself (so a replay stores the same value).  "Stored" means Get returns no error - an EMPTY value is stored too.
func c09storedValue(k []byte) []byte {
	sel := 0
	if len(k) > 1 {
		sel = int(k[1]) % 3
	}
	switch sel {
	case 0:
		return []byte{}
	case 1:
		return []byte{0x5a}
	default:
		return make([]byte, 33)
	}
}

type c09node struct {
	n     *portalwire.VerifONode
	q     chan *portalwire.ContentElement
	st    *c09store
	own   []byte
	limit int
	qcap  int
}

// radiusBits: the node radius is 2^radiusBits (255: the half of the key space that shares the top bit with the node id is in range)
func c09newNode(c *Ctx, own []byte, limit, qcap int, radiusBits uint) *c09node {
	q := make(chan *portalwire.ContentElement, qcap)
	st := &c09store{db: map[string][]byte{}, radius: new(uint256.Int).Lsh(uint256.NewInt(1), radiusBits)}
	n, err := portalwire.VerifONewNode(portalwire.VerifONodeConfig{Key: c19key(c), Versions: own, MaxUtpConn: limit, Storage: st, ContentQueue: q})
	if err != nil {
		panic(err)
	}
	n.SetContentIdFunc(c09cid)
	return &c09node{n: n, q: q, st: st, own: own, limit: limit, qcap: qcap}
}

// pool of clean receivers keyed by configuration; a node is dropped (stopped) once a case left a goroutine on it
type c09pool struct {
	c *Ctx
	m map[string]*c09node
}

func (p *c09pool) get(own []byte, limit, qcap int) *c09node {
	k := fmt.Sprintf("%x/%d/%d", own, limit, qcap)
	if n, ok := p.m[k]; ok {
		return n
	}
	n := c09newNode(p.c, own, limit, qcap, 255)
	p.m[k] = n
	p.c.Count("receiver_nodes_created")
	return n
}
func (p *c09pool) drop(own []byte, limit, qcap int) {
	k := fmt.Sprintf("%x/%d/%d", own, limit, qcap)
	if n, ok := p.m[k]; ok {
		n.n.Stop()
		delete(p.m, k)
	}
}
func (p *c09pool) stopAll() {
	for k, n := range p.m {
		n.n.Stop()
		delete(p.m, k)
	}
}

func c09bools(bs []bool) string {
	if len(bs) == 0 {
		return "-"
	}
	var sb strings.Builder
	for _, b := range bs {
		if b {
			sb.WriteByte('1')
		} else {
			sb.WriteByte('0')
		}
	}
	return sb.String()
}
func c09ints(l []int) string {
	if len(l) == 0 {
		return "."
	}
	p := make([]string, len(l))
	for i, v := range l {
		p[i] = strconv.Itoa(v)
	}
	return strings.Join(p, ",")
}

func c09bl(c *Ctx, bs []bool) {
	b := bitfield.NewBitlist(uint64(len(bs)))
	for i, v := range bs {
		if v {
			b.SetBitAt(uint64(i), true)
		}
	}
	c.Count("bl")
	c.Emit("bl %s | ok enc=%s len=%d idx=%s", c09bools(bs), hx(b), b.Len(), c09ints(b.BitIndices()))
}
func c09blraw(c *Ctx, raw []byte) {
	b := bitfield.Bitlist(raw)
	var idx []int
	if p, msg := guard(func() { idx = b.BitIndices() }); p {
		c.Emit("blraw %s | panic %s", hx(raw), msg)
		return
	}
	n := int(b.Len())
	at := make([]bool, n+3)
	for i := range at {
		at[i] = b.BitAt(uint64(i))
	}
	c.Count("blraw")
	c.Emit("blraw %s | ok len=%d idx=%s at=%s", hx(raw), n, c09ints(idx), c09bools(at))
}

// ---- the offering side's record as the receiver sees it

func c09peer(key *ecdsa.PrivateKey, pvkind string, pv []byte) *enode.Node {
	return c19record(key, pvkind, pv)
}

func c09acc(c *Ctx, probe *c09node, key *ecdsa.PrivateKey, ver int, data []byte) {
	peer := c09peer(key, "list", []byte{byte(ver)})
	var cid, keys []byte
	var klen int
	var idx []int
	var err error
	if p, msg := guard(func() { cid, keys, klen, idx, err = probe.n.ParseOfferResp(peer, data) }); p {
		c.Emit("acc %d %s | panic %s", ver, hx(data), msg)
		return
	}
	c.Count("acc")
	if err != nil {
		c.Emit("acc %d %s | err 1", ver, hx(data))
		return
	}
	c.Emit("acc %d %s | ok cid=%s body=%s klen=%d idx=%s", ver, hx(data), hx(cid), hx(keys), klen, c09ints(idx))
}

type c09key struct {
	k     []byte
	flags int
}

// c09genKeys makes n fresh keys and puts the receiver into the requested per-key state.
func c09genKeys(c *Ctx, r *c09node, n int, allowNil bool) []c09key {
	rg := c.Rng
	out := make([]c09key, 0, n)
	for i := 0; i < n; i++ {
		var k []byte
		if len(out) > 0 && rg.Intn(12) == 0 { // duplicate of an earlier key
			out = append(out, out[rg.Intn(len(out))])
			c.Count("key_duplicate")
			continue
		}
		k = rg.Bytes(6 + rg.Intn(8))
		if k[0] == 0xEE {
			k[0] = 0xED
		}
		if allowNil && rg.Intn(40) == 0 {
			k[0] = 0xEE
		}
		f := 0
		id := c09cid(k)
		if id == nil {
			f |= 8
			c.Count("key_nilid")
		} else {
			if r.n.P.InRange(id) {
				f |= 1
			}
			switch rg.Intn(6) {
			case 0:
				r.st.Put(k, id, c09storedValue(k))
				f |= 2
				c.Count("key_stored")
				c.Count(fmt.Sprintf("key_stored_len_%d", len(c09storedValue(k))))
			case 1:
				r.n.SetTransferring(k)
				f |= 4
				c.Count("key_inflight")
			case 2:
				if rg.Intn(3) == 0 {
					r.st.Put(k, id, c09storedValue(k))
					r.n.SetTransferring(k)
					f |= 6
				}
			}
		}
		if f&1 == 0 {
			c.Count("key_out_of_range")
		}
		out = append(out, c09key{k, f})
	}
	return out
}
func c09keyFields(ks []c09key) (string, string) {
	if len(ks) == 0 {
		return ".", "-"
	}
	l := make([][]byte, len(ks))
	var sb strings.Builder
	for i, k := range ks {
		l[i] = k.k
		sb.WriteString(strconv.FormatInt(int64(k.flags), 16))
	}
	return hxl(l), sb.String()
}
func c09keyList(ks []c09key) [][]byte {
	l := make([][]byte, len(ks))
	for i, k := range ks {
		l[i] = k.k
	}
	return l
}

// c09nodeFor: a receiver whose identity makes the recorded in-range bits true (in range is a fact of key AND node id; with
// radius 2^255 it is the top bit of the XOR, so every other identity fits).
func c09nodeFor(c *Ctx, own []byte, limit, qcap int, keys [][]byte, flags string) *c09node {
	for try := 0; ; try++ {
		n := c09newNode(c, own, limit, qcap, 255)
		ok := true
		for i, k := range keys {
			id := c09cid(k)
			if id == nil || i >= len(flags) {
				continue
			}
			fl, _ := strconv.ParseInt(string(flags[i]), 16, 32)
			if n.n.P.InRange(id) != (fl&1 != 0) {
				ok = false
				break
			}
		}
		if ok || try > 40 {
			return n
		}
		n.n.Stop()
	}
}

type c09given struct {
	keys     [][]byte
	flags    string
	contents [][]byte
}

// c09applyFlags puts receiver r into the per-key state a recorded flags string describes (in-range is a fact of the key).
func c09applyFlags(r *c09node, keys [][]byte, flags string) []c09key {
	ks := make([]c09key, len(keys))
	for i, k := range keys {
		var fl int64
		if i < len(flags) {
			fl, _ = strconv.ParseInt(string(flags[i]), 16, 32)
		}
		id := c09cid(k)
		nf := 0
		if id == nil {
			nf = 8
		} else {
			if r.n.P.InRange(id) {
				nf |= 1
			}
			if fl&2 != 0 {
				r.st.Put(k, id, c09storedValue(k))
				nf |= 2
			}
			if fl&4 != 0 {
				r.n.SetTransferring(k)
				nf |= 4
			}
		}
		ks[i] = c09key{k, nf}
	}
	return ks
}

// c09ho runs handleOffer on receiver r with h permits held and the queue filled to qfill.
func c09ho(c *Ctx, pool *c09pool, key *ecdsa.PrivateKey, own []byte, pvkind string, pv []byte, limit, h, qcap, qfill int, ks []c09key, setup func(r *c09node) []c09key) {
	r := pool.get(own, limit, qcap)
	if setup != nil {
		ks = setup(r)
	}
	for len(r.q) > 0 {
		<-r.q
	}
	for i := 0; i < qfill; i++ {
		r.q <- &portalwire.ContentElement{}
	}
	var held []portalwire.Permit
	for i := 0; i < h; i++ {
		p, ok := r.n.InboundPermit()
		if !ok {
			panic("c09: cannot pre-acquire permit")
		}
		held = append(held, p)
	}
	peer := c09peer(key, pvkind, pv)
	var reply []byte
	var err error
	pn, msg := guard(func() { reply, err = r.n.HandleOffer(peer, r.n.Addr(), c09keyList(ks)) })
	// free permits after the call
	free := 0
	var got []portalwire.Permit
	for {
		p, ok := r.n.InboundPermit()
		if !ok {
			break
		}
		got = append(got, p)
		free++
		if free > limit+2 {
			break
		}
	}
	for _, p := range got {
		p.Release()
	}
	for _, p := range held {
		p.Release()
	}
	taken := limit - h - free
	kf, ff := c09keyFields(ks)
	cid := 0
	if len(reply) >= 3 {
		cid = int(reply[1])<<8 | int(reply[2])
	}
	c.Count(fmt.Sprintf("ho_%s_%s", pvkind, hx(pv)))
	c.Count(fmt.Sprintf("ho_keys_%d", c09bucket(len(ks))))
	head := fmt.Sprintf("ho %s %s %s %d %d %d %d %d %s %s", hx(own), pvkind, hx(pv), limit, h, qcap, qfill, cid, kf, ff)
	switch {
	case pn:
		c.Emit("%s | panic %s", head, msg)
	case err != nil:
		c.Emit("%s | err 1", head)
	default:
		c.Emit("%s | ok reply=%s taken=%d", head, hx(reply), taken)
	}
	if taken != 0 || pn {
		pool.drop(own, limit, qcap) // a receive goroutine is pending on it: cancel it with the node
	}
}

func c09hoc(c *Ctx, r *c09node, nkeys int, room bool, payload []byte) {
	for len(r.q) > 0 {
		<-r.q
	}
	if !room {
		for i := 0; i < cap(r.q); i++ {
			r.q <- &portalwire.ContentElement{}
		}
	}
	keys := make([][]byte, nkeys)
	for i := range keys {
		keys[i] = []byte{byte(i)}
	}
	var err error
	pn, msg := guard(func() { err = r.n.HandleOfferedContents(enode.ID{9}, keys, payload) })
	head := fmt.Sprintf("hoc %d %v %s", nkeys, room, hx(payload))
	c.Count("hoc")
	switch {
	case pn:
		c.Emit("%s | panic %s", head, msg)
	case err != nil:
		c.Emit("%s | err 1", head)
	default:
		var el *portalwire.ContentElement
		if room {
			select {
			case el = <-r.q:
			default:
			}
		}
		if el == nil {
			c.Emit("%s | ok dropped", head)
		} else {
			c.Emit("%s | ok enq=%s", head, hxl(el.Contents))
		}
	}
	for len(r.q) > 0 {
		<-r.q
	}
}

func c09req(kind string, keys, contents [][]byte) *portalwire.OfferRequest {
	switch kind {
	case "transient":
		return portalwire.VerifOTransientOffer(keys, contents)
	case "trace":
		r, _ := portalwire.VerifOTraceOffer(keys[0], contents[0])
		return r
	default:
		return portalwire.VerifOPersistOffer(keys)
	}
}

// c09po: return value of processOffer for an arbitrary reply (nothing listens at the peer's address; a started transfer
// goroutine just fails to dial later, it holds a NoPermit).
func c09po(c *Ctx, o *c09node, key *ecdsa.PrivateKey, pvkind string, pv []byte, kind string, nkeys int, resp []byte) {
	peer := c09peer(key, pvkind, pv)
	keys := make([][]byte, nkeys)
	contents := make([][]byte, nkeys)
	for i := range keys {
		keys[i] = []byte{0x70, byte(i)}
		contents[i] = []byte{byte(i)}
	}
	if kind == "trace" {
		nkeys = 1
		keys, contents = [][]byte{{0x70, 0}}, [][]byte{{0}}
	}
	cnt := &c09countPermit{}
	var out []byte
	var err error
	pn, msg := guard(func() { out, err = o.n.ProcessOffer(peer, resp, c09req(kind, keys, contents), cnt) })
	head := fmt.Sprintf("po %s %s %s %s %d %s", hx(o.own), pvkind, hx(pv), kind, nkeys, hx(resp))
	c.Count("po_" + kind)
	switch {
	case pn:
		c.Emit("%s | panic %s", head, msg)
	case err != nil:
		c.Emit("%s | err 1", head)
	default:
		started := 1
		if cnt.n() > 0 {
			started = 0 // permit released synchronously: no transfer was started
		}
		c.Emit("%s | ok keys=%s started=%d", head, hx(out), started)
	}
}

type c09countPermit struct {
	mu sync.Mutex
	c  int
}

func (p *c09countPermit) Release() { p.mu.Lock(); p.c++; p.mu.Unlock() }
func (p *c09countPermit) n() int   { p.mu.Lock(); defer p.mu.Unlock(); return p.c }

// c09tamper rewrites the verdicts of an ACCEPT reply (after the receiver produced it, before the offerer sees it).
func c09tamper(mode string, ver int, reply []byte) []byte {
	if mode == "none" || len(reply) < 8 {
		return reply
	}
	out := append([]byte{}, reply...)
	body := out[7:]
	if ver == 1 {
		switch mode {
		case "acceptall":
			for i := range body {
				body[i] = 0
			}
		case "declinefirst":
			for i := range body {
				if body[i] == 0 {
					body[i] = 1
					break
				}
			}
		}
		return out
	}
	bl := bitfield.Bitlist(body)
	n := bl.Len()
	switch mode {
	case "acceptall":
		for i := uint64(0); i < n; i++ {
			bl.SetBitAt(i, true)
		}
	case "declinefirst":
		for i := uint64(0); i < n; i++ {
			if bl.BitAt(i) {
				bl.SetBitAt(i, false)
				break
			}
		}
	}
	return out
}

func c09e2e(c *Ctx, key *ecdsa.PrivateKey, ownO, ownR []byte, tamper string, nkeys int, kind string, forceStoredEmpty bool, given *c09given) {
	O := c09newNode(c, ownO, 50, 8, 255)
	var R *c09node
	if given != nil {
		R = c09nodeFor(c, ownR, 50, 8, given.keys, given.flags)
	} else {
		R = c09newNode(c, ownR, 50, 8, 255)
	}
	defer O.n.Stop()
	defer R.n.Stop()
	var ks []c09key
	if given != nil { // replay: the receiver is put into the state the recorded flags describe
		ks = c09applyFlags(R, given.keys, given.flags)
	} else {
		ks = c09genKeys(c, R, nkeys, false)
	}
	if forceStoredEmpty && given == nil { // one more key: in range, stored on the receiver with an EMPTY value (must not be accepted)
		for i := 0; i < 100000; i++ {
			k := []byte{0x52, 0, byte(i), byte(i >> 8), 0x52, 0x52}
			if id := c09cid(k); R.n.P.InRange(id) {
				R.st.Put(k, id, c09storedValue(k))
				ks = append(ks, c09key{k, 3})
				c.Count("e2e_key_stored_empty")
				break
			}
		}
	}
	keys := c09keyList(ks)
	contents := make([][]byte, len(ks))
	for i := range contents {
		contents[i] = c.Rng.Bytes(c.Rng.Pick([]int{0, 1, 5, 127, 128, 300, 2000, 20000}))
		if given != nil && i < len(given.contents) {
			contents[i] = given.contents[i]
			if kind == "persist" && len(contents[i]) > 0 {
				O.st.Put(keys[i], c09cid(keys[i]), contents[i])
			}
			continue
		}
		if kind == "persist" {
			if c.Rng.Intn(5) != 0 {
				O.st.Put(keys[i], c09cid(keys[i]), contents[i])
			} else {
				contents[i] = []byte{} // not in the offerer's store: an empty item is sent
			}
		}
	}
	// duplicates must carry the same content for a persist request (same storage slot)
	if kind == "persist" {
		for i := range keys {
			if v, err := O.st.Get(keys[i], c09cid(keys[i])); err == nil {
				contents[i] = v
			} else {
				contents[i] = []byte{}
			}
		}
	}
	kf, ff := c09keyFields(ks)
	head := fmt.Sprintf("e2e %s %s %s %s %s %s %s", hx(ownO), hx(ownR), tamper, kind, kf, ff, hxl(contents))
	c.Count("e2e_" + tamper + "_" + kind)
	// uTP packets travel as discv5 TALKREQs without response: the session the OFFER talk request would have set up
	if perr := O.n.Ping(R.n.Self()); perr != nil {
		c.Emit("%s | err 9", head)
		return
	}
	reply, err := R.n.HandleOffer(O.n.Self(), O.n.Addr(), keys)
	if err != nil {
		c.Emit("%s | err 1", head)
		return
	}
	ver, verr := O.n.HighestVersion(R.n.Self())
	if verr != nil {
		c.Emit("%s | err 2", head)
		return
	}
	sent := c09tamper(tamper, int(ver), reply)
	_, err = O.n.ProcessOffer(R.n.Self(), sent, c09req(kind, keys, contents), &portalwire.NoPermit{})
	if err != nil {
		c.Emit("%s | err 3", head)
		return
	}
	wait := 4 * time.Second
	if len(reply) >= 3 && reply[1] == 0 && reply[2] == 0 {
		wait = 300 * time.Millisecond // nobody was announced to be listening
	}
	select {
	case el := <-R.q:
		c.Emit("%s | ok reply=%s enq=%s/%s", head, hx(reply), hxl(el.ContentKeys), hxl(el.Contents))
	case <-time.After(wait):
		c.Emit("%s | ok reply=%s enq=none", head, hx(reply))
	}
}

// c09talkOffer: a real TALKREQ OFFER from node B to node R; returns the ACCEPT verdict bytes and the connection id.
func c09talkOffer(B, R *c09node, keys [][]byte) ([]byte, uint16, bool) {
	ob, err := (&portalwire.Offer{ContentKeys: keys}).MarshalSSZ()
	if err != nil {
		panic(err)
	}
	resp, err := B.n.P.DiscV5.TalkRequest(R.n.Self(), string(portalwire.History), append([]byte{portalwire.OFFER}, ob...))
	if err != nil || len(resp) < 7 || resp[0] != portalwire.ACCEPT {
		return nil, 0, false
	}
	return resp[7:], uint16(resp[1])<<8 | uint16(resp[2]), true
}

// c09inflight3: the in-flight mark of a running transfer must survive other offers that overlap with it and finish first.
func c09inflight3(c *Ctx, K, L []byte) {
	R := c09nodeFor(c, []byte{0, 1}, 50, 8, [][]byte{K, L}, "11")
	defer R.n.Stop()
	B := c09newNode(c, []byte{1}, 50, 8, 255)
	defer B.n.Stop()
	head := fmt.Sprintf("inflight3 %s %s", hx(K), hx(L))
	c.Count("inflight3")
	if B.n.Ping(R.n.Self()) != nil {
		c.Emit("%s | err 9", head)
		return
	}
	ctx, cancel := context.WithTimeout(context.Background(), 20*time.Second)
	defer cancel()
	item := func(b byte) []byte { return portalwire.VerifEncodeContents([][]byte{{b, b, b}}) }
	waitEl := func() int {
		select {
		case <-R.q:
			return 1
		case <-time.After(8 * time.Second):
			return 0
		}
	}
	o1, id1, ok1 := c09talkOffer(B, R, [][]byte{K})
	if !ok1 || id1 == 0 {
		c.Emit("%s | err 1", head)
		return
	}
	conn1, err := B.n.P.Utp.DialWithCid(ctx, R.n.Self(), id1)
	if err != nil {
		c.Emit("%s | err 2", head)
		return
	}
	time.Sleep(300 * time.Millisecond) // the first receive goroutine sits in ReadToEOF, K is marked
	o2, id2, ok2 := c09talkOffer(B, R, [][]byte{K, L})
	d2 := 0
	if ok2 && id2 != 0 {
		if conn2, err := B.n.P.Utp.DialWithCid(ctx, R.n.Self(), id2); err == nil {
			n := 0
			for _, code := range o2 {
				if code == 0 {
					n++
				}
			}
			payload := []byte{}
			for i := 0; i < n; i++ {
				payload = append(payload, item(2)...)
			}
			conn2.Write(ctx, payload)
			conn2.Close()
			d2 = waitEl()
		}
	}
	time.Sleep(300 * time.Millisecond) // the second goroutine has returned and run its deferred un-marking
	o3, _, _ := c09talkOffer(B, R, [][]byte{K})
	conn1.Write(ctx, item(1))
	conn1.Close()
	d1 := waitEl()
	time.Sleep(300 * time.Millisecond)
	o4, _, _ := c09talkOffer(B, R, [][]byte{K})
	c.Emit("%s | ok o1=%s o2=%s o3=%s o4=%s d1=%d d2=%d", head, hx(o1), hx(o2), hx(o3), hx(o4), d1, d2)
}

// c09verdict1: verdict for the single offered key of an ACCEPT body in the encoding of version ver.
func c09verdict1(ver int, body []byte) string {
	if len(body) == 0 {
		return "?"
	}
	if ver == 0 {
		if body[0]&1 == 1 {
			return "A"
		}
		return "D"
	}
	switch body[0] {
	case byte(portalwire.Accepted):
		return "A"
	case byte(portalwire.InboundTransferInProgress):
		return "P"
	}
	return "D"
}

// c09inflight2: the key a running transfer is bringing in is offered again by ANOTHER peer, all four version pairings.
func c09inflight2(c *Ctx, va, vb int, K []byte) {
	R := c09nodeFor(c, []byte{0, 1}, 50, 8, [][]byte{K}, "1")
	defer R.n.Stop()
	A := c09newNode(c, []byte{byte(va)}, 50, 8, 255)
	defer A.n.Stop()
	B := c09newNode(c, []byte{byte(vb)}, 50, 8, 255)
	defer B.n.Stop()
	head := fmt.Sprintf("inflight2 %d %d %s", va, vb, hx(K))
	c.Count(fmt.Sprintf("inflight2_%d_%d", va, vb))
	if A.n.Ping(R.n.Self()) != nil || B.n.Ping(R.n.Self()) != nil {
		c.Emit("%s | err 9", head)
		return
	}
	ctx, cancel := context.WithTimeout(context.Background(), 20*time.Second)
	defer cancel()
	payload := portalwire.VerifEncodeContents([][]byte{{7, 7, 7}})
	b1, id1, ok1 := c09talkOffer(A, R, [][]byte{K})
	if !ok1 {
		c.Emit("%s | err 1", head)
		return
	}
	o1 := c09verdict1(va, b1)
	var conn1 interface {
		Write(context.Context, []byte) (int, error)
		Close()
	}
	if o1 == "A" && id1 != 0 {
		cn, err := A.n.P.Utp.DialWithCid(ctx, R.n.Self(), id1)
		if err != nil {
			c.Emit("%s | err 2", head)
			return
		}
		conn1 = cn
		time.Sleep(300 * time.Millisecond) // the receive goroutine sits in ReadToEOF, K is marked
	}
	b2, id2, ok2 := c09talkOffer(B, R, [][]byte{K})
	o2 := "?"
	if ok2 {
		o2 = c09verdict1(vb, b2)
	}
	d1 := 0
	if conn1 != nil {
		conn1.Write(ctx, payload)
		conn1.Close()
		select {
		case <-R.q:
			d1 = 1
		case <-time.After(8 * time.Second):
		}
	}
	if o2 == "A" && id2 != 0 { // let the second transfer finish too
		if cn, err := B.n.P.Utp.DialWithCid(ctx, R.n.Self(), id2); err == nil {
			cn.Write(ctx, payload)
			cn.Close()
			select {
			case <-R.q:
			case <-time.After(8 * time.Second):
			}
		}
	}
	c.Emit("%s | ok o1=%s o2=%s d1=%d", head, o1, o2, d1)
}

// c09inflightRL: a rate-limited offer must not touch the in-flight marks of other pending transfers.
func c09inflightRL(c *Ctx, va int, K []byte) {
	R := c09nodeFor(c, []byte{0, 1}, 2, 8, [][]byte{K}, "1")
	defer R.n.Stop()
	A := c09newNode(c, []byte{byte(va)}, 50, 8, 255)
	defer A.n.Stop()
	B := c09newNode(c, []byte{0}, 50, 8, 255)
	defer B.n.Stop()
	C := c09newNode(c, []byte{1}, 50, 8, 255)
	defer C.n.Stop()
	head := fmt.Sprintf("inflightrl %d %s", va, hx(K))
	c.Count(fmt.Sprintf("inflightrl_%d", va))
	if A.n.Ping(R.n.Self()) != nil || B.n.Ping(R.n.Self()) != nil || C.n.Ping(R.n.Self()) != nil {
		c.Emit("%s | err 9", head)
		return
	}
	heldPermit, ok := R.n.InboundPermit()
	if !ok {
		c.Emit("%s | err 8", head)
		return
	}
	freed := false
	defer func() {
		if !freed {
			heldPermit.Release()
		}
	}()
	ctx, cancel := context.WithTimeout(context.Background(), 20*time.Second)
	defer cancel()
	payload := portalwire.VerifEncodeContents([][]byte{{7, 7, 7}})
	b1, id1, ok1 := c09talkOffer(A, R, [][]byte{K})
	if !ok1 {
		c.Emit("%s | err 1", head)
		return
	}
	o1 := c09verdict1(va, b1)
	if o1 != "A" || id1 == 0 {
		c.Emit("%s | ok o1=%s o2=? o3=? d1=0", head, o1)
		return
	}
	conn1, err := A.n.P.Utp.DialWithCid(ctx, R.n.Self(), id1)
	if err != nil {
		c.Emit("%s | err 2", head)
		return
	}
	time.Sleep(300 * time.Millisecond) // K is marked, both slots are taken
	b2, _, ok2 := c09talkOffer(B, R, [][]byte{K})
	o2 := "?"
	if ok2 {
		o2 = c09verdict1(0, b2)
	}
	heldPermit.Release() // a slot frees
	freed = true
	b3, id3, ok3 := c09talkOffer(C, R, [][]byte{K})
	o3 := "?"
	if ok3 {
		o3 = c09verdict1(1, b3)
	}
	conn1.Write(ctx, payload)
	conn1.Close()
	d1 := 0
	select {
	case <-R.q:
		d1 = 1
	case <-time.After(8 * time.Second):
	}
	if o3 == "A" && id3 != 0 {
		if cn, err := C.n.P.Utp.DialWithCid(ctx, R.n.Self(), id3); err == nil {
			cn.Write(ctx, payload)
			cn.Close()
		}
	}
	c.Emit("%s | ok o1=%s o2=%s o3=%s d1=%d", head, o1, o2, o3, d1)
}

// c09shared: one content list, two peers (the second request must not see what the first peer's verdicts were).
func c09shared(c *Ctx, ownR []byte, keys [][]byte, flagsA, flagsB string, contents [][]byte) {
	O := c09newNode(c, []byte{0, 1}, 50, 8, 255)
	defer O.n.Stop()
	RA := c09nodeFor(c, ownR, 50, 8, keys, flagsA)
	defer RA.n.Stop()
	RB := c09nodeFor(c, ownR, 50, 8, keys, flagsB)
	defer RB.n.Stop()
	ksA := c09applyFlags(RA, keys, flagsA)
	ksB := c09applyFlags(RB, keys, flagsB)
	_, fa := c09keyFields(ksA)
	_, fb := c09keyFields(ksB)
	head := fmt.Sprintf("shared %s %s %s %s %s", hx(ownR), hxl(keys), fa, fb, hxl(contents))
	c.Count("shared")
	if O.n.Ping(RA.n.Self()) != nil || O.n.Ping(RB.n.Self()) != nil {
		c.Emit("%s | err 9", head)
		return
	}
	// exactly what GossipAndReturnPeers does: one contentList, one TransientOfferRequest per target around it
	list := make([]*portalwire.ContentEntry, len(keys))
	for i := range keys {
		list[i] = &portalwire.ContentEntry{ContentKey: keys[i], Content: contents[i]}
	}
	reqFor := func() *portalwire.OfferRequest {
		return &portalwire.OfferRequest{Kind: portalwire.TransientOfferRequestKind, Request: &portalwire.TransientOfferRequest{Contents: list}}
	}
	run := func(R *c09node) string {
		reply, err := R.n.HandleOffer(O.n.Self(), O.n.Addr(), keys)
		if err != nil {
			return "err"
		}
		if _, err = O.n.ProcessOffer(R.n.Self(), reply, reqFor(), &portalwire.NoPermit{}); err != nil {
			return "err"
		}
		wait := 4 * time.Second
		if len(reply) >= 3 && reply[1] == 0 && reply[2] == 0 {
			wait = 300 * time.Millisecond
		}
		select {
		case el := <-R.q:
			return hxl(el.ContentKeys) + "/" + hxl(el.Contents)
		case <-time.After(wait):
			return "none"
		}
	}
	ea := run(RA)
	eb := run(RB)
	after := make([][]byte, len(list))
	for i, e := range list {
		after[i] = e.ContentKey
	}
	c.Emit("%s | ok enqA=%s enqB=%s list=%s", head, ea, eb, hxl(after))
}

// c09race: two version-1 offers of the same fresh in-range keys, back to back from one goroutine.
func c09race(c *Ctx, key *ecdsa.PrivateKey, n int) {
	R := c09newNode(c, []byte{0, 1}, 50, 8, 255)
	defer R.n.Stop()
	peer := c09peer(key, "list", []byte{1})
	keys := make([][]byte, 0, n)
	for tries := 0; len(keys) < n && tries < 10000; tries++ {
		k := append([]byte{0x33}, c.Rng.Bytes(8)...)
		if R.n.P.InRange(c09cid(k)) {
			keys = append(keys, k)
		}
	}
	r1, err1 := R.n.HandleOffer(peer, R.n.Addr(), keys)
	r2, err2 := R.n.HandleOffer(peer, R.n.Addr(), keys)
	c.Count("race")
	if err1 != nil || err2 != nil || len(r1) < 7 || len(r2) < 7 {
		c.Emit("race %d | err 1", n)
		return
	}
	c.Emit("race %d | ok first=%s second=%s", n, hx(r1[7:]), hx(r2[7:]))
}

func c09replay(c *Ctx, lines []string) {
	key := c19key(c)
	pool := &c09pool{c: c, m: map[string]*c09node{}}
	defer pool.stopAll()
	atoi := func(s string) int { v, _ := strconv.Atoi(s); return v }
	for _, ln := range lines {
		f := strings.Fields(strings.SplitN(ln, "|", 2)[0])
		if len(f) < 2 {
			continue
		}
		switch f[0] {
		case "bl":
			bs := []bool{}
			if f[1] != "-" {
				for _, ch := range f[1] {
					bs = append(bs, ch == '1')
				}
			}
			c09bl(c, bs)
		case "blraw":
			c09blraw(c, unhx(f[1]))
		case "acc":
			c09acc(c, pool.get([]byte{0, 1}, 4, 4), key, atoi(f[1]), unhx(f[2]))
		case "hoc":
			c09hoc(c, pool.get([]byte{0, 1}, 4, 4), atoi(f[1]), f[2] == "true", unhx(f[3]))
		case "po":
			c09po(c, pool.get(unhx(f[1]), 4, 4), key, f[2], unhx(f[3]), f[4], atoi(f[5]), unhx(f[6]))
		case "ho":
			// a receiver whose identity fits the recorded in-range bits, put into the state the flags describe
			keys := unhxl(f[9])
			flags := f[10]
			own, limit, qcap := unhx(f[1]), atoi(f[4]), atoi(f[6])
			pool.drop(own, limit, qcap)
			pool.m[fmt.Sprintf("%x/%d/%d", own, limit, qcap)] = c09nodeFor(c, own, limit, qcap, keys, flags)
			c09ho(c, pool, key, own, f[2], unhx(f[3]), limit, atoi(f[5]), qcap, atoi(f[7]), nil, func(r *c09node) []c09key {
				return c09applyFlags(r, keys, flags)
			})
		case "e2e":
			c09e2e(c, key, unhx(f[1]), unhx(f[2]), f[3], len(unhxl(f[5])), f[4], false, &c09given{unhxl(f[5]), f[6], unhxl(f[7])})
		case "inflight3":
			c09inflight3(c, unhx(f[1]), unhx(f[2]))
		case "inflight2":
			c09inflight2(c, atoi(f[1]), atoi(f[2]), unhx(f[3]))
		case "inflightrl":
			c09inflightRL(c, atoi(f[1]), unhx(f[2]))
		case "shared":
			c09shared(c, unhx(f[1]), unhxl(f[2]), f[3], f[4], unhxl(f[5]))
		case "race":
			c09race(c, key, atoi(f[1]))
		}
	}
}

func c09bucket(n int) int {
	b := 0
	for n > 0 {
		n >>= 1
		b++
	}
	return b
}

func runC09(c *Ctx) {
	if len(c.Args) >= 2 && c.Args[0] == "replay" {
		c09replay(c, readReplayCases(c.Args[1]))
		return
	}
	n := c.N
	if n == 0 {
		n = 700
		if c.Tier == "thorough" {
			n = 12000
		}
	}
	rg := c.Rng
	key := c19key(c)
	pool := &c09pool{c: c, m: map[string]*c09node{}}
	defer pool.stopAll()

	// ---- bitlist library, every length 0..72 once, then random
	for l := 0; l <= 72; l++ {
		bs := make([]bool, l)
		for i := range bs {
			bs[i] = rg.Intn(3) == 0
		}
		c09bl(c, bs)
	}
	for _, s := range []string{"-", "00", "01", "02", "80", "ff", "0100", "ff01", "ff00", "0001", "ffff", "000000", "010203", "ffffffffffffffff01", "ffffffffffffffff02", "ffffffffffffffffff", "00000000000000000001"} {
		c09blraw(c, unhx(s))
		for v := 0; v <= 1; v++ {
			c09acc(c, pool.get([]byte{0, 1}, 4, 4), key, v, append([]byte{0x12, 0x34, 6, 0, 0, 0}, unhx(s)...))
		}
	}
	// the design-phase witness: version-0 offer of two fresh keys to a node without a free inbound slot
	witness := func(r *c09node) []c09key {
		var out []c09key
		for i := 0; len(out) < 2; i++ {
			if i > 10000 {
				panic("c09: no in-range witness key found")
			}
			k := []byte(fmt.Sprintf("c09-witness-key-%d", i))
			if r.n.P.InRange(c09cid(k)) {
				if _, err := r.st.Get(k, c09cid(k)); err != nil && !r.n.IsTransferring(k) {
					out = append(out, c09key{k, 1})
				}
			}
		}
		return out
	}
	c09ho(c, pool, key, []byte{0, 1}, "list", []byte{0}, 0, 0, 4, 0, nil, witness)
	c09ho(c, pool, key, []byte{0, 1}, "list", []byte{0, 1}, 0, 0, 4, 0, nil, witness)
	c09ho(c, pool, key, []byte{0, 1}, "list", []byte{0}, 1, 1, 4, 0, nil, witness)

	storedEdge := func(r *c09node) []c09key {
		var out []c09key
		for i := 0; len(out) < 3; i++ {
			if i > 100000 {
				panic("c09: no in-range key found")
			}
			k := []byte{0x51, byte(len(out)), byte(i), byte(i >> 8), 0x51, 0x51} // k[1] = 0,1,2: empty, 1-byte, 33-byte value
			id := c09cid(k)
			if !r.n.P.InRange(id) {
				continue
			}
			r.st.Put(k, id, c09storedValue(k))
			c.Count(fmt.Sprintf("key_stored_len_%d", len(c09storedValue(k))))
			out = append(out, c09key{k, 3})
		}
		return out
	}
	for _, pv := range [][]byte{{0}, {0, 1}} {
		c09ho(c, pool, key, []byte{0, 1}, "list", pv, 2, 0, 4, 0, nil, storedEdge)
	}

	pvs := []struct {
		kind string
		pv   []byte
	}{{"list", []byte{0}}, {"list", []byte{1}}, {"list", []byte{0, 1}}, {"list", []byte{0}}, {"list", []byte{1, 0}}, {"missing", nil}, {"list", []byte{2}}, {"list", []byte{5}}, {"malformed", []byte{0}}}
	for i := 0; i < n; i++ {
		switch k := rg.Intn(20); {
		case k < 9: // handleOffer
			own := []byte{0, 1}
			if rg.Intn(8) == 0 {
				own = []byte{0, 1, 2}
			}
			pv := pvs[rg.Intn(len(pvs))]
			limit := rg.Pick([]int{0, 1, 1, 2, 3})
			h := rg.Intn(limit + 1)
			if rg.Intn(3) == 0 {
				h = limit
			}
			qcap := rg.Pick([]int{0, 1, 4})
			qfill := rg.Intn(qcap + 1)
			nk := rg.Pick([]int{0, 1, 1, 2, 3, 5, 7, 8, 9, 15, 16, 17, 33, 63, 64})
			if rg.Intn(30) == 0 {
				nk = 65 + rg.Intn(6)
			}
			c09ho(c, pool, key, own, pv.kind, pv.pv, limit, h, qcap, qfill, nil, func(r *c09node) []c09key {
				return c09genKeys(c, r, nk, true)
			})
		case k < 11: // stream -> queue
			r := pool.get([]byte{0, 1}, 4, 4)
			cnt := rg.Intn(6)
			items := make([][]byte, cnt)
			for j := range items {
				items[j] = rg.Bytes(rg.Pick([]int{0, 1, 2, 127, 128, 300}))
			}
			payload := portalwire.VerifEncodeContents(items)
			nk := cnt
			switch rg.Intn(6) {
			case 0:
				nk = cnt + 1
			case 1:
				if cnt > 0 {
					nk = cnt - 1
				}
			case 2:
				if len(payload) > 0 {
					payload = payload[:rg.Intn(len(payload))]
				}
			case 3:
				payload = append(payload, rg.Bytes(1+rg.Intn(3))...)
			}
			c09hoc(c, r, nk, rg.Intn(4) != 0, payload)
		case k < 13: // ACCEPT codec on arbitrary bytes
			var data []byte
			switch rg.Intn(4) {
			case 0:
				data = rg.Bytes(rg.Intn(12))
			default:
				body := rg.Bytes(rg.Pick([]int{0, 1, 2, 8, 9, 10, 64, 65}))
				if rg.Bool() && len(body) > 0 {
					body[len(body)-1] = byte(rg.Pick([]int{0, 1, 2, 3, 128, 255}))
				}
				off := []byte{6, 0, 0, 0}
				if rg.Intn(6) == 0 {
					off = []byte{byte(rg.Intn(12)), 0, 0, byte(rg.Intn(2))}
				}
				data = append(append(rg.Bytes(2), off...), body...)
			}
			c09acc(c, pool.get([]byte{0, 1}, 4, 4), key, rg.Intn(2), data)
			if rg.Bool() {
				c09blraw(c, rg.Bytes(rg.Intn(11)))
			}
		case k < 19: // processOffer on arbitrary / plausible replies
			o := pool.get([]byte{0, 1}, 4, 4)
			pv := pvs[rg.Intn(len(pvs))]
			kind := []string{"transient", "transient", "persist", "trace"}[rg.Intn(4)]
			nk := rg.Pick([]int{0, 1, 2, 3, 8, 9, 64})
			var resp []byte
			switch rg.Intn(8) {
			case 0:
				resp = []byte{}
			case 1:
				resp = rg.Bytes(1 + rg.Intn(10))
			default:
				bits := nk
				if rg.Intn(4) == 0 {
					bits = nk + rg.Intn(3) - 1
					if bits < 0 {
						bits = 0
					}
				}
				var body []byte
				if rg.Bool() { // bitlist body
					bl := bitfield.NewBitlist(uint64(bits))
					for j := 0; j < bits; j++ {
						if rg.Intn(3) == 0 {
							bl.SetBitAt(uint64(j), true)
						}
					}
					body = bl
				} else {
					body = make([]byte, bits)
					for j := range body {
						body[j] = byte(rg.Pick([]int{0, 0, 1, 2, 3, 4, 5, 6, 9}))
					}
				}
				code := byte(portalwire.ACCEPT)
				if rg.Intn(12) == 0 {
					code = byte(rg.Intn(9))
				}
				resp = append([]byte{code, byte(rg.Intn(256)), byte(rg.Intn(256)), 6, 0, 0, 0}, body...)
			}
			c09po(c, o, key, pv.kind, pv.pv, kind, nk, resp)
		default:
			bs := make([]bool, rg.Intn(80))
			for j := range bs {
				bs[j] = rg.Bool()
			}
			c09bl(c, bs)
		}
	}
	pool.stopAll()

	// ---- end to end over real uTP
	ne := 14
	if c.Tier == "thorough" {
		ne = 150
	}
	owns := [][]byte{{0}, {1}, {0, 1}}
	for i := 0; i < ne; i++ {
		ownO, ownR := owns[rg.Intn(3)], owns[rg.Intn(3)]
		if len(ownO) == 1 && len(ownR) == 1 && ownO[0] != ownR[0] {
			ownR = []byte{0, 1}
		}
		tamper := []string{"none", "none", "none", "acceptall", "declinefirst"}[rg.Intn(5)]
		kind := []string{"transient", "transient", "persist"}[rg.Intn(3)]
		if i < 2 { // one live transfer per version with a stored-empty key among fresh ones
			ownO, ownR, tamper = [][]byte{{0}, {0, 1}}[i], []byte{0, 1}, "none"
		}
		c09e2e(c, key, ownO, ownR, tamper, rg.Pick([]int{1, 2, 3, 5, 9, 17}), kind, i < 2, nil)
	}
	for i := 0; i < 6; i++ {
		c09race(c, key, 1+rg.Intn(3))
	}
	for _, vv := range [][2]int{{0, 1}, {0, 0}, {1, 0}, {1, 1}} {
		c09inflight2(c, vv[0], vv[1], append([]byte{0x63}, rg.Bytes(7)...))
	}
	// one gossip batch, two peers: A declines a key that sits before an accepted one, B accepts everything
	for i, ownR := range [][]byte{{0, 1}, {0}} {
		nk := 3 + i
		keys := make([][]byte, 0, nk)
		for len(keys) < nk { // all keys in range of one receiver: same top bit of the content id
			k := append([]byte{0x65}, rg.Bytes(7)...)
			if len(keys) == 0 || c09cid(k)[0]&0x80 == c09cid(keys[0])[0]&0x80 {
				keys = append(keys, k)
			}
		}
		contents := make([][]byte, nk)
		for j := range contents {
			contents[j] = append([]byte{byte(0xc0 + j)}, rg.Bytes(rg.Pick([]int{1, 5, 200}))...)
		}
		fa := []byte(strings.Repeat("1", nk))
		fa[0] = '3' // stored on A: declined there, and it sits before accepted ones
		if nk > 3 {
			fa[2] = '3'
		}
		c09shared(c, ownR, keys, string(fa), strings.Repeat("1", nk), contents)
	}
	for va := 0; va <= 1; va++ {
		c09inflightRL(c, va, append([]byte{0x64}, rg.Bytes(7)...))
	}
	nin := 2
	if c.Tier == "thorough" {
		nin = 12
	}
	for i := 0; i < nin; i++ {
		// both keys in range of one receiver: with radius 2^255 that means the same top bit of the content id
		K := append([]byte{0x61}, rg.Bytes(7)...)
		L := append([]byte{0x62}, rg.Bytes(7)...)
		for c09cid(L)[0]&0x80 != c09cid(K)[0]&0x80 {
			L = append([]byte{0x62}, rg.Bytes(7)...)
		}
		c09inflight3(c, K, L)
	}
}
