//go:build c19 || c09 || all

package main

import (
	"crypto/ecdsa"

	"github.com/ethereum/go-ethereum/crypto"
	"github.com/ethereum/go-ethereum/p2p/enode"
	"github.com/ethereum/go-ethereum/p2p/enr"
)

// helpers shared by the C19 and C09 harnesses: deterministic keys and signed node records with a chosen "pv" entry

func c19key(c *Ctx) *ecdsa.PrivateKey {
	for {
		k, err := crypto.ToECDSA(c.Rng.Bytes(32))
		if err == nil {
			return k
		}
	}
}

// c19record builds a signed node record whose "pv" entry is absent, a byte string, or something that does not decode.
func c19record(key *ecdsa.PrivateKey, kind string, vs []byte) *enode.Node {
	return c19recordSeq(key, kind, vs, 0)
}

// c19recordSeq: the same with a chosen sequence number (an older and a newer record of one identity).
func c19recordSeq(key *ecdsa.PrivateKey, kind string, vs []byte, seq uint64) *enode.Node {
	var r enr.Record
	r.SetSeq(seq)
	r.Set(enr.IP{127, 0, 0, 1})
	r.Set(enr.UDP(30303))
	switch kind {
	case "list":
		r.Set(enr.WithEntry("pv", append([]byte{}, vs...)))
	case "malformed": // an RLP list instead of a byte string
		l := make([]uint16, len(vs))
		for i, v := range vs {
			l[i] = uint16(v)
		}
		r.Set(enr.WithEntry("pv", l))
	case "missing":
	}
	if err := enode.SignV4(&r, key); err != nil {
		panic(err)
	}
	n, err := enode.New(enode.ValidSchemes, &r)
	if err != nil {
		panic(err)
	}
	return n
}
