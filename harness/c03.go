//go:build c03 || all

package main

import (
	"bytes"
	"crypto/sha256"
	"encoding/binary"
	"encoding/json"
	"errors"
	"fmt"
	"math/big"
	"os"
	"path/filepath"
	"sort"
	"strconv"
	"strings"
	"sync"
	"time"

	"github.com/ethereum/go-ethereum/core/types"
	"github.com/ethereum/go-ethereum/rlp"
	"github.com/protolambda/zrnt/eth2/beacon/capella"
	"github.com/protolambda/zrnt/eth2/configs"
	"github.com/protolambda/ztyp/codec"
	"github.com/zen-eth/shisui/history"
	thistory "github.com/zen-eth/shisui/types/history"
	"github.com/zen-eth/shisui/validation"
)

// C03: header proofs in all four eras.  One line per call of the REAL HeaderValidator:
//
//	validate <consts> <src> <hdr> <number> <hdrhash> <proofhex> <epochs> <roots> <summaries> <oracle> <truth> | ok / err <class> / panic <msg>
//
//	consts     merge,shanghai,cancun,epochSize,capellaForkEpoch,slotsPerEpoch as compiled (the driver checks them against K_header.v)
//	src        custom  = validator built by the hook over exactly the accumulators on the line
//	           default = the validator of the public constructors (embedded mainnet accumulators); the line then carries their
//	                     lengths and the one entry the call addresses
//	hdr        syn:<extrahex> synthetic types.Header{Number, Difficulty:1, Extra} -> ValidateHeaderAndProof
//	           rlp:<hex>      a real header -> ValidateHeaderWithProof
//	           era:<1|2|3>    only the hash is known (mainnet vectors) -> hook VerifValidateHashAndProof (same arm of the dispatch)
//	accumulators are sparse:  <length>:<index>=<hex>/<index>=<hex>   (all other entries are 32 zero bytes)
//	oracle     nil | err | sparse list of block summary roots the oracle returns
//	truth      what the generator knows: honest / corrupt-<node> / wronghash / wrongpos-.. / wrongslot-.. / wrongera-.. / size-.. / oor-.. / random / vector / witness
//
//	embedded <nepochs> <nroots> | ok        lengths of the embedded accumulators (hypothesis of the never-panic theorem)
var c03errs = []struct {
	frag string
	cls  int
}{{"incorrect size", 1}, {"proof length should be 32*n", 2}, {"merkle validation error", 3}, {"merkle proof validation failed", 3},
	{"execution block proof error", 4}, {"oracle is nil", 5}, {"historical summary index out of bounds", 6},
	{"historical root index out of bounds", 7}, {"verif oracle error", 8}, {"invalid proof length", 20}}

func init() { registry["C03"] = runC03 }

var c03zero = make([]byte, 32)

// ---------------------------------------------------------------- sparse accumulators
type sparse struct {
	n   uint64
	ent map[uint64][]byte
}

func newSparse(n uint64) sparse { return sparse{n: n, ent: map[uint64][]byte{}} }
func (s sparse) with(i uint64, v []byte) sparse {
	s.ent[i] = v
	return s
}
func (s sparse) String() string {
	keys := make([]uint64, 0, len(s.ent))
	for k := range s.ent {
		keys = append(keys, k)
	}
	sort.Slice(keys, func(i, j int) bool { return keys[i] < keys[j] })
	parts := make([]string, 0, len(keys))
	for _, k := range keys {
		parts = append(parts, fmt.Sprintf("%d=%s", k, hx(s.ent[k])))
	}
	return fmt.Sprintf("%d:%s", s.n, strings.Join(parts, "/"))
}
func parseSparse(str string) sparse {
	p := strings.SplitN(str, ":", 2)
	n, _ := strconv.ParseUint(p[0], 10, 64)
	s := newSparse(n)
	if len(p) == 2 && p[1] != "" {
		for _, e := range strings.Split(p[1], "/") {
			kv := strings.SplitN(e, "=", 2)
			k, _ := strconv.ParseUint(kv[0], 10, 64)
			s.ent[k] = unhx(kv[1])
		}
	}
	return s
}
func (s sparse) full() [][]byte {
	out := make([][]byte, s.n)
	for i := range out {
		out[i] = c03zero
	}
	for k, v := range s.ent {
		if k < s.n {
			out[k] = v
		}
	}
	return out
}

// ---------------------------------------------------------------- oracle stub
type c03oracle struct {
	fail bool
	sums []capella.HistoricalSummary
	// overlapping calls: while armed, the FIRST lookup announces itself and waits for the gate
	mu      sync.Mutex
	armed   bool
	calls   int
	entered chan struct{}
	gate    chan struct{}
}

func (o *c03oracle) arm() {
	o.mu.Lock()
	o.armed, o.calls, o.entered, o.gate = true, 0, make(chan struct{}), make(chan struct{})
	o.mu.Unlock()
}
func (o *c03oracle) release() {
	o.mu.Lock()
	if o.armed {
		o.armed = false
		close(o.gate)
	}
	o.mu.Unlock()
}

func (o *c03oracle) GetHistoricalSummaries(epoch uint64) (capella.HistoricalSummaries, error) {
	o.mu.Lock()
	var wait chan struct{}
	if o.armed {
		o.calls++
		if o.calls == 1 {
			close(o.entered)
			wait = o.gate
		}
	}
	fail, sums := o.fail, o.sums
	o.mu.Unlock()
	if wait != nil {
		select {
		case <-wait:
		case <-time.After(10 * time.Second): // never hang the run
		}
	}
	if fail {
		return nil, errors.New("verif oracle error")
	}
	return capella.HistoricalSummaries(sums), nil
}
func (o *c03oracle) GetBlockHeaderByHash(hash []byte) (*types.Header, error) {
	return nil, errors.New("verif oracle error")
}
func (o *c03oracle) GetFinalizedStateRoot() ([]byte, error) {
	return nil, errors.New("verif oracle error")
}

func c03summaries(l [][]byte) []capella.HistoricalSummary {
	out := make([]capella.HistoricalSummary, len(l))
	for i, b := range l {
		copy(out[i].BlockSummaryRoot[:], b)
	}
	return out
}

// ---------------------------------------------------------------- Merkle helpers (crypto/sha256: the harness's own ground truth)
func c03fold(leaf []byte, sibs [][]byte, index uint64) []byte {
	v := leaf
	for i, s := range sibs {
		var h [32]byte
		if (index>>uint(i))&1 == 1 {
			h = sha256.Sum256(append(append([]byte{}, s...), v...))
		} else {
			h = sha256.Sum256(append(append([]byte{}, v...), s...))
		}
		v = h[:]
	}
	return v
}
func c03sibs(r *Rng, n int) [][]byte {
	out := make([][]byte, n)
	for i := range out {
		switch r.Intn(8) {
		case 0:
			out[i] = make([]byte, 32) // zero subtree hashes are common in real proofs
		default:
			out[i] = r.Bytes(32)
		}
	}
	return out
}
func c03cat(l [][]byte) []byte {
	var b []byte
	for _, x := range l {
		b = append(b, x...)
	}
	return b
}

var c03consts = validation.VerifConstantsHeader()

func c03constField() string {
	k := c03consts
	return fmt.Sprintf("%d,%d,%d,%d,%d,%d", k["MergeBlockNumber"], k["ShanghaiBlockNumber"], k["CancunNumber"], k["epochSize"], k["capellaForkEpoch"], k["slotsPerEpoch"])
}
func c03capellaStart() uint64 { return c03consts["capellaForkEpoch"] * c03consts["slotsPerEpoch"] }
func c03eraOf(number uint64) int {
	switch {
	case number < c03consts["MergeBlockNumber"]:
		return 0
	case number < c03consts["ShanghaiBlockNumber"]:
		return 1
	case number < c03consts["CancunNumber"]:
		return 2
	}
	return 3
}
func c03eraFirst(era int) uint64 {
	return []uint64{0, c03consts["MergeBlockNumber"], c03consts["ShanghaiBlockNumber"], c03consts["CancunNumber"]}[era]
}

// shape of the proof container of an era: beacon siblings, execution siblings, execution gindex, beacon depth/gindex base
func c03shape(era int) (nb, ne int, gexec uint64) {
	switch era {
	case 1:
		return 14, 11, 3228
	case 2:
		return 13, 11, 3228
	}
	return 13, 12, 6444
}

// pre-merge proof for `hash` at record number%8192: returns proof bytes and the epoch root
func c03preMerge(r *Rng, number uint64, hash []byte, nsibs int) (proof []byte, root []byte) {
	sibs := c03sibs(r, nsibs)
	index := 4*uint64(8192) + 2*(number%8192)
	return c03cat(sibs), c03fold(hash, sibs, index)
}

// post-merge proof in the FORMAT of `era` for `hash` at `slot`: proof bytes and the accumulator entry it verifies against
func c03postMerge(r *Rng, era int, hash []byte, slot uint64) (proof []byte, acc []byte) {
	nb, ne, gexec := c03shape(era)
	exec := c03sibs(r, ne)
	broot := c03fold(hash, exec, gexec)
	beacon := c03sibs(r, nb)
	var gen uint64
	if era == 1 {
		gen = 2*8192 + slot%8192
	} else {
		gen = 8192 + slot%8192
	}
	acc = c03fold(broot, beacon, gen)
	proof = append(proof, c03cat(beacon)...)
	proof = append(proof, broot...)
	proof = append(proof, c03cat(exec)...)
	var sl [8]byte
	binary.LittleEndian.PutUint64(sl[:], slot)
	proof = append(proof, sl[:]...)
	return
}

func c03header(number uint64, extra []byte) *types.Header {
	return &types.Header{Number: new(big.Int).SetUint64(number), Difficulty: big.NewInt(1), Extra: extra}
}

func c03headerD(number uint64, diff []byte, extra []byte) *types.Header {
	return &types.Header{Number: new(big.Int).SetUint64(number), Difficulty: new(big.Int).SetBytes(diff), Extra: extra}
}

// ---------------------------------------------------------------- one case
type c03case struct {
	src                 string
	hdr                 string
	number              uint64
	hash, proof         []byte
	epochs, roots, sums sparse
	oracle              string
	truth               string
}

var c03testSummaries []capella.HistoricalSummary

func c03repo() string {
	if p := os.Getenv("VERIF_REPO"); p != "" {
		return p
	}
	return "/repo"
}
func c03loadSummaries() []capella.HistoricalSummary {
	if c03testSummaries != nil {
		return c03testSummaries
	}
	content, err := os.ReadFile(filepath.Join(c03repo(), "validation/testdata/beacon_data/historical_summaries_at_slot_11476992.ssz"))
	if err != nil {
		panic(err)
	}
	s := new(capella.HistoricalSummaries)
	if err := s.Deserialize(configs.Mainnet, codec.NewDecodingReader(bytes.NewReader(content), uint64(len(content)))); err != nil {
		panic(err)
	}
	c03testSummaries = []capella.HistoricalSummary(*s)
	return c03testSummaries
}

func c03exec(c *Ctx, k c03case) {
	var v validation.HeaderValidator
	if k.src == "default" {
		if k.sums.n > 0 {
			v = validation.NewHeaderValidatorWithHistorySummaries(c03loadSummaries())
		} else {
			v = validation.NewHeaderValidatorWithOracle(nil)
		}
	} else {
		var oracle validation.Oracle
		switch k.oracle {
		case "nil":
		case "err":
			oracle = &c03oracle{fail: true}
		default:
			oracle = &c03oracle{sums: c03summaries(parseSparse(k.oracle).full())}
		}
		rf := k.roots.full()
		roots := make([][32]byte, len(rf))
		for i := range rf {
			copy(roots[i][:], rf[i])
		}
		v = validation.VerifNewHeaderValidator(k.epochs.full(), roots, c03summaries(k.sums.full()), oracle)
	}
	var err error
	call := func() {
		switch {
		case strings.HasPrefix(k.hdr, "syn:"):
			err = v.ValidateHeaderAndProof(c03header(k.number, unhx(k.hdr[4:])), k.proof)
		case strings.HasPrefix(k.hdr, "synd:"):
			f := strings.SplitN(k.hdr[5:], ":", 2)
			err = v.ValidateHeaderAndProof(c03headerD(k.number, unhx(f[0]), unhx(f[1])), k.proof)
		case strings.HasPrefix(k.hdr, "rlp:"):
			err = v.ValidateHeaderWithProof(&thistory.BlockHeaderWithProof{Header: unhx(k.hdr[4:]), Proof: k.proof})
		case strings.HasPrefix(k.hdr, "era:"):
			era, _ := strconv.Atoi(k.hdr[4:])
			err = v.VerifValidateHashAndProof(era, k.hash, k.proof)
		default:
			panic("bad hdr field")
		}
	}
	obs := "ok"
	if p, msg := guard(call); p {
		obs = "panic " + msg
	} else if err != nil {
		obs = fmt.Sprintf("err %d", classify(err, c03errs))
	}
	c.Count("era_" + strconv.Itoa(c03eraOf(k.number)))
	c.Count("result_" + strings.Fields(obs)[0])
	t := k.truth
	if i := strings.IndexAny(t, "-"); i > 0 {
		t = t[:i]
	}
	c.Count("truth_" + t)
	c.Emit("validate %s %s %s %d %s %s %s %s %s %s %s | %s", c03constField(), k.src, k.hdr, k.number, hx(k.hash), hx(k.proof),
		k.epochs, k.roots, k.sums, k.oracle, k.truth, obs)
}

func c03parse(f []string) (c03case, bool) {
	if len(f) < 12 || f[0] != "validate" {
		return c03case{}, false
	}
	n, _ := strconv.ParseUint(f[4], 10, 64)
	return c03case{src: f[2], hdr: f[3], number: n, hash: unhx(f[5]), proof: unhx(f[6]), epochs: parseSparse(f[7]),
		roots: parseSparse(f[8]), sums: parseSparse(f[9]), oracle: f[10], truth: f[11]}, true
}

func c03embedded(c *Ctx) {
	e, r, _ := validation.NewHeaderValidatorWithOracle(nil).VerifAccumulators()
	c.Emit("embedded %d %d %s | ok", len(e), len(r), c03constField())
}

func c03replay(c *Ctx, lines []string) {
	for _, ln := range lines {
		f := strings.Fields(strings.SplitN(ln, "|", 2)[0])
		if len(f) > 0 && f[0] == "embedded" {
			c03embedded(c)
			continue
		}
		if len(f) >= 7 && f[0] == "sequence" {
			c03sequence(c, f[2], parseSparse(f[3]), parseSparse(f[4]), parseSparse(f[5]), c03parseSeq(f[6]))
			continue
		}
		if len(f) >= 6 && f[0] == "history" {
			c03history(c, f[2], f[3], unhxl(f[4]), c03parseEvents(f[5]))
			continue
		}
		if len(f) >= 5 && f[0] == "proverseq" {
			c03proverSeq(c, c03parseChain(f[2]), c03parseChain(f[3]), f[4])
			continue
		}
		if len(f) >= 4 && f[0] == "prover" {
			c03prover(c, c03parseChain(f[2]), c03parseIdx(f[3]), false)
			continue
		}
		if len(f) >= 4 && f[0] == "bhwp" {
			c03bhwp(c, c03parseChain(f[2]), c03parseIdx(f[3])[0])
			continue
		}
		if k, ok := c03parse(f); ok {
			c03exec(c, k)
		}
	}
}

// ---------------------------------------------------------------- the prover: history.Accumulator + history.BuildProof
//
//	prover <consts> <chain> <i1,i2,..> | ok <epoch roots> <proof_i1,proof_i2,..>  /  err
//	bhwp   <consts> <chain> <i>        | ok <header rlp> <proof>  /  err <class>          (history.BuildHeaderWithProof)
//
//	chain = hash:difficultyhex:extrahex per header, comma separated; header j is types.Header{Number: j, Difficulty, Extra}
//	The master accumulator is built by the REAL NewAccumulator/Update/Finish, the records handed to BuildProof are the ones
//	the accumulator held for that epoch (hook VerifCurrentEpochRecords, taken when the epoch is full resp. after Finish),
//	and every built proof is then validated by the REAL HeaderValidator over the roots the builder produced (validate lines,
//	truth honest-partial-epoch / honest-full-epoch).
type c03hdr struct {
	diff, extra []byte
}

func c03chainField(ch []c03hdr) string {
	p := make([]string, len(ch))
	for j, h := range ch {
		p[j] = hx(c03headerD(uint64(j), h.diff, h.extra).Hash().Bytes()) + ":" + hx(h.diff) + ":" + hx(h.extra)
	}
	if len(p) == 0 {
		return "."
	}
	return strings.Join(p, ",")
}
func c03parseChain(s string) []c03hdr {
	if s == "." {
		return nil
	}
	var ch []c03hdr
	for _, e := range strings.Split(s, ",") {
		f := strings.Split(e, ":")
		ch = append(ch, c03hdr{diff: unhx(f[1]), extra: unhx(f[2])})
	}
	return ch
}
func c03parseIdx(s string) []int {
	var out []int
	for _, e := range strings.Split(s, ",") {
		v, _ := strconv.Atoi(e)
		out = append(out, v)
	}
	return out
}

// c03buildChain feeds the chain to the real accumulator; returns the epoch roots and, per epoch, the records it held
func c03buildChain(ch []c03hdr) (roots [][]byte, epochRecords [][][]byte, err error) {
	acc := history.NewAccumulator()
	for j, h := range ch {
		if j > 0 && j%8192 == 0 {
			epochRecords = append(epochRecords, acc.VerifCurrentEpochRecords())
		}
		if err = acc.Update(*c03headerD(uint64(j), h.diff, h.extra)); err != nil {
			return
		}
	}
	master, err := acc.Finish()
	if err != nil {
		return
	}
	epochRecords = append(epochRecords, acc.VerifCurrentEpochRecords())
	return master.HistoricalEpochs, epochRecords, nil
}

func c03prover(c *Ctx, ch []c03hdr, idx []int, alsoValidate bool) {
	is := make([]string, len(idx))
	for j, i := range idx {
		is[j] = strconv.Itoa(i)
	}
	head := fmt.Sprintf("prover %s %s %s", c03constField(), c03chainField(ch), strings.Join(is, ","))
	var roots [][]byte
	var proofs [][]byte
	var err error
	p, msg := guard(func() {
		var recs [][][]byte
		roots, recs, err = c03buildChain(ch)
		if err != nil {
			return
		}
		for _, i := range idx {
			h := c03headerD(uint64(i), ch[i].diff, ch[i].extra)
			var pr history.AccumulatorProof
			pr, err = history.BuildProof(*h, history.EpochAccumulator{HeaderRecords: recs[i/8192]})
			if err != nil {
				return
			}
			proofs = append(proofs, c03cat(pr))
		}
	})
	c.Count("prover_chain")
	switch {
	case p:
		c.Emit("%s | panic %s", head, msg)
		return
	case err != nil:
		c.Emit("%s | err 99", head)
		return
	}
	c.Emit("%s | ok %s %s", head, hxl(roots), hxl(proofs))
	if !alsoValidate {
		return
	}
	// the verifier over the roots the builder produced
	ep := newSparse(uint64(len(roots)))
	for j, r := range roots {
		ep.ent[uint64(j)] = r
	}
	for j, i := range idx {
		truth := "honest-partial-epoch"
		if (i/8192+1)*8192 <= len(ch) {
			truth = "honest-full-epoch"
		}
		h := c03headerD(uint64(i), ch[i].diff, ch[i].extra)
		c03exec(c, c03case{src: "custom", hdr: "synd:" + hx(ch[i].diff) + ":" + hx(ch[i].extra), number: uint64(i), hash: h.Hash().Bytes(),
			proof: proofs[j], epochs: ep, roots: newSparse(0), sums: newSparse(0), oracle: "nil", truth: truth})
	}
}

// back-to-back provers in ONE process: accumulator A first, then accumulator B; every record of B is proven and verified.
//
//	proverseq <consts> <chainA> <chainB> <mode> | ok <roots of B> <proof of B[0],..,proof of B[n-1]> <verdict,..>
//
//	mode  plain = prove one record of A, then all of B
//	      alias = additionally every proof slice BuildProof returned for B is overwritten in place, then all of B is proven again
//	              (the second round is what is reported)
//	The specification has no memory: roots, proofs and verdicts of B are those of B alone (model builder/prover; every verdict ok
//	by C03_built_proof_verifies).
func c03proverSeq(c *Ctx, chA, chB []c03hdr, mode string) {
	head := fmt.Sprintf("proverseq %s %s %s %s", c03constField(), c03chainField(chA), c03chainField(chB), mode)
	var rootsB [][]byte
	var proofs [][]byte
	var verdicts []string
	var err error
	p, msg := guard(func() {
		var recsA, recsB [][][]byte
		if _, recsA, err = c03buildChain(chA); err != nil {
			return
		}
		for _, i := range []int{0, len(chA) - 1} {
			if _, err = history.BuildProof(*c03headerD(uint64(i), chA[i].diff, chA[i].extra), history.EpochAccumulator{HeaderRecords: recsA[i/8192]}); err != nil {
				return
			}
		}
		if rootsB, recsB, err = c03buildChain(chB); err != nil {
			return
		}
		rounds := 1
		if mode == "alias" {
			rounds = 2
		}
		for round := 0; round < rounds; round++ {
			proofs = nil
			for i := range chB {
				var pr history.AccumulatorProof
				pr, err = history.BuildProof(*c03headerD(uint64(i), chB[i].diff, chB[i].extra), history.EpochAccumulator{HeaderRecords: recsB[i/8192]})
				if err != nil {
					return
				}
				proofs = append(proofs, c03cat(pr))
				if mode == "alias" && round == 0 {
					for _, sib := range pr {
						for b := range sib {
							sib[b] = 0xff // the caller owns what it was given
						}
					}
				}
			}
		}
		r32 := [][32]byte{}
		v := validation.VerifNewHeaderValidator(rootsB, r32, nil, nil)
		for i := range chB {
			if e := v.ValidateHeaderAndProof(c03headerD(uint64(i), chB[i].diff, chB[i].extra), proofs[i]); e != nil {
				verdicts = append(verdicts, "e")
			} else {
				verdicts = append(verdicts, "ok")
			}
		}
	})
	c.Count("proverseq")
	switch {
	case p:
		c.Emit("%s | panic %s", head, msg)
	case err != nil:
		c.Emit("%s | err 99", head)
	default:
		c.Emit("%s | ok %s %s %s", head, hxl(rootsB), hxl(proofs), strings.Join(verdicts, ","))
	}
}

func (g c03gen) proverSeqs() {
	// a chain and its own extension: both zero padded, same record 0, same (zero) record 8191
	a := g.chain(2)
	b := append(append([]c03hdr{}, a...), g.chain(2)...)
	c03proverSeq(g.c, a, b, "plain")
	// the same length with one header in the middle replaced; returned slices scribbled on between two rounds
	a2 := g.chain(3)
	b2 := append([]c03hdr{}, a2...)
	b2[1] = g.chain(1)[0]
	c03proverSeq(g.c, a2, b2, "alias")
}

// history.BuildHeaderWithProof, and its output through ValidateHeaderWithProof
func c03bhwp(c *Ctx, ch []c03hdr, i int) {
	head := fmt.Sprintf("bhwp %s %s %d", c03constField(), c03chainField(ch), i)
	var hwp *history.BlockHeaderWithProof
	var roots [][]byte
	var err error
	p, msg := guard(func() {
		var recs [][][]byte
		roots, recs, err = c03buildChain(ch)
		if err != nil {
			return
		}
		hwp, err = history.BuildHeaderWithProof(*c03headerD(uint64(i), ch[i].diff, ch[i].extra), history.EpochAccumulator{HeaderRecords: recs[i/8192]})
	})
	c.Count("bhwp")
	switch {
	case p:
		c.Emit("%s | panic %s", head, msg)
	case err != nil:
		c.Emit("%s | err %s", head, strings.ReplaceAll(err.Error(), " ", "_"))
	default:
		c.Emit("%s | ok %s %s", head, hx(hwp.Header), hx(hwp.Proof))
		ep := newSparse(uint64(len(roots)))
		for j, r := range roots {
			ep.ent[uint64(j)] = r
		}
		h := c03headerD(uint64(i), ch[i].diff, ch[i].extra)
		c03exec(c, c03case{src: "custom", hdr: "rlp:" + hx(hwp.Header), number: uint64(i), hash: h.Hash().Bytes(), proof: hwp.Proof,
			epochs: ep, roots: newSparse(0), sums: newSparse(0), oracle: "nil", truth: "honest-header-with-proof"})
	}
}

func (g c03gen) chain(n int) []c03hdr {
	ch := make([]c03hdr, n)
	for j := range ch {
		var d []byte
		switch g.r.Intn(4) {
		case 0:
			d = []byte{byte(1 + g.r.Intn(255))}
		case 1:
			d = g.r.Bytes(1 + g.r.Intn(25)) // up to 200 bits: the per-epoch sum stays below 2^256
		default:
			d = g.r.Bytes(1 + g.r.Intn(8))
		}
		if d[0] == 0 {
			d[0] = 1
		}
		ch[j] = c03hdr{diff: d, extra: g.r.Bytes(1 + g.r.Intn(6))}
	}
	return ch
}

// ---------------------------------------------------------------- histories on ONE validator (the summaries cache is state)
//
//	history <consts> <oraclemode> <k0> <true summaries> <events> | ok <verdict_1,..,verdict_n> <cache_1/../cache_n>
//
//	oraclemode  nil (the validator has no oracle) | scripted (the oracle answers what the event says)
//	k0          the provider's cache starts as the first k0 true summaries
//	events      ';' separated, each  number~hdr~hash~proofhex~oracle~truth ; oracle = err | <m> (the first m true summaries: the
//	            oracle's list only ever grows, every answer is a prefix of the eventual list)
//	            an optional 7th field ~<tag>: consecutive events with the same tag are run as OVERLAPPING calls (one oracle answer)
//	verdict     ok | e | p        cache_i = indices (into the true list) of the provider's cache after call i, '.' separated ('-' empty, '?' unknown)
type c03event struct {
	number      uint64
	hdr         string
	hash, proof []byte
	oracle      string
	truth       string
	par         string // events with the same non-empty tag that follow each other are run as OVERLAPPING calls
}

func c03eventsField(evs []c03event) string {
	p := make([]string, len(evs))
	for i, e := range evs {
		p[i] = fmt.Sprintf("%d~%s~%s~%s~%s~%s", e.number, e.hdr, hx(e.hash), hx(e.proof), e.oracle, e.truth)
		if e.par != "" {
			p[i] += "~" + e.par
		}
	}
	return strings.Join(p, ";")
}
func c03parseEvents(s string) []c03event {
	var evs []c03event
	for _, e := range strings.Split(s, ";") {
		f := strings.Split(e, "~")
		n, _ := strconv.ParseUint(f[0], 10, 64)
		ev := c03event{number: n, hdr: f[1], hash: unhx(f[2]), proof: unhx(f[3]), oracle: f[4], truth: f[5]}
		if len(f) > 6 {
			ev.par = f[6]
		}
		evs = append(evs, ev)
	}
	return evs
}

func c03history(c *Ctx, mode string, k0s string, truthList [][]byte, evs []c03event) {
	k0, _ := strconv.Atoi(k0s)
	orc := &c03oracle{}
	var oracle validation.Oracle
	if mode == "scripted" {
		oracle = orc
	}
	v := validation.VerifNewHeaderValidator(nil, nil, c03summaries(truthList[:k0]), oracle)
	index := map[string]int{}
	for i, t := range truthList {
		index[string(t)] = i
	}
	var verdicts, caches []string
	verdictOf := func(e c03event) string {
		var err error
		p, _ := guard(func() { err = v.ValidateHeaderAndProof(c03header(e.number, unhx(e.hdr[4:])), e.proof) })
		switch {
		case p:
			return "p"
		case err != nil:
			return "e"
		}
		return "ok"
	}
	cacheStr := func() string {
		_, _, cache := v.VerifAccumulators()
		ids := make([]string, len(cache))
		for i, r := range cache {
			if j, ok := index[string(r)]; ok {
				ids[i] = strconv.Itoa(j)
			} else {
				ids[i] = "?"
			}
		}
		if len(ids) == 0 {
			return "-"
		}
		return strings.Join(ids, ".")
	}
	for i := 0; i < len(evs); {
		e := evs[i]
		if e.oracle == "err" {
			orc.fail, orc.sums = true, nil
		} else {
			m, _ := strconv.Atoi(e.oracle)
			orc.fail, orc.sums = false, c03summaries(truthList[:m])
		}
		j := i + 1
		for e.par != "" && j < len(evs) && evs[j].par == e.par {
			j++
		}
		if j-i < 2 || mode != "scripted" {
			verdicts = append(verdicts, verdictOf(e))
			caches = append(caches, cacheStr())
			c.Count("history_step")
			i++
			continue
		}
		// OVERLAPPING calls i..j-1 (one oracle answer for the group): call i is held inside the oracle lookup until every other
		// call of the group has either finished or has had 150 ms to get as far as it can without the first one returning.
		// On the code as it is today the others make their own lookup and finish at once, so nothing ever waits.
		res := make([]string, j-i)
		fin := make([]chan struct{}, j-i)
		orc.arm()
		for k := range res {
			fin[k] = make(chan struct{})
			go func(k int) {
				res[k] = verdictOf(evs[i+k])
				close(fin[k])
			}(k)
			if k == 0 {
				select {
				case <-orc.entered:
				case <-fin[0]: // the first call never reached the oracle (cache hit, earlier rejection)
				case <-time.After(5 * time.Second):
				}
			} else {
				select {
				case <-fin[k]:
				case <-time.After(150 * time.Millisecond):
				}
			}
		}
		orc.release()
		for k := range res {
			select {
			case <-fin[k]:
			case <-time.After(20 * time.Second):
				res[k] = "p"
			}
		}
		cs := cacheStr()
		for k := range res {
			verdicts = append(verdicts, res[k])
			caches = append(caches, cs)
			c.Count("history_step_overlapping")
		}
		i = j
	}
	c.Count("history")
	c.Emit("history %s %s %d %s %s | ok %s %s", c03constField(), mode, k0, hxl(truthList), c03eventsField(evs), strings.Join(verdicts, ","), strings.Join(caches, "/"))
}

// ---------------------------------------------------------------- sequences on ONE validator, all four eras, fixed accumulators
//
//	sequence <consts> <src> <epochs> <roots> <summaries> <events> | ok <verdict_1,..,verdict_n>
//
//	src     custom = hook-built validator (public constructor, accumulators replaced) over exactly the accumulators on the line
//	        public = validation.NewHeaderValidatorWithHistorySummaries(<summaries>) : embedded mainnet epoch/root accumulators
//	                 (the line carries their lengths and the entries the events address), caller-supplied summaries, no oracle
//	events  ';' separated, each number~hdr~hash~proofhex~truth ; hdr = syn:/synd:/rlp: as in validate lines
//	Whatever a validator remembers between calls, the verdict of every call must be the one of a fresh validator
//	(validate_step: no state before Shanghai, only the summaries cache after).
func c03seqField(evs []c03event) string {
	p := make([]string, len(evs))
	for i, e := range evs {
		p[i] = fmt.Sprintf("%d~%s~%s~%s~%s", e.number, e.hdr, hx(e.hash), hx(e.proof), e.truth)
	}
	return strings.Join(p, ";")
}
func c03parseSeq(s string) []c03event {
	var evs []c03event
	for _, e := range strings.Split(s, ";") {
		f := strings.Split(e, "~")
		n, _ := strconv.ParseUint(f[0], 10, 64)
		evs = append(evs, c03event{number: n, hdr: f[1], hash: unhx(f[2]), proof: unhx(f[3]), truth: f[4]})
	}
	return evs
}

func c03sequence(c *Ctx, src string, epochs, roots, sums sparse, evs []c03event) {
	var v validation.HeaderValidator
	if src == "public" {
		v = validation.NewHeaderValidatorWithHistorySummaries(c03summaries(sums.full()))
	} else {
		rf := roots.full()
		r32 := make([][32]byte, len(rf))
		for i := range rf {
			copy(r32[i][:], rf[i])
		}
		v = validation.VerifNewHeaderValidator(epochs.full(), r32, c03summaries(sums.full()), nil)
	}
	var verdicts []string
	for _, e := range evs {
		var err error
		p, _ := guard(func() {
			switch {
			case strings.HasPrefix(e.hdr, "syn:"):
				err = v.ValidateHeaderAndProof(c03header(e.number, unhx(e.hdr[4:])), e.proof)
			case strings.HasPrefix(e.hdr, "rlp:"):
				err = v.ValidateHeaderWithProof(&thistory.BlockHeaderWithProof{Header: unhx(e.hdr[4:]), Proof: e.proof})
			default:
				panic("bad hdr field")
			}
		})
		switch {
		case p:
			verdicts = append(verdicts, "p")
		case err != nil:
			verdicts = append(verdicts, "e")
		default:
			verdicts = append(verdicts, "ok")
		}
		c.Count("sequence_step")
		c.Count("sequence_step_era_" + strconv.Itoa(c03eraOf(e.number)))
	}
	c.Count("sequence")
	c.Emit("sequence %s %s %s %s %s %s | ok %s", c03constField(), src, epochs, roots, sums, c03seqField(evs), strings.Join(verdicts, ","))
}

// honest(h); corrupted(h); wrong-slot(h) resp. the proof of h' for h; garbage(h) twice; honest(h'); corrupted(h')
func (g c03gen) seqEvents(h, h2 c03case) []c03event {
	ev := func(k c03case, proof []byte, truth string) c03event {
		return c03event{number: k.number, hdr: k.hdr, hash: k.hash, proof: proof, truth: truth}
	}
	flip := func(p []byte) []byte {
		m := append([]byte{}, p...)
		m[g.r.Intn(len(m)-8)] ^= byte(1 << g.r.Intn(8))
		return m
	}
	evs := []c03event{ev(h, h.proof, "honest"), ev(h, flip(h.proof), "corrupt")}
	if c03eraOf(h.number) == 0 {
		evs = append(evs, ev(h, h2.proof, "otherproof"))
	} else {
		m := append([]byte{}, h.proof...)
		slot := binary.LittleEndian.Uint64(m[len(m)-8:])
		binary.LittleEndian.PutUint64(m[len(m)-8:], slot+8192)
		evs = append(evs, ev(h, m, "wrongslot-next-period"))
		m2 := append([]byte{}, h.proof...)
		m2[32*map[int]int{1: 14, 2: 13, 3: 13}[c03eraOf(h.number)]+g.r.Intn(32)] ^= 0x20
		evs = append(evs, ev(h, m2, "corrupt-root"))
	}
	evs = append(evs, ev(h, g.r.Bytes(len(h.proof)), "garbage"), ev(h, g.r.Bytes(3), "garbage-3-bytes"),
		ev(h2, h2.proof, "honest"), ev(h2, flip(h2.proof), "corrupt"))
	return evs
}

func (g c03gen) sequences() {
	c := g.c
	nEp := c03consts["PreMergeEpochs"]
	// pre-merge, synthetic accumulator (two epochs)
	{
		h := g.preMerge(g.randNumber(0), nEp, 15, "honest")
		h2 := g.preMerge(g.randNumber(0), nEp, 15, "honest")
		ep := newSparse(nEp).with(h.number/8192, h.epochs.ent[h.number/8192])
		if h2.number/8192 == h.number/8192 {
			h2 = g.preMerge(h.number^8192, nEp, 15, "honest")
		}
		ep.ent[h2.number/8192] = h2.epochs.ent[h2.number/8192]
		c03sequence(c, "custom", ep, newSparse(0), newSparse(0), g.seqEvents(h, h2))
	}
	// pre-merge, the public constructor's validator on two of the repository's mainnet vectors
	{
		def := validation.NewHeaderValidatorWithOracle(nil)
		epochs, roots, _ := def.VerifAccumulators()
		raw, err := os.ReadFile(filepath.Join(c03repo(), "validation/testdata/header_with_proofs.json"))
		if err != nil {
			panic(err)
		}
		m := map[string]map[string]string{}
		if err := json.Unmarshal(raw, &m); err != nil {
			panic(err)
		}
		keys := make([]string, 0, len(m))
		for k := range m {
			keys = append(keys, k)
		}
		sort.Strings(keys)
		ep := newSparse(uint64(len(epochs)))
		var two []c03case
		for _, i := range []int{g.r.Intn(len(keys) / 2), len(keys)/2 + g.r.Intn(len(keys)-len(keys)/2)} {
			hwp, err := thistory.DecodeBlockHeaderWithProof(unhx(strings.TrimPrefix(m[keys[i]]["value"], "0x")))
			if err != nil {
				panic(err)
			}
			hd := new(types.Header)
			if err := rlp.DecodeBytes(hwp.Header, hd); err != nil {
				panic(err)
			}
			n := hd.Number.Uint64()
			ep.ent[n/8192] = epochs[n/8192]
			two = append(two, c03case{hdr: "rlp:" + hx(hwp.Header), number: n, hash: hd.Hash().Bytes(), proof: hwp.Proof})
		}
		c03sequence(c, "public", ep, newSparse(uint64(len(roots))), newSparse(0), g.seqEvents(two[0], two[1]))
	}
	// Merge .. Shanghai, synthetic historical roots
	{
		h := g.postMerge(g.randNumber(1), 1, c03slot(1, 700, g.r.U64()%8192), 758, "nil", "honest")
		h2 := g.postMerge(g.randNumber(1), 1, c03slot(1, 600, g.r.U64()%8192), 758, "nil", "honest")
		ro := newSparse(758).with(700, h.roots.ent[700]).with(600, h2.roots.ent[600])
		c03sequence(c, "custom", newSparse(0), ro, newSparse(0), g.seqEvents(h, h2))
	}
	// Shanghai .. Cancun and Cancun onwards: the public constructor with caller-supplied summaries
	for _, era := range []int{2, 3} {
		h := g.postMerge(g.randNumber(era), era, c03slot(era, 1, g.r.U64()%8192), 4, "nil", "honest")
		h2 := g.postMerge(g.randNumber(5-era), 5-era, c03slot(5-era, 3, g.r.U64()%8192), 4, "nil", "honest")
		su := newSparse(4).with(1, h.sums.ent[1]).with(3, h2.sums.ent[3])
		def := validation.NewHeaderValidatorWithOracle(nil)
		epochs, roots, _ := def.VerifAccumulators()
		c03sequence(c, "public", newSparse(uint64(len(epochs))), newSparse(uint64(len(roots))), su, g.seqEvents(h, h2))
	}
}

// one honest (header, proof) per summary period; the true summaries list is made of the roots these proofs fold to
type c03period struct {
	number      uint64
	hdr         string
	hash, proof []byte
	slot        uint64
}

func (g c03gen) periods(n int) (ps []c03period, truthList [][]byte) { return g.periodsAt(n, -1) }

// rec >= 0: every period's honest proof sits at the same in-period position (slots congruent mod 8192)
func (g c03gen) periodsAt(n int, rec int) (ps []c03period, truthList [][]byte) {
	for j := 0; j < n; j++ {
		era := 2 + g.r.Intn(2)
		r := g.r.U64() % 8192
		if rec >= 0 {
			r = uint64(rec)
		}
		k := g.postMerge(g.randNumber(era), era, c03slot(era, uint64(j), r), uint64(j+1), "nil", "honest")
		ps = append(ps, c03period{number: k.number, hdr: k.hdr, hash: k.hash, proof: k.proof, slot: binary.LittleEndian.Uint64(k.proof[len(k.proof)-8:])})
		truthList = append(truthList, k.sums.ent[uint64(j)])
	}
	return
}

// event for period j: honest, or the honest proof of period j re-claimed `back` periods earlier, or with one node corrupted
func (g c03gen) event(ps []c03period, j int, back int, corrupt bool, oracle string, available bool) c03event {
	p := ps[j]
	e := c03event{number: p.number, hdr: p.hdr, hash: p.hash, proof: append([]byte{}, p.proof...), oracle: oracle, truth: "honest"}
	switch {
	case back != 0:
		binary.LittleEndian.PutUint64(e.proof[len(e.proof)-8:], p.slot-uint64(back)*8192)
		e.truth = fmt.Sprintf("wrongslot-period-%d-as-%d", j, j-back)
	case corrupt:
		e.proof[g.r.Intn(len(e.proof)-8)] ^= 0x04
		e.truth = "corrupt"
	case !available:
		e.truth = "unknown-period" // honest, but neither the cache nor the oracle knows the summary yet
	}
	return e
}

func (g c03gen) histories(nRandom int) {
	c := g.c
	str := strconv.Itoa
	{
		// the list grows 3 -> 6 -> 8; requests skip periods, go back, repeat; re-claims across the skipped gap
		ps, tl := g.periods(8)
		evs := []c03event{
			g.event(ps, 1, 0, false, str(3), true),  // cache: 3
			g.event(ps, 2, 0, false, str(3), true),  // hit
			g.event(ps, 4, 0, false, str(3), false), // not known yet
			g.event(ps, 5, 0, false, str(6), true),  // skips periods 3 and 4
			g.event(ps, 3, 0, false, str(6), true),  // back into the gap
			g.event(ps, 5, 2, false, str(6), true),  // period 5 claimed as period 3
			g.event(ps, 4, 0, false, "err", true),   // cached by now: the failing oracle is not asked
			g.event(ps, 7, 0, false, str(8), true),
		}
		c03history(c, "scripted", "0", tl, evs)
	}
	{
		// a pre-filled cache, an oracle that first fails; one big jump; re-claims by exactly the jump width
		ps, tl := g.periods(8)
		evs := []c03event{
			g.event(ps, 0, 0, false, "err", true),
			g.event(ps, 3, 0, false, "err", false),
			g.event(ps, 7, 0, false, str(8), true), // cache 2 -> 8, gap of 5
			g.event(ps, 2, 0, false, str(8), true),
			g.event(ps, 7, 5, false, str(8), true), // period 7 claimed as period 2
			g.event(ps, 6, 0, true, str(8), true),
			g.event(ps, 7, 0, false, str(8), true), // repeat
		}
		c03history(c, "scripted", "2", tl, evs)
	}
	{
		// no oracle at all: only the initial cache
		ps, tl := g.periods(4)
		evs := []c03event{g.event(ps, 2, 0, false, "0", true), g.event(ps, 3, 0, false, "0", false), g.event(ps, 3, 1, false, "0", true), g.event(ps, 0, 0, false, "0", true)}
		c03history(c, "nil", "3", tl, evs)
	}
	{
		// OVERLAPPING calls on a cold cache, all proofs at the same in-period position (what the oracle is asked for is slot % 8192)
		ps, tl := g.periodsAt(7, g.r.Intn(8192))
		par := func(e c03event, tag string) c03event { e.par = tag; return e }
		evs := []c03event{
			// the genuine proof of period 1 and the same proof re-claimed one period later, offered together
			par(g.event(ps, 1, 0, false, str(3), true), "a"), par(g.event(ps, 1, -1, false, str(3), true), "a"),
			// two honest proofs of neighbouring periods; one beyond what the oracle knows
			par(g.event(ps, 4, 0, false, str(6), true), "b"), par(g.event(ps, 5, 0, false, str(6), true), "b"), par(g.event(ps, 6, 0, false, str(6), false), "b"),
			g.event(ps, 3, 0, false, "err", true), // served from the cache afterwards
		}
		c03history(c, "scripted", "0", tl, evs)
		// the first call is out of range, the second honest and in range; then a re-claim beyond the list next to the genuine proof
		evs = []c03event{
			par(g.event(ps, 5, 0, false, str(3), false), "a"), par(g.event(ps, 2, 0, false, str(3), true), "a"),
			par(g.event(ps, 0, 0, false, str(3), true), "b"), par(g.event(ps, 0, -6, false, str(3), true), "b"),
		}
		c03history(c, "scripted", "0", tl, evs)
	}
	for h := 0; h < nRandom; h++ {
		n := 4 + g.r.Intn(5)
		ps, tl := g.periods(n)
		k0 := g.r.Intn(3)
		known, m := k0, k0
		var evs []c03event
		for i, cnt := 0, 3+g.r.Intn(6); i < cnt; i++ {
			if g.r.Intn(2) == 0 && m < n {
				m += 1 + g.r.Intn(n-m)
			}
			oracle := str(m)
			if g.r.Intn(6) == 0 {
				oracle = "err"
			}
			j := g.r.Intn(n)
			avail := j < known || (oracle != "err" && j < m)
			back, corrupt := 0, false
			switch g.r.Intn(4) {
			case 0:
				if j > 0 {
					back = 1 + g.r.Intn(j)
				}
			case 1:
				corrupt = g.r.Intn(2) == 0
			}
			evs = append(evs, g.event(ps, j, back, corrupt, oracle, avail))
			// the cache is replaced when the oracle had to be asked and knew the requested index
			req := j - back
			if req >= known && oracle != "err" && req < m {
				known = m
			}
		}
		c03history(c, "scripted", str(k0), tl, evs)
	}
}

// chains with a partial last epoch (and, in thorough, full epochs before it)
func (g c03gen) prover(lengths []int) {
	for _, n := range lengths {
		ch := g.chain(n)
		set := map[int]bool{0: true, n - 1: true}
		if g.c.Tier == "thorough" {
			set[g.r.Intn(n)] = true
		}
		if n > 8192 {
			set[8191] = true
			set[8192] = true
		}
		var idx []int
		for i := range set {
			idx = append(idx, i)
		}
		sort.Ints(idx)
		if n > 4000 {
			idx = []int{n - 1} // every proof costs the model a pass over the epoch (about a minute for a full one)
		}
		g.c.Count(fmt.Sprintf("prover_chain_len_%d", n))
		c03prover(g.c, ch, idx, true)
	}
}

// ---------------------------------------------------------------- generators
type c03gen struct {
	c *Ctx
	r *Rng
}

func (g c03gen) synth(number uint64) (hdr string, hash []byte) {
	extra := g.r.Bytes(1 + g.r.Intn(8))
	return "syn:" + hx(extra), c03header(number, extra).Hash().Bytes()
}

// honest pre-merge case (custom accumulators of length nEpochs)
func (g c03gen) preMerge(number uint64, nEpochs uint64, nsibs int, truth string) c03case {
	hdr, hash := g.synth(number)
	proof, root := c03preMerge(g.r, number, hash, nsibs)
	return c03case{src: "custom", hdr: hdr, number: number, hash: hash, proof: proof,
		epochs: newSparse(nEpochs).with(number/8192, root), roots: newSparse(0), sums: newSparse(0), oracle: "nil", truth: truth}
}

// honest post-merge case: header `number`, proof in the format of `fmtEra` for `slot`; accumulator of length accLen
func (g c03gen) postMerge(number uint64, fmtEra int, slot uint64, accLen uint64, oracle string, truth string) c03case {
	hdr, hash := g.synth(number)
	proof, acc := c03postMerge(g.r, fmtEra, hash, slot)
	k := c03case{src: "custom", hdr: hdr, number: number, hash: hash, proof: proof,
		epochs: newSparse(0), roots: newSparse(0), sums: newSparse(0), oracle: oracle, truth: truth}
	if fmtEra == 1 {
		k.roots = newSparse(accLen).with(slot/8192, acc)
	} else {
		idx := (slot - c03capellaStart()) / 8192
		if oracle != "nil" && oracle != "err" {
			// the summary lives in the oracle's answer, the cache is shorter
			n := parseSparse(oracle).n
			k.oracle = newSparse(n).with(idx, acc).String()
			k.sums = newSparse(accLen)
		} else {
			k.sums = newSparse(accLen).with(idx, acc)
		}
	}
	return k
}

func (g c03gen) randNumber(era int) uint64 {
	lo := c03eraFirst(era)
	var hi uint64
	if era < 3 {
		hi = c03eraFirst(era + 1)
	} else {
		hi = lo + 5000000
	}
	return lo + g.r.U64()%(hi-lo)
}

// slot inside accumulator entry idx of the era's accumulator, at record rec
func c03slot(era int, idx uint64, rec uint64) uint64 {
	if era == 1 {
		return idx*8192 + rec
	}
	return c03capellaStart() + idx*8192 + rec
}

func (g c03gen) boundaries() {
	c := g.c
	merge, shanghai, cancun := c03consts["MergeBlockNumber"], c03consts["ShanghaiBlockNumber"], c03consts["CancunNumber"]
	nEp := c03consts["PreMergeEpochs"]
	// pre-merge: first/last record of an epoch, first/last block of the era
	for _, n := range []uint64{0, 1, 8191, 8192, 16383, (nEp - 1) * 8192, merge - 1, g.randNumber(0)} {
		c03exec(c, g.preMerge(n, nEp, 15, "honest"))
	}
	// epoch index beyond a caller-supplied accumulator (outside what the embedded accumulator guarantees): panics today
	c03exec(c, g.preMerge(merge-1, nEp-1, 15, "oor-epochs"))
	c03exec(c, g.preMerge(8192, 1, 15, "oor-epochs"))
	c03exec(c, g.preMerge(5, 0, 15, "oor-epochs"))
	// 11..16 siblings for a pre-merge header (only 15 can verify)
	for _, ns := range []int{0, 1, 11, 12, 13, 14, 16} {
		c03exec(c, g.preMerge(g.randNumber(0), nEp, ns, fmt.Sprintf("size-premerge-%d", ns)))
	}
	// Bellatrix: first/last block of the era, slots first/last of a period, first/last accumulator entry, beyond it
	cap0 := c03capellaStart()
	for _, t := range []struct {
		n, slot, acc uint64
		truth        string
	}{
		{merge, 0, 758, "honest"}, {merge, 8191, 758, "honest"}, {shanghai - 1, 757*8192 + 8191, 758, "honest"},
		{g.randNumber(1), 573 * 8192, 758, "honest"}, {g.randNumber(1), cap0 - 1, 758, "honest"},
		{g.randNumber(1), 4700013, 758, "honest"}, {g.randNumber(1), 8192*3 + 17, 4, "honest"},
		{g.randNumber(1), cap0, 758, "oor-roots"}, {g.randNumber(1), 758*8192 + 8191, 758, "oor-roots"},
		{g.randNumber(1), 8192 * 4, 4, "oor-roots"}, {merge, 0, 0, "oor-roots"}, {g.randNumber(1), 1 << 40, 758, "oor-roots"},
		{shanghai - 1, ^uint64(0), 758, "oor-roots"}, {g.randNumber(1), 1 << 63, 758, "oor-roots"},
	} {
		c03exec(c, g.postMerge(t.n, 1, t.slot, t.acc, "nil", t.truth))
	}
	// Capella / Deneb: first/last block of the era, Capella boundary slot, first/last summary, beyond, underflow
	for _, era := range []int{2, 3} {
		first := c03eraFirst(era)
		last := cancun - 1
		if era == 3 {
			last = ^uint64(0)
		}
		for _, t := range []struct {
			n, slot, acc uint64
			oracle       string
			truth        string
		}{
			{first, cap0, 1, "nil", "honest"}, {first, cap0 + 8191, 1, "nil", "honest"}, {last, cap0 + 8192, 2, "nil", "honest"},
			{g.randNumber(era), c03slot(era, 642, 8191), 643, "nil", "honest"}, {g.randNumber(era), c03slot(era, 300, g.r.U64()%8192), 643, "err", "honest"},
			{g.randNumber(era), c03slot(era, 643, 0), 643, "nil", "oor-summaries"}, {g.randNumber(era), c03slot(era, 643, 0), 643, "err", "oor-summaries"},
			{g.randNumber(era), c03slot(era, 1, 5), 1, "nil", "oor-summaries"}, {g.randNumber(era), cap0, 0, "nil", "oor-summaries"},
			{g.randNumber(era), cap0 - 1, 643, "nil", "oor-summaries"}, {g.randNumber(era), 0, 643, "nil", "oor-summaries"},
			{g.randNumber(era), cap0 - 8192, 643, "nil", "oor-summaries"}, {g.randNumber(era), ^uint64(0), 643, "nil", "oor-summaries"},
			// the oracle supplies a longer list that contains the summary / still does not
			{g.randNumber(era), c03slot(era, 5, 77), 3, "9:", "honest"}, {g.randNumber(era), c03slot(era, 8, 8191), 0, "9:", "honest"},
			{g.randNumber(era), c03slot(era, 9, 0), 3, "9:", "oor-summaries"}, {g.randNumber(era), cap0 - 1, 3, "9:", "oor-summaries"},
		} {
			c03exec(c, g.postMerge(t.n, era, t.slot, t.acc, t.oracle, t.truth))
		}
	}
}

// every single-node corruption of an honest proof, a header with another hash, neighbouring positions
func (g c03gen) sweep(k c03case, stride int) {
	c := g.c
	c03exec(c, k)
	era := c03eraOf(k.number)
	name := func(off int) string {
		if era == 0 {
			return fmt.Sprintf("corrupt-s%d", off/32)
		}
		nb, ne, _ := c03shape(era)
		ch := off / 32
		switch {
		case ch < nb:
			return fmt.Sprintf("corrupt-b%d", ch)
		case ch == nb:
			return "corrupt-root"
		case ch < nb+1+ne:
			return fmt.Sprintf("corrupt-e%d", ch-nb-1)
		}
		return fmt.Sprintf("corrupt-slot%d", off-32*(nb+1+ne))
	}
	for off := 0; off < len(k.proof); {
		// one bit in each 32-byte node; each byte of the slot
		pos := off
		step := 1
		if off+32 <= len(k.proof) && (era == 0 || off < len(k.proof)-8) {
			pos = off + g.r.Intn(32)
			step = 32
		}
		if stride <= 1 || g.r.Intn(stride) == 0 || step == 1 {
			m := k
			m.proof = append([]byte{}, k.proof...)
			m.proof[pos] ^= byte(1 << g.r.Intn(8))
			m.truth = name(off)
			c03exec(c, m)
		}
		off += step
	}
	// same position, another header
	m := k
	m.hdr, m.hash = g.synth(k.number)
	m.truth = "wronghash"
	c03exec(c, m)
	// neighbouring block numbers (pre-merge: the number fixes the position)
	if era == 0 {
		for _, d := range []uint64{1, 8192} {
			if k.number+d < c03consts["MergeBlockNumber"] {
				m := k
				m.number = k.number + d
				m.hash = c03header(m.number, unhx(k.hdr[4:])).Hash().Bytes()
				m.truth = fmt.Sprintf("wrongpos-%d", d)
				c03exec(c, m)
			}
		}
	}
}

// a proof built honestly for the submitted header, but in the format and against the accumulator of another era
func (g c03gen) wrongEra() {
	c := g.c
	cap0 := c03capellaStart()
	for hdrEra := 0; hdrEra <= 3; hdrEra++ {
		for fmtEra := 0; fmtEra <= 3; fmtEra++ {
			if hdrEra == fmtEra {
				continue
			}
			number := g.randNumber(hdrEra)
			truth := fmt.Sprintf("wrongera-%d-as-%d", fmtEra, hdrEra)
			if fmtEra == 0 {
				k := g.preMerge(number, 1897, 15, truth)
				// give the post-merge accumulators something non-trivial too
				k.roots, k.sums = newSparse(758), newSparse(643)
				k.epochs = newSparse(3000).with(number/8192, k.epochs.ent[number/8192])
				c03exec(c, k)
				continue
			}
			var slot uint64
			if fmtEra == 1 {
				slot = c03slot(1, 600+uint64(g.r.Intn(100)), g.r.U64()%8192)
			} else {
				slot = cap0 + uint64(g.r.Intn(600))*8192 + g.r.U64()%8192
			}
			k := g.postMerge(number, fmtEra, slot, 758, "nil", truth)
			// the same entry in every accumulator the submitted era could look at
			var acc []byte
			if fmtEra == 1 {
				acc = k.roots.ent[slot/8192]
			} else {
				acc = k.sums.ent[(slot-cap0)/8192]
			}
			k.roots = newSparse(1500).with(slot/8192, acc)
			k.sums = newSparse(1500).with((slot-cap0)/8192, acc)
			if hdrEra == 0 {
				k.epochs = newSparse(1897).with(number/8192, acc)
			}
			c03exec(c, k)
		}
	}
}

// an honest proof whose slot field is replaced by another slot: whole periods away (same record index, so the beacon branch
// still folds to the same value - only the accumulator lookup can tell), across the Capella start (uint64 wrap of the summary
// index) and across the end of the accumulator.  Nothing but the claimed slot changes; the proof must be rejected.
func (g c03gen) wrongSlot() {
	c := g.c
	cap0 := c03capellaStart()
	reslot := func(k c03case, claimed uint64, tag string) {
		m := k
		m.proof = append([]byte{}, k.proof...)
		binary.LittleEndian.PutUint64(m.proof[len(m.proof)-8:], claimed)
		m.truth = "wrongslot-" + tag
		c03exec(c, m)
	}
	ks := []uint64{1, 2, 100, 758, 1 << 40}
	for _, era := range []int{2, 3} {
		// honest in the FIRST summary period (index 0): every slot congruent mod 8192 below the fork wraps to a huge index
		for _, oracle := range []string{"nil", "3:"} {
			s := cap0 + 1 + g.r.U64()%8190
			acc := uint64(643)
			if oracle != "nil" {
				acc = 0 // the summary comes from the oracle's list, the cache is empty
			}
			k := g.postMerge(g.randNumber(era), era, s, acc, oracle, "honest")
			c03exec(c, k)
			for _, d := range ks {
				if oracle != "nil" && d != 1 && d != 758 {
					continue
				}
				reslot(k, s-d*8192, fmt.Sprintf("minus-%d-periods", d))
				if oracle == "nil" && (d == 1 || d == 758 || d == 1<<40) {
					reslot(k, s+d*8192, fmt.Sprintf("plus-%d-periods", d))
				}
			}
		}
		// exactly at / just above the Capella start, claimed one period earlier; record 8192-off claimed at capella_start - off
		for _, s := range []uint64{cap0, cap0 + 8192 - 1, cap0 + 8192 - 77, cap0 + 8192 - 8191} {
			k := g.postMerge(g.randNumber(era), era, s, 2, "nil", "honest")
			c03exec(c, k)
			reslot(k, s-8192, fmt.Sprintf("below-capella-start-by-%d", cap0-(s-8192)))
			if s == cap0 {
				reslot(k, s+8192, "next-period")
			}
		}
		// honest in the LAST cached summary: the next periods are beyond the accumulator, the previous ones hold other roots
		last := uint64(642)
		s := c03slot(era, last, g.r.U64()%8192)
		k := g.postMerge(g.randNumber(era), era, s, last+1, "nil", "honest")
		for _, d := range []uint64{1, 100} {
			reslot(k, s+d*8192, fmt.Sprintf("past-end-plus-%d", d))
			reslot(k, s-d*8192, fmt.Sprintf("last-minus-%d", d))
		}
		reslot(k, s-(last+1)*8192, "last-to-below-capella-start")
	}
	// historical-roots era: across both ends of the accumulator
	for _, idx := range []uint64{0, 757} {
		s := c03slot(1, idx, g.r.U64()%8192)
		k := g.postMerge(g.randNumber(1), 1, s, 758, "nil", "honest")
		c03exec(c, k)
		for _, d := range []uint64{1, 758, 1 << 40} {
			reslot(k, s+d*8192, fmt.Sprintf("roots-%d-plus-%d-periods", idx, d))
			reslot(k, s-d*8192, fmt.Sprintf("roots-%d-minus-%d-periods", idx, d))
		}
	}
}

func (g c03gen) sizes() {
	c := g.c
	for era := 0; era <= 3; era++ {
		var k c03case
		if era == 0 {
			k = g.preMerge(g.randNumber(0), 1897, 15, "honest")
		} else {
			k = g.postMerge(g.randNumber(era), era, c03slot(era, 3, 9), 10, "nil", "honest")
		}
		full := k.proof
		for _, n := range []int{0, 1, 31, 32, 33, 14 * 32, 479, 480, 481, 16 * 32, 807, 808, 809, 839, 840, 841, 1024} {
			m := k
			if n <= len(full) {
				m.proof = full[:n]
			} else {
				m.proof = append(append([]byte{}, full...), g.r.Bytes(n-len(full))...)
			}
			if n == len(full) {
				continue
			}
			m.truth = fmt.Sprintf("size-%d", n)
			c03exec(c, m)
		}
	}
}

func (g c03gen) random(n int) {
	for i := 0; i < n; i++ {
		era := g.r.Intn(4)
		number := g.randNumber(era)
		hdr, hash := g.synth(number)
		size := []int{480, 840, 808, 840}[era]
		proof := g.r.Bytes(size)
		k := c03case{src: "custom", hdr: hdr, number: number, hash: hash, proof: proof, epochs: newSparse(1897), roots: newSparse(758),
			sums: newSparse(643), oracle: "nil", truth: "random"}
		if era > 0 {
			// a realistic slot so that the accumulator lookup succeeds, and an execution branch that verifies (so stage two is reached)
			nb, ne, gexec := c03shape(era)
			slot := c03slot(era, uint64(g.r.Intn(640)), g.r.U64()%8192)
			if g.r.Intn(4) == 0 {
				slot = g.r.U64() >> uint(g.r.Intn(64))
			}
			binary.LittleEndian.PutUint64(proof[size-8:], slot)
			if g.r.Intn(3) > 0 {
				var exec [][]byte
				for j := 0; j < ne; j++ {
					exec = append(exec, proof[32*(nb+1+j):32*(nb+2+j)])
				}
				copy(proof[32*nb:], c03fold(hash, exec, gexec))
			}
		}
		c03exec(g.c, k)
	}
}

// the repository's mainnet vectors on the validator of the public constructors
func (g c03gen) vectors(maxPre int) {
	c := g.c
	def := validation.NewHeaderValidatorWithHistorySummaries(c03loadSummaries())
	epochs, roots, sums := def.VerifAccumulators()
	proj := func(l [][]byte, i uint64) sparse {
		s := newSparse(uint64(len(l)))
		if i < uint64(len(l)) {
			s.ent[i] = l[i]
		}
		return s
	}
	raw, err := os.ReadFile(filepath.Join(c03repo(), "validation/testdata/header_with_proofs.json"))
	if err != nil {
		panic(err)
	}
	m := map[string]map[string]string{}
	if err := json.Unmarshal(raw, &m); err != nil {
		panic(err)
	}
	keys := make([]string, 0, len(m))
	for k := range m {
		keys = append(keys, k)
	}
	sort.Strings(keys)
	for i, key := range keys {
		if i >= maxPre {
			break
		}
		hwp, err := thistory.DecodeBlockHeaderWithProof(unhx(strings.TrimPrefix(m[key]["value"], "0x")))
		if err != nil {
			panic(err)
		}
		h := new(types.Header)
		if err := rlp.DecodeBytes(hwp.Header, h); err != nil {
			panic(err)
		}
		n := h.Number.Uint64()
		c03exec(c, c03case{src: "default", hdr: "rlp:" + hx(hwp.Header), number: n, hash: h.Hash().Bytes(), proof: hwp.Proof,
			epochs: proj(epochs, n/8192), roots: newSparse(uint64(len(roots))), sums: newSparse(uint64(len(sums))), oracle: "nil", truth: "vector"})
	}
	for _, ed := range []struct {
		era int
		dir string
	}{{1, "block_proofs_bellatrix"}, {2, "block_proofs_capella"}, {3, "block_proofs_deneb"}} {
		files, _ := filepath.Glob(filepath.Join(c03repo(), "validation/testdata", ed.dir, "*.yaml"))
		sort.Strings(files)
		for _, f := range files {
			v := c03parseVector(f)
			var proof []byte
			proof = append(proof, c03cat(v.beacon)...)
			proof = append(proof, v.root...)
			proof = append(proof, c03cat(v.exec)...)
			var sl [8]byte
			binary.LittleEndian.PutUint64(sl[:], v.slot)
			proof = append(proof, sl[:]...)
			k := c03case{src: "default", hdr: fmt.Sprintf("era:%d", ed.era), number: c03eraFirst(ed.era), hash: v.hash, proof: proof,
				epochs: newSparse(uint64(len(epochs))), roots: newSparse(uint64(len(roots))), sums: newSparse(uint64(len(sums))), oracle: "nil", truth: "vector"}
			if ed.era == 1 {
				k.roots = proj(roots, v.slot/8192)
			} else {
				k.sums = proj(sums, (v.slot-c03capellaStart())/8192)
			}
			c03exec(c, k)
			// and one corrupted node of the real proof
			m := k
			m.proof = append([]byte{}, proof...)
			m.proof[g.r.Intn(len(proof)-8)] ^= 0x10
			m.truth = "corrupt-vector"
			c03exec(c, m)
			// the real proof claiming another slot with the same record index (slot -+ 8192): block 17034870 (slot 6209538, first
			// summary period) then claims slot 6201346, a slot before the Capella fork that no summary commits to
			for _, d := range []uint64{^uint64(8191), 8192} { // -8192 (two's complement), +8192
				w := k
				claimed := v.slot + d
				w.proof = append([]byte{}, proof...)
				binary.LittleEndian.PutUint64(w.proof[len(proof)-8:], claimed)
				if ed.era == 1 {
					w.roots = proj(roots, claimed/8192)
				} else {
					w.sums = proj(sums, (claimed-c03capellaStart())/8192)
				}
				w.truth = fmt.Sprintf("wrongslot-vector-%d", claimed)
				c03exec(c, w)
			}
		}
	}
}

type c03vector struct {
	hash, root   []byte
	exec, beacon [][]byte
	slot         uint64
}

// the vectors are flat YAML: scalar keys and lists of quoted hex strings
func c03parseVector(path string) c03vector {
	raw, err := os.ReadFile(path)
	if err != nil {
		panic(err)
	}
	var v c03vector
	cur := ""
	unq := func(s string) []byte {
		s = strings.Trim(strings.TrimSpace(s), "\"'")
		return unhx(strings.TrimPrefix(s, "0x"))
	}
	for _, ln := range strings.Split(string(raw), "\n") {
		t := strings.TrimSpace(ln)
		switch {
		case t == "" || strings.HasPrefix(t, "#"):
		case strings.HasPrefix(t, "- "):
			if cur == "execution_block_proof" {
				v.exec = append(v.exec, unq(t[2:]))
			} else if cur == "beacon_block_proof" {
				v.beacon = append(v.beacon, unq(t[2:]))
			}
		default:
			kv := strings.SplitN(t, ":", 2)
			cur = kv[0]
			val := strings.TrimSpace(kv[1])
			switch cur {
			case "execution_block_header":
				v.hash = unq(val)
			case "beacon_block_root":
				v.root = unq(val)
			case "slot":
				v.slot, _ = strconv.ParseUint(val, 10, 64)
			}
		}
	}
	return v
}

// the witness found during design: one offered header kills the node (HistoricalRoots[slot/8192] unguarded)
func (g c03gen) witness() {
	number := uint64(16000000)
	extra := []byte{0xc0, 0x03}
	hash := c03header(number, extra).Hash().Bytes()
	_, ne, gexec := c03shape(1)
	exec := make([][]byte, ne)
	for i := range exec {
		exec[i] = c03zero
	}
	broot := c03fold(hash, exec, gexec) // the beacon block root is the attacker's to choose: fold it from the header's own hash
	proof := make([]byte, 14*32)
	proof = append(proof, broot...)
	proof = append(proof, c03cat(exec)...)
	var sl [8]byte
	binary.LittleEndian.PutUint64(sl[:], 1<<40)
	proof = append(proof, sl[:]...)
	_, roots, _ := validation.NewHeaderValidatorWithOracle(nil).VerifAccumulators()
	c03exec(g.c, c03case{src: "default", hdr: "syn:" + hx(extra), number: number, hash: hash, proof: proof, epochs: newSparse(1897),
		roots: newSparse(uint64(len(roots))), sums: newSparse(0), oracle: "nil", truth: "witness-oor-roots"})
}

// full 8192-record epochs through the repository's prover history.BuildProof
func (g c03gen) fullEpoch(count int) {
	for i := 0; i < count; i++ {
		epoch := uint64(g.r.Intn(1897))
		rec := []uint64{0, 8191, g.r.U64() % 8192}[i%3]
		number := epoch*8192 + rec
		if number >= c03consts["MergeBlockNumber"] {
			number = c03consts["MergeBlockNumber"] - 1
			rec = number % 8192
		}
		extra := g.r.Bytes(4)
		h := c03header(number, extra)
		records := make([][]byte, 8192)
		for j := range records {
			records[j] = g.r.Bytes(64)
		}
		copy(records[rec], h.Hash().Bytes())
		acc := history.EpochAccumulator{HeaderRecords: records}
		root, err := acc.HashTreeRoot()
		if err != nil {
			panic(err)
		}
		proof, err := history.BuildProof(*h, acc)
		if err != nil {
			panic(err)
		}
		k := c03case{src: "custom", hdr: "syn:" + hx(extra), number: number, hash: h.Hash().Bytes(), proof: c03cat(proof),
			epochs: newSparse(1897).with(epoch, history.MixInLength(root, 8192)), roots: newSparse(0), sums: newSparse(0), oracle: "nil", truth: "honest-buildproof"}
		g.c.Count("full_epoch_buildproof")
		c03exec(g.c, k)
		// the prover's proof for the neighbouring record must not verify for this header
		if rec+1 < 8192 && number+1 < c03consts["MergeBlockNumber"] {
			h2 := c03header(number+1, extra)
			p2, err := history.BuildProof(*h2, acc)
			if err == nil {
				m := k
				m.proof = c03cat(p2)
				m.truth = "wrongpos-buildproof"
				c03exec(g.c, m)
			}
		}
	}
}

func runC03(c *Ctx) {
	if len(c.Args) >= 2 && c.Args[0] == "replay" {
		c03replay(c, readReplayCases(c.Args[1]))
		return
	}
	g := c03gen{c: c, r: c.Rng}
	thorough := c.Tier == "thorough"
	c03embedded(c)
	g.witness()
	maxPre, nRandom, nSweeps, nEpochs, stride := 6, 10, 1, 2, 2
	if thorough {
		maxPre, nRandom, nSweeps, nEpochs, stride = 1000, 1500, 12, 24, 1
	}
	if c.N > 0 {
		nRandom = c.N
	}
	g.vectors(maxPre)
	g.boundaries()
	g.wrongEra()
	g.wrongSlot()
	g.sizes()
	for i := 0; i < nSweeps; i++ {
		st := stride
		if i == 0 {
			st = 1 // the first sweep of each era is always exhaustive
		}
		nEp := c03consts["PreMergeEpochs"]
		pre := []uint64{(nEp-1)*8192 + 1, 8191, g.randNumber(0)}[i%3]
		g.sweep(g.preMerge(pre, nEp, 15, "honest"), st)
		g.sweep(g.postMerge(g.randNumber(1), 1, c03slot(1, 757-uint64(g.r.Intn(5)), []uint64{0, 8191, 4097}[i%3]), 758, "nil", "honest"), st)
		g.sweep(g.postMerge(g.randNumber(2), 2, c03slot(2, uint64(g.r.Intn(3)), []uint64{8191, 0, 77}[i%3]), 3, "nil", "honest"), st)
		g.sweep(g.postMerge(g.randNumber(3), 3, c03slot(3, 642, g.r.U64()%8192), 643, "nil", "honest"), st)
	}
	g.fullEpoch(nEpochs)
	if thorough {
		g.prover([]int{1, 2, 3, 5, 100, 257, 1000, 8191, 8197})
	} else {
		g.prover([]int{1, 3, 20})
	}
	c03bhwp(c, g.chain(3), 1)
	g.proverSeqs()
	g.sequences()
	if thorough {
		g.histories(60)
	} else {
		g.histories(2)
	}
	g.random(nRandom)
}
