//go:build c01 || all

package main

import (
	"encoding/hex"
	"os"
	"path/filepath"
	"regexp"
	"sort"
	"strings"

	"github.com/ethereum/go-ethereum/core/types"
	"github.com/ethereum/go-ethereum/rlp"
)

// Genuine (content key, content) pairs from the repository's own test vectors, used as seeds for structured
// mutations of offered / looked-up content (so the validators are driven past their decoders).
type c01vector struct {
	key, val []byte
	header   *types.Header // the block header the vector belongs to, when the file carries one
}

var c01hexRe = regexp.MustCompile(`(content_key|content_value|value|block_header)"?\s*:\s*["']?0x([0-9a-fA-F]*)`)

func c01repoRoot() string {
	if r := os.Getenv("VERIF_REPO"); r != "" {
		return r
	}
	return "/repo"
}

func c01loadVectors() []c01vector {
	var files []string
	root := c01repoRoot()
	_ = filepath.Walk(root, func(p string, info os.FileInfo, err error) error {
		if err != nil || info.IsDir() {
			return nil
		}
		if !strings.Contains(p, "testdata") || strings.Contains(p, "BeaconState") {
			return nil
		}
		if strings.HasSuffix(p, ".yaml") || strings.HasSuffix(p, ".json") {
			if info.Size() < 8<<20 {
				files = append(files, p)
			}
		}
		return nil
	})
	sort.Strings(files)
	var out []c01vector
	for _, f := range files {
		b, err := os.ReadFile(f)
		if err != nil {
			continue
		}
		var key []byte
		var hdr *types.Header
		for _, m := range c01hexRe.FindAllStringSubmatch(string(b), -1) {
			raw, err := hex.DecodeString(m[2])
			if err != nil {
				continue
			}
			switch m[1] {
			case "block_header":
				h := new(types.Header)
				if rlp.DecodeBytes(raw, h) == nil {
					hdr = h
				}
			case "content_key":
				key = raw
			default:
				if key != nil && len(raw) < 200000 {
					out = append(out, c01vector{key: key, val: raw, header: hdr})
					key = nil
				}
			}
		}
	}
	return out
}

// c01mutateContent: structured mutations that keep most of the encoding valid.
func c01mutateContent(r *Rng, v []byte) []byte {
	out := append([]byte{}, v...)
	if len(out) == 0 {
		return out
	}
	switch r.Intn(8) {
	case 0: // unchanged
	case 1: // flip one bit
		out[r.Intn(len(out))] ^= byte(1 << r.Intn(8))
	case 2: // overwrite 8 bytes (a slot / offset / length field) with an extreme value
		if len(out) >= 8 {
			i := r.Intn(len(out) - 7)
			ext := [][]byte{{0xff, 0xff, 0xff, 0xff, 0xff, 0xff, 0xff, 0xff}, {0, 0, 0, 0, 0, 1, 0, 0}, {0, 0, 0, 0, 0, 0, 0, 0}, {0, 0, 0, 0, 0, 0, 0, 0x80}}
			copy(out[i:], ext[r.Intn(len(ext))])
		}
	case 3: // the trailing 8 bytes (slot field of the header proofs)
		if len(out) >= 8 {
			ext := [][]byte{{0xff, 0xff, 0xff, 0xff, 0xff, 0xff, 0xff, 0xff}, {0, 0, 0, 0, 0, 1, 0, 0}, {0, 0, 0, 0, 0, 0, 0, 0}}
			copy(out[len(out)-8:], ext[r.Intn(len(ext))])
		}
	case 4: // truncate
		out = out[:r.Intn(len(out))]
	case 5: // extend
		out = append(out, r.Bytes(1+r.Intn(40))...)
	case 6: // perturb one of the first 16 bytes (offsets)
		i := r.Intn(min(16, len(out)))
		out[i] += byte(r.Pick([]int{1, 4, 255, 252, 128}))
	case 7: // zero a 32-byte chunk
		if len(out) >= 32 {
			i := r.Intn(len(out) - 31)
			for j := 0; j < 32; j++ {
				out[i+j] = 0
			}
		}
	}
	return out
}
