//go:build c20 || all

package main

// C20: radius bookkeeping through ping / pong payloads and gossip target selection.  One line = one history on one instance:
//
//	gs <selfkey> <network> <permits> <enrhex:live,...> <op+op+...> ; <abstract op+op+...> | <observation per op, + separated>
//
// concrete ops   pi~<senderenr>~<talk request bytes>     PING served by handleTalkRequest
//                po~<targetenr>~<talk response bytes>    PONG given to processPong
//                del~<enr>                               table.deleteNode
//                bad~<idhex>~<valuehex>                  radius cache entry written directly (malformed lengths)
//                g~<srcid|->~<contentkey>~<ncontent>~<nkeys>   GossipAndReturnPeers
// concrete ops   pp~<enr1>~<ping1>~<enr2>~<ping2> (two pings served back to back on one P, then waited for; two abstract E ops)
// concrete ops   rad~<32-byte big-endian storage radius | ->    add~<enr> (PortalProtocol.AddEnr)
// abstract ops   E~<pong>~<id>~<present>~<ptype>~<radius|x>~<own storage radius | ->   A~<id>~<addFoundNode returned true>   N[~<id>] (no cache effect)   B~<id>~<radius|bad>   G~<src|->~<cid>~<nc>~<nk>~<table records in nodeList order>
// observations   c=<cached radius of the sender as a number | none | bad>[;p=<payload type of the PONG this node answered with>:<radius it announces | x>]      ok~<returned tags>~<offered tags> / err / panic
import (
	"crypto/sha256"
	"fmt"
	"math/big"
	"net"
	"strconv"
	"strings"
	"time"

	"github.com/ethereum/go-ethereum/p2p/enode"
	"github.com/zen-eth/shisui/portalwire"
	pingext "github.com/zen-eth/shisui/portalwire/ping_ext"
)

func init() { registry["C20"] = runC20 }

func c20num(b []byte) string { // 32 bytes little-endian -> hex number
	if len(b) != 32 {
		return "bad"
	}
	be := make([]byte, 32)
	for i := range b {
		be[31-i] = b[i]
	}
	return new(big.Int).SetBytes(be).Text(16)
}

func c20cacheObs(inst *portalwire.VerifHInstance, id enode.ID) string {
	v, ok := inst.RadiusCacheGet(id)
	if !ok {
		return "c=none"
	}
	return "c=" + c20num(v)
}

func c20idHex(id enode.ID) string { return new(big.Int).SetBytes(id[:]).Text(16) }

func c20nodeAddr(n *enode.Node) *net.UDPAddr {
	ip := n.IP()
	if len(ip) == 0 {
		ip = net.IPv4(127, 0, 0, 1)
	}
	return &net.UDPAddr{IP: ip, Port: n.UDP()}
}

// c20stuck counts instances given up because a ping's processing never finished; after three the remaining histories of
// the run are skipped (counted in the evidence) instead of each waiting for its timeout.
var c20stuck int

func c20exec(c *Ctx, keyhex, proto string, permits int, ins []c11ins, ops []string) {
	inst := hInstanceP(keyhex, "-", proto, permits)
	store := hStores[inst]
	store.radius = nil // the storage radius starts at the maximum
	ownRadius := func() string { return store.Radius().ToBig().Text(16) }
	hFill(inst, ins)
	var abs, obs []string
	for _, op := range ops {
		f := strings.Split(op, "~")
		switch f[0] {
		case "pp": // two pings of two table nodes served back to back, before the first one's payload has been processed
			n1, e1 := hNodeFromBytes(unhx(f[1]))
			n2, e2 := hNodeFromBytes(unhx(f[3]))
			if e1 != nil || e2 != nil {
				panic("pp")
			}
			m1, m2 := unhx(f[2]), unhx(f[4])
			own := ownRadius()
			var r1, r2 []byte
			done := true
			if pn, m := guard(func() {
				r1, r2, done = inst.HandleTwoTalkRequestsBackToBack(n1, c20nodeAddr(n1), m1, n2, c20nodeAddr(n2), m2)
			}); pn {
				abs = append(abs, "N", "N")
				obs = append(obs, "panic "+m, "-")
				continue
			}
			if !done {
				c.Count("history_unobserved_ping_processing_did_not_finish")
				c.Emit("gs-unobserved %s %s | unobserved", keyhex, proto)
				return
			}
			for k, nm := range []struct {
				n    *enode.Node
				msg  []byte
				resp []byte
			}{{n1, m1, r1}, {n2, m2, r2}} {
				_ = k
				p := &portalwire.Ping{}
				if len(nm.msg) < 1 || p.UnmarshalSSZ(nm.msg[1:]) != nil {
					abs = append(abs, "N~"+c20idHex(nm.n.ID()))
					obs = append(obs, c20cacheObs(inst, nm.n.ID()))
					continue
				}
				rad := "x"
				if rb, ok := portalwire.VerifHDecodeRadius(p.PayloadType, p.Payload); ok {
					rad = c20num(rb)
				}
				present := "0"
				if inst.InTableOrReplacement(nm.n.ID()) {
					present = "1"
				}
				ownPong := ";p=nil"
				if len(nm.resp) > 0 && nm.resp[0] == portalwire.PONG {
					pg := &portalwire.Pong{}
					if err := pg.UnmarshalSSZ(nm.resp[1:]); err == nil {
						ownPong = fmt.Sprintf(";p=%d:x", pg.PayloadType)
						if rb, ok := portalwire.VerifHDecodeRadius(pg.PayloadType, pg.Payload); ok {
							ownPong = fmt.Sprintf(";p=%d:%s", pg.PayloadType, c20num(rb))
						}
					}
				}
				abs = append(abs, fmt.Sprintf("E~0~%s~%s~%d~%s~%s", c20idHex(nm.n.ID()), present, p.PayloadType, rad, own))
				obs = append(obs, c20cacheObs(inst, nm.n.ID())+ownPong)
			}
			c.Count("two_pings_back_to_back")
		case "rad": // the storage radius changes (prune): later PONGs must announce the new value
			if f[1] == "-" {
				store.radius = nil
			} else {
				store.radius = unhx(f[1])
			}
			abs = append(abs, "N")
			obs = append(obs, "-")
			c.Count("storage_radius_changed")
		case "add": // PortalProtocol.AddEnr
			n, err := hNodeFromBytes(unhx(f[1]))
			if err != nil {
				panic(err)
			}
			before := inst.InTable(n.ID())
			if pn, m := guard(func() { inst.P.AddEnr(n) }); pn {
				abs = append(abs, "N")
				obs = append(obs, "panic "+m)
				continue
			}
			added := 0
			if !before && inst.InTable(n.ID()) { // addFoundNode returned true
				added = 1
			}
			abs = append(abs, fmt.Sprintf("A~%s~%d", c20idHex(n.ID()), added))
			obs = append(obs, c20cacheObs(inst, n.ID()))
			c.Count(fmt.Sprintf("add_enr_already_in_table_%v_added_%d", before, added))
		case "pi", "po":
			n, err := hNodeFromBytes(unhx(f[1]))
			if err != nil {
				panic(err)
			}
			msg := unhx(f[2])
			var ptype uint16
			var payload []byte
			decoded := false
			pong := "0"
			own := "-"
			ownPong := ""
			if f[0] == "pi" {
				own = ownRadius()
				if len(msg) == 0 { // handleTalkRequest indexes msg[0] (C01); not this property's subject
					abs = append(abs, "N")
					obs = append(obs, "-")
					continue
				}
				if msg[0] == portalwire.PING {
					p := &portalwire.Ping{}
					if err := p.UnmarshalSSZ(msg[1:]); err == nil {
						ptype, payload, decoded = p.PayloadType, p.Payload, true
					}
				}
				var resp []byte
				if pn, m := guard(func() { resp = inst.HandleTalkRequest(n, c20nodeAddr(n), msg) }); pn {
					abs = append(abs, "N")
					obs = append(obs, "panic "+m)
					continue
				}
				// the ping payload is processed in its own goroutine, which may first re-request the sender's record over the
				// network; wait for it as long as it takes (a minute at most).  If it still runs then, the state of the cache is
				// not determined: the history is given up as unobserved rather than compared.
				if !inst.WaitPings(20 * time.Second) {
					c.Count("history_unobserved_ping_processing_did_not_finish")
					c.Emit("gs-unobserved %s %s | unobserved", keyhex, proto)
					// the instance's transport is stuck (seen under load: the discv5 dispatch loop of the library blocked on its
					// own write queue): give the goroutine a little longer, then continue with a fresh instance
					if !inst.WaitPings(5 * time.Second) {
						hInstanceDrop(inst)
						c.Count("instance_dropped_transport_stuck")
						c20stuck++
					}
					return
				}
				// the PONG this node answered with: payload type and the radius it announces
				ownPong = ";p=nil"
				if len(resp) > 0 && resp[0] == portalwire.PONG {
					pg := &portalwire.Pong{}
					if err := pg.UnmarshalSSZ(resp[1:]); err == nil {
						ownPong = fmt.Sprintf(";p=%d:x", pg.PayloadType)
						if rb, ok := portalwire.VerifHDecodeRadius(pg.PayloadType, pg.Payload); ok {
							ownPong = fmt.Sprintf(";p=%d:%s", pg.PayloadType, c20num(rb))
						}
					}
				}
			} else {
				pong = "1"
				if len(msg) > 0 && msg[0] == portalwire.PONG {
					p := &portalwire.Pong{}
					if err := p.UnmarshalSSZ(msg[1:]); err == nil {
						ptype, payload, decoded = p.PayloadType, p.Payload, true
					}
				}
				if pn, m := guard(func() { inst.ProcessPong(n, msg) }); pn {
					abs = append(abs, "N")
					obs = append(obs, "panic "+m)
					continue
				}
			}
			if !decoded {
				abs = append(abs, "N~"+c20idHex(n.ID()))
				obs = append(obs, c20cacheObs(inst, n.ID()))
				continue
			}
			rad := "x"
			if rb, ok := portalwire.VerifHDecodeRadius(ptype, payload); ok {
				rad = c20num(rb)
			}
			present := "0"
			if inst.InTableOrReplacement(n.ID()) {
				present = "1"
			}
			abs = append(abs, fmt.Sprintf("E~%s~%s~%s~%d~%s~%s", pong, c20idHex(n.ID()), present, ptype, rad, own))
			obs = append(obs, c20cacheObs(inst, n.ID())+ownPong)
			c.Count(fmt.Sprintf("event_%s_type_%d_present_%s_decodes_%v", f[0], ptype, present, rad != "x"))
		case "del":
			n, err := hNodeFromBytes(unhx(f[1]))
			if err != nil {
				panic(err)
			}
			inst.DeleteNode(n)
			abs = append(abs, "N~"+c20idHex(n.ID()))
			obs = append(obs, c20cacheObs(inst, n.ID()))
		case "bad":
			var id enode.ID
			copy(id[:], unhx(f[1]))
			v := unhx(f[2])
			inst.RadiusCacheSet(id, v)
			abs = append(abs, fmt.Sprintf("B~%s~%s", c20idHex(id), c20num(v)))
			obs = append(obs, c20cacheObs(inst, id))
		case "g":
			var src *enode.ID
			srcs := "-"
			if f[1] != "-" {
				var id enode.ID
				copy(id[:], unhx(f[1]))
				src = &id
				srcs = c20idHex(id)
			}
			key := unhx(f[2])
			nc, _ := strconv.Atoi(f[3])
			nk, _ := strconv.Atoi(f[4])
			keys := make([][]byte, nk)
			for i := range keys {
				keys[i] = key
			}
			contents := make([][]byte, nc)
			for i := range contents {
				contents[i] = []byte{byte(i), 1, 2, 3}
			}
			t := newTags()
			nl := inst.NodeList()
			recs := make([]string, len(nl))
			for i, n := range nl {
				eb := hEnrBytes(n)
				recs[i] = hRecStr(t.tag(eb), n, len(eb), true)
			}
			cid := sha256.Sum256(key)
			abs = append(abs, fmt.Sprintf("G~%s~%s~%d~%d~%s", srcs, new(big.Int).SetBytes(cid[:]).Text(16), nc, nk, hTagList(recs)))
			var ret, off []*enode.Node
			var offKeys [][][]byte
			var gerr error
			if pn, m := guard(func() { ret, off, offKeys, gerr = inst.Gossip(src, keys, contents) }); pn {
				obs = append(obs, "panic "+m)
				continue
			}
			if gerr != nil {
				obs = append(obs, "err")
				continue
			}
			tl := func(ns []*enode.Node) string {
				ts := make([]string, len(ns))
				for i, n := range ns {
					if v, ok := t.lookupNode(n); ok {
						ts[i] = strconv.Itoa(v)
					} else {
						ts[i] = "?"
					}
				}
				return hTagList(ts)
			}
			o := "ok~" + tl(ret) + "~" + tl(off)
			for _, ks := range offKeys { // every offer carries the whole batch
				if len(ks) != nc {
					o += "~partial-batch"
					break
				}
			}
			obs = append(obs, o)
			c.Count(fmt.Sprintf("gossip_returned_%d_table_%d", len(ret), hBucket(len(nl))))
		}
	}
	if len(ops) == 0 {
		ops, abs, obs = []string{"-"}, []string{"N"}, []string{"-"}
	}
	c.Emit("gs %s %s %d %s %s ; %s | %s", keyhex, proto, permits, c11insStr(ins), strings.Join(ops, "+"), strings.Join(abs, "+"), strings.Join(obs, "+"))
}

func c20replay(c *Ctx, lines []string) {
	for _, ln := range lines {
		f := strings.Fields(strings.SplitN(ln, "|", 2)[0])
		if len(f) < 6 || f[0] != "gs" {
			continue
		}
		permits, _ := strconv.Atoi(f[3])
		ops := strings.Split(f[5], "+")
		if f[5] == "-" {
			ops = nil
		}
		c20exec(c, f[1], f[2], permits, c11parseIns(f[4]), ops)
	}
}

// radius as 32 little-endian bytes
func c20radius(r *Rng, near int, xd *big.Int) []byte {
	v := new(big.Int)
	switch r.Intn(17) {
	case 12: // equal to the XOR distance: not covered under the XOR rule (strict comparison)
		v.Set(xd)
	case 13, 14:
		v.Add(xd, big.NewInt(1)) // just covers under the XOR rule
	case 15:
		v.Sub(xd, big.NewInt(1))
		if v.Sign() < 0 {
			v.SetInt64(0)
		}
	case 16:
		v.Rsh(xd, 1)
	case 0:
		v.SetInt64(0)
	case 1:
		v.SetInt64(1)
	case 2, 3:
		v.SetInt64(int64(near)) // equal to a log distance: not covered (strict comparison)
	case 4, 5:
		v.SetInt64(int64(near + 1)) // just covers
	case 6:
		v.SetInt64(int64(r.Pick([]int{255, 256, 257, 258})))
	case 7:
		v.Lsh(big.NewInt(1), uint(r.Intn(256)))
	case 8:
		v.SetBytes(r.Bytes(32))
	default:
		v.Sub(new(big.Int).Lsh(big.NewInt(1), 256), big.NewInt(1))
	}
	be := v.FillBytes(make([]byte, 32))
	le := make([]byte, 32)
	for i := range be {
		le[31-i] = be[i]
	}
	return le
}

func c20payload(r *Rng, ptype uint16, radius []byte, count uint16) []byte {
	var b []byte
	switch ptype {
	case pingext.ClientInfo:
		p := pingext.NewClientInfoAndCapabilitiesPayload(radius, []uint16{0, uint16(r.Intn(3)), 65535})
		b, _ = p.MarshalSSZ()
	case pingext.BasicRadius:
		p := pingext.NewBasicRadiusPayload(radius)
		b, _ = p.MarshalSSZ()
	case pingext.HistoryRadius:
		p := pingext.NewHistoryRadiusPayload(radius, count)
		b, _ = p.MarshalSSZ()
	case pingext.Error:
		b = pingext.GetErrorPayloadBytes(uint16(r.Intn(4)))
	default:
		b = r.Bytes(r.Intn(40))
	}
	switch r.Intn(14) {
	case 0:
		if len(b) > 0 {
			b = b[:r.Intn(len(b))]
		}
	case 1:
		b = append(b, r.Bytes(1+r.Intn(8))...)
	}
	return b
}

func c20case(c *Ctx, r *Rng, keys []string) {
	protos := []string{"history", "history", "state", "beacon", "other"}
	proto := protos[r.Intn(len(protos))]
	key := keys[r.Intn(len(keys))]
	permits := 50
	if r.Intn(6) == 0 {
		permits = r.Pick([]int{0, 1, 3, 5, 7})
	}
	inst := hInstanceP(key, "-", proto, permits)
	self := inst.Self().ID()
	// the content under gossip, and a table around it
	ckey := r.Bytes(1 + r.Intn(40))
	cid := sha256.Sum256(ckey)
	var nodes []*enode.Node
	var ins []c11ins
	nnodes := r.Pick([]int{0, 1, 3, 4, 5, 8, 9, 12, 20, 31, 32, 33, 40, 64, 100, 180, 272})
	for i := 0; i < nnodes; i++ {
		var id enode.ID
		switch k := r.Intn(10); {
		case k < 3: // close to the content id (small, distinct log distances to it)
			id = hIDAtDistance(r, enode.ID(cid), 1+r.Intn(256))
		case k < 5: // far from self in a chosen bucket
			id = hIDAtDistance(r, self, 240+r.Intn(17))
		default:
			copy(id[:], r.Bytes(32))
		}
		ipk := r.Pick2([]string{"loop", "lan10", "lan192", "pub"})
		n := hRecord(nil, id, hIP(r, ipk), 30303, uint64(1+r.Intn(3)), 0)
		nodes = append(nodes, n)
		ins = append(ins, c11ins{hEnrBytes(n), r.Intn(6) != 0, false})
	}
	// sometimes the second real instance is a table entry: it answers the ENR re-request a higher sequence number triggers
	var livePeer enode.ID
	if r.Intn(4) == 0 && len(keys) > 1 {
		other := keys[0]
		if other == key {
			other = keys[1]
		}
		pn := hInstanceP(other, "-", proto, 50).Self()
		livePeer = pn.ID()
		nodes = append(nodes, pn)
		ins = append(ins, c11ins{hEnrBytes(pn), true, false})
		c.Count("table_holds_live_peer")
	}
	outsider := func() *enode.Node {
		var id enode.ID
		copy(id[:], r.Bytes(32))
		var ip net.IP
		switch r.Intn(4) {
		case 0:
			ip = nil // no address: cannot enter the table
		case 1:
			ip = net.IPv4(0, 0, 0, 0)
		default:
			ip = hIP(r, "lan10")
		}
		return hRecord(nil, id, ip, 30303, 1, 0)
	}
	supported := map[string][]uint16{"history": {0, 2, 65535}, "state": {0, 1, 65535}, "beacon": {0, 1, 65535}, "other": {0, 65535}}[proto]
	var ops []string
	nops := r.Intn(4) + nnodes/2
	if nops > 90 {
		nops = 90
	}
	if r.Intn(8) == 0 {
		nops = nnodes * 2
	}
	gossip := func() {
		src := "-"
		switch r.Intn(4) {
		case 0:
			if len(nodes) > 0 {
				src = hx(nodes[r.Intn(len(nodes))].ID().Bytes())
			}
		case 1:
			src = hx(r.Bytes(32))
		}
		nc := r.Pick([]int{1, 1, 1, 2, 5, 64})
		nk := nc
		switch r.Intn(40) {
		case 0:
			nc = 0
		case 1:
			nk = nc - 1
		case 2:
			nk = nc + 1
		}
		ops = append(ops, fmt.Sprintf("g~%s~%s~%d~%d", src, hx(ckey), nc, nk))
	}
	// what each node last reported: the next report of a node keeps or changes the ephemeral header count and keeps or
	// changes the radius independently (a HistoryRadius report with the same count and a new radius must still update the cache)
	lastCount := map[enode.ID]uint16{}
	lastRadius := map[enode.ID][]byte{}
	report := func(n *enode.Node, ptype uint16, pong bool, clean bool) {
		near := enode.LogDist(n.ID(), enode.ID(cid))
		xd := new(big.Int).Xor(new(big.Int).SetBytes(n.ID().Bytes()), new(big.Int).SetBytes(cid[:]))
		radius := c20radius(r, near, xd)
		if prev, ok := lastRadius[n.ID()]; ok && r.Intn(5) == 0 {
			radius = prev // same radius, possibly a new count
		}
		count, seen := lastCount[n.ID()]
		if !seen || r.Intn(4) == 0 {
			count = uint16(r.Pick([]int{0, 0, 1, 7, 499, 65535}))
		}
		lastCount[n.ID()], lastRadius[n.ID()] = count, radius
		payload := c20payload(r, ptype, radius, count)
		if clean { // an undamaged payload of that type
			switch ptype {
			case pingext.ClientInfo:
				pl := pingext.NewClientInfoAndCapabilitiesPayload(radius, []uint16{0, 65535})
				payload, _ = pl.MarshalSSZ()
			case pingext.BasicRadius:
				pl := pingext.NewBasicRadiusPayload(radius)
				payload, _ = pl.MarshalSSZ()
			case pingext.HistoryRadius:
				pl := pingext.NewHistoryRadiusPayload(radius, count)
				payload, _ = pl.MarshalSSZ()
			}
		}
		// the ENR sequence number the message announces: normally not above the record in the table; sometimes above it, which
		// makes the handler re-request the record first (RequestENR) - from a peer nobody listens at (the request times out)
		// or from the live second instance (the request succeeds).  The payload must be processed all the same.
		seq := uint64(r.Intn(2))
		if clean && n.ID() == livePeer {
			if r.Bool() {
				seq = n.Seq() + 1 + uint64(r.Intn(3))
				c.Count("report_higher_enr_seq_fetch_succeeds")
			}
		} else if clean && c20seqBudget > 0 && r.Intn(6) == 0 {
			seq = n.Seq() + 1 + uint64(r.Intn(3))
			c20seqBudget--
			c.Count("report_higher_enr_seq_fetch_fails")
		}
		if !pong {
			m := &portalwire.Ping{EnrSeq: seq, PayloadType: ptype, Payload: payload}
			b, err := m.MarshalSSZ()
			if err != nil {
				return
			}
			msg := append([]byte{portalwire.PING}, b...)
			if !clean && r.Intn(40) == 0 {
				msg = msg[:1+r.Intn(len(msg)-1)]
			}
			ops = append(ops, fmt.Sprintf("pi~%s~%s", hx(hEnrBytes(n)), hx(msg)))
		} else {
			m := &portalwire.Pong{EnrSeq: seq, PayloadType: ptype, Payload: payload}
			b, err := m.MarshalSSZ()
			if err != nil {
				return
			}
			msg := append([]byte{portalwire.PONG}, b...)
			if !clean {
				switch r.Intn(40) {
				case 0:
					msg = msg[:r.Intn(len(msg))]
				case 1:
					msg[0] = portalwire.PING
				}
			}
			ops = append(ops, fmt.Sprintf("po~%s~%s", hx(hEnrBytes(n)), hx(msg)))
		}
	}
	// the payload types of this network that carry a radius
	var radiusTypes []uint16
	for _, t := range supported {
		if t == pingext.ClientInfo || t == pingext.BasicRadius || t == pingext.HistoryRadius {
			radiusTypes = append(radiusTypes, t)
		}
	}
	// burst: one node reports 2..6 times in a row, cycling through every radius-carrying type of the network, on both paths
	burst := func() {
		if len(nodes) == 0 {
			return
		}
		n := nodes[r.Intn(len(nodes))]
		c.Count("report_burst")
		if len(nodes) >= 2 && r.Intn(4) == 0 {
			// two different table nodes ping back to back with different radii (same payload type): each must end up with its own
			n2 := nodes[r.Intn(len(nodes))]
			if n2.ID() != n.ID() {
				t := radiusTypes[r.Intn(len(radiusTypes))]
				mk := func(x *enode.Node) string {
					near := enode.LogDist(x.ID(), enode.ID(cid))
					xd := new(big.Int).Xor(new(big.Int).SetBytes(x.ID().Bytes()), new(big.Int).SetBytes(cid[:]))
					radius := c20radius(r, near, xd)
					var payload []byte
					switch t {
					case pingext.ClientInfo:
						pl := pingext.NewClientInfoAndCapabilitiesPayload(radius, []uint16{0, 65535})
						payload, _ = pl.MarshalSSZ()
					case pingext.BasicRadius:
						pl := pingext.NewBasicRadiusPayload(radius)
						payload, _ = pl.MarshalSSZ()
					default:
						pl := pingext.NewHistoryRadiusPayload(radius, uint16(r.Intn(3)))
						payload, _ = pl.MarshalSSZ()
					}
					lastRadius[x.ID()] = radius
					m := &portalwire.Ping{EnrSeq: 0, PayloadType: t, Payload: payload}
					b, _ := m.MarshalSSZ()
					return hx(hEnrBytes(x)) + "~" + hx(append([]byte{portalwire.PING}, b...))
				}
				ops = append(ops, "pp~"+mk(n)+"~"+mk(n2))
			}
		}
		start := r.Intn(len(radiusTypes))
		sameType := r.Intn(3) == 0 // e.g. HistoryRadius several times in a row
		for j, k := 0, 2+r.Intn(5); j < k; j++ {
			t := radiusTypes[(start+j)%len(radiusTypes)]
			if sameType {
				t = radiusTypes[len(radiusTypes)-1]
			}
			report(n, t, r.Bool(), true)
			switch r.Intn(30) {
			case 0, 1, 2, 3:
				gossip()
			case 5: // the same record is added again (AddEnr): its reported radius must survive
				ops = append(ops, "add~"+hx(hEnrBytes(n)))
				gossip()
			case 6: // a newer record of the same node is added
				if nn := hRecord(nil, n.ID(), n.IP(), n.UDP(), n.Seq()+1+uint64(r.Intn(2)), 0); nn != nil {
					ops = append(ops, "add~"+hx(hEnrBytes(nn)))
					gossip()
				}
			case 7, 8: // the storage radius shrinks (or grows back): the next PONG must announce the current value
				switch r.Intn(4) {
				case 0:
					ops = append(ops, "rad~-")
				case 1:
					ops = append(ops, "rad~"+hx(make([]byte, 32)))
				default:
					v := new(big.Int).Lsh(big.NewInt(1), uint(r.Intn(256)))
					ops = append(ops, "rad~"+hx(v.FillBytes(make([]byte, 32))))
				}
				report(n, radiusTypes[r.Intn(len(radiusTypes))], false, true)
			}
		}
	}
	for i := 0; i < nops; i++ {
		if r.Intn(5) == 0 {
			burst()
			continue
		}
		var n *enode.Node
		if len(nodes) > 0 && r.Intn(10) != 0 {
			n = nodes[r.Intn(len(nodes))]
		} else {
			n = outsider()
		}
		switch k := r.Intn(40); {
		case k < 34:
			ptype := supported[r.Intn(len(supported))]
			switch r.Intn(10) {
			case 0:
				ptype = uint16(r.Pick([]int{0, 1, 2, 3, 7, 65534, 65535}))
			case 1, 2, 3, 4:
				ptype = supported[0]
			}
			report(n, ptype, r.Bool(), false)
		case k < 36:
			ops = append(ops, "del~"+hx(hEnrBytes(n)))
		case k == 37: // AddEnr of whatever node is at hand (a table node: no effect on its radius; an outsider: assumed maximum)
			ops = append(ops, "add~"+hx(hEnrBytes(n)))
		case k == 36 && r.Intn(3) == 0:
			ops = append(ops, fmt.Sprintf("bad~%s~%s", hx(n.ID().Bytes()), hx(r.Bytes(r.Pick([]int{0, 1, 31, 33, 32})))))
		default:
			gossip()
		}
	}
	gossip()
	if r.Bool() {
		gossip()
	}
	c20exec(c, key, proto, permits, ins, ops)
}

// c20directed: a table of at least 33 nodes in which exactly 32 are strictly closer to the content id than the 33rd, the source
// is one of those 32, and the 33rd nearest has a cached radius that covers the content while only a few of the 32 do: if the
// source were dropped BEFORE the cut to the 32 nearest, the 33rd would become a candidate and (few candidates) a target.
func c20directed(c *Ctx, r *Rng, keys []string) {
	proto := r.Pick2([]string{"history", "state", "beacon", "other"})
	key := keys[r.Intn(len(keys))]
	inst := hInstanceP(key, "-", proto, 50)
	self := inst.Self().ID()
	// a content id whose log distance D to the local id leaves room: nodes closer than D to the content all fall into one
	// bucket (16), nodes at exactly D can be placed in any lower bucket, nodes at D+1.. have a bucket each
	var ckey []byte
	var cid [32]byte
	D := 0
	for try := 0; try < 200; try++ {
		ckey = r.Bytes(4 + r.Intn(20))
		cid = sha256.Sum256(ckey)
		D = enode.LogDist(self, enode.ID(cid))
		if D >= 245 && D <= 255 {
			break
		}
	}
	if D < 245 || D > 255 {
		return
	}
	mk := func(id enode.ID) *enode.Node {
		return hRecord(nil, id, hIP(r, r.Pick2([]string{"loop", "lan10", "lan192"})), 30303, 1, 0)
	}
	var inner []*enode.Node // the 32 nearest
	a := 4 + r.Intn(9)
	for i := 0; i < a; i++ { // strictly closer than D
		inner = append(inner, mk(hIDAtDistance(r, enode.ID(cid), 1+r.Intn(D-1))))
	}
	for i := 0; len(inner) < 32; i++ { // exactly D from the content id, spread over the buckets 241..D-1 of the local table
		k := 241 + i%(D-241)
		inner = append(inner, mk(hIDAtDistance(r, self, k)))
	}
	n33 := mk(hIDAtDistance(r, enode.ID(cid), D+1))
	nodes := append([]*enode.Node{}, inner...)
	nodes = append(nodes, n33)
	for i, k := 0, r.Intn(12); i < k; i++ { // farther ones
		nodes = append(nodes, mk(hIDAtDistance(r, enode.ID(cid), D+1+r.Intn(256-D))))
	}
	// insertion order is irrelevant for the selection; shuffle it
	for i := len(nodes) - 1; i > 0; i-- {
		j := r.Intn(i + 1)
		nodes[i], nodes[j] = nodes[j], nodes[i]
	}
	var ins []c11ins
	for _, n := range nodes {
		ins = append(ins, c11ins{hEnrBytes(n), true, false})
	}
	src := inner[r.Intn(len(inner))]
	maxRadius := make([]byte, 32)
	for i := range maxRadius {
		maxRadius[i] = 0xff
	}
	var ops []string
	report := func(n *enode.Node) {
		pl := pingext.NewClientInfoAndCapabilitiesPayload(maxRadius, []uint16{0, 65535})
		payload, _ := pl.MarshalSSZ()
		if r.Bool() {
			m := &portalwire.Ping{EnrSeq: 1, PayloadType: pingext.ClientInfo, Payload: payload}
			b, _ := m.MarshalSSZ()
			ops = append(ops, fmt.Sprintf("pi~%s~%s", hx(hEnrBytes(n)), hx(append([]byte{portalwire.PING}, b...))))
		} else {
			m := &portalwire.Pong{EnrSeq: 1, PayloadType: pingext.ClientInfo, Payload: payload}
			b, _ := m.MarshalSSZ()
			ops = append(ops, fmt.Sprintf("po~%s~%s", hx(hEnrBytes(n)), hx(append([]byte{portalwire.PONG}, b...))))
		}
	}
	report(n33)
	if r.Bool() {
		report(src)
	}
	for i, k := 0, 1+r.Intn(5); i < k; i++ { // a few of the 32 nearest are covered as well
		report(inner[r.Intn(len(inner))])
	}
	ops = append(ops, fmt.Sprintf("g~%s~%s~1~1", hx(src.ID().Bytes()), hx(ckey)))
	if r.Bool() { // the same content arriving from nobody in particular: the source is an ordinary candidate then
		ops = append(ops, fmt.Sprintf("g~-~%s~1~1", hx(ckey)))
	}
	ops = append(ops, fmt.Sprintf("g~%s~%s~2~2", hx(src.ID().Bytes()), hx(ckey)))
	c.Count("directed_source_among_32_nearest_33rd_covered")
	c20exec(c, key, proto, 50, ins, ops)
}

// how many reports of a run may announce a higher ENR sequence number from an unreachable peer (each costs one RPC timeout)
var c20seqBudget = 0

func runC20(c *Ctx) {
	hQuiet()
	if len(c.Args) >= 2 && c.Args[0] == "replay" {
		c20replay(c, readReplayCases(c.Args[1]))
		return
	}
	n := 300
	c20seqBudget = 12
	if c.Tier == "thorough" {
		// the budget stays at 12 per run: a report with a higher ENR sequence number from a peer nobody listens at makes
		// the node send to an address without a route in this sandbox; the discv5 library's writeLoop EXITS on the first
		// non-temporary UDP write error, and once 32 more packets are queued its dispatch loop blocks for good (every later
		// RequestENR then never returns).  A limit of the library's transport, recorded in DESIGN.md; c20stuck guards the rest.
		n = 3000
		c20seqBudget = 12
	}
	if c.N > 0 {
		n = c.N
	}
	r := c.Rng
	keys := []string{hKeyHex(hKey(r)), hKeyHex(hKey(r))}
	for i := 0; i < n; i++ {
		if c20stuck >= 3 {
			c.Stats["histories_skipped_transport_stuck"] = n - i
			break
		}
		if i%10 == 3 {
			c20directed(c, r, keys)
			continue
		}
		c20case(c, r, keys)
	}
}
