//go:build c07 || c18 || all

package main

import (
	"encoding/hex"
	"fmt"
	"net/netip"
	"sort"
	"strconv"
	"strings"
	"sync"
	"time"

	"github.com/ethereum/go-ethereum/p2p/enode"
	"github.com/zen-eth/shisui/portalwire"
)

// C07 / C18: the routing table.  One line per history:
//
//	hist <self> <pool> <ops> | ok <snap0>#<delta1>#...#<deltaN>
//	hist <self> <pool> <ops> | panic <step> <msg> <snap0>#...            (operation number <step> panicked)
//	conc <self> <pool> <nops> | ok <final snapshot>                      (ops fired at the running loop; testing)
//
// self: 64 hex digits. pool: comma separated ids (64 hex digits each), pool[0] = self; ids are referred to
// by pool index everywhere else.  node = idx.seq.ip.port, ip = 8 hex digits or x (record without address).
// ops separated by ';':
//
//	I | F<force>:node | N:node | B:node,node.. | D:idx:pick | R<dueFast><dueSlow>:pick,pick..
//	A:idx:<responded>:<node or ->:pick | T:node:<success>:<node,node.. or ->:pick
//	P:idx:<pingAnswered>:<pongSeq>:<ENR answer: node, or - = request fails>:pick   (through the real doRevalidate)
//
// snapshot = components joined by '&', a delta lists only the components that changed:
//
//	b<j>=<entries>~<replacements>~<ipset>   entry = idx.seq.ip.port.checks.live.list(f|s|-)
//	t=<ipset>  f=<idx,..>  s=<idx,..>  a=<idx.attached.startSeq,..>  x=<idx.ip.fails,..>  n=<0|1>
//	r=<didRespond>/<newRecord node or -> : what doRevalidate handed to handleResponse in this step (P ops; - = none in flight)
//	ipset = <key24 hex>.<count>,..  sorted by key
func init() {
	registry["C07"] = func(c *Ctx) { runTable(c, "C07") }
	registry["C18"] = func(c *Ctx) { runTable(c, "C18") }
}

type tblNode struct {
	idx   int
	seq   uint64
	hasIP bool
	ip    [4]byte
	port  uint16
}

type tableOp struct {
	kind    byte // I F N B D R A T
	n       tblNode
	flag    bool // F: force, A: responded, T: success
	flag2   bool
	nodes   []tblNode // B, T found
	idx     int       // D, A
	hasRec  bool      // A
	picks   []int
	dueFast bool
	dueSlow bool
	pingSeq uint64 // P
}

type tableHist struct {
	self  enode.ID
	pool  []enode.ID
	index map[enode.ID]int
}

func (h *tableHist) real(n tblNode) *enode.Node {
	return portalwire.VerifMakeNode(h.pool[n.idx], n.seq, n.hasIP, n.ip, n.port)
}

func tblIPStr(a netip.Addr) string {
	if !a.IsValid() {
		return "x"
	}
	if a.Is4In6() {
		a = netip.AddrFrom4(a.As4())
	}
	if !a.Is4() {
		return "v6"
	}
	b := a.As4()
	return hex.EncodeToString(b[:])
}

// nodeStr prints the node as the table sees it (projections of the real record).
func (h *tableHist) nodeStr(n tblNode) string {
	r := h.real(n)
	return fmt.Sprintf("%d.%d.%s.%d", n.idx, r.Seq(), tblIPStr(r.IPAddr()), r.UDP())
}
func (h *tableHist) nodesStr(ns []tblNode) string {
	if len(ns) == 0 {
		return "-"
	}
	p := make([]string, len(ns))
	for i, n := range ns {
		p[i] = h.nodeStr(n)
	}
	return strings.Join(p, ",")
}
func tblPicksStr(p []int) string {
	s := make([]string, len(p))
	for i, v := range p {
		s[i] = strconv.Itoa(v)
	}
	return strings.Join(s, ",")
}
func tblB01(b bool) string {
	if b {
		return "1"
	}
	return "0"
}

func (h *tableHist) opStr(o tableOp) string {
	switch o.kind {
	case 'I':
		return "I"
	case 'F':
		return "F" + tblB01(o.flag) + ":" + h.nodeStr(o.n)
	case 'N':
		return "N:" + h.nodeStr(o.n)
	case 'B':
		return "B:" + h.nodesStr(o.nodes)
	case 'D':
		return fmt.Sprintf("D:%d:%d", o.idx, o.picks[0])
	case 'R':
		return "R" + tblB01(o.dueFast) + tblB01(o.dueSlow) + ":" + tblPicksStr(o.picks)
	case 'A':
		rec := "-"
		if o.hasRec {
			rec = h.nodeStr(o.n)
		}
		return fmt.Sprintf("A:%d:%s:%s:%d", o.idx, tblB01(o.flag), rec, o.picks[0])
	case 'P':
		rec := "-"
		if o.hasRec {
			rec = h.nodeStr(o.n)
		}
		return fmt.Sprintf("P:%d:%s:%d:%s:%d", o.idx, tblB01(o.flag), o.pingSeq, rec, o.picks[0])
	case 'T':
		return fmt.Sprintf("T:%s:%s:%s:%d", h.nodeStr(o.n), tblB01(o.flag), h.nodesStr(o.nodes), o.picks[0])
	}
	panic("op kind")
}

func tblParseNode(s string) tblNode {
	f := strings.Split(s, ".")
	var n tblNode
	n.idx, _ = strconv.Atoi(f[0])
	n.seq, _ = strconv.ParseUint(f[1], 10, 64)
	if f[2] != "x" {
		b, _ := hex.DecodeString(f[2])
		copy(n.ip[:], b)
		n.hasIP = true
	}
	p, _ := strconv.Atoi(f[3])
	n.port = uint16(p)
	return n
}
func tblParseNodes(s string) []tblNode {
	if s == "-" || s == "" {
		return nil
	}
	var out []tblNode
	for _, p := range strings.Split(s, ",") {
		out = append(out, tblParseNode(p))
	}
	return out
}
func tblParsePicks(s string) []int {
	var out []int
	if s == "" {
		return out
	}
	for _, p := range strings.Split(s, ",") {
		v, _ := strconv.Atoi(p)
		out = append(out, v)
	}
	return out
}
func parseTableOp(s string) tableOp {
	f := strings.Split(s, ":")
	var o tableOp
	o.kind = s[0]
	switch o.kind {
	case 'I':
	case 'F':
		o.flag = s[1] == '1'
		o.n = tblParseNode(f[1])
	case 'N':
		o.n = tblParseNode(f[1])
	case 'B':
		o.nodes = tblParseNodes(f[1])
	case 'D':
		o.idx, _ = strconv.Atoi(f[1])
		o.picks = tblParsePicks(f[2])
	case 'R':
		o.dueFast, o.dueSlow = s[1] == '1', s[2] == '1'
		o.picks = tblParsePicks(f[1])
	case 'A':
		o.idx, _ = strconv.Atoi(f[1])
		o.flag = f[2] == "1"
		if f[3] != "-" {
			o.hasRec = true
			o.n = tblParseNode(f[3])
		}
		o.picks = tblParsePicks(f[4])
	case 'P':
		o.idx, _ = strconv.Atoi(f[1])
		o.flag = f[2] == "1"
		o.pingSeq, _ = strconv.ParseUint(f[3], 10, 64)
		if f[4] != "-" {
			o.hasRec = true
			o.n = tblParseNode(f[4])
		}
		o.picks = tblParsePicks(f[5])
	case 'T':
		o.n = tblParseNode(f[1])
		o.flag = f[2] == "1"
		o.nodes = tblParseNodes(f[3])
		o.picks = tblParsePicks(f[4])
	}
	return o
}

// ---- snapshot printing

func (h *tableHist) ix(id enode.ID) string {
	if i, ok := h.index[id]; ok {
		return strconv.Itoa(i)
	}
	return "?" + hex.EncodeToString(id[:4])
}
func (h *tableHist) entryStr(e portalwire.VerifEntry) string {
	return fmt.Sprintf("%s.%d.%s.%d.%d.%s.%s", h.ix(e.ID), e.Seq, tblIPStr(e.IP), e.Port, e.Checks, tblB01(e.Live), e.List)
}
func (h *tableHist) entriesStr(es []portalwire.VerifEntry) string {
	p := make([]string, len(es))
	for i, e := range es {
		p[i] = h.entryStr(e)
	}
	return strings.Join(p, ",")
}
func tblIPSetStr(m map[string]uint) string {
	type kv struct {
		k uint32
		c uint
	}
	var l []kv
	for p, c := range m {
		pf, err := netip.ParsePrefix(p)
		if err != nil {
			panic(err)
		}
		a := pf.Addr()
		if a.Is4In6() {
			a = netip.AddrFrom4(a.As4())
		}
		b := a.As4()
		l = append(l, kv{uint32(b[0])<<16 | uint32(b[1])<<8 | uint32(b[2]), c})
	}
	sort.Slice(l, func(i, j int) bool { return l[i].k < l[j].k })
	s := make([]string, len(l))
	for i, e := range l {
		s[i] = fmt.Sprintf("%x.%d", e.k, e.c)
	}
	return strings.Join(s, ",")
}
func (h *tableHist) idsStr(ids []enode.ID) string {
	p := make([]string, len(ids))
	for i, id := range ids {
		p[i] = h.ix(id)
	}
	return strings.Join(p, ",")
}

// components returns the snapshot as ordered (key, value) pairs.
func (h *tableHist) components(s portalwire.VerifSnapshot, withLists bool) (keys []string, vals map[string]string) {
	vals = map[string]string{}
	for j, b := range s.Buckets {
		k := "b" + strconv.Itoa(j)
		keys = append(keys, k)
		vals[k] = h.entriesStr(b.Entries) + "~" + h.entriesStr(b.Replacements) + "~" + tblIPSetStr(b.IPs)
	}
	keys = append(keys, "t")
	vals["t"] = tblIPSetStr(s.IPs)
	if withLists {
		keys = append(keys, "f", "s", "a", "x")
		vals["f"] = h.idsStr(s.Fast)
		vals["s"] = h.idsStr(s.Slow)
		type av struct {
			i   int
			att bool
			sq  uint64
		}
		var al []av
		for _, a := range s.Active {
			al = append(al, av{h.index[a.ID], a.Attached, a.StartSeq})
		}
		sort.Slice(al, func(i, j int) bool { return al[i].i < al[j].i })
		ap := make([]string, len(al))
		for i, a := range al {
			ap[i] = fmt.Sprintf("%d.%s.%d", a.i, tblB01(a.att), a.sq)
		}
		vals["a"] = strings.Join(ap, ",")
		type fv struct {
			i  int
			ip string
			f  int
		}
		var fl []fv
		for _, f := range s.Fails {
			fl = append(fl, fv{h.index[f.ID], tblIPStr(f.IP), f.Fails})
		}
		sort.Slice(fl, func(i, j int) bool {
			if fl[i].i != fl[j].i {
				return fl[i].i < fl[j].i
			}
			return fl[i].ip < fl[j].ip
		})
		fp := make([]string, len(fl))
		for i, f := range fl {
			fp[i] = fmt.Sprintf("%d.%s.%d", f.i, f.ip, f.f)
		}
		vals["x"] = strings.Join(fp, ",")
	}
	keys = append(keys, "n")
	vals["n"] = tblB01(s.InitDone)
	return
}

func tblDeltaStr(keys []string, prev, cur map[string]string) string {
	var p []string
	for _, k := range keys {
		if prev == nil || prev[k] != cur[k] {
			p = append(p, k+"="+cur[k])
		}
	}
	return strings.Join(p, "&")
}

// ---- execution of one operation on the real table

func (h *tableHist) apply(v *portalwire.VerifTable, o tableOp) (outcome string) {
	switch o.kind {
	case 'I':
		v.SetInitDone()
	case 'F':
		v.AddNode(h.real(o.n), false, o.flag)
	case 'N':
		v.AddNode(h.real(o.n), true, false)
	case 'B':
		ns := make([]*enode.Node, len(o.nodes))
		for i, n := range o.nodes {
			ns[i] = h.real(n)
		}
		v.BulkAdd(ns)
	case 'D':
		v.Delete(portalwire.VerifMakeNode(h.pool[o.idx], 0, false, [4]byte{}, 0), o.picks[0])
	case 'R':
		v.RevalRun(o.dueFast, o.dueSlow, o.picks)
	case 'A':
		var rec *enode.Node
		if o.hasRec {
			rec = h.real(o.n)
		}
		v.RevalResp(h.pool[o.idx], o.flag, rec, o.picks[0])
	case 'P':
		var rec *enode.Node
		if o.hasRec {
			rec = h.real(o.n)
		}
		out := v.RevalPing(h.pool[o.idx], o.flag, o.pingSeq, o.hasRec, rec, o.picks[0])
		if !out.InFlight {
			return "-"
		}
		nr := "-"
		if out.NewRecord != nil {
			nr = fmt.Sprintf("%s.%d.%s.%d", h.ix(out.NewRecord.ID()), out.NewRecord.Seq(), tblIPStr(out.NewRecord.IPAddr()), out.NewRecord.UDP())
		}
		return tblB01(out.DidRespond) + "/" + nr
	case 'T':
		ns := make([]*enode.Node, len(o.nodes))
		for i, n := range o.nodes {
			ns[i] = h.real(n)
		}
		v.Track(h.real(o.n), o.flag, ns, o.picks[0])
	}
	return ""
}

// runHistory executes a history.  next is asked for the following operation with the current snapshot
// (generator) or returns the recorded ones (replay); ok=false ends the history.
func (h *tableHist) runHistory(c *Ctx, next func(step int, s portalwire.VerifSnapshot) (tableOp, bool)) string {
	v := portalwire.VerifNewTable(h.self)
	defer v.Close()
	snap := v.Snapshot()
	keys, prev := h.components(snap, true)
	keys = append(keys, "r")
	prev["r"] = ""
	snaps := []string{tblDeltaStr(keys, nil, prev)}
	var ops []string
	status := "ok"
	for step := 0; ; step++ {
		o, ok := next(step, snap)
		if !ok {
			break
		}
		ops = append(ops, h.opStr(o))
		c.Count("op_" + string(o.kind))
		v.RandLog()
		outcome := ""
		if p, msg := guard(func() { outcome = h.apply(v, o) }); p {
			status = fmt.Sprintf("panic %d %s", step, msg)
			c.Count("panic")
			break
		}
		for _, r := range v.RandLog() {
			c.Count("rand_" + strings.SplitN(r, ":", 2)[0])
		}
		snap = v.Snapshot()
		tableCoverage(c, snap)
		_, cur := h.components(snap, true)
		cur["r"] = outcome
		snaps = append(snaps, tblDeltaStr(keys, prev, cur))
		prev = cur
	}
	pool := make([]string, len(h.pool))
	for i, id := range h.pool {
		pool[i] = hex.EncodeToString(id[:])
	}
	opsS := strings.Join(ops, ";")
	if opsS == "" {
		opsS = "-"
	}
	return fmt.Sprintf("hist %s %s %s | %s %s", hex.EncodeToString(h.self[:]), strings.Join(pool, ","), opsS, status, strings.Join(snaps, "#"))
}

// ---- generator

func tblIDAtDist(r *Rng, self enode.ID, d int) enode.ID {
	if d == 0 {
		return self
	}
	// x has exactly d significant bits
	var x enode.ID
	copy(x[:], r.Bytes(32))
	top := 256 - d // number of leading zero bits
	for i := 0; i < 32; i++ {
		switch {
		case (i+1)*8 <= top:
			x[i] = 0
		case i*8 < top:
			keep := byte(0xff) >> uint(top-i*8)
			x[i] &= keep
			x[i] |= byte(0x80) >> uint(top-i*8)
		case i*8 == top:
			x[i] |= 0x80
		}
	}
	var id enode.ID
	for i := range id {
		id[i] = self[i] ^ x[i]
	}
	return id
}

type tableGen struct {
	c       *Ctx
	h       *tableHist
	ipMode  int // 0 mostly LAN, 1 mixed, 2 mostly public
	victims []int
	length  int
	small   []int // pool indices of a distance class with exactly 3, 4 or 5 ids (the 5-failures rule at the bucketSize/4 boundary)
	repfull int   // number of ids of the big distance class (pool indices 1..repfull): fill its bucket and its replacement list, then offer newcomers; 0 = off
	credit  int   // pool index of an entry that is revalidated repeatedly: answered pings build up credit, then unanswered ones; 0 = none
	alive   int   // credit scenario: answered pings still to deliver before the unanswered ones
	dead    int
	focus   int // pool index of a node that gets bursts of track requests (failures with a success in between); 0 = none
}

var tableSeqs = []int{0, 1, 1, 2, 3, 5}
var tablePorts = []int{30303, 30303, 30303, 30304, 0}

func (g *tableGen) ip() (bool, [4]byte) {
	r := g.c.Rng
	k := r.Intn(100)
	lanShare := []int{85, 50, 15, 8}[g.ipMode]
	switch {
	case k < lanShare:
		switch r.Intn(6) {
		case 0:
			return true, [4]byte{127, 0, 0, 1}
		case 1:
			return true, [4]byte{192, 168, 1, byte(1 + r.Intn(4))}
		case 2:
			return true, [4]byte{172, 16, 0, byte(1 + r.Intn(3))}
		default:
			return true, [4]byte{10, 0, byte(r.Intn(2)), byte(1 + r.Intn(30))}
		}
	case k < 96:
		nets := [][3]byte{{8, 8, 8}, {8, 8, 9}, {1, 2, 3}}
		n := nets[r.Intn(3)]
		if g.ipMode == 3 && r.Intn(8) != 0 {
			n = nets[0]
		}
		return true, [4]byte{n[0], n[1], n[2], byte(1 + r.Intn(40))}
	default:
		switch r.Intn(5) {
		case 0:
			return false, [4]byte{}
		case 1:
			return true, [4]byte{0, 0, 0, 0}
		case 2:
			return true, [4]byte{224, 0, 0, 1} // multicast: not a valid endpoint, IPAddr() stays invalid
		case 3:
			return true, [4]byte{169, 254, 1, 1}
		default:
			return true, [4]byte{172, 32, 0, 1} // just outside 172.16/12
		}
	}
}

func (g *tableGen) node(idx int) tblNode {
	r := g.c.Rng
	has, ip := g.ip()
	return tblNode{idx: idx, seq: uint64(r.Pick(tableSeqs)), hasIP: has, ip: ip, port: uint16(r.Pick(tablePorts))}
}
func (g *tableGen) anyIdx() int {
	r := g.c.Rng
	if r.Intn(60) == 0 {
		return 0 // self
	}
	return 1 + r.Intn(len(g.h.pool)-1)
}

func tblEntries(h *tableHist, s portalwire.VerifSnapshot) (ents []portalwire.VerifEntry) {
	for _, b := range s.Buckets {
		ents = append(ents, b.Entries...)
	}
	return
}

func (g *tableGen) next(step int, s portalwire.VerifSnapshot) (tableOp, bool) {
	if step >= g.length {
		return tableOp{}, false
	}
	r := g.c.Rng
	h := g.h
	ents := tblEntries(h, s)
	pick := func() int { return r.Intn(40) }
	// an existing entry, mutated record
	existing := func() (tblNode, bool) {
		if len(ents) == 0 {
			return tblNode{}, false
		}
		e := ents[r.Intn(len(ents))]
		n := tblNode{idx: h.index[e.ID], seq: e.Seq, port: uint16(e.Port)}
		if e.IP.IsValid() {
			n.hasIP = true
			n.ip = e.IP.As4()
		}
		switch r.Intn(6) {
		case 0, 1:
			n.seq = e.Seq + 1 + uint64(r.Intn(2))
		case 2:
			if n.seq > 0 {
				n.seq--
			}
		}
		switch r.Intn(5) {
		case 0, 1:
			n.hasIP, n.ip = g.ip()
		case 2:
			n.port = uint16(r.Pick(tablePorts))
		}
		return n, true
	}
	if len(g.small) > 0 {
		// bucket of exactly k = 3, 4, 5 entries: fill it, then report consecutive failed lookups against one of them
		present := map[int]*portalwire.VerifEntry{}
		for _, b := range s.Buckets {
			for i := range b.Entries {
				present[h.index[b.Entries[i].ID]] = &b.Entries[i]
			}
		}
		missing := -1
		for _, ix := range g.small {
			if present[ix] == nil {
				missing = ix
			}
		}
		target := g.small[0]
		switch {
		case missing >= 0 && r.Intn(2) == 0:
			g.c.Count("small_add")
			return tableOp{kind: 'F', n: tblNode{idx: missing, seq: 1, hasIP: true, ip: [4]byte{10, 0, 2, byte(1 + missing%200)}, port: 30303}, flag: true}, true
		case missing < 0 && present[target].IP.IsValid() && r.Intn(100) < 60:
			fe := present[target]
			n := tblNode{idx: target, seq: fe.Seq, hasIP: true, ip: fe.IP.As4(), port: uint16(fe.Port)}
			ok := r.Intn(15) == 0
			g.c.Count(fmt.Sprintf("small_track_k%d_ok%v", len(g.small), ok))
			return tableOp{kind: 'T', n: n, flag: ok, picks: []int{pick()}}, true
		}
	}
	if g.repfull > 0 && r.Intn(100) < 60 {
		// full bucket + full replacement list whose oldest member has a public address, then newcomers that the IP
		// check refuses (no address) or admits: the oldest replacement's address is released exactly when it is dropped
		var bk *portalwire.VerifBucket
		used := map[int]bool{}
		for i := range s.Buckets {
			for _, e := range append(append([]portalwire.VerifEntry{}, s.Buckets[i].Entries...), s.Buckets[i].Replacements...) {
				ix := h.index[e.ID]
				used[ix] = true
				if ix >= 1 && ix <= g.repfull {
					bk = &s.Buckets[i]
				}
			}
		}
		free := -1
		for ix := 1; ix <= g.repfull; ix++ {
			if !used[ix] {
				free = ix
				break
			}
		}
		if free > 0 {
			n := tblNode{idx: free, seq: 1, hasIP: true, ip: [4]byte{10, 0, 4, byte(free)}, port: 30303}
			switch {
			case bk == nil || len(bk.Entries) < 16:
				g.c.Count("repfull_fill_entries")
			case len(bk.Replacements) == 0:
				n.ip = [4]byte{8, 8, 9, byte(free)}
				g.c.Count("repfull_first_replacement_public")
			case len(bk.Replacements) < 10:
				g.c.Count("repfull_fill_replacements")
			default:
				switch r.Intn(4) {
				case 0, 1:
					n.hasIP = false
					g.c.Count("repfull_newcomer_refused")
				case 2:
					n.ip = [4]byte{1, 2, 3, byte(free)}
					g.c.Count("repfull_newcomer_public")
				default:
					g.c.Count("repfull_newcomer_lan")
				}
			}
			return tableOp{kind: 'F', n: n, flag: r.Intn(2) == 0}, true
		}
	}
	if g.credit > 0 && r.Intn(100) < 55 {
		// the liveness-credit scenario: the same entry answers several pings in a row (credit 3, 4, 5, ..), then stops
		// answering: the credit must go c -> c/3 -> .. -> 0 and the entry must leave at 0
		var ce *portalwire.VerifEntry
		for _, b := range s.Buckets {
			for i := range b.Entries {
				if h.index[b.Entries[i].ID] == g.credit {
					ce = &b.Entries[i]
				}
			}
		}
		inFlight := false
		stale := false // a request for the node that was removed meanwhile is still unanswered
		var startSeq uint64
		for _, a := range s.Active {
			if h.index[a.ID] == g.credit && a.Attached {
				inFlight, startSeq = true, a.StartSeq
			}
			if h.index[a.ID] == g.credit && !a.Attached {
				stale, startSeq = true, a.StartSeq
			}
		}
		switch {
		case stale && r.Intn(10) < 7:
			// the late answer for a node that is not in the table (or was re-added meanwhile)
			g.c.Count(fmt.Sprintf("credit_late_answer_present%v", ce != nil))
			if r.Intn(2) == 0 {
				return tableOp{kind: 'P', idx: g.credit, flag: r.Intn(2) == 0, pingSeq: startSeq, picks: []int{pick()}}, true
			}
			return tableOp{kind: 'A', idx: g.credit, flag: r.Intn(2) == 0, picks: []int{pick()}}, true
		case ce != nil && inFlight && r.Intn(6) == 0:
			// remove the node while its ping is in flight
			g.c.Count("credit_delete_in_flight")
			return tableOp{kind: 'D', idx: g.credit, picks: []int{pick()}}, true
		case ce == nil:
			if r.Intn(2) == 0 {
				g.c.Count("credit_add")
				return tableOp{kind: 'F', n: tblNode{idx: g.credit, seq: 1, hasIP: true, ip: [4]byte{10, 0, 3, 9}, port: 30303}, flag: r.Intn(2) == 0}, true
			}
		case inFlight:
			ok := g.alive > 0
			if ok {
				g.alive--
			} else {
				g.dead--
				if g.dead <= 0 {
					g.alive, g.dead = 3+r.Intn(8), 1+r.Intn(3)
				}
			}
			g.c.Count(fmt.Sprintf("credit_answer_ok%v_credit%d", ok, min(int(ce.Checks), 9)))
			if r.Intn(2) == 0 {
				o := tableOp{kind: 'P', idx: g.credit, flag: ok, pingSeq: startSeq, picks: []int{pick()}}
				if !ok {
					o.pingSeq = 0
				}
				return o, true
			}
			return tableOp{kind: 'A', idx: g.credit, flag: ok, picks: []int{pick()}}, true
		default:
			// start a revalidation request for exactly this entry: pick its position in the list it is on
			for i, id := range s.Fast {
				if h.index[id] == g.credit {
					return tableOp{kind: 'R', dueFast: true, dueSlow: false, picks: []int{i}}, true
				}
			}
			for i, id := range s.Slow {
				if h.index[id] == g.credit {
					return tableOp{kind: 'R', dueFast: false, dueSlow: true, picks: []int{i}}, true
				}
			}
		}
	}
	if g.focus > 0 {
		// the consecutive-failure scenario: keep one node in a bucket with >= 4 entries and report lookups against it,
		// mostly failures with an occasional success in between
		var fe *portalwire.VerifEntry
		blen := 0
		for _, b := range s.Buckets {
			for i := range b.Entries {
				if h.index[b.Entries[i].ID] == g.focus {
					fe = &b.Entries[i]
					blen = len(b.Entries)
				}
			}
		}
		switch {
		case fe == nil && r.Intn(3) == 0:
			g.c.Count("focus_add")
			return tableOp{kind: 'F', n: tblNode{idx: g.focus, seq: 1, hasIP: true, ip: [4]byte{10, 0, 1, 77}, port: 30303}, flag: r.Intn(2) == 0}, true
		case fe != nil && blen >= 4 && fe.IP.IsValid() && r.Intn(100) < 35:
			n := tblNode{idx: g.focus, seq: fe.Seq, hasIP: true, ip: fe.IP.As4(), port: uint16(fe.Port)}
			ok := r.Intn(5) == 0
			if ok {
				g.c.Count("focus_track_success")
			} else {
				g.c.Count("focus_track_failure")
			}
			var ns []tblNode
			if r.Intn(3) == 0 {
				ns = append(ns, g.node(g.anyIdx()))
			}
			return tableOp{kind: 'T', n: n, flag: ok, nodes: ns, picks: []int{pick()}}, true
		}
	}
	k := r.Intn(100)
	if !s.InitDone && (step == 3+g.length%7 || k < 2) {
		return tableOp{kind: 'I'}, true
	}
	switch {
	case k < 30: // add found
		if r.Intn(5) == 0 {
			if n, ok := existing(); ok {
				return tableOp{kind: 'F', n: n, flag: r.Intn(4) == 0}, true
			}
		}
		return tableOp{kind: 'F', n: g.node(g.anyIdx()), flag: r.Intn(3) == 0}, true
	case k < 40: // inbound
		if r.Intn(2) == 0 {
			if n, ok := existing(); ok {
				return tableOp{kind: 'N', n: n}, true
			}
		}
		return tableOp{kind: 'N', n: g.node(g.anyIdx())}, true
	case k < 45: // bulk
		cnt := 1 + r.Intn(8)
		ns := make([]tblNode, cnt)
		for i := range ns {
			ns[i] = g.node(g.anyIdx())
		}
		return tableOp{kind: 'B', nodes: ns}, true
	case k < 52: // delete
		idx := g.anyIdx()
		if len(ents) > 0 && r.Intn(4) != 0 {
			idx = h.index[ents[r.Intn(len(ents))].ID]
		}
		return tableOp{kind: 'D', idx: idx, picks: []int{pick()}}, true
	case k < 68: // revalidation run
		np := r.Pick([]int{0, 1, 2, 4, 8, 40})
		ps := make([]int, np)
		for i := range ps {
			ps[i] = r.Intn(300)
		}
		return tableOp{kind: 'R', dueFast: r.Intn(4) != 0, dueSlow: r.Intn(4) != 0, picks: ps}, true
	case k < 86: // revalidation answer
		if len(s.Active) == 0 {
			return tableOp{kind: 'R', dueFast: true, dueSlow: true, picks: []int{r.Intn(300), r.Intn(300)}}, true
		}
		a := s.Active[r.Intn(len(s.Active))]
		if r.Intn(2) == 0 {
			// through the real doRevalidate: the remote node answers the ping or not, announces a seq that is equal to /
			// higher than / lower than the captured one, and the ENR request fails or returns a record
			o := tableOp{kind: 'P', idx: h.index[a.ID], flag: r.Intn(10) < 7, picks: []int{pick()}}
			switch r.Intn(5) {
			case 0:
				o.pingSeq = a.StartSeq
			case 1:
				if a.StartSeq > 0 {
					o.pingSeq = a.StartSeq - 1
				}
			default:
				o.pingSeq = a.StartSeq + 1 + uint64(r.Intn(2))
			}
			if !o.flag && r.Intn(3) != 0 {
				o.pingSeq = 0 // a real transport reports seq 0 together with the error
			}
			if r.Intn(10) < 6 {
				o.hasRec = true
				n := g.node(o.idx)
				for _, e := range ents {
					if e.ID == a.ID && r.Intn(2) == 0 { // same endpoint as stored
						n.port = uint16(e.Port)
						if e.IP.IsValid() {
							n.hasIP, n.ip = true, e.IP.As4()
						}
					}
				}
				switch r.Intn(4) {
				case 0:
					n.seq = a.StartSeq // not higher: bumpInBucket ignores it
				case 1:
					if a.StartSeq > 0 {
						n.seq = a.StartSeq - 1
					}
				default:
					n.seq = o.pingSeq + uint64(r.Intn(2))
				}
				o.n = n
			}
			g.c.Count(fmt.Sprintf("ping_ok%v_seqhigher%v_enr%v", o.flag, o.pingSeq > a.StartSeq, o.hasRec))
			return o, true
		}
		o := tableOp{kind: 'A', idx: h.index[a.ID], flag: r.Intn(10) < 6, picks: []int{pick()}}
		if r.Intn(30) == 0 {
			o.idx = g.anyIdx() // possibly not in flight
		}
		if r.Intn(10) < 4 {
			o.hasRec = true
			// the current record of that node, changed
			found := false
			for _, e := range ents {
				if e.ID == a.ID {
					n := tblNode{idx: o.idx, seq: e.Seq + uint64(r.Intn(3)), port: uint16(e.Port)}
					if e.IP.IsValid() {
						n.hasIP, n.ip = true, e.IP.As4()
					}
					if r.Intn(2) == 0 {
						n.hasIP, n.ip = g.ip()
					}
					if r.Intn(4) == 0 {
						n.port = uint16(r.Pick(tablePorts))
					}
					o.n = n
					found = true
				}
			}
			if !found || r.Intn(12) == 0 {
				if n, ok := existing(); ok && r.Intn(2) == 0 {
					o.n = n // a record of some other node
				} else {
					o.n = g.node(o.idx)
				}
			}
		}
		return o, true
	default: // track
		var n tblNode
		if len(g.victims) > 0 && r.Intn(3) != 0 {
			v := g.victims[r.Intn(len(g.victims))]
			n = tblNode{idx: v, seq: 1, hasIP: true, ip: [4]byte{10, 0, 0, byte(1 + v%3)}, port: 30303}
			// use the stored address when the node is in the table, so that the counter key is stable
			for _, e := range ents {
				if h.index[e.ID] == v && e.IP.IsValid() {
					n.ip = e.IP.As4()
				}
			}
		} else if e, ok := existing(); ok && r.Intn(2) == 0 {
			n = e
		} else {
			n = g.node(g.anyIdx())
		}
		cnt := r.Pick([]int{0, 0, 1, 2, 4})
		ns := make([]tblNode, cnt)
		for i := range ns {
			ns[i] = g.node(g.anyIdx())
			if r.Intn(6) == 0 {
				ns[i] = g.node(n.idx) // the failing node itself comes back among the found nodes
			}
		}
		return tableOp{kind: 'T', n: n, flag: r.Intn(10) < 3, nodes: ns, picks: []int{pick()}}, true
	}
}

func newTableHist(c *Ctx) (*tableHist, *tableGen) {
	r := c.Rng
	h := &tableHist{index: map[enode.ID]int{}}
	copy(h.self[:], r.Bytes(32))
	h.pool = []enode.ID{h.self}
	// ids by log distance: few buckets, so that they fill
	shape := r.Intn(6)
	smallDist := 0
	var dists []int
	var small []int
	add := func(d, n int) {
		for i := 0; i < n; i++ {
			dists = append(dists, d)
		}
	}
	switch shape {
	case 0:
		add(256, 34)
		add(255, 8)
		add(240, 3)
		add(239, 2)
	case 1:
		add(256, 20)
		add(255, 20)
		add(254, 6)
		add(241, 2)
		add(100, 2)
	case 2:
		add(240, 10)
		add(239, 10)
		add(200, 6)
		add(1, 2)
		add(256, 12)
		add(250, 3)
	case 5: // one bucket with exactly 3, 4 or 5 ids: the bucketSize/4 guard of the 5-failures rule
		add(256, 14)
		smallDist = 255 - r.Intn(3)
		add(smallDist, 3+r.Intn(3))
		add(250, 2)
	case 4: // many buckets, few ids each: the table-wide /24 limit binds before the bucket limits add up
		for d := 256; d >= 249; d-- {
			add(d, 5)
		}
	default:
		add(256, 12)
		add(255, 6)
		add(254, 4)
		add(253, 3)
		add(248, 2)
		add(242, 2)
		add(3, 1)
	}
	for _, d := range dists {
		id := tblIDAtDist(r, h.self, d)
		if _, dup := h.index[id]; dup || id == h.self {
			continue
		}
		h.index[id] = len(h.pool)
		if d == smallDist {
			small = append(small, len(h.pool))
		}
		h.pool = append(h.pool, id)
	}
	h.index[h.self] = 0
	g := &tableGen{c: c, h: h, ipMode: r.Intn(3), length: 20 + r.Intn(181)}
	if shape == 4 {
		g.ipMode = 3
		g.length = 120 + r.Intn(81)
	}
	if r.Intn(3) == 0 {
		g.length = 20 + r.Intn(40)
	}
	for i := 0; i < 3; i++ {
		g.victims = append(g.victims, 1+r.Intn(len(h.pool)-1))
	}
	g.small = small
	if len(small) > 0 {
		c.Count(fmt.Sprintf("small_bucket_%d", len(small)))
	} else if r.Intn(2) == 0 && len(h.pool) > 2 {
		g.focus = 1 + r.Intn(2) // the first ids of the pool are in the most populated distance class
		c.Count("focus_history")
	}
	if shape == 0 && r.Intn(2) == 0 {
		g.repfull = 34
		g.focus = 0
		c.Count("repfull_history")
	} else if len(small) == 0 && len(h.pool) > 4 && r.Intn(5) < 2 {
		g.credit, g.alive, g.dead = 3, 3+r.Intn(3), 2
		c.Count("credit_history")
	}
	c.Count(fmt.Sprintf("pool_shape_%d", shape))
	c.Count(fmt.Sprintf("ip_mode_%d", g.ipMode))
	return h, g
}

func parseHistLine(ln string) (*tableHist, []tableOp, bool) {
	f := strings.Fields(strings.SplitN(ln, "|", 2)[0])
	if len(f) < 4 || (f[0] != "hist" && f[0] != "conc") {
		return nil, nil, false
	}
	h := &tableHist{index: map[enode.ID]int{}}
	b, _ := hex.DecodeString(f[1])
	copy(h.self[:], b)
	for i, p := range strings.Split(f[2], ",") {
		var id enode.ID
		b, _ := hex.DecodeString(p)
		copy(id[:], b)
		h.pool = append(h.pool, id)
		if _, ok := h.index[id]; !ok {
			h.index[id] = i
		}
	}
	var ops []tableOp
	if f[0] == "hist" && f[3] != "-" {
		for _, s := range strings.Split(f[3], ";") {
			ops = append(ops, parseTableOp(s))
		}
	}
	return h, ops, f[0] == "hist"
}

func runTable(c *Ctx, prop string) {
	if len(c.Args) >= 2 && c.Args[0] == "replay" {
		for _, ln := range readReplayCases(c.Args[1]) {
			h, ops, isHist := parseHistLine(ln)
			if h == nil {
				continue
			}
			if !isHist {
				n, _ := strconv.Atoi(strings.Fields(ln)[3])
				c.Emit("%s", tableConcurrent(c, h, n))
				continue
			}
			c.Emit("%s", h.runHistory(c, func(step int, _ portalwire.VerifSnapshot) (tableOp, bool) {
				if step < len(ops) {
					return ops[step], true
				}
				return tableOp{}, false
			}))
		}
		return
	}
	if prop == "C18" {
		c.Rng = NewRng(c.Seed ^ 0x18181818)
	}
	n := c.N
	if n == 0 {
		n = 250
		if c.Tier == "thorough" {
			n = 2000
		}
	}
	for i := 0; i < n; i++ {
		h, g := newTableHist(c)
		c.Emit("%s", h.runHistory(c, g.next))
	}
	if prop == "C07" {
		// concurrent part (testing): the same kinds of operations fired from 8 goroutines at the running loop
		rounds := 6
		if c.Tier == "thorough" {
			rounds = 60
		}
		for i := 0; i < rounds; i++ {
			h, _ := newTableHist(c)
			c.Emit("%s", tableConcurrent(c, h, 400))
			c.Count("concurrent_round")
		}
	}
}

// tableConcurrent fires nops operations from 8 goroutines at a table whose loop() is running and
// prints the final snapshot (buckets and IP sets).
func tableConcurrent(c *Ctx, h *tableHist, nops int) string {
	v := portalwire.VerifNewRunningTable(h.self)
	var wg sync.WaitGroup
	seeds := make([]uint64, 8)
	for i := range seeds {
		seeds[i] = c.Rng.U64()
	}
	for w := 0; w < 8; w++ {
		wg.Add(1)
		go func(w int) {
			defer wg.Done()
			cc := &Ctx{Rng: NewRng(seeds[w]), Stats: map[string]int{}}
			g := &tableGen{c: cc, h: h, ipMode: w % 4}
			r := cc.Rng
			for i := 0; i < nops/8; i++ {
				n := g.node(g.anyIdx())
				switch r.Intn(10) {
				case 0, 1, 2, 3:
					v.AsyncAddFound(h.real(n), r.Intn(3) == 0)
				case 4, 5:
					v.AsyncAddInbound(h.real(n))
				case 6:
					v.AsyncDelete(h.real(n))
				case 7:
					v.AdvanceClock(4 * time.Second)
				default:
					found := []*enode.Node{h.real(g.node(g.anyIdx())), h.real(g.node(g.anyIdx()))}
					v.AsyncTrack(h.real(n), r.Intn(4) == 0, found)
				}
			}
		}(w)
	}
	wg.Wait()
	snap := v.SnapshotRunning()
	v.Close()
	keys, cur := h.components(snap, false)
	pool := make([]string, len(h.pool))
	for i, id := range h.pool {
		pool[i] = hex.EncodeToString(id[:])
	}
	return fmt.Sprintf("conc %s %s %d | ok %s", hex.EncodeToString(h.self[:]), strings.Join(pool, ","), nops, tblDeltaStr(keys, nil, cur))
}

// tableCoverage counts the boundary situations a step ends in (goes to the evidence).
func tableCoverage(c *Ctx, s portalwire.VerifSnapshot) {
	for _, b := range s.Buckets {
		if len(b.Entries) == 16 {
			c.Count("state_bucket_full")
		}
		if len(b.Replacements) == 10 {
			c.Count("state_replacements_full")
		}
		for _, n := range b.IPs {
			if n == 2 {
				c.Count("state_bucket_ip_at_limit")
			}
		}
	}
	for _, n := range s.IPs {
		if n == 10 {
			c.Count("state_table_ip_at_limit")
		}
	}
	for _, a := range s.Active {
		if !a.Attached {
			c.Count("state_request_for_removed_node")
		}
	}
	for _, f := range s.Fails {
		if f.Fails >= 5 {
			c.Count("state_fails_ge_5")
		}
	}
	if len(s.Slow) > 0 {
		c.Count("state_slow_list_nonempty")
	}
}
