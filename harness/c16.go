//go:build c16 || all

package main

import (
	"bytes"
	"context"
	"crypto/ecdsa"
	"encoding/binary"
	"fmt"
	"github.com/ethereum/go-ethereum/log"
	"log/slog"
	"net"
	"os"
	"os/exec"
	"runtime"
	"strings"
	"sync"
	"sync/atomic"
	"time"

	"github.com/ethereum/go-ethereum/crypto"
	"github.com/ethereum/go-ethereum/p2p/discover"
	"github.com/ethereum/go-ethereum/p2p/enode"
	"github.com/ethereum/go-ethereum/p2p/enr"
	"github.com/zen-eth/shisui/portalwire"
	"github.com/zen-eth/shisui/storage"
)

// C16: transfer slots are bounded and always given back.  Everything below runs the REAL code: complete protocol
// instances (real discv5 + uTP on 127.0.0.1), real permits of the node's utpController, scripted peers that are plain
// discv5 instances answering OFFER with chosen bytes.  Lines (limit = MaxUtpConnSize of node A):
//
//	offer <step> <limit> <permit> <ver> | ok calls=<n> res=<ok|err> free=<f>
//	    A.offer(peer, req, permit) (shutdown-before-transfer: A.processOffer on a cancelled node).  permit=real: a permit from
//	    A's GetOutboundPermit wrapped in a call counter; permit=counting: the counter alone (no slot behind it).
//	    calls = Release calls seen on the permit after quiescence, free = outbound permits obtainable after quiescence.
//	gossip <limit> <targets> <room> | ok queued=<q> free=<f>
//	    real GossipAndReturnPeers on a node whose offer workers are not running, `room` free places in the offer queue
//	gossipdrain <limit> <targets> <rounds> <queue-capacity> <total targets seen> | ok queued=<q> free_before=<f> free_after=<g>
//	    the same with an empty queue and limit > queue size until the queue overflows; then the workers are started and
//	    every queued offer runs through offerWorker -> offer -> processOffer against peers answering with an empty reply
//	shutdownqueued <limit> <targets> | ok queued=<q> free=<f>      gossip, then Stop() with the requests still queued
//	in <outcome> <limit> <via> <ver> | ok accepted=<0|1> free_mid=<m> free=<f> delivered=<0|1>
//	    handleOffer on A (via=direct: handler call, via=talkreq: a real TALKREQ OFFER from a peer); free_mid = inbound
//	    permits obtainable while the transfer is pending ("-" when that moment cannot be observed), free = after quiescence
//	stall <limit> <held0> v<ver> | ok first=<0|1> during=<f> second=<0|1> delivered=<0|1> after=<f>
//	    receiver with `limit` inbound slots of which held0 are taken by the harness; a real TALKREQ OFFER is accepted, the
//	    sender dials the announced connection id and STALLS (stream open, nothing written); during the stall: free inbound
//	    slots (during) and a second TALKREQ OFFER of another key (second = it was accepted); then the first sender writes
//	    and closes (delivered), a second accepted transfer is completed too, after = free slots at quiescence
//	ostall <limit> <held0> v<ver> | ok res=<ok|err> during=<f> calls_during=<n> after=<f> calls=<n>
//	    outbound: `held0` outbound slots taken by the harness, one more taken for an offer that the peer ACCEPTS with a
//	    connection id on which no uTP stream ever comes up: the transfer goroutine keeps dialling.  during / calls_during =
//	    free outbound slots and Release calls seen 400 ms after offer() returned, after / calls = at quiescence
//	permops <in|out> <limit> <ops> | ok s=<got>:<free>,<got>:<free>,..
//	    any sequence of Get..Permit / Release / S (P.Utp.Start() once more, as every further sub-network does on the shared
//	    service) on the node's real utpController; ops = ','-separated g (Get), S, or r<i> (Release
//	    through the i-th handle ever handed out, again and again if the sequence says so); per step: got (1/0, - for a
//	    release) and the number of slots obtainable right after the step
//	laterelease <limit> v<ver> | ok a=<0|1> b=<0|1> during=<f> c=<0|1> after=<f>
//	    inbound: transfer A completes over uTP and its receive goroutine is parked right after "release permit fast" (a
//	    blocking log handler on the trace line that follows); OFFER B is accepted (takes the freed slot); A's goroutine is let
//	    go (its deferred Release runs); then: free inbound slots while B is in progress, a third OFFER C, slots at the end
//	restart <limit> v<ver> | ok o1=<0|1> o2=<0|1> free=<f> o3=<0|1>
//	    inbound, limit-1 slots held by the harness: OFFER 1 is accepted (its sender never dials), OFFER 2 is rate limited,
//	    P.Utp.Start() is called again, free = inbound slots obtainable after it, OFFER 3 must still be rate limited
//	instress <limit> <n> | ok accepted=<a> free=<f>                n offers of distinct keys at once, then Stop()
//	stress <limit> <k> <m> | ok peak=<p> free=<f>                  k goroutines x m offers, peak = most slots held at once
func init() { registry["C16"] = runC16 }

// ---------------------------------------------------------------- helpers

type c16gen struct {
	mu  sync.Mutex
	rng *Rng
}

func (g *c16gen) key() *ecdsa.PrivateKey {
	g.mu.Lock()
	defer g.mu.Unlock()
	for {
		k, err := crypto.ToECDSA(g.rng.Bytes(32))
		if err == nil {
			return k
		}
	}
}
func (g *c16gen) bytes(n int) []byte {
	g.mu.Lock()
	defer g.mu.Unlock()
	return g.rng.Bytes(n)
}
func (g *c16gen) intn(n int) int {
	g.mu.Lock()
	defer g.mu.Unlock()
	return g.rng.Intn(n)
}

// c16permit counts Release calls and forwards them to the permit it wraps.
type c16permit struct {
	inner   portalwire.Permit
	calls   atomic.Int32
	onFirst func()
}

func (p *c16permit) Release() {
	if p.calls.Add(1) == 1 && p.onFirst != nil {
		p.onFirst()
	}
	p.inner.Release()
}

// c16free counts how many permits can be obtained right now (and gives them back).
func c16free(get func() (portalwire.Permit, bool), limit int) int {
	var got []portalwire.Permit
	for len(got) < limit+8 {
		p, ok := get()
		if !ok {
			break
		}
		got = append(got, p)
	}
	for _, p := range got {
		p.Release()
	}
	return len(got)
}

// c16settle polls until cond() or the deadline.
func c16settle(d time.Duration, cond func() bool) {
	end := time.Now().Add(d)
	for !cond() && time.Now().Before(end) {
		time.Sleep(10 * time.Millisecond)
	}
}

func c16node(g *c16gen, limit int, vers []byte, qcap int, workers bool) (*portalwire.VerifONode, chan *portalwire.ContentElement) {
	q := make(chan *portalwire.ContentElement, qcap)
	n, err := portalwire.VerifOSNewNode(portalwire.VerifONodeConfig{Key: g.key(), Versions: vers, MaxUtpConn: limit,
		Storage: storage.NewMockStorage(), ContentQueue: q}, workers)
	if err != nil {
		panic(err)
	}
	return n, q
}

// c16record: a signed record for 127.0.0.1:port with a "pv" entry.
func c16record(key *ecdsa.PrivateKey, pv []byte, port int) *enode.Node {
	var r enr.Record
	r.Set(enr.IP{127, 0, 0, 1})
	r.Set(enr.UDP(port))
	if pv != nil {
		r.Set(enr.WithEntry("pv", append([]byte{}, pv...)))
	}
	if err := enode.SignV4(&r, key); err != nil {
		panic(err)
	}
	n, err := enode.New(enode.ValidSchemes, &r)
	if err != nil {
		panic(err)
	}
	return n
}

// c16deadPort: a UDP port on which nothing listens.
func c16deadPort() int {
	c, err := net.ListenUDP("udp", &net.UDPAddr{IP: net.IP{127, 0, 0, 1}, Port: 0})
	if err != nil {
		panic(err)
	}
	p := c.LocalAddr().(*net.UDPAddr).Port
	c.Close()
	return p
}

// c16peer: a plain discv5 instance whose handler for the history protocol answers OFFER with scripted bytes.
type c16peer struct {
	disc *discover.UDPv5
	ln   *enode.LocalNode
	addr *net.UDPAddr
}

func c16newPeer(g *c16gen, pv []byte, reply func(req []byte) []byte) *c16peer {
	conn, err := net.ListenUDP("udp", &net.UDPAddr{IP: net.IP{127, 0, 0, 1}, Port: 0})
	if err != nil {
		panic(err)
	}
	key := g.key()
	db, err := enode.OpenDB("")
	if err != nil {
		panic(err)
	}
	ln := enode.NewLocalNode(db, key)
	ln.SetFallbackIP(net.IP{127, 0, 0, 1})
	ln.SetStaticIP(net.IP{127, 0, 0, 1})
	ln.SetFallbackUDP(conn.LocalAddr().(*net.UDPAddr).Port)
	if pv != nil {
		ln.Set(enr.WithEntry("pv", append([]byte{}, pv...)))
	}
	disc, err := discover.ListenV5(conn, ln, discover.Config{PrivateKey: key})
	if err != nil {
		panic(err)
	}
	disc.RegisterTalkHandler(string(portalwire.History), func(_ *enode.Node, _ *net.UDPAddr, req []byte) []byte {
		if len(req) > 0 && req[0] == portalwire.OFFER {
			return reply(req)
		}
		return nil
	})
	return &c16peer{disc: disc, ln: ln, addr: conn.LocalAddr().(*net.UDPAddr)}
}
func (p *c16peer) Self() *enode.Node { return p.ln.Node() }
func (p *c16peer) Close()            { p.disc.Close() }

func c16pv(ver int) []byte {
	if ver == 0 {
		return []byte{0}
	}
	return []byte{0, 1}
}

// c16accept: ACCEPT message for `n` offered keys in the encoding of version ver; verdict per key: accept[i].
func c16accept(ver int, connId uint16, accept []bool) []byte {
	id := []byte{byte(connId >> 8), byte(connId)}
	var keys []byte
	if ver == 0 { // bitlist: bit i = accepted, then the length bit
		keys = make([]byte, len(accept)/8+1)
		for i, a := range accept {
			if a {
				keys[i/8] |= 1 << (i % 8)
			}
		}
		keys[len(accept)/8] |= 1 << (len(accept) % 8)
	} else {
		keys = make([]byte, len(accept))
		for i, a := range accept {
			if !a {
				keys[i] = byte(portalwire.GenericDeclined)
			}
		}
	}
	b, err := portalwire.VerifOAcceptBytes(uint8(ver), id, keys)
	if err != nil {
		panic(err)
	}
	return append([]byte{portalwire.ACCEPT}, b...)
}

func c16uvarint(n int) []byte {
	b := make([]byte, binary.MaxVarintLen64)
	return b[:binary.PutUvarint(b, uint64(n))]
}

// ---------------------------------------------------------------- outbound: offer()

var c16offerSteps = []string{"marshal-error", "silent-peer", "empty-reply", "wrong-code", "undecodable", "wrong-count",
	"all-declined", "shutdown-before-transfer", "dial-failure", "write-failure", "success"}

func c16slow(step string) bool {
	return step == "dial-failure" || step == "write-failure" || step == "success"
}

// c16offerCase runs one offer on node A (which it does not stop) and returns the line.
func c16offerCase(g *c16gen, A *portalwire.VerifONode, step string, limit int, mode string, ver int) string {
	key := append([]byte("c16-"), g.bytes(12)...)
	content := g.bytes(200)
	req := portalwire.VerifOTransientOffer([][]byte{key}, [][]byte{content})
	var inner portalwire.Permit = &portalwire.NoPermit{}
	if mode == "real" {
		p, ok := A.OutboundPermit()
		if !ok {
			return ""
		}
		inner = p
	}
	permit := &c16permit{inner: inner}
	var err error
	wait := 300 * time.Millisecond
	switch step {
	case "marshal-error":
		n := 65
		ks, cs := make([][]byte, n), make([][]byte, n)
		for i := range ks {
			ks[i], cs[i] = append([]byte{byte(i)}, key...), []byte{1}
		}
		if g.intn(2) == 0 { // one key longer than 2048 bytes instead
			ks, cs = [][]byte{make([]byte, 2049)}, [][]byte{{1}}
		}
		_, err = A.Offer(c16record(g.key(), c16pv(ver), c16deadPort()), portalwire.VerifOTransientOffer(ks, cs), permit)
	case "silent-peer":
		_, err = A.Offer(c16record(g.key(), c16pv(ver), c16deadPort()), req, permit)
	case "empty-reply", "wrong-code", "undecodable", "wrong-count", "all-declined", "dial-failure":
		var reply []byte
		switch step {
		case "empty-reply":
			reply = nil
		case "wrong-code":
			reply = []byte{portalwire.CONTENT, 0, 0}
		case "undecodable":
			reply = []byte{portalwire.ACCEPT, 1}
		case "wrong-count":
			reply = c16accept(ver, 7, []bool{true, false})
		case "all-declined":
			reply = c16accept(ver, 7, []bool{false})
		case "dial-failure":
			reply = c16accept(ver, uint16(1+g.intn(60000)), []bool{true}) // nobody listens for uTP on the peer
			wait = 25 * time.Second
		}
		peer := c16newPeer(g, c16pv(ver), func([]byte) []byte { return reply })
		defer peer.Close()
		_, err = A.Offer(peer.Self(), req, permit)
	case "shutdown-before-transfer":
		A.VerifOSCancel()
		_, err = A.ProcessOffer(c16record(g.key(), c16pv(ver), c16deadPort()), c16accept(ver, 9, []bool{true}), req, permit)
		wait = 2 * time.Second
	case "write-failure", "success":
		big := step == "write-failure"
		if big {
			content = g.bytes(6 << 20)
			req = portalwire.VerifOTransientOffer([][]byte{key}, [][]byte{content})
		}
		B, bq := c16node(g, 50, c16pv(ver), 4, true)
		stopped := false
		defer func() {
			if !stopped {
				B.Stop()
			}
		}()
		_, err = A.Offer(B.Self(), req, permit)
		wait = 15 * time.Second
		if big { // the receiver disappears in the middle of the transfer
			time.Sleep(40 * time.Millisecond)
			B.Stop()
			stopped = true
			wait = 100 * time.Second
		} else if err == nil {
			select {
			case <-bq:
			case <-time.After(15 * time.Second):
			}
		}
	}
	c16settle(wait, func() bool { return permit.calls.Load() >= 1 })
	free := limit
	if mode == "real" {
		c16settle(200*time.Millisecond, func() bool { return c16free(A.OutboundPermit, limit) == limit })
		free = c16free(A.OutboundPermit, limit)
	} else {
		free = c16free(A.OutboundPermit, limit)
	}
	res := "ok"
	if err != nil {
		res = "err"
	}
	return fmt.Sprintf("offer %s %d %s v%d | ok calls=%d res=%s free=%d", step, limit, mode, ver, permit.calls.Load(), res, free)
}

// ---------------------------------------------------------------- outbound: gossip

func c16addTargets(g *c16gen, A *portalwire.VerifONode, t int, live []*c16peer) {
	for i := 0; i < t; i++ {
		if i < len(live) {
			A.P.AddEnr(live[i].Self())
		} else {
			A.P.AddEnr(c16record(g.key(), []byte{0, 1}, c16deadPort()))
		}
	}
}

func c16gossip(A *portalwire.VerifONode, g *c16gen) int {
	key := append([]byte("c16-gossip-"), g.bytes(8)...)
	nodes, err := A.P.GossipAndReturnPeers(nil, [][]byte{key}, [][]byte{g.bytes(40)})
	if err != nil {
		panic(err)
	}
	return len(nodes)
}

func c16gossipCase(g *c16gen, limit, t, room int) string {
	A, _ := c16node(g, limit, []byte{0, 1}, 4, false)
	defer A.Stop()
	c16addTargets(g, A, t, nil)
	pre := A.FillOfferQueue(A.OfferQueueCap() - room)
	targets := c16gossip(A, g)
	queued := A.OfferQueueLen() - pre
	free := c16free(A.OutboundPermit, limit)
	return fmt.Sprintf("gossip %d %d %d | ok queued=%d free=%d", limit, targets, room, queued, free)
}

func c16gossipDrainCase(g *c16gen, limit, t, rounds int) string {
	A, _ := c16node(g, limit, []byte{0, 1}, 4, false)
	defer A.Stop()
	peers := make([]*c16peer, t)
	for i := range peers {
		peers[i] = c16newPeer(g, []byte{0, 1}, func([]byte) []byte { return nil })
		defer peers[i].Close()
	}
	c16addTargets(g, A, t, peers)
	// how many targets a round really has depends on the routing table at that moment (revalidation drops and re-adds
	// the scripted peers): the total is an observation handed to the model as an input, like a connection id
	total := 0
	for i := 0; i < rounds; i++ {
		total += c16gossip(A, g)
	}
	queued := A.OfferQueueLen()
	before := c16free(A.OutboundPermit, limit)
	A.VerifOSStartOfferWorkers()
	c16settle(30*time.Second, func() bool { return A.OfferQueueLen() == 0 })
	c16settle(3*time.Second, func() bool { return c16free(A.OutboundPermit, limit) == limit })
	after := c16free(A.OutboundPermit, limit)
	return fmt.Sprintf("gossipdrain %d %d %d %d %d | ok queued=%d free_before=%d free_after=%d", limit, t, rounds, A.OfferQueueCap(), total, queued, before, after)
}

func c16shutdownQueuedCase(g *c16gen, limit, t int) string {
	A, _ := c16node(g, limit, []byte{0, 1}, 4, false)
	c16addTargets(g, A, t, nil)
	targets := c16gossip(A, g)
	queued := A.OfferQueueLen()
	A.Stop()
	time.Sleep(50 * time.Millisecond)
	free := c16free(A.OutboundPermit, limit)
	return fmt.Sprintf("shutdownqueued %d %d | ok queued=%d free=%d", limit, targets, queued, free)
}

// ---------------------------------------------------------------- inbound: handleOffer

var c16inOutcomes = []string{"version-error", "filter-error", "no-key-accepted", "no-permit", "shutdown-before-select",
	"accept-failure", "accept-timeout", "read-decode-error", "read-count-mismatch", "read-enqueued", "read-queue-full"}

func c16inSlow(o string) bool { return o == "accept-timeout" }

// c16acceptedIn: does the ACCEPT answer (version 1 codes / version 0 bitlist) accept at least one key
func c16acceptedIn(ver int, resp []byte) (bool, uint16) {
	if len(resp) < 7 || resp[0] != portalwire.ACCEPT {
		return false, 0
	}
	id := binary.BigEndian.Uint16(resp[1:3])
	body := resp[7:]
	if ver == 0 {
		if len(body) == 0 {
			return false, id
		}
		// bits below the length bit
		n := -1
		for i := len(body)*8 - 1; i >= 0; i-- {
			if body[i/8]&(1<<(i%8)) != 0 {
				n = i
				break
			}
		}
		for i := 0; i < n; i++ {
			if body[i/8]&(1<<(i%8)) != 0 {
				return true, id
			}
		}
		return false, id
	}
	for _, b := range body {
		if b == byte(portalwire.Accepted) {
			return true, id
		}
	}
	return false, id
}

func c16inCase(g *c16gen, outcome string, limit int, via string, ver int) string {
	qcap := 4
	A, aq := c16node(g, limit, []byte{0, 1}, qcap, true)
	stopped := false
	stop := func() {
		if !stopped {
			stopped = true
			A.Stop()
		}
	}
	defer stop()
	key := append([]byte("c16-in-"), g.bytes(12)...)
	keys := [][]byte{key}
	peerPv := c16pv(ver)
	if outcome == "version-error" {
		peerPv = []byte{7}
	}
	// the offering side: a real node (it can open uTP connections) or a plain discv5 peer (talkreq without uTP)
	var B *portalwire.VerifONode
	var P *c16peer
	var from *enode.Node
	var fromAddr *net.UDPAddr
	needUtp := strings.HasPrefix(outcome, "read-")
	if needUtp || via == "direct" && outcome != "version-error" {
		B, _ = c16node(g, 50, peerPv, 4, true)
		defer B.Stop()
		from, fromAddr = B.Self(), B.Addr()
		if needUtp { // a discv5 session between the two (in the real exchange the OFFER talk request establishes it)
			B.Ping(A.Self())
		}
	} else {
		P = c16newPeer(g, peerPv, func([]byte) []byte { return nil })
		defer P.Close()
		from, fromAddr = P.Self(), P.addr
	}
	var held []portalwire.Permit
	switch outcome {
	case "filter-error":
		A.SetContentIdFunc(func([]byte) []byte { return nil })
	case "no-key-accepted":
		A.P.Put(key, A.P.ToContentId(key), []byte{1, 2, 3})
	case "no-permit":
		for {
			p, ok := A.InboundPermit()
			if !ok {
				break
			}
			held = append(held, p)
		}
	case "shutdown-before-select":
		A.VerifOSCancel()
	}
	var resp []byte
	if via == "talkreq" {
		ob, err := (&portalwire.Offer{ContentKeys: keys}).MarshalSSZ()
		if err != nil {
			panic(err)
		}
		msg := append([]byte{portalwire.OFFER}, ob...)
		if B != nil {
			resp, _ = B.P.DiscV5.TalkRequest(A.Self(), string(portalwire.History), msg)
		} else {
			resp, _ = P.disc.TalkRequest(A.Self(), string(portalwire.History), msg)
		}
	} else {
		resp, _ = A.HandleOffer(from, fromAddr, keys)
	}
	accepted, connId := c16acceptedIn(ver, resp)
	if outcome == "version-error" || outcome == "filter-error" || (outcome == "no-permit" && connId == 0) {
		accepted = false // (version 0 answers "accepted, connection id 0" without a slot: that is C09's subject, not a slot)
	}
	mid := "-"
	if outcome != "shutdown-before-select" {
		mid = fmt.Sprint(c16free(A.InboundPermit, limit))
	}
	for _, p := range held {
		p.Release()
	}
	acc, delivered := 0, 0
	if accepted {
		acc = 1
	}
	switch {
	case needUtp && accepted:
		if outcome == "read-queue-full" { // the validation queue fills up between ACCEPT and the arrival of the data
			for i := 0; i < qcap; i++ {
				aq <- &portalwire.ContentElement{}
			}
		}
		var payload []byte
		switch outcome {
		case "read-decode-error":
			payload = []byte{0x85, 0x01, 0x01} // announces 133 bytes, carries 1
		case "read-count-mismatch":
			payload = append(append(c16uvarint(3), 1, 2, 3), append(c16uvarint(2), 4, 5)...)
		default:
			payload = append(c16uvarint(5), 1, 2, 3, 4, 5)
		}
		ctx, cancel := context.WithTimeout(context.Background(), 10*time.Second)
		conn, err := B.P.Utp.DialWithCid(ctx, A.Self(), connId)
		if err == nil {
			conn.Write(ctx, payload)
			conn.Close()
		}
		cancel()
		if outcome == "read-enqueued" {
			select {
			case el := <-aq:
				if len(el.Contents) == 1 && len(el.Contents[0]) == 5 {
					delivered = 1
				}
			case <-time.After(10 * time.Second):
			}
		}
		c16settle(10*time.Second, func() bool { return c16free(A.InboundPermit, limit) == limit })
	case outcome == "accept-timeout" && accepted:
		c16settle(25*time.Second, func() bool { return c16free(A.InboundPermit, limit) == limit })
	case outcome == "accept-failure" && accepted:
		stop()
		c16settle(3*time.Second, func() bool { return c16free(A.InboundPermit, limit) == limit })
	default:
		c16settle(500*time.Millisecond, func() bool { return c16free(A.InboundPermit, limit) == limit })
	}
	free := c16free(A.InboundPermit, limit)
	return fmt.Sprintf("in %s %d %s v%d | ok accepted=%d free_mid=%s free=%d delivered=%d", outcome, limit, via, ver, acc, mid, free, delivered)
}

func c16inStressCase(g *c16gen, limit, n int) string {
	A, _ := c16node(g, limit, []byte{0, 1}, 4, true)
	B, _ := c16node(g, 50, []byte{0, 1}, 4, true)
	defer B.Stop()
	var accepted atomic.Int32
	var wg sync.WaitGroup
	for i := 0; i < n; i++ {
		key := append([]byte(fmt.Sprintf("c16-ins-%d-", i)), g.bytes(8)...)
		wg.Add(1)
		go func() {
			defer wg.Done()
			resp, _ := A.HandleOffer(B.Self(), B.Addr(), [][]byte{key})
			if ok, _ := c16acceptedIn(1, resp); ok {
				accepted.Add(1)
			}
		}()
	}
	wg.Wait()
	A.Stop()
	c16settle(3*time.Second, func() bool { return c16free(A.InboundPermit, limit) == limit })
	free := c16free(A.InboundPermit, limit)
	return fmt.Sprintf("instress %d %d | ok accepted=%d free=%d", limit, n, accepted.Load(), free)
}

// ---------------------------------------------------------------- inbound: slot held while the transfer is in progress

func c16talkOffer(from *portalwire.VerifONode, to *portalwire.VerifONode, ver int, key []byte) (bool, uint16) {
	ob, err := (&portalwire.Offer{ContentKeys: [][]byte{key}}).MarshalSSZ()
	if err != nil {
		panic(err)
	}
	resp, _ := from.P.DiscV5.TalkRequest(to.Self(), string(portalwire.History), append([]byte{portalwire.OFFER}, ob...))
	acc, id := c16acceptedIn(ver, resp)
	return acc && id != 0, id
}

func c16stallCase(g *c16gen, limit, held0, ver int) string {
	A, aq := c16node(g, limit, []byte{0, 1}, 8, true)
	defer A.Stop()
	B, _ := c16node(g, 50, c16pv(ver), 4, true)
	defer B.Stop()
	B.Ping(A.Self())
	var held []portalwire.Permit
	for i := 0; i < held0; i++ {
		if p, ok := A.InboundPermit(); ok {
			held = append(held, p)
		}
	}
	defer func() {
		for _, p := range held {
			p.Release()
		}
	}()
	key1 := append([]byte("c16-stall-1-"), g.bytes(10)...)
	key2 := append([]byte("c16-stall-2-"), g.bytes(10)...)
	first, during, second, delivered := 0, -1, 0, 0
	acc1, id1 := c16talkOffer(B, A, ver, key1)
	id1saved := id1
	if acc1 {
		first = 1
		ctx, cancel := context.WithTimeout(context.Background(), 10*time.Second)
		defer cancel()
		conn, err := B.P.Utp.DialWithCid(ctx, A.Self(), id1)
		if err == nil {
			// the stream is open and nothing has been written: the receiver sits in ReadToEOF
			time.Sleep(1200 * time.Millisecond)
			during = c16free(A.InboundPermit, limit)
			acc2, id2 := c16talkOffer(B, A, ver, key2)
			if acc2 {
				second = 1
			}
			conn.Write(ctx, append(c16uvarint(5), 1, 2, 3, 4, 5))
			conn.Close()
			select {
			case el := <-aq:
				if len(el.ContentKeys) == 1 && string(el.ContentKeys[0]) == string(key1) && len(el.Contents) == 1 && len(el.Contents[0]) == 5 {
					delivered = 1
				}
			case <-time.After(10 * time.Second):
			}
			if acc2 { // finish the second transfer as well so that its slot comes back without the 15 s accept timeout
				if c2, err := B.P.Utp.DialWithCid(ctx, A.Self(), id2); err == nil {
					c2.Write(ctx, append(c16uvarint(2), 7, 8))
					c2.Close()
					select {
					case <-aq:
					case <-time.After(10 * time.Second):
					}
				}
			}
		}
	}
	c16settle(10*time.Second, func() bool { return c16free(A.InboundPermit, limit) == limit-held0 })
	after := c16free(A.InboundPermit, limit)
	// the receive goroutine of a successfully handled offer loops and accepts again on the same connection id: does a
	// second stream get in (no slot is held for it any more)?
	restream := "-"
	if delivered == 1 {
		restream = "0"
		res := make(chan string, 1)
		go func() { // utp-go's ConnectWithCid can block regardless of its context: bounded from outside
			ctx3, cancel3 := context.WithTimeout(context.Background(), 3*time.Second)
			defer cancel3()
			c3, err := B.P.Utp.DialWithCid(ctx3, A.Self(), id1saved)
			if err != nil {
				res <- "0"
				return
			}
			c3.Write(ctx3, append(c16uvarint(3), 9, 9, 9))
			c3.Close()
			select {
			case <-aq:
				res <- "delivered"
			case <-time.After(3 * time.Second):
				res <- "connected"
			}
		}()
		select {
		case restream = <-res:
		case <-time.After(7 * time.Second):
		}
	}
	return fmt.Sprintf("stall %d %d v%d | ok first=%d during=%d second=%d delivered=%d after=%d restream=%s", limit, held0, ver, first, during, second, delivered, after, restream)
}

// ---------------------------------------------------------------- outbound: slot held while the transfer is in progress

func c16ostallCase(g *c16gen, limit, held0, ver int) string {
	A, _ := c16node(g, limit, []byte{0, 1}, 4, true)
	defer A.Stop()
	var held []portalwire.Permit
	for i := 0; i < held0; i++ {
		if p, ok := A.OutboundPermit(); ok {
			held = append(held, p)
		}
	}
	defer func() {
		for _, p := range held {
			p.Release()
		}
	}()
	inner, ok := A.OutboundPermit()
	if !ok {
		return fmt.Sprintf("ostall %d %d v%d | err 1", limit, held0, ver)
	}
	permit := &c16permit{inner: inner}
	reply := c16accept(ver, uint16(1+g.intn(60000)), []bool{true})
	peer := c16newPeer(g, c16pv(ver), func([]byte) []byte { return reply })
	defer peer.Close()
	key := append([]byte("c16-ostall-"), g.bytes(10)...)
	_, err := A.Offer(peer.Self(), portalwire.VerifOTransientOffer([][]byte{key}, [][]byte{g.bytes(64)}), permit)
	time.Sleep(400 * time.Millisecond) // the transfer goroutine is dialling (nothing answers on that connection id)
	during := c16free(A.OutboundPermit, limit)
	callsDuring := permit.calls.Load()
	c16settle(25*time.Second, func() bool { return c16free(A.OutboundPermit, limit) == limit-held0 && permit.calls.Load() >= 1 })
	after := c16free(A.OutboundPermit, limit)
	res := "ok"
	if err != nil {
		res = "err"
	}
	return fmt.Sprintf("ostall %d %d v%d | ok res=%s during=%d calls_during=%d after=%d calls=%d", limit, held0, ver, res, during, callsDuring, after, permit.calls.Load())
}

// ---------------------------------------------------------------- stale handles

func c16permopsCase(g *c16gen, dir string, limit int, ops string) string {
	A, _ := c16node(g, limit, []byte{0, 1}, 4, true)
	defer A.Stop()
	get := A.InboundPermit
	if dir == "out" {
		get = A.OutboundPermit
	}
	var handles []portalwire.Permit
	var obs []string
	for _, o := range strings.Split(ops, ",") {
		got := "-"
		if o == "g" {
			p, ok := get()
			handles = append(handles, p)
			got = "0"
			if ok {
				got = "1"
			}
		} else if o == "S" {
			A.P.Utp.Start()
		} else if strings.HasPrefix(o, "r") {
			if i := c16atoi(o[1:]); i < len(handles) {
				handles[i].Release()
			}
		}
		obs = append(obs, fmt.Sprintf("%s:%d", got, c16free(get, limit+2)))
	}
	return fmt.Sprintf("permops %s %d %s | ok s=%s", dir, limit, ops, strings.Join(obs, ","))
}

// c16blockLog parks whoever logs a message with the given prefix until release is closed.
type c16blockLog struct {
	prefix  string
	reached chan struct{}
	release chan struct{}
	once    sync.Once
}

func (h *c16blockLog) Enabled(context.Context, slog.Level) bool { return true }
func (h *c16blockLog) Handle(_ context.Context, r slog.Record) error {
	if strings.HasPrefix(r.Message, h.prefix) {
		h.once.Do(func() { close(h.reached) })
		<-h.release
	}
	return nil
}
func (h *c16blockLog) WithAttrs([]slog.Attr) slog.Handler { return h }
func (h *c16blockLog) WithGroup(string) slog.Handler      { return h }

func c16restartCase(g *c16gen, limit, ver int) string {
	A, _ := c16node(g, limit, []byte{0, 1}, 8, true)
	defer A.Stop()
	B, _ := c16node(g, 50, c16pv(ver), 4, true)
	defer B.Stop()
	B.Ping(A.Self())
	var held []portalwire.Permit
	for i := 0; i < limit-1; i++ {
		if p, ok := A.InboundPermit(); ok {
			held = append(held, p)
		}
	}
	defer func() {
		for _, p := range held {
			p.Release()
		}
	}()
	bit := func(b bool) int {
		if b {
			return 1
		}
		return 0
	}
	o1, _ := c16talkOffer(B, A, ver, append([]byte("c16-restart-1-"), g.bytes(8)...))
	o2, _ := c16talkOffer(B, A, ver, append([]byte("c16-restart-2-"), g.bytes(8)...))
	A.P.Utp.Start()
	free := c16free(A.InboundPermit, limit)
	o3, _ := c16talkOffer(B, A, ver, append([]byte("c16-restart-3-"), g.bytes(8)...))
	return fmt.Sprintf("restart %d v%d | ok o1=%d o2=%d free=%d o3=%d", limit, ver, bit(o1), bit(o2), free, bit(o3))
}

func c16lateReleaseCase(g *c16gen, limit, ver int) string {
	A, aq := c16node(g, limit, []byte{0, 1}, 8, true)
	defer A.Stop()
	B, _ := c16node(g, 50, c16pv(ver), 4, true)
	defer B.Stop()
	h := &c16blockLog{prefix: "<< OFFER_CONTENT", reached: make(chan struct{}), release: make(chan struct{})}
	A.P.Log = log.NewLogger(h)
	released := false
	let := func() {
		if !released {
			released = true
			close(h.release)
		}
	}
	defer let()
	B.Ping(A.Self())
	// limit-1 slots are taken by the harness: exactly one is left
	var held []portalwire.Permit
	for i := 0; i < limit-1; i++ {
		if p, ok := A.InboundPermit(); ok {
			held = append(held, p)
		}
	}
	defer func() {
		for _, p := range held {
			p.Release()
		}
	}()
	head := fmt.Sprintf("laterelease %d v%d", limit, ver)
	ctx, cancel := context.WithTimeout(context.Background(), 20*time.Second)
	defer cancel()
	a, b, cc, during := 0, 0, 0, -1
	accA, idA := c16talkOffer(B, A, ver, append([]byte("c16-late-a-"), g.bytes(8)...))
	if !accA {
		return head + " | err 1"
	}
	a = 1
	conn, err := B.P.Utp.DialWithCid(ctx, A.Self(), idA)
	if err != nil {
		return head + " | err 2"
	}
	conn.Write(ctx, append(c16uvarint(3), 1, 2, 3))
	conn.Close()
	select {
	case <-h.reached: // A's goroutine has made its fast release and is parked before handleOfferedContents
	case <-time.After(10 * time.Second):
		return head + " | err 3"
	}
	accB, idB := c16talkOffer(B, A, ver, append([]byte("c16-late-b-"), g.bytes(8)...))
	if accB {
		b = 1
	}
	let() // A's goroutine runs to its end: handleOfferedContents, return, deferred Release
	select {
	case <-aq:
	case <-time.After(10 * time.Second):
	}
	time.Sleep(200 * time.Millisecond)
	during = c16free(A.InboundPermit, limit)
	if accC, idC := c16talkOffer(B, A, ver, append([]byte("c16-late-c-"), g.bytes(8)...)); accC {
		cc = 1
		if c3, err := B.P.Utp.DialWithCid(ctx, A.Self(), idC); err == nil {
			c3.Write(ctx, append(c16uvarint(1), 9))
			c3.Close()
		}
	}
	if accB { // complete B
		if c2, err := B.P.Utp.DialWithCid(ctx, A.Self(), idB); err == nil {
			c2.Write(ctx, append(c16uvarint(2), 7, 8))
			c2.Close()
		}
	}
	c16settle(10*time.Second, func() bool { return c16free(A.InboundPermit, limit) == 1 })
	after := c16free(A.InboundPermit, limit)
	return fmt.Sprintf("%s | ok a=%d b=%d during=%d c=%d after=%d", head, a, b, during, cc, after)
}

// ---------------------------------------------------------------- outbound stress

func c16stressCase(g *c16gen, limit, k, m int) string {
	A, _ := c16node(g, limit, []byte{0, 1}, 4, true)
	defer A.Stop()
	peer := c16newPeer(g, []byte{0, 1}, func([]byte) []byte { return nil })
	defer peer.Close()
	rec := c16record(g.key(), []byte{0, 1}, c16deadPort())
	replies := [][]byte{nil, {portalwire.CONTENT}, {portalwire.ACCEPT, 1}, c16accept(1, 3, []bool{true, true}), c16accept(1, 3, []bool{false})}
	req := portalwire.VerifOTransientOffer([][]byte{[]byte("c16-stress")}, [][]byte{{1}})
	var held, peak atomic.Int32
	var wg sync.WaitGroup
	for i := 0; i < k; i++ {
		wg.Add(1)
		go func(i int) {
			defer wg.Done()
			for j := 0; j < m; j++ {
				p, ok := A.OutboundPermit()
				if !ok {
					runtime.Gosched()
					continue
				}
				h := held.Add(1)
				for {
					old := peak.Load()
					if h <= old || peak.CompareAndSwap(old, h) {
						break
					}
				}
				cp := &c16permit{inner: p, onFirst: func() { held.Add(-1) }}
				if (i+j)%16 == 0 {
					A.Offer(peer.Self(), req, cp) // over the wire: empty reply
				} else {
					if (i+j)%3 == 0 {
						runtime.Gosched()
					}
					A.ProcessOffer(rec, replies[(i+j)%len(replies)], req, cp)
				}
			}
		}(i)
	}
	wg.Wait()
	c16settle(2*time.Second, func() bool { return c16free(A.OutboundPermit, limit) == limit })
	free := c16free(A.OutboundPermit, limit)
	return fmt.Sprintf("stress %d %d %d | ok peak=%d free=%d", limit, k, m, peak.Load(), free)
}

// ---------------------------------------------------------------- driver

type c16job struct {
	id   int
	spec string
	run  func() string
	line string
}

// exec runs the job; a panic on the job's own goroutine (e.g. x/sync/semaphore's "released more than held") becomes the
// observable of the line instead of killing the run.
func (j *c16job) exec() {
	c16mark(j, "#start")
	defer c16mark(j, "#done")
	defer func() {
		if r := recover(); r != nil {
			j.line = j.spec + " | panic " + strings.ReplaceAll(strings.ReplaceAll(toString(r), "\n", " "), " ", "_")
		}
	}()
	j.line = j.run()
}

// ---- crash containment.  A slot released twice makes x/sync/semaphore panic on whatever goroutine of the node calls
// Release - that kills the process and cannot be recovered from here.  So the cases run in a CHILD process (the same
// binary, VERIF_C16_CHILD=1) which journals "#start <id> <spec>", "#done <id>" and the finished lines to its output file,
// flushing each; the parent copies the finished lines and, if the child died, emits `<spec> | panic <message>` for every
// case that was in flight (the replay of such a line crashes again for the guilty one).
var c16journal struct {
	mu  sync.Mutex
	c   *Ctx
	seq int
}

func c16mark(j *c16job, what string) {
	c16journal.mu.Lock()
	defer c16journal.mu.Unlock()
	if c16journal.c == nil {
		return
	}
	if what == "#start" {
		c16journal.seq++
		j.id = c16journal.seq
		c16journal.c.Emit("#start %d %s", j.id, j.spec)
	} else {
		if j.line != "" {
			c16journal.c.Emit("%s", j.line)
		}
		c16journal.c.Emit("#done %d", j.id)
	}
	c16journal.c.Out.Flush()
}

func c16parent(c *Ctx) {
	exe, err := os.Executable()
	if err != nil {
		panic(err)
	}
	tmp, err := os.CreateTemp("", "c16-child-*.txt")
	if err != nil {
		panic(err)
	}
	tmp.Close()
	defer os.Remove(tmp.Name())
	args := []string{"-seed", fmt.Sprint(c.Seed), "-tier", c.Tier, "-n", fmt.Sprint(c.N), "-out", tmp.Name(), "C16"}
	cmd := exec.Command(exe, append(args, c.Args...)...)
	cmd.Env = append(os.Environ(), "VERIF_C16_CHILD=1")
	var stderr bytes.Buffer
	cmd.Stderr = &stderr
	cmd.Stdout = &stderr
	runErr := cmd.Run()
	data, _ := os.ReadFile(tmp.Name())
	inflight := map[string]string{}
	var order []string
	for _, ln := range strings.Split(string(data), "\n") {
		switch {
		case strings.HasPrefix(ln, "#start "):
			f := strings.SplitN(ln, " ", 3)
			if len(f) == 3 {
				inflight[f[1]] = f[2]
				order = append(order, f[1])
			}
		case strings.HasPrefix(ln, "#done "):
			delete(inflight, strings.TrimPrefix(ln, "#done "))
		case ln != "":
			c.Count(strings.Fields(ln)[0])
			c.Emit("%s", ln)
		}
	}
	if runErr != nil {
		msg := "child_process_died"
		for _, ln := range strings.Split(stderr.String(), "\n") {
			if strings.HasPrefix(ln, "panic: ") || strings.HasPrefix(ln, "fatal error: ") {
				msg = strings.ReplaceAll(strings.TrimSpace(ln), " ", "_")
				break
			}
		}
		for _, id := range order {
			if spec, ok := inflight[id]; ok {
				c.Count("crash")
				c.Emit("%s | panic %s", spec, msg)
			}
		}
	}
}

func c16runAll(c *Ctx, jobs []*c16job, par int) {
	sem := make(chan struct{}, par)
	var wg sync.WaitGroup
	for _, j := range jobs {
		wg.Add(1)
		sem <- struct{}{}
		go func(j *c16job) {
			defer wg.Done()
			defer func() { <-sem }()
			j.exec()
		}(j)
	}
	wg.Wait()
}

func c16atoi(s string) int {
	var n int
	fmt.Sscan(strings.TrimPrefix(s, "v"), &n)
	return n
}

func c16jobOf(g *c16gen, f []string) *c16job {
	j := c16jobOf0(g, f)
	if j != nil {
		j.spec = strings.Join(f, " ")
	}
	return j
}

func c16jobOf0(g *c16gen, f []string) *c16job {
	switch f[0] {
	case "offer":
		step, limit, mode, ver := f[1], c16atoi(f[2]), f[3], c16atoi(f[4])
		return &c16job{run: func() string {
			A, _ := c16node(g, limit, []byte{0, 1}, 4, true)
			defer A.Stop()
			return c16offerCase(g, A, step, limit, mode, ver)
		}}
	case "gossip":
		return &c16job{run: func() string { return c16gossipCase(g, c16atoi(f[1]), c16atoi(f[2]), c16atoi(f[3])) }}
	case "gossipdrain":
		return &c16job{run: func() string { return c16gossipDrainCase(g, c16atoi(f[1]), c16atoi(f[2]), c16atoi(f[3])) }}
	case "shutdownqueued":
		return &c16job{run: func() string { return c16shutdownQueuedCase(g, c16atoi(f[1]), c16atoi(f[2])) }}
	case "in":
		return &c16job{run: func() string { return c16inCase(g, f[1], c16atoi(f[2]), f[3], c16atoi(f[4])) }}
	case "permops":
		return &c16job{run: func() string { return c16permopsCase(g, f[1], c16atoi(f[2]), f[3]) }}
	case "restart":
		return &c16job{run: func() string { return c16restartCase(g, c16atoi(f[1]), c16atoi(strings.TrimPrefix(f[2], "v"))) }}
	case "laterelease":
		return &c16job{run: func() string { return c16lateReleaseCase(g, c16atoi(f[1]), c16atoi(strings.TrimPrefix(f[2], "v"))) }}
	case "ostall":
		return &c16job{run: func() string {
			return c16ostallCase(g, c16atoi(f[1]), c16atoi(f[2]), c16atoi(strings.TrimPrefix(f[3], "v")))
		}}
	case "stall":
		return &c16job{run: func() string {
			return c16stallCase(g, c16atoi(f[1]), c16atoi(f[2]), c16atoi(strings.TrimPrefix(f[3], "v")))
		}}
	case "instress":
		return &c16job{run: func() string { return c16inStressCase(g, c16atoi(f[1]), c16atoi(f[2])) }}
	case "stress":
		return &c16job{run: func() string { return c16stressCase(g, c16atoi(f[1]), c16atoi(f[2]), c16atoi(f[3])) }}
	}
	return nil
}

func runC16(c *Ctx) {
	if os.Getenv("VERIF_C16_CHILD") == "" {
		c16parent(c)
		return
	}
	c16journal.c = c
	g := &c16gen{rng: c.Rng}
	if len(c.Args) >= 2 && c.Args[0] == "replay" {
		var jobs []*c16job
		for _, ln := range readReplayCases(c.Args[1]) {
			f := strings.Fields(strings.SplitN(ln, "|", 2)[0])
			if len(f) < 3 {
				continue
			}
			if j := c16jobOf(g, f); j != nil {
				jobs = append(jobs, j)
			}
		}
		c16runAll(c, jobs, 4)
		return
	}
	thorough := c.Tier == "thorough"
	r := c.Rng
	limits := []int{0, 1, 3, 50}
	var slow, quick []*c16job
	add := func(l *[]*c16job, spec string) { *l = append(*l, c16jobOf(g, strings.Fields(spec))) }

	// slow outcomes first (they wait for 15 s timeouts): one limit per run in quick, all limits in thorough
	pick := []int{1, 3, 50}[r.Intn(3)]
	for _, step := range c16offerSteps {
		if !c16slow(step) {
			continue
		}
		if thorough {
			for _, L := range limits {
				add(&slow, fmt.Sprintf("offer %s %d counting v%d", step, L, r.Intn(2)))
				if L > 0 {
					add(&slow, fmt.Sprintf("offer %s %d real v%d", step, L, r.Intn(2)))
				}
			}
			continue
		}
		add(&slow, fmt.Sprintf("offer %s %d real v%d", step, pick, r.Intn(2)))
		if step == "success" {
			add(&slow, fmt.Sprintf("offer %s %d counting v%d", step, 0, r.Intn(2)))
		}
	}
	add(&slow, fmt.Sprintf("in accept-timeout %d direct v%d", []int{1, 3, 50}[r.Intn(3)], r.Intn(2)))
	if thorough {
		for _, L := range []int{1, 3, 50} {
			add(&slow, fmt.Sprintf("in accept-timeout %d talkreq v1", L))
		}
	}
	add(&slow, fmt.Sprintf("gossipdrain %d %d %d", 1000+50+r.Intn(100), 4, 250+1+r.Intn(12)))
	// a transfer in progress keeps its slot: stalled senders (about 1.5 s each, in the background)
	add(&slow, fmt.Sprintf("ostall 1 0 v%d", r.Intn(2)))
	add(&slow, fmt.Sprintf("ostall 3 %d v%d", 2*r.Intn(2), r.Intn(2)))
	add(&slow, fmt.Sprintf("stall 1 0 v%d", r.Intn(2)))
	add(&slow, fmt.Sprintf("stall 3 %d v%d", 2*r.Intn(2), r.Intn(2)))
	if thorough {
		add(&slow, "stall 3 0 v0")
		add(&slow, "stall 3 2 v1")
		add(&slow, "stall 50 49 v1")
		add(&slow, "stall 2 1 v0")
	}

	// quick outcomes: every step x every limit x both kinds of permit
	for _, L := range limits {
		for _, step := range c16offerSteps {
			if c16slow(step) {
				continue
			}
			add(&quick, fmt.Sprintf("offer %s %d counting v%d", step, L, r.Intn(2)))
			if L > 0 {
				add(&quick, fmt.Sprintf("offer %s %d real v%d", step, L, r.Intn(2)))
			}
		}
		for _, o := range c16inOutcomes {
			if c16inSlow(o) {
				continue
			}
			via := []string{"direct", "talkreq"}[r.Intn(2)]
			if strings.HasPrefix(o, "read-") || o == "shutdown-before-select" {
				via = "direct"
			}
			add(&quick, fmt.Sprintf("in %s %d %s v%d", o, L, via, r.Intn(2)))
			if thorough && via == "direct" && !strings.HasPrefix(o, "read-") {
				add(&quick, fmt.Sprintf("in %s %d talkreq v%d", o, L, r.Intn(2)))
			}
		}
		for _, room := range []int{0, 1, 3, 8, 9} {
			add(&quick, fmt.Sprintf("gossip %d %d %d", L, 3+r.Intn(6), room))
		}
		add(&quick, fmt.Sprintf("shutdownqueued %d %d", L, 2+r.Intn(6)))
		if L > 0 {
			add(&quick, fmt.Sprintf("instress %d %d", L, L+1+r.Intn(6)))
			add(&quick, fmt.Sprintf("stress %d %d %d", L, 3*L+5, 40))
		}
	}
	// stale handles: fixed sequences (the overlapping-transfer pattern) and random ones, both directions
	for _, dir := range []string{"in", "out"} {
		add(&quick, fmt.Sprintf("permops %s 1 g,r0,g,r0,g,r1,g", dir))
		add(&quick, fmt.Sprintf("permops %s 3 g,g,g,g,r1,r1,g,r1,g,r0,r2,r2,g,g", dir))
		add(&quick, fmt.Sprintf("permops %s 0 g,r0,r0,g", dir))
		add(&quick, fmt.Sprintf("permops %s 1 g,g,S,g,r0,S,g,g", dir))
		add(&quick, fmt.Sprintf("permops %s 3 g,g,S,g,g,r1,S,g,g,r0,r2,r3", dir))
	}
	nops := 10
	if thorough {
		nops = 150
	}
	for i := 0; i < nops; i++ {
		L := r.Intn(4)
		k := 3 + r.Intn(14)
		ops := make([]string, k)
		gets := 0
		for j := range ops {
			if gets > 0 && r.Intn(8) == 0 {
				ops[j] = "S"
			} else if gets == 0 || r.Intn(5) < 2 {
				ops[j] = "g"
				gets++
			} else {
				ops[j] = fmt.Sprintf("r%d", r.Intn(gets)) // any handle, released or not
			}
		}
		add(&quick, fmt.Sprintf("permops %s %d %s", []string{"in", "out"}[r.Intn(2)], L, strings.Join(ops, ",")))
	}
	add(&quick, fmt.Sprintf("restart 1 v%d", r.Intn(2)))
	add(&quick, fmt.Sprintf("restart 3 v%d", r.Intn(2)))
	add(&slow, fmt.Sprintf("laterelease 1 v%d", r.Intn(2)))
	add(&slow, fmt.Sprintf("laterelease 3 v%d", r.Intn(2)))
	n := c.N
	if n == 0 {
		n = 12
		if thorough {
			n = 200
		}
	}
	for i := 0; i < n; i++ { // random extra limits
		L := 1 + r.Intn(9)
		switch r.Intn(5) {
		case 0:
			step := c16offerSteps[r.Intn(8)]
			add(&quick, fmt.Sprintf("offer %s %d real v%d", step, L, r.Intn(2)))
		case 1:
			o := c16inOutcomes[r.Intn(len(c16inOutcomes))]
			if c16inSlow(o) {
				o = "accept-failure"
			}
			add(&quick, fmt.Sprintf("in %s %d direct v%d", o, L, r.Intn(2)))
		case 2:
			add(&quick, fmt.Sprintf("gossip %d %d %d", L, 1+r.Intn(8), r.Intn(10)))
		case 3:
			add(&quick, fmt.Sprintf("instress %d %d", L, 1+r.Intn(2*L+2)))
		default:
			add(&quick, fmt.Sprintf("stress %d %d %d", L, 2+r.Intn(3*L+4), 30))
		}
	}
	// the slow jobs run in the background while the quick ones are worked off
	done := make(chan struct{})
	go func() {
		var w sync.WaitGroup
		for _, j := range slow {
			w.Add(1)
			go func(j *c16job) { defer w.Done(); j.exec() }(j)
		}
		w.Wait()
		close(done)
	}()
	c16runAll(c, quick, 6)
	<-done
}
