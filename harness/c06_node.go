//go:build c06 || all

package main

// C06, node level: "the in-range test used to filter offers, to pick gossip targets and by the Store RPC applies this
// same rule" as the store's admission.  A REAL PortalProtocol instance (VerifHNew: discv5 listener, routing table, uTP)
// over the REAL pebble store.
//
//	node06 <capMB> <private key> <ops> | ok <step>;<step>;...
//	   op   = r | s,<a>,<b>,<val> | q,<a>,<b>
//	          r: read PortalProtocol.Radius();  s: PortalProtocol.ShouldStore (the PutContent / Store path, writes through
//	          the storage directly);  q: ask PortalProtocol.InRange(id) - the test of the Store RPC, computed as the
//	          offer filters do from p.Radius() - and then offer a 1-byte item under that id to the store itself
//	   step = r: <node radius>,<store radius>   s: <stored 0|1>,<node radius>,<store radius>
//	          q: <in range 0|1>,<admitted by the store 0|1>,<node radius>,<store radius>
//
// Content ids are chosen so that the storage key id xor node-id is the palindrome a b 0..0 b a: on such keys the
// big-endian reading (inRange) and the little-endian reading (the store, known finding) are the same number, so the
// two verdicts must agree whenever both look at the same radius.
import (
	"errors"
	"fmt"
	"os"
	"strconv"
	"strings"
	"sync"

	"github.com/ethereum/go-ethereum/crypto"
	"github.com/ethereum/go-ethereum/p2p/enode"
	"github.com/holiman/uint256"
	"github.com/zen-eth/shisui/portalwire"
	"github.com/zen-eth/shisui/storage"
)

func palKey(a, b byte) []byte {
	k := make([]byte, 32)
	k[0], k[31] = a, a
	k[1], k[30] = b, b
	return k
}

func stNode06(c *Ctx, capMB uint64, keyhex string, ops []string) {
	head := fmt.Sprintf("node06 %d %s %s", capMB, keyhex, strings.Join(ops, ";"))
	var steps []string
	p, msg := guard(func() {
		key, err := crypto.HexToECDSA(keyhex)
		if err != nil {
			panic(err)
		}
		nid := enode.PubkeyToIDV4(&key.PublicKey)
		dir := stTempDir()
		defer os.RemoveAll(dir)
		s, err := stOpen(dir, capMB, nid)
		if err != nil {
			panic(err)
		}
		defer func() { s.close() }()
		inst, err := portalwire.VerifHNew(portalwire.History, key, s.cs, nil, nil, 4)
		if err != nil {
			panic(err)
		}
		defer inst.Close()
		portalwire.VerifSetContentIdFunc(inst.P, func(k []byte) []byte { return append([]byte{}, k[1:33]...) })
		idOf := func(a, b byte) []byte { return xor32(palKey(a, b), nid[:]) }
		rad := func() string { return inst.P.Radius().Hex()[2:] + "," + s.cs.Radius().Hex()[2:] }
		for _, o := range ops {
			f := strings.Split(o, ",")
			switch f[0] {
			case "r":
				steps = append(steps, rad())
			case "s":
				a, _ := strconv.Atoi(f[1])
				b, _ := strconv.Atoi(f[2])
				id := idOf(byte(a), byte(b))
				ok, err := inst.P.ShouldStore(append([]byte{0}, id...), parseVal(f[3]).Bytes())
				s.pruned = true
				r := "0"
				if ok && err == nil {
					r = "1"
				}
				steps = append(steps, r+","+rad())
			case "q":
				a, _ := strconv.Atoi(f[1])
				b, _ := strconv.Atoi(f[2])
				id := idOf(byte(a), byte(b))
				in := "0"
				if inst.P.InRange(id) {
					in = "1"
				}
				adm := "1"
				if err := s.cs.Put(nil, id, []byte{7}); errors.Is(err, storage.ErrInsufficientRadius) {
					adm = "0"
				}
				s.pruned = true
				steps = append(steps, in+","+adm+","+rad())
			}
		}
	})
	if p {
		c.Emit("%s | panic %s after=%d", head, msg, len(steps))
		return
	}
	c.Emit("%s | ok %s", head, strings.Join(steps, ";"))
}

func node06Gen(c *Ctx) {
	r := c.Rng
	rounds := 3
	if c.Tier == "thorough" {
		rounds = 40
	}
	for i := 0; i < rounds; i++ {
		var keyhex string
		for {
			keyhex = fmt.Sprintf("%x", r.Bytes(32))
			if _, err := crypto.HexToECDSA(keyhex); err == nil {
				break
			}
		}
		vid := 9500 + 100*i
		big := func(n int) string { vid++; return fmt.Sprintf("l%d.%d", vid, n) }
		ops := []string{"r"}
		// three near items fill 90% of 1 MB through the Store path, the fourth goes over capacity: the store prunes
		// and its radius shrinks to the key 03 b .. b 03
		b := r.Intn(200)
		for a := 1; a <= 3; a++ {
			ops = append(ops, fmt.Sprintf("s,%d,%d,%s", a, b, big(300000)))
		}
		ops = append(ops, fmt.Sprintf("s,4,%d,%s", b, big(120000+1000*r.Intn(100))), "r")
		// ids between the new and the old radius, ids inside the new radius, and the boundary
		for j := 0; j < 10; j++ {
			switch r.Intn(4) {
			case 0:
				ops = append(ops, fmt.Sprintf("q,%d,%d", 1+r.Intn(3), r.Intn(256)))
			case 1:
				ops = append(ops, fmt.Sprintf("q,3,%d", b))
			default:
				ops = append(ops, fmt.Sprintf("q,%d,%d", 4+r.Intn(252), r.Intn(256)))
			}
		}
		// a put inside the radius through the Store path, more queries
		ops = append(ops, fmt.Sprintf("s,1,%d,s0102", (b+1)%256), fmt.Sprintf("q,%d,%d", 5+r.Intn(250), r.Intn(256)), "r")
		c.Count("node06_rounds")
		stNode06(c, 1, keyhex, ops)
	}
}

func init() {
	stExtraExec["rpc06"] = func(c *Ctx, f []string) {
		rad, _ := uint256.FromHex("0x" + f[2])
		var ds [][]byte
		for _, d := range strings.Split(f[3], ",") {
			ds = append(ds, unhx(d))
		}
		stRpc06(c, f[1], rad, ds)
	}
	stExtraExec["node06"] = func(c *Ctx, f []string) {
		n, _ := strconv.ParseUint(f[1], 10, 64)
		stNode06(c, n, f[2], strings.Split(f[3], ";"))
	}
}

// ---------------------------------------------------------------- the Store RPC over a backend that does not enforce the radius
//
//	rpc06 <private key> <radius hex> <distances> | ok <node id> <verdicts>
//
// PortalProtocolAPI.Store on a REAL PortalProtocol whose storage accepts everything (as the ephemeral store of the
// history network, the beacon store or the mock store do) and advertises <radius>: for every XOR distance of the list
// the content id at that distance from the node id is offered to the RPC; verdict 1 = stored (true, nil),
// 0 = declined (false, nil), e = error.  The RPC itself has to apply the in-range rule.
type looseStore struct {
	mu     sync.Mutex
	m      map[string][]byte
	radius *uint256.Int
}

func (l *looseStore) Get(k []byte, id []byte) ([]byte, error) {
	l.mu.Lock()
	defer l.mu.Unlock()
	if v, ok := l.m[string(id)]; ok {
		return v, nil
	}
	return nil, storage.ErrContentNotFound
}
func (l *looseStore) Put(k []byte, id []byte, v []byte) error {
	l.mu.Lock()
	defer l.mu.Unlock()
	l.m[string(id)] = v
	return nil
}
func (l *looseStore) Radius() *uint256.Int { return l.radius }
func (l *looseStore) Close() error         { return nil }

func stRpc06(c *Ctx, keyhex string, radius *uint256.Int, dists [][]byte) {
	ds := make([]string, len(dists))
	for i, d := range dists {
		ds[i] = hx(d)
	}
	head := fmt.Sprintf("rpc06 %s %s %s", keyhex, radius.Hex()[2:], strings.Join(ds, ","))
	var out string
	p, msg := guard(func() {
		key, err := crypto.HexToECDSA(keyhex)
		if err != nil {
			panic(err)
		}
		nid := enode.PubkeyToIDV4(&key.PublicKey)
		st := &looseStore{m: map[string][]byte{}, radius: radius}
		inst, err := portalwire.VerifHNew(portalwire.History, key, st, nil, nil, 4)
		if err != nil {
			panic(err)
		}
		defer inst.Close()
		portalwire.VerifSetContentIdFunc(inst.P, func(k []byte) []byte { return append([]byte{}, k[1:33]...) })
		api := portalwire.NewPortalAPI(inst.P)
		vs := make([]string, len(dists))
		for i, d := range dists {
			id := xor32(d, nid[:])
			ok, err := api.Store("0x00"+hx(id), "0x07")
			switch {
			case err != nil:
				vs[i] = "e"
			case ok:
				vs[i] = "1"
			default:
				vs[i] = "0"
			}
		}
		out = hx(nid[:]) + " " + strings.Join(vs, ",")
	})
	if p {
		c.Emit("%s | panic %s", head, msg)
		return
	}
	c.Emit("%s | ok %s", head, out)
}

func rpc06Gen(c *Ctx) {
	r := c.Rng
	rounds := 6
	if c.Tier == "thorough" {
		rounds = 100
	}
	for i := 0; i < rounds; i++ {
		var keyhex string
		for {
			keyhex = fmt.Sprintf("%x", r.Bytes(32))
			if _, err := crypto.HexToECDSA(keyhex); err == nil {
				break
			}
		}
		var rad *uint256.Int
		switch r.Intn(5) {
		case 0:
			rad = uint256.NewInt(uint64(r.Intn(1000)))
		case 1:
			rad = new(uint256.Int).Lsh(uint256.NewInt(1), uint(r.Intn(256)))
		case 2:
			rad = uint256.MustFromHex("0xffffffffffffffffffffffffffffffffffffffffffffffffffffffffffffffff")
		default:
			rad = new(uint256.Int).SetBytes(r.Bytes(1 + r.Intn(32)))
		}
		var dists [][]byte
		b32 := func(x *uint256.Int) []byte { v := x.Bytes32(); return v[:] }
		dists = append(dists, b32(rad), make([]byte, 32))
		if !rad.IsZero() {
			dists = append(dists, b32(new(uint256.Int).SubUint64(rad, 1)))
		}
		if rad.Lt(uint256.MustFromHex("0xffffffffffffffffffffffffffffffffffffffffffffffffffffffffffffffff")) {
			dists = append(dists, b32(new(uint256.Int).AddUint64(rad, 1)))
		}
		for j := 0; j < 6; j++ {
			dists = append(dists, r.Bytes(32))
		}
		d := make([]byte, 32)
		d[r.Intn(32)] = byte(1 + r.Intn(255))
		dists = append(dists, d)
		c.Count("rpc06_rounds")
		stRpc06(c, keyhex, rad, dists)
	}
}
