//go:build c08 || all

package main

// C08: FINDCONTENT.  Lines (concrete inputs ; derived abstract view | observable):
//
//	fc <selfkey> <requesterenr> <askerip:port> <contentkey> <F:contenthex | N | E> <enrhex:live,...> ; <requester id> <content id> <table records in nodeList order>
//	     | raw <replylen> <hex> / connid <replylen> / enrs <replylen> <tags> / err
//	pc <selfkey> <senderenr> <resphex> <genflags> ; <senderrec> <E | recs> | raw <hex> / connid <hex> / enrs <tags> / err / panic
//	lfc <versionsA> <versionsB> <size> ; <sha256 of the stored bytes> | ok <selector> <len> <sha256 of what the asker got> <largest datagram> / err
//	lfe <versionsA> <versionsB> ; <asker id> <content id> <responder table records> | ok <tags the asker got> <largest datagram> / err
import (
	"crypto/sha256"
	"fmt"
	"math/big"
	"net"
	"net/netip"
	"strconv"
	"strings"

	"github.com/ethereum/go-ethereum/p2p/enode"
	"github.com/ethereum/go-ethereum/p2p/enr"
	"github.com/ethereum/go-ethereum/rlp"
	"github.com/zen-eth/shisui/portalwire"
)

func init() { registry["C08"] = runC08 }

func c08execFc(c *Ctx, keyhex string, reqEnr []byte, asker string, ckey []byte, st string, ins []c11ins) {
	inst := hInstance(keyhex, "-", "history")
	store := hStores[inst]
	store.db = map[string][]byte{}
	store.fail = map[string]bool{}
	cid := sha256.Sum256(ckey)
	switch {
	case strings.HasPrefix(st, "F:"):
		store.db[string(cid[:])] = unhx(st[2:])
	case st == "E":
		store.fail[string(cid[:])] = true
	}
	hFill(inst, ins)
	req, err := hNodeFromBytes(reqEnr)
	if err != nil {
		panic(err)
	}
	ap, err := netip.ParseAddrPort(asker)
	if err != nil {
		panic(err)
	}
	addr := net.UDPAddrFromAddrPort(ap)
	t := newTags()
	nl := inst.NodeList()
	recs := make([]string, len(nl))
	for i, n := range nl {
		eb := hEnrBytes(n)
		recs[i] = hRecStr(t.tag(eb), n, len(eb), true)
	}
	var resp []byte
	var herr error
	panicked, pmsg := guard(func() { resp, herr = inst.HandleFindContent(req, addr, &portalwire.FindContent{ContentKey: ckey}) })
	obs := ""
	switch {
	case panicked:
		obs = "panic " + pmsg
	case herr != nil:
		obs = "err"
	case len(resp) < 2 || resp[0] != portalwire.CONTENT:
		obs = fmt.Sprintf("malformed %d", len(resp))
	case resp[1] == portalwire.ContentRawSelector:
		obs = fmt.Sprintf("raw %d %s", len(resp), hx(resp[2:]))
		c.Count("fc_reply_raw")
	case resp[1] == portalwire.ContentConnIdSelector:
		obs = fmt.Sprintf("connid %d", len(resp))
		c.Count("fc_reply_connid")
	case resp[1] == portalwire.ContentEnrsSelector:
		m := &portalwire.Enrs{}
		if err := m.UnmarshalSSZ(resp[2:]); err != nil {
			obs = fmt.Sprintf("malformed %d enrs", len(resp))
		} else {
			tags := make([]string, len(m.Enrs))
			for i, e := range m.Enrs {
				if v, ok := t.lookup(e); ok {
					tags[i] = strconv.Itoa(v)
				} else {
					tags[i] = "?"
				}
			}
			obs = fmt.Sprintf("enrs %d %s", len(resp), hTagList(tags))
			c.Count(fmt.Sprintf("fc_reply_enrs_%d", hBucket(len(m.Enrs))))
		}
	default:
		obs = fmt.Sprintf("malformed %d selector", len(resp))
	}
	c.Emit("fc %s %s %s %s %s %s ; %s %s %s | %s", keyhex, hx(reqEnr), asker, hx(ckey), st, c11insStr(ins),
		c20idHexC08(req.ID()), new(big.Int).SetBytes(cid[:]).Text(16), hTagList(recs), obs)
}

func c20idHexC08(id enode.ID) string { return new(big.Int).SetBytes(id[:]).Text(16) }

func c08execPc(c *Ctx, keyhex string, senderEnr []byte, resp []byte, gen string) {
	inst := hInstance(keyhex, "-", "history")
	sender, err := hNodeFromBytes(senderEnr)
	if err != nil {
		panic(err)
	}
	t := newTags()
	senders := hRecStr(t.tag(senderEnr), sender, len(senderEnr), true)
	dec := "E"
	if len(resp) >= 2 {
		m := &portalwire.Enrs{}
		if err := m.UnmarshalSSZ(resp[2:]); err == nil {
			rs := make([]string, len(m.Enrs))
			for i, e := range m.Enrs {
				g := "0"
				if i < len(gen) && gen[i] == '1' {
					g = "1"
				}
				var r enr.Record
				var n *enode.Node
				if err := rlp.DecodeBytes(e, &r); err == nil {
					n, err = enode.New(enode.ValidSchemes, &r)
					if err != nil {
						n = nil
					}
				}
				if n != nil {
					rs[i] = hRecStr(t.tag(e), n, len(e), true) + ":" + g
				} else {
					rs[i] = hRecInvalid(t.tag(e), len(e)) + ":" + g
				}
			}
			dec = hTagList(rs)
		}
	}
	var flag byte
	var out interface{}
	var perr error
	panicked, pmsg := guard(func() { flag, out, perr = inst.ProcessContent(sender, resp) })
	obs := ""
	switch {
	case panicked:
		obs = "panic " + pmsg
	case perr != nil:
		obs = "err"
	case flag == portalwire.ContentRawSelector:
		obs = "raw " + hx(out.([]byte))
	case flag == portalwire.ContentEnrsSelector:
		ns := out.([]*enode.Node)
		tags := make([]string, len(ns))
		for i, n := range ns {
			if v, ok := t.lookup(hEnrBytes(n)); ok {
				tags[i] = strconv.Itoa(v)
			} else {
				tags[i] = "?"
			}
		}
		obs = "enrs " + hTagList(tags)
	default:
		obs = fmt.Sprintf("other %d", flag)
	}
	if gen == "" {
		gen = "-"
	}
	c.Emit("pc %s %s %s %s ; %s %s | %s", keyhex, hx(senderEnr), hx(resp), gen, senders, dec, obs)
}

func c08replay(c *Ctx, lines []string) {
	for _, ln := range lines {
		f := strings.Fields(strings.SplitN(ln, "|", 2)[0])
		if len(f) < 2 {
			continue
		}
		switch f[0] {
		case "fc":
			c08execFc(c, f[1], unhx(f[2]), f[3], unhx(f[4]), f[5], c11parseIns(f[6]))
		case "pc":
			g := f[4]
			if g == "-" {
				g = ""
			}
			c08execPc(c, f[1], unhx(f[2]), unhx(f[3]), g)
		default:
			c08live(c, NewRng(c.Seed), true)
			return
		}
	}
}

func c08fcCase(c *Ctx, r *Rng, key string, pool []hPoolKey) {
	inst := hInstance(key, "-", "history")
	self := inst.Self().ID()
	ckey := r.Bytes(1 + r.Intn(60))
	cid := sha256.Sum256(ckey)
	// table
	var ins []c11ins
	var nodes []*enode.Node
	nn := r.Pick([]int{0, 1, 2, 3, 4, 5, 8, 16, 31, 32, 33, 34, 48, 100, 272})
	sizeMode := r.Intn(4)
	for i := 0; i < nn; i++ {
		var id enode.ID
		switch k := r.Intn(10); {
		case k < 3:
			id = hIDAtDistance(r, enode.ID(cid), 1+r.Intn(256))
		case k < 6:
			id = hIDAtDistance(r, self, 240+r.Intn(17))
		default:
			copy(id[:], r.Bytes(32))
		}
		size := 0
		switch sizeMode {
		case 0:
			size = 300
		case 1:
			size = r.Pick([]int{0, 100, 200, 288, 289, 290, 291, 292, 300})
		case 2:
			size = r.Pick([]int{0, 0, 300})
		}
		n := hRecord(nil, id, hIP(r, r.Pick2([]string{"loop", "lan10", "lan192", "pub"})), 30303, 1, size)
		nodes = append(nodes, n)
		ins = append(ins, c11ins{hEnrBytes(n), r.Intn(5) != 0})
	}
	// requester: a table node, or an outsider
	var req *enode.Node
	if len(nodes) > 0 && r.Intn(3) != 0 {
		req = nodes[r.Intn(len(nodes))]
		c.Count("fc_requester_in_table")
	} else {
		k := pool[r.Intn(len(pool))]
		req = hRecord(k.key, k.id, hIP(r, "lan10"), 30303, 1, 0)
		c.Count("fc_requester_not_in_table")
	}
	st := "N"
	switch k := r.Intn(10); {
	case k < 4:
		st = "N"
	case k == 4:
		st = "E"
	default:
		sz := r.Pick([]int{0, 1, 2, 100, 1000, 1173, 1174, 1175, 1175, 1176, 1176, 1177, 2047, 2048, 2049, 4096})
		st = "F:" + hx(r.Bytes(sz))
		if sz == 0 {
			st = "F:-"
		}
		c.Count(fmt.Sprintf("fc_content_size_%d", sz))
	}
	a, _ := netip.AddrFromSlice(hIP(r, r.Pick2([]string{"loop", "lan10", "pub", "v6pub"})))
	asker := netip.AddrPortFrom(a.Unmap(), uint16(1025+r.Intn(60000))).String()
	c08execFc(c, key, hEnrBytes(req), asker, ckey, st, ins)
}

func c08pcCase(c *Ctx, r *Rng, key string, pool []hPoolKey) {
	sk := pool[r.Intn(len(pool))]
	sender := hRecord(sk.key, sk.id, hIP(r, r.Pick2([]string{"loop", "lan10", "pub", "pub"})), 30303, 1, 0)
	var resp []byte
	gen := ""
	switch k := r.Intn(16); {
	case k == 0:
		resp = []byte{}
		c.Count("pc_empty")
	case k == 1:
		resp = []byte{portalwire.CONTENT} // one byte: resp[1] does not exist
		c.Count("pc_one_byte")
	case k == 2:
		resp = append([]byte{byte(r.Pick([]int{0, 1, 3, 7, 255}))}, r.Bytes(r.Intn(20))...)
		c.Count("pc_wrong_code")
	case k == 3:
		resp = append([]byte{portalwire.CONTENT, byte(3 + r.Intn(250))}, r.Bytes(r.Intn(20))...)
		c.Count("pc_bad_selector")
	case k < 8:
		sz := r.Pick([]int{0, 1, 100, 1175, 2047, 2048, 2049, 3000})
		resp = append([]byte{portalwire.CONTENT, portalwire.ContentRawSelector}, r.Bytes(sz)...)
		c.Count("pc_raw")
	case k < 10: // connection id of the wrong length (a well-formed one would start a uTP dial)
		resp = append([]byte{portalwire.CONTENT, portalwire.ContentConnIdSelector}, r.Bytes(r.Pick([]int{0, 1, 3, 4}))...)
		c.Count("pc_connid_bad_length")
	default:
		cnt := r.Pick([]int{0, 1, 2, 4, 8, 12})
		var enrs [][]byte
		for i := 0; i < cnt; i++ {
			pk := pool[r.Intn(len(pool))]
			port := r.Pick([]int{30303, 30303, 1025, 1024, 80})
			n := hRecord(pk.key, pk.id, hIP(r, r.Pick2([]string{"loop", "lan10", "pub", "pub", "special"})), port, 1, r.Pick([]int{0, 0, 300}))
			b := hEnrBytes(n)
			valid := true
			switch r.Intn(8) {
			case 0:
				b = append([]byte{}, b...)
				b[4+r.Intn(60)] ^= 0x10
				valid = false
			case 1:
				if len(enrs) > 0 {
					j := r.Intn(len(enrs))
					b, valid = enrs[j], gen[j] == '1'
				}
			case 2:
				b = r.Bytes(1 + r.Intn(50))
				valid = false
			}
			enrs = append(enrs, b)
			if valid {
				gen += "1"
			} else {
				gen += "0"
			}
		}
		m := &portalwire.Enrs{Enrs: enrs}
		body, err := m.MarshalSSZ()
		if err != nil {
			return
		}
		resp = append([]byte{portalwire.CONTENT, portalwire.ContentEnrsSelector}, body...)
		if r.Intn(10) == 0 && len(resp) > 3 {
			resp = resp[:2+r.Intn(len(resp)-2)]
		}
		c.Count("pc_enrs")
	}
	c08execPc(c, key, hEnrBytes(sender), resp, gen)
}

func hInstanceV(r *Rng, versions []uint8) *portalwire.VerifHInstance {
	k := hKey(r)
	inst, err := portalwire.VerifHNew(portalwire.History, k, newMemStorageFor(), nil, versions, 50)
	if err != nil {
		panic(err)
	}
	return inst
}

var c08lastStore *hMemStorage

func newMemStorageFor() *hMemStorage { c08lastStore = newMemStorage(); return c08lastStore }

func c08vers(v []uint8) string {
	s := ""
	for _, x := range v {
		s += strconv.Itoa(int(x))
	}
	return s
}

// c08live: two real instances over loopback UDP, both protocol versions on either side.  The responder holds contents around
// the inline threshold and multi-packet ones; the asker's findContent runs for real (uTP stream for the large ones).
func c08live(c *Ctx, r *Rng, quick bool) {
	pairs := [][2][]uint8{{{0, 1}, {0, 1}}, {{0}, {0, 1}}, {{0, 1}, {0}}, {{1}, {0, 1}}}
	sizes := []int{0, 1, 1174, 1175, 1176, 1177, 4096, 60000}
	if !quick {
		sizes = append(sizes, 300000, 1<<20)
	}
	pool := hPool(r, 40)
	for _, pr := range pairs {
		a := hInstanceV(r, pr[0])
		b := hInstanceV(r, pr[1])
		bstore := c08lastStore
		if _, err := a.Ping(b.Self()); err != nil {
			c.Emit("live-error ping | %v", err)
			continue
		}
		// responder's table: signed records so that the asker can verify them
		var ins []c11ins
		for _, k := range pool {
			n := hRecord(k.key, k.id, hIP(r, r.Pick2([]string{"loop", "lan10", "pub"})), 30303, 1, r.Pick([]int{0, 300, 300}))
			ins = append(ins, c11ins{hEnrBytes(n), true})
		}
		for _, x := range ins {
			if n, err := hNodeFromBytes(x.enr); err == nil {
				b.AddNode(n, true, false)
			}
		}
		maxOut := func() int {
			m := 0
			for _, d := range b.Datagrams() {
				if d.Out && d.Size > m {
					m = d.Size
				}
			}
			for _, d := range a.Datagrams() {
				if d.Out && d.Size > m {
					m = d.Size
				}
			}
			return m
		}
		for _, sz := range sizes {
			ckey := r.Bytes(8)
			cid := sha256.Sum256(ckey)
			content := r.Bytes(sz)
			bstore.db[string(cid[:])] = content
			want := sha256.Sum256(content)
			a.Datagrams()
			b.Datagrams()
			flag, got, err := a.FindContent(b.Self(), ckey)
			obs := "err"
			if err == nil {
				if gb, ok := got.([]byte); ok {
					h := sha256.Sum256(gb)
					obs = fmt.Sprintf("ok %d %d %x %d", flag, len(gb), h[:], maxOut())
				} else {
					obs = fmt.Sprintf("ok %d notbytes 0 %d", flag, maxOut())
				}
			} else {
				obs = "err " + strings.ReplaceAll(err.Error(), " ", "_")
			}
			c.Count(fmt.Sprintf("live_transfer_%d", sz))
			c.Emit("lfc %s %s %d ; %x | %s", c08vers(pr[0]), c08vers(pr[1]), sz, want[:], obs)
		}
		// not held: records
		for i := 0; i < 3; i++ {
			ckey := r.Bytes(9)
			cid := sha256.Sum256(ckey)
			t := newTags()
			nl := b.NodeList()
			recs := make([]string, len(nl))
			for j, n := range nl {
				eb := hEnrBytes(n)
				recs[j] = hRecStr(t.tag(eb), n, len(eb), true)
			}
			a.Datagrams()
			b.Datagrams()
			flag, got, err := a.FindContent(b.Self(), ckey)
			obs := "err"
			if err == nil {
				if ns, ok := got.([]*enode.Node); ok && flag == portalwire.ContentEnrsSelector {
					tags := make([]string, len(ns))
					for j, n := range ns {
						if v, ok := t.lookup(hEnrBytes(n)); ok {
							tags[j] = strconv.Itoa(v)
						} else {
							tags[j] = "?"
						}
					}
					obs = fmt.Sprintf("ok %s %d", hTagList(tags), maxOut())
				} else {
					obs = fmt.Sprintf("ok wrong-selector-%d 0", flag)
				}
			}
			c.Count("live_enrs")
			c.Emit("lfe %s %s ; %s %s %s | %s", c08vers(pr[0]), c08vers(pr[1]), c20idHexC08(a.Self().ID()), new(big.Int).SetBytes(cid[:]).Text(16), hTagList(recs), obs)
		}
		a.Close()
		b.Close()
	}
}

func runC08(c *Ctx) {
	hQuiet()
	if len(c.Args) >= 2 && c.Args[0] == "replay" {
		c08replay(c, readReplayCases(c.Args[1]))
		return
	}
	nfc, npc := 500, 1200
	if c.Tier == "thorough" {
		nfc, npc = 5000, 20000
	}
	if c.N > 0 {
		nfc, npc = c.N, c.N
	}
	r := c.Rng
	pool := hPool(r, 64)
	key := hKeyHex(hKey(r))
	for i := 0; i < nfc; i++ {
		c08fcCase(c, r, key, pool)
	}
	for i := 0; i < npc; i++ {
		c08pcCase(c, r, key, pool)
	}
	c08live(c, r, c.Tier != "thorough")
}
