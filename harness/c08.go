//go:build c08 || all

package main

// C08: FINDCONTENT.  Lines (concrete inputs ; derived abstract view | observable):
//
//	fc <selfkey> <requesterenr> <askerip:port> <contentkey> <F:contenthex | N | E | E:contenthex (held, read fails) | N@del:enr / N@add:enr (table changes during the store read)> <enrhex:live,...> ; <requester id> <content id> <table records in nodeList order>
//	     | raw <replylen> <hex> / connid <replylen> / enrs <replylen> <tags> / err
//	pc <selfkey> <senderenr> <resphex> <genflags> ; <senderrec> <E | recs> | raw <hex> / connid <hex> / enrs <tags> / err / panic
//	uc <own versions> <peer pv entry: M (missing) | E (empty) | X (malformed) | digits> <enc|dec> <hex> <pv entry of an older record of the peer held by the table | ~> | ok <hex> / err
//	     encodeUtpContent / decodeUtpContent INCLUDING the version lookup on the peer's record (versions: an x suffix below = no pv entry advertised)
//	lfc <versionsA> <versionsB> <size> ; <sha256 of the stored bytes> | ok <selector> <len> <sha256 of what the asker got> <largest datagram> / err
//	lfe <versionsA> <versionsB> ; <asker id> <content id> <responder table records> | ok <tags the asker got> <largest datagram> / err
import (
	"bytes"
	"crypto/ecdsa"
	"crypto/sha256"
	"fmt"
	"math/big"
	"net"
	"net/netip"
	"strconv"
	"strings"
	"sync"

	"github.com/ethereum/go-ethereum/p2p/enode"
	"github.com/ethereum/go-ethereum/p2p/enr"
	"github.com/ethereum/go-ethereum/rlp"
	"github.com/zen-eth/shisui/portalwire"
)

func init() { registry["C08"] = runC08 }

func c08execFc(c *Ctx, keyhex string, reqEnr []byte, asker string, ckey []byte, st string, ins []c11ins) {
	inst := hInstance(keyhex, "-", "history")
	store := hStores[inst]
	store.db = map[string][]byte{}
	store.fail = map[string]bool{}
	cid := sha256.Sum256(ckey)
	// T!<state>: the request goes through handleTalkRequest;  P!<state>: ... and is preceded, on the same instance, by three
	// requests for another key whose store read fails (no reply): state left behind by a failed request must not leak
	viaTalk, preFail := false, false
	if strings.HasPrefix(st, "T!") || strings.HasPrefix(st, "P!") {
		viaTalk, preFail = true, st[0] == 'P'
		st = st[2:]
	}
	stField := st
	if viaTalk {
		stField = "T!" + st
		if preFail {
			stField = "P!" + st
		}
	}
	switch {
	case strings.HasPrefix(st, "F:"):
		store.db[string(cid[:])] = unhx(st[2:])
	case st == "E":
		store.fail[string(cid[:])] = true
	case strings.HasPrefix(st, "E:"): // the key IS held, but reading it fails (I/O error, closed database)
		store.db[string(cid[:])] = unhx(st[2:])
		store.fail[string(cid[:])] = true
	}
	hFill(inst, ins)
	// N@del:<enr> / N@add:<enr>: the content is not held and the routing table changes DURING the store read
	store.onGet = nil
	mutated := false
	if strings.HasPrefix(st, "N@") {
		kind, eh, _ := strings.Cut(st[2:], ":")
		mn, err := hNodeFromBytes(unhx(eh))
		if err != nil {
			panic(err)
		}
		mutated = true
		store.onGet = func() {
			if kind == "del" {
				inst.DeleteNode(mn) // deleteInBucket promotes a replacement of that bucket, if there is one
			} else {
				inst.AddNode(mn, true, false)
			}
		}
		defer func() { store.onGet = nil }()
	}
	req, err := hNodeFromBytes(reqEnr)
	if err != nil {
		panic(err)
	}
	ap, err := netip.ParseAddrPort(asker)
	if err != nil {
		panic(err)
	}
	addr := net.UDPAddrFromAddrPort(ap)
	t := newTags()
	nl := inst.NodeList()
	recs := make([]string, len(nl))
	for i, n := range nl {
		eb := hEnrBytes(n)
		recs[i] = hRecStr(t.tag(eb), n, len(eb), true)
	}
	var resp []byte
	var herr error
	talkMsg := func(k []byte) []byte {
		body, err := (&portalwire.FindContent{ContentKey: k}).MarshalSSZ()
		if err != nil {
			panic(err)
		}
		return append([]byte{portalwire.FINDCONTENT}, body...)
	}
	if preFail {
		bad := append([]byte("failing-read-of-another-key-"), ckey...)
		bid := sha256.Sum256(bad)
		store.fail[string(bid[:])] = true
		for k := 0; k < 3; k++ {
			guard(func() { inst.HandleTalkRequest(req, addr, talkMsg(bad)) })
		}
		c.Count("fc_preceded_by_failed_requests")
	}
	panicked, pmsg := guard(func() {
		if viaTalk {
			resp = inst.HandleTalkRequest(req, addr, talkMsg(ckey))
			if resp == nil {
				herr = fmt.Errorf("nil")
			}
		} else {
			resp, herr = inst.HandleFindContent(req, addr, &portalwire.FindContent{ContentKey: ckey})
		}
	})
	// the reply is a value: it is kept WITHOUT copying while a second request (another held key, content of the same size) is
	// served, and only then looked at
	changed := false
	if !panicked && herr == nil && len(resp) >= 2 && resp[1] == portalwire.ContentRawSelector {
		before := append([]byte{}, resp...)
		okey := append([]byte("other-held-key-"), ckey...)
		oid := sha256.Sum256(okey)
		other := make([]byte, len(resp)-2)
		for i := range other {
			other[i] = ^resp[2+i]
		}
		store.db[string(oid[:])] = other
		guard(func() { inst.HandleFindContent(req, addr, &portalwire.FindContent{ContentKey: okey}) })
		changed = !bytes.Equal(before, resp)
		c.Count("fc_reply_held_across_a_later_request")
	}
	if mutated || viaTalk {
		// the table the handler read is the one after the change: the reply is judged against that
		t = newTags()
		nl = inst.NodeList()
		recs = make([]string, len(nl))
		for i, n := range nl {
			eb := hEnrBytes(n)
			recs[i] = hRecStr(t.tag(eb), n, len(eb), true)
		}
		if mutated {
			c.Count("fc_table_changed_during_store_read")
		}
	}
	obs := ""
	switch {
	case panicked:
		obs = "panic " + pmsg
	case herr != nil:
		obs = "err"
	case changed:
		obs = "reply-changed-by-later-request " + hx(resp)
	case len(resp) < 2 || resp[0] != portalwire.CONTENT:
		obs = fmt.Sprintf("malformed %d", len(resp))
	case resp[1] == portalwire.ContentRawSelector:
		obs = fmt.Sprintf("raw %d %s", len(resp), hx(resp[2:]))
		c.Count("fc_reply_raw")
	case resp[1] == portalwire.ContentConnIdSelector:
		obs = fmt.Sprintf("connid %d", len(resp))
		c.Count("fc_reply_connid")
	case resp[1] == portalwire.ContentEnrsSelector:
		m := &portalwire.Enrs{}
		if err := m.UnmarshalSSZ(resp[2:]); err != nil {
			obs = fmt.Sprintf("malformed %d enrs", len(resp))
		} else {
			tags := make([]string, len(m.Enrs))
			for i, e := range m.Enrs {
				if v, ok := t.lookup(e); ok {
					tags[i] = strconv.Itoa(v)
				} else {
					tags[i] = "?"
				}
			}
			obs = fmt.Sprintf("enrs %d %s", len(resp), hTagList(tags))
			c.Count(fmt.Sprintf("fc_reply_enrs_%d", hBucket(len(m.Enrs))))
		}
	default:
		obs = fmt.Sprintf("malformed %d selector", len(resp))
	}
	c.Emit("fc %s %s %s %s %s %s ; %s %s %s | %s", keyhex, hx(reqEnr), asker, hx(ckey), stField, c11insStr(ins),
		c20idHexC08(req.ID()), new(big.Int).SetBytes(cid[:]).Text(16), hTagList(recs), obs)
}

func c20idHexC08(id enode.ID) string { return new(big.Int).SetBytes(id[:]).Text(16) }

func c08execPc(c *Ctx, keyhex string, senderEnr []byte, resp []byte, gen string) {
	inst := hInstance(keyhex, "-", "history")
	sender, err := hNodeFromBytes(senderEnr)
	if err != nil {
		panic(err)
	}
	t := newTags()
	senders := hRecStr(t.tag(senderEnr), sender, len(senderEnr), true)
	dec := "E"
	if len(resp) >= 2 {
		m := &portalwire.Enrs{}
		if err := m.UnmarshalSSZ(resp[2:]); err == nil {
			rs := make([]string, len(m.Enrs))
			for i, e := range m.Enrs {
				g := "0"
				if i < len(gen) && gen[i] == '1' {
					g = "1"
				}
				var r enr.Record
				var n *enode.Node
				if err := rlp.DecodeBytes(e, &r); err == nil {
					n, err = enode.New(enode.ValidSchemes, &r)
					if err != nil {
						n = nil
					}
				}
				if n != nil {
					rs[i] = hRecStr(t.tag(e), n, len(e), true) + ":" + g
				} else {
					rs[i] = hRecInvalid(t.tag(e), len(e)) + ":" + g
				}
			}
			dec = hTagList(rs)
		}
	}
	var flag byte
	var out interface{}
	var perr error
	panicked, pmsg := guard(func() { flag, out, perr = inst.ProcessContent(sender, resp) })
	obs := ""
	switch {
	case panicked:
		obs = "panic " + pmsg
	case perr != nil:
		obs = "err"
	case flag == portalwire.ContentRawSelector:
		obs = "raw " + hx(out.([]byte))
	case flag == portalwire.ContentEnrsSelector:
		ns := out.([]*enode.Node)
		tags := make([]string, len(ns))
		for i, n := range ns {
			if v, ok := t.lookupNode(n); ok {
				tags[i] = strconv.Itoa(v)
			} else {
				tags[i] = "?"
			}
		}
		obs = "enrs " + hTagList(tags)
	default:
		obs = fmt.Sprintf("other %d", flag)
	}
	if gen == "" {
		gen = "-"
	}
	c.Emit("pc %s %s %s %s ; %s %s | %s", keyhex, hx(senderEnr), hx(resp), gen, senders, dec, obs)
}

var c08verInsts = map[string]*portalwire.VerifHInstance{}

func c08verInst(r *Rng, own string) *portalwire.VerifHInstance {
	if i, ok := c08verInsts[own]; ok {
		return i
	}
	vs := []uint8{}
	for _, ch := range own {
		vs = append(vs, uint8(ch-'0'))
	}
	i := hInstanceV(r, vs)
	c08verInsts[own] = i
	return i
}

// c08execUc: stream framing for a fresh peer whose record carries the given pv entry (no cached version).
// c08peerRecord: a signed record of key k with the given sequence number and pv entry (M missing, E empty, X malformed, digits).
func c08peerRecord(k *ecdsa.PrivateKey, seq uint64, pv string) *enode.Node {
	var rec enr.Record
	rec.Set(enr.IPv4(net.IPv4(127, 0, 0, 1)))
	rec.Set(enr.UDP(30303))
	switch pv {
	case "M":
	case "E":
		rec.Set(enr.WithEntry("pv", []byte{}))
	case "X": // an RLP list where a byte string is expected
		rec.Set(enr.WithEntry("pv", []string{"a", "b"}))
	default:
		b := []byte{}
		for _, ch := range pv {
			b = append(b, byte(ch-'0'))
		}
		rec.Set(enr.WithEntry("pv", b))
	}
	rec.SetSeq(seq)
	if err := enode.SignV4(&rec, k); err != nil {
		panic(err)
	}
	n, err := enode.New(enode.ValidSchemes, &rec)
	if err != nil {
		panic(err)
	}
	return n
}

// c08execUc: stream framing for a fresh peer whose record carries the given pv entry (no cached version).  tablepv != "~": the
// routing table already holds an OLDER record of the same peer (lower sequence number) with that pv entry - the peer has since
// been upgraded / downgraded; the version must be negotiated from the record in hand.
func c08execUc(c *Ctx, r *Rng, own, pv, op string, data []byte, tablepv string) {
	inst := c08verInst(r, own)
	k := hKey(r)
	peer := c08peerRecord(k, 2, pv)
	if tablepv != "~" {
		if err := inst.ResetTable(); err != nil {
			panic(err)
		}
		inst.AddNode(c08peerRecord(k, 1, tablepv), true, false)
		if !inst.InTable(peer.ID()) {
			tablepv = "~" // could not be inserted: an ordinary case
		}
	}
	var out []byte
	var oerr error
	panicked, pmsg := guard(func() {
		if op == "enc" {
			out, oerr = inst.EncodeUtpContent(peer, data)
		} else {
			out, oerr = inst.DecodeUtpContent(peer, data)
		}
	})
	obs := ""
	switch {
	case panicked:
		obs = "panic " + pmsg
	case oerr != nil:
		obs = "err"
	default:
		obs = "ok " + hx(out)
	}
	c.Count("uc_" + op + "_peer_" + pv)
	if tablepv != "~" {
		c.Count("uc_stale_record_in_table")
	}
	c.Emit("uc %s %s %s %s %s | %s", own, pv, op, hx(data), tablepv, obs)
}

func c08ucCase(c *Ctx, r *Rng) {
	own := r.Pick2([]string{"01", "01", "0", "1"})
	pv := r.Pick2([]string{"M", "M", "M", "0", "1", "01", "10", "2", "12", "E", "X"})
	d := r.Bytes(r.Pick([]int{0, 1, 5, 127, 128, 300, 1176, 3000}))
	tablepv := "~"
	if r.Intn(3) == 0 { // the table holds an older record of the peer with another pv entry (upgrade 0 -> 01, downgrade 01 -> 0, ...)
		tablepv = r.Pick2([]string{"0", "0", "01", "01", "1", "M"})
		if r.Bool() {
			pv = r.Pick2([]string{"01", "0", "1", "M"})
		}
	}
	if r.Bool() {
		c08execUc(c, r, own, pv, "enc", d, tablepv)
		return
	}
	// something to decode: a v1-framed item, a bare item, or a damaged frame
	switch r.Intn(4) {
	case 0:
		d = portalwire.VerifHEncodeSingle(d)
	case 1:
		d = append(portalwire.VerifHEncodeSingle(d), 0)
	}
	c08execUc(c, r, own, pv, "dec", d, tablepv)
}

func c08replay(c *Ctx, lines []string) {
	for _, ln := range lines {
		f := strings.Fields(strings.SplitN(ln, "|", 2)[0])
		if len(f) < 2 {
			continue
		}
		switch f[0] {
		case "fc":
			c08execFc(c, f[1], unhx(f[2]), f[3], unhx(f[4]), f[5], c11parseIns(f[6]))
		case "uc":
			tp := "~"
			if len(f) > 5 {
				tp = f[5]
			}
			c08execUc(c, NewRng(c.Seed), f[1], f[2], f[3], unhx(f[4]), tp)
		case "pc":
			g := f[4]
			if g == "-" {
				g = ""
			}
			c08execPc(c, f[1], unhx(f[2]), unhx(f[3]), g)
		default:
			c08live(c, NewRng(c.Seed), true)
			return
		}
	}
}

func c08fcCase(c *Ctx, r *Rng, key string, pool []hPoolKey) {
	inst := hInstance(key, "-", "history")
	self := inst.Self().ID()
	ckey := r.Bytes(1 + r.Intn(60))
	cid := sha256.Sum256(ckey)
	// table
	var ins []c11ins
	var nodes []*enode.Node
	nn := r.Pick([]int{0, 1, 2, 3, 4, 5, 8, 16, 31, 32, 33, 34, 48, 100, 272})
	sizeMode := r.Intn(4)
	for i := 0; i < nn; i++ {
		var id enode.ID
		switch k := r.Intn(10); {
		case k < 3:
			id = hIDAtDistance(r, enode.ID(cid), 1+r.Intn(256))
		case k < 6:
			id = hIDAtDistance(r, self, 240+r.Intn(17))
		default:
			copy(id[:], r.Bytes(32))
		}
		size := 0
		switch sizeMode {
		case 0:
			size = 300
		case 1:
			size = r.Pick([]int{0, 100, 200, 288, 289, 290, 291, 292, 300})
		case 2:
			size = r.Pick([]int{0, 0, 300})
		}
		n := hRecord(nil, id, hIP(r, r.Pick2([]string{"loop", "lan10", "lan192", "pub"})), 30303, 1, size)
		nodes = append(nodes, n)
		ins = append(ins, c11ins{hEnrBytes(n), r.Intn(5) != 0, false})
	}
	// requester: a table node, or an outsider
	var req *enode.Node
	if len(nodes) > 0 && r.Intn(3) != 0 {
		req = nodes[r.Intn(len(nodes))]
		c.Count("fc_requester_in_table")
	} else {
		k := pool[r.Intn(len(pool))]
		req = hRecord(k.key, k.id, hIP(r, "lan10"), 30303, 1, 0)
		c.Count("fc_requester_not_in_table")
	}
	st := "N"
	switch k := r.Intn(10); {
	case k < 4:
		st = "N"
	case k == 4:
		st = "E"
		if r.Bool() { // held, but the read fails
			st = "E:" + hx(r.Bytes(r.Pick([]int{1, 100, 1175, 1176, 3000})))
			c.Count("fc_store_read_fails_for_held_key")
		}
	default:
		sz := r.Pick([]int{0, 1, 2, 100, 1000, 1173, 1174, 1175, 1175, 1176, 1176, 1177, 2047, 2048, 2049, 4096})
		st = "F:" + hx(r.Bytes(sz))
		if sz == 0 {
			st = "F:-"
		}
		c.Count(fmt.Sprintf("fc_content_size_%d", sz))
	}
	a, _ := netip.AddrFromSlice(hIP(r, r.Pick2([]string{"loop", "lan10", "pub", "v6pub"})))
	asker := netip.AddrPortFrom(a.Unmap(), uint16(1025+r.Intn(60000))).String()
	// (content above the inline threshold makes the handler start a uTP accept goroutine, which the talk-path hook would wait for)
	if !strings.Contains(st, "@") && !(strings.HasPrefix(st, "F:") && len(st) > 2+2*1175) {
		switch r.Intn(6) {
		case 0:
			st = "T!" + st // through handleTalkRequest
		case 1, 2:
			st = "P!" + st // ... right after requests whose store read failed
		}
	}
	c08execFc(c, key, hEnrBytes(req), asker, ckey, st, ins)
}

// c08mutCase: the routing table changes during the store read of a not-held key.
//
//	promote: the asker sits in the replacement list of a full bucket and an entry of that bucket is deleted during the read,
//	         which promotes the asker into the table: the reply must still not contain the asker;
//	del:     an entry that would have been listed disappears;   add: a node close to the content appears.
func c08mutCase(c *Ctx, r *Rng, key string) {
	inst := hInstance(key, "-", "history")
	self := inst.Self().ID()
	ckey := r.Bytes(1 + r.Intn(40))
	cid := sha256.Sum256(ckey)
	mk := func(id enode.ID) *enode.Node {
		return hRecord(nil, id, hIP(r, r.Pick2([]string{"loop", "lan10", "lan192"})), 30303, 1, 0)
	}
	var ins []c11ins
	d := 245 + r.Intn(12)
	var bucket []*enode.Node
	for i := 0; i < 16; i++ {
		n := mk(hIDAtDistance(r, self, d))
		bucket = append(bucket, n)
		ins = append(ins, c11ins{hEnrBytes(n), true, false})
	}
	for i, k := 0, r.Intn(8); i < k; i++ { // a few entries elsewhere
		dd := 245 + r.Intn(12)
		if dd != d {
			ins = append(ins, c11ins{hEnrBytes(mk(hIDAtDistance(r, self, dd))), true, false})
		}
	}
	asker := mk(hIDAtDistance(r, self, d)) // 17th of the bucket: goes to the replacement list
	st := ""
	switch r.Intn(4) {
	case 0, 1:
		ins = append(ins, c11ins{hEnrBytes(asker), true, false})
		st = "N@del:" + hx(hEnrBytes(bucket[r.Intn(len(bucket))]))
		c.Count("fc_mut_asker_promoted_during_read")
	case 2:
		st = "N@del:" + hx(hEnrBytes(bucket[r.Intn(len(bucket))]))
		c.Count("fc_mut_listed_node_removed_during_read")
	default:
		st = "N@add:" + hx(hEnrBytes(mk(hIDAtDistance(r, enode.ID(cid), 1+r.Intn(200)))))
		c.Count("fc_mut_closer_node_added_during_read")
	}
	c08execFc(c, key, hEnrBytes(asker), "127.0.0.1:30303", ckey, st, ins)
}

func c08pcCase(c *Ctx, r *Rng, key string, pool []hPoolKey) {
	sk := pool[r.Intn(len(pool))]
	sender := hRecord(sk.key, sk.id, hIP(r, r.Pick2([]string{"loop", "lan10", "pub", "pub"})), 30303, 1, 0)
	var resp []byte
	gen := ""
	switch k := r.Intn(16); {
	case k == 0:
		resp = []byte{}
		c.Count("pc_empty")
	case k == 1:
		resp = []byte{portalwire.CONTENT} // one byte: resp[1] does not exist
		c.Count("pc_one_byte")
	case k == 2:
		resp = append([]byte{byte(r.Pick([]int{0, 1, 3, 7, 255}))}, r.Bytes(r.Intn(20))...)
		c.Count("pc_wrong_code")
	case k == 3:
		resp = append([]byte{portalwire.CONTENT, byte(3 + r.Intn(250))}, r.Bytes(r.Intn(20))...)
		c.Count("pc_bad_selector")
	case k < 8:
		sz := r.Pick([]int{0, 1, 100, 1175, 2047, 2048, 2049, 3000})
		resp = append([]byte{portalwire.CONTENT, portalwire.ContentRawSelector}, r.Bytes(sz)...)
		c.Count("pc_raw")
	case k < 10: // connection id of the wrong length (a well-formed one would start a uTP dial)
		resp = append([]byte{portalwire.CONTENT, portalwire.ContentConnIdSelector}, r.Bytes(r.Pick([]int{0, 1, 3, 4}))...)
		c.Count("pc_connid_bad_length")
	default:
		cnt := r.Pick([]int{0, 1, 2, 4, 8, 12})
		var enrs [][]byte
		for i := 0; i < cnt; i++ {
			pk := pool[r.Intn(len(pool))]
			port := r.Pick([]int{30303, 30303, 1025, 1024, 80})
			n := hRecord(pk.key, pk.id, hIP(r, r.Pick2([]string{"loop", "lan10", "pub", "pub", "special"})), port, 1, r.Pick([]int{0, 0, 300}))
			b := hEnrBytes(n)
			valid := true
			switch r.Intn(8) {
			case 0:
				b = append([]byte{}, b...)
				b[4+r.Intn(60)] ^= 0x10
				valid = false
			case 1:
				if len(enrs) > 0 {
					j := r.Intn(len(enrs))
					b, valid = enrs[j], gen[j] == '1'
				}
			case 2:
				b = r.Bytes(1 + r.Intn(50))
				valid = false
			}
			enrs = append(enrs, b)
			if valid {
				gen += "1"
			} else {
				gen += "0"
			}
		}
		m := &portalwire.Enrs{Enrs: enrs}
		body, err := m.MarshalSSZ()
		if err != nil {
			return
		}
		resp = append([]byte{portalwire.CONTENT, portalwire.ContentEnrsSelector}, body...)
		if r.Intn(10) == 0 && len(resp) > 3 {
			resp = resp[:2+r.Intn(len(resp)-2)]
		}
		c.Count("pc_enrs")
	}
	c08execPc(c, key, hEnrBytes(sender), resp, gen)
}

func hInstanceVS(r *Rng, versions []uint8) (*portalwire.VerifHInstance, *hMemStorage) {
	k := hKey(r)
	st := newMemStorage()
	inst, err := portalwire.VerifHNew(portalwire.History, k, st, nil, versions, 50)
	if err != nil {
		panic(err)
	}
	return inst, st
}

func hInstanceV(r *Rng, versions []uint8) *portalwire.VerifHInstance {
	i, _ := hInstanceVS(r, versions)
	return i
}

func c08vers(v []uint8) string {
	s := ""
	for _, x := range v {
		s += strconv.Itoa(int(x))
	}
	return s
}

// c08live: two real instances over loopback UDP, both protocol versions on either side.  The responder holds contents around
// the inline threshold and multi-packet ones; the asker's findContent runs for real (uTP stream for the large ones).
func c08live(c *Ctx, r *Rng, quick bool) {
	type livePair struct {
		va, vb         []uint8
		stripA, stripB bool // the instance speaks only what is listed and advertises NO pv entry (a legacy peer)
		sizes          []int
	}
	sizes := []int{0, 1, 1174, 1175, 1176, 1177, 4096, 60000}
	if !quick {
		sizes = append(sizes, 300000, 1<<20)
	}
	legacy := []int{1176, 4096}
	pairs := []livePair{
		{[]uint8{0, 1}, []uint8{0, 1}, false, false, sizes},
		{[]uint8{0}, []uint8{0, 1}, false, false, sizes},
		{[]uint8{0, 1}, []uint8{0}, false, false, sizes},
		{[]uint8{1}, []uint8{0, 1}, false, false, sizes},
		{[]uint8{0}, []uint8{0, 1}, true, false, legacy},  // legacy asker without a pv entry
		{[]uint8{0, 1}, []uint8{0}, false, true, legacy},  // legacy responder without a pv entry
		{[]uint8{0}, []uint8{0}, true, true, []int{1176}}, // both legacy
	}
	pool := hPool(r, 40)
	// the pairs run concurrently (each on its own instances and its own generator state); their lines are emitted in pair order
	type pairOut struct {
		lines  []string
		counts []string
	}
	outs := make([]pairOut, len(pairs))
	rngs := make([]*Rng, len(pairs))
	for i := range pairs {
		rngs[i] = NewRng(r.U64())
	}
	var wg sync.WaitGroup
	for pi := range pairs {
		wg.Add(1)
		go func(pi int) {
			defer wg.Done()
			pr, r := pairs[pi], rngs[pi]
			emit := func(format string, a ...any) { outs[pi].lines = append(outs[pi].lines, fmt.Sprintf(format, a...)) }
			count := func(k string) { outs[pi].counts = append(outs[pi].counts, k) }

			a := hInstanceV(r, pr.va)
			if pr.stripA {
				a.P.DiscV5.LocalNode().Delete(portalwire.Versions)
			}
			b, bstore := hInstanceVS(r, pr.vb)
			if pr.stripB {
				b.P.DiscV5.LocalNode().Delete(portalwire.Versions)
			}
			va, vb := c08vers(pr.va), c08vers(pr.vb)
			if pr.stripA {
				va += "x"
			}
			if pr.stripB {
				vb += "x"
			}
			var perr error
			for try := 0; try < 6; try++ { // on a loaded machine the first RPC may time out
				if _, perr = a.Ping(b.Self()); perr == nil {
					break
				}
			}
			if perr != nil {
				count("live_unobserved_no_handshake")
				emit("live-unobserved ping | %s", strings.ReplaceAll(perr.Error(), " ", "_"))
				return
			}
			// responder's table: signed records so that the asker can verify them
			var ins []c11ins
			for _, k := range pool {
				n := hRecord(k.key, k.id, hIP(r, r.Pick2([]string{"loop", "lan10", "pub"})), 30303, 1, r.Pick([]int{0, 300, 300}))
				ins = append(ins, c11ins{hEnrBytes(n), true, false})
			}
			for _, x := range ins {
				if n, err := hNodeFromBytes(x.enr); err == nil {
					b.AddNode(n, true, false)
				}
			}
			maxOut := func() int {
				m := 0
				for _, d := range b.Datagrams() {
					if !d.Out && d.Size > m { // logged by the reader before the datagram is processed: no race with the call returning
						m = d.Size
					}
				}
				for _, d := range a.Datagrams() {
					if !d.Out && d.Size > m {
						m = d.Size
					}
				}
				return m
			}
			for _, sz := range pr.sizes {
				ckey := r.Bytes(8)
				cid := sha256.Sum256(ckey)
				content := r.Bytes(sz)
				bstore.db[string(cid[:])] = content
				want := sha256.Sum256(content)
				a.Datagrams()
				b.Datagrams()
				flag, got, err := a.FindContent(b.Self(), ckey)
				obs := "err"
				if err == nil {
					if gb, ok := got.([]byte); ok {
						h := sha256.Sum256(gb)
						obs = fmt.Sprintf("ok %d %d %x %d", flag, len(gb), h[:], maxOut())
					} else {
						obs = fmt.Sprintf("ok %d notbytes 0 %d", flag, maxOut())
					}
				} else if hTimeoutErr(err) {
					// an RPC / uTP timeout on a loaded machine proves nothing either way
					obs = "unobserved " + strings.ReplaceAll(err.Error(), " ", "_")
					count("live_transfer_unobserved")
				} else {
					obs = "err " + strings.ReplaceAll(err.Error(), " ", "_")
				}
				count(fmt.Sprintf("live_transfer_%d", sz))
				emit("lfc %s %s %d ; %x | %s", va, vb, sz, want[:], obs)
			}
			// not held: records
			nlfe := 3
			if pr.stripA || pr.stripB {
				nlfe = 1
			}
			for i := 0; i < nlfe; i++ {
				ckey := r.Bytes(9)
				cid := sha256.Sum256(ckey)
				t := newTags()
				nl := b.NodeList()
				recs := make([]string, len(nl))
				for j, n := range nl {
					eb := hEnrBytes(n)
					recs[j] = hRecStr(t.tag(eb), n, len(eb), true)
				}
				a.Datagrams()
				b.Datagrams()
				flag, got, err := a.FindContent(b.Self(), ckey)
				obs := "err"
				if err == nil {
					if ns, ok := got.([]*enode.Node); ok && flag == portalwire.ContentEnrsSelector {
						tags := make([]string, len(ns))
						for j, n := range ns {
							if v, ok := t.lookupNode(n); ok {
								tags[j] = strconv.Itoa(v)
							} else {
								tags[j] = "?"
							}
						}
						obs = fmt.Sprintf("ok %s %d", hTagList(tags), maxOut())
					} else {
						obs = fmt.Sprintf("err wrong-selector-%d", flag)
					}
				} else if hTimeoutErr(err) {
					obs = "unobserved " + strings.ReplaceAll(err.Error(), " ", "_")
					count("live_enrs_unobserved")
				} else {
					obs = "err " + strings.ReplaceAll(err.Error(), " ", "_")
				}
				count("live_enrs")
				emit("lfe %s %s ; %s %s %s | %s", va, vb, c20idHexC08(a.Self().ID()), new(big.Int).SetBytes(cid[:]).Text(16), hTagList(recs), obs)
			}
			a.Close()
			b.Close()
		}(pi)
	}
	wg.Wait()
	for _, o := range outs {
		for _, l := range o.lines {
			c.Emit("%s", l)
		}
		for _, k := range o.counts {
			c.Count(k)
		}
	}
}

func runC08(c *Ctx) {
	hQuiet()
	if len(c.Args) >= 2 && c.Args[0] == "replay" {
		c08replay(c, readReplayCases(c.Args[1]))
		return
	}
	nfc, npc := 500, 1200
	if c.Tier == "thorough" {
		nfc, npc = 5000, 20000
	}
	if c.N > 0 {
		nfc, npc = c.N, c.N
	}
	r := c.Rng
	pool := hPool(r, 64)
	key := hKeyHex(hKey(r))
	for i := 0; i < nfc; i++ {
		if i%12 == 5 {
			c08mutCase(c, r, key)
			continue
		}
		c08fcCase(c, r, key, pool)
	}
	for i := 0; i < npc; i++ {
		c08pcCase(c, r, key, pool)
	}
	for i := 0; i < npc/3; i++ {
		c08ucCase(c, r)
	}
	c08live(c, r, c.Tier != "thorough")
}
