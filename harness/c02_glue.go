//go:build c02 || all

package main

// C02, the glue around the modelled core (history/history_network.go:76-248):
//   - the REAL processContentLoop, started by Network.Start on a harness-owned portal protocol: ContentElements are
//     pushed into the protocol's content queue; observed: what the recording storage was asked to Put, and what the
//     neighbour node received through the loop's Gossip call (its own content queue);
//   - the getter and validateContents branches that need a fault: storage Get failing with an error other than "not
//     found", storage Put failing, the local store holding undecodable bytes, a validator (Network.validator is an
//     interface) that accepts undecodable content.
//
//   T      = <H>~<B>~<R> of a content (ground truth as in c02.go), "-" when there is no content
//   gf <t> <hash> <local: n|hex> <remote: n|hex> <verdict o|e|r> <gfail 0|1> <pfail 0|1> <T local> <T remote> <S> | ok <o<retid>|e|p>,<puts>
//   of <verdict o|e|r> <gfail> <pfail> <pre: .|key:content+..> <elem> | ok <o|e|p>,<puts>
//   loop <elem>;<elem>...  | ok <puts>,<gossip>;...        gossip = key:content+.. received by the neighbour | . | ? (expected, not observed in time)
//   elem   = <items: .|key~content~H~B~R~S+...>^<extra keys: .|k+k>^<extra contents: .|c+c>
//   verdict: o = validator accepts everything, e = rejects everything, r = the real HistoryValidator

import (
	"bytes"
	"errors"
	"fmt"
	"os"
	"strings"
	"time"

	"github.com/ethereum/go-ethereum/core/types"
	"github.com/ethereum/go-ethereum/p2p/enode"
	"github.com/ethereum/go-ethereum/rpc"
	"github.com/ethereum/go-ethereum/trie"
	"github.com/zen-eth/shisui/history"
	"github.com/zen-eth/shisui/portalwire"
	"github.com/zen-eth/shisui/validation"
)

type c02Validator struct {
	inner   validation.Validator
	script  byte
	ev      chan c02Event
	release chan struct{}
}

func (v *c02Validator) ValidateContent(contentKey []byte, content []byte) error {
	var err error
	switch v.script {
	case 'w': // occupy the worker until released, then reject
		v.ev <- c02Event{'w', string(contentKey)}
		<-v.release
		err = errors.New("scripted rejection after wait")
	case 'o':
	case 'e':
		err = errors.New("scripted rejection")
	default:
		err = v.inner.ValidateContent(contentKey, content)
	}
	k := byte('v')
	if err != nil {
		k = 'r'
	}
	select {
	case v.ev <- c02Event{k, string(contentKey)}:
	default:
	}
	return err
}

func (n *c02Net) drainEvents() {
	for {
		select {
		case <-n.ev:
		default:
			return
		}
	}
}

func (n *c02Net) truth(content []byte) string {
	if content == nil {
		return "-"
	}
	return fmt.Sprintf("%s~%s~%s", c02H(n.e.hv, content), c02B(content), c02R(content))
}

type c02Elem struct {
	items     []c02Item
	xkeys     [][]byte
	xcontents [][]byte
}

func (n *c02Net) elemStr(el c02Elem) string {
	its := "."
	if len(el.items) > 0 {
		p := make([]string, len(el.items))
		for i, it := range el.items {
			p[i] = n.itemStr(it)
		}
		its = strings.Join(p, "+")
	}
	j := func(l [][]byte) string {
		if len(l) == 0 {
			return "."
		}
		p := make([]string, len(l))
		for i, b := range l {
			p[i] = hx(b)
		}
		return strings.Join(p, "+")
	}
	return its + "^" + j(el.xkeys) + "^" + j(el.xcontents)
}

func (el c02Elem) lists() (keys, contents [][]byte) {
	keys, contents = [][]byte{}, [][]byte{}
	for _, it := range el.items {
		keys = append(keys, it.key)
		contents = append(contents, it.content)
	}
	keys = append(keys, el.xkeys...)
	contents = append(contents, el.xcontents...)
	return
}

func c02parseElem(s string) c02Elem {
	p := strings.Split(s, "^")
	var el c02Elem
	if p[0] != "." {
		for _, it := range strings.Split(p[0], "+") {
			q := strings.Split(it, "~")
			el.items = append(el.items, c02Item{key: unhx(q[0]), content: unhx(q[1]), src: c02parseS(q[5])})
		}
	}
	if p[1] != "." {
		for _, k := range strings.Split(p[1], "+") {
			el.xkeys = append(el.xkeys, unhx(k))
		}
	}
	if p[2] != "." {
		for _, c := range strings.Split(p[2], "+") {
			el.xcontents = append(el.xcontents, unhx(c))
		}
	}
	return el
}

// ---------------------------------------------------------------- getters with scripted faults

type c02GF struct {
	t             int
	hash          []byte
	local, remote []byte
	verdict       byte
	gfail, pfail  bool
	src           *types.Header
}

func b01(b bool) int {
	if b {
		return 1
	}
	return 0
}

func (n *c02Net) runGF(g c02GF) {
	n.a.st.reset()
	n.b.st.reset()
	key := append([]byte{byte(g.t)}, g.hash...)
	id := n.a.pp.ToContentId(key)
	if g.local != nil {
		n.a.st.poke(id, g.local)
	}
	if g.remote != nil {
		_ = n.b.pp.Put(key, n.b.pp.ToContentId(key), g.remote)
		if g.local == nil && !g.gfail {
			delivered := false
			for try := 0; try < 3 && !delivered; try++ {
				got, _, err := n.a.pp.ContentLookup(key, id)
				delivered = err == nil && bytes.Equal(got, g.remote)
			}
			if !delivered {
				n.e.c.Count("gf_dropped_lookup_did_not_deliver")
				return
			}
		}
	}
	n.setSrcFor(nil, g.src)
	n.val.script = g.verdict
	n.a.st.mu.Lock()
	n.a.st.failGet, n.a.st.failPut = g.gfail, g.pfail
	n.a.st.mu.Unlock()
	var retid string
	out := c02obs(func() error {
		switch g.t {
		case 0:
			h, err := n.net.GetBlockHeader(g.hash)
			if err == nil {
				retid = hx(h.Hash().Bytes())
			}
			return err
		case 1:
			b, err := n.net.GetBlockBody(g.hash)
			if err == nil {
				retid = c02bodyRoots(b)
			}
			return err
		default:
			rs, err := n.net.GetReceipts(g.hash)
			if err == nil {
				r := types.DeriveSha(types.Receipts(rs), trie.NewStackTrie(nil))
				retid = hx(r[:])
			}
			return err
		}
	})
	n.val.script = 'r'
	puts := n.a.st.takePuts()
	n.a.st.reset()
	n.drainEvents()
	opt := func(b []byte) string {
		if b == nil {
			return "n"
		}
		return hx(b)
	}
	n.e.c.Count(fmt.Sprintf("gf_get%d_%c_g%d_p%d_%s", g.t, g.verdict, b01(g.gfail), b01(g.pfail), out[:2]))
	n.e.c.Emit("gf %d %s %s %s %c %d %d %s %s %s | ok %s%s,%s", g.t, hx(g.hash), opt(g.local), opt(g.remote), g.verdict, b01(g.gfail), b01(g.pfail),
		n.truth(g.local), n.truth(g.remote), c02S(g.src), out[:1], retid, puts)
}

// ---------------------------------------------------------------- validateContents with scripted faults

type c02OF struct {
	verdict      byte
	gfail, pfail bool
	pre          []c02Item
	el           c02Elem
}

func (n *c02Net) runOF(o c02OF) {
	n.a.st.reset()
	pre := "."
	if len(o.pre) > 0 {
		p := make([]string, len(o.pre))
		for i, it := range o.pre {
			n.a.st.poke(n.a.pp.ToContentId(it.key), it.content)
			p[i] = hx(it.key) + ":" + hx(it.content)
		}
		pre = strings.Join(p, "+")
	}
	keys, contents := o.el.lists()
	n.setSrcFor(o.el.items, nil)
	n.val.script = o.verdict
	n.a.st.mu.Lock()
	n.a.st.failGet, n.a.st.failPut = o.gfail, o.pfail
	n.a.st.mu.Unlock()
	out := c02obs(func() error { return history.VerifHistValidateContents(n.net, keys, contents) })
	n.val.script = 'r'
	puts := n.a.st.takePuts()
	n.a.st.reset()
	n.drainEvents()
	n.e.c.Count(fmt.Sprintf("of_%c_g%d_p%d_%s", o.verdict, b01(o.gfail), b01(o.pfail), out[:2]))
	n.e.c.Emit("of %c %d %d %s %s | ok %s,%s", o.verdict, b01(o.gfail), b01(o.pfail), pre, n.elemStr(o.el), out[:1], puts)
}

// ---------------------------------------------------------------- the real processContentLoop

// waitElement follows the storage / validator events of ONE element through the loop until its validate-and-store
// phase is over: every item resolved (found in the db, or Put attempted), or a validation failed, or (more contents
// than keys) the keys ran out.  Events may come in any order; 2 s without completion is reported as a timeout.
func (n *c02Net) waitElement(nkeys, ncontents int) byte {
	need := ncontents
	short := false
	if nkeys < ncontents {
		need, short = nkeys, true
	}
	resolved := 0
	deadline := time.After(2 * time.Second)
	for resolved < need {
		select {
		case ev := <-n.ev:
			switch ev.kind {
			case 'g', 'p', 'f':
				resolved++
			case 'r':
				return 'e'
			}
		case <-deadline:
			return 't'
		}
	}
	if short {
		return 'p' // contentKeys[i] beyond the keys: the worker panics (recovered by the pool)
	}
	return 'o'
}

func (n *c02Net) drainNeighbour() {
	for {
		select {
		case <-n.b.queue:
		default:
			return
		}
	}
}

func (n *c02Net) runLoop(elems []c02Elem) {
	n.a.st.reset()
	n.b.st.reset()
	n.drainEvents()
	n.drainNeighbour()
	n.val.script = 'r'
	var elS, obS []string
	for _, el := range elems {
		keys, contents := el.lists()
		n.setSrcFor(el.items, nil)
		var src enode.ID
		copy(src[:], n.e.c.Rng.Bytes(32))
		n.a.queue <- &portalwire.ContentElement{Node: src, ContentKeys: keys, Contents: contents}
		phase := n.waitElement(len(keys), len(contents))
		// what the loop handed to Gossip, as the neighbour receives it
		gossip := "."
		wait := 40 * time.Millisecond
		if phase == 'o' && len(contents) > 0 {
			wait = 1500 * time.Millisecond
		}
		select {
		case ce := <-n.b.queue:
			p := make([]string, 0, len(ce.Contents))
			for i := range ce.Contents {
				if i < len(ce.ContentKeys) {
					p = append(p, hx(ce.ContentKeys[i])+":"+hx(ce.Contents[i]))
				}
			}
			if len(p) > 0 {
				gossip = strings.Join(p, "+")
			}
		case <-time.After(wait):
			if phase == 'o' && len(contents) > 0 {
				gossip = "?"
				n.e.c.Count("loop_gossip_not_observed_in_time")
			}
		}
		if phase == 't' {
			n.e.c.Count("loop_element_timeout")
		}
		n.e.c.Count(fmt.Sprintf("loop_element_%c", phase))
		elS = append(elS, n.elemStr(el))
		obS = append(obS, n.a.st.takePuts()+","+gossip)
		n.drainEvents()
	}
	n.e.c.Emit("loop %s | ok %s", strings.Join(elS, ";"), strings.Join(obS, ";"))
}

// runDrop: all 100 workers of the loop's pool are kept busy by a validator that waits; the element that arrives then
// is dropped by the loop ("submit to ants pool failed"): never validated, never stored, never gossiped.
//
//	drop <elem> | ok <puts>,<gossip>
func (n *c02Net) runDrop(el c02Elem) {
	n.a.st.reset()
	n.drainEvents()
	n.drainNeighbour()
	n.val.release = make(chan struct{})
	n.val.script = 'w'
	var src enode.ID
	busy := 0
	for i := 0; i < 100; i++ {
		k := append([]byte{0x7f}, n.e.c.Rng.Bytes(8)...)
		n.a.queue <- &portalwire.ContentElement{Node: src, ContentKeys: [][]byte{k}, Contents: [][]byte{{1}}}
	}
	deadline := time.After(5 * time.Second)
	for busy < 100 {
		select {
		case ev := <-n.ev:
			if ev.kind == 'w' {
				busy++
			}
		case <-deadline:
			busy = 1000
		}
	}
	if busy != 100 {
		close(n.val.release)
		n.val.script = 'r'
		n.e.c.Count("drop_pool_not_saturated")
		return
	}
	n.drainEvents()
	n.a.st.takePuts()
	keys, contents := el.lists()
	n.setSrcFor(el.items, nil)
	n.a.queue <- &portalwire.ContentElement{Node: src, ContentKeys: keys, Contents: contents}
	for len(n.a.queue) > 0 {
		time.Sleep(time.Millisecond)
	}
	time.Sleep(60 * time.Millisecond)
	puts := n.a.st.takePuts()
	gossip := "."
	select {
	case <-n.b.queue:
		gossip = "something"
	default:
	}
	n.val.script = 'r'
	close(n.val.release)
	time.Sleep(20 * time.Millisecond)
	n.drainEvents()
	n.e.c.Count("drop")
	n.e.c.Emit("drop %s | ok %s,%s", n.elemStr(el), puts, gossip)
}

// ---------------------------------------------------------------- the oracle over the node's REAL JSON-RPC API
// ValidationOracle -> portal_historyGetContent -> history.API.HistoryGetContent -> PortalProtocolAPI.RecursiveFindContent
// (local store, else ContentLookup) on node a; the header bytes are wherever the harness put them:
//
//	orcnet <where l|r|n> <hash> <served: n|hex> <H> | ok <hdesc> / err         l = a's own store, r = the neighbour, n = nowhere
func (n *c02Net) orcnet(where byte, hash []byte, served []byte) {
	if n.rpcOracle == nil {
		srv := rpc.NewServer()
		if err := srv.RegisterName("portal", &history.API{PortalProtocolAPI: portalwire.NewPortalAPI(n.a.pp)}); err != nil {
			panic(err)
		}
		n.rpcOracle = validation.NewOracle(rpc.DialInProc(srv))
	}
	n.a.st.reset()
	n.b.st.reset()
	key := append([]byte{0}, hash...)
	switch where {
	case 'l':
		n.a.st.poke(n.a.pp.ToContentId(key), served)
	case 'r':
		_ = n.b.pp.Put(key, n.b.pp.ToContentId(key), served)
		delivered := false
		for try := 0; try < 3 && !delivered; try++ {
			got, _, err := n.a.pp.ContentLookup(key, n.a.pp.ToContentId(key))
			delivered = err == nil && bytes.Equal(got, served)
		}
		if !delivered {
			n.e.c.Count("orcnet_dropped_lookup_did_not_deliver")
			return
		}
	default:
		served = nil
	}
	var h *types.Header
	out := c02obs(func() error {
		var err error
		h, err = n.rpcOracle.GetBlockHeaderByHash(hash)
		return err
	})
	if out == "ok" {
		out = "ok " + c02hdesc(h)
	}
	sv, H := "n", "x"
	if served != nil {
		sv, H = hx(served), c02H(n.e.hv, served)
	}
	n.a.st.reset()
	n.drainEvents()
	n.e.c.Count(fmt.Sprintf("orcnet_%c_%s", where, out[:2]))
	n.e.c.Emit("orcnet %c %s %s %s | %s", where, hx(hash), sv, H, out)
}

// ---------------------------------------------------------------- replay

func c02GlueReplay(n *c02Net, f []string) {
	switch f[0] {
	case "gf":
		g := c02GF{t: int(f[1][0] - '0'), hash: unhx(f[2]), verdict: f[5][0], gfail: f[6] == "1", pfail: f[7] == "1", src: c02parseS(f[10])}
		if f[3] != "n" {
			g.local = unhx(f[3])
		}
		if f[4] != "n" {
			g.remote = unhx(f[4])
		}
		n.runGF(g)
	case "of":
		o := c02OF{verdict: f[1][0], gfail: f[2] == "1", pfail: f[3] == "1", el: c02parseElem(f[5])}
		if f[4] != "." {
			for _, kc := range strings.Split(f[4], "+") {
				p := strings.Split(kc, ":")
				o.pre = append(o.pre, c02Item{key: unhx(p[0]), content: unhx(p[1])})
			}
		}
		n.runOF(o)
	case "orcnet":
		var served []byte
		if f[3] != "n" {
			served = unhx(f[3])
		}
		n.orcnet(f[1][0], unhx(f[2]), served)
	case "drop":
		n.runDrop(c02parseElem(f[1]))
	case "loop":
		var els []c02Elem
		for _, e := range strings.Split(f[1], ";") {
			els = append(els, c02parseElem(e))
		}
		n.runLoop(els)
	}
}

// ---------------------------------------------------------------- generator

func c02Glue(n *c02Net, all []*c02Block, thorough bool) {
	r := n.e.c.Rng
	var small, full, hdrs []*c02Block
	for _, b := range all {
		if b.bodyC != nil && len(b.bodyC)+len(b.rcptC) < 20000 {
			full = append(full, b)
			if len(b.bodyC) <= c02Direct && len(b.rcptC) <= c02Direct {
				small = append(small, b)
			}
		}
		if b.hdrC != nil && b.mainnet && len(b.hdrC) <= c02Direct && strings.HasSuffix(c02H(n.e.hv, b.hdrC), "/o") {
			hdrs = append(hdrs, b)
		}
	}
	pickFor := func(t int) *c02Block {
		if t == 0 {
			return hdrs[r.Intn(len(hdrs))]
		}
		return small[r.Intn(len(small))]
	}
	junk := func() []byte { return r.Bytes(1 + r.Intn(40)) }

	// 1. getters: every branch of GetBlockHeader / GetBlockBody / GetReceipts
	rounds := 2
	if thorough {
		rounds = 20
	}
	for round := 0; round < rounds; round++ {
		for t := 0; t < 3; t++ {
			b := pickFor(t)
			o := pickFor(t)
			for o == b {
				o = pickFor(t)
			}
			good := b.content(byte(t))
			base := c02GF{t: t, hash: b.hash, src: b.header, verdict: 'r'}
			with := func(f func(g *c02GF)) { g := base; f(&g); n.runGF(g) }
			// storage read fails (with and without something to find)
			with(func(g *c02GF) { g.gfail = true; g.remote = good })
			with(func(g *c02GF) { g.gfail = true; g.local = good })
			// the local store holds: genuine bytes, undecodable bytes, bytes of the wrong type, another block's bytes
			with(func(g *c02GF) { g.local = good; g.remote = junk() })
			with(func(g *c02GF) { g.local = junk(); g.remote = good })
			with(func(g *c02GF) { g.local = []byte{}; g.remote = good })
			with(func(g *c02GF) { g.local = b.content(byte((t + 1) % 3)) })
			with(func(g *c02GF) { g.local = o.content(byte(t)) })
			// lookup: nothing, genuine, forged, content of another key; real validator
			with(func(g *c02GF) {})
			with(func(g *c02GF) { g.remote = good })
			with(func(g *c02GF) {
				if len(good) == 0 {
					g.remote = junk()
				} else {
					g.remote = c02flip(good, r.Intn(len(good)), uint(r.Intn(8)))
				}
			})
			with(func(g *c02GF) { g.remote = o.content(byte(t)) })
			with(func(g *c02GF) { g.remote = o.content(byte(t)); g.src = o.header })
			with(func(g *c02GF) { g.remote = junk() })
			// Put fails after a successful validation
			with(func(g *c02GF) { g.remote = good; g.pfail = true })
			with(func(g *c02GF) { g.remote = o.content(byte(t)); g.pfail = true })
			// a validator that accepts everything: undecodable content must still not be returned or stored
			with(func(g *c02GF) { g.verdict = 'o'; g.remote = junk() })
			with(func(g *c02GF) { g.verdict = 'o'; g.remote = []byte{} })
			with(func(g *c02GF) { g.verdict = 'o'; g.remote = b.content(byte((t + 1) % 3)) })
			with(func(g *c02GF) { g.verdict = 'o'; g.remote = good; g.pfail = true })
			with(func(g *c02GF) { g.verdict = 'o'; g.remote = o.content(byte(t)) })
			// a validator that rejects everything
			with(func(g *c02GF) { g.verdict = 'e'; g.remote = good })
			with(func(g *c02GF) { g.verdict = 'e'; g.local = good; g.remote = good })
		}
	}

	// 1b. the real ValidationOracle over node a's real JSON-RPC API (RecursiveFindContent: local store, else lookup)
	for round := 0; round < rounds; round++ {
		b, o := hdrs[r.Intn(len(hdrs))], hdrs[r.Intn(len(hdrs))]
		for _, w := range []byte{'l', 'r'} {
			n.orcnet(w, b.hash, b.hdrC)
			if o != b {
				n.orcnet(w, b.hash, o.hdrC) // the header of another block under this hash: unvalidated by the endpoint
			}
			n.orcnet(w, b.hash, c02flip(b.hdrC, r.Intn(len(b.hdrC)), uint(r.Intn(8))))
			n.orcnet(w, b.hash, junk())
		}
		n.orcnet('n', b.hash, nil)
	}

	// 2. validateContents with faults and scripted verdicts
	item := func(b *c02Block, t byte) c02Item { return c02Item{key: b.key(t), content: b.content(t), src: b.header} }
	rndItem := func() c02Item {
		t := []byte{1, 2, 1, 2, 0, 3}[r.Intn(6)]
		if t == 0 || t == 3 {
			return item(hdrs[r.Intn(len(hdrs))], t)
		}
		return item(full[r.Intn(len(full))], t)
	}
	forged := func(it c02Item) c02Item {
		switch r.Intn(3) {
		case 0:
			it.content = junk()
		case 1:
			if len(it.content) > 0 {
				it.content = c02flip(it.content, r.Intn(len(it.content)), uint(r.Intn(8)))
			}
		default:
			o := rndItem()
			it.content = o.content
		}
		return it
	}
	batch := func() c02Elem {
		var el c02Elem
		seen := map[string]bool{}
		for k := 1 + r.Intn(4); k > 0; k-- {
			it := rndItem()
			if seen[string(it.key)] {
				continue
			}
			seen[string(it.key)] = true
			if r.Intn(4) == 0 {
				it = forged(it)
			}
			el.items = append(el.items, it)
		}
		return el
	}
	ofs := 40
	if thorough {
		ofs = 600
	}
	for i := 0; i < ofs; i++ {
		o := c02OF{verdict: "rrroe"[r.Intn(5)], gfail: r.Intn(3) == 0, pfail: r.Intn(3) == 0, el: batch()}
		// some of the keys are in the store already, with genuine or with other bytes
		for _, it := range o.el.items {
			if r.Intn(3) == 0 {
				p := it
				if r.Bool() {
					p.content = junk()
				}
				o.pre = append(o.pre, p)
			}
		}
		switch r.Intn(8) {
		case 0:
			o.el.xkeys = [][]byte{rndItem().key}
		case 1:
			o.el.xcontents = [][]byte{junk()}
		}
		n.runOF(o)
	}

	// 3. the real loop: honest, forged and mixed batches, keys stored by earlier elements, more keys than contents, fewer
	loops := 30
	if thorough {
		loops = 400
	}
	if os.Getenv("C02_NO_LOOP") != "" {
		loops = 0
	}
	for i := 0; i < loops; i++ {
		if i%3 == 0 {
			// directed: an element stores some genuine items; the next element carries those keys first, with junk /
			// another item's / the same bytes, followed by fresh genuine items, so that the whole batch is accepted
			n.e.c.Count("loop_directed")
			seen := map[string]bool{}
			var its []c02Item
			for len(its) < 2+r.Intn(3) {
				it := rndItem()
				if !seen[string(it.key)] {
					seen[string(it.key)] = true
					its = append(its, it)
				}
			}
			k := 1 + r.Intn(len(its)-1)
			first := c02Elem{items: append([]c02Item{}, its[:k]...)}
			second := c02Elem{}
			for j, it := range its {
				o := it
				if j < k {
					switch r.Intn(3) {
					case 0:
						o.content = junk()
					case 1:
						o.content = its[(j+1)%len(its)].content
					}
				}
				second.items = append(second.items, o)
			}
			n.runLoop([]c02Elem{first, second, second})
			continue
		}
		var els []c02Elem
		var prev []c02Item
		for k := 2 + r.Intn(3); k > 0; k-- {
			el := batch()
			switch r.Intn(10) {
			case 0: // honest only
				for j := range el.items {
					el.items[j] = rndItem()
				}
			case 1: // all forged
				for j := range el.items {
					el.items[j] = forged(el.items[j])
				}
			case 2, 3: // keys an earlier element stored come first, with other bytes; fresh items follow
				if len(prev) > 0 {
					p := prev[r.Intn(len(prev))]
					if r.Bool() {
						p.content = junk()
					}
					el.items = append([]c02Item{p}, el.items...)
				}
			case 4:
				el.xkeys = [][]byte{rndItem().key, rndItem().key}[:1+r.Intn(2)]
			case 5:
				el.xcontents = [][]byte{junk()}
			case 6:
				el = c02Elem{} // empty element
			case 7:
				el = c02Elem{xkeys: [][]byte{rndItem().key}} // keys without contents
			}
			// the same key twice in one element is avoided (the neighbour's answer to a repeated key is another subject)
			seen := map[string]bool{}
			var its []c02Item
			for _, it := range el.items {
				if !seen[string(it.key)] {
					seen[string(it.key)] = true
					its = append(its, it)
				}
			}
			el.items = its
			els = append(els, el)
			prev = append(prev, el.items...)
		}
		n.runLoop(els)
	}
	if loops > 0 {
		n.runDrop(c02Elem{items: []c02Item{item(small[0], 1), item(small[0], 2)}})
		// Network.Stop ends processContentLoop and the protocol; nothing runs on these nodes afterwards
		n.net.Stop()
		time.Sleep(30 * time.Millisecond)
	}
}
