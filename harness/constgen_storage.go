//go:build vstorage || vall

package main

import spebble "github.com/zen-eth/shisui/storage/pebble"

func init() {
	registry["constgen_storage"] = func(c *Ctx) {
		emitConsts(c, "storage", spebble.VerifConstantsStorage(), nil)
	}
}
