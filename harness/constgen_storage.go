//go:build vstorage || vall

package main

import (
	spebble "github.com/zen-eth/shisui/storage/pebble"
	thistory "github.com/zen-eth/shisui/types/history"
)

func init() {
	registry["constgen_storage"] = func(c *Ctx) {
		m := spebble.VerifConstantsStorage()
		// the key type the history hybrid store routes to the ephemeral store (exported constant, no hook needed)
		m["offerEphemeralType"] = uint64(thistory.OfferEphemeralType)
		emitConsts(c, "storage", m, nil)
	}
}
