//go:build c17 || all

package main

// C17 crash images: the put history runs on pebble over a strict in-memory file system; after the k-th operation
// the process "dies": syncs are ignored from that moment, the database is closed (nothing it writes while closing
// is finalised) and every unsynced byte is dropped (vfs.MemFS.ResetToSyncedState); the store is reopened through
// NewStorage on what is left.
//
//	crash <capMB> <node> <ops> <k> | ok <observation after reopening>      (same observation format as a history step)
import (
	"fmt"
	"strconv"

	"github.com/cockroachdb/pebble"
	"github.com/cockroachdb/pebble/vfs"
	"github.com/zen-eth/shisui/storage"
	spebble "github.com/zen-eth/shisui/storage/pebble"
)

func memOpen(fs vfs.FS, capMB uint64, node [32]byte) (*stStore, error) {
	db, err := pebble.Open("db", &pebble.Options{FS: fs, MemTableSize: 4 << 20})
	if err != nil {
		return nil, err
	}
	cs, err := spebble.NewStorage(storage.PortalStorageConfig{StorageCapacityMB: capMB, NodeId: node, NetworkName: "verif"}, db)
	if err != nil {
		db.Close()
		return nil, err
	}
	return &stStore{capMB: capMB, node: node, db: db, cs: cs, pruned: true}, nil
}

func stCrash(c *Ctx, capMB uint64, node [32]byte, ops []stOp, k int) {
	head := fmt.Sprintf("crash %d %s %s %d", capMB, hx(node[:]), opsString(ops), k)
	var out string
	p, msg := guard(func() {
		fs := vfs.NewStrictMem()
		// the database directory exists durably before the store is created (as a data directory on disk does)
		if err := fs.MkdirAll("db", 0755); err != nil {
			panic(err)
		}
		if root, err := fs.OpenDir("/"); err == nil {
			_ = root.Sync()
			_ = root.Close()
		}
		s, err := memOpen(fs, capMB, node)
		if err != nil {
			panic("open: " + err.Error())
		}
		for i := 0; i < k && i < len(ops); i++ {
			if ops[i].kind == 'p' {
				_ = s.cs.Put(nil, ops[i].id, ops[i].val.Bytes())
			}
		}
		fs.SetIgnoreSyncs(true) // the crash: nothing written from here on reaches the disk
		s.close()
		fs.ResetToSyncedState()
		fs.SetIgnoreSyncs(false)
		s2, err := memOpen(fs, capMB, node)
		if err != nil {
			out = "openerr " + err.Error()
			return
		}
		out = "ok " + s2.observe("-", idPool(ops))
		s2.close()
	})
	if p {
		c.Emit("%s | panic %s", head, msg)
		return
	}
	c.Emit("%s | %s", head, out)
}

func init() {
	stExtraExec["crash"] = func(c *Ctx, f []string) {
		var node [32]byte
		copy(node[:], unhx(f[2]))
		n, _ := strconv.ParseUint(f[1], 10, 64)
		k, _ := strconv.Atoi(f[4])
		stCrash(c, n, node, parseOps(f[3]), k)
	}
	stExtraGens["17"] = func(c *Ctx) {
		r := c.Rng
		n := 40
		if c.Tier == "thorough" {
			n = 150
		}
		for i := 0; i < n; i++ {
			capMB := uint64(1)
			node := genNode(c)
			ids := genIds(c, node, false)
			var ops []stOp
			for _, o := range genOps(c, capMB, ids, 6+r.Intn(10), r.Pick([]int{2, 3, 2}), false) {
				if o.kind == 'p' {
					ops = append(ops, o)
				}
			}
			for k := 0; k <= len(ops); k++ {
				c.Count("crash_points")
				stCrash(c, capMB, node, ops, k)
			}
		}
	}
}
