//go:build c17 || all

package main

// C17 crash images: the put history runs on pebble over a strict in-memory file system; after the k-th operation
// the process "dies": syncs are ignored from that moment, the database is closed (nothing it writes while closing
// is finalised) and every unsynced byte is dropped (vfs.MemFS.ResetToSyncedState); the store is reopened through
// NewStorage on what is left.
//
//	crash <capMB> <node> <ops> <k> | ok <observation after reopening>      (same observation format as a history step)
import (
	"fmt"
	"io"
	"strconv"
	"sync"
	"sync/atomic"
	"time"

	"os"
	"strings"

	"github.com/cockroachdb/pebble"
	"github.com/cockroachdb/pebble/vfs"
	"github.com/zen-eth/shisui/storage"
	spebble "github.com/zen-eth/shisui/storage/pebble"
)

func memOpen(fs vfs.FS, capMB uint64, node [32]byte) (*stStore, error) {
	db, err := pebble.Open("db", &pebble.Options{FS: fs, MemTableSize: 4 << 20})
	if err != nil {
		return nil, err
	}
	cs, err := spebble.NewStorage(storage.PortalStorageConfig{StorageCapacityMB: capMB, NodeId: node, NetworkName: "verif"}, db)
	if err != nil {
		db.Close()
		return nil, err
	}
	return &stStore{capMB: capMB, node: node, db: db, cs: cs, pruned: true}, nil
}

func stCrash(c *Ctx, capMB uint64, node [32]byte, ops []stOp, k int) {
	head := fmt.Sprintf("crash %d %s %s %d", capMB, hx(node[:]), opsString(ops), k)
	var out string
	p, msg := guard(func() {
		fs := vfs.NewStrictMem()
		// the database directory exists durably before the store is created (as a data directory on disk does)
		if err := fs.MkdirAll("db", 0755); err != nil {
			panic(err)
		}
		if root, err := fs.OpenDir("/"); err == nil {
			_ = root.Sync()
			_ = root.Close()
		}
		s, err := memOpen(fs, capMB, node)
		if err != nil {
			panic("open: " + err.Error())
		}
		for i := 0; i < k && i < len(ops); i++ {
			if ops[i].kind == 'p' {
				_ = s.cs.Put(nil, ops[i].id, ops[i].val.Bytes())
			}
		}
		fs.SetIgnoreSyncs(true) // the crash: nothing written from here on reaches the disk
		s.close()
		fs.ResetToSyncedState()
		fs.SetIgnoreSyncs(false)
		s2, err := memOpen(fs, capMB, node)
		if err != nil {
			out = "openerr " + err.Error()
			return
		}
		out = "ok " + s2.observe("-", idPool(ops))
		s2.close()
	})
	if p {
		c.Emit("%s | panic %s", head, msg)
		return
	}
	c.Emit("%s | %s", head, out)
}

// ---------------------------------------------------------------- crash points at file-system-operation granularity
//
//	fscrash <capMB> <node> <ops> <k> <d|k> | ok <puts done> <puts started> <observation after reopening>
//
// pebble runs on a strict in-memory file system behind cntFS, which counts every state-changing file-system operation
// (create, write, sync, rename, remove, link, mkdir, reuse).  Just before the k-th operation the world stops (all
// operations in flight have completed, no new one starts): a clone of the file system with ALL written bytes is taken
// (image `k`: the process dies, unsynced writes kept) and syncs are ignored from that moment, so that after the run
// ResetToSyncedState leaves exactly what had been synced before operation k (image `d`: unsynced writes dropped).
// Both images are reopened through NewStorage.  The operation order is not deterministic (pebble's background
// goroutines), so k names the k-th operation of this run.
type cntFS struct {
	vfs.FS
	mem     *vfs.MemFS
	mu      sync.RWMutex
	n       atomic.Int64
	k       int64
	crashed atomic.Bool
	onCrash func()
}

func (f *cntFS) op(run func()) {
	if f.n.Add(1) == f.k {
		f.crashNow()
	}
	f.mu.RLock()
	run()
	f.mu.RUnlock()
}

func (f *cntFS) crashNow() {
	f.mu.Lock()
	if !f.crashed.Load() {
		f.onCrash()
		f.crashed.Store(true)
	}
	f.mu.Unlock()
}

func (f *cntFS) wrap(file vfs.File, err error) (vfs.File, error) {
	if err != nil {
		return nil, err
	}
	return &cntFile{File: file, fs: f}, nil
}
func (f *cntFS) Create(name string) (file vfs.File, err error) {
	f.op(func() { file, err = f.wrap(f.FS.Create(name)) })
	return
}
func (f *cntFS) Link(o, n string) (err error) { f.op(func() { err = f.FS.Link(o, n) }); return }
func (f *cntFS) Remove(n string) (err error)  { f.op(func() { err = f.FS.Remove(n) }); return }
func (f *cntFS) RemoveAll(n string) (err error) {
	f.op(func() { err = f.FS.RemoveAll(n) })
	return
}
func (f *cntFS) Rename(o, n string) (err error) { f.op(func() { err = f.FS.Rename(o, n) }); return }
func (f *cntFS) ReuseForWrite(o, n string) (file vfs.File, err error) {
	f.op(func() { file, err = f.wrap(f.FS.ReuseForWrite(o, n)) })
	return
}
func (f *cntFS) MkdirAll(d string, perm os.FileMode) (err error) {
	f.op(func() { err = f.FS.MkdirAll(d, perm) })
	return
}
func (f *cntFS) Open(name string, opts ...vfs.OpenOption) (vfs.File, error) {
	return f.wrap(f.FS.Open(name, opts...))
}
func (f *cntFS) OpenReadWrite(name string, opts ...vfs.OpenOption) (vfs.File, error) {
	return f.wrap(f.FS.OpenReadWrite(name, opts...))
}
func (f *cntFS) OpenDir(name string) (vfs.File, error) { return f.wrap(f.FS.OpenDir(name)) }
func (f *cntFS) Lock(name string) (io.Closer, error)   { return f.FS.Lock(name) }

type cntFile struct {
	vfs.File
	fs *cntFS
}

func (c *cntFile) Write(p []byte) (n int, err error) {
	c.fs.op(func() { n, err = c.File.Write(p) })
	return
}
func (c *cntFile) WriteAt(p []byte, off int64) (n int, err error) {
	c.fs.op(func() { n, err = c.File.WriteAt(p, off) })
	return
}
func (c *cntFile) Sync() (err error)     { c.fs.op(func() { err = c.File.Sync() }); return }
func (c *cntFile) SyncData() (err error) { c.fs.op(func() { err = c.File.SyncData() }); return }
func (c *cntFile) SyncTo(l int64) (full bool, err error) {
	c.fs.op(func() { full, err = c.File.SyncTo(l) })
	return
}

func newStrictDB() *vfs.MemFS {
	fs := vfs.NewStrictMem()
	if err := fs.MkdirAll("db", 0755); err != nil {
		panic(err)
	}
	if root, err := fs.OpenDir("/"); err == nil {
		_ = root.Sync()
		_ = root.Close()
	}
	return fs
}

// one run of the history with a crash just before operation k (k = 0: no crash; returns the number of operations)
func fsCrashRun(c *Ctx, capMB uint64, node [32]byte, ops []stOp, k int64, emit bool) int64 {
	head := fmt.Sprintf("fscrash %d %s %s %d", capMB, hx(node[:]), opsString(ops), k)
	var outD, outK string
	var total int64
	p, msg := guard(func() {
		mem := newStrictDB()
		var done, started atomic.Int64
		var cdone, cstarted int64
		var kept *vfs.MemFS
		cf := &cntFS{FS: mem, mem: mem, k: k}
		cf.onCrash = func() {
			cdone, cstarted = done.Load(), started.Load()
			kept = vfs.NewMem()
			if _, err := vfs.Clone(mem, kept, "db", "db"); err != nil {
				panic("clone: " + err.Error())
			}
			mem.SetIgnoreSyncs(true)
		}
		s, err := memOpen(cf, capMB, node)
		if err != nil {
			panic("open: " + err.Error())
		}
		for _, o := range ops {
			if cf.crashed.Load() {
				break
			}
			if o.kind == 'p' {
				started.Add(1)
				_ = s.cs.Put(nil, o.id, o.val.Bytes())
				done.Add(1)
			}
		}
		waitPruneGoroutines()
		total = cf.n.Load()
		if k == 0 {
			s.close()
			return
		}
		cf.crashNow() // the run had fewer than k operations: the process dies at the end of the history
		s.close()
		mem.ResetToSyncedState()
		mem.SetIgnoreSyncs(false)
		ids := idPool(ops)
		reopen := func(fs vfs.FS) string {
			s2, err := memOpen(fs, capMB, node)
			if err != nil {
				return "openerr " + strings.ReplaceAll(err.Error(), " ", "_")
			}
			o := s2.observe("-", ids)
			s2.close()
			return fmt.Sprintf("ok %d %d %s", cdone, cstarted, o)
		}
		outD = reopen(mem)
		outK = reopen(kept)
	})
	if !emit {
		return total
	}
	if p {
		c.Emit("%s d | panic %s", head, msg)
		return total
	}
	c.Emit("%s d | %s", head, outD)
	c.Emit("%s k | %s", head, outK)
	c.Count("fscrash_points")
	return total
}

// a short put history with at least one overwrite and one prune
func fsCrashHistory(c *Ctx) (uint64, [32]byte, []stOp) {
	r := c.Rng
	node := genNode(c)
	ids := genIds(c, node, false)
	if len(ids) > 5 {
		ids = ids[:5]
	}
	var ops []stOp
	var vidc uint64 = uint64(r.Intn(1000)) * 1000
	total := 0
	n := 6 + r.Intn(5)
	for i := 0; i < n; i++ {
		id := ids[r.Intn(len(ids))]
		if i == 2 {
			id = ops[0].id // an overwrite
		}
		sz := r.Pick([]int{300000, 200000, 120000, 49968, 17, 300000})
		if i == n-1 && total < 1100000 {
			sz = 1100000 - total // over capacity at the latest with the last put
		}
		total += sz + 32
		vidc++
		ops = append(ops, stOp{kind: 'p', id: id, val: stVal{long: true, vid: vidc, n: sz}})
	}
	return 1, node, ops
}

func fsCrashGen(c *Ctx) {
	r := c.Rng
	nh, per := 3, 60
	if c.Tier == "thorough" {
		nh, per = 30, 1<<30
	}
	for h := 0; h < nh; h++ {
		capMB, node, ops := fsCrashHistory(c)
		total := fsCrashRun(c, capMB, node, ops, 0, false)
		c.Count("fscrash_histories")
		step := int64(1)
		if total > int64(per) {
			step = total / int64(per)
		}
		for k := int64(1) + int64(r.Intn(int(step))); k <= total+1; k += step {
			fsCrashRun(c, capMB, node, ops, k, true)
		}
	}
}

func init() {
	stExtraExec["fscrash"] = func(c *Ctx, f []string) {
		var node [32]byte
		copy(node[:], unhx(f[2]))
		n, _ := strconv.ParseUint(f[1], 10, 64)
		k, _ := strconv.ParseInt(f[4], 10, 64)
		fsCrashRun(c, n, node, parseOps(f[3]), k, true) // emits both images of this crash point
	}
	stExtraExec["gate17"] = func(c *Ctx, f []string) {
		var node [32]byte
		copy(node[:], unhx(f[2]))
		n, _ := strconv.ParseUint(f[1], 10, 64)
		stGate17(c, n, node, linParsePlan(f[3]))
	}
	stExtraExec["crash"] = func(c *Ctx, f []string) {
		var node [32]byte
		copy(node[:], unhx(f[2]))
		n, _ := strconv.ParseUint(f[1], 10, 64)
		k, _ := strconv.Atoi(f[4])
		stCrash(c, n, node, parseOps(f[3]), k)
	}
	stExtraGens["17"] = func(c *Ctx) {
		r := c.Rng
		n := 40
		if c.Tier == "thorough" {
			n = 150
		}
		for i := 0; i < n; i++ {
			capMB := uint64(1)
			node := genNode(c)
			ids := genIds(c, node, false)
			var ops []stOp
			for _, o := range genOps(c, capMB, ids, 6+r.Intn(10), r.Pick([]int{2, 3, 2}), false) {
				if o.kind == 'p' {
					ops = append(ops, o)
				}
			}
			for k := 0; k <= len(ops); k++ {
				c.Count("crash_points")
				stCrash(c, capMB, node, ops, k)
			}
		}
		fsCrashGen(c)
		gate17Gen(c)
	}
}

// ---------------------------------------------------------------- a put while a prune waits for its WAL fsync
//
//	gate17 <capMB> <node> <plan> | ok <events> <final observation> <observation after close+reopen> <b-during-fsync 0|1>
//
// plan/events as in the lin lines: goroutine 0 = three fills, the over-capacity put X, and a last small put C;
// goroutine 1 = one small put B.  pebble runs on an in-memory file system whose WAL files can be gated: after the
// fills the gate is armed, X is issued (its prune commits with Sync: true and blocks in the fsync of the WAL), B is
// issued from another goroutine and given 100 ms to return, then the fsync is released; after both have returned C
// writes one more size record.  With Put holding its lock across the prune B simply waits; either way the history
// must be linearizable and the size record must cover the bytes present - live and after a restart.
type gateFS struct {
	vfs.FS
	armed   atomic.Bool
	hit     chan struct{}
	release chan struct{}
}

type gateFile struct {
	vfs.File
	fs *gateFS
}

func (g *gateFS) wrap(name string, f vfs.File, err error) (vfs.File, error) {
	if err != nil || !strings.HasSuffix(name, ".log") {
		return f, err
	}
	return &gateFile{File: f, fs: g}, nil
}
func (g *gateFS) Create(name string) (vfs.File, error) {
	f, err := g.FS.Create(name)
	return g.wrap(name, f, err)
}
func (g *gateFS) ReuseForWrite(o, n string) (vfs.File, error) {
	f, err := g.FS.ReuseForWrite(o, n)
	return g.wrap(n, f, err)
}
func (g *gateFile) gate() {
	if g.fs.armed.CompareAndSwap(true, false) {
		close(g.fs.hit)
		<-g.fs.release
	}
}
func (g *gateFile) Sync() error     { g.gate(); return g.File.Sync() }
func (g *gateFile) SyncData() error { g.gate(); return g.File.SyncData() }
func (g *gateFile) SyncTo(l int64) (bool, error) {
	g.gate()
	return g.File.SyncTo(l)
}

func stGate17(c *Ctx, capMB uint64, node [32]byte, plan [][]linPut) {
	head := fmt.Sprintf("gate17 %d %s %s", capMB, hx(node[:]), linPlanString(plan))
	var out string
	p, msg := guard(func() {
		if len(plan) != 2 || len(plan[0]) < 3 || len(plan[1]) != 1 {
			panic("gate17: plan shape")
		}
		mem := vfs.NewMem()
		gfs := &gateFS{FS: mem, hit: make(chan struct{}), release: make(chan struct{})}
		s, err := memOpen(gfs, capMB, node)
		if err != nil {
			panic("open: " + err.Error())
		}
		var clock atomic.Int64
		ev0 := make([]string, len(plan[0]))
		var evB string
		vals0 := make([][]byte, len(plan[0]))
		for j, pt := range plan[0] {
			vals0[j] = pt.val.Bytes()
		}
		valB := plan[1][0].val.Bytes()
		put0 := func(j int) {
			inv := clock.Add(1)
			err := s.cs.Put(nil, plan[0][j].id, vals0[j])
			resp := clock.Add(1)
			ev0[j] = fmt.Sprintf("%d.%d.%s", inv, resp, putRes(err))
		}
		nx := len(plan[0]) - 2 // index of X; the last one is C
		for j := 0; j < nx; j++ {
			put0(j)
		}
		gfs.armed.Store(true)
		aDone := make(chan struct{})
		go func() { put0(nx); close(aDone) }()
		select {
		case <-gfs.hit:
		case <-aDone: // the put did not sync at all
		case <-time.After(3 * time.Second):
		}
		bDone := make(chan struct{})
		go func() {
			inv := clock.Add(1)
			err := s.cs.Put(nil, plan[1][0].id, valB)
			resp := clock.Add(1)
			evB = fmt.Sprintf("%d.%d.%s", inv, resp, putRes(err))
			close(bDone)
		}()
		during := 0
		select {
		case <-bDone:
			during = 1
		case <-time.After(100 * time.Millisecond):
		}
		gfs.armed.Store(false)
		close(gfs.release)
		<-aDone
		<-bDone
		put0(nx + 1)
		waitPruneGoroutines()
		var ids [][]byte
		seen := map[string]bool{}
		for t := range plan {
			for _, pt := range plan[t] {
				if !seen[string(pt.id)] {
					seen[string(pt.id)] = true
					ids = append(ids, pt.id)
				}
			}
		}
		fin := s.observe("-", ids)
		s.close()
		s2, err := memOpen(mem, capMB, node)
		if err != nil {
			panic("reopen: " + err.Error())
		}
		re := s2.observe("-", ids)
		s2.close()
		out = strings.Join(append(append([]string{}, ev0...), evB), ";") + " " + fin + " " + re + " " + strconv.Itoa(during)
	})
	if p {
		c.Emit("%s | panic %s", head, msg)
		return
	}
	c.Emit("%s | ok %s", head, out)
}

func gate17Gen(c *Ctx) {
	r := c.Rng
	rounds := 3
	if c.Tier == "thorough" {
		rounds = 40
	}
	var node [32]byte
	key := func(x byte) []byte { k := make([]byte, 32); k[31] = x; return k }
	for i := 0; i < rounds; i++ {
		vid := uint64(9000 + 100*i)
		big := func(n int) stVal { vid++; return stVal{long: true, vid: vid, n: n} }
		small := func() stVal { return stVal{long: true, vid: vid + 50 + uint64(r.Intn(40)), n: 200 + r.Intn(3000)} }
		plan := [][]linPut{
			{{key(0x10), big(300000)}, {key(0x20), big(300000)}, {key(0x30), big(300000)},
				{key(0x40), big(120000 + 1000*r.Intn(100))}, {key(0x02), small()}},
			{{key(0x01), small()}},
		}
		c.Count("gate17_rounds")
		stGate17(c, 1, node, plan)
	}
}
