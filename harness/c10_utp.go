//go:build c10 || all

package main

import (
	"bytes"
	"context"
	"crypto/sha256"
	"fmt"
	"os"
	"os/exec"
	"strconv"
	"strings"
	"sync"
	"time"

	"github.com/ethereum/go-ethereum/common"
	"github.com/ethereum/go-ethereum/crypto"
	"github.com/zen-eth/shisui/portalwire"
	"github.com/zen-eth/shisui/storage"
)

// Content lookup with a uTP transfer: full protocol instances (the handler harness's VerifHNew: real table with its
// loop, real uTP service, mock storage) over loopback UDP.  The holder stores a value too large for one TALKRESP, so
// handleFindContent answers with a connection id and streams the bytes over uTP; the asker's real ContentLookup /
// contentLookupWorker / processContent (ConnectionId branch) fetch them.  Lines:
//
//	cu <size> <hops> <kseed> | ok <served> <outcome>   /  unobserved  /  panic <msg>
//	   size    length of the stored value; hops = 0: the holder is in the asker's table, 1: the asker knows a node
//	           without the value whose table holds the holder
//	   served  number of talk requests the holder served (>= 1: it was queried)
//	   outcome found:<len>:<sha256/8> (err == nil; what came back) | notfound | err:<msg>
//	   unobserved  the lookup had not returned after 8 s (a lost uTP packet waits for the 15 s connect timeout)
type c10utp struct {
	size  int
	hops  int
	kseed uint64
}

func (k *c10utp) inputs() string { return fmt.Sprintf("cu %d %d %d", k.size, k.hops, k.kseed) }

func c10uvalue(k *c10utp) []byte { return NewRng(k.kseed ^ 0x5151).Bytes(k.size) }

func c10udigest(b []byte) string {
	h := sha256.Sum256(b)
	return fmt.Sprintf("%d:%x", len(b), h[:8])
}

func c10uexec(k *c10utp) string {
	r := NewRng(k.kseed)
	mk := func(st storage.ContentStorage) (*portalwire.VerifHInstance, error) {
		kb := r.Bytes(32)
		kb[0] &= 0x7f
		kb[31] |= 1
		key, err := crypto.ToECDSA(common.LeftPadBytes(kb, 32))
		if err != nil {
			return nil, err
		}
		return portalwire.VerifHNew(portalwire.History, key, st, nil, nil, 50)
	}
	key := []byte{0x05, 0x06, byte(k.kseed)}
	id := sha256.Sum256(key)
	value := c10uvalue(k)
	hst := &storage.MockStorage{Db: map[string][]byte{string(id[:]): value}}
	asker, err := mk(&storage.MockStorage{Db: map[string][]byte{}})
	if err != nil {
		return "err setup " + strings.ReplaceAll(err.Error(), " ", "_")
	}
	defer asker.Close()
	holder, err := mk(hst)
	if err != nil {
		return "err setup " + strings.ReplaceAll(err.Error(), " ", "_")
	}
	defer holder.Close()
	if k.hops == 0 {
		asker.AddNode(holder.Self(), true, false)
	} else {
		mid, err := mk(&storage.MockStorage{Db: map[string][]byte{}})
		if err != nil {
			return "err setup " + strings.ReplaceAll(err.Error(), " ", "_")
		}
		defer mid.Close()
		mid.AddNode(holder.Self(), true, false)
		asker.AddNode(mid.Self(), true, false)
	}
	holder.Talks()
	type out struct {
		c   []byte
		err error
	}
	ch := make(chan out, 1)
	go func() {
		c, _, err := asker.P.ContentLookup(key, id[:])
		ch <- out{c, err}
	}()
	select {
	case o := <-ch:
		served := len(holder.Talks())
		switch {
		case o.err == nil:
			return fmt.Sprintf("ok %d found:%s", served, c10udigest(o.c))
		case portalwire.VerifContentNotFound(o.err):
			return fmt.Sprintf("ok %d notfound", served)
		default:
			return fmt.Sprintf("ok %d err:%s", served, strings.ReplaceAll(o.err.Error(), " ", "_"))
		}
	case <-time.After(8 * time.Second):
		return "unobserved"
	}
}

func c10uchildMain(c *Ctx, args []string) {
	if len(args) < 3 {
		os.Exit(3)
	}
	k := &c10utp{}
	k.size, _ = strconv.Atoi(args[0])
	k.hops, _ = strconv.Atoi(args[1])
	k.kseed, _ = strconv.ParseUint(args[2], 10, 64)
	out := c10uexec(k)
	fmt.Printf("%s %s | %s\n", k.inputs(), c10udigest(c10uvalue(k)), out)
	os.Exit(0) // do not wait for the uTP services to wind down
}

func c10uchild(k *c10utp) string {
	in := k.inputs() + " " + c10udigest(c10uvalue(k))
	exe, err := os.Executable()
	if err != nil {
		return in + " | err setup no-executable"
	}
	ctx, cancel := context.WithTimeout(context.Background(), 30*time.Second)
	defer cancel()
	cmd := exec.CommandContext(ctx, exe, "C10", "cuchild", strconv.Itoa(k.size), strconv.Itoa(k.hops), strconv.FormatUint(k.kseed, 10))
	var stdout, stderr bytes.Buffer
	cmd.Stdout, cmd.Stderr = &stdout, &stderr
	_ = cmd.Run()
	for _, ln := range strings.Split(stdout.String(), "\n") {
		if strings.HasPrefix(ln, "cu ") && strings.Contains(ln, " | ") {
			return ln
		}
	}
	if ctx.Err() != nil {
		return in + " | unobserved"
	}
	msg := "child-exited-without-a-line"
	for _, ln := range strings.Split(stderr.String(), "\n") {
		if strings.HasPrefix(ln, "panic:") || strings.HasPrefix(ln, "fatal error:") {
			msg = strings.ReplaceAll(strings.TrimSpace(ln), " ", "_")
			break
		}
	}
	return in + " | panic " + msg
}

func c10utplookups(c *Ctx) {
	nets := []*c10utp{
		{size: 2048, hops: 0}, {size: 4096, hops: 1}, {size: 1500, hops: 0}, {size: 3000, hops: 1},
		{size: 600, hops: 0}, // small enough for one TALKRESP: the raw branch through the same instances
	}
	if c.Tier == "thorough" {
		for i := 0; i < 20; i++ {
			nets = append(nets, &c10utp{size: 1200 + c.Rng.Intn(3000), hops: c.Rng.Intn(2)})
		}
	}
	if c.N > 0 && c.N < 100 {
		nets = nets[:2]
	}
	for _, k := range nets {
		k.kseed = c.Rng.U64() % 1000000007
	}
	outs := make([]string, len(nets))
	var wg sync.WaitGroup
	sem := make(chan struct{}, 5)
	for i := range nets {
		wg.Add(1)
		go func(i int) {
			defer wg.Done()
			sem <- struct{}{}
			outs[i] = c10uchild(nets[i])
			<-sem
		}(i)
	}
	wg.Wait()
	for _, o := range outs {
		c.Count("utp_content_lookups")
		if strings.HasSuffix(o, "| unobserved") {
			c.Count("utp_content_lookups_unobserved")
		}
		c.Emit("%s", o)
	}
}

func c10utpReplay(c *Ctx, f []string) {
	if len(f) < 4 {
		return
	}
	k := &c10utp{}
	k.size, _ = strconv.Atoi(f[1])
	k.hops, _ = strconv.Atoi(f[2])
	k.kseed, _ = strconv.ParseUint(f[3], 10, 64)
	c.Emit("%s", c10uchild(k))
}
