//go:build c10 || all

package main

import (
	"bytes"
	"context"
	"fmt"
	"os"
	"os/exec"
	"strconv"
	"strings"
	"sync"
	"time"

	"github.com/ethereum/go-ethereum/p2p/enode"
	"github.com/zen-eth/shisui/portalwire"
)

// Live node lookup over loopback UDP: 4..7 bare PortalProtocol nodes with fixed, known tables; the asker (node 0)
// runs the real Lookup / lookupSelf / lookupRandom -> newLookup -> lookupWorker -> findNodes -> processNodes, the
// others answer through their real handleTalkRequest / handleFindNodes.  Lines:
//
//	ll <mode> <target> <kseed> <tables> <dead> <ids> | ok <events> <result> <undrained>   /  unobserved  /  panic <msg>  /  err timeout
//	   mode    t = Lookup(target), s = lookupSelf() (target = own id), r = lookupRandom() (target unknown to the harness)
//	   tables  i:a,b;...  node i's table (node 0's in findnodeByID visiting order); dead = indices of nodes not listening
//	   events  S<i> FINDNODES handler of i entered, A<i> about to return, T<i>[+]:<k> the asker's lookup.query handed the
//	           worker's reply for i (k nodes; + = success flag) to tab.trackRequest
//	   unobserved  a request or reply was lost / answered later than 0.5 s in three attempts (load); nothing is concluded
type c10live struct {
	mode   byte
	target enode.ID
	kseed  uint64
	tables [][]int
	dead   []bool
	ids    []string
}

func (k *c10live) keys() [][]byte {
	r := NewRng(k.kseed)
	out := make([][]byte, len(k.tables))
	for i := range out {
		out[i] = r.Bytes(32)
		out[i][0] &= 0x7f
		out[i][31] |= 1
	}
	return out
}

func (k *c10live) inputs() string {
	tb := make([]string, len(k.tables))
	for i, t := range k.tables {
		tb[i] = fmt.Sprintf("%d:%s", i, c10idxs(t))
	}
	var dead []int
	for i, d := range k.dead {
		if d {
			dead = append(dead, i)
		}
	}
	ids := "."
	if len(k.ids) > 0 {
		ids = strings.Join(k.ids, ",")
	}
	return fmt.Sprintf("ll %c %s %d %s %s %s", k.mode, c10hexid(k.target), k.kseed, strings.Join(tb, ";"), c10idxs(dead), ids)
}

func c10lparse(f []string) *c10live {
	k := &c10live{mode: f[1][0]}
	copy(k.target[:], unhx(f[2]))
	k.kseed, _ = strconv.ParseUint(f[3], 10, 64)
	for _, e := range strings.Split(f[4], ";") {
		_, body, _ := strings.Cut(e, ":")
		k.tables = append(k.tables, c10parseIdxs(body))
	}
	k.dead = make([]bool, len(k.tables))
	for _, d := range c10parseIdxs(f[5]) {
		if d >= 0 && d < len(k.dead) {
			k.dead[d] = true
		}
	}
	return k
}

func c10lexecOnce(k *c10live) (string, bool) {
	net, err := portalwire.VerifLiveLookupNetNew(k.tables, k.dead, k.keys())
	if err != nil {
		return "err setup " + strings.ReplaceAll(err.Error(), " ", "_"), false
	}
	defer net.Close()
	k.ids = nil
	for _, id := range net.IDs() {
		k.ids = append(k.ids, c10hexid(id))
	}
	k.tables[0] = net.Scan(0)
	if k.mode == 's' {
		k.target = net.IDs()[0]
	}
	type out struct {
		res []int
		at  []string
	}
	ch := make(chan out, 1)
	go func() {
		r, at := net.Lookup(k.mode, k.target)
		ch <- out{r, at}
	}()
	count := func(ev []string, c byte) int {
		n := 0
		for _, e := range ev {
			if e[0] == c {
				n++
			}
		}
		return n
	}
	select {
	case o := <-ch:
		var ev []string
		for w := 0; w < 400; w++ {
			ev = net.Events()
			if count(ev, 'T') >= count(ev, 'S') {
				break
			}
			time.Sleep(500 * time.Microsecond)
		}
		time.Sleep(3 * time.Millisecond)
		ev = net.Events()
		st := "."
		if len(ev) > 0 {
			st = strings.Join(ev, ",")
		}
		return fmt.Sprintf("ok %s %s %d", st, c10idxs(o.res), count(o.at, 'S')-count(o.at, 'A')), net.Lossy()
	case <-time.After(10 * time.Second):
		return "err timeout " + strings.Join(net.Events(), ","), false
	}
}

func c10lexec(k *c10live) string {
	for try := 0; try < 3; try++ {
		out, lossy := c10lexecOnce(k)
		if !lossy {
			return out
		}
	}
	return "unobserved"
}

func c10llchild(c *Ctx, args []string) {
	if len(args) < 5 {
		os.Exit(3)
	}
	k := c10lparse(append([]string{"ll"}, args...))
	out := c10lexec(k)
	fmt.Printf("%s | %s\n", k.inputs(), out)
}

func c10lchild(k *c10live) string {
	exe, err := os.Executable()
	if err != nil {
		return k.inputs() + " | err setup no-executable"
	}
	f := strings.Fields(k.inputs())
	ctx, cancel := context.WithTimeout(context.Background(), 45*time.Second)
	defer cancel()
	cmd := exec.CommandContext(ctx, exe, "C10", "llchild", f[1], f[2], f[3], f[4], f[5])
	var stdout, stderr bytes.Buffer
	cmd.Stdout, cmd.Stderr = &stdout, &stderr
	_ = cmd.Run()
	for _, ln := range strings.Split(stdout.String(), "\n") {
		if strings.HasPrefix(ln, "ll ") && strings.Contains(ln, " | ") {
			return ln
		}
	}
	if ctx.Err() != nil {
		return k.inputs() + " | err timeout child"
	}
	msg := "child-exited-without-a-line"
	for _, ln := range strings.Split(stderr.String(), "\n") {
		if strings.HasPrefix(ln, "panic:") || strings.HasPrefix(ln, "fatal error:") {
			msg = strings.ReplaceAll(strings.TrimSpace(ln), " ", "_")
			break
		}
	}
	return k.inputs() + " | panic " + msg
}

func c10lgen(c *Ctx) *c10live {
	r := c.Rng
	n := 4 + r.Intn(4) // nodes including the asker
	k := &c10live{mode: []byte{'t', 't', 't', 's', 'r'}[r.Intn(5)], kseed: r.U64() % 1000000007}
	copy(k.target[:], r.Bytes(32))
	k.tables = make([][]int, n)
	k.dead = make([]bool, n)
	for i := 0; i < n; i++ {
		seen := map[int]bool{i: true}
		m := 1 + r.Intn(n-1)
		if i == 0 {
			m = 1 + r.Intn(3)
		}
		for j := 0; j < m; j++ {
			v := r.Intn(n)
			if i == 0 && v == 0 {
				continue
			}
			if !seen[v] {
				seen[v] = true
				k.tables[i] = append(k.tables[i], v) // peers often know the asker (index 0): the worker must drop it
			}
		}
		if i > 0 && r.Intn(7) == 0 {
			k.dead[i] = true
			c.Count("live_dead_nodes")
		}
	}
	if len(k.tables[0]) == 0 {
		k.tables[0] = []int{1}
	}
	c.Count("live_mode_" + string(k.mode))
	return k
}

func c10livelookups(c *Ctx) {
	n := 8
	if c.Tier == "thorough" {
		n = 60
	}
	if c.N > 0 && c.N < 100 {
		n = 3
	}
	nets := []*c10live{
		// a chain through tables that all contain the asker; everybody alive
		{mode: 't', kseed: c.Rng.U64() % 1000000007, tables: [][]int{{1}, {0, 2}, {0, 1, 3}, {0, 2}}, dead: make([]bool, 4)},
		// lookupSelf on a star whose hub knows everybody, one node not listening
		{mode: 's', kseed: c.Rng.U64() % 1000000007, tables: [][]int{{1}, {0, 2, 3, 4}, {1}, {1}, {1}}, dead: []bool{false, false, false, true, false}},
	}
	copy(nets[0].target[:], c.Rng.Bytes(32))
	for len(nets) < n+2 {
		nets = append(nets, c10lgen(c))
	}
	outs := make([]string, len(nets))
	var wg sync.WaitGroup
	sem := make(chan struct{}, 6)
	for i := range nets {
		wg.Add(1)
		go func(i int) {
			defer wg.Done()
			sem <- struct{}{}
			outs[i] = c10lchild(nets[i])
			<-sem
		}(i)
	}
	wg.Wait()
	for _, o := range outs {
		c.Count("live_lookups")
		if strings.HasSuffix(o, "| unobserved") {
			c.Count("live_lookups_unobserved")
		}
		c.Emit("%s", o)
	}
}

func c10liveReplay(c *Ctx, f []string) {
	if len(f) < 6 {
		return
	}
	c.Emit("%s", c10lchild(c10lparse(f)))
}
