package main

import (
	"encoding/hex"
	"encoding/json"
	"os"
	"strings"
)

// splitmix64: every random choice of a run derives from one state.
type Rng struct{ s uint64 }

// NewRng mixes the seed through one splitmix finalizer so that consecutive seeds give unrelated streams
// (a linear seed would make seed k+1 the stream of seed k shifted by one draw).
func NewRng(seed uint64) *Rng {
	z := seed + 0x9E3779B97F4A7C15
	z = (z ^ (z >> 30)) * 0xBF58476D1CE4E5B9
	z = (z ^ (z >> 27)) * 0x94D049BB133111EB
	return &Rng{s: z ^ (z >> 31)}
}
func (r *Rng) U64() uint64 {
	r.s += 0x9E3779B97F4A7C15
	z := r.s
	z = (z ^ (z >> 30)) * 0xBF58476D1CE4E5B9
	z = (z ^ (z >> 27)) * 0x94D049BB133111EB
	return z ^ (z >> 31)
}
func (r *Rng) Intn(n int) int {
	if n <= 0 {
		return 0
	}
	return int(r.U64() % uint64(n))
}
func (r *Rng) Bool() bool { return r.U64()&1 == 1 }
func (r *Rng) Bytes(n int) []byte {
	b := make([]byte, n)
	for i := 0; i < n; i += 8 {
		v := r.U64()
		for j := 0; j < 8 && i+j < n; j++ {
			b[i+j] = byte(v >> (8 * j))
		}
	}
	return b
}
func (r *Rng) Pick(xs []int) int { return xs[r.Intn(len(xs))] }

// Int63/Seed make Rng a math/rand.Source
func (r *Rng) Int63() int64 { return int64(r.U64() >> 1) }
func (r *Rng) Seed(int64)   {}

func hx(b []byte) string {
	if len(b) == 0 {
		return "-"
	}
	return hex.EncodeToString(b)
}
func hxl(l [][]byte) string {
	if len(l) == 0 {
		return "."
	}
	p := make([]string, len(l))
	for i, b := range l {
		p[i] = hx(b)
	}
	return strings.Join(p, ",")
}
func unhx(s string) []byte {
	if s == "-" {
		return []byte{}
	}
	b, err := hex.DecodeString(s)
	if err != nil {
		panic(err)
	}
	return b
}

// classify maps an error to a small class number by message fragments.
func classify(err error, table []struct {
	frag string
	cls  int
}) int {
	if err == nil {
		return 0
	}
	m := err.Error()
	for _, t := range table {
		if strings.Contains(m, t.frag) {
			return t.cls
		}
	}
	return 99
}

// guard runs f and reports whether it panicked.
func guard(f func()) (panicked bool, msg string) {
	defer func() {
		if r := recover(); r != nil {
			panicked = true
			msg = strings.ReplaceAll(strings.ReplaceAll(toString(r), "\n", " "), " ", "_")
		}
	}()
	f()
	return false, ""
}
func toString(r any) string {
	switch v := r.(type) {
	case error:
		return v.Error()
	case string:
		return v
	default:
		return "panic"
	}
}

func unhxl(s string) [][]byte {
	if s == "." {
		return [][]byte{}
	}
	parts := strings.Split(s, ",")
	out := make([][]byte, len(parts))
	for i, p := range parts {
		out[i] = unhx(p)
	}
	return out
}

// readReplayCases loads the "cases" array of a replay file written by bin/check.
func readReplayCases(path string) []string {
	b, err := os.ReadFile(path)
	if err != nil {
		panic(err)
	}
	var r struct {
		Cases []string `json:"cases"`
	}
	if err := json.Unmarshal(b, &r); err != nil {
		panic(err)
	}
	return r.Cases
}
