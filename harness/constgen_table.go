//go:build vtable || vall

package main

import "github.com/zen-eth/shisui/portalwire"

func init() {
	registry["constgen_table"] = func(c *Ctx) {
		emitConsts(c, "table", portalwire.VerifConstantsTable(), nil)
	}
}
