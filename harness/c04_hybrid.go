//go:build c04 || all

package main

// C04, routing layers in front of the pebble store:
//
//	y04 <capMB> <node> <ops> | ok <step>;...    the REAL history hybrid store (history.NewHistoryStorage over the pebble
//	                                             eternal store and history.NewEphemeralStorage, built as portal/node.go does)
//	   op   = p,<content key>,<content id>,<val> | g,<content key>,<content id> | r
//	   step = <res>,<radius>,<counter>,<size record>,<held>,<Get of every (key,id) pair of the history whose key is not
//	          of the ephemeral offer type, joined by +>      (counter/record/held are those of the eternal store)
//	z04 <capMB> <node> <ops> | ...               like h04, but every Get goes through state.NewStateStorage(store).Get
//	                                             (Put goes to the wrapped store: the wrapper's Put validates trie proofs)
import (
	"crypto/sha256"
	"errors"
	"fmt"
	"os"
	"strings"

	"github.com/cockroachdb/pebble"
	"github.com/zen-eth/shisui/history"
	"github.com/zen-eth/shisui/state"
	"github.com/zen-eth/shisui/storage"
	spebble "github.com/zen-eth/shisui/storage/pebble"
	thistory "github.com/zen-eth/shisui/types/history"
)

type hyOp struct {
	kind byte
	key  []byte
	id   []byte
	val  stVal
}

type hyStore struct {
	st    *stStore
	ephDB *pebble.DB
	hs    storage.ContentStorage
}

func hyOpen(dir string, capMB uint64, node [32]byte) (*hyStore, error) {
	st, err := stOpen(dir, capMB, node)
	if err != nil {
		return nil, err
	}
	ephDB, err := spebble.NewDB(dir, 16, 16, "verif_ephemeral")
	if err != nil {
		st.close()
		return nil, err
	}
	cfg := storage.PortalStorageConfig{StorageCapacityMB: capMB, NodeId: node, NetworkName: "verif"}
	hs, err := history.NewHistoryStorage(st.cs, history.NewEphemeralStorage(cfg, ephDB))
	if err != nil {
		st.close()
		ephDB.Close()
		return nil, err
	}
	return &hyStore{st: st, ephDB: ephDB, hs: hs}, nil
}

func (h *hyStore) close() {
	h.st.close()
	_ = h.ephDB.Close()
}

func isEphKey(k []byte) bool {
	return len(k) > 0 && thistory.ContentType(k[0]) == thistory.OfferEphemeralType
}

func (h *hyStore) get(key, id []byte) string {
	b, err := h.hs.Get(key, id)
	if err != nil {
		if errors.Is(err, storage.ErrContentNotFound) {
			return "nf"
		}
		return "err"
	}
	return describe(b)
}

func hyOpsString(ops []hyOp) string {
	p := make([]string, len(ops))
	for i, o := range ops {
		switch o.kind {
		case 'p':
			p[i] = "p," + hx(o.key) + "," + hx(o.id) + "," + o.val.String()
		case 'g':
			p[i] = "g," + hx(o.key) + "," + hx(o.id)
		default:
			p[i] = "r"
		}
	}
	if len(p) == 0 {
		return "."
	}
	return strings.Join(p, ";")
}

func hyParseOps(s string) []hyOp {
	var ops []hyOp
	if s == "." {
		return ops
	}
	for _, o := range strings.Split(s, ";") {
		f := strings.Split(o, ",")
		switch f[0] {
		case "p":
			ops = append(ops, hyOp{kind: 'p', key: unhx(f[1]), id: unhx(f[2]), val: parseVal(f[3])})
		case "g":
			ops = append(ops, hyOp{kind: 'g', key: unhx(f[1]), id: unhx(f[2])})
		case "r":
			ops = append(ops, hyOp{kind: 'r'})
		}
	}
	return ops
}

func hyHistory(c *Ctx, capMB uint64, node [32]byte, ops []hyOp) {
	head := fmt.Sprintf("y04 %d %s %s", capMB, hx(node[:]), hyOpsString(ops))
	var steps []string
	// the observed (key, id) pairs: everything of the history that is not addressed to the ephemeral store
	type pair struct{ key, id []byte }
	var pool []pair
	seen := map[string]bool{}
	for _, o := range ops {
		if o.kind == 'r' || isEphKey(o.key) {
			continue
		}
		k := string(o.key) + "|" + string(o.id)
		if !seen[k] {
			seen[k] = true
			pool = append(pool, pair{o.key, o.id})
		}
	}
	p, msg := guard(func() {
		dir := stTempDir()
		defer os.RemoveAll(dir)
		h, err := hyOpen(dir, capMB, node)
		if err != nil {
			panic("open: " + err.Error())
		}
		h.st.pruned = false
		defer func() { h.close() }()
		for _, o := range ops {
			var res string
			switch o.kind {
			case 'p':
				res = putRes(h.hs.Put(o.key, o.id, o.val.Bytes()))
				h.st.pruned = true
			case 'g':
				res = h.get(o.key, o.id)
			case 'r':
				h.close()
				h2, err := hyOpen(dir, capMB, node)
				if err != nil {
					panic("reopen: " + err.Error())
				}
				*h = *h2
				res = "-"
			}
			held, rec := h.st.scan()
			gets := make([]string, len(pool))
			for i, pr := range pool {
				gets[i] = h.get(pr.key, pr.id)
			}
			g := strings.Join(gets, "+")
			if len(gets) == 0 {
				g = "."
			}
			steps = append(steps, fmt.Sprintf("%s,%s,%d,%s,%d,%s", res, h.hs.Radius().Hex()[2:], spebble.VerifCounter(h.st.cs), rec, held, g))
		}
	})
	if p {
		stp := strings.Join(steps, ";")
		if len(steps) == 0 {
			stp = "."
		}
		c.Emit("%s | panic %s after=%d %s", head, msg, len(steps), stp)
		return
	}
	st := strings.Join(steps, ";")
	if len(steps) == 0 {
		st = "."
	}
	c.Emit("%s | ok %s", head, st)
}

// a history content key of the given type
func hyKey(c *Ctx, t byte) []byte {
	r := c.Rng
	n := 32
	if t == byte(thistory.BlockHeaderNumberType) {
		n = 8
	}
	if t == byte(thistory.FindContentEphemeralType) {
		n = 33
	}
	return append([]byte{t}, r.Bytes(n)...)
}

func hyGen(c *Ctx) {
	r := c.Rng
	n := 40
	if c.Tier == "thorough" {
		n = 800
	}
	for i := 0; i < n; i++ {
		capMB := uint64(1)
		node := genNode(c)
		// pairs (content key, content id): ids whose first byte sweeps 0x00..0x0f, SHA-256 ids of the key (the real
		// content id function), and a SHA-256 id that starts with the ephemeral type byte
		type pair struct{ key, id []byte }
		var pairs []pair
		for j := 0; j < 3+r.Intn(4); j++ {
			t := byte(r.Intn(6)) // 0..5: every history key type, 5 = OfferEphemeralType
			key := hyKey(c, t)
			var id []byte
			switch r.Intn(3) {
			case 0:
				d := sha256.Sum256(key)
				id = d[:]
				c.Count("hybrid_id_sha256")
			default:
				id = r.Bytes(32)
				id[0] = byte(r.Intn(16))
				c.Count(fmt.Sprintf("hybrid_id_first_byte_%02x", id[0]))
			}
			pairs = append(pairs, pair{key, id})
			c.Count(fmt.Sprintf("hybrid_key_type_%d", t))
		}
		// always: an ordinary key whose id starts with the ephemeral type byte, one derived by SHA-256
		id5 := r.Bytes(32)
		id5[0] = byte(thistory.OfferEphemeralType)
		pairs = append(pairs, pair{hyKey(c, byte(r.Intn(4))), id5})
		if r.Intn(2) == 0 {
			for tries := 0; tries < 5000; tries++ {
				k := hyKey(c, byte(r.Intn(3)))
				d := sha256.Sum256(k)
				if d[0] == byte(thistory.OfferEphemeralType) {
					pairs = append(pairs, pair{k, d[:]})
					c.Count("hybrid_id_sha256_starting_05")
					break
				}
			}
		}
		if r.Intn(5) == 0 { // degenerate keys
			pairs = append(pairs, pair{[]byte{}, r.Bytes(32)}, pair{[]byte{byte(r.Intn(6))}, r.Bytes(32)})
		}
		var ops []hyOp
		var vidc uint64 = uint64(r.Intn(1000)) * 1000
		nops := 8 + r.Intn(20)
		for j := 0; j < nops; j++ {
			pr := pairs[r.Intn(len(pairs))]
			switch k := r.Intn(100); {
			case k < 65:
				ops = append(ops, hyOp{kind: 'p', key: pr.key, id: pr.id, val: genVal(c, capMB, &vidc, r.Pick([]int{1, 1, 2, 3}))})
			case k < 90:
				// read through the same key, or through another non-ephemeral key: only the id addresses the item
				key := pr.key
				if r.Intn(3) == 0 && !isEphKey(key) {
					key = hyKey(c, byte(r.Intn(5)))
				}
				ops = append(ops, hyOp{kind: 'g', key: key, id: pr.id})
			default:
				ops = append(ops, hyOp{kind: 'r'})
			}
		}
		hyHistory(c, capMB, node, ops)
	}
	// the state wrapper
	m := 12
	if c.Tier == "thorough" {
		m = 200
	}
	for i := 0; i < m; i++ {
		capMB := uint64(1)
		node := genNode(c)
		ids := genIds(c, node, false)
		stHistory(c, "z04", capMB, node, genOps(c, capMB, ids, 10+r.Intn(30), r.Pick([]int{0, 1, 2}), true))
	}
}

func init() {
	stWrappers["z04"] = func(s *stStore) func(id []byte) ([]byte, error) {
		w := state.NewStateStorage(s.cs, s.db)
		return func(id []byte) ([]byte, error) {
			// a state content key; the wrapper's Get does not look at it
			key := append([]byte{state.AccountTrieNodeType}, id...)
			return w.Get(key, id)
		}
	}
	stExtraExec["y04"] = func(c *Ctx, f []string) {
		var node [32]byte
		copy(node[:], unhx(f[2]))
		var capMB uint64
		fmt.Sscan(f[1], &capMB)
		hyHistory(c, capMB, node, hyParseOps(f[3]))
	}
	stExtraGens["04"] = hyGen
}
