//go:build c14 || all

package main

// C14, second part: containers of the history network (same table as c14.go).

import (
	"bytes"

	"github.com/protolambda/ztyp/codec"
	hnet "github.com/zen-eth/shisui/history"
	pingext "github.com/zen-eth/shisui/portalwire/ping_ext"
	"github.com/zen-eth/shisui/state"
	tbeacon "github.com/zen-eth/shisui/types/beacon"
	thist "github.com/zen-eth/shisui/types/history"
)

// ztyp values: Serialize into a buffer / Deserialize from a reader scoped to the whole input
func c14zser(f func(w *codec.EncodingWriter) error) ([]byte, error) {
	var buf bytes.Buffer
	err := f(codec.NewEncodingWriter(&buf))
	return buf.Bytes(), err
}
func c14zdes(b []byte, f func(dr *codec.DecodingReader) error) error {
	return f(codec.NewDecodingReader(bytes.NewReader(b), uint64(len(b))))
}
func c14proof(l [][]byte) state.TrieProof {
	p := make(state.TrieProof, len(l))
	for i := range l {
		p[i] = state.EncodedTrieNode(l[i])
	}
	return p
}
func c14unproof(p state.TrieProof) [][]byte {
	l := make([][]byte, len(p))
	for i := range p {
		l[i] = []byte(p[i])
	}
	return l
}

func c14initMore() {
	vec := func(name string, cnt int) c14fs {
		return c14fs{name: name, kind: 'L', max: cnt, cnt: cnt, itemExact: 32}
	}
	c14reg(&c14type{name: "HashesAcc", tableAt: -1, fields: []c14fs{vec("Proof", 15)},
		enc: func(f []c14field) ([]byte, error) {
			return (&thist.BlockProofHistoricalHashesAccumulator{Proof: f[0].l}).MarshalSSZ()
		},
		dec2: func(bs ...[]byte) ([]c14field, error) {
			var v thist.BlockProofHistoricalHashesAccumulator
			var err error
			for _, b := range bs { // decoded one after the other into the SAME object
				err = v.UnmarshalSSZ(b)
			}
			return []c14field{{l: v.Proof}}, err
		}})
	p4 := func(name string, c1, c2 int) *c14type {
		return &c14type{name: name, tableAt: -1, fields: []c14fs{vec("BeaconBlockProof", c1), {name: "BeaconBlockRoot", kind: 'B', exact: 32},
			vec("ExecutionBlockProof", c2), {name: "Slot", kind: 'N', bits: 64}}}
	}
	t := p4("ProofRoots", 14, 11)
	t.enc = func(f []c14field) ([]byte, error) {
		return (&thist.BlockProofHistoricalRoots{BeaconBlockProof: f[0].l, BeaconBlockRoot: f[1].b, ExecutionBlockProof: f[2].l, Slot: f[3].n}).MarshalSSZ()
	}
	t.dec2 = func(bs ...[]byte) ([]c14field, error) {
		var v thist.BlockProofHistoricalRoots
		var err error
		for _, b := range bs { // decoded one after the other into the SAME object
			err = v.UnmarshalSSZ(b)
		}
		return []c14field{{l: v.BeaconBlockProof}, {b: v.BeaconBlockRoot}, {l: v.ExecutionBlockProof}, {n: v.Slot}}, err
	}
	c14reg(t)
	t = p4("ProofCapella", 13, 11)
	t.enc = func(f []c14field) ([]byte, error) {
		return (&thist.BlockProofHistoricalSummariesCapella{BeaconBlockProof: f[0].l, BeaconBlockRoot: f[1].b, ExecutionBlockProof: f[2].l, Slot: f[3].n}).MarshalSSZ()
	}
	t.dec2 = func(bs ...[]byte) ([]c14field, error) {
		var v thist.BlockProofHistoricalSummariesCapella
		var err error
		for _, b := range bs { // decoded one after the other into the SAME object
			err = v.UnmarshalSSZ(b)
		}
		return []c14field{{l: v.BeaconBlockProof}, {b: v.BeaconBlockRoot}, {l: v.ExecutionBlockProof}, {n: v.Slot}}, err
	}
	c14reg(t)
	t = p4("ProofDeneb", 13, 12)
	t.enc = func(f []c14field) ([]byte, error) {
		return (&thist.BlockProofHistoricalSummariesDeneb{BeaconBlockProof: f[0].l, BeaconBlockRoot: f[1].b, ExecutionBlockProof: f[2].l, Slot: f[3].n}).MarshalSSZ()
	}
	t.dec2 = func(bs ...[]byte) ([]c14field, error) {
		var v thist.BlockProofHistoricalSummariesDeneb
		var err error
		for _, b := range bs { // decoded one after the other into the SAME object
			err = v.UnmarshalSSZ(b)
		}
		return []c14field{{l: v.BeaconBlockProof}, {b: v.BeaconBlockRoot}, {l: v.ExecutionBlockProof}, {n: v.Slot}}, err
	}
	c14reg(t)
	c14reg(&c14type{name: "HeaderWithProof", tableAt: -1, fixOffs: []int{0, 4},
		fields: []c14fs{{name: "Header", kind: 'B', max: 8192}, {name: "Proof", kind: 'B', max: 1024}},
		enc: func(f []c14field) ([]byte, error) {
			return (&thist.BlockHeaderWithProof{Header: f[0].b, Proof: f[1].b}).MarshalSSZ()
		},
		dec2: func(bs ...[]byte) ([]c14field, error) {
			var v thist.BlockHeaderWithProof
			var err error
			for _, b := range bs { // decoded one after the other into the SAME object
				err = v.UnmarshalSSZ(b)
			}
			return []c14field{{b: v.Header}, {b: v.Proof}}, err
		}})
	c14reg(&c14type{name: "FindEphKey", tableAt: -1,
		fields: []c14fs{{name: "BlockHash", kind: 'B', exact: 32}, {name: "AncestorCount", kind: 'N', bits: 8}},
		enc: func(f []c14field) ([]byte, error) {
			return (&thist.FindContentEphemeralHeadersKey{BlockHash: f[0].b, AncestorCount: uint8(f[1].n)}).MarshalSSZ()
		},
		dec2: func(bs ...[]byte) ([]c14field, error) {
			var v thist.FindContentEphemeralHeadersKey
			var err error
			for _, b := range bs { // decoded one after the other into the SAME object
				err = v.UnmarshalSSZ(b)
			}
			return []c14field{{b: v.BlockHash}, {n: uint64(v.AncestorCount)}}, err
		}})
	c14reg(&c14type{name: "EphPayload", tableAt: 0,
		fields: []c14fs{{name: "Payload", kind: 'L', max: 256, itemMax: 2048}},
		enc: func(f []c14field) ([]byte, error) {
			return (&thist.EphemeralHeaderPayload{Payload: f[0].l}).MarshalSSZ()
		},
		dec2: func(bs ...[]byte) ([]c14field, error) {
			var v thist.EphemeralHeaderPayload
			var err error
			for _, b := range bs { // decoded one after the other into the SAME object
				err = v.UnmarshalSSZ(b)
			}
			return []c14field{{l: v.Payload}}, err
		}})
	c14reg(&c14type{name: "OfferEphKey", tableAt: -1,
		fields: []c14fs{{name: "BlockHash", kind: 'B', exact: 32}},
		enc: func(f []c14field) ([]byte, error) {
			return (&thist.OfferEphemeralHeaderKey{BlockHash: f[0].b}).MarshalSSZ()
		},
		dec2: func(bs ...[]byte) ([]c14field, error) {
			var v thist.OfferEphemeralHeaderKey
			var err error
			for _, b := range bs { // decoded one after the other into the SAME object
				err = v.UnmarshalSSZ(b)
			}
			return []c14field{{b: v.BlockHash}}, err
		}})
	c14reg(&c14type{name: "OfferEphHeader", tableAt: -1, fixOffs: []int{0},
		fields: []c14fs{{name: "Header", kind: 'B', max: 2048}},
		enc:    func(f []c14field) ([]byte, error) { return (&thist.OfferEphemeralHeader{Header: f[0].b}).MarshalSSZ() },
		dec2: func(bs ...[]byte) ([]c14field, error) {
			var v thist.OfferEphemeralHeader
			var err error
			for _, b := range bs { // decoded one after the other into the SAME object
				err = v.UnmarshalSSZ(b)
			}
			return []c14field{{b: v.Header}}, err
		}})
	c14reg(&c14type{name: "Receipts", tableAt: 0,
		fields: []c14fs{{name: "Receipts", kind: 'L', max: 16384, itemMax: 134217728, noItemOver: true}},
		enc:    func(f []c14field) ([]byte, error) { return (&hnet.PortalReceipts{Receipts: f[0].l}).MarshalSSZ() },
		dec2: func(bs ...[]byte) ([]c14field, error) {
			var v hnet.PortalReceipts
			var err error
			for _, b := range bs { // decoded one after the other into the SAME object
				err = v.UnmarshalSSZ(b)
			}
			return []c14field{{l: v.Receipts}}, err
		}})
	c14reg(&c14type{name: "HeaderRecord", tableAt: -1,
		fields: []c14fs{{name: "BlockHash", kind: 'B', exact: 32}, {name: "TotalDifficulty", kind: 'B', exact: 32}},
		enc: func(f []c14field) ([]byte, error) {
			return (&hnet.HeaderRecord{BlockHash: f[0].b, TotalDifficulty: f[1].b}).MarshalSSZ()
		},
		dec2: func(bs ...[]byte) ([]c14field, error) {
			var v hnet.HeaderRecord
			var err error
			for _, b := range bs { // decoded one after the other into the SAME object
				err = v.UnmarshalSSZ(b)
			}
			return []c14field{{b: v.BlockHash}, {b: v.TotalDifficulty}}, err
		}})
	// ---- beacon content keys (fastssz)
	c14reg(&c14type{name: "LcUpdateKey", tableAt: -1,
		fields: []c14fs{{name: "StartPeriod", kind: 'N', bits: 64}, {name: "Count", kind: 'N', bits: 64}},
		enc: func(f []c14field) ([]byte, error) {
			return (&tbeacon.LightClientUpdateKey{StartPeriod: f[0].n, Count: f[1].n}).MarshalSSZ()
		},
		dec2: func(bs ...[]byte) ([]c14field, error) {
			var v tbeacon.LightClientUpdateKey
			var err error
			for _, b := range bs { // decoded one after the other into the SAME object
				err = v.UnmarshalSSZ(b)
			}
			return []c14field{{n: v.StartPeriod}, {n: v.Count}}, err
		}})
	c14reg(&c14type{name: "LcBootstrapKey", tableAt: -1,
		fields: []c14fs{{name: "BlockHash", kind: 'B', exact: 32}},
		enc: func(f []c14field) ([]byte, error) {
			return (&tbeacon.LightClientBootstrapKey{BlockHash: f[0].b}).MarshalSSZ()
		},
		dec2: func(bs ...[]byte) ([]c14field, error) {
			var v tbeacon.LightClientBootstrapKey
			var err error
			for _, b := range bs { // decoded one after the other into the SAME object
				err = v.UnmarshalSSZ(b)
			}
			return []c14field{{b: v.BlockHash}}, err
		}})
	c14reg(&c14type{name: "LcFinalityKey", tableAt: -1,
		fields: []c14fs{{name: "FinalizedSlot", kind: 'N', bits: 64}},
		enc: func(f []c14field) ([]byte, error) {
			return (&tbeacon.LightClientFinalityUpdateKey{FinalizedSlot: f[0].n}).MarshalSSZ()
		},
		dec2: func(bs ...[]byte) ([]c14field, error) {
			var v tbeacon.LightClientFinalityUpdateKey
			var err error
			for _, b := range bs { // decoded one after the other into the SAME object
				err = v.UnmarshalSSZ(b)
			}
			return []c14field{{n: v.FinalizedSlot}}, err
		}})
	c14reg(&c14type{name: "LcOptimisticKey", tableAt: -1,
		fields: []c14fs{{name: "OptimisticSlot", kind: 'N', bits: 64}},
		enc: func(f []c14field) ([]byte, error) {
			return (&tbeacon.LightClientOptimisticUpdateKey{OptimisticSlot: f[0].n}).MarshalSSZ()
		},
		dec2: func(bs ...[]byte) ([]c14field, error) {
			var v tbeacon.LightClientOptimisticUpdateKey
			var err error
			for _, b := range bs { // decoded one after the other into the SAME object
				err = v.UnmarshalSSZ(b)
			}
			return []c14field{{n: v.OptimisticSlot}}, err
		}})
	// ---- state network (ztyp)
	nib := func(name string) c14fs { return c14fs{name: name, kind: 'B', max: 64, nibble: true} }
	b32 := func(name string) c14fs { return c14fs{name: name, kind: 'B', arr: 32} }
	prf := func(name string) c14fs { return c14fs{name: name, kind: 'L', max: 65, itemMax: 1024} }
	c14reg(&c14type{name: "AccountTrieNodeKey", tableAt: -1, fixOffs: []int{0}, fields: []c14fs{nib("Path"), b32("NodeHash")},
		enc: func(f []c14field) ([]byte, error) {
			v := state.AccountTrieNodeKey{Path: state.Nibbles{Nibbles: f[0].b}, NodeHash: root32(f[1].b)}
			return c14zser(v.Serialize)
		},
		dec2: func(bs ...[]byte) ([]c14field, error) {
			var v state.AccountTrieNodeKey
			var err error
			for _, b := range bs { // decoded one after the other into the SAME object
				err = c14zdes(b, v.Deserialize)
			}
			return []c14field{{b: v.Path.Nibbles}, {b: cp(v.NodeHash[:])}}, err
		}})
	c14reg(&c14type{name: "StorageTrieNodeKey", tableAt: -1, fixOffs: []int{32}, fields: []c14fs{b32("AddressHash"), nib("Path"), b32("NodeHash")},
		enc: func(f []c14field) ([]byte, error) {
			v := state.ContractStorageTrieNodeKey{AddressHash: root32(f[0].b), Path: state.Nibbles{Nibbles: f[1].b}, NodeHash: root32(f[2].b)}
			return c14zser(v.Serialize)
		},
		dec2: func(bs ...[]byte) ([]c14field, error) {
			var v state.ContractStorageTrieNodeKey
			var err error
			for _, b := range bs { // decoded one after the other into the SAME object
				err = c14zdes(b, v.Deserialize)
			}
			return []c14field{{b: cp(v.AddressHash[:])}, {b: v.Path.Nibbles}, {b: cp(v.NodeHash[:])}}, err
		}})
	c14reg(&c14type{name: "BytecodeKey", tableAt: -1, fields: []c14fs{b32("AddressHash"), b32("CodeHash")},
		enc: func(f []c14field) ([]byte, error) {
			v := state.ContractBytecodeKey{AddressHash: root32(f[0].b), CodeHash: root32(f[1].b)}
			return c14zser(v.Serialize)
		},
		dec2: func(bs ...[]byte) ([]c14field, error) {
			var v state.ContractBytecodeKey
			var err error
			for _, b := range bs { // decoded one after the other into the SAME object
				err = c14zdes(b, v.Deserialize)
			}
			return []c14field{{b: cp(v.AddressHash[:])}, {b: cp(v.CodeHash[:])}}, err
		}})
	c14reg(&c14type{name: "TrieNode", tableAt: -1, fixOffs: []int{0}, fields: []c14fs{{name: "Node", kind: 'B', max: 1024}},
		enc: func(f []c14field) ([]byte, error) {
			return c14zser(state.TrieNode{Node: state.EncodedTrieNode(f[0].b)}.Serialize)
		},
		dec2: func(bs ...[]byte) ([]c14field, error) {
			var v state.TrieNode
			var err error
			for _, b := range bs { // decoded one after the other into the SAME object
				err = c14zdes(b, v.Deserialize)
			}
			return []c14field{{b: []byte(v.Node)}}, err
		}})
	c14reg(&c14type{name: "TrieProof", tableAt: 0, fields: []c14fs{prf("Proof")},
		enc: func(f []c14field) ([]byte, error) { return c14zser(c14proof(f[0].l).Serialize) },
		dec2: func(bs ...[]byte) ([]c14field, error) {
			var v state.TrieProof
			var err error
			for _, b := range bs { // decoded one after the other into the SAME object
				err = c14zdes(b, v.Deserialize)
			}
			return []c14field{{l: c14unproof(v)}}, err
		}})
	c14reg(&c14type{name: "BytecodeContainer", tableAt: -1, fixOffs: []int{0}, fields: []c14fs{{name: "Code", kind: 'B', max: 32768}},
		enc: func(f []c14field) ([]byte, error) {
			return c14zser(state.ContractBytecodeContainer{Code: state.ContractByteCode(f[0].b)}.Serialize)
		},
		dec2: func(bs ...[]byte) ([]c14field, error) {
			var v state.ContractBytecodeContainer
			var err error
			for _, b := range bs { // decoded one after the other into the SAME object
				err = c14zdes(b, v.Deserialize)
			}
			return []c14field{{b: []byte(v.Code)}}, err
		}})
	c14reg(&c14type{name: "AccountTrieNodeWithProof", tableAt: 36, fixOffs: []int{0}, fields: []c14fs{prf("Proof"), b32("BlockHash")},
		enc: func(f []c14field) ([]byte, error) {
			v := state.AccountTrieNodeWithProof{Proof: c14proof(f[0].l), BlockHash: root32(f[1].b)}
			return c14zser(v.Serialize)
		},
		dec2: func(bs ...[]byte) ([]c14field, error) {
			var v state.AccountTrieNodeWithProof
			var err error
			for _, b := range bs { // decoded one after the other into the SAME object
				err = c14zdes(b, v.Deserialize)
			}
			return []c14field{{l: c14unproof(v.Proof)}, {b: cp(v.BlockHash[:])}}, err
		}})
	c14reg(&c14type{name: "StorageTrieNodeWithProof", tableAt: 40, fixOffs: []int{0, 4}, fields: []c14fs{prf("StorageProof"), prf("AccountProof"), b32("BlockHash")},
		enc: func(f []c14field) ([]byte, error) {
			v := state.ContractStorageTrieNodeWithProof{StorageProof: c14proof(f[0].l), AccountProof: c14proof(f[1].l), BlockHash: root32(f[2].b)}
			return c14zser(v.Serialize)
		},
		dec2: func(bs ...[]byte) ([]c14field, error) {
			var v state.ContractStorageTrieNodeWithProof
			var err error
			for _, b := range bs { // decoded one after the other into the SAME object
				err = c14zdes(b, v.Deserialize)
			}
			return []c14field{{l: c14unproof(v.StorageProof)}, {l: c14unproof(v.AccountProof)}, {b: cp(v.BlockHash[:])}}, err
		}})
	c14reg(&c14type{name: "BytecodeWithProof", tableAt: -1, fixOffs: []int{0, 4}, fields: []c14fs{{name: "Code", kind: 'B', max: 32768}, prf("AccountProof"), b32("BlockHash")},
		enc: func(f []c14field) ([]byte, error) {
			v := state.ContractBytecodeWithProof{Code: state.ContractByteCode(f[0].b), AccountProof: c14proof(f[1].l), BlockHash: root32(f[2].b)}
			return c14zser(v.Serialize)
		},
		dec2: func(bs ...[]byte) ([]c14field, error) {
			var v state.ContractBytecodeWithProof
			var err error
			for _, b := range bs { // decoded one after the other into the SAME object
				err = c14zdes(b, v.Deserialize)
			}
			return []c14field{{b: []byte(v.Code)}, {l: c14unproof(v.AccountProof)}, {b: cp(v.BlockHash[:])}}, err
		}})
	c14reg(&c14type{name: "HistSummariesKey", tableAt: -1, fields: []c14fs{{name: "Epoch", kind: 'N', bits: 64}},
		enc: func(f []c14field) ([]byte, error) {
			return c14zser(tbeacon.HistoricalSummariesWithProofKey{Epoch: f[0].n}.Serialize)
		},
		dec2: func(bs ...[]byte) ([]c14field, error) {
			var v tbeacon.HistoricalSummariesWithProofKey
			var err error
			for _, b := range bs { // decoded one after the other into the SAME object
				err = c14zdes(b, v.Deserialize)
			}
			return []c14field{{n: v.Epoch}}, err
		}})
	// ---- history block bodies and the epoch accumulator (fastssz)
	txs := c14fs{name: "Transactions", kind: 'L', max: 16384, itemMax: 16777216, noItemOver: true}
	c14reg(&c14type{name: "BodyLegacy", tableAt: 8, fixOffs: []int{0, 4},
		fields: []c14fs{txs, {name: "Uncles", kind: 'B', max: 131072}},
		enc: func(f []c14field) ([]byte, error) {
			return (&hnet.BlockBodyLegacy{Transactions: f[0].l, Uncles: f[1].b}).MarshalSSZ()
		},
		dec2: func(bs ...[]byte) ([]c14field, error) {
			var v hnet.BlockBodyLegacy
			var err error
			for _, b := range bs { // decoded one after the other into the SAME object
				err = v.UnmarshalSSZ(b)
			}
			return []c14field{{l: v.Transactions}, {b: v.Uncles}}, err
		}})
	c14reg(&c14type{name: "BodyShanghai", tableAt: 12, fixOffs: []int{0, 4, 8},
		fields: []c14fs{txs, {name: "Uncles", kind: 'B', max: 131072}, {name: "Withdrawals", kind: 'L', max: 16, itemMax: 192}},
		enc: func(f []c14field) ([]byte, error) {
			return (&hnet.PortalBlockBodyShanghai{Transactions: f[0].l, Uncles: f[1].b, Withdrawals: f[2].l}).MarshalSSZ()
		},
		dec2: func(bs ...[]byte) ([]c14field, error) {
			var v hnet.PortalBlockBodyShanghai
			var err error
			for _, b := range bs { // decoded one after the other into the SAME object
				err = v.UnmarshalSSZ(b)
			}
			return []c14field{{l: v.Transactions}, {b: v.Uncles}, {l: v.Withdrawals}}, err
		}})
	c14reg(&c14type{name: "EpochAcc", tableAt: -1, small: true,
		fields: []c14fs{{name: "HeaderRecords", kind: 'L', max: 8192, cnt: 8192, itemExact: 64}},
		enc: func(f []c14field) ([]byte, error) {
			return (&hnet.EpochAccumulator{HeaderRecords: f[0].l}).MarshalSSZ()
		},
		dec2: func(bs ...[]byte) ([]c14field, error) {
			var v hnet.EpochAccumulator
			var err error
			for _, b := range bs { // decoded one after the other into the SAME object
				err = v.UnmarshalSSZ(b)
			}
			return []c14field{{l: v.HeaderRecords}}, err
		}})
	// ---- prover-side containers of package history (fastssz)
	c14reg(&c14type{name: "HeaderWithProofH", tableAt: -1, fixOffs: []int{0, 4},
		fields: []c14fs{{name: "Header", kind: 'B', max: 8192}, {name: "Proof", kind: 'B', max: 1024}},
		enc: func(f []c14field) ([]byte, error) {
			return (&hnet.BlockHeaderWithProof{Header: f[0].b, Proof: f[1].b}).MarshalSSZ()
		},
		dec2: func(bs ...[]byte) ([]c14field, error) {
			var v hnet.BlockHeaderWithProof
			var err error
			for _, b := range bs { // decoded one after the other into the SAME object
				err = v.UnmarshalSSZ(b)
			}
			return []c14field{{b: v.Header}, {b: v.Proof}}, err
		}})
	c14reg(&c14type{name: "SSZProof", tableAt: -1, fixOffs: []int{32},
		fields: []c14fs{{name: "Leaf", kind: 'B', exact: 32}, {name: "Witnesses", kind: 'L', max: 65536, itemExact: 32, hugeCount: true}},
		enc: func(f []c14field) ([]byte, error) {
			return (&hnet.SSZProof{Leaf: f[0].b, Witnesses: f[1].l}).MarshalSSZ()
		},
		dec2: func(bs ...[]byte) ([]c14field, error) {
			var v hnet.SSZProof
			var err error
			for _, b := range bs { // decoded one after the other into the SAME object
				err = v.UnmarshalSSZ(b)
			}
			return []c14field{{b: v.Leaf}, {l: v.Witnesses}}, err
		}})
	c14reg(&c14type{name: "MasterAcc", tableAt: -1, fixOffs: []int{0},
		fields: []c14fs{{name: "HistoricalEpochs", kind: 'L', max: 1897, itemExact: 32}},
		enc: func(f []c14field) ([]byte, error) {
			return (&hnet.MasterAccumulator{HistoricalEpochs: f[0].l}).MarshalSSZ()
		},
		dec2: func(bs ...[]byte) ([]c14field, error) {
			var v hnet.MasterAccumulator
			var err error
			for _, b := range bs { // decoded one after the other into the SAME object
				err = v.UnmarshalSSZ(b)
			}
			return []c14field{{l: v.HistoricalEpochs}}, err
		}})
	c14reg(&c14type{name: "CustomPayload", tableAt: -1, fields: []c14fs{{name: "Payload", kind: 'B', max: 1100}},
		enc: func(f []c14field) ([]byte, error) {
			return c14zser(pingext.CustomPayloadExtensionsFormatPayload(f[0].b).Serialize)
		},
		dec2: func(bs ...[]byte) ([]c14field, error) {
			var v pingext.CustomPayloadExtensionsFormatPayload
			var err error
			for _, b := range bs { // decoded one after the other into the SAME object
				err = c14zdes(b, v.Deserialize)
			}
			return []c14field{{b: []byte(v)}}, err
		}})
}
