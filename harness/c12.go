//go:build c12 || all

package main

// C12: the beacon light client.  The REAL ConsensusLightClient (VerifyUpdate / VerifyFinalityUpdate /
// VerifyOptimisticUpdate / VerifyGenericUpdate, Apply*, bootstrap) is run on synthetic 512-member sync committees made of
// real BLS keys.  Lines:
//
//	hist <keyseed> <genesis_root> <committees> <store> <steps> <truths> | ok <step>;<step>;...
//	boot <keyseed> <checkpoint> <beacon_hdr> <exec_root> <exec_branch_root> <committee> <branch> <now> <max_age> <strict> <truth> | ok <digest> / err<N> / panic
//
//	committees  root:k.k.k...,root:k.k...     k = key index | i (identity point) | x (undecodable bytes)
//	hdr         slot:proposer:parent:state:body
//	store       finhdr/opthdr/cur/next|-/prevmax/curmax          (cur, next: index into <committees>)
//	step        mode,now,fork,atthdr,next|-,nextbr|-,finhdr|-,finbr|-,bits,sig,sigslot
//	            mode = U F O (wire object through VerifyUpdate/VerifyFinalityUpdate/VerifyOptimisticUpdate) followed by the fork container type
//	            a c d (altair, capella, deneb) or e (a type none of the converters accepts), or G (hand-built GenericUpdate, VerifyGenericUpdate),
//	            lower case = apply even if verification failed;  branch = root/root/...
//	            sig = g0 (undecodable bytes) | g1 (a curve point that signs nothing relevant) | s:<msg>:<committee>:<bits> (the
//	            aggregate of the real signatures of the keys of <committee> selected by <bits> over <msg>)
//	            a step `B,now,checkpoint,hdr,exec_root,exec_branch_root,committee,branch,max_age,strict` is a bootstrap() on the SAME client
//	            (Start() retries Sync()): obs ok|err<N> / boot / digest
//	truth       per step, the harness's own knowledge of what is wrong with the update it built ("-" = valid by construction):
//	            P no participation, F signature slot in the future, O slots unordered, W period does not fit the store,
//	            I irrelevant, B finality branch/header corrupted, C committee branch/committee corrupted, S signature is not a
//	            signature over the signing root, K signer set differs from the participating keys, U unpaired header/branch
//	            (not constructible from a wire update), L ill-typed lengths (not constructible by SSZ decoding), T wire type unknown to the converters
//	shape       what the converter (From*Update, called directly) returned: <next>.<fin>, next = - | c | b<len> | cb<len>, fin = - | h | b<len> | hb<len>, or err
//	obs         first the digest of the initial store, then per step:
//	step obs    ok|err<N>|panic / shape / fslot:froot:oslot:oroot:cur:next|-:prevmax:curmax   (roots by zrnt HashTreeRoot)

import (
	"crypto/sha256"
	"errors"
	"fmt"
	"math/big"
	"strconv"
	"strings"
	"time"

	"github.com/ethereum/go-ethereum/log"
	blsu "github.com/protolambda/bls12-381-util"
	"github.com/protolambda/zrnt/eth2/beacon/altair"
	"github.com/protolambda/zrnt/eth2/beacon/capella"
	"github.com/protolambda/zrnt/eth2/beacon/common"
	"github.com/protolambda/zrnt/eth2/beacon/deneb"
	"github.com/protolambda/zrnt/eth2/beacon/electra"
	"github.com/protolambda/zrnt/eth2/configs"
	"github.com/protolambda/zrnt/eth2/util/hashing"
	"github.com/protolambda/ztyp/tree"
	"github.com/protolambda/ztyp/view"
	"github.com/zen-eth/shisui/beacon"
)

func init() { registry["C12"] = runC12 }

const c12NK = 600
const c12SPP = 8192 // slots per period, the harness's own constant for building scenarios

var c12R, _ = new(big.Int).SetString("73eda753299d7d483339d80809a1d80553bda402fffe5bfeffffffff00000001", 16)

// ---------------------------------------------------------------- keys

type c12Keys struct {
	seed uint64
	sk   []*big.Int
	pk   []common.BLSPubkey
	g1   common.BLSSignature // decodable, signs nothing relevant
	g0   common.BLSSignature // undecodable
	idPk common.BLSPubkey    // identity point
	xPk  common.BLSPubkey    // undecodable
}

var c12KeyCache = map[uint64]*c12Keys{}

func c12SkFromInt(v *big.Int) *blsu.SecretKey {
	var b [32]byte
	v.FillBytes(b[:])
	var sk blsu.SecretKey
	if err := sk.Deserialize(&b); err != nil {
		panic(err)
	}
	return &sk
}

func c12GenKeys(seed uint64) *c12Keys {
	if k, ok := c12KeyCache[seed]; ok {
		return k
	}
	// keys depend on the key seed only (not on the harness PRNG), so that a recorded line can be replayed by any later build
	k := &c12Keys{seed: seed}
	for i := 0; i < c12NK+1; i++ {
		h := sha256.Sum256([]byte(fmt.Sprintf("c12 key %d %d", seed, i)))
		v := new(big.Int).SetBytes(h[:])
		v.Mod(v, c12R)
		if v.Sign() == 0 {
			v.SetInt64(1)
		}
		pub, err := blsu.SkToPk(c12SkFromInt(v))
		if err != nil {
			panic(err)
		}
		if i == c12NK { // auxiliary key: its signature is the "decodable garbage"
			k.g1 = blsu.Sign(c12SkFromInt(v), []byte("c12 garbage")).Serialize()
			break
		}
		k.sk = append(k.sk, v)
		k.pk = append(k.pk, pub.Serialize())
	}
	for i := range k.g0 {
		k.g0[i] = 0xff
	}
	k.idPk[0] = 0xc0
	for i := range k.xPk {
		k.xPk[i] = 0xff
	}
	// the three special byte strings must behave as the symbolic model says
	if _, err := k.g0.Signature(); err == nil {
		panic("g0 decodes")
	}
	if _, err := k.g1.Signature(); err != nil {
		panic("g1 does not decode")
	}
	if _, err := k.idPk.Pubkey(); err != nil {
		panic("identity pubkey does not decode")
	}
	if _, err := k.xPk.Pubkey(); err == nil {
		panic("xPk decodes")
	}
	c12KeyCache[seed] = k
	return k
}

// aggregate signature of the given key indices (with multiplicity) over msg
func (k *c12Keys) sign(ids []int, msg []byte) common.BLSSignature {
	sum := new(big.Int)
	for _, i := range ids {
		sum.Add(sum, k.sk[i])
	}
	sum.Mod(sum, c12R)
	if sum.Sign() == 0 || len(ids) == 0 {
		return k.g1
	}
	return blsu.Sign(c12SkFromInt(sum), msg).Serialize()
}

// ---------------------------------------------------------------- symbolic objects

type c12Comm struct {
	keys []int // key index | -1 identity | -2 undecodable
	real *common.SyncCommittee
	root common.Root
}

func (k *c12Keys) mkComm(keys []int) *c12Comm {
	c := &c12Comm{keys: keys, real: &common.SyncCommittee{Pubkeys: make([]common.BLSPubkey, len(keys))}}
	for i, x := range keys {
		switch {
		case x == -1:
			c.real.Pubkeys[i] = k.idPk
		case x == -2:
			c.real.Pubkeys[i] = k.xPk
		default:
			c.real.Pubkeys[i] = k.pk[x]
		}
	}
	c.real.AggregatePubkey = k.pk[0]
	if len(keys) == 512 {
		c.root = c.real.HashTreeRoot(configs.Mainnet, tree.GetHashFn())
	}
	return c
}

func (c *c12Comm) String() string {
	p := make([]string, len(c.keys))
	for i, x := range c.keys {
		switch x {
		case -1:
			p[i] = "i"
		case -2:
			p[i] = "x"
		default:
			p[i] = strconv.Itoa(x)
		}
	}
	if len(p) == 0 {
		return hx(c.root[:]) + ":_"
	}
	return hx(c.root[:]) + ":" + strings.Join(p, ".")
}

type c12Hdr struct {
	slot, proposer      uint64
	parent, state, body [32]byte
}

func (h *c12Hdr) real() *common.BeaconBlockHeader {
	return &common.BeaconBlockHeader{Slot: common.Slot(h.slot), ProposerIndex: common.ValidatorIndex(h.proposer),
		ParentRoot: h.parent, StateRoot: h.state, BodyRoot: h.body}
}
func (h *c12Hdr) root() [32]byte { return h.real().HashTreeRoot(tree.GetHashFn()) }
func (h *c12Hdr) String() string {
	return fmt.Sprintf("%d:%d:%s:%s:%s", h.slot, h.proposer, hx(h.parent[:]), hx(h.state[:]), hx(h.body[:]))
}
func c12HdrOf(b *common.BeaconBlockHeader) c12Hdr {
	return c12Hdr{uint64(b.Slot), uint64(b.ProposerIndex), b.ParentRoot, b.StateRoot, b.BodyRoot}
}
func c12ParseHdr(s string) c12Hdr {
	f := strings.Split(s, ":")
	var h c12Hdr
	h.slot, _ = strconv.ParseUint(f[0], 10, 64)
	h.proposer, _ = strconv.ParseUint(f[1], 10, 64)
	copy(h.parent[:], unhx(f[2]))
	copy(h.state[:], unhx(f[3]))
	copy(h.body[:], unhx(f[4]))
	return h
}

type c12Sig struct {
	kind string // g0 g1 s
	msg  [32]byte
	comm int
	bits []byte
}

func (s *c12Sig) String() string {
	if s.kind != "s" {
		return s.kind
	}
	return fmt.Sprintf("s:%s:%d:%s", hx(s.msg[:]), s.comm, hx(s.bits))
}

type c12Step struct {
	mode    byte     // U F O G
	wf      byte     // fork container type of a wire object: a c d e (0 for G)
	boot    *c12Boot // mode 'B': bootstrap() again on the same client
	force   bool
	now     uint64
	fork    [4]byte
	att     c12Hdr
	next    int // -1 = nil
	nextBr  [][32]byte
	hasNBr  bool
	fin     *c12Hdr
	finBr   [][32]byte
	hasFBr  bool
	bits    []byte
	sig     c12Sig
	sigSlot uint64
	truth   string
}

func c12CloneStep(s *c12Step) c12Step {
	c := *s
	c.bits = append([]byte{}, s.bits...)
	c.sig.bits = append([]byte{}, s.sig.bits...)
	c.nextBr = append([][32]byte{}, s.nextBr...)
	c.finBr = append([][32]byte{}, s.finBr...)
	if s.fin != nil {
		f := *s.fin
		c.fin = &f
	}
	return c
}

func c12Br(has bool, b [][32]byte) string {
	if !has {
		return "-"
	}
	p := make([]string, len(b))
	for i := range b {
		p[i] = hx(b[i][:])
	}
	return strings.Join(p, "/")
}
func c12ParseBr(s string) (bool, [][32]byte) {
	if s == "-" {
		return false, nil
	}
	var out [][32]byte
	for _, p := range strings.Split(s, "/") {
		var r [32]byte
		copy(r[:], unhx(p))
		out = append(out, r)
	}
	return true, out
}

func (s *c12Step) String() string {
	if s.mode == 'B' {
		b := s.boot
		st := "0"
		if b.strict {
			st = "1"
		}
		return fmt.Sprintf("B,%d,%s,%s,%s,%s,%d,%s,%d,%s", b.now, hx(b.checkpoint[:]), b.hdr.String(), hx(b.execRoot[:]), hx(b.execBrRoot[:]), b.comm,
			c12Br(true, b.branch), b.maxAge, st)
	}
	m := string(s.mode)
	if s.force {
		m = strings.ToLower(m)
	}
	if s.mode != 'G' {
		m += string(s.wf)
	}
	nx := "-"
	if s.next >= 0 {
		nx = strconv.Itoa(s.next)
	}
	fh := "-"
	if s.fin != nil {
		fh = s.fin.String()
	}
	return fmt.Sprintf("%s,%d,%s,%s,%s,%s,%s,%s,%s,%s,%d", m, s.now, hx(s.fork[:]), s.att.String(), nx, c12Br(s.hasNBr, s.nextBr),
		fh, c12Br(s.hasFBr, s.finBr), hx(s.bits), s.sig.String(), s.sigSlot)
}

func c12ParseStep(f string) c12Step {
	p := strings.Split(f, ",")
	var s c12Step
	if p[0] == "B" {
		b := &c12Boot{hdr: c12ParseHdr(p[3])}
		b.now, _ = strconv.ParseUint(p[1], 10, 64)
		copy(b.checkpoint[:], unhx(p[2]))
		copy(b.execRoot[:], unhx(p[4]))
		copy(b.execBrRoot[:], unhx(p[5]))
		b.comm, _ = strconv.Atoi(p[6])
		_, b.branch = c12ParseBr(p[7])
		b.maxAge, _ = strconv.ParseUint(p[8], 10, 64)
		b.strict = p[9] == "1"
		s.mode, s.boot, s.next = 'B', b, -1
		return s
	}
	s.mode = strings.ToUpper(p[0][:1])[0]
	s.force = p[0][:1] != strings.ToUpper(p[0][:1])
	if len(p[0]) > 1 {
		s.wf = p[0][1]
	}
	s.now, _ = strconv.ParseUint(p[1], 10, 64)
	copy(s.fork[:], unhx(p[2]))
	s.att = c12ParseHdr(p[3])
	s.next = -1
	if p[4] != "-" {
		s.next, _ = strconv.Atoi(p[4])
	}
	s.hasNBr, s.nextBr = c12ParseBr(p[5])
	if p[6] != "-" {
		h := c12ParseHdr(p[6])
		s.fin = &h
	}
	s.hasFBr, s.finBr = c12ParseBr(p[7])
	s.bits = unhx(p[8])
	if strings.HasPrefix(p[9], "s:") {
		q := strings.Split(p[9], ":")
		s.sig.kind = "s"
		copy(s.sig.msg[:], unhx(q[1]))
		s.sig.comm, _ = strconv.Atoi(q[2])
		s.sig.bits = unhx(q[3])
	} else {
		s.sig.kind = p[9]
	}
	s.sigSlot, _ = strconv.ParseUint(p[10], 10, 64)
	return s
}

// ---------------------------------------------------------------- the real client

type c12Api struct{ boot common.SpecObj }

func (a *c12Api) GetBootstrap(common.Root) (common.SpecObj, error) { return a.boot, nil }
func (a *c12Api) GetUpdates(_, _ uint64) ([]common.SpecObj, error) {
	return nil, errors.New("not used")
}
func (a *c12Api) GetFinalityUpdate() (common.SpecObj, error)   { return nil, errors.New("not used") }
func (a *c12Api) GetOptimisticUpdate() (common.SpecObj, error) { return nil, errors.New("not used") }
func (a *c12Api) ChainID() uint64                              { return 1 }
func (a *c12Api) Name() string                                 { return "verif" }

type c12Runner struct {
	keys    *c12Keys
	comms   []*c12Comm
	byRoot  map[common.Root]int
	client  *beacon.ConsensusLightClient
	api     *c12Api
	spec    *common.Spec
	genesis common.Root
	lastOK  *c12Step // the last update the implementation verified (for same-header scenarios)
}

// fork schedule of the synthetic network: versions change inside the slot range the scenarios use
func c12Spec() *common.Spec {
	s := *configs.Mainnet
	cfg := s.Config
	cfg.ALTAIR_FORK_EPOCH = 0
	cfg.BELLATRIX_FORK_EPOCH = 0
	cfg.CAPELLA_FORK_EPOCH = 256 * 3 // period 3
	cfg.DENEB_FORK_EPOCH = 256*5 + 7
	cfg.ELECTRA_FORK_EPOCH = 256 * 40
	cfg.GENESIS_FORK_VERSION = common.Version{0, 0, 0x10, 0x20}
	cfg.ALTAIR_FORK_VERSION = common.Version{1, 0, 0x10, 0x20}
	cfg.BELLATRIX_FORK_VERSION = common.Version{2, 0, 0x10, 0x20}
	cfg.CAPELLA_FORK_VERSION = common.Version{3, 0, 0x10, 0x20}
	cfg.DENEB_FORK_VERSION = common.Version{4, 0, 0x10, 0x20}
	cfg.ELECTRA_FORK_VERSION = common.Version{5, 0, 0x10, 0x20}
	cfg.FULU_FORK_VERSION = common.Version{6, 0, 0x10, 0x20}
	s.Config = cfg
	return &s
}

func c12NewRunner(keys *c12Keys, genesis common.Root) *c12Runner {
	r := &c12Runner{keys: keys, byRoot: map[common.Root]int{}, api: &c12Api{}, spec: c12Spec(), genesis: genesis}
	cfg := &beacon.Config{ConsensusAPI: "verif", Spec: r.spec, MaxCheckpointAge: 1_209_600,
		Chain: beacon.ChainConfig{ChainID: 1, GenesisTime: uint64(time.Now().Unix()), GenesisRoot: genesis}}
	cl, err := beacon.NewConsensusLightClient(r.api, cfg, common.Root{}, log.NewLogger(log.DiscardHandler()))
	if err != nil {
		panic(err)
	}
	r.client = cl
	return r
}

func (r *c12Runner) addComm(keys []int) int {
	c := r.keys.mkComm(keys)
	r.comms = append(r.comms, c)
	if len(keys) == 512 {
		if _, ok := r.byRoot[c.root]; !ok {
			r.byRoot[c.root] = len(r.comms) - 1
		}
	}
	return len(r.comms) - 1
}

// `now` is controlled through the genesis time: expectedCurrentSlot() = (time.Now() - genesis) / 12
func (r *c12Runner) setNow(slot uint64) {
	r.client.Config.Chain.GenesisTime = uint64(time.Now().Unix()) - slot*12 - 5
}

var c12errs = []error{nil, beacon.ErrInsufficientParticipation, beacon.ErrInvalidTimestamp, beacon.ErrInvalidPeriod, beacon.ErrNotRelevant,
	beacon.ErrInvalidFinalityProof, beacon.ErrInvalidNextSyncCommitteeProof, beacon.ErrInvalidSignature}

func c12ErrClass(err error) string {
	if strings.Contains(err.Error(), "unknown") && strings.Contains(err.Error(), "update type") {
		return "err13" // a wire type none of the converters accepts
	}
	for i := 1; i < len(c12errs); i++ {
		if errors.Is(err, c12errs[i]) {
			return fmt.Sprintf("err%d", i)
		}
	}
	return "err8" // key or signature bytes do not decode
}

// idxOf finds the table entry of a committee the store points at: by identity (ill-typed committees have no root), else by root
func (r *c12Runner) idxOf(c *common.SyncCommittee) int {
	if c == nil {
		return -1
	}
	for i, x := range r.comms {
		if x.real == c {
			return i
		}
	}
	if len(c.Pubkeys) == 512 {
		if i, ok := r.byRoot[c.HashTreeRoot(configs.Mainnet, tree.GetHashFn())]; ok {
			return i
		}
	}
	return -1
}

func (r *c12Runner) commRootOf(c *common.SyncCommittee) string {
	if c == nil {
		return "-"
	}
	if i := r.idxOf(c); i >= 0 {
		return hx(r.comms[i].root[:])
	}
	if len(c.Pubkeys) != 512 {
		return hx(make([]byte, 32))
	}
	rt := c.HashTreeRoot(configs.Mainnet, tree.GetHashFn())
	return hx(rt[:])
}

func (r *c12Runner) digest() string {
	s := &r.client.Store
	fr := s.FinalizedHeader.HashTreeRoot(tree.GetHashFn())
	or := s.OptimisticHeader.HashTreeRoot(tree.GetHashFn())
	return fmt.Sprintf("%d:%s:%d:%s:%s:%s:%d:%d", uint64(s.FinalizedHeader.Slot), hx(fr[:]), uint64(s.OptimisticHeader.Slot), hx(or[:]),
		r.commRootOf(s.CurrentSyncCommittee), r.commRootOf(s.NextSyncCommittee), uint64(s.PreviousMaxActiveParticipants), uint64(s.CurrentMaxActiveParticipants))
}

func (r *c12Runner) realSig(s *c12Sig) common.BLSSignature {
	switch s.kind {
	case "g0":
		return r.keys.g0
	case "g1":
		return r.keys.g1
	}
	var ids []int
	cm := r.comms[s.comm]
	for i := 0; i < 512 && i < len(cm.keys) && i/8 < len(s.bits); i++ {
		if s.bits[i/8]>>(uint(i)%8)&1 == 1 && cm.keys[i] >= 0 {
			ids = append(ids, cm.keys[i])
		}
	}
	return r.keys.sign(ids, s.msg[:])
}

func c12Arr6(b [][32]byte) (out altair.FinalizedRootProofBranch) {
	for i := 0; i < 6 && i < len(b); i++ {
		out[i] = b[i]
	}
	return
}
func c12Arr5(b [][32]byte) (out altair.SyncCommitteeProofBranch) {
	for i := 0; i < 5 && i < len(b); i++ {
		out[i] = b[i]
	}
	return
}

// exec runs one step on the real client and returns its observation
func (r *c12Runner) exec(s *c12Step) string {
	if s.mode == 'B' {
		o := r.execBoot(s.boot)
		if strings.HasPrefix(o, "ok ") {
			return "ok/boot/" + o[3:]
		}
		return o + "/boot/" + r.digest()
	}
	agg := altair.SyncAggregate{SyncCommitteeBits: altair.SyncCommitteeBits(s.bits), SyncCommitteeSignature: r.realSig(&s.sig)}
	var verify func() error
	var apply func()
	cl := r.client
	var shapeOf func() (*beacon.GenericUpdate, error)
	bh := *s.att.real()
	sl := common.Slot(s.sigSlot)
	switch s.mode {
	case 'U':
		nc, nb, fb := *r.comms[s.next].real, c12Arr5(s.nextBr), c12Arr6(s.finBr)
		fh := *s.fin.real()
		var u common.SpecObj
		switch s.wf {
		case 'a':
			u = &altair.LightClientUpdate{AttestedHeader: altair.LightClientHeader{Beacon: bh}, NextSyncCommittee: nc, NextSyncCommitteeBranch: nb,
				FinalizedHeader: altair.LightClientHeader{Beacon: fh}, FinalityBranch: fb, SyncAggregate: agg, SignatureSlot: sl}
		case 'c':
			u = &capella.LightClientUpdate{AttestedHeader: capella.LightClientHeader{Beacon: bh}, NextSyncCommittee: nc, NextSyncCommitteeBranch: nb,
				FinalizedHeader: capella.LightClientHeader{Beacon: fh}, FinalityBranch: fb, SyncAggregate: agg, SignatureSlot: sl}
		case 'd':
			u = &deneb.LightClientUpdate{AttestedHeader: deneb.LightClientHeader{Beacon: bh}, NextSyncCommittee: nc, NextSyncCommitteeBranch: nb,
				FinalizedHeader: deneb.LightClientHeader{Beacon: fh}, FinalityBranch: fb, SyncAggregate: agg, SignatureSlot: sl}
		default:
			u = &electra.LightClientUpdate{AttestedHeader: deneb.LightClientHeader{Beacon: bh}, NextSyncCommittee: nc,
				FinalizedHeader: deneb.LightClientHeader{Beacon: fh}, SyncAggregate: agg, SignatureSlot: sl}
		}
		verify = func() error { return cl.VerifyUpdate(u) }
		apply = func() { _ = cl.ApplyUpdate(u) }
		shapeOf = func() (*beacon.GenericUpdate, error) { return beacon.FromLightClientUpdate(u) }
	case 'F':
		fb := c12Arr6(s.finBr)
		fh := *s.fin.real()
		var u common.SpecObj
		switch s.wf {
		case 'a':
			u = &altair.LightClientFinalityUpdate{AttestedHeader: altair.LightClientHeader{Beacon: bh}, FinalizedHeader: fh, FinalityBranch: fb, SyncAggregate: agg, SignatureSlot: sl}
		case 'c':
			u = &capella.LightClientFinalityUpdate{AttestedHeader: capella.LightClientHeader{Beacon: bh},
				FinalizedHeader: capella.LightClientHeader{Beacon: fh}, FinalityBranch: fb, SyncAggregate: agg, SignatureSlot: sl}
		case 'd':
			u = &deneb.LightClientFinalityUpdate{AttestedHeader: deneb.LightClientHeader{Beacon: bh},
				FinalizedHeader: deneb.LightClientHeader{Beacon: fh}, FinalityBranch: fb, SyncAggregate: agg, SignatureSlot: sl}
		default:
			u = &electra.LightClientFinalityUpdate{AttestedHeader: deneb.LightClientHeader{Beacon: bh},
				FinalizedHeader: deneb.LightClientHeader{Beacon: fh}, SyncAggregate: agg, SignatureSlot: sl}
		}
		verify = func() error { return cl.VerifyFinalityUpdate(u) }
		apply = func() { _ = cl.ApplyFinalityUpdate(u) }
		shapeOf = func() (*beacon.GenericUpdate, error) { return beacon.FromLightClientFinalityUpdate(u) }
	case 'O':
		var u common.SpecObj
		switch s.wf {
		case 'a':
			u = &altair.LightClientOptimisticUpdate{AttestedHeader: altair.LightClientHeader{Beacon: bh}, SyncAggregate: agg, SignatureSlot: sl}
		case 'c':
			u = &capella.LightClientOptimisticUpdate{AttestedHeader: capella.LightClientHeader{Beacon: bh}, SyncAggregate: agg, SignatureSlot: sl}
		case 'd':
			u = &deneb.LightClientOptimisticUpdate{AttestedHeader: deneb.LightClientHeader{Beacon: bh}, SyncAggregate: agg, SignatureSlot: sl}
		default:
			u = &electra.LightClientBootstrap{Header: deneb.LightClientHeader{Beacon: bh}}
		}
		verify = func() error { return cl.VerifyOptimisticUpdate(u) }
		apply = func() { _ = cl.ApplyOptimisticUpdate(u) }
		shapeOf = func() (*beacon.GenericUpdate, error) { return beacon.FromLightClientOptimisticUpdate(u) }
	default:
		g := &beacon.GenericUpdate{AttestedHeader: s.att.real(), SyncAggregate: &agg, SignatureSlot: common.Slot(s.sigSlot)}
		if s.next >= 0 {
			g.NextSyncCommittee = r.comms[s.next].real
		}
		if s.hasNBr {
			b := c12Arr5(s.nextBr)
			g.NextSyncCommitteeBranch = &b
		}
		if s.fin != nil {
			g.FinalizedHeader = s.fin.real()
		}
		if s.hasFBr {
			b := c12Arr6(s.finBr)
			g.FinalityBranch = &b
		}
		verify = func() error { return cl.VerifyGenericUpdate(&cl.Store, g, s.now, r.genesis, s.fork) }
		apply = func() { cl.ApplyGenericUpdate(g) }
		shapeOf = func() (*beacon.GenericUpdate, error) { return g, nil }
	}
	shape := "panic"
	guard(func() {
		g, err := shapeOf()
		if err != nil {
			shape = "err"
			return
		}
		nx, fn := "", ""
		if g.NextSyncCommittee != nil {
			nx += "c"
		}
		if g.NextSyncCommitteeBranch != nil {
			nx += fmt.Sprintf("b%d", len(g.NextSyncCommitteeBranch))
		}
		if g.FinalizedHeader != nil {
			fn += "h"
		}
		if g.FinalityBranch != nil {
			fn += fmt.Sprintf("b%d", len(g.FinalityBranch))
		}
		if nx == "" {
			nx = "-"
		}
		if fn == "" {
			fn = "-"
		}
		shape = nx + "." + fn
	})
	r.setNow(s.now)
	var err error
	res := "ok"
	if p, _ := guard(func() { err = verify() }); p {
		res = "panic"
	} else if err != nil {
		res = c12ErrClass(err)
	}
	if res == "ok" || (s.force && res != "panic") {
		if p, _ := guard(apply); p {
			res = "panic"
		}
	}
	if res == "ok" {
		cp := c12CloneStep(s)
		r.lastOK = &cp
	}
	return res + "/" + shape + "/" + r.digest()
}

// ---------------------------------------------------------------- sparse state tree

type c12Tree struct {
	fixed map[uint64][32]byte
	memo  map[uint64][32]byte
	rng   *Rng
}

func c12NewTree(rng *Rng) *c12Tree {
	return &c12Tree{fixed: map[uint64][32]byte{}, memo: map[uint64][32]byte{}, rng: rng}
}
func (t *c12Tree) hasFixedBelow(g uint64) bool {
	for f := range t.fixed {
		x := f
		for x > g {
			x >>= 1
		}
		if x == g && f != g {
			return true
		}
	}
	return false
}
func (t *c12Tree) node(g uint64) [32]byte {
	if v, ok := t.fixed[g]; ok {
		return v
	}
	if v, ok := t.memo[g]; ok {
		return v
	}
	var v [32]byte
	if t.hasFixedBelow(g) {
		l, r := t.node(2*g), t.node(2*g+1)
		v = hashing.Hash(append(append([]byte{}, l[:]...), r[:]...))
	} else {
		copy(v[:], t.rng.Bytes(32))
	}
	t.memo[g] = v
	return v
}
func (t *c12Tree) branch(g uint64) [][32]byte {
	var out [][32]byte
	for g > 1 {
		out = append(out, t.node(g^1))
		g >>= 1
	}
	return out
}

// ---------------------------------------------------------------- scenario generator

func c12Popcount(b []byte) int {
	n := 0
	for i := 0; i < 512 && i/8 < len(b); i++ {
		if b[i/8]>>(uint(i)%8)&1 == 1 {
			n++
		}
	}
	return n
}

func c12RandBits(r *Rng, n int) []byte {
	b := make([]byte, 64)
	perm := make([]int, 512)
	for i := range perm {
		perm[i] = i
	}
	for i := 511; i > 0; i-- {
		j := r.Intn(i + 1)
		perm[i], perm[j] = perm[j], perm[i]
	}
	for _, i := range perm[:n] {
		b[i/8] |= 1 << (uint(i) % 8)
	}
	return b
}

type c12Gen struct {
	boot0     *c12Boot // the bootstrap the history started from (re-bootstrap steps use it again)
	forceSc   string   // matrix cases: scenario, entry point and fork container are fixed
	forceMode byte
	forceWf   byte
	c         *Ctx
	run       *c12Runner
	chain     map[uint64]int // period -> committee index (the honest chain's committee of that period)
	steps     []c12Step
	obs       []string
	truths    []string
}

func (g *c12Gen) commFor(p uint64) int {
	if i, ok := g.chain[p]; ok {
		return i
	}
	r := g.c.Rng
	off := r.Intn(c12NK)
	keys := make([]int, 512)
	for i := range keys {
		keys[i] = (off + i) % c12NK
	}
	if r.Intn(6) == 0 { // duplicated members, as small validator sets produce
		for j := 0; j < 1+r.Intn(20); j++ {
			keys[r.Intn(512)] = keys[r.Intn(512)]
		}
		g.c.Count("committee_with_duplicates")
	}
	i := g.run.addComm(keys)
	g.chain[p] = i
	return i
}

func (g *c12Gen) randHdr(slot uint64) c12Hdr {
	r := g.c.Rng
	h := c12Hdr{slot: slot, proposer: uint64(r.Intn(1 << 20))}
	copy(h.parent[:], r.Bytes(32))
	copy(h.state[:], r.Bytes(32))
	copy(h.body[:], r.Bytes(32))
	return h
}

func (g *c12Gen) signingRoot(att *c12Hdr, fork [4]byte, genesis common.Root) [32]byte {
	dom := common.ComputeDomain(common.DOMAIN_SYNC_COMMITTEE, common.Version(fork), genesis)
	return beacon.ComputeSigningRoot(att.root(), dom)
}

func c12In(xs []string, s string) bool {
	for _, x := range xs {
		if x == s {
			return true
		}
	}
	return false
}

// participants of committee ci under bits (nil if ill-typed)
func (g *c12Gen) participants(ci int, bits []byte) ([]int, bool) {
	cm := g.run.comms[ci]
	if len(cm.keys) != 512 || len(bits) < 64 {
		return nil, false
	}
	var out []int
	for i := 0; i < 512; i++ {
		if bits[i/8]>>(uint(i)%8)&1 == 1 {
			out = append(out, cm.keys[i])
		}
	}
	return out, true
}

func c12SameMultiset(a, b []int) bool {
	if len(a) != len(b) {
		return false
	}
	m := map[int]int{}
	for _, x := range a {
		m[x]++
	}
	for _, x := range b {
		m[x]--
		if m[x] < 0 {
			return false
		}
	}
	return true
}

var c12Scenarios = []string{
	"valid", "valid", "valid", "valid", "valid", "valid", "valid", "valid", "valid", "valid", "valid", "valid",
	"zero-bits", "future", "unordered-att", "unordered-fin", "period+2", "period-1", "period+1", "irrelevant", "irrelevant", "old-with-next",
	"fin-branch-node", "fin-header-field", "next-branch-node", "next-key", "sig-g0", "sig-g1", "sig-wrong-msg", "sig-wrong-fork",
	"sig-wrong-genesis", "signers-one-bit", "bit-flipped-after", "signers-other-committee", "att-field-after", "unpaired", "short-bits",
	"period+1-current-committee", "bad-key-others-sign", "bad-key-not-participating",
	"closing-update-of-previous-period", "rebootstrap", "same-header-inflated-bits", "same-header-other-subset", "same-header-garbage-sig",
}

// build the next step against the CURRENT store of the real client
func (g *c12Gen) nextStep() c12Step {
	r := g.c.Rng
	st := &g.run.client.Store
	fin := uint64(st.FinalizedHeader.Slot)
	P := fin / c12SPP
	nextKnown := st.NextSyncCommittee != nil
	sc := c12Scenarios[r.Intn(len(c12Scenarios))]
	if sc == "valid" && !nextKnown && fin+2 > P*c12SPP+c12SPP-1 {
		sc = "old-with-next" // the only way such a store can still advance
	}
	if g.forceSc != "" {
		sc = g.forceSc
	}
	if sc == "rebootstrap" && g.boot0 != nil {
		// Start() retries Sync() on the same client: bootstrap() again, with the original checkpoint, after whatever has been applied
		g.c.Count("scenario_rebootstrap")
		b := *g.boot0
		b.now = b.hdr.slot + uint64(r.Intn(1000))
		return c12Step{mode: 'B', boot: &b, next: -1, truth: "-"}
	}
	if strings.HasPrefix(sc, "same-header-") && g.run.lastOK != nil && len(g.run.lastOK.bits) == 64 {
		// the attested header, slots and signature of the last verified update again, with another bitmap or signature
		g.c.Count("scenario_" + sc)
		s := c12CloneStep(g.run.lastOK)
		s.force = false
		switch sc {
		case "same-header-inflated-bits":
			for i := range s.bits {
				s.bits[i] = 0xff
			}
		case "same-header-other-subset":
			nb := c12Popcount(s.bits)
			old := s.bits
			s.bits = c12RandBits(r, nb)
			if string(old) == string(s.bits) {
				s.bits[0] ^= 1
			}
		default:
			s.sig = c12Sig{kind: "g1"}
		}
		s.truth = g.truth(&s, "")
		return s
	}
	if sc == "rebootstrap" || strings.HasPrefix(sc, "same-header-") {
		sc = "valid"
	}
	g.c.Count("scenario_" + sc)

	var s c12Step
	s.mode = "UUUFFFOOGGG"[r.Intn(11)]
	if sc == "unpaired" || sc == "short-bits" {
		s.mode = 'G'
	}
	if g.forceMode != 0 {
		s.mode = g.forceMode
	}
	if c12In([]string{"next-branch-node", "next-key", "old-with-next", "closing-update-of-previous-period"}, sc) && s.mode != 'G' {
		s.mode = 'U'
	}
	if c12In([]string{"fin-branch-node", "fin-header-field", "unordered-fin"}, sc) && s.mode == 'O' {
		s.mode = 'F'
	}
	if s.mode != 'G' {
		s.wf = "acd"[r.Intn(3)]
		if g.forceWf != 0 {
			s.wf = g.forceWf
		} else if r.Intn(25) == 0 {
			s.wf = 'e'
		}
	}
	// ---- signature period and slots
	sigP := P
	switch {
	case sc == "period+2":
		sigP = P + 2
	case sc == "period-1" && P > 0:
		sigP = P - 1
	case sc == "period+1" || sc == "period+1-current-committee":
		sigP = P + 1
	case sc == "closing-update-of-previous-period":
		sigP = P
	case nextKnown && r.Intn(3) != 0:
		sigP = P + 1
	}
	lo, hi := sigP*c12SPP, sigP*c12SPP+c12SPP-1
	if sigP == P && fin+2 > lo && sc != "irrelevant" && sc != "old-with-next" {
		lo = fin + 2
		if lo > hi {
			lo = hi
		}
	}
	if lo < 2 {
		lo = 2
	}
	switch r.Intn(5) {
	case 0:
		s.sigSlot = lo
	case 1:
		s.sigSlot = hi
	case 2:
		s.sigSlot = lo + 1
	default:
		s.sigSlot = lo + uint64(r.Intn(int(hi-lo+1)))
	}
	attSlot := s.sigSlot - 1
	if r.Intn(3) == 0 && attSlot > fin+4 {
		attSlot -= uint64(r.Intn(4))
	}
	if sc == "irrelevant" || sc == "old-with-next" {
		// attested at or before the store's finalized header; signature slot stays in the store period
		attSlot = fin // the boundary: attested header AT the finalized slot
		if fin > 0 && r.Intn(3) == 0 {
			attSlot = fin - 1
		}
		s.sigSlot = attSlot + 1 + uint64(r.Intn(3))
	}
	if sc == "unordered-att" {
		attSlot = s.sigSlot + uint64(r.Intn(2))
	}
	if sc == "closing-update-of-previous-period" && P >= 1 {
		// the honest closing update of period P-1: attested in its LAST slot, signed in the FIRST slot of P by the committee of P,
		// carrying the next committee of the P-1 state (= the committee of P).  For a store finalized in P it is not relevant:
		// neither newer, nor does it supply the next committee of the STORE's period
		s.sigSlot = P * c12SPP
		attSlot = P*c12SPP - 1
	}
	s.att = g.randHdr(attSlot)
	// ---- finalized header
	hasFin := s.mode == 'U' || s.mode == 'F' || (s.mode == 'G' && r.Intn(3) != 0)
	if hasFin {
		var fs uint64
		switch k := r.Intn(8); {
		case k == 0:
			fs = attSlot // boundary: equal
		case k == 1:
			fs = fin + 1
		case k == 2:
			fs = fin // not newer
		case k == 3 && fin > 0:
			fs = fin - 1
		case attSlot >= 96:
			fs = attSlot - 64 - uint64(r.Intn(32))
			if k == 4 {
				fs -= fs % 32 // checkpoint slot
			}
		default:
			fs = attSlot / 2
		}
		if fs > attSlot {
			fs = attSlot
		}
		if sigP == P+1 && attSlot >= (P+1)*c12SPP && r.Intn(2) == 0 { // finalized header already in the next period: rotation
			fs = (P+1)*c12SPP + uint64(r.Intn(int(attSlot-(P+1)*c12SPP+1)))
		}
		if sc == "unordered-fin" {
			fs = attSlot + 1 + uint64(r.Intn(3))
		}
		h := g.randHdr(fs)
		s.fin = &h
	}
	// ---- next committee carried by the update: the honest chain's committee of attested period + 1
	s.next = -1
	if s.mode == 'U' || (s.mode == 'G' && (r.Intn(2) == 0 || sc == "old-with-next")) {
		s.next = g.commFor(attSlot/c12SPP + 1)
	}
	// ---- state tree under the attested header
	t := c12NewTree(r)
	if s.fin != nil {
		t.fixed[105] = s.fin.root()
	}
	if s.next >= 0 {
		t.fixed[55] = g.run.comms[s.next].root
	}
	s.att.state = t.node(1)
	if s.fin != nil {
		s.hasFBr, s.finBr = true, t.branch(105)
	}
	if s.next >= 0 {
		s.hasNBr, s.nextBr = true, t.branch(55)
	}
	// ---- participation
	nb := r.Pick([]int{1, 2, 170, 171, 256, 341, 341, 342, 342, 343, 511, 512, 512, 512, 400, 450, 1 + r.Intn(512), 342 + r.Intn(171)})
	if sc == "zero-bits" {
		nb = 0
	}
	s.bits = c12RandBits(r, nb)
	// ---- now
	s.now = s.sigSlot + uint64(r.Pick([]int{0, 0, 1, 7, 100000}))
	if sc == "future" {
		s.now = s.sigSlot - 1 - uint64(r.Intn(2))
	}
	// ---- fork version handed to the verification
	s.fork = [4]byte(g.run.spec.ForkVersion(common.Slot(s.sigSlot)))
	if s.mode == 'G' && r.Intn(3) == 0 {
		copy(s.fork[:], r.Bytes(4))
	}
	// ---- construction-time corruptions of proofs
	flags := ""
	switch sc {
	case "fin-branch-node":
		if s.fin != nil {
			s.finBr[r.Intn(6)][r.Intn(32)] ^= 1 << uint(r.Intn(8))
			flags += "B"
		}
	case "fin-header-field":
		if s.fin != nil {
			switch r.Intn(4) {
			case 0:
				if s.fin.slot > 0 && r.Bool() {
					s.fin.slot--
				} else if s.fin.slot < attSlot {
					s.fin.slot++
				} else {
					s.fin.proposer++
				}
			case 1:
				s.fin.proposer ^= 1
			case 2:
				s.fin.state[r.Intn(32)] ^= 0x80
			default:
				s.fin.body[0] ^= 1
			}
			flags += "B"
		}
	case "next-branch-node":
		if s.next >= 0 {
			s.nextBr[r.Intn(5)][r.Intn(32)] ^= 1 << uint(r.Intn(8))
			flags += "C"
		}
	case "next-key":
		if s.next >= 0 {
			k := append([]int{}, g.run.comms[s.next].keys...)
			i := r.Intn(512)
			k[i] = r.Pick([]int{(k[i] + 1) % c12NK, -1, -2})
			s.next = g.run.addComm(k)
			flags += "C"
		}
	case "unpaired":
		switch r.Intn(3) {
		case 0:
			if s.fin != nil {
				s.hasFBr, s.finBr = false, nil
			}
		case 1:
			if s.next >= 0 {
				s.hasNBr, s.nextBr = false, nil
			}
		default:
			if s.fin != nil {
				s.fin = nil
			} else if s.next >= 0 {
				s.next = -1
			}
		}
	}
	// ---- signature
	signer := g.commFor(sigP)
	// the store may hold a variant of the chain's committee (one altered key): sign with the chain's keys
	if sc == "period+1-current-committee" {
		// one period beyond the store's, signed by the committee the store holds as CURRENT: acceptable only to a store that
		// (wrongly) also keeps that committee as its next one
		if hi := g.run.idxOf(st.CurrentSyncCommittee); hi >= 0 {
			signer = hi
		}
	}
	if sc == "bad-key-others-sign" || sc == "bad-key-not-participating" {
		// the committee the store holds for the signature period has an undecodable / identity key: its bit is set (resp. cleared)
		// and the signature is the aggregate of all the OTHER participants
		held := st.CurrentSyncCommittee
		if sigP != P {
			held = st.NextSyncCommittee
		}
		if hi := g.run.idxOf(held); hi >= 0 && len(g.run.comms[hi].keys) == 512 && len(s.bits) == 64 {
			for i, k := range g.run.comms[hi].keys {
				if k < 0 {
					if sc == "bad-key-others-sign" {
						s.bits[i/8] |= 1 << (uint(i) % 8)
					} else {
						s.bits[i/8] &^= 1 << (uint(i) % 8)
					}
					signer = hi
				}
			}
		}
	}
	s.sig = c12Sig{kind: "s", comm: signer, bits: append([]byte{}, s.bits...)}
	s.sig.msg = g.signingRoot(&s.att, s.fork, g.run.genesis)
	switch sc {
	case "sig-g0":
		s.sig = c12Sig{kind: "g0"}
	case "sig-g1":
		s.sig = c12Sig{kind: "g1"}
	case "sig-wrong-msg":
		other := g.randHdr(attSlot)
		s.sig.msg = g.signingRoot(&other, s.fork, g.run.genesis)
	case "sig-wrong-fork":
		f := s.fork
		f[r.Intn(4)] ^= 1 << uint(r.Intn(8))
		s.sig.msg = g.signingRoot(&s.att, f, g.run.genesis)
	case "sig-wrong-genesis":
		gr := g.run.genesis
		gr[r.Intn(32)] ^= 1
		s.sig.msg = g.signingRoot(&s.att, s.fork, gr)
	case "signers-one-bit":
		i := r.Intn(512)
		s.sig.bits[i/8] ^= 1 << (uint(i) % 8)
	case "bit-flipped-after":
		i := r.Intn(512)
		s.bits[i/8] ^= 1 << (uint(i) % 8)
	case "signers-other-committee":
		s.sig.comm = g.commFor(sigP + 1 + uint64(r.Intn(2)))
	case "att-field-after":
		switch r.Intn(3) {
		case 0:
			s.att.proposer++
		case 1:
			s.att.body[5] ^= 2
		default:
			s.att.parent[31] ^= 1
		}
	case "short-bits":
		s.bits = s.bits[:r.Pick([]int{0, 1, 63})]
	}
	if r.Intn(12) == 0 {
		s.force = true
		g.c.Count("forced_apply")
	}
	s.truth = g.truth(&s, flags)
	return s
}

// the harness's own statement of what is wrong with a step, against the CURRENT store of the implementation
func (g *c12Gen) truth(s *c12Step, flags string) string {
	st := &g.run.client.Store
	fin := uint64(st.FinalizedHeader.Slot)
	P := fin / c12SPP
	nextKnown := st.NextSyncCommittee != nil
	t := flags
	if len(s.bits) != 64 {
		return "L"
	}
	if s.mode != 'G' && s.wf == 'e' {
		return "T" // a wire type none of the converters accepts: must be rejected whatever it carries
	}
	if (s.fin != nil) != s.hasFBr || (s.next >= 0) != s.hasNBr {
		t += "U"
	}
	if c12Popcount(s.bits) == 0 {
		t += "P"
	}
	if s.sigSlot > s.now {
		t += "F"
	}
	fs := uint64(0)
	if s.fin != nil {
		fs = s.fin.slot
	}
	if !(s.sigSlot > s.att.slot && s.att.slot >= fs) {
		t += "O"
	}
	sigP := s.sigSlot / c12SPP
	fits := sigP == P || (nextKnown && sigP == P+1)
	if !fits {
		t += "W"
	}
	if s.att.slot <= fin && !(!nextKnown && s.next >= 0 && s.att.slot/c12SPP == P) {
		t += "I"
	}
	// a proof built over the tree stays valid only if leaf, siblings and root were left alone afterwards
	if s.fin != nil && s.hasFBr && !strings.Contains(t, "B") {
		if !c12FoldOK(s.fin.root(), s.finBr, 105, s.att.state) {
			t += "B"
		}
	}
	if s.next >= 0 && s.hasNBr && !strings.Contains(t, "C") {
		if !c12FoldOK(g.run.comms[s.next].root, s.nextBr, 55, s.att.state) {
			t += "C"
		}
	}
	if s.sig.kind != "s" || s.sig.msg != g.signingRoot(&s.att, s.fork, g.run.genesis) {
		t += "S"
	} else if fits {
		held := st.CurrentSyncCommittee
		if sigP != P {
			held = st.NextSyncCommittee
		}
		hi := g.run.idxOf(held)
		var parts []int
		ok := false
		if hi >= 0 { // a store without the committee (only a broken implementation gets there) has no valid signer set
			parts, ok = g.participants(hi, s.bits)
		}
		signers, ok2 := g.participants(s.sig.comm, s.sig.bits)
		bad := !ok || !ok2
		for _, x := range parts {
			if x < 0 {
				bad = true
			}
		}
		var vs []int
		for _, x := range signers {
			if x >= 0 {
				vs = append(vs, x)
			}
		}
		if bad || !c12SameMultiset(parts, vs) {
			t += "K"
		}
	}
	if t == "" {
		return "-"
	}
	return t
}

func c12FoldOK(leaf [32]byte, br [][32]byte, gindex uint64, root [32]byte) bool {
	v := leaf
	for _, s := range br {
		if gindex&1 == 1 {
			v = hashing.Hash(append(append([]byte{}, s[:]...), v[:]...))
		} else {
			v = hashing.Hash(append(append([]byte{}, v[:]...), s[:]...))
		}
		gindex >>= 1
	}
	return v == root
}

// ---------------------------------------------------------------- histories

func (g *c12Gen) storeString() string {
	st := &g.run.client.Store
	idx := func(c *common.SyncCommittee) string {
		if c == nil {
			return "-"
		}
		if i := g.run.idxOf(c); i >= 0 {
			return strconv.Itoa(i)
		}
		panic("store committee not in table")
	}
	f, o := c12HdrOf(st.FinalizedHeader), c12HdrOf(st.OptimisticHeader)
	return fmt.Sprintf("%s/%s/%s/%s/%d/%d", f.String(), o.String(), idx(st.CurrentSyncCommittee), idx(st.NextSyncCommittee),
		uint64(st.PreviousMaxActiveParticipants), uint64(st.CurrentMaxActiveParticipants))
}

func (r *c12Runner) commsString() string {
	p := make([]string, len(r.comms))
	for i, c := range r.comms {
		p[i] = c.String()
	}
	return strings.Join(p, ",")
}

// bootstrap material: header whose state root commits to the committee at gindex 54 (depth 5 index 22), 6 branch nodes
type c12Boot struct {
	hdr        c12Hdr
	comm       int
	branch     [][32]byte
	execRoot   [32]byte
	execBrRoot [32]byte
	checkpoint [32]byte
	now        uint64
	maxAge     uint64
	strict     bool
	truth      string
}

func (r *c12Runner) realBoot(b *c12Boot) *electra.LightClientBootstrap {
	out := &electra.LightClientBootstrap{Header: deneb.LightClientHeader{Beacon: *b.hdr.real()}, CurrentSyncCommittee: *r.comms[b.comm].real}
	for i := 0; i < 6 && i < len(b.branch); i++ {
		out.CurrentSyncCommitteeBranch[i] = b.branch[i]
	}
	return out
}

func (r *c12Runner) execBoot(b *c12Boot) string {
	rb := r.realBoot(b)
	r.api.boot = rb
	r.client.InitialCheckpoint = b.checkpoint
	r.client.Config.MaxCheckpointAge = b.maxAge
	r.client.Config.StrictCheckpointAge = b.strict
	r.setNow(b.now)
	var err error
	if p, _ := guard(func() { err = r.client.VerifBootstrap() }); p {
		return "panic"
	}
	if err != nil {
		m := err.Error()
		switch {
		case strings.Contains(m, "too old"):
			return "err12"
		case strings.Contains(m, "does not match"):
			return "err10"
		case strings.Contains(m, "committee proof"):
			return "err11"
		}
		return "err99"
	}
	// bootstrap stores pointers into the bootstrap object; re-point the committee at the table entry so that later lookups by identity work
	r.client.Store.CurrentSyncCommittee = r.comms[b.comm].real
	return "ok " + r.digest()
}

func (g *c12Gen) mkBoot(slot uint64, comm int) *c12Boot {
	r := g.c.Rng
	b := &c12Boot{hdr: g.randHdr(slot), comm: comm, maxAge: 1_209_600}
	t := c12NewTree(r)
	t.fixed[54] = g.run.comms[comm].root
	b.hdr.state = t.node(1)
	b.branch = append(t.branch(54), [32]byte{}) // electra branch type has 6 nodes; the code folds 5
	copy(b.branch[5][:], r.Bytes(32))
	rb := g.run.realBoot(b)
	b.execRoot = rb.Header.Execution.HashTreeRoot(tree.GetHashFn())
	b.execBrRoot = rb.Header.ExecutionBranch.HashTreeRoot(tree.GetHashFn())
	b.checkpoint = rb.Header.HashTreeRoot(tree.GetHashFn())
	b.now = slot + uint64(r.Intn(1000))
	b.truth = "-"
	return b
}

func (b *c12Boot) line(r *c12Runner, obs string) string {
	st := "0"
	if b.strict {
		st = "1"
	}
	return fmt.Sprintf("boot %d %s %s %s %s %s %s %d %d %s %s | %s", r.keys.seed, hx(b.checkpoint[:]), b.hdr.String(), hx(b.execRoot[:]), hx(b.execBrRoot[:]),
		r.comms[b.comm].String(), c12Br(true, b.branch), b.now, b.maxAge, st, b.truth, obs)
}

func c12History(c *Ctx, keys *c12Keys, nsteps int) {
	r := c.Rng
	var gen common.Root
	copy(gen[:], r.Bytes(32))
	run := c12NewRunner(keys, gen)
	g := &c12Gen{c: c, run: run, chain: map[uint64]int{}}
	// start: bootstrap the real client at a random slot (period 0..6 so that the fork schedule matters)
	P0 := uint64(r.Intn(7))
	slot0 := P0*c12SPP + uint64(r.Pick([]int{0, 1, 4000, 8100, 8190, 8191, r.Intn(c12SPP), r.Intn(c12SPP), r.Intn(c12SPP), r.Intn(c12SPP), r.Intn(c12SPP)}))
	cur := g.commFor(P0)
	if r.Intn(8) == 0 { // the store holds a committee that differs from the chain's in one key
		k := append([]int{}, run.comms[cur].keys...)
		i := r.Intn(512)
		k[i] = r.Pick([]int{(k[i] + 7) % c12NK, -1, -2})
		cur = run.addComm(k)
		c.Count("store_committee_one_key_altered")
	}
	b := g.mkBoot(slot0, cur)
	g.boot0 = b
	if o := run.execBoot(b); !strings.HasPrefix(o, "ok") {
		panic("bootstrap of a history failed: " + o)
	}
	st := &run.client.Store
	// reachable variations of the bootstrapped store
	if r.Intn(3) == 0 {
		st.NextSyncCommittee = run.comms[g.commFor(P0+1)].real
		c.Count("start_next_known")
	}
	if r.Intn(3) == 0 {
		st.PreviousMaxActiveParticipants = view.Uint64View(r.Pick([]int{0, 1, 100, 341, 512, r.Intn(513)}))
		st.CurrentMaxActiveParticipants = view.Uint64View(r.Pick([]int{0, 1, 100, 341, 512, r.Intn(513)}))
		c.Count("start_max_participants_set")
	}
	if r.Intn(4) == 0 {
		h := g.randHdr(slot0 + 1 + uint64(r.Intn(100)))
		st.OptimisticHeader = h.real()
		c.Count("start_optimistic_ahead")
	}
	if r.Intn(25) == 0 { // ill-typed committee (not constructible by SSZ decoding): Pubkeys[i] is a checked index
		k := append([]int{}, run.comms[cur].keys[:r.Pick([]int{0, 1, 511})]...)
		st.CurrentSyncCommittee = run.comms[run.addComm(k)].real
		c.Count("start_short_committee")
	}
	store0 := g.storeString()
	var steps, truths []string
	obs := []string{run.digest()}
	for i := 0; i < nsteps; i++ {
		s := g.nextStep()
		if cc := run.client.Store.CurrentSyncCommittee; cc != nil && len(cc.Pubkeys) != 512 {
			s.truth = "L"
		}
		before := run.client.Store
		o := run.exec(&s)
		after := run.client.Store
		if after.CurrentSyncCommittee != before.CurrentSyncCommittee {
			c.Count("event_committee_rotated")
		}
		if before.NextSyncCommittee == nil && after.NextSyncCommittee != nil {
			c.Count("event_next_committee_learned")
		}
		if before.NextSyncCommittee != nil && after.NextSyncCommittee == nil {
			c.Count("event_next_committee_forgotten")
		}
		if after.FinalizedHeader.Slot != before.FinalizedHeader.Slot {
			c.Count("event_finalized_advanced")
			if uint64(after.FinalizedHeader.Slot)/c12SPP != uint64(before.FinalizedHeader.Slot)/c12SPP {
				c.Count("event_finalized_crossed_period")
			}
		}
		if after.OptimisticHeader.Slot != before.OptimisticHeader.Slot {
			c.Count("event_optimistic_advanced")
		}
		steps = append(steps, s.String())
		truths = append(truths, s.truth)
		obs = append(obs, o)
		c.Count("step_mode_" + strings.TrimRight(string(s.mode)+string(s.wf), "\x00"))
		c.Count("step_result_" + strings.SplitN(o, "/", 2)[0])
		if s.truth == "-" {
			c.Count("step_valid_by_construction")
		}
	}
	c.Emit("hist %d %s %s %s %s %s | ok %s", keys.seed, hx(gen[:]), run.commsString(), store0, strings.Join(steps, ";"), strings.Join(truths, ";"), strings.Join(obs, ";"))
}

// c12Matrix: every wire entry point (VerifyUpdate / VerifyFinalityUpdate / VerifyOptimisticUpdate + From*Update) for EVERY fork
// container type the converters accept, each with an honest input and with exactly one corrupted field; one history per fork,
// every step built against the current store and regenerated until the corruption is the ONLY thing wrong with it
// (harness truth exactly "-", "B", "C" or "S"), so the verdict hinges on that field alone.  Plus one history of foreign types.
var c12MatrixCases = []struct {
	mode byte
	sc   string
	want string
}{
	{'F', "fin-branch-node", "B"}, {'F', "fin-header-field", "B"}, {'U', "fin-branch-node", "B"}, {'U', "fin-header-field", "B"},
	{'U', "next-branch-node", "C"}, {'U', "next-key", "C"}, {'O', "att-field-after", "S"},
	{'O', "valid", "-"}, {'F', "valid", "-"}, {'U', "valid", "-"},
}

func c12Matrix(c *Ctx, keys *c12Keys) {
	r := c.Rng
	for _, wf := range []byte("acde") {
		var gen common.Root
		copy(gen[:], r.Bytes(32))
		run := c12NewRunner(keys, gen)
		g := &c12Gen{c: c, run: run, chain: map[uint64]int{}}
		P0 := uint64(r.Intn(7))
		slot0 := P0*c12SPP + uint64(100+r.Intn(c12SPP-2000))
		b := g.mkBoot(slot0, g.commFor(P0))
		if o := run.execBoot(b); !strings.HasPrefix(o, "ok") {
			panic("bootstrap of a matrix history failed: " + o)
		}
		store0 := g.storeString()
		var steps, truths []string
		obs := []string{run.digest()}
		for _, mc := range c12MatrixCases {
			g.forceSc, g.forceMode, g.forceWf = mc.sc, mc.mode, wf
			want := mc.want
			if wf == 'e' {
				want = "T"
			}
			var s c12Step
			ok := false
			for try := 0; try < 60 && !ok; try++ {
				s = g.nextStep()
				s.force = false
				ok = s.truth == want && c12Popcount(s.bits)*3 >= 1024
			}
			if !ok {
				c.Count(fmt.Sprintf("matrix_skipped_%c%c_%s", mc.mode, wf, mc.sc))
				continue
			}
			steps = append(steps, s.String())
			truths = append(truths, s.truth)
			obs = append(obs, run.exec(&s))
			c.Count(fmt.Sprintf("matrix_%c%c_%s", mc.mode, wf, mc.sc))
		}
		c.Emit("hist %d %s %s %s %s %s | ok %s", keys.seed, hx(gen[:]), run.commsString(), store0, strings.Join(steps, ";"), strings.Join(truths, ";"), strings.Join(obs, ";"))
	}
}

// c12Scripts: two stateful shapes that random histories reach too rarely.
//
//	A. a store that knows its next committee is rotated by a FINALITY-ONLY update (no next committee on the wire), then receives
//	   updates one further period ahead signed by the committee it now holds as current: the period rule must reject them, and
//	   the store must show no next committee after the rotation.
//	B. the store's committee has one undecodable (resp. identity) key: an update whose bitmap claims that member while the
//	   aggregate is signed by all the others must be rejected; with that member's bit cleared the same update is valid.
func c12Scripts(c *Ctx, keys *c12Keys) {
	r := c.Rng
	build := func(g *c12Gen, sc string, mode byte, accept func(s *c12Step) bool) (c12Step, bool) {
		g.forceSc, g.forceMode, g.forceWf = sc, mode, "acd"[r.Intn(3)]
		var s c12Step
		for try := 0; try < 200; try++ {
			s = g.nextStep()
			s.force = false
			if accept(&s) {
				return s, true
			}
		}
		return s, false
	}
	start := func(alter int) (*c12Gen, *c12Runner, uint64, common.Root) {
		var gen common.Root
		copy(gen[:], r.Bytes(32))
		run := c12NewRunner(keys, gen)
		g := &c12Gen{c: c, run: run, chain: map[uint64]int{}}
		P0 := uint64(r.Intn(7))
		slot0 := P0*c12SPP + uint64(100+r.Intn(c12SPP-3000))
		if alter == 1 { // a committee with many repeated members (small validator sets produce them)
			off := r.Intn(c12NK)
			ks := make([]int, 512)
			for i := range ks {
				ks[i] = (off + i%(64+r.Intn(64))) % c12NK
			}
			g.chain[P0] = run.addComm(ks)
		}
		cur := g.commFor(P0)
		if alter < 0 {
			k := append([]int{}, run.comms[cur].keys...)
			k[r.Intn(512)] = alter
			cur = run.addComm(k)
		}
		g.boot0 = g.mkBoot(slot0, cur)
		if o := run.execBoot(g.boot0); !strings.HasPrefix(o, "ok") {
			panic("bootstrap of a scripted history failed: " + o)
		}
		return g, run, P0, gen
	}
	emit := func(g *c12Gen, run *c12Runner, gen common.Root, store0 string, steps, truths, obs []string) {
		c.Emit("hist %d %s %s %s %s %s | ok %s", keys.seed, hx(gen[:]), run.commsString(), store0, strings.Join(steps, ";"), strings.Join(truths, ";"), strings.Join(obs, ";"))
	}
	// ---- A
	{
		g, run, P0, gen := start(0)
		run.client.Store.NextSyncCommittee = run.comms[g.commFor(P0+1)].real
		store0 := g.storeString()
		obs := []string{run.digest()}
		var steps, truths []string
		add := func(s c12Step, tag string) {
			steps = append(steps, s.String())
			truths = append(truths, s.truth)
			obs = append(obs, run.exec(&s))
			c.Count("script_" + tag)
		}
		// signature slot = first slot of the next period, attested header = last slot of the store period: the committee is chosen
		// by the SIGNATURE period (the next committee signs)
		if bd, ok := build(g, "valid", 'O', func(s *c12Step) bool {
			return s.truth == "-" && s.sigSlot == (P0+1)*c12SPP && s.att.slot/c12SPP == P0
		}); ok {
			add(bd, "signature_period_boundary")
		}
		rot, ok := build(g, "valid", 'F', func(s *c12Step) bool {
			return s.truth == "-" && s.sigSlot/c12SPP == P0+1 && s.fin != nil && s.fin.slot/c12SPP == P0+1 && c12Popcount(s.bits)*3 >= 1024
		})
		if ok {
			add(rot, "rotation_by_finality_update")
			for _, m := range []byte("OFU") {
				nx, _ := build(g, "period+1-current-committee", m, func(s *c12Step) bool {
					return c12Popcount(s.bits)*3 >= 1024 && s.sigSlot <= s.now && !strings.ContainsAny(s.truth, "PFOIBCSUL")
				})
				add(nx, "two_periods_ahead_"+string(m))
			}
		}
		emit(g, run, gen, store0, steps, truths, obs)
	}
	// ---- C: several committee hand-overs in a row (learn the next committee, then three rotations by full updates, each
	// carrying the following committee), then a finality update in the last period: the chain of the history theorem
	{
		g, run, _, gen := start(0)
		store0 := g.storeString()
		obs := []string{run.digest()}
		var steps, truths []string
		add := func(s c12Step, tag string) {
			steps = append(steps, s.String())
			truths = append(truths, s.truth)
			obs = append(obs, run.exec(&s))
			c.Count("script_" + tag)
		}
		period := func() uint64 { return uint64(run.client.Store.FinalizedHeader.Slot) / c12SPP }
		if lr, ok := build(g, "valid", 'U', func(s *c12Step) bool {
			return s.truth == "-" && c12Popcount(s.bits)*3 >= 1024 && s.fin != nil && s.fin.slot > uint64(run.client.Store.FinalizedHeader.Slot)
		}); ok {
			add(lr, "learn_next_committee")
		}
		for k := 0; k < 3 && run.client.Store.NextSyncCommittee != nil; k++ {
			P := period()
			rot, ok := build(g, "valid", 'U', func(s *c12Step) bool {
				return s.truth == "-" && s.sigSlot/c12SPP == P+1 && s.fin != nil && s.fin.slot/c12SPP == P+1 && c12Popcount(s.bits)*3 >= 1024
			})
			if !ok {
				break
			}
			add(rot, "handover_by_full_update")
		}
		if fu, ok := build(g, "valid", 'F', func(s *c12Step) bool { return s.truth == "-" && c12Popcount(s.bits)*3 >= 1024 }); ok {
			add(fu, "finality_after_handovers")
		}
		// a verified two-thirds update whose finalized header is OLDER than the store's: the finalized header must stay
		if ou, ok := build(g, "valid", 'F', func(s *c12Step) bool {
			return s.truth == "-" && c12Popcount(s.bits)*3 >= 1024 && s.fin != nil && s.fin.slot < uint64(run.client.Store.FinalizedHeader.Slot)
		}); ok {
			add(ou, "older_finalized_header")
		}
		emit(g, run, gen, store0, steps, truths, obs)
	}
	// ---- E: bootstrap, learn the next committee (and advance), bootstrap AGAIN on the same client with the original checkpoint
	// (Start() retries Sync()), then updates for the next period signed by the committee the first run had learnt: the store
	// after the second bootstrap is the fresh bootstrap store, so they must be rejected for their period
	{
		g, run, P0, gen := start(0)
		store0 := g.storeString()
		obs := []string{run.digest()}
		var steps, truths []string
		add := func(s c12Step, tag string) {
			steps = append(steps, s.String())
			truths = append(truths, s.truth)
			obs = append(obs, run.exec(&s))
			c.Count("script_" + tag)
		}
		if lr, ok := build(g, "valid", 'U', func(s *c12Step) bool {
			return s.truth == "-" && c12Popcount(s.bits)*3 >= 1024 && s.fin != nil && s.fin.slot > uint64(run.client.Store.FinalizedHeader.Slot)
		}); ok {
			add(lr, "learn_next_before_rebootstrap")
		}
		// advance inside the period (a rotation by a finality update would clear the next committee again)
		if fu, ok := build(g, "valid", 'F', func(s *c12Step) bool {
			return s.truth == "-" && c12Popcount(s.bits)*3 >= 1024 && s.fin != nil && s.fin.slot/c12SPP == P0
		}); ok {
			add(fu, "advance_before_rebootstrap")
		}
		rb, _ := build(g, "rebootstrap", 'O', func(s *c12Step) bool { return s.mode == 'B' })
		add(rb, "rebootstrap")
		for _, m := range []byte("OF") {
			nx, _ := build(g, "period+1", m, func(s *c12Step) bool {
				return c12Popcount(s.bits)*3 >= 1024 && s.sigSlot <= s.now && !strings.ContainsAny(s.truth, "PFOIBCSULK")
			})
			add(nx, "next_period_after_rebootstrap_"+string(m))
		}
		if v, ok := build(g, "valid", 'O', func(s *c12Step) bool { return s.truth == "-" }); ok {
			add(v, "valid_after_rebootstrap")
		}
		emit(g, run, gen, store0, steps, truths, obs)
	}
	// ---- F: the verdict is a function of the update and the store only: after an honest update for a header H (fewer than two
	// thirds of the members), the SAME header and signature with all 512 bits set, with another subset of the same size, and with
	// a garbage signature must each be rejected - on the same client, in sequence
	for _, m := range []byte("OF") {
		g, run, _, gen := start(0)
		store0 := g.storeString()
		obs := []string{run.digest()}
		var steps, truths []string
		first, ok := build(g, "valid", m, func(s *c12Step) bool {
			n := c12Popcount(s.bits)
			newer := s.fin == nil || s.fin.slot > uint64(run.client.Store.FinalizedHeader.Slot) // a finality update that WOULD advance with two thirds
			return s.truth == "-" && n >= 100 && n <= 340 && newer
		})
		if !ok {
			continue
		}
		steps, truths, obs = append(steps, first.String()), append(truths, first.truth), append(obs, run.exec(&first))
		for _, sc := range []string{"same-header-inflated-bits", "same-header-other-subset", "same-header-garbage-sig"} {
			s, _ := build(g, sc, m, func(s *c12Step) bool { return true })
			steps, truths, obs = append(steps, s.String()), append(truths, s.truth), append(obs, run.exec(&s))
			c.Count("script_" + sc + "_" + string(m))
		}
		emit(g, run, gen, store0, steps, truths, obs)
	}
	// ---- G: a store freshly bootstrapped in period P >= 1 (no next committee) receives the closing update of period P-1
	// (attested in the last slot of P-1, signed in the first slot of P, two thirds, valid branches, carrying the committee of P
	// as "next"): not relevant - accepting it would install the committee of P as the NEXT committee.  Then updates for P+1
	// signed by the committee of P, which only such a store would take.
	{
		var g *c12Gen
		var run *c12Runner
		var P0 uint64
		var gen common.Root
		for {
			if g, run, P0, gen = start(0); P0 >= 1 {
				break
			}
		}
		store0 := g.storeString()
		obs := []string{run.digest()}
		var steps, truths []string
		add := func(s c12Step, tag string) {
			steps = append(steps, s.String())
			truths = append(truths, s.truth)
			obs = append(obs, run.exec(&s))
			c.Count("script_" + tag)
		}
		cl, _ := build(g, "closing-update-of-previous-period", 'U', func(s *c12Step) bool {
			return s.truth == "I" && c12Popcount(s.bits)*3 >= 1024 && s.sigSlot == P0*c12SPP && s.att.slot == P0*c12SPP-1
		})
		add(cl, "closing_update_of_previous_period")
		for _, m := range []byte("OF") {
			nx, _ := build(g, "period+1-current-committee", m, func(s *c12Step) bool {
				return c12Popcount(s.bits)*3 >= 1024 && s.sigSlot <= s.now && !strings.ContainsAny(s.truth, "PFOIBCSUL")
			})
			add(nx, "next_period_by_current_committee_"+string(m))
		}
		if v, ok := build(g, "valid", 'U', func(s *c12Step) bool { return s.truth == "-" && c12Popcount(s.bits)*3 >= 1024 }); ok {
			add(v, "valid_after_closing_update")
		}
		emit(g, run, gen, store0, steps, truths, obs)
	}
	// ---- D: a committee with repeated members: every occurrence of a member counts and signs
	{
		g, run, _, gen := start(1)
		store0 := g.storeString()
		obs := []string{run.digest()}
		var steps, truths []string
		for _, m := range []byte("OFU") {
			s, ok := build(g, "valid", m, func(s *c12Step) bool { return s.truth == "-" && c12Popcount(s.bits) >= 300 })
			if !ok {
				continue
			}
			steps = append(steps, s.String())
			truths = append(truths, s.truth)
			obs = append(obs, run.exec(&s))
			c.Count("script_repeated_members_" + string(m))
		}
		emit(g, run, gen, store0, steps, truths, obs)
	}
	// ---- B
	for _, alter := range []int{-2, -1} {
		g, run, _, gen := start(alter)
		store0 := g.storeString()
		obs := []string{run.digest()}
		var steps, truths []string
		for _, sc := range []string{"bad-key-others-sign", "bad-key-not-participating", "bad-key-others-sign"} {
			want := "K"
			if sc == "bad-key-not-participating" {
				want = "-"
			}
			s, _ := build(g, sc, "UFO"[r.Intn(3)], func(s *c12Step) bool { return s.truth == want && c12Popcount(s.bits)*3 >= 1024 })
			steps = append(steps, s.String())
			truths = append(truths, s.truth)
			obs = append(obs, run.exec(&s))
			c.Count(fmt.Sprintf("script_%s_%d", sc, alter))
		}
		emit(g, run, gen, store0, steps, truths, obs)
	}
}

// c12Clock: expectedCurrentSlot() against the model's expected_current_slot, through the genesis time (the wall clock is read by
// the code; delta = now - genesis is chosen 5 s into a slot so that the reading cannot straddle a slot boundary)
func c12Clock(c *Ctx, keys *c12Keys) {
	r := c.Rng
	run := c12NewRunner(keys, common.Root{})
	ds := []int64{5, 17, 12*8191 + 5, 12*8192 + 5, 12*32 + 5, -1, -100000, 0}
	for i := 0; i < 6; i++ {
		ds = append(ds, int64(r.Intn(1<<26))*12+5) // below the wall clock, the genesis time is a uint64
	}
	for _, d := range ds {
		run.client.Config.Chain.GenesisTime = uint64(time.Now().Unix() - d)
		c.Emit("ecs %d | ok %d", d, uint64(run.client.VerifExpectedCurrentSlot()))
		c.Count("clock_cases")
	}
}

func c12BootCases(c *Ctx, keys *c12Keys, n int) {
	r := c.Rng
	for i := 0; i < n; i++ {
		run := c12NewRunner(keys, common.Root{})
		g := &c12Gen{c: c, run: run, chain: map[uint64]int{}}
		slot := uint64(r.Intn(20)) * c12SPP / 3
		b := g.mkBoot(slot, g.commFor(slot/c12SPP))
		kind := r.Pick([]int{0, 0, 1, 2, 3, 4, 5, 6})
		if i == n-1 {
			kind = 7
		}
		c.Count(fmt.Sprintf("boot_kind_%d", kind))
		switch kind {
		case 1:
			b.checkpoint[r.Intn(32)] ^= 1
			b.truth = "H"
		case 2: // the trusted root is the beacon block root, as the specification has it: the code compares the container root
			b.checkpoint = b.hdr.root()
			b.truth = "X"
		case 3:
			b.branch[r.Intn(5)][r.Intn(32)] ^= 4
			b.truth = "C"
		case 7: // a genuine ELECTRA state: 64 leaves, the committee at generalized index 86 (depth 6 index 22), fields 44 and 45 absent
			// (zero chunks under generalized index 54, the position the code checks), honest 6-node branch: the code cannot accept it
			t := c12NewTree(r)
			t.fixed[86] = run.comms[b.comm].root
			t.fixed[108], t.fixed[109] = [32]byte{}, [32]byte{}
			b.hdr.state = t.node(1)
			b.branch = t.branch(86)
			b.checkpoint = run.realBoot(b).Header.HashTreeRoot(tree.GetHashFn())
			b.truth = "X"
		case 4: // sixth node is never read
			b.branch[5][0] ^= 1
		case 5:
			b.strict = true
			b.now = slot + 1_209_600/12 + uint64(r.Pick([]int{0, 1, 2, 1000}))
			b.maxAge = 1_209_600
			b.truth = "A"
			if (b.now-slot)*12 < b.maxAge {
				b.truth = "-"
			}
		case 6:
			b.strict = r.Bool()
			b.now = slot + 1_209_600/12 - 1
		}
		c.Emit("%s", b.line(run, run.execBoot(b)))
	}
}

// ---------------------------------------------------------------- replay

func c12ParseComms(keys *c12Keys, run *c12Runner, f string) {
	for _, cs := range strings.Split(f, ",") {
		q := strings.SplitN(cs, ":", 2)
		var ks []int
		if q[1] != "_" {
			for _, t := range strings.Split(q[1], ".") {
				switch t {
				case "i":
					ks = append(ks, -1)
				case "x":
					ks = append(ks, -2)
				default:
					v, _ := strconv.Atoi(t)
					ks = append(ks, v)
				}
			}
		}
		run.addComm(ks)
	}
}

func c12Replay(c *Ctx, lines []string) {
	for _, ln := range lines {
		f := strings.Fields(strings.SplitN(ln, "|", 2)[0])
		if len(f) < 2 {
			continue
		}
		seed, _ := strconv.ParseUint(f[1], 10, 64)
		keys := c12GenKeys(seed)
		switch f[0] {
		case "hist":
			var gen common.Root
			copy(gen[:], unhx(f[2]))
			run := c12NewRunner(keys, gen)
			c12ParseComms(keys, run, f[3])
			sp := strings.Split(f[4], "/")
			fh, oh := c12ParseHdr(sp[0]), c12ParseHdr(sp[1])
			ci, _ := strconv.Atoi(sp[2])
			st := &run.client.Store
			st.FinalizedHeader, st.OptimisticHeader = fh.real(), oh.real()
			st.CurrentSyncCommittee = run.comms[ci].real
			if sp[3] != "-" {
				ni, _ := strconv.Atoi(sp[3])
				st.NextSyncCommittee = run.comms[ni].real
			}
			pm, _ := strconv.ParseUint(sp[4], 10, 64)
			cm, _ := strconv.ParseUint(sp[5], 10, 64)
			st.PreviousMaxActiveParticipants, st.CurrentMaxActiveParticipants = view.Uint64View(pm), view.Uint64View(cm)
			obs := []string{run.digest()}
			for _, ss := range strings.Split(f[5], ";") {
				s := c12ParseStep(ss)
				obs = append(obs, run.exec(&s))
			}
			c.Emit("%s | ok %s", strings.Join(f, " "), strings.Join(obs, ";"))
		case "boot":
			run := c12NewRunner(keys, common.Root{})
			c12ParseComms(keys, run, f[6])
			b := &c12Boot{hdr: c12ParseHdr(f[3]), comm: 0}
			copy(b.checkpoint[:], unhx(f[2]))
			_, b.branch = c12ParseBr(f[7])
			b.now, _ = strconv.ParseUint(f[8], 10, 64)
			b.maxAge, _ = strconv.ParseUint(f[9], 10, 64)
			b.strict = f[10] == "1"
			c.Emit("%s | %s", strings.Join(f, " "), run.execBoot(b))
		}
	}
}

func runC12(c *Ctx) {
	if len(c.Args) >= 2 && c.Args[0] == "replay" {
		c12Replay(c, readReplayCases(c.Args[1]))
		return
	}
	keys := c12GenKeys(c.Seed)
	nh, steps, nb := 10, 8, 12
	if c.Tier == "thorough" {
		nh, steps, nb = 150, 14, 150
	}
	if c.N > 0 {
		nh = c.N
	}
	c12BootCases(c, keys, nb)
	c12Clock(c, keys)
	c12Matrix(c, keys)
	c12Scripts(c, keys)
	for i := 0; i < nh; i++ {
		c12History(c, keys, steps+c.Rng.Intn(5))
	}
}
