//go:build vwire || vall

package main

import "github.com/zen-eth/shisui/portalwire"

func init() {
	registry["constgen_wire"] = func(c *Ctx) {
		vs := []uint64{}
		for _, v := range portalwire.VerifVersions() {
			vs = append(vs, uint64(v))
		}
		emitConsts(c, "wire", portalwire.VerifConstantsWire(), map[string][]uint64{"Versions": vs})
	}
}
