//go:build c14 || all

package main

// C14, third part: the fork-digest dispatch of the beacon Forked* wrappers (types/beacon/types.go).
// The zrnt payload codecs are opaque: for every input the harness also asks the library itself, once per candidate
// payload type, whether it accepts the bytes after the digest (the "oracle" field); the model only has to get the
// digest handling and the choice of the payload type right.
//
//	decf <W> <hex> <o0,o1,..> | ok <digest>/<k>/<payload>  / err / panic      o_k, payload: '=' same bytes as the input rest, 'E' rejected, else hex
//	encf <W> <digest> <k> <payloadhex> | ok <hex> / err
//	rtf  <W> <digest> <k> <payloadhex> | <decf observable of the encoding>

import (
	"bytes"
	"fmt"
	"reflect"
	"strconv"
	"strings"

	"github.com/protolambda/zrnt/eth2/beacon/altair"
	"github.com/protolambda/zrnt/eth2/beacon/capella"
	"github.com/protolambda/zrnt/eth2/beacon/common"
	"github.com/protolambda/zrnt/eth2/beacon/deneb"
	"github.com/protolambda/zrnt/eth2/beacon/electra"
	"github.com/protolambda/zrnt/eth2/configs"
	"github.com/protolambda/ztyp/codec"
	tbeacon "github.com/zen-eth/shisui/types/beacon"
)

var c14spec = configs.Mainnet

type c14wrap struct {
	name  string
	cands []func() common.SpecObj
	ser   func(d common.ForkDigest, p common.SpecObj, w *codec.EncodingWriter) error
	des   func(dr *codec.DecodingReader) (common.ForkDigest, common.SpecObj, error)
}

var c14wraps = []*c14wrap{
	{name: "ForkedBootstrap",
		cands: []func() common.SpecObj{
			func() common.SpecObj { return &altair.LightClientBootstrap{} }, func() common.SpecObj { return &capella.LightClientBootstrap{} },
			func() common.SpecObj { return &deneb.LightClientBootstrap{} }, func() common.SpecObj { return &electra.LightClientBootstrap{} }},
		ser: func(d common.ForkDigest, p common.SpecObj, w *codec.EncodingWriter) error {
			return (&tbeacon.ForkedLightClientBootstrap{ForkDigest: d, Bootstrap: p}).Serialize(c14spec, w)
		},
		des: func(dr *codec.DecodingReader) (common.ForkDigest, common.SpecObj, error) {
			var v tbeacon.ForkedLightClientBootstrap
			err := v.Deserialize(c14spec, dr)
			return v.ForkDigest, v.Bootstrap, err
		}},
	{name: "ForkedUpdate",
		cands: []func() common.SpecObj{
			func() common.SpecObj { return &altair.LightClientUpdate{} }, func() common.SpecObj { return &capella.LightClientUpdate{} },
			func() common.SpecObj { return &deneb.LightClientUpdate{} }, func() common.SpecObj { return &electra.LightClientUpdate{} }},
		ser: func(d common.ForkDigest, p common.SpecObj, w *codec.EncodingWriter) error {
			return (&tbeacon.ForkedLightClientUpdate{ForkDigest: d, LightClientUpdate: p}).Serialize(c14spec, w)
		},
		des: func(dr *codec.DecodingReader) (common.ForkDigest, common.SpecObj, error) {
			var v tbeacon.ForkedLightClientUpdate
			err := v.Deserialize(c14spec, dr)
			return v.ForkDigest, v.LightClientUpdate, err
		}},
	{name: "ForkedFinality",
		cands: []func() common.SpecObj{
			func() common.SpecObj { return &altair.LightClientFinalityUpdate{} }, func() common.SpecObj { return &capella.LightClientFinalityUpdate{} },
			func() common.SpecObj { return &deneb.LightClientFinalityUpdate{} }, func() common.SpecObj { return &electra.LightClientFinalityUpdate{} }},
		ser: func(d common.ForkDigest, p common.SpecObj, w *codec.EncodingWriter) error {
			return (&tbeacon.ForkedLightClientFinalityUpdate{ForkDigest: d, LightClientFinalityUpdate: p}).Serialize(c14spec, w)
		},
		des: func(dr *codec.DecodingReader) (common.ForkDigest, common.SpecObj, error) {
			var v tbeacon.ForkedLightClientFinalityUpdate
			err := v.Deserialize(c14spec, dr)
			return v.ForkDigest, v.LightClientFinalityUpdate, err
		}},
	{name: "ForkedOptimistic",
		cands: []func() common.SpecObj{
			func() common.SpecObj { return &altair.LightClientOptimisticUpdate{} }, func() common.SpecObj { return &capella.LightClientOptimisticUpdate{} },
			func() common.SpecObj { return &deneb.LightClientOptimisticUpdate{} }},
		ser: func(d common.ForkDigest, p common.SpecObj, w *codec.EncodingWriter) error {
			return (&tbeacon.ForkedLightClientOptimisticUpdate{ForkDigest: d, LightClientOptimisticUpdate: p}).Serialize(c14spec, w)
		},
		des: func(dr *codec.DecodingReader) (common.ForkDigest, common.SpecObj, error) {
			var v tbeacon.ForkedLightClientOptimisticUpdate
			err := v.Deserialize(c14spec, dr)
			return v.ForkDigest, v.LightClientOptimisticUpdate, err
		}},
	{name: "ForkedHistSummaries",
		cands: []func() common.SpecObj{func() common.SpecObj { return &tbeacon.HistoricalSummariesWithProof{} }},
		ser: func(d common.ForkDigest, p common.SpecObj, w *codec.EncodingWriter) error {
			return (&tbeacon.ForkedHistoricalSummariesWithProof{ForkDigest: d, HistoricalSummariesWithProof: *(p.(*tbeacon.HistoricalSummariesWithProof))}).Serialize(c14spec, w)
		},
		des: func(dr *codec.DecodingReader) (common.ForkDigest, common.SpecObj, error) {
			var v tbeacon.ForkedHistoricalSummariesWithProof
			err := v.Deserialize(c14spec, dr)
			return v.ForkDigest, &v.HistoricalSummariesWithProof, err
		}},
}

func c14wrapFind(name string) *c14wrap {
	for _, w := range c14wraps {
		if w.name == name {
			return w
		}
	}
	return nil
}

// c14fill gives the fixed-length parts of a zrnt object their required lengths (sync committee keys and bits),
// so that the zero object serialises to bytes the same type decodes.
func c14fill(v reflect.Value, r *Rng) {
	switch v.Kind() {
	case reflect.Ptr:
		if !v.IsNil() {
			c14fill(v.Elem(), r)
		}
	case reflect.Struct:
		for i := 0; i < v.NumField(); i++ {
			if v.Field(i).CanSet() {
				c14fill(v.Field(i), r)
			}
		}
	case reflect.Slice:
		t := v.Type()
		switch {
		case t.Elem() == reflect.TypeOf(common.BLSPubkey{}):
			v.Set(reflect.MakeSlice(t, int(c14spec.SYNC_COMMITTEE_SIZE), int(c14spec.SYNC_COMMITTEE_SIZE)))
		case t.Name() == "SyncCommitteeBits":
			v.Set(reflect.MakeSlice(t, int(c14spec.SYNC_COMMITTEE_SIZE)/8, int(c14spec.SYNC_COMMITTEE_SIZE)/8))
		}
	case reflect.Uint64:
		if r != nil && r.Intn(3) == 0 {
			v.SetUint(r.U64() >> 20)
		}
	case reflect.Array:
		if r != nil && v.Type().Elem().Kind() == reflect.Uint8 && v.Len() == 32 && r.Intn(4) == 0 {
			reflect.Copy(v, reflect.ValueOf(r.Bytes(32)))
		}
	}
}

func c14payloadBytes(p common.SpecObj) ([]byte, error) {
	var buf bytes.Buffer
	err := p.Serialize(c14spec, codec.NewEncodingWriter(&buf))
	return buf.Bytes(), err
}

// c14asType asks the library whether `rest` decodes as candidate k; returns the re-serialisation.
func c14asType(w *c14wrap, k int, rest []byte) (obj common.SpecObj, reser []byte, ok bool) {
	obj = w.cands[k]()
	var err error
	if p, _ := guard(func() {
		err = obj.Deserialize(c14spec, codec.NewDecodingReader(bytes.NewReader(rest), uint64(len(rest))))
	}); p || err != nil {
		return nil, nil, false
	}
	reser, err = c14payloadBytes(obj)
	if err != nil {
		return nil, nil, false
	}
	return obj, reser, true
}

func c14relHex(b, rest []byte) string {
	if bytes.Equal(b, rest) {
		return "="
	}
	return hx(b)
}

func c14decf(c *Ctx, w *c14wrap, data []byte) string {
	var d common.ForkDigest
	var p common.SpecObj
	var err error
	if pn, msg := guard(func() {
		d, p, err = w.des(codec.NewDecodingReader(bytes.NewReader(data), uint64(len(data))))
	}); pn {
		return "panic " + msg
	}
	if err != nil {
		return "err 1"
	}
	k := -1
	for i, mk := range w.cands {
		if reflect.TypeOf(mk()) == reflect.TypeOf(p) {
			k = i
		}
	}
	pb, err := c14payloadBytes(p)
	if err != nil {
		return "err 2"
	}
	return fmt.Sprintf("ok %s/%d/%s", hx(d[:]), k, c14relHex(pb, data[min(4, len(data)):]))
}

func c14decfLine(c *Ctx, kind string, w *c14wrap, data []byte, prefix string) {
	oracle := make([]string, len(w.cands))
	for k := range w.cands {
		oracle[k] = "E"
		if len(data) >= 4 {
			if _, reser, ok := c14asType(w, k, data[4:]); ok {
				oracle[k] = c14relHex(reser, data[4:])
			}
		}
	}
	obs := c14decf(c, w, data)
	c.Count("forked_" + w.name + "_" + kind + "_" + obs[:2])
	if prefix == "" {
		c.Emit("decf %s %s %s | %s", w.name, hx(data), strings.Join(oracle, ","), obs)
	} else {
		c.Emit("%s %s | %s", prefix, strings.Join(oracle, ","), obs)
	}
}

func c14encf(c *Ctx, w *c14wrap, digest []byte, k int, payload []byte) {
	obj, _, ok := c14asType(w, k, payload)
	if !ok {
		return
	}
	var d common.ForkDigest
	copy(d[:], digest)
	var buf bytes.Buffer
	var err error
	if pn, msg := guard(func() { err = w.ser(d, obj, codec.NewEncodingWriter(&buf)) }); pn {
		c.Emit("encf %s %s %d %s | panic %s", w.name, hx(digest), k, hx(payload), msg)
		return
	}
	if err != nil {
		c.Emit("encf %s %s %d %s | err", w.name, hx(digest), k, hx(payload))
		return
	}
	c.Emit("encf %s %s %d %s | ok %s", w.name, hx(digest), k, hx(payload), hx(buf.Bytes()))
	c14decfLine(c, "rt", w, buf.Bytes(), fmt.Sprintf("rtf %s %s %d %s", w.name, hx(digest), k, hx(payload)))
}

func c14forkedConsts(c *Ctx) {
	c.Emit("const digest_Bellatrix | ok %s", hx(tbeacon.Bellatrix[:]))
	c.Emit("const digest_Capella | ok %s", hx(tbeacon.Capella[:]))
	c.Emit("const digest_Deneb | ok %s", hx(tbeacon.Deneb[:]))
	c.Emit("const digest_Electra | ok %s", hx(tbeacon.Electra[:]))
}

func c14forked(c *Ctx) {
	r := c.Rng
	c14forkedConsts(c)
	digests := [][]byte{tbeacon.Bellatrix[:], tbeacon.Capella[:], tbeacon.Deneb[:], tbeacon.Electra[:],
		{0xff, 0xff, 0xff, 0xff}, {0, 0, 0, 1}, {0xbb, 0xa4, 0xda, 0x97}, r.Bytes(4)}
	rounds := 1
	if c.Tier == "thorough" {
		rounds = 6
	}
	for _, w := range c14wraps {
		for round := 0; round < rounds; round++ {
			// one valid payload per candidate type (zero object with the fixed-length parts sized, some fields randomised)
			payloads := make([][]byte, len(w.cands))
			for k, mk := range w.cands {
				obj := mk()
				c14fill(reflect.ValueOf(obj), r)
				b, err := c14payloadBytes(obj)
				if _, _, ok := c14asType(w, k, b); err != nil || !ok {
					c.Count("forked_" + w.name + "_payload_not_constructible")
					continue
				}
				payloads[k] = b
			}
			for k, pb := range payloads {
				if pb == nil {
					continue
				}
				for _, d := range digests {
					c.Count("forked_" + w.name + "_value")
					c14encf(c, w, d, k, pb) // enc + round trip (matching and mismatching digest / payload type)
				}
				// byte strings around one valid encoding
				enc := append(cp(tbeacon.Capella[:]), pb...)
				if k < 4 {
					enc = append(cp(digests[k]), pb...)
				}
				for _, m := range [][]byte{enc[:len(enc)-1], append(cp(enc), 0), enc[:4], enc[:3], enc[:5], {}, append(cp(enc[:4]), r.Bytes(40)...)} {
					c14decfLine(c, "bytes", w, m, "")
				}
				for i := 0; i < 3; i++ {
					m := cp(enc)
					m[r.Intn(len(m))] ^= byte(1 << r.Intn(8))
					c14decfLine(c, "bytes", w, m, "")
				}
				m := cp(enc)
				m[r.Intn(4)] ^= byte(1 << r.Intn(8)) // flip a digest bit
				c14decfLine(c, "bytes", w, m, "")
			}
		}
	}
}

func c14forkedReplay(c *Ctx, f []string) bool {
	switch f[0] {
	case "decf":
		if w := c14wrapFind(f[1]); w != nil && len(f) >= 3 {
			c14decfLine(c, "replay", w, unhx(f[2]), "")
		}
		return true
	case "encf", "rtf":
		if w := c14wrapFind(f[1]); w != nil && len(f) >= 5 {
			k, _ := strconv.Atoi(f[3])
			c14encf(c, w, unhx(f[2]), k, unhx(f[4]))
		}
		return true
	}
	return false
}
