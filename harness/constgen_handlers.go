//go:build vhandlers || vall

package main

import "github.com/zen-eth/shisui/portalwire"

func init() {
	registry["constgen_handlers"] = func(c *Ctx) {
		m, l := portalwire.VerifHConstants()
		emitConsts(c, "handlers", m, l)
	}
}
