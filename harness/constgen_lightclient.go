//go:build vlightclient || vall

package main

import "github.com/zen-eth/shisui/beacon"

func init() {
	registry["constgen_lightclient"] = func(c *Ctx) {
		emitConsts(c, "lightclient", beacon.VerifConstantsLightClient(), nil)
	}
}
