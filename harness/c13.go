//go:build c13 || all

package main

import (
	"bytes"
	"crypto/sha256"
	"errors"
	"fmt"
	"os"
	"path/filepath"
	"regexp"
	"sort"
	"strings"
	"sync"
	"time"

	"github.com/ethereum/go-ethereum/common"
	"github.com/ethereum/go-ethereum/common/hexutil"
	"github.com/ethereum/go-ethereum/core/rawdb"
	"github.com/ethereum/go-ethereum/core/types"
	"github.com/ethereum/go-ethereum/crypto"
	"github.com/ethereum/go-ethereum/rlp"
	gtrie "github.com/ethereum/go-ethereum/trie"
	"github.com/ethereum/go-ethereum/triedb"
	"github.com/holiman/uint256"
	"github.com/protolambda/zrnt/eth2/beacon/capella"
	zcommon "github.com/protolambda/zrnt/eth2/beacon/common"
	"github.com/protolambda/ztyp/codec"
	"github.com/zen-eth/shisui/state"
	strie "github.com/zen-eth/shisui/state/trie"
	"github.com/zen-eth/shisui/storage"
	"github.com/zen-eth/shisui/types/history"
)

// C13: state content is accepted only with a hash-linked proof down to the state root.
//
// Lines (fields contain no spaces; bytes = hex, empty = "-"; list of byte strings = comma separated, empty = "."):
//
//	trv <node> <dump|E> <path> | ok <ref> <rest> / err / panic <msg>
//	    direct call of trie.TraverseTrieNode on the decoded node (dump = neutral dump of the decoded node, E = undecodable)
//	val <tag> <kind> <oracle> <blockhash> <addrhash> <path> <keyhash> <code> <codekeccak> <acctproof> <mainproof> <tbl> <accts> | v:<r> p:<r>
//	    kind = atn | csn | cbc ; oracle = state root the header source returns for <blockhash>, or ! (header source errors)
//	    path = one byte per nibble ; tbl = <keccak>~<dump>;... one entry per node of acctproof++mainproof in order
//	    accts = <leaf value>~<storage root>~<code hash>;...  (results of types.FullAccount on every value in the account proof; others fail)
//	    v = ok | err | panic:<msg> of StateValidator.ValidateContent ; p = ok:<stored bytes> | err | panic:<msg> of Storage.Put on a fresh in-memory store
//	    k = keccak of the stored payload (stored bytes minus the 4-byte SSZ offset), - if nothing was stored
//	raw <key> <content> | v:<r> p:<r>      content key / content that the SSZ layer rejects (never reaches the trie code)
//	nib <bytes> | ok <nibbles> / err       Nibbles.Deserialize
//	hist <n> <step>@... | <obs>@...@S:<store>   a sequence of items on ONE validator and ONE storage (see c13hist); a step has a
//	    15th field 1 = the backing store's Put fails during this step (observable p:ok-store-failed)
//	conc <step a>@<step b> | v:<a>@v:<b>        two OVERLAPPING ValidateContent calls on one validator (see c13conc)
func init() { registry["C13"] = runC13 }

// ---------------------------------------------------------------- oracle

type c13Oracle struct {
	roots map[string][]byte // block hash -> state root ; absent = error
}

func (o *c13Oracle) GetHistoricalSummaries(epoch uint64) (capella.HistoricalSummaries, error) {
	return nil, errors.New("not used")
}
func (o *c13Oracle) GetFinalizedStateRoot() ([]byte, error) { return nil, errors.New("not used") }
func (o *c13Oracle) GetBlockHeaderByHash(hash []byte) (*types.Header, error) {
	r, ok := o.roots[string(hash)]
	if !ok {
		return nil, errors.New("unknown block")
	}
	return &types.Header{Root: common.BytesToHash(r)}, nil
}

// ---------------------------------------------------------------- case = decoded pieces

type c13case struct {
	storeFail bool // histories: the backing store's Put fails during this step
	tag       string
	kind      string // atn csn cbc
	oracle    []byte // nil = header source fails
	blockHash []byte // 32
	addrHash  []byte // 32 (csn, cbc)
	path      []byte // nibbles (atn, csn)
	keyHash   []byte // 32: node hash / code hash
	code      []byte // cbc
	acctProof [][]byte
	mainProof [][]byte
}

func (k *c13case) clone() *c13case {
	c := *k
	c.oracle = append([]byte(nil), k.oracle...)
	if k.oracle == nil {
		c.oracle = nil
	}
	c.blockHash = append([]byte{}, k.blockHash...)
	c.addrHash = append([]byte{}, k.addrHash...)
	c.path = append([]byte{}, k.path...)
	c.keyHash = append([]byte{}, k.keyHash...)
	c.code = append([]byte{}, k.code...)
	c.acctProof = cloneList(k.acctProof)
	c.mainProof = cloneList(k.mainProof)
	return &c
}
func cloneList(l [][]byte) [][]byte {
	o := make([][]byte, len(l))
	for i := range l {
		o[i] = append([]byte{}, l[i]...)
	}
	return o
}

func b32(b []byte) (o zcommon.Bytes32) { copy(o[:], b); return }

func toProof(l [][]byte) state.TrieProof {
	p := make(state.TrieProof, len(l))
	for i := range l {
		p[i] = state.EncodedTrieNode(l[i])
	}
	return p
}

func sszBytes(f func(w *codec.EncodingWriter) error) []byte {
	var buf bytes.Buffer
	if err := f(codec.NewEncodingWriter(&buf)); err != nil {
		panic(err)
	}
	return buf.Bytes()
}

// serialize builds the wire content key and content value of a case.
func (k *c13case) serialize() (key, content []byte) {
	switch k.kind {
	case "atn":
		ck := &state.AccountTrieNodeKey{Path: state.Nibbles{Nibbles: k.path}, NodeHash: b32(k.keyHash)}
		cv := &state.AccountTrieNodeWithProof{Proof: toProof(k.mainProof), BlockHash: b32(k.blockHash)}
		return append([]byte{state.AccountTrieNodeType}, sszBytes(ck.Serialize)...), sszBytes(cv.Serialize)
	case "csn":
		ck := &state.ContractStorageTrieNodeKey{AddressHash: b32(k.addrHash), Path: state.Nibbles{Nibbles: k.path}, NodeHash: b32(k.keyHash)}
		cv := &state.ContractStorageTrieNodeWithProof{StorageProof: toProof(k.mainProof), AccountProof: toProof(k.acctProof), BlockHash: b32(k.blockHash)}
		return append([]byte{state.ContractStorageTrieNodeType}, sszBytes(ck.Serialize)...), sszBytes(cv.Serialize)
	default:
		ck := &state.ContractBytecodeKey{AddressHash: b32(k.addrHash), CodeHash: b32(k.keyHash)}
		cv := &state.ContractBytecodeWithProof{Code: state.ContractByteCode(k.code), AccountProof: toProof(k.acctProof), BlockHash: b32(k.blockHash)}
		return append([]byte{state.ContractByteCodeType}, sszBytes(ck.Serialize)...), sszBytes(cv.Serialize)
	}
}

func nibhex(p []byte) string { return hx(p) }

var c13dumpCache = map[string]string{}

func c13dump(node []byte) string {
	if d, ok := c13dumpCache[string(node)]; ok {
		return d
	}
	d, err := strie.VerifDumpNode(node)
	if err != nil {
		d = "E"
	}
	if len(c13dumpCache) > 20000 {
		c13dumpCache = map[string]string{}
	}
	c13dumpCache[string(node)] = d
	return d
}

var reValue = regexp.MustCompile(`V([0-9a-f]*)`)

// c13exec runs the real validator and the real state storage on the case and emits its line.
func c13exec(c *Ctx, k *c13case) {
	key, content := k.serialize()
	// the pieces that are printed (and handed to the model) are the ones the repository's own SSZ decoders produce
	d := c13decode(key, content)
	if d == nil {
		c.Count("val_ssz_rejected")
		c13raw(c, key, content)
		return
	}
	d.tag, d.oracle = k.tag, k.oracle
	if k.kind != "cbc" && !bytes.Equal(d.path, k.path) {
		d.tag += "/path-changed-by-ssz"
	}
	c13emit(c, d, key, content)
}

// c13wire runs arbitrary wire bytes: if the repository's SSZ decoders accept them the line carries the decoded pieces
// (what the trie code sees), otherwise it is a raw line.
func c13wire(c *Ctx, tag string, oracle []byte, key, content []byte) {
	d := c13decode(key, content)
	if d == nil {
		c13raw(c, key, content)
		return
	}
	d.tag, d.oracle = tag, oracle
	c13emit(c, d, key, content)
}

func c13emit(c *Ctx, k *c13case, key, content []byte) {
	v, p, kk := c13run(k.blockHash, k.oracle, key, content)
	c.Count("val_" + k.kind)
	c.Count("val_v_" + strings.SplitN(v, ":", 2)[0])
	c.Count("tag_" + strings.SplitN(k.tag, "/", 2)[0])
	c.Emit("val %s | v:%s p:%s k:%s", strings.Join(c13fields(k), " "), v, p, kk)
}

// c13fields renders the 13 fields of a case (see the header comment): the decoded pieces plus, for every proof node, its
// keccak and its decoded form, and the FullAccount result of every leaf value in the account proof.
func c13fields(k *c13case) []string {
	var tbl []string
	accts := map[string]string{}
	for _, n := range k.acctProof {
		d := c13dump(n)
		tbl = append(tbl, hx(crypto.Keccak256(n))+"~"+d)
		for _, m := range reValue.FindAllStringSubmatch(d, -1) {
			val := unhxe(m[1])
			if acc, err := types.FullAccount(val); err == nil {
				accts[m[1]] = hx(val) + "~" + hx(acc.Root[:]) + "~" + hx(acc.CodeHash)
			}
		}
	}
	for _, n := range k.mainProof {
		tbl = append(tbl, hx(crypto.Keccak256(n))+"~"+c13dump(n))
	}
	al := make([]string, 0, len(accts))
	for _, s := range accts {
		al = append(al, s)
	}
	sort.Strings(al)
	oracle := "!"
	if k.oracle != nil {
		oracle = hx(k.oracle)
	}
	codek := "-"
	if k.kind == "cbc" {
		codek = hx(crypto.Keccak256(k.code))
	}
	join := func(l []string) string {
		if len(l) == 0 {
			return "."
		}
		return strings.Join(l, ";")
	}
	return []string{k.tag, k.kind, oracle, hx(k.blockHash), hx(k.addrHash), nibhex(k.path), hx(k.keyHash), hx(k.code), codek,
		hxl(k.acctProof), hxl(k.mainProof), join(tbl), join(al)}
}

// ---------------------------------------------------------------- histories on ONE validator and ONE storage

// scripted header source: before every step the harness installs the answer for that step
type c13Scripted struct{ cur *c13Oracle }

func (o *c13Scripted) GetHistoricalSummaries(epoch uint64) (capella.HistoricalSummaries, error) {
	return nil, errors.New("not used")
}
func (o *c13Scripted) GetFinalizedStateRoot() ([]byte, error) { return nil, errors.New("not used") }
func (o *c13Scripted) GetBlockHeaderByHash(hash []byte) (*types.Header, error) {
	return o.cur.GetBlockHeaderByHash(hash)
}

// c13hist drives one StateValidator and one state Storage through the steps (ValidateContent, then Put iff it returned
// nil, as state/network.go validateContents does) and emits one line:
//
//	hist <n> <step>@<step>@... | <obs>@<obs>@...@S:<id>~<value>;...
//	step = the 13 val fields + the content id, joined by ^ ; the oracle field is the header source's answer DURING that
//	step (root served for the step's block hash, ! = the lookup fails) ; obs = v:<r>,p:<r or -> ; S = final store, sorted
func c13hist(c *Ctx, steps []*c13case) {
	script := &c13Scripted{}
	val := state.NewStateValidator(script)
	mock := storage.NewMockStorage()
	faulty := &c13FaultStore{ContentStorage: mock}
	st := state.NewStateStorage(faulty, nil)
	var fs, obs []string
	for _, k0 := range steps {
		key, content := k0.serialize()
		k := c13decode(key, content)
		if k == nil {
			continue // the SSZ layer rejects it: not a step of the trie-level history
		}
		k.tag, k.oracle = strings.ReplaceAll(k0.tag, "/", "_"), k0.oracle
		script.cur = &c13Oracle{roots: map[string][]byte{}}
		if k.oracle != nil {
			script.cur.roots[string(k.blockHash)] = k.oracle
		}
		id := sha256.Sum256(key)
		var err error
		v, p, kk := "ok", "-", "-"
		if pn, msg := guard(func() { err = val.ValidateContent(key, content) }); pn {
			v = "panic:" + msg
		} else if err != nil {
			v = "err"
		}
		sf := "0"
		if k0.storeFail {
			sf = "1"
		}
		if v == "ok" {
			faulty.failNext = k0.storeFail
			faulty.failed = false
			if pn, msg := guard(func() { err = st.Put(key, id[:], content) }); pn {
				p = "panic:" + msg
			} else if err != nil {
				p = "err"
			} else if faulty.failed {
				p = "ok-store-failed" // state.Storage.Put logs the store's error and returns nil
			} else if got, ok := mock.(*storage.MockStorage).Db[string(id[:])]; ok {
				p = "ok:" + hx(got)
				kk = c13storedHash(got)
			} else {
				p = "ok:NOTHING-UNDER-CONTENT-ID"
			}
		}
		c.Count("hist_step_" + strings.SplitN(k.tag, "_", 2)[0])
		c.Count("hist_v_" + strings.SplitN(v, ":", 2)[0])
		faulty.failNext = false
		if k0.storeFail {
			c.Count("hist_store_fault")
		}
		fs = append(fs, strings.Join(append(c13fields(k), hx(id[:]), sf), "^"))
		obs = append(obs, "v:"+v+",p:"+p+",k:"+kk)
	}
	if len(fs) == 0 {
		return
	}
	var final []string
	for id, v := range mock.(*storage.MockStorage).Db {
		final = append(final, hx([]byte(id))+"~"+hx(v))
	}
	sort.Strings(final)
	fin := "."
	if len(final) > 0 {
		fin = strings.Join(final, ";")
	}
	c.Count("hist")
	c.Count(fmt.Sprintf("hist_len_%d", len(fs)))
	c.Emit("hist %d %s | %s@S:%s", len(fs), strings.Join(fs, "@"), strings.Join(obs, "@"), fin)
}

// backing store whose next Put can be made to fail (scripted store fault)
type c13FaultStore struct {
	storage.ContentStorage
	failNext, failed bool
}

func (f *c13FaultStore) Put(contentKey []byte, contentId []byte, content []byte) error {
	if f.failNext {
		f.failNext, f.failed = false, true
		return storage.ErrInsufficientRadius
	}
	return f.ContentStorage.Put(contentKey, contentId, content)
}

// ---------------------------------------------------------------- overlapping calls on ONE validator

// header source whose FIRST lookup announces itself and waits for the gate (bounded), as in harness/c03.go
type c13Gated struct {
	mu      sync.Mutex
	roots   map[string][]byte
	calls   int
	entered chan struct{}
	gate    chan struct{}
}

func (o *c13Gated) GetHistoricalSummaries(epoch uint64) (capella.HistoricalSummaries, error) {
	return nil, errors.New("not used")
}
func (o *c13Gated) GetFinalizedStateRoot() ([]byte, error) { return nil, errors.New("not used") }
func (o *c13Gated) GetBlockHeaderByHash(hash []byte) (*types.Header, error) {
	o.mu.Lock()
	o.calls++
	first := o.calls == 1
	o.mu.Unlock()
	if first {
		close(o.entered)
		select {
		case <-o.gate:
		case <-time.After(150 * time.Millisecond):
		}
	}
	r, ok := o.roots[string(hash)]
	if !ok {
		return nil, errors.New("unknown block")
	}
	return &types.Header{Root: common.BytesToHash(r)}, nil
}

// c13conc validates item a and item b on ONE validator with OVERLAPPING calls: a runs in a goroutine and waits inside its
// header lookup until b has been validated completely.  Line:
//
//	conc <step a>@<step b> | v:<a>@v:<b>         (step = the 13 val fields joined by ^)
//
// Each verdict must be the verdict of that item alone (C13_history_step_independent: a function of the item and of the
// header answer).
func c13conc(c *Ctx, a0, b0 *c13case) {
	ka, ca := a0.serialize()
	kb, cb := b0.serialize()
	a, b := c13decode(ka, ca), c13decode(kb, cb)
	if a == nil || b == nil {
		return
	}
	a.tag, a.oracle, b.tag, b.oracle = a0.tag, a0.oracle, b0.tag, b0.oracle
	if bytes.Equal(a.blockHash, b.blockHash) && !bytes.Equal(a.oracle, b.oracle) {
		return // one header source cannot give two answers for one hash
	}
	o := &c13Gated{roots: map[string][]byte{}, entered: make(chan struct{}), gate: make(chan struct{})}
	if a.oracle != nil {
		o.roots[string(a.blockHash)] = a.oracle
	}
	if b.oracle != nil {
		o.roots[string(b.blockHash)] = b.oracle
	}
	val := state.NewStateValidator(o)
	run := func(key, content []byte) string {
		var err error
		if pn, msg := guard(func() { err = val.ValidateContent(key, content) }); pn {
			return "panic:" + msg
		} else if err != nil {
			return "err"
		}
		return "ok"
	}
	done := make(chan string, 1)
	go func() { done <- run(ka, ca) }()
	va, finished := "", false
	select {
	case <-o.entered: // a is inside its header lookup
	case va = <-done: // a returned without a lookup
		finished = true
		o.mu.Lock()
		o.calls++ // b's lookup must not be taken for the first one
		o.mu.Unlock()
	case <-time.After(2 * time.Second):
	}
	vb := run(kb, cb)
	close(o.gate)
	if !finished {
		va = <-done
	}
	c.Count("conc")
	c.Count("conc_a_" + strings.SplitN(va, ":", 2)[0])
	c.Emit("conc %s@%s | v:%s@v:%s", strings.Join(c13fields(a), "^"), strings.Join(c13fields(b), "^"), va, vb)
}

// c13concurrent: pairs over one world.  a = a storage-node / bytecode item whose KEY names account X while its content is
// the (genuine) account + storage proof of contract Y; b = an honest item of Y.  Also honest/honest pairs (both accepted).
func c13concurrent(c *Ctx, r *Rng, n int) {
	for done := 0; done < n; {
		w := c13makeWorld(r, 3+r.Intn(20), 2+r.Intn(2), 1+r.Intn(6))
		var perContract [][]*c13case
		for _, ct := range w.contracts {
			ap := w.accountProof(ct.addrHash)
			l := []*c13case{{tag: "honest", kind: "cbc", oracle: w.acct.root, blockHash: w.blockHash, addrHash: ct.addrHash, keyHash: keccak(ct.code),
				code: ct.code, acctProof: ap}}
			for _, p := range ct.storage.paths {
				pr := ct.storage.proof(p)
				l = append(l, &c13case{tag: "honest", kind: "csn", oracle: w.acct.root, blockHash: w.blockHash, addrHash: ct.addrHash, path: []byte(p),
					keyHash: keccak(pr[len(pr)-1]), acctProof: ap, mainProof: pr})
			}
			perContract = append(perContract, l)
		}
		for rep := 0; rep < 12 && done < n; rep++ {
			y := r.Intn(len(perContract))
			x := (y + 1 + r.Intn(len(perContract)-1)) % len(perContract)
			b := perContract[y][r.Intn(len(perContract[y]))].clone()
			a := perContract[y][r.Intn(len(perContract[y]))].clone()
			switch r.Intn(4) {
			case 0: // honest item of X overlapping an honest item of Y
				a = perContract[x][r.Intn(len(perContract[x]))].clone()
				a.tag = "conc-honest-other-contract"
			case 1: // the same contract twice
				a.tag = "conc-honest-same-contract"
			default: // Y's proofs under a key that names X (another contract, or some other account)
				a.tag = "conc-foreign-address"
				if r.Bool() {
					a.addrHash = w.contracts[x].addrHash
				} else {
					a.addrHash = w.acct.keys[r.Intn(len(w.acct.keys))]
					if bytes.Equal(a.addrHash, b.addrHash) {
						a.addrHash = w.contracts[x].addrHash
					}
				}
			}
			c13conc(c, a, b)
			done++
		}
	}
}

// ---------------------------------------------------------------- non-canonical compact (hex-prefix) flags

// c13reflag re-encodes the top-level short node proof[i] with the NON-CANONICAL flag nibble f (4..15; its low bit is
// forced to the parity of the key so that the key nibbles stay the same), then re-hashes the chain upwards by replacing
// the child hash in every parent, so the proof stays hash-linked.  Returns the new proof and the hash of its first node,
// or nil if proof[i] is not a top-level short node / the chain is not hash-linked there.
func c13reflag(r *Rng, proof [][]byte, i int, f byte) ([][]byte, []byte) {
	content, _, err := rlp.SplitList(proof[i])
	if err != nil {
		return nil, nil
	}
	if cnt, _ := rlp.CountValues(content); cnt != 2 {
		return nil, nil
	}
	kbuf, rest, err := rlp.SplitString(content)
	if err != nil || len(kbuf) == 0 {
		return nil, nil
	}
	odd := (kbuf[0] >> 4) & 1
	nk := append([]byte{}, kbuf...)
	fl := (f &^ 1) | odd
	if odd == 1 {
		nk[0] = fl<<4 | kbuf[0]&15
	} else {
		nk[0] = fl << 4
		if r.Intn(4) == 0 {
			nk[0] |= byte(r.Intn(16)) // the padding nibble of an even key is ignored by compactToHex
		}
	}
	out := cloneList(proof)
	out[i] = rlpList(nk, rlp.RawValue(rest))
	oldH, newH := keccak(proof[i]), keccak(out[i])
	for j := i - 1; j >= 0; j-- {
		if !bytes.Contains(out[j], oldH) {
			return nil, nil
		}
		prev := keccak(out[j])
		out[j] = bytes.Replace(out[j], oldH, newH, 1)
		oldH, newH = prev, keccak(out[j])
	}
	return out, keccak(out[0])
}

// positions of top-level short nodes in a proof
func c13shortPositions(proof [][]byte) []int {
	var out []int
	for i, n := range proof {
		if strings.HasPrefix(c13dump(n), "S") {
			out = append(out, i)
		}
	}
	return out
}

// c13reflagCases: variants of a (valid) account-trie-node case with one short node of the main proof re-flagged.
// all = every flag 4..15, otherwise one random flag.  Positions: every short node (last and inner).
func c13reflagCases(r *Rng, k *c13case, all bool) []*c13case {
	var out []*c13case
	sel := &k.mainProof
	if k.kind != "atn" {
		sel = &k.acctProof
	}
	for _, i := range c13shortPositions(*sel) {
		flags := []byte{byte(4 + r.Intn(12))}
		if all {
			flags = []byte{4, 5, 6, 7, 8, 9, 10, 11, 12, 13, 14, 15}
		}
		for _, f := range flags {
			np, root := c13reflag(r, *sel, i, f)
			if np == nil {
				continue
			}
			c := k.clone()
			pos := "inner"
			if i == len(*sel)-1 {
				pos = "last"
			}
			c.tag = fmt.Sprintf("reflag-%s-f%d", pos, f)
			c.oracle = root
			if k.kind == "atn" {
				c.mainProof = np
				c.keyHash = keccak(np[len(np)-1])
			} else {
				c.acctProof = np
			}
			out = append(out, c)
		}
	}
	return out
}

// c13reflagged: (a) storage-style tries (short keys: many extensions) used as account tries: every node directly below an
// extension and every leaf as the target, with the extension / the leaf re-flagged - the target below an extension leaves
// exactly the extension's key as the remaining path at that extension; (b) synthetic chains that continue through a leaf
// value, the leaf re-flagged (a short node holding a 32-byte string, at an inner position, key = remaining path);
// (c) bytecode items whose account proof has a re-flagged node.
func c13reflagged(c *Ctx, r *Rng, ntries int) {
	for t := 0; t < ntries; t++ {
		tr := c13storageTrie(r, 2+r.Intn(40))
		bh := r.Bytes(32)
		budget := 10
		for _, p := range tr.paths {
			pr := tr.proof(p)
			if len(c13shortPositions(pr)) == 0 || len(p) > 64 {
				continue
			}
			k := &c13case{tag: "honest", kind: "atn", oracle: tr.root, blockHash: bh, addrHash: make([]byte, 32), path: []byte(p),
				keyHash: keccak(pr[len(pr)-1]), mainProof: pr}
			all := budget > 0 && r.Intn(3) == 0
			if all {
				budget--
			}
			for _, v := range c13reflagCases(r, k, all) {
				c13exec(c, v)
				if r.Intn(6) == 0 {
					c13exec(c, c13mutate(r, v, nil))
				}
			}
		}
	}
	for i := 0; i < 12*ntries; i++ {
		k := c13synthetic(r, 1+r.Intn(4), true)
		for _, v := range c13reflagCases(r, k, i%4 == 0) {
			c13exec(c, v)
		}
	}
	for i := 0; i < 4*ntries; i++ {
		k := c13synAccount(r)
		for _, v := range c13reflagCases(r, k, i%4 == 0) {
			c13exec(c, v)
		}
	}
}

type c13wrongCode struct {
	tag  string
	code []byte
}

// codes that do not hash to the key of a contract with code `code`
func c13wrongCodes(r *Rng, code []byte, w *c13world) []c13wrongCode {
	var out []c13wrongCode
	add := func(tag string, b []byte) {
		if !bytes.Equal(b, code) {
			out = append(out, c13wrongCode{tag, b})
		}
	}
	add("code-empty", []byte{})
	add("code-1byte", r.Bytes(1))
	add("code-1byte-zero", []byte{0})
	if len(code) > 0 {
		add("code-truncated", code[:len(code)-1])
		add("code-first-byte", code[:1])
		add("code-bitflip", flipBit(r, code))
	}
	add("code-extended", append(append([]byte{}, code...), 0))
	add("code-random", r.Bytes(1+r.Intn(64)))
	for _, o := range w.contracts {
		add("code-of-other-contract", o.code)
	}
	return out
}

// honest items of a world, as candidates for history steps
func (w *c13world) candidates(r *Rng, max int) []*c13case {
	var out []*c13case
	for _, p := range w.acct.paths {
		pr := w.acct.proof(p)
		out = append(out, &c13case{tag: "honest", kind: "atn", oracle: w.acct.root, blockHash: w.blockHash, addrHash: make([]byte, 32), path: []byte(p),
			keyHash: keccak(pr[len(pr)-1]), mainProof: pr})
	}
	for _, ct := range w.contracts {
		ap := w.accountProof(ct.addrHash)
		out = append(out, &c13case{tag: "honest", kind: "cbc", oracle: w.acct.root, blockHash: w.blockHash, addrHash: ct.addrHash, keyHash: keccak(ct.code),
			code: ct.code, acctProof: ap})
		for _, p := range ct.storage.paths {
			pr := ct.storage.proof(p)
			out = append(out, &c13case{tag: "honest", kind: "csn", oracle: w.acct.root, blockHash: w.blockHash, addrHash: ct.addrHash, path: []byte(p),
				keyHash: keccak(pr[len(pr)-1]), acctProof: ap, mainProof: pr})
		}
	}
	for len(out) > max {
		i := r.Intn(len(out))
		out[i] = out[len(out)-1]
		out = out[:len(out)-1]
	}
	return out
}

// c13histories: sequences of 3..8 items over three blocks A/B/C on one validator, the header source scripted per step:
// serve by hash / fail this lookup / serve another block's header; honest, foreign (another block's proof under this
// block's hash) and mutated items; the same block hash is often repeated right after a failed lookup.
func c13histories(c *Ctx, r *Rng, n int) {
	var ws []*c13world
	var cands [][]*c13case
	for i := 0; i < 3; i++ {
		w := c13makeWorld(r, 2+r.Intn(30), 1+r.Intn(2), 1+r.Intn(10))
		ws = append(ws, w)
		cands = append(cands, w.candidates(r, 60))
	}
	pick := func(x int) *c13case { return cands[x][r.Intn(len(cands[x]))].clone() }
	other := func(x int) int { return (x + 1 + r.Intn(2)) % 3 }
	foreign := func(x int) *c13case { // content of another block, naming block x; the header source serves x's real header
		k := pick(other(x))
		k.tag, k.blockHash, k.oracle = "hist-foreign-proof", ws[x].blockHash, ws[x].acct.root
		return k
	}
	failing := func(x int) *c13case {
		k := pick(x)
		k.tag, k.oracle = "hist-lookup-fails", nil
		return k
	}
	// directed: A accepted, lookup for B fails, then items naming B (a proof rooted at A, then genuine B content)
	for a := 0; a < 3; a++ {
		for rep := 0; rep < 3; rep++ {
			b := other(a)
			fa := pick(a)
			fb := pick(a)
			fb.tag, fb.blockHash, fb.oracle = "hist-foreign-proof", ws[b].blockHash, ws[b].acct.root
			c13hist(c, []*c13case{fa, failing(b), fb, pick(b), pick(a)})
		}
	}
	for h := 0; h < n; h++ {
		ln := 3 + r.Intn(6)
		var steps []*c13case
		x := r.Intn(3)
		for i := 0; i < ln; i++ {
			if i > 0 && r.Bool() {
				x = r.Intn(3)
			}
			var k *c13case
			switch q := r.Intn(20); {
			case q < 7:
				k = pick(x)
			case q < 11:
				k = failing(x)
			case q < 14:
				k = foreign(x)
			case q < 16: // another block's header is served for this hash: the genuine item no longer fits
				k = pick(x)
				k.tag, k.oracle = "hist-wrong-header", ws[other(x)].acct.root
			case q < 18: // another block's header AND that block's content under this hash: fits the served header
				y := other(x)
				k = pick(y)
				k.tag, k.blockHash = "hist-wrong-header-matching", ws[x].blockHash
			default:
				k = c13mutate(r, pick(x), nil)
			}
			if k.kind == "cbc" && k.tag == "honest" && r.Intn(3) == 0 {
				wc := c13wrongCodes(r, k.code, ws[x])
				j := r.Intn(len(wc))
				if r.Bool() {
					j = r.Intn(3) % len(wc) // empty / 1-byte most of the time
				}
				k.tag, k.code = wc[j].tag, wc[j].code
			}
			if r.Intn(6) == 0 {
				k.storeFail = true
			}
			steps = append(steps, k)
		}
		c13hist(c, steps)
	}
	// directed: accepted items, one of them hitting a failing backing store, followed by further accepted items
	for i := 0; i < 12; i++ {
		x := r.Intn(3)
		steps := []*c13case{pick(x), pick(x), pick(other(x)), pick(x), pick(x)}
		steps[1+r.Intn(2)].storeFail = true
		c13hist(c, steps)
	}
}

func unhxe(s string) []byte {
	if s == "" {
		return []byte{}
	}
	return unhx(s)
}

func c13run(blockHash, oracleRoot, key, content []byte) (v, p, kk string) {
	kk = "-"
	o := &c13Oracle{roots: map[string][]byte{}}
	if oracleRoot != nil {
		o.roots[string(blockHash)] = oracleRoot
	}
	val := state.NewStateValidator(o)
	var err error
	if pn, msg := guard(func() { err = val.ValidateContent(key, content) }); pn {
		v = "panic:" + msg
	} else if err != nil {
		v = "err"
	} else {
		v = "ok"
	}
	mock := storage.NewMockStorage()
	st := state.NewStateStorage(mock, nil)
	id := sha256.Sum256(key)
	if pn, msg := guard(func() { err = st.Put(key, id[:], content) }); pn {
		p = "panic:" + msg
	} else if err != nil {
		p = "err"
	} else {
		db := mock.(*storage.MockStorage).Db
		if len(db) > 1 {
			p = fmt.Sprintf("ok:MORE-THAN-ONE-ENTRY-%d", len(db))
		} else if got, ok := db[string(id[:])]; ok {
			p = "ok:" + hx(got)
			kk = c13storedHash(got)
		} else {
			p = "ok:NOTHING-UNDER-CONTENT-ID"
		}
	}
	return
}

// keccak of the payload of a stored value (SSZ container with one byte list: 4-byte offset, then the node / the code):
// what the stored bytes hash to is judged against the key's hash by the monitors
func c13storedHash(stored []byte) string {
	if len(stored) < 4 {
		return "short"
	}
	return hx(crypto.Keccak256(stored[4:]))
}

func c13raw(c *Ctx, key, content []byte) {
	if len(key) == 0 {
		return // contentKey[0] on an empty key belongs to C01
	}
	v, p, kk := c13run(make([]byte, 32), nil, key, content)
	c.Count("raw")
	c.Emit("raw %s %s | v:%s p:%s k:%s", hx(key), hx(content), v, p, kk)
}

func c13trv(c *Ctx, node, path []byte) {
	var ref, rest []byte
	var derr, err error
	d := c13dump(node)
	out := ""
	if pn, msg := guard(func() { ref, rest, derr, err = strie.VerifTraverse(node, path) }); pn {
		out = "panic " + msg
	} else if derr != nil || err != nil {
		out = "err"
	} else {
		out = "ok " + hx(ref) + " " + hx(rest)
	}
	c.Count("trv")
	c.Count("trv_" + out[:2])
	c.Emit("trv %s %s %s | %s", hx(node), d, nibhex(path), out)
}

func c13nib(c *Ctx, b []byte) {
	n := &state.Nibbles{}
	err := n.Deserialize(codec.NewDecodingReader(bytes.NewReader(b), uint64(len(b))))
	c.Count("nib")
	if err != nil {
		c.Emit("nib %s | err", hx(b))
	} else {
		c.Emit("nib %s | ok %s", hx(b), hx(n.Nibbles))
	}
}

// ---------------------------------------------------------------- hand-made RLP nodes

func compact(nibbles []byte, term bool) []byte {
	flag := byte(0)
	if term {
		flag = 2
	}
	var out []byte
	if len(nibbles)%2 == 1 {
		out = append(out, (flag|1)<<4|nibbles[0])
		nibbles = nibbles[1:]
	} else {
		out = append(out, flag<<4)
	}
	for i := 0; i+1 < len(nibbles); i += 2 {
		out = append(out, nibbles[i]<<4|nibbles[i+1])
	}
	return out
}

func rlpList(items ...interface{}) []byte {
	b, err := rlp.EncodeToBytes(items)
	if err != nil {
		panic(err)
	}
	return b
}

// child reference: nil -> "", 32 bytes -> hash string, otherwise raw embedded encoding
type rawChild []byte

func refItem(ch []byte, embedded bool) interface{} {
	if embedded {
		return rlp.RawValue(ch)
	}
	if ch == nil {
		return []byte{}
	}
	return ch
}

func mkShortRaw(keyField []byte, val interface{}) []byte { return rlpList(keyField, val) }
func mkLeaf(key []byte, value []byte) []byte             { return rlpList(compact(key, true), value) }
func mkExt(key []byte, child []byte, embedded bool) []byte {
	return rlpList(compact(key, false), refItem(child, embedded))
}
func mkBranch(children [16][]byte, embedded [16]bool, value []byte) []byte {
	items := make([]interface{}, 17)
	for i := 0; i < 16; i++ {
		items[i] = refItem(children[i], embedded[i])
	}
	if value == nil {
		value = []byte{}
	}
	items[16] = value
	return rlpList(items...)
}

func keccak(b []byte) []byte { return crypto.Keccak256(b) }

func rnibs(r *Rng, n int) []byte {
	o := make([]byte, n)
	for i := range o {
		o[i] = byte(r.Intn(16))
	}
	return o
}

// small embedded node (< 32 bytes) of a random odd kind
func c13embedded(r *Rng) []byte {
	switch r.Intn(7) {
	case 0:
		return mkLeaf(rnibs(r, 1+r.Intn(3)), r.Bytes(r.Intn(4)))
	case 1:
		return mkShortRaw([]byte{}, []byte{}) // empty key, nil child
	case 2:
		return mkShortRaw([]byte{0x00}, []byte{}) // compact "00": empty key
	case 3:
		return mkShortRaw([]byte{0x20}, r.Bytes(1)) // key = [16]: leaf with empty prefix
	case 4:
		return mkExt(rnibs(r, 1+r.Intn(5)), nil, false) // extension to nil
	case 5:
		return mkExt(rnibs(r, 1+r.Intn(3)), mkLeaf(rnibs(r, 1+r.Intn(2)), r.Bytes(1)), true)
	default:
		var ch [16][]byte
		var em [16]bool
		if r.Bool() {
			i := r.Intn(16)
			ch[i] = mkLeaf(rnibs(r, 1), r.Bytes(1))
			em[i] = true
		}
		return mkBranch(ch, em, r.Bytes(r.Intn(2)))
	}
}

// a random decodable (mostly) node with odd features, for the traverse correspondence
func c13oddNode(r *Rng) []byte {
	switch r.Intn(12) {
	case 0:
		return mkShortRaw([]byte{}, r.Bytes(32))
	case 1:
		return mkShortRaw([]byte{0x00}, r.Bytes(32))
	case 2:
		return mkShortRaw([]byte{0x10 | byte(r.Intn(16))}, r.Bytes(32)) // 1-nibble extension
	case 3:
		return mkShortRaw([]byte{0x20}, r.Bytes(r.Intn(40))) // leaf, empty prefix
	case 4:
		return mkLeaf(rnibs(r, 1+r.Intn(6)), r.Bytes(r.Pick([]int{0, 1, 31, 32, 33, 70})))
	case 5:
		return mkExt(rnibs(r, 1+r.Intn(6)), r.Bytes(32), false)
	case 6:
		return mkExt(rnibs(r, 1+r.Intn(6)), c13embedded(r), true)
	case 7:
		return mkExt(rnibs(r, 1+r.Intn(6)), nil, false)
	case 8:
		return c13embedded(r)
	case 9: // bytes that are not a node
		return r.Bytes(r.Intn(40))
	default:
		var ch [16][]byte
		var em [16]bool
		for i := 0; i < 16; i++ {
			switch r.Intn(5) {
			case 0:
				ch[i] = r.Bytes(32)
			case 1:
				ch[i] = c13embedded(r)
				em[i] = true
			}
		}
		var v []byte
		if r.Intn(3) == 0 {
			v = r.Bytes(1 + r.Intn(33))
		}
		return mkBranch(ch, em, v)
	}
}

// keys read off a dump, to aim paths at the node's own nibbles
var reKey = regexp.MustCompile(`S([0-9a-f]*):`)

// top-level children of an F(...) dump
func dumpChildren(d string) []string {
	if !strings.HasPrefix(d, "F(") || !strings.HasSuffix(d, ")") {
		return nil
	}
	var out []string
	depth, st := 0, 2
	for i := 2; i < len(d)-1; i++ {
		switch d[i] {
		case '(':
			depth++
		case ')':
			depth--
		case ',':
			if depth == 0 {
				out = append(out, d[st:i])
				st = i + 1
			}
		}
	}
	return append(out, d[st:len(d)-1])
}

// a path that follows the node: branch slot of a non-nil child, then the child's own key, ...
func dumpGoodPath(r *Rng, d string) []byte {
	var p []byte
	for depth := 0; depth < 4; depth++ {
		if ch := dumpChildren(d); ch != nil {
			var cand []int
			for i, c := range ch {
				if i < 16 && c != "N" {
					cand = append(cand, i)
				}
			}
			if len(cand) == 0 {
				return append(p, byte(r.Intn(16)))
			}
			i := cand[r.Intn(len(cand))]
			p = append(p, byte(i))
			d = ch[i]
		} else if strings.HasPrefix(d, "S") {
			j := strings.Index(d, ":")
			k := unhxe(d[1:j])
			if len(k) > 0 && k[len(k)-1] == 16 {
				return append(p, k[:len(k)-1]...)
			}
			p = append(p, k...)
			d = d[j+1:]
		} else {
			return p
		}
	}
	return p
}

func c13aimedPath(r *Rng, dump string) []byte {
	if dump != "E" && r.Intn(2) == 0 {
		p := dumpGoodPath(r, dump)
		switch r.Intn(6) {
		case 0:
			if len(p) > 0 {
				p = p[:r.Intn(len(p))]
			}
		case 1:
			p = append(p, rnibs(r, 1+r.Intn(2))...)
		case 2:
			if len(p) > 0 {
				p[r.Intn(len(p))] = byte(r.Intn(16))
			}
		}
		return p
	}
	var p []byte
	steps := r.Intn(4)
	keys := reKey.FindAllStringSubmatch(dump, -1)
	for i := 0; i <= steps; i++ {
		switch r.Intn(4) {
		case 0:
			p = append(p, byte(r.Intn(16)))
		case 1:
			if len(keys) > 0 {
				k := unhxe(keys[r.Intn(len(keys))][1])
				if len(k) > 0 && k[len(k)-1] == 16 && r.Intn(4) != 0 {
					k = k[:len(k)-1]
				}
				if len(k) > 0 && r.Intn(3) == 0 {
					k = k[:r.Intn(len(k))]
				}
				p = append(p, k...)
			}
		case 2:
			p = append(p, rnibs(r, r.Intn(3))...)
		}
	}
	if r.Intn(25) == 0 {
		p = append(p, byte(r.Pick([]int{16, 17, 255})))
	}
	if r.Intn(25) == 0 && len(p) > 0 {
		p[0] = byte(r.Pick([]int{16, 17, 200}))
	}
	return p
}

// ---------------------------------------------------------------- honest tries (go-ethereum trie)

type c13trie struct {
	root  []byte
	nodes map[string][]byte // nibble path -> encoding of every hashed node
	paths []string          // sorted
	keys  [][]byte
}

func c13build(kv map[string][]byte) *c13trie {
	db := triedb.NewDatabase(rawdb.NewMemoryDatabase(), nil)
	tr := gtrie.NewEmpty(db)
	t := &c13trie{nodes: map[string][]byte{}}
	ks := make([]string, 0, len(kv))
	for k := range kv {
		ks = append(ks, k)
	}
	sort.Strings(ks)
	for _, k := range ks {
		tr.MustUpdate([]byte(k), kv[k])
		t.keys = append(t.keys, []byte(k))
	}
	root, set := tr.Commit(false)
	t.root = root[:]
	if set != nil {
		for p, n := range set.Nodes {
			if n.Blob != nil {
				t.nodes[p] = n.Blob
			}
		}
	}
	for p := range t.nodes {
		t.paths = append(t.paths, p)
	}
	sort.Strings(t.paths)
	return t
}

// proof for the hashed node at path p: all hashed nodes on prefixes of p, root first
func (t *c13trie) proof(p string) [][]byte {
	var out [][]byte
	for i := 0; i <= len(p); i++ {
		if n, ok := t.nodes[p[:i]]; ok {
			out = append(out, n)
		}
	}
	return out
}

// deepest hashed node on the way to key k (k in nibbles)
func (t *c13trie) leafPath(nib []byte) string {
	best := ""
	for i := 0; i <= len(nib); i++ {
		if _, ok := t.nodes[string(nib[:i])]; ok {
			best = string(nib[:i])
		}
	}
	return best
}

func toNibbles(b []byte) []byte {
	o := make([]byte, 0, 2*len(b))
	for _, x := range b {
		o = append(o, x>>4, x&15)
	}
	return o
}

// key set with shared prefixes: keys are derived from a few stems so that extensions and deep branches appear
func c13keys(r *Rng, n, keyLen int) [][]byte {
	seen := map[string]bool{}
	var out [][]byte
	var stems [][]byte
	for len(out) < n {
		var k []byte
		switch {
		case len(out) > 0 && r.Intn(3) == 0: // share a long prefix with an existing key
			base := out[r.Intn(len(out))]
			k = append([]byte{}, base...)
			cut := r.Intn(2 * keyLen)
			nb := toNibbles(k)
			for j := cut; j < len(nb); j++ {
				nb[j] = byte(r.Intn(16))
			}
			for j := range k {
				k[j] = nb[2*j]<<4 | nb[2*j+1]
			}
		case len(stems) > 0 && r.Intn(3) == 0:
			st := stems[r.Intn(len(stems))]
			k = append(append([]byte{}, st...), r.Bytes(keyLen)...)[:keyLen]
		default:
			k = r.Bytes(keyLen)
			if r.Intn(4) == 0 && keyLen > 1 {
				stems = append(stems, k[:1+r.Intn(keyLen-1)])
			}
		}
		if !seen[string(k)] {
			seen[string(k)] = true
			out = append(out, k)
		}
		if keyLen == 1 && len(seen) >= 256 {
			break
		}
	}
	return out
}

type c13contract struct {
	addrHash []byte
	code     []byte
	storage  *c13trie
}

type c13world struct {
	blockHash []byte
	acct      *c13trie
	contracts []*c13contract
}

func acctRLP(nonce uint64, root []byte, codeHash []byte) []byte {
	a := &types.StateAccount{Nonce: nonce, Balance: uint256.NewInt(nonce * 7), Root: common.BytesToHash(root), CodeHash: codeHash}
	b, err := rlp.EncodeToBytes(a)
	if err != nil {
		panic(err)
	}
	return b
}

func c13storageTrie(r *Rng, n int) *c13trie {
	keyLen := r.Pick([]int{1, 2, 2, 3, 4, 8, 32, 32})
	kv := map[string][]byte{}
	for _, k := range c13keys(r, n, keyLen) {
		var v []byte
		switch r.Intn(4) {
		case 0:
			v = r.Bytes(1)
		case 1:
			v, _ = rlp.EncodeToBytes(r.Bytes(31)) // 32-byte leaf value
		case 2:
			v, _ = rlp.EncodeToBytes(r.Bytes(32))
		default:
			v, _ = rlp.EncodeToBytes(r.Bytes(1 + r.Intn(8)))
		}
		kv[string(k)] = v
	}
	return c13build(kv)
}

func c13makeWorld(r *Rng, nAcct, nContracts, maxSlots int) *c13world {
	w := &c13world{blockHash: r.Bytes(32)}
	kv := map[string][]byte{}
	keys := c13keys(r, nAcct, 32)
	for i, k := range keys {
		if i < nContracts {
			ct := &c13contract{addrHash: k, code: r.Bytes(r.Pick([]int{0, 1, 5, 100, 3000}))}
			slots := 1 + r.Intn(maxSlots)
			if i == 0 {
				slots = maxSlots
			}
			ct.storage = c13storageTrie(r, slots)
			w.contracts = append(w.contracts, ct)
			kv[string(k)] = acctRLP(uint64(i+1), ct.storage.root, keccak(ct.code))
		} else {
			kv[string(k)] = acctRLP(uint64(i+1), types.EmptyRootHash[:], types.EmptyCodeHash[:])
		}
	}
	w.acct = c13build(kv)
	return w
}

// account proof: every hashed node on the way to the account leaf (the last one contains the leaf, possibly embedded)
func (w *c13world) accountProof(addrHash []byte) [][]byte {
	return w.acct.proof(w.acct.leafPath(toNibbles(addrHash)))
}

// ---------------------------------------------------------------- mutations

func flipBit(r *Rng, b []byte) []byte {
	o := append([]byte{}, b...)
	if len(o) > 0 {
		o[r.Intn(len(o))] ^= 1 << r.Intn(8)
	}
	return o
}

// mutate returns a mutated copy of an (honest) case; which names the mutation class.
func c13mutate(r *Rng, k0 *c13case, extra [][]byte) *c13case {
	k := k0.clone()
	proofSel := func() *[][]byte {
		if k.kind == "cbc" || (k.kind == "csn" && r.Intn(3) == 0) {
			return &k.acctProof
		}
		return &k.mainProof
	}
	refreshKeyHash := func() {
		if k.kind != "cbc" && len(k.mainProof) > 0 {
			k.keyHash = keccak(k.mainProof[len(k.mainProof)-1])
		}
	}
	m := r.Intn(22)
	switch m {
	case 0: // path: flip a nibble
		if len(k.path) > 0 {
			i := r.Intn(len(k.path))
			k.path[i] = (k.path[i] + 1 + byte(r.Intn(15))) % 16
		} else if k.kind == "cbc" {
			k.addrHash = flipBit(r, k.addrHash)
		}
		k.tag = "mut-path-nibble"
	case 1: // path: drop the last nibble
		if len(k.path) > 0 {
			k.path = k.path[:len(k.path)-1]
		}
		k.tag = "mut-path-short"
	case 2: // path: one more nibble
		k.path = append(k.path, byte(r.Intn(16)))
		k.tag = "mut-path-long"
	case 3: // path: truncated somewhere / emptied
		if len(k.path) > 0 {
			k.path = k.path[:r.Intn(len(k.path))]
		}
		k.tag = "mut-path-cut"
	case 4: // key hash: flip a bit
		k.keyHash = flipBit(r, k.keyHash)
		k.tag = "mut-keyhash-bit"
	case 5: // key hash: hash of another node of the proof
		p := *proofSel()
		if len(p) > 0 {
			k.keyHash = keccak(p[r.Intn(len(p))])
		}
		k.tag = "mut-keyhash-other"
	case 6: // header source does not know the block
		k.oracle = nil
		k.tag = "mut-block-unknown"
	case 7: // header source returns another state root
		if r.Bool() && len(extra) > 0 {
			k.oracle = keccak(extra[r.Intn(len(extra))])
		} else {
			k.oracle = flipBit(r, k.oracle)
		}
		k.tag = "mut-root-wrong"
	case 8: // swap two adjacent proof nodes
		p := proofSel()
		if len(*p) > 1 {
			i := r.Intn(len(*p) - 1)
			(*p)[i], (*p)[i+1] = (*p)[i+1], (*p)[i]
		}
		if r.Bool() {
			refreshKeyHash()
		}
		k.tag = "mut-order-swap"
	case 9: // reverse
		p := proofSel()
		for i, j := 0, len(*p)-1; i < j; i, j = i+1, j-1 {
			(*p)[i], (*p)[j] = (*p)[j], (*p)[i]
		}
		if r.Bool() {
			refreshKeyHash()
		}
		k.tag = "mut-order-reverse"
	case 10: // drop the first node
		p := proofSel()
		if len(*p) > 0 {
			*p = (*p)[1:]
		}
		if r.Bool() && len(*p) > 0 {
			k.oracle = keccak((*p)[0]) // and pretend the rest is rooted
		}
		k.tag = "mut-len-drop-first"
	case 11: // drop the last node (key hash kept or refreshed)
		p := proofSel()
		if len(*p) > 0 {
			*p = (*p)[:len(*p)-1]
		}
		if r.Bool() {
			refreshKeyHash()
		}
		k.tag = "mut-len-drop-last"
	case 12: // drop a middle node
		p := proofSel()
		if len(*p) > 2 {
			i := 1 + r.Intn(len(*p)-2)
			*p = append((*p)[:i:i], (*p)[i+1:]...)
		}
		k.tag = "mut-len-drop-middle"
	case 13: // duplicate a node
		p := proofSel()
		if len(*p) > 0 {
			i := r.Intn(len(*p))
			q := append([][]byte{}, (*p)[:i+1]...)
			q = append(q, (*p)[i:]...)
			*p = q
		}
		if r.Bool() {
			refreshKeyHash()
		}
		k.tag = "mut-len-duplicate"
	case 14: // surplus node appended (a node of the same trie or a random one)
		p := proofSel()
		var s []byte
		if len(extra) > 0 && r.Intn(4) != 0 {
			s = extra[r.Intn(len(extra))]
		} else {
			s = c13oddNode(r)
		}
		*p = append(*p, append([]byte{}, s...))
		if r.Bool() {
			refreshKeyHash()
		}
		k.tag = "mut-len-surplus"
	case 15: // flip a byte of some node
		p := proofSel()
		if len(*p) > 0 {
			i := r.Intn(len(*p))
			(*p)[i] = flipBit(r, (*p)[i])
		}
		if r.Bool() {
			refreshKeyHash()
		}
		k.tag = "mut-node-bytes"
	case 16: // flip a byte of the last node and refresh the key hash (only the parent link can catch it)
		p := proofSel()
		if len(*p) > 0 {
			(*p)[len(*p)-1] = flipBit(r, (*p)[len(*p)-1])
		}
		refreshKeyHash()
		k.tag = "mut-last-node-rehash"
	case 17: // empty proof
		p := proofSel()
		*p = nil
		k.tag = "mut-len-empty"
	case 18: // block hash changed (oracle keyed by the new hash: same root) - must still be accepted
		k.blockHash = flipBit(r, k.blockHash)
		k.tag = "mut-block-renamed"
	case 19: // replace a node by an odd one
		p := proofSel()
		if len(*p) > 0 {
			(*p)[r.Intn(len(*p))] = c13oddNode(r)
		}
		if r.Bool() {
			refreshKeyHash()
		}
		k.tag = "mut-node-odd"
	case 20: // bytecode / address
		if k.kind == "cbc" {
			if r.Bool() {
				k.code = flipBit(r, append(k.code, 0))
			} else {
				k.code = flipBit(r, k.code)
				k.keyHash = keccak(k.code)
			}
			k.tag = "mut-code"
		} else if k.kind == "csn" {
			k.addrHash = flipBit(r, k.addrHash)
			k.tag = "mut-address"
		} else {
			k.path = append(rnibs(r, 1), k.path...)
			k.tag = "mut-path-prepend"
		}
	default: // too many nibbles / nibble out of range / too many nodes: rejected by the SSZ layer
		switch r.Intn(3) {
		case 0:
			k.path = rnibs(r, 65+r.Intn(3))
		case 1:
			k.path = append(k.path, byte(16+r.Intn(200)))
		default:
			p := proofSel()
			for len(*p) > 0 && len(*p) < 66 {
				*p = append(*p, (*p)[len(*p)-1])
			}
		}
		k.tag = "mut-ssz-limit"
	}
	return k
}

// ---------------------------------------------------------------- synthetic adversarial chains

// c13synthetic builds a chain of hand-made nodes bottom-up.  Connectors: branch slot -> hash, extension -> hash,
// leaf whose 32-byte VALUE is the hash of the next node (continuation through a leaf), plus odd nodes.
func c13synthetic(r *Rng, steps int, allowLeafLink bool) *c13case {
	last := c13oddNode(r)
	if r.Intn(3) != 0 {
		last = mkLeaf(rnibs(r, 1+r.Intn(4)), r.Bytes(r.Pick([]int{1, 32, 40, 80})))
	}
	chain := [][]byte{last}
	var path []byte
	ref := keccak(last)
	usedLeaf := false
	for i := 0; i < steps; i++ {
		var n []byte
		switch k := r.Intn(10); {
		case k < 4:
			var ch [16][]byte
			var em [16]bool
			for j := 0; j < 16; j++ {
				if r.Intn(3) == 0 {
					ch[j] = r.Bytes(32)
				} else if r.Intn(8) == 0 {
					ch[j] = c13embedded(r)
					em[j] = true
				}
			}
			j := r.Intn(16)
			ch[j], em[j] = ref, false
			n = mkBranch(ch, em, nil)
			path = append([]byte{byte(j)}, path...)
		case k < 7:
			key := rnibs(r, 1+r.Intn(5))
			n = mkExt(key, ref, false)
			path = append(append([]byte{}, key...), path...)
		case k < 9 && allowLeafLink && len(path) > 0:
			// leaf with key = the whole remaining path and value = hash of the next node
			n = mkLeaf(path, ref)
			usedLeaf = true
		default:
			key := rnibs(r, 1)
			n = mkExt(key, ref, false)
			path = append(append([]byte{}, key...), path...)
		}
		chain = append([][]byte{n}, chain...)
		ref = keccak(n)
	}
	k := &c13case{tag: "syn", kind: "atn", oracle: ref, blockHash: r.Bytes(32), addrHash: make([]byte, 32), path: path,
		keyHash: keccak(last), mainProof: chain}
	if usedLeaf {
		k.tag = "syn-leaf-link"
	}
	if len(path) > 64 {
		k.path = path[:64]
	}
	return k
}

// c13synAccount builds a hand-made account chain (branch / extension connectors along the address hash, then a leaf
// holding the account) for a bytecode item; the leaf key is exact, shorter, longer or different, or the chain ends early.
func c13synAccount(r *Rng) *c13case {
	addr := r.Bytes(32)
	nib := toNibbles(addr)
	code := r.Bytes(r.Intn(6))
	acc := acctRLP(uint64(1+r.Intn(9)), types.EmptyRootHash[:], keccak(code))
	steps := r.Intn(5)
	cuts := []int{0}
	for i := 0; i < steps; i++ {
		cuts = append(cuts, cuts[len(cuts)-1]+1+r.Intn(3))
	}
	consumed := cuts[len(cuts)-1]
	leafKey := append([]byte{}, nib[consumed:]...)
	variant := r.Intn(8)
	tag := "syn-acct"
	switch variant {
	case 1:
		leafKey = leafKey[:len(leafKey)-1-r.Intn(3)]
		tag = "syn-acct-leaf-key-shorter"
	case 2:
		leafKey = append(leafKey, rnibs(r, 1+r.Intn(2))...)
		tag = "syn-acct-leaf-key-longer"
	case 3:
		i := r.Intn(len(leafKey))
		leafKey[i] = (leafKey[i] + 1 + byte(r.Intn(15))) % 16
		tag = "syn-acct-leaf-key-differs"
	case 4:
		acc = r.Bytes(r.Pick([]int{0, 1, 32, 70}))
		tag = "syn-acct-leaf-not-account"
	}
	last := mkLeaf(leafKey, acc)
	chain := [][]byte{last}
	ref := keccak(last)
	for i := steps - 1; i >= 0; i-- {
		seg := nib[cuts[i]:cuts[i+1]]
		var n []byte
		if len(seg) == 1 && r.Bool() {
			var ch [16][]byte
			var em [16]bool
			for j := 0; j < 16; j++ {
				if r.Intn(3) == 0 {
					ch[j] = r.Bytes(32)
				}
			}
			ch[seg[0]] = ref
			n = mkBranch(ch, em, nil)
		} else {
			n = mkExt(seg, ref, false)
		}
		chain = append([][]byte{n}, chain...)
		ref = keccak(n)
	}
	if variant == 5 && len(chain) > 1 {
		chain = chain[:len(chain)-1]
		tag = "syn-acct-ends-in-hash"
	}
	return &c13case{tag: tag, kind: "cbc", oracle: ref, blockHash: r.Bytes(32), addrHash: addr, keyHash: keccak(code), code: code, acctProof: chain}
}

// fixed corpus: the shapes named in the design
func c13corpus(r *Rng) []*c13case {
	var out []*c13case
	mk := func(tag string, path []byte, nodes ...[]byte) *c13case {
		return &c13case{tag: tag, kind: "atn", oracle: keccak(nodes[0]), blockHash: bytes.Repeat([]byte{0xbb}, 32), addrHash: make([]byte, 32),
			path: path, keyHash: keccak(nodes[len(nodes)-1]), mainProof: nodes}
	}
	leaf := mkLeaf([]byte{1, 2, 3}, []byte("value-of-some-length-above-32-bytes-xxxxxxxxxx"))
	h := keccak(leaf)
	// (i) short node with empty key: RLP ["", h32] and ["\x00", h32]
	out = append(out, mk("corpus-empty-short-key", []byte{1, 2}, mkShortRaw([]byte{}, h), leaf))
	out = append(out, mk("corpus-empty-short-key-00", []byte{1, 2}, mkShortRaw([]byte{0x00}, h), leaf))
	// (i) extension key longer than the remaining path
	out = append(out, mk("corpus-ext-longer-than-path", []byte{1, 2}, mkExt([]byte{1, 2, 3, 4}, h, false), leaf))
	out = append(out, mk("corpus-ext-equal-path", []byte{1, 2, 3, 4}, mkExt([]byte{1, 2, 3, 4}, h, false), leaf))
	out = append(out, mk("corpus-ext-empty-path", []byte{}, mkExt([]byte{1}, h, false), leaf))
	// embedded short node with empty key inside a branch
	{
		var ch [16][]byte
		var em [16]bool
		ch[5], em[5] = mkShortRaw([]byte{}, []byte{}), true
		ch[6] = h
		out = append(out, mk("corpus-embedded-empty-short-key", []byte{5}, mkBranch(ch, em, nil), leaf))
		out = append(out, mk("corpus-branch-ok", []byte{6}, mkBranch(ch, em, nil), leaf))
		out = append(out, mk("corpus-branch-nil-child", []byte{7}, mkBranch(ch, em, nil), leaf))
		out = append(out, mk("corpus-branch-empty-path", []byte{}, mkBranch(ch, em, nil), leaf))
	}
	// (ii) continuation through a leaf value: root = leaf(key=[7,7], value=keccak(N)), N = ext([7,7] -> keccak(N2)), N2 arbitrary
	{
		n2 := mkLeaf([]byte{9}, []byte("not in the trie at all, not in the trie at all"))
		n := mkExt([]byte{7, 7}, keccak(n2), false)
		root := mkLeaf([]byte{7, 7}, keccak(n))
		out = append(out, mk("corpus-leaf-link", []byte{7, 7}, root, n, n2))
		// below a branch, as in a storage trie whose slot value was chosen by the contract owner
		var ch [16][]byte
		var em [16]bool
		ch[3] = keccak(root)
		ch[4] = r.Bytes(32)
		out = append(out, mk("corpus-leaf-link-below-branch", []byte{3, 7, 7}, mkBranch(ch, em, nil), root, n, n2))
	}
	// non-canonical compact flags 4..15 on a short node holding a 32-byte string, key = the whole remaining path
	for f := byte(4); f < 16; f++ {
		kb := []byte{f << 4, 0xab}
		path := []byte{0xa, 0xb}
		if f&1 == 1 {
			kb = []byte{f<<4 | 0xa, 0xbc}
			path = []byte{0xa, 0xb, 0xc}
		}
		out = append(out, mk(fmt.Sprintf("corpus-reflag-inner-f%d", f), path, mkShortRaw(kb, h), leaf))
		out = append(out, mk(fmt.Sprintf("corpus-reflag-last-f%d", f), []byte{}, mkShortRaw(kb, h)))
	}
	// single-node proofs
	out = append(out, mk("corpus-single-leaf-empty-path", []byte{}, leaf))
	out = append(out, mk("corpus-single-leaf-nonempty-path", []byte{1}, leaf))
	// leaf as an inner node with a non-hash value
	out = append(out, mk("corpus-leaf-inner", []byte{1, 2, 3}, leaf, leaf))
	// leaf with empty prefix [16]
	out = append(out, mk("corpus-leaf-empty-prefix", []byte{1}, mkShortRaw([]byte{0x20}, h), leaf))
	// account kinds on synthetic data: account leaf reached through an embedded / hashed path
	{
		code := []byte{0x60, 0x00}
		st := mkLeaf([]byte{1, 1}, []byte{0x05})
		acc := acctRLP(3, keccak(st), keccak(code))
		addr := r.Bytes(32)
		an := toNibbles(addr)
		aleaf := mkLeaf(an[1:], acc)
		var ch [16][]byte
		var em [16]bool
		ch[an[0]] = keccak(aleaf)
		rootn := mkBranch(ch, em, nil)
		base := &c13case{tag: "corpus-cbc", kind: "cbc", oracle: keccak(rootn), blockHash: bytes.Repeat([]byte{0xcc}, 32), addrHash: addr,
			keyHash: keccak(code), code: code, acctProof: [][]byte{rootn, aleaf}}
		out = append(out, base)
		for _, wc := range []c13wrongCode{{"corpus-cbc-code-empty", []byte{}}, {"corpus-cbc-code-1byte", []byte{0x60}}, {"corpus-cbc-code-wrong", []byte{0x60, 0x01}}} {
			bw := base.clone()
			bw.tag, bw.code = wc.tag, wc.code
			out = append(out, bw)
		}
		b2 := base.clone()
		b2.tag, b2.acctProof = "corpus-cbc-missing-leaf", [][]byte{rootn}
		out = append(out, b2)
		b3 := base.clone()
		b3.tag, b3.kind, b3.path, b3.keyHash, b3.mainProof, b3.code = "corpus-csn", "csn", []byte{}, keccak(st), [][]byte{st}, nil
		out = append(out, b3)
		b4 := b3.clone()
		b4.tag, b4.path = "corpus-csn-path-not-consumed", []byte{1, 1}
		out = append(out, b4)
		// account leaf with the whole 64-nibble key as the root
		whole := mkLeaf(an, acc)
		b5 := base.clone()
		b5.tag, b5.oracle, b5.acctProof = "corpus-cbc-root-leaf", keccak(whole), [][]byte{whole}
		out = append(out, b5)
		// account path ends in a hash reference (proof one node short)
		b6 := base.clone()
		b6.tag, b6.acctProof = "corpus-cbc-ends-in-hash", [][]byte{rootn}
		out = append(out, b6)
	}
	return out
}

// ---------------------------------------------------------------- spec vectors

func c13vectors(c *Ctx) []*c13case {
	var out []*c13case
	repo := os.Getenv("VERIF_REPO")
	if repo == "" {
		repo = "/repo"
	}
	re := regexp.MustCompile(`(?m)^\s*-?\s*(block_header|content_key|content_value_offer):\s*'?"?(0x[0-9a-fA-F]*)`)
	for _, f := range []string{"account_trie_node.yaml", "contract_storage_trie_node.yaml", "contract_bytecode.yaml"} {
		b, err := os.ReadFile(filepath.Join(repo, "state", "testdata", f))
		if err != nil {
			c.Count("vectors_file_missing")
			continue
		}
		cur := map[string]string{}
		for _, m := range re.FindAllStringSubmatch(string(b), -1) {
			cur[m[1]] = m[2]
			if m[1] != "content_value_offer" {
				continue
			}
			hdr, err := history.DecodeBlockHeader(hexutil.MustDecode(cur["block_header"]))
			if err != nil {
				continue
			}
			key := hexutil.MustDecode(cur["content_key"])
			content := hexutil.MustDecode(cur["content_value_offer"])
			if k := c13decode(key, content); k != nil {
				k.tag = "vector-" + strings.TrimSuffix(f, ".yaml")
				k.oracle = hdr.Root[:]
				if !bytes.Equal(hdr.Hash().Bytes(), k.blockHash) {
					k.tag += "-blockhash-differs"
				}
				out = append(out, k)
			}
			cur = map[string]string{}
		}
	}
	return out
}

func fromProof(p state.TrieProof) [][]byte {
	o := make([][]byte, len(p))
	for i := range p {
		o[i] = []byte(p[i])
	}
	return o
}

// c13decode turns wire bytes into pieces with the repository's own SSZ decoders (nil if they reject).
func c13decode(key, content []byte) *c13case {
	if len(key) == 0 {
		return nil
	}
	rd := func(b []byte) *codec.DecodingReader {
		return codec.NewDecodingReader(bytes.NewReader(b), uint64(len(b)))
	}
	k := &c13case{addrHash: make([]byte, 32)}
	switch key[0] {
	case state.AccountTrieNodeType:
		ck, cv := &state.AccountTrieNodeKey{}, &state.AccountTrieNodeWithProof{}
		if ck.Deserialize(rd(key[1:])) != nil || cv.Deserialize(rd(content)) != nil {
			return nil
		}
		k.kind, k.path, k.keyHash, k.mainProof, k.blockHash = "atn", ck.Path.Nibbles, ck.NodeHash[:], fromProof(cv.Proof), cv.BlockHash[:]
	case state.ContractStorageTrieNodeType:
		ck, cv := &state.ContractStorageTrieNodeKey{}, &state.ContractStorageTrieNodeWithProof{}
		if ck.Deserialize(rd(key[1:])) != nil || cv.Deserialize(rd(content)) != nil {
			return nil
		}
		k.kind, k.addrHash, k.path, k.keyHash = "csn", ck.AddressHash[:], ck.Path.Nibbles, ck.NodeHash[:]
		k.mainProof, k.acctProof, k.blockHash = fromProof(cv.StorageProof), fromProof(cv.AccountProof), cv.BlockHash[:]
	case state.ContractByteCodeType:
		ck, cv := &state.ContractBytecodeKey{}, &state.ContractBytecodeWithProof{}
		if ck.Deserialize(rd(key[1:])) != nil || cv.Deserialize(rd(content)) != nil {
			return nil
		}
		k.kind, k.addrHash, k.keyHash, k.code = "cbc", ck.AddressHash[:], ck.CodeHash[:], []byte(cv.Code)
		k.acctProof, k.blockHash = fromProof(cv.AccountProof), cv.BlockHash[:]
	default:
		return nil
	}
	return k
}

// ---------------------------------------------------------------- replay

func c13replay(c *Ctx, lines []string) {
	for _, ln := range lines {
		f := strings.Fields(strings.SplitN(ln, "|", 2)[0])
		if len(f) < 2 {
			continue
		}
		switch f[0] {
		case "trv":
			c13trv(c, unhx(f[1]), unhx(f[3]))
		case "nib":
			c13nib(c, unhx(f[1]))
		case "raw":
			c13raw(c, unhx(f[1]), unhx(f[2]))
		case "hist", "conc":
			if f[0] == "conc" {
				f = []string{"conc", "2", f[1]}
			}
			if len(f) < 3 {
				continue
			}
			var steps []*c13case
			for _, st := range strings.Split(f[2], "@") {
				g := strings.Split(st, "^")
				if len(g) < 11 {
					continue
				}
				k := &c13case{tag: g[0], kind: g[1], blockHash: unhx(g[3]), addrHash: unhx(g[4]), path: unhx(g[5]), keyHash: unhx(g[6]),
					code: unhx(g[7]), acctProof: unhxl(g[9]), mainProof: unhxl(g[10])}
				if g[2] != "!" {
					k.oracle = unhx(g[2])
				}
				if len(g) >= 15 && g[14] == "1" {
					k.storeFail = true
				}
				steps = append(steps, k)
			}
			if f[0] == "conc" {
				if len(steps) == 2 {
					c13conc(c, steps[0], steps[1])
				}
				continue
			}
			c13hist(c, steps)
		case "val":
			if len(f) < 12 {
				continue
			}
			k := &c13case{tag: f[1], kind: f[2], blockHash: unhx(f[4]), addrHash: unhx(f[5]), path: unhx(f[6]), keyHash: unhx(f[7]),
				code: unhx(f[8]), acctProof: unhxl(f[10]), mainProof: unhxl(f[11])}
			if f[3] != "!" {
				k.oracle = unhx(f[3])
			}
			c13exec(c, k)
		}
	}
}

// ---------------------------------------------------------------- generator

func runC13(c *Ctx) {
	if len(c.Args) >= 2 && c.Args[0] == "replay" {
		c13replay(c, readReplayCases(c.Args[1]))
		return
	}
	// NewRng(seed) starts at seed*G+c and steps by G, so seeds k and k+1 give the same stream shifted by one draw;
	// restart from a mixed output so that different VERIF_SEEDs give unrelated runs (still a function of the seed only)
	c.Rng.s = c.Rng.U64() ^ (c.Rng.U64() << 1)
	r := c.Rng
	thorough := c.Tier == "thorough"
	scale := 1
	if thorough {
		scale = 8
	}
	if c.N > 0 {
		scale = 0
	}

	// 1. fixed corpus + spec vectors (+ a few mutations of each)
	for _, k := range c13corpus(r) {
		c13exec(c, k)
	}
	vecs := c13vectors(c)
	c.Stats["vectors"] = len(vecs)
	for _, k := range vecs {
		c13exec(c, k)
		if k.kind == "cbc" {
			for _, wc := range []c13wrongCode{{"vector-code-empty", []byte{}}, {"vector-code-1byte", k.code[:1]}, {"vector-code-truncated", k.code[:len(k.code)-1]}} {
				kw := k.clone()
				kw.tag, kw.code = wc.tag, wc.code
				c13exec(c, kw)
			}
		}
		for i := 0; i < 6; i++ {
			c13exec(c, c13mutate(r, k, k.mainProof))
		}
	}
	// wire-level mutations of the vectors: unknown selector, truncated / extended key and content
	for i, k := range vecs {
		if i%3 != 0 {
			continue
		}
		key, content := k.serialize()
		c13wire(c, "wire-selector", k.oracle, append([]byte{0x23}, key[1:]...), content)
		c13wire(c, "wire-selector", k.oracle, append([]byte{0x1f}, key[1:]...), content)
		c13wire(c, "wire-key-truncated", k.oracle, key[:len(key)-1], content)
		c13wire(c, "wire-key-extended", k.oracle, append(append([]byte{}, key...), 0), content)
		c13wire(c, "wire-key-only-selector", k.oracle, key[:1], content)
		c13wire(c, "wire-content-truncated", k.oracle, key, content[:len(content)-1])
		c13wire(c, "wire-content-extended", k.oracle, key, append(append([]byte{}, content...), 0))
		c13wire(c, "wire-content-empty", k.oracle, key, []byte{})
		for j := 0; j < 6; j++ {
			c13wire(c, "wire-content-bitflip", k.oracle, key, flipBit(r, content[:40]))
			kk := flipBit(r, key[1:])
			c13wire(c, "wire-key-bitflip", k.oracle, append([]byte{key[0]}, kk...), content)
		}
	}
	for _, s := range []string{"-", "00", "01", "10", "1f", "20", "0012", "1012", "0112", "00ff", "11" + strings.Repeat("ab", 32), "00" + strings.Repeat("ab", 32),
		"01" + strings.Repeat("ab", 32), "00" + strings.Repeat("ab", 33)} {
		c13nib(c, unhx(s))
	}

	// 2. traverse on odd nodes with aimed paths
	ntrv := 1000 + 5000*scale
	if c.N > 0 {
		ntrv = c.N
	}
	for i := 0; i < ntrv; i++ {
		n := c13oddNode(r)
		c13trv(c, n, c13aimedPath(r, c13dump(n)))
		if i%10 == 0 {
			c13nib(c, r.Bytes(r.Intn(5)))
			b := append([]byte{byte(r.Intn(2) << 4)}, r.Bytes(r.Pick([]int{0, 1, 31, 32, 33}))...)
			c13nib(c, b)
		}
	}

	// 3. synthetic adversarial chains and their mutations
	nsyn := 100 + 500*scale
	if c.N > 0 {
		nsyn = c.N / 4
	}
	for i := 0; i < nsyn; i++ {
		k := c13synthetic(r, 1+r.Intn(5), true)
		c13exec(c, k)
		for j := 0; j < 2; j++ {
			c13exec(c, c13mutate(r, k, k.mainProof))
		}
	}

	for i := 0; i < nsyn; i++ {
		k := c13synAccount(r)
		c13exec(c, k)
		if r.Intn(3) == 0 {
			c13exec(c, c13mutate(r, k, k.acctProof))
		}
		if r.Intn(4) == 0 { // the same account chain under a storage-node key with a one-node storage trie
			st := mkLeaf(rnibs(r, 1+r.Intn(3)), r.Bytes(1))
			k2 := k.clone()
			k2.kind, k2.code, k2.path, k2.mainProof, k2.keyHash = "csn", nil, []byte{}, [][]byte{st}, keccak(st)
			c13exec(c, k2)
		}
	}

	// 3a. valid hash chains whose short nodes carry non-canonical compact flags
	nrf := 6 + 18*scale
	if c.N > 0 {
		nrf = 1
	}
	c13reflagged(c, r, nrf)

	// 3b. histories on one validator instance and one storage
	nhist := 60 + 240*scale
	if c.N > 0 {
		nhist = c.N / 8
	}
	c13histories(c, r, nhist)

	// 3c. overlapping calls on one validator (gated header source)
	nconc := 60 + 120*scale
	if c.N > 0 {
		nconc = c.N / 8
	}
	c13concurrent(c, r, nconc)

	// 4. honest worlds: account trie + contracts with storage tries, every hashed node as the target
	type plan struct{ accts, contracts, slots, budget int }
	plans := []plan{{1, 1, 1, 0}, {2, 1, 2, 0}, {3, 2, 3, 0}, {5, 2, 5, 0}, {9, 3, 9, 0}, {17, 3, 17, 0}, {60, 3, 40, 0}, {130, 3, 130, 0}, {500, 2, 500, 0}}
	if thorough {
		plans = append(plans, plan{500, 4, 500, 0}, plan{256, 4, 256, 0}, plan{120, 6, 90, 0}, plan{33, 6, 33, 0})
	}
	// random sizes over the whole 1..500 range
	nrand, maxrand := 6, 90
	if thorough {
		nrand, maxrand = 30, 500
	}
	for i := 0; i < nrand; i++ {
		a := 1 + r.Intn(maxrand)
		plans = append(plans, plan{a, 1 + r.Intn(4), 1 + r.Intn(maxrand), 0})
	}
	if c.N > 0 {
		plans = []plan{{17, 2, 9, c.N}}
	}
	nmut := 2
	if thorough {
		nmut = 5
	}
	for _, pl := range plans {
		w := c13makeWorld(r, pl.accts, pl.contracts, pl.slots)
		c.Count(fmt.Sprintf("world_accounts_%d", pl.accts))
		var extraA [][]byte
		for _, p := range w.acct.paths {
			extraA = append(extraA, w.acct.nodes[p])
		}
		targets := 0
		emit := func(k *c13case, extra [][]byte, nmut int) {
			c13exec(c, k)
			for i := 0; i < nmut; i++ {
				c13exec(c, c13mutate(r, k, extra))
			}
		}
		sample := func(n int) bool { return pl.budget == 0 || r.Intn(n) < pl.budget }
		// account trie nodes
		for _, p := range w.acct.paths {
			if !sample(len(w.acct.paths)) {
				continue
			}
			pr := w.acct.proof(p)
			k := &c13case{tag: "honest", kind: "atn", oracle: w.acct.root, blockHash: w.blockHash, addrHash: make([]byte, 32), path: []byte(p),
				keyHash: keccak(pr[len(pr)-1]), mainProof: pr}
			emit(k, extraA, nmut)
			targets++
		}
		for _, ct := range w.contracts {
			ap := w.accountProof(ct.addrHash)
			kb := &c13case{tag: "honest", kind: "cbc", oracle: w.acct.root, blockHash: w.blockHash, addrHash: ct.addrHash, keyHash: keccak(ct.code),
				code: ct.code, acctProof: ap}
			emit(kb, extraA, 8)
			// empty / 1-byte / wrong code under the GENUINE bytecode key (honest account proof, key = the account's code hash)
			for _, wc := range c13wrongCodes(r, ct.code, w) {
				kw := kb.clone()
				kw.tag, kw.code = wc.tag, wc.code
				c13exec(c, kw)
			}
			var extraS [][]byte
			for _, p := range ct.storage.paths {
				extraS = append(extraS, ct.storage.nodes[p])
			}
			for _, p := range ct.storage.paths {
				if !sample(len(ct.storage.paths)) {
					continue
				}
				pr := ct.storage.proof(p)
				k := &c13case{tag: "honest", kind: "csn", oracle: w.acct.root, blockHash: w.blockHash, addrHash: ct.addrHash, path: []byte(p),
					keyHash: keccak(pr[len(pr)-1]), acctProof: ap, mainProof: pr}
				emit(k, extraS, nmut)
				targets++
			}
			// bytecode / storage claimed for an account that has none, and for an address that is not in the trie
			if len(w.acct.keys) > len(w.contracts) {
				other := w.acct.keys[len(w.acct.keys)-1]
				k2 := kb.clone()
				k2.tag, k2.addrHash, k2.acctProof = "other-account", other, w.accountProof(other)
				c13exec(c, k2)
			}
			k3 := kb.clone()
			k3.tag, k3.addrHash = "absent-account", r.Bytes(32)
			k3.acctProof = w.accountProof(k3.addrHash)
			c13exec(c, k3)
		}
		c.Stats["targets"] += targets
	}
}
