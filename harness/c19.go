//go:build c19 || all

package main

import (
	"crypto/ecdsa"
	"fmt"
	"sort"
	"strings"
	"time"

	"github.com/ethereum/go-ethereum/p2p/enode"
	"github.com/zen-eth/shisui/portalwire"
	"github.com/zen-eth/shisui/storage"
)

// C19: version negotiation.  Version lists are byte strings (one byte per version, "-" = empty list).  Lines:
//
//	fbs <a> <b> | ok <v> / err <class>                      findBiggestSameNumber(a, b)
//	gos <own> <kind> <peer> | ok r1=<r> r2=<r> cached=<c>   two calls of getOrStoreHighestVersion on a signed ENR
//	                                                        kind = list|missing|malformed ; <r> = version, e (error) or p (panic)
//	sym <a> <b> | ok ab=<r> ba=<r>                          node A about a record advertising b, node B about a record advertising a
//	frame <a> <b> <hex> | ok <hex> / err                    A.encodeUtpContent(for B) then B.decodeUtpContent(from A)
//	hist <own> <steps> | ok r=<r>,<r>,.. own=<hex>,<hex>,..   a history of calls on ONE instance; steps = ';'-separated
//	                                                        <ident>.<seq>:<kind>:<pv> : the call is made with THE record object
//	                                                        (ident, seq) - one object per pair, records of one ident share the
//	                                                        node id (key) and differ in sequence number and possibly pv;
//	                                                        "<ident>:" is short for "<ident>.0:"; r per step, own = the
//	                                                        instance's list after each step
//	accenc <own> <tablepv|none> <reqkind> <reqpv> <exhaust> <n> | ok enc=<0|1|?> / err
//	     a full protocol instance (own versions) gets a real OFFER of n fresh keys through handleTalkRequest from a peer whose
//	     CURRENT record (seq 2) carries reqkind/reqpv, while the routing table holds an OLDER record (seq 1) of the same
//	     identity advertising tablepv (none: the peer is not in the table); exhaust=1: no inbound slot is free.
//	     enc = which ACCEPT encoding the reply is in (1: n verdict bytes, 0: a bitlist of n bits)
//	accfull <own> <reqpv> <n> | ok acc=<k> cid=<z|nz>     the same OFFER path with the validation queue FULL: number of keys the
//	                                                        reply marks accepted (read in the encoding negotiated from reqpv) and
//	                                                        whether it announces a connection id
//	live <a> <b> <n> | ok va=<r> vb=<r> offer=<..> find=<..>  two real instances over loopback UDP (offer A->B of n bytes, large find-content B<-A)
func init() { registry["C19"] = runC19 }

func c19r(v uint8, err error, panicked bool) string {
	if panicked {
		return "p"
	}
	if err != nil {
		return "e"
	}
	return fmt.Sprint(v)
}

func c19get(p *portalwire.VerifOVersionProbe, n *enode.Node) string {
	var v uint8
	var err error
	pn, _ := guard(func() { v, err = p.Get(n) })
	return c19r(v, err, pn)
}

func c19fbs(c *Ctx, a, b []byte) {
	v, err := portalwire.VerifOFindBiggestSameNumber(a, b)
	c.Count("fbs")
	if err != nil {
		cls := classify(err, []struct {
			frag string
			cls  int
		}{{"empty slice", 20}, {"no common", 21}})
		c.Emit("fbs %s %s | err %d", hx(a), hx(b), cls)
		return
	}
	c.Emit("fbs %s %s | ok %d", hx(a), hx(b), v)
}

func c19gos(c *Ctx, key *ecdsa.PrivateKey, own []byte, kind string, peer []byte) {
	p := portalwire.VerifONewVersionProbe(own)
	n := c19record(key, kind, peer)
	r1 := c19get(p, n)
	cached := "none"
	if v, ok := p.Cached(n); ok {
		cached = fmt.Sprint(v)
	}
	r2 := c19get(p, n)
	c.Count("gos_" + kind)
	c.Emit("gos %s %s %s | ok r1=%s r2=%s cached=%s", hx(own), kind, hx(peer), r1, r2, cached)
}

func c19sym(c *Ctx, ka, kb *ecdsa.PrivateKey, a, b []byte) {
	pa, pb := portalwire.VerifONewVersionProbe(a), portalwire.VerifONewVersionProbe(b)
	na, nb := c19record(ka, "list", a), c19record(kb, "list", b)
	c.Count("sym")
	c.Emit("sym %s %s | ok ab=%s ba=%s", hx(a), hx(b), c19get(pa, nb), c19get(pb, na))
}

func c19frame(c *Ctx, ka, kb *ecdsa.PrivateKey, a, b []byte, data []byte) {
	pa, pb := portalwire.VerifONewVersionProbe(a), portalwire.VerifONewVersionProbe(b)
	na, nb := c19record(ka, "list", a), c19record(kb, "list", b)
	c.Count("frame")
	w, err := pa.EncodeUtp(nb, data)
	if err != nil {
		// no transfer; the receiving side must refuse as well
		_, err2 := pb.DecodeUtp(na, data)
		if err2 != nil {
			c.Emit("frame %s %s %s | err 1", hx(a), hx(b), hx(data))
		} else {
			c.Emit("frame %s %s %s | ok sender-refused-receiver-accepted", hx(a), hx(b), hx(data))
		}
		return
	}
	back, err := pb.DecodeUtp(na, w)
	if err != nil {
		c.Emit("frame %s %s %s | err 2", hx(a), hx(b), hx(data))
		return
	}
	c.Emit("frame %s %s %s | ok %s", hx(a), hx(b), hx(data), hx(back))
}

// ---- live pairs

type c19live struct {
	n  *portalwire.VerifONode
	q  chan *portalwire.ContentElement
	st storage.ContentStorage
}

func c19liveNode(c *Ctx, vs []byte) *c19live {
	q := make(chan *portalwire.ContentElement, 16)
	st := storage.NewMockStorage()
	n, err := portalwire.VerifONewNode(portalwire.VerifONodeConfig{Key: c19key(c), Versions: vs, MaxUtpConn: 50, Storage: st, ContentQueue: q})
	if err != nil {
		panic(err)
	}
	return &c19live{n: n, q: q, st: st}
}

// c19livePair: A advertises a, B advertises b.  A offers one fresh item of n bytes to B (B must end up with exactly that
// item on its validation queue); then B fetches a large stored item from A with FINDCONTENT over uTP.
func c19livePair(c *Ctx, a, b []byte, n int) {
	A, B := c19liveNode(c, a), c19liveNode(c, b)
	defer A.n.Stop()
	defer B.n.Stop()
	va, ea := A.n.HighestVersion(B.n.Self())
	vb, eb := B.n.HighestVersion(A.n.Self())
	A.n.ForgetVersion(B.n.Self())
	B.n.ForgetVersion(A.n.Self())
	key := append([]byte("c19-offer-"), c.Rng.Bytes(8)...)
	content := c.Rng.Bytes(n)
	offerRes := ""
	_, err := A.n.Offer(B.n.Self(), portalwire.VerifOTransientOffer([][]byte{key}, [][]byte{content}), &portalwire.NoPermit{})
	if err != nil {
		offerRes = "refused"
	} else {
		select {
		case el := <-B.q:
			if len(el.ContentKeys) == 1 && string(el.ContentKeys[0]) == string(key) && len(el.Contents) == 1 && string(el.Contents[0]) == string(content) {
				offerRes = "delivered"
			} else {
				offerRes = "delivered-wrong"
			}
		case <-time.After(20 * time.Second):
			offerRes = "lost"
		}
	}
	// large find-content: stored on A, fetched by B
	fkey := append([]byte("c19-find-"), c.Rng.Bytes(8)...)
	fcontent := c.Rng.Bytes(3000 + n)
	A.n.P.Put(fkey, A.n.P.ToContentId(fkey), fcontent)
	findRes := ""
	flag, got, err := B.n.FindContent(A.n.Self(), fkey)
	if err != nil {
		findRes = "refused"
	} else if bs, ok := got.([]byte); ok && string(bs) == string(fcontent) {
		findRes = fmt.Sprintf("delivered-flag%d", flag)
	} else {
		findRes = "delivered-wrong"
	}
	c.Count("live")
	c.Emit("live %s %s %d | ok va=%s vb=%s offer=%s find=%s", hx(a), hx(b), n, c19r(va, ea, false), c19r(vb, eb, false), offerRes, findRes)
}

type c19step struct {
	peer int // identity (private key) of the peer
	kind string
	pv   []byte
	seq  int // which record of that peer the call is made with
}

func c19stepsString(st []c19step) string {
	p := make([]string, len(st))
	for i, x := range st {
		p[i] = fmt.Sprintf("%d.%d:%s:%s", x.peer, x.seq, x.kind, hx(x.pv))
	}
	return strings.Join(p, ";")
}
func c19parseSteps(s string) []c19step {
	var out []c19step
	for _, part := range strings.Split(s, ";") {
		f := strings.Split(part, ":")
		if len(f) != 3 {
			continue
		}
		var idx, seq int
		if strings.Contains(f[0], ".") {
			fmt.Sscanf(f[0], "%d.%d", &idx, &seq)
		} else {
			fmt.Sscan(f[0], &idx)
		}
		out = append(out, c19step{idx, f[1], unhx(f[2]), seq})
	}
	return out
}

// c19hist: one instance, a sequence of peers (a peer index names one node object for the whole history; its record is
// fixed by the first step that mentions it).
func c19hist(c *Ctx, own []byte, steps []c19step) {
	// the probe's currentVersions IS this slice (the constructor converts, it does not copy): whatever a call does to the
	// instance's own list is visible here
	inst := append([]byte{}, own...)
	p := portalwire.VerifONewVersionProbe(inst)
	nodes := map[[2]int]*enode.Node{}
	keys := map[int]*ecdsa.PrivateKey{}
	rs := make([]string, len(steps))
	owns := make([]string, len(steps))
	for i, st := range steps {
		n, ok := nodes[[2]int{st.peer, st.seq}]
		if !ok {
			k, have := keys[st.peer]
			if !have {
				k = c19key(c)
				keys[st.peer] = k
			}
			n = c19recordSeq(k, st.kind, st.pv, uint64(st.seq))
			nodes[[2]int{st.peer, st.seq}] = n
		}
		rs[i] = c19get(p, n)
		owns[i] = hx(inst)
	}
	c.Count("hist")
	c.Count(fmt.Sprintf("hist_len_%d", len(steps)))
	c.Emit("hist %s %s | ok r=%s own=%s", hx(own), c19stepsString(steps), strings.Join(rs, ","), strings.Join(owns, ","))
}

func c19randSteps(c *Ctx, n int) []c19step {
	r := c.Rng
	out := make([]c19step, 0, n)
	first := map[int]c19step{}
	for i := 0; i < n; i++ {
		idx := r.Intn(n)
		if st, ok := first[idx]; ok && r.Intn(2) == 0 { // the same record object again
			out = append(out, st)
			continue
		} else if ok { // the peer has republished: a new record object of the same node id, possibly another pv
			st.seq = st.seq + 1 + r.Intn(2)
			st.kind, st.pv = "list", c19subset(1+r.Intn(7), []byte{1, 0, 2})
			if r.Intn(5) == 0 {
				st.kind, st.pv = "missing", nil
			}
			first[idx] = st
			out = append(out, st)
			continue
		}
		st := c19step{peer: idx}
		switch r.Intn(6) {
		case 0, 1:
			st.kind = "missing"
		case 2:
			st.kind, st.pv = "malformed", []byte{0, 1}
		default:
			st.kind = "list"
			st.pv = c19subset(1+r.Intn(15), []byte{1, 0, 2, 3})
			if r.Intn(6) == 0 {
				st.pv = []byte{byte(4 + r.Intn(4))}
			}
		}
		first[idx] = st
		out = append(out, st)
	}
	return out
}

func c19accenc(c *Ctx, own []byte, tablePv string, reqKind string, reqPv []byte, exhaust bool, n int) {
	q := make(chan *portalwire.ContentElement, 16)
	R, err := portalwire.VerifONewNode(portalwire.VerifONodeConfig{Key: c19key(c), Versions: own, MaxUtpConn: 1, Storage: storage.NewMockStorage(), ContentQueue: q})
	if err != nil {
		panic(err)
	}
	defer R.Stop()
	ex := 0
	if exhaust {
		ex = 1
	}
	head := fmt.Sprintf("accenc %s %s %s %s %d %d", hx(own), tablePv, reqKind, hx(reqPv), ex, n)
	c.Count("accenc")
	pk := c19key(c)
	if tablePv != "none" {
		old := c19recordSeq(pk, "list", unhx(tablePv), 1)
		R.P.AddEnr(old)
		found := false
		for _, b := range R.P.RoutingTableInfo() {
			for _, id := range b {
				if id == "0x"+old.ID().String() {
					found = true
				}
			}
		}
		if !found {
			c.Emit("%s | err 9", head)
			return
		}
		c.Count("accenc_stale_table_entry")
	}
	req := c19recordSeq(pk, reqKind, reqPv, 2)
	if exhaust {
		p, ok := R.InboundPermit()
		if !ok {
			panic("c19: cannot take the only inbound permit")
		}
		defer p.Release()
		c.Count("accenc_exhausted")
	}
	keys := make([][]byte, n)
	for i := range keys {
		keys[i] = append([]byte("c19-accenc-"), c.Rng.Bytes(8)...)
	}
	ob, err := (&portalwire.Offer{ContentKeys: keys}).MarshalSSZ()
	if err != nil {
		panic(err)
	}
	var resp []byte
	if pn, msg := guard(func() { resp = R.HandleTalkRequest(req, R.Addr(), append([]byte{portalwire.OFFER}, ob...)) }); pn {
		c.Emit("%s | panic %s", head, msg)
		return
	}
	if len(resp) < 7 || resp[0] != portalwire.ACCEPT {
		c.Emit("%s | err 1", head)
		return
	}
	body := resp[7:]
	enc := "?"
	switch len(body) {
	case n:
		enc = "1"
	case n/8 + 1:
		enc = "0"
	}
	c.Emit("%s | ok enc=%s", head, enc)
}

func c19accfull(c *Ctx, own, reqPv []byte, n int) {
	q := make(chan *portalwire.ContentElement, 1)
	q <- &portalwire.ContentElement{}
	R, err := portalwire.VerifONewNode(portalwire.VerifONodeConfig{Key: c19key(c), Versions: own, MaxUtpConn: 4, Storage: storage.NewMockStorage(), ContentQueue: q})
	if err != nil {
		panic(err)
	}
	defer R.Stop()
	head := fmt.Sprintf("accfull %s %s %d", hx(own), hx(reqPv), n)
	c.Count("accfull")
	req := c19recordSeq(c19key(c), "list", reqPv, 1)
	ver, verr := portalwire.VerifOFindBiggestSameNumber(own, reqPv)
	keys := make([][]byte, n)
	for i := range keys {
		keys[i] = append([]byte("c19-accfull-"), c.Rng.Bytes(8)...)
	}
	ob, _ := (&portalwire.Offer{ContentKeys: keys}).MarshalSSZ()
	var resp []byte
	if pn, msg := guard(func() { resp = R.HandleTalkRequest(req, R.Addr(), append([]byte{portalwire.OFFER}, ob...)) }); pn {
		c.Emit("%s | panic %s", head, msg)
		return
	}
	if verr != nil || len(resp) < 7 || resp[0] != portalwire.ACCEPT {
		c.Emit("%s | err 1", head)
		return
	}
	body := resp[7:]
	acc := 0
	if ver == 0 {
		for i := 0; i < n && i/8 < len(body); i++ {
			if body[i/8]&(1<<(i%8)) != 0 {
				acc++
			}
		}
	} else {
		for _, b := range body {
			if b == byte(portalwire.Accepted) {
				acc++
			}
		}
	}
	cid := "z"
	if resp[1] != 0 || resp[2] != 0 {
		cid = "nz"
	}
	c.Emit("%s | ok acc=%d cid=%s", head, acc, cid)
}

func c19subset(mask int, base []byte) []byte {
	out := []byte{}
	for i, v := range base {
		if mask&(1<<i) != 0 {
			out = append(out, v)
		}
	}
	return out
}

func c19randlist(c *Ctx) []byte {
	r := c.Rng
	var n int
	switch r.Intn(6) {
	case 0:
		n = 1
	case 1:
		n = 2
	case 2:
		n = r.Intn(5)
	default:
		n = 1 + r.Intn(12)
	}
	out := make([]byte, n)
	small := r.Bool()
	for i := range out {
		if small {
			out[i] = byte(r.Intn(6))
		} else {
			out[i] = byte(r.Intn(256))
		}
	}
	if r.Intn(3) == 0 {
		sort.Slice(out, func(i, j int) bool { return out[i] < out[j] })
	}
	return out
}

func c19replay(c *Ctx, lines []string) {
	ka, kb := c19key(c), c19key(c)
	for _, ln := range lines {
		f := strings.Fields(strings.SplitN(ln, "|", 2)[0])
		if len(f) < 3 {
			continue
		}
		switch f[0] {
		case "fbs":
			c19fbs(c, unhx(f[1]), unhx(f[2]))
		case "gos":
			c19gos(c, ka, unhx(f[1]), f[2], unhx(f[3]))
		case "sym":
			c19sym(c, ka, kb, unhx(f[1]), unhx(f[2]))
		case "frame":
			c19frame(c, ka, kb, unhx(f[1]), unhx(f[2]), unhx(f[3]))
		case "hist":
			c19hist(c, unhx(f[1]), c19parseSteps(f[2]))
		case "accenc":
			var ex, n int
			fmt.Sscan(f[5], &ex)
			fmt.Sscan(f[6], &n)
			c19accenc(c, unhx(f[1]), f[2], f[3], unhx(f[4]), ex == 1, n)
		case "accfull":
			var n int
			fmt.Sscan(f[3], &n)
			c19accfull(c, unhx(f[1]), unhx(f[2]), n)
		case "live":
			var n int
			fmt.Sscan(f[3], &n)
			c19livePair(c, unhx(f[1]), unhx(f[2]), n)
		}
	}
}

func runC19(c *Ctx) {
	if len(c.Args) >= 2 && c.Args[0] == "replay" {
		c19replay(c, readReplayCases(c.Args[1]))
		return
	}
	n := c.N
	if n == 0 {
		n = 600
		if c.Tier == "thorough" {
			n = 20000
		}
	}
	r := c.Rng
	ka, kb := c19key(c), c19key(c)
	// exhaustive: all 49 ordered pairs of non-empty subsets of {0,1,2}
	base := []byte{0, 1, 2}
	for ma := 1; ma < 8; ma++ {
		for mb := 1; mb < 8; mb++ {
			a, b := c19subset(ma, base), c19subset(mb, base)
			c.Count("exhaustive_pair")
			c19fbs(c, a, b)
			c19gos(c, ka, a, "list", b)
			c19sym(c, ka, kb, a, b)
			c19frame(c, ka, kb, a, b, r.Bytes(r.Pick([]int{0, 1, 127, 128, 300})))
		}
	}
	// missing / malformed / empty entry, empty own list
	for _, own := range [][]byte{{0}, {1}, {0, 1}, {1, 0}, {2, 0, 1}, {7}, {}} {
		c19gos(c, ka, own, "missing", nil)
		c19gos(c, ka, own, "malformed", []byte{0, 1})
		c19gos(c, ka, own, "malformed", nil)
		c19gos(c, ka, own, "list", nil)
		c19fbs(c, own, nil)
		c19fbs(c, nil, own)
	}
	c19fbs(c, nil, nil)
	// histories on one instance, own lists in non-ascending order: no-pv peer, pv peer, another no-pv peer, ...
	for _, own := range [][]byte{{1, 0}, {2, 0, 1}, {0, 1}, {1}, {2, 1, 0}, {0, 2}} {
		c19hist(c, own, []c19step{{0, "missing", nil, 0}, {1, "list", []byte{0, 1}, 0}, {2, "missing", nil, 0}})
		c19hist(c, own, []c19step{{0, "missing", nil, 0}, {1, "list", []byte{1, 0, 2}, 0}, {2, "missing", nil, 0}, {1, "list", []byte{1, 0, 2}, 0}, {3, "malformed", []byte{0}, 0}, {4, "list", []byte{5}, 0}, {5, "missing", nil, 0}, {0, "missing", nil, 0}})
		c19hist(c, own, []c19step{{0, "list", []byte{0}, 1}, {0, "list", []byte{0, 1}, 2}, {0, "list", []byte{0}, 1}, {0, "list", []byte{0, 1}, 2}})
		c19hist(c, own, []c19step{{0, "list", []byte{0, 1}, 1}, {0, "list", []byte{0}, 2}, {1, "missing", nil, 0}, {0, "missing", nil, 3}, {0, "list", []byte{1, 2}, 4}})
		c19hist(c, own, []c19step{{0, "list", []byte{9}, 0}, {1, "missing", nil, 0}, {0, "list", []byte{9}, 0}, {2, "list", []byte{2, 0}, 0}, {3, "missing", nil, 0}})
	}
	for i := 0; i < n; i++ {
		a, b := c19randlist(c), c19randlist(c)
		if r.Intn(3) == 0 && len(a) > 0 && len(b) > 0 { // force a common element
			b[r.Intn(len(b))] = a[r.Intn(len(a))]
		}
		switch r.Intn(7) {
		case 6:
			own := [][]byte{{1, 0}, {2, 0, 1}, {0, 1}, {2, 1, 0}, {3, 1}, {0}, {1, 0, 1}}[r.Intn(7)]
			c19hist(c, own, c19randSteps(c, 2+r.Intn(7)))
		case 0:
			c19fbs(c, a, b)
			c19fbs(c, b, a)
		case 1:
			c19gos(c, ka, a, "list", b)
		case 2:
			c19sym(c, ka, kb, a, b)
		case 3:
			c19frame(c, ka, kb, a, b, r.Bytes(r.Pick([]int{0, 1, 2, 127, 128, 129, 1000})))
		case 4:
			c19gos(c, ka, a, []string{"missing", "malformed"}[r.Intn(2)], b)
		default:
			// permutation / duplication of a subset of {0,1,2,3}
			a2 := c19subset(1+r.Intn(15), []byte{0, 1, 2, 3})
			b2 := c19subset(1+r.Intn(15), []byte{3, 1, 0, 2})
			if r.Bool() {
				a2 = append(a2, a2[0])
			}
			c19gos(c, ka, a2, "list", b2)
			c19sym(c, ka, kb, a2, b2)
		}
	}
	// which encoding a reply is in: stale routing-table record vs the record of the request; exhausted inbound slots
	for _, ex := range []bool{false, true} {
		c19accenc(c, []byte{0, 1}, "00", "list", []byte{0, 1}, ex, 3) // table says v0, the peer now speaks v1
		c19accenc(c, []byte{0, 1}, "0001", "list", []byte{0}, ex, 3)  // table says v1, the peer now speaks v0 only
		c19accenc(c, []byte{0, 1}, "none", "list", []byte{0}, ex, 4)
		c19accenc(c, []byte{0, 1}, "none", "list", []byte{0, 1}, ex, 4)
		c19accenc(c, []byte{0, 1}, "0001", "missing", nil, ex, 5) // now without a pv entry: own base version
	}
	c19accfull(c, []byte{0, 1}, []byte{0, 1}, 3)
	c19accfull(c, []byte{0, 1}, []byte{0}, 3)
	c19accenc(c, []byte{1, 0}, "00", "missing", nil, false, 3)
	c19accenc(c, []byte{0, 1}, "0001", "list", []byte{5}, false, 3)
	nacc := 4
	if c.Tier == "thorough" {
		nacc = 60
	}
	for i := 0; i < nacc; i++ {
		pvs := [][]byte{{0}, {1}, {0, 1}, {1, 0}}
		tp := []string{"none", "00", "01", "0001"}[r.Intn(4)]
		kind := "list"
		if r.Intn(5) == 0 {
			kind = "missing"
		}
		c19accenc(c, [][]byte{{0, 1}, {1, 0}, {0}, {1}}[r.Intn(4)], tp, kind, pvs[r.Intn(4)], r.Intn(3) == 0, 2+r.Intn(6))
	}
	// live pairs: every pairing of subsets of {0,1,2} that shares 0 or 1 (thorough), a rotating sample in quick
	type pair struct{ a, b []byte }
	var pairs []pair
	for ma := 1; ma < 8; ma++ {
		for mb := 1; mb < 8; mb++ {
			if ma&mb&3 != 0 {
				pairs = append(pairs, pair{c19subset(ma, base), c19subset(mb, base)})
			}
		}
	}
	nl := 4
	if c.Tier == "thorough" {
		nl = len(pairs)
	}
	start := r.Intn(len(pairs))
	for i := 0; i < nl; i++ {
		p := pairs[(start+i*7)%len(pairs)]
		c19livePair(c, p.a, p.b, r.Pick([]int{0, 1, 500, 2000, 40000}))
	}
}
