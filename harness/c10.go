//go:build c10 || all

package main

import (
	"bufio"
	"bytes"
	"context"
	"errors"
	"fmt"
	"os"
	"os/exec"
	"runtime"
	"sort"
	"strconv"
	"strings"
	"sync"
	"time"

	"github.com/ethereum/go-ethereum/p2p/enode"
	"github.com/zen-eth/shisui/portalwire"
)

// C10: lookups terminate, ask each peer once, return the closest nodes seen.
//
// Lines (identifiers are 32-byte hex; everywhere else a node is its index in <universe>, index 0 = the local node):
//
//	lk <target> <universe> <table> <answers> <closeTable> <policy> | ok <events> <closest> <result> <asked> <seen> <queries> <undrained>
//	                                                                | err timeout <events>
//	   table    indices in the order findnodeByID visits the buckets (as exported by the hook), "." = empty
//	   answers  i<kind>:a,b,_,c;...   what the query function returns for peer i ("_" = nil entry); peers not listed
//	            answer nothing.  kind h = no error, e = with an error, c = with errClosed (lookup.query skips trackRequest)
//	   policy   <order>:<seed>:<cancelAfter>   order in which the harness lets outstanding queries return
//	            (fifo|lifo|rnd|near|far|burst), cancelAfter = -1 or the number of completions after which the context is cancelled;
//	            a 4th component 1 = the outstanding query functions ignore the cancellation for 2 ms (the lookup must wait),
//	            2 = in addition the table is shut down at the cancellation (closeReq closed, nobody receives tracked requests)
//	   events   S<i> query function entered for i, E<i> query function about to return for i, C = context cancelled,
//	   undrained  query functions still running when lookup.run returned (shutdown has to wait for all of them)
//	            T<i> / T<i>+ lookup.query handed the answer of i to tab.trackRequest with success = false / true (it sends on the reply channel right after;
//	            logged by the receiving goroutine, so only a hint for the order of the replies)
//	push <target> <max> <ids> | ok <ids>            nodesByDistance.push applied left to right
//	cl ...                                          content lookup, see c10_content.go
//	ll ...                                          live node lookup over loopback, see c10_live.go
//	cu ...                                          content lookup with a uTP transfer, see c10_utp.go
type c10peer struct {
	kind  byte
	nodes []int // -1 = nil entry
}

type c10case struct {
	target     enode.ID
	ids        []enode.ID
	table      []int
	ans        map[int]c10peer
	closeTable bool
	order      string
	seed       uint64
	cancelAt   int
	hold       bool // outstanding query functions ignore the cancellation (like lookupWorker, which takes no context)
	tclose     bool // at the cancellation the table is shut down too (Stop(): context cancelled, table closed) while queries are in flight
}

func init() { registry["C10"] = runC10 }

func c10hexid(id enode.ID) string { return fmt.Sprintf("%x", id[:]) }

func c10idxs(l []int) string {
	if len(l) == 0 {
		return "."
	}
	p := make([]string, len(l))
	for i, v := range l {
		if v < 0 {
			p[i] = "_"
		} else {
			p[i] = strconv.Itoa(v)
		}
	}
	return strings.Join(p, ",")
}

func c10parseIdxs(s string) []int {
	if s == "." || s == "" {
		return nil
	}
	var out []int
	for _, p := range strings.Split(s, ",") {
		if p == "_" {
			out = append(out, -1)
		} else {
			v, _ := strconv.Atoi(p)
			out = append(out, v)
		}
	}
	return out
}

func (k *c10case) inputs() string {
	ids := make([]string, len(k.ids))
	for i, id := range k.ids {
		ids[i] = c10hexid(id)
	}
	keys := make([]int, 0, len(k.ans))
	for i := range k.ans {
		keys = append(keys, i)
	}
	sort.Ints(keys)
	var ans []string
	for _, i := range keys {
		p := k.ans[i]
		ans = append(ans, fmt.Sprintf("%d%c:%s", i, p.kind, c10idxs(p.nodes)))
	}
	a := "."
	if len(ans) > 0 {
		a = strings.Join(ans, ";")
	}
	ct := 0
	if k.closeTable {
		ct = 1
	}
	hold := 0
	if k.hold {
		hold = 1
	}
	if k.tclose {
		hold = 2
	}
	return fmt.Sprintf("lk %s %s %s %s %d %s:%d:%d:%d", c10hexid(k.target), strings.Join(ids, ","), c10idxs(k.table), a, ct, k.order, k.seed, k.cancelAt, hold)
}

func c10parse(f []string) *c10case {
	k := &c10case{ans: map[int]c10peer{}}
	copy(k.target[:], unhx(f[1]))
	for _, h := range strings.Split(f[2], ",") {
		var id enode.ID
		copy(id[:], unhx(h))
		k.ids = append(k.ids, id)
	}
	k.table = c10parseIdxs(f[3])
	if f[4] != "." {
		for _, e := range strings.Split(f[4], ";") {
			hd, body, _ := strings.Cut(e, ":")
			i, _ := strconv.Atoi(hd[:len(hd)-1])
			k.ans[i] = c10peer{kind: hd[len(hd)-1], nodes: c10parseIdxs(body)}
		}
	}
	k.closeTable = f[5] == "1"
	pp := strings.Split(f[6], ":")
	k.order = pp[0]
	k.seed, _ = strconv.ParseUint(pp[1], 10, 64)
	k.cancelAt, _ = strconv.Atoi(pp[2])
	k.hold = len(pp) > 3 && (pp[3] == "1" || pp[3] == "2")
	k.tclose = len(pp) > 3 && pp[3] == "2"
	return k
}

var errC10Fail = errors.New("verif: scripted failure")

// c10exec runs the real lookup under the scripted schedule and returns the observable.
func c10exec(k *c10case) string {
	index := make(map[enode.ID]int, len(k.ids))
	for i, id := range k.ids {
		index[id] = i
	}
	nodes := make([]*enode.Node, len(k.ids))
	for i, id := range k.ids {
		nodes[i] = portalwire.VerifLookupNode(id)
	}
	var (
		mu      sync.Mutex
		events  []string
		blocked = map[int]chan struct{}{}
		order   []int // blocked peers in arrival order
		wake    = make(chan struct{}, 1024)
		tracked = make(chan int, 1024)
	)
	logev := func(s string) { events = append(events, s) }
	ctx, cancel := context.WithCancel(context.Background())
	defer cancel()
	burst := k.order == "burst"
	nstarted := 0
	ntracked := 0
	nended := 0
	undrained := 0

	query := func(n *enode.Node) ([]*enode.Node, error) {
		i := index[n.ID()]
		p := k.ans[i]
		mu.Lock()
		logev("S" + strconv.Itoa(i))
		nstarted++
		doCancel := burst && k.cancelAt >= 0 && nstarted == k.cancelAt+1
		if doCancel {
			logev("C")
		}
		var ch chan struct{}
		if !burst && ctx.Err() == nil {
			ch = make(chan struct{})
			blocked[i] = ch
			order = append(order, i)
		}
		mu.Unlock()
		if doCancel {
			cancel()
		}
		if ch != nil {
			select {
			case wake <- struct{}{}:
			default:
			}
			if k.hold {
				<-ch
			} else {
				select {
				case <-ch:
				case <-ctx.Done():
				}
			}
		}
		out := make([]*enode.Node, len(p.nodes))
		for j, v := range p.nodes {
			if v >= 0 {
				out[j] = nodes[v]
			}
		}
		if len(p.nodes) == 0 && p.kind != 'h' {
			out = nil
		}
		var err error
		switch p.kind {
		case 'e':
			err = errC10Fail
		case 'c':
			err = portalwire.VerifLookupErrClosed()
		}
		mu.Lock()
		logev("E" + strconv.Itoa(i))
		nended++
		if p.kind == 'c' {
			// no trackRequest for this one
			ntracked++
		}
		mu.Unlock()
		if p.kind == 'c' {
			select {
			case tracked <- i:
			default:
			}
		}
		return out, err
	}
	onTrack := func(id enode.ID, success bool, found int) {
		i := index[id]
		mu.Lock()
		if success {
			logev("T" + strconv.Itoa(i) + "+") // trackRequest(n, success = true, ...)
		} else {
			logev("T" + strconv.Itoa(i))
		}
		ntracked++
		mu.Unlock()
		select {
		case tracked <- i:
		default:
		}
		// lookup.query sends on the reply channel right after trackRequest returns; give it the processor
		// before the next tracked request is accepted, so that the E order is the order of the replies
		for j := 0; j < 4; j++ {
			runtime.Gosched()
		}
	}

	closeNow, closedAck := make(chan struct{}), make(chan struct{})
	type outT struct{ r portalwire.VerifLookupResult }
	done := make(chan outT, 1)
	go func() {
		tb := make([]enode.ID, len(k.table))
		for i, v := range k.table {
			tb[i] = k.ids[v]
		}
		if k.tclose {
			done <- outT{portalwire.VerifLookupRunClosable(ctx, k.ids[0], tb, k.target, k.closeTable, query, onTrack, closeNow, closedAck)}
		} else {
			done <- outT{portalwire.VerifLookupRun(ctx, k.ids[0], tb, k.target, k.closeTable, query, onTrack)}
		}
	}()

	rng := NewRng(k.seed)
	released := 0
	// a healthy run takes milliseconds (an empty table with tab.closeReq open: one 1 s slowdown)
	bound := 5 * time.Second
	deadline := time.After(bound)
	var res portalwire.VerifLookupResult
	finished := false
	// run() has returned: how many query functions are still running?  (shutdown must have waited for all of them)
	finish := func(o portalwire.VerifLookupResult) {
		mu.Lock()
		undrained = nstarted - nended
		for i, ch := range blocked {
			close(ch)
			delete(blocked, i)
		}
		order = nil
		mu.Unlock()
		res = o
		finished = true
	}
	releaseAll := func() {
		mu.Lock()
		for i, ch := range blocked {
			close(ch)
			delete(blocked, i)
		}
		order = nil
		mu.Unlock()
	}
	for !finished {
		// cancellation point
		if !burst && k.cancelAt >= 0 && released >= k.cancelAt && ctx.Err() == nil {
			mu.Lock()
			inflight := len(order)
			mu.Unlock()
			// with a table shutdown the point is a query in flight at that moment: wait for one
			if !k.tclose || inflight > 0 {
				mu.Lock()
				logev("C")
				mu.Unlock()
				cancel()
				if k.tclose {
					close(closeNow)
					select {
					case <-closedAck:
					case <-time.After(time.Second):
					}
				}
			}
		}
		mu.Lock()
		nb := len(order)
		var pick int = -1
		if nb > 0 && ctx.Err() == nil {
			var pos int
			switch k.order {
			case "fifo":
				pos = 0
			case "lifo":
				pos = nb - 1
			case "near", "far":
				pos = 0
				for j := 1; j < nb; j++ {
					c := enode.DistCmp(k.target, k.ids[order[j]], k.ids[order[pos]])
					if (k.order == "near" && c < 0) || (k.order == "far" && c > 0) {
						pos = j
					}
				}
			default:
				pos = rng.Intn(nb)
			}
			pick = order[pos]
			order = append(order[:pos], order[pos+1:]...)
			ch := blocked[pick]
			delete(blocked, pick)
			close(ch)
			released++
		}
		mu.Unlock()
		if pick >= 0 {
			// wait until this answer is on its way
			t := time.NewTimer(5 * time.Second)
		waitTrack:
			for {
				select {
				case i := <-tracked:
					if i == pick {
						break waitTrack
					}
				case <-t.C:
					break waitTrack
				case <-ctx.Done():
					break waitTrack
				}
			}
			t.Stop()
			for j := 0; j < 8; j++ {
				runtime.Gosched()
			}
			// sometimes let the lookup settle so that more queries are outstanding to choose from
			if rng.Intn(3) > 0 {
				time.Sleep(50 * time.Microsecond)
			}
			continue
		}
		select {
		case o := <-done:
			finish(o.r)
		case <-wake:
		case <-tracked:
		case <-ctx.Done():
			// after cancellation: in hold mode the outstanding query functions keep running for a moment - the
			// lookup must not return before they have; then everything is let go and the lookup has to end
			if k.hold {
				select {
				case o := <-done:
					finish(o.r)
				case <-time.After(2 * time.Millisecond):
				}
			}
			for !finished {
				releaseAll()
				select {
				case o := <-done:
					finish(o.r)
				case <-wake:
				case <-tracked:
				case <-deadline:
					mu.Lock()
					ev := strings.Join(events, ",")
					mu.Unlock()
					if k.tclose {
						return "err timeout after-table-closed " + ev
					}
					return "err timeout " + ev
				}
			}
		case <-deadline:
			mu.Lock()
			ev := strings.Join(events, ",")
			mu.Unlock()
			// let everything go so that the goroutines end
			releaseAll()
			cancel()
			return "err timeout " + ev
		}
	}
	// every started query has been drained by now; its T event may still be on its way
	for w := 0; w < 4000 && ((undrained == 0 && !k.tclose) || w < 40); w++ {
		mu.Lock()
		ok := ntracked == nstarted
		mu.Unlock()
		if ok {
			break
		}
		time.Sleep(50 * time.Microsecond)
	}
	mu.Lock()
	ev := "."
	if len(events) > 0 {
		ev = strings.Join(events, ",")
	}
	mu.Unlock()
	toIdx := func(ids []enode.ID, sorted bool) string {
		out := make([]int, len(ids))
		for i, id := range ids {
			v, ok := index[id]
			if !ok {
				v = 999999
			}
			out[i] = v
		}
		if sorted {
			sort.Ints(out)
		}
		return c10idxs(out)
	}
	// the asked set is internal bookkeeping: whether the local id is pre-marked in it is not observable behaviour
	// ("never ask the local node" is judged on the query events), so it is projected away on both sides
	askedPeers := make([]enode.ID, 0, len(res.Asked))
	for _, id := range res.Asked {
		if v, ok := index[id]; !ok || v != 0 {
			askedPeers = append(askedPeers, id)
		}
	}
	return fmt.Sprintf("ok %s %s %s %s %s %d %d", ev, toIdx(res.Closest, false), toIdx(res.Nodes, false), toIdx(askedPeers, true), toIdx(res.Seen, true), res.Queries, undrained)
}

// ---------------------------------------------------------------- generator

func c10id(r *Rng, target enode.ID) enode.ID {
	var id enode.ID
	copy(id[:], r.Bytes(32))
	switch r.Intn(10) {
	case 0, 1, 2, 3: // random
	case 4, 5, 6: // shares a byte prefix with the target
		n := r.Intn(32)
		copy(id[:n], target[:n])
	case 7: // differs from the target in the last bytes only
		copy(id[:], target[:])
		id[31] ^= byte(1 + r.Intn(255))
		if r.Bool() {
			id[30] ^= byte(r.Intn(256))
		}
	case 8: // shares a bit prefix
		n := r.Intn(31)
		copy(id[:n], target[:n])
		m := byte(0xff) >> uint(r.Intn(8))
		id[n] = (target[n] &^ m) | (id[n] & m)
	case 9: // far: first bit differs
		id[0] = target[0] ^ 0x80 ^ (id[0] & 0x7f)
	}
	return id
}

func c10gen(c *Ctx, n int) *c10case {
	r := c.Rng
	k := &c10case{ans: map[int]c10peer{}}
	copy(k.target[:], r.Bytes(32))
	switch r.Intn(8) {
	case 0:
		k.target = enode.ID{}
	case 1:
		for i := range k.target {
			k.target[i] = 0xff
		}
	}
	seenID := map[enode.ID]bool{}
	add := func(id enode.ID) {
		for seenID[id] {
			id[31]++
			if id[31] == 0 {
				id[30]++
			}
		}
		seenID[id] = true
		k.ids = append(k.ids, id)
	}
	// the local node; sometimes the lookup is for ourselves (lookupSelf)
	self := c10id(r, k.target)
	if r.Intn(6) == 0 {
		self = k.target
		c.Count("target_is_self")
	}
	add(self)
	for i := 0; i < n; i++ {
		add(c10id(r, k.target))
	}
	// peers by distance to the target (closest first), for "honest" answers
	byDist := make([]int, 0, n)
	for i := 1; i <= n; i++ {
		byDist = append(byDist, i)
	}
	sort.Slice(byDist, func(a, b int) bool { return enode.DistCmp(k.target, k.ids[byDist[a]], k.ids[byDist[b]]) < 0 })
	rank := make(map[int]int, n)
	for p, i := range byDist {
		rank[i] = p
	}
	anyPeer := func() int {
		if n == 0 {
			return 0
		}
		return 1 + r.Intn(n)
	}
	shape := []string{"chain", "star", "cycle", "honest", "mixed", "mixed", "liars", "silent"}[r.Intn(8)]
	if n == 0 {
		shape = "empty"
	}
	c.Count("shape_" + shape)
	honest := func(i int) c10peer {
		// some closer peers and a few arbitrary ones
		var l []int
		m := 1 + r.Intn(16)
		p := rank[i]
		for j := 0; j < m; j++ {
			if p > 0 && r.Intn(4) > 0 {
				l = append(l, byDist[r.Intn(p)])
			} else {
				l = append(l, anyPeer())
			}
		}
		return c10peer{'h', l}
	}
	liar := func(i int) c10peer {
		var l []int
		switch r.Intn(7) {
		case 0: // the asker itself, several times
			l = []int{0, 0, anyPeer(), 0}
		case 1: // duplicates
			a, b := anyPeer(), anyPeer()
			l = []int{a, a, b, a, b, b}
		case 2: // itself
			l = []int{i, i}
		case 3: // nil entries
			l = []int{-1, anyPeer(), -1}
		case 4: // far more than a bucket
			for j := 0; j < 17+r.Intn(40); j++ {
				l = append(l, anyPeer())
			}
		case 5: // the farthest nodes there are
			for j := 0; j < 1+r.Intn(8) && j < n; j++ {
				l = append(l, byDist[n-1-j])
			}
		case 6: // answers and fails
			return c10peer{'e', []int{anyPeer(), anyPeer()}}
		}
		return c10peer{'h', l}
	}
	for i := 1; i <= n; i++ {
		switch shape {
		case "chain":
			if i < n {
				k.ans[i] = c10peer{'h', []int{i + 1}}
			}
		case "cycle":
			k.ans[i] = c10peer{'h', []int{i%n + 1}}
		case "star":
			if i == 1 {
				var l []int
				for j := 2; j <= n; j++ {
					l = append(l, j)
				}
				k.ans[i] = c10peer{'h', l}
			} else if r.Intn(3) == 0 {
				k.ans[i] = c10peer{'h', []int{1}}
			}
		case "honest":
			k.ans[i] = honest(i)
		case "liars":
			k.ans[i] = liar(i)
		case "silent":
			switch r.Intn(4) {
			case 0:
				k.ans[i] = c10peer{'e', nil}
			case 1:
				k.ans[i] = c10peer{'c', nil}
			case 2:
				k.ans[i] = c10peer{'h', nil}
			default:
				k.ans[i] = honest(i)
			}
		case "mixed":
			switch x := r.Intn(10); {
			case x < 5:
				k.ans[i] = honest(i)
			case x < 7:
				k.ans[i] = liar(i)
			case x == 7:
				k.ans[i] = c10peer{'e', nil}
			case x == 8:
				k.ans[i] = c10peer{'c', []int{anyPeer()}}
			}
		}
	}
	// starting set
	switch x := r.Intn(10); {
	case n == 0 || x == 0:
		c.Count("table_empty")
	case x == 1: // more than a bucket
		for j := 0; j < 17+r.Intn(24) && j < n; j++ {
			k.table = append(k.table, anyPeer())
		}
	case x == 2 && shape != "chain": // one node
		k.table = []int{anyPeer()}
	case shape == "chain" || shape == "cycle" || shape == "star":
		k.table = []int{1}
		if r.Bool() {
			k.table = append(k.table, anyPeer())
		}
	default:
		for j := 0; j < 1+r.Intn(16); j++ {
			k.table = append(k.table, anyPeer())
		}
	}
	// no duplicates in the table (a bucket never holds a node twice); rarely the local node itself
	uniq := map[int]bool{}
	var tb []int
	for _, v := range k.table {
		if !uniq[v] {
			uniq[v] = true
			tb = append(tb, v)
		}
	}
	k.table = tb
	if r.Intn(25) == 0 && !uniq[0] {
		k.table = append(k.table, 0)
		c.Count("table_contains_self")
	}
	// closing tab.closeReq skips the 1 s slowdown of an empty table; with a non-empty table it stays open so that
	// lookup.query always goes through trackRequest (the harness logs E there)
	k.closeTable = len(k.table) == 0
	k.order = []string{"fifo", "lifo", "rnd", "rnd", "rnd", "near", "far", "burst"}[r.Intn(8)]
	k.seed = r.U64() % 1000000007
	k.cancelAt = -1
	if r.Intn(4) == 0 {
		k.cancelAt = r.Intn(n + 2)
		if r.Intn(3) == 0 {
			k.cancelAt = r.Intn(4)
		}
		c.Count("cancelled_runs")
		if k.order != "burst" && r.Intn(2) == 0 {
			k.hold = true
			c.Count("cancelled_runs_holding_queries")
			if r.Intn(3) == 0 {
				k.tclose = true
				c.Count("cancelled_runs_closing_the_table")
			}
		}
	}
	c.Count("order_" + k.order)
	return k
}

// the hook reports the table in bucket visiting order; the case line carries that order
func c10normaliseTable(k *c10case) {
	tb := make([]enode.ID, len(k.table))
	for i, v := range k.table {
		tb[i] = k.ids[v]
	}
	scan := portalwire.VerifLookupScanOrder(k.ids[0], tb)
	index := make(map[enode.ID]int, len(k.ids))
	for i, id := range k.ids {
		index[id] = i
	}
	k.table = k.table[:0]
	for _, id := range scan {
		k.table = append(k.table, index[id])
	}
}

func c10emit(c *Ctx, k *c10case) {
	c10normaliseTable(k)
	for _, ln := range c10batch([]string{k.inputs()}) {
		c.Count("result_" + strings.TrimSpace(strings.SplitN(ln, "|", 2)[1])[:2])
		c.Emit("%s", ln)
	}
}

// Lookups run in a CHILD process (`C10 lkchild`, case inputs on stdin, one line out per case): a panic in one of the
// lookup's own goroutines (nothing in this process could recover it) ends the child only; the case that was running is
// reported as `<inputs> | panic <msg>` and a fresh child continues with the rest.
func c10lkchild(c *Ctx) {
	sc := bufio.NewScanner(os.Stdin)
	sc.Buffer(make([]byte, 1<<20), 64<<20)
	timeouts := 0
	for sc.Scan() {
		f := strings.Fields(sc.Text())
		if len(f) < 7 || f[0] != "lk" {
			continue
		}
		k := c10parse(f)
		out := c10exec(k)
		if k.cancelAt >= 0 {
			// leave a moment for goroutines the lookup may have left behind, so that a crash is attributed to this case
			time.Sleep(300 * time.Microsecond)
		}
		fmt.Printf("%s | %s\n", k.inputs(), out)
		if strings.HasPrefix(out, "err timeout") {
			// three lookups that never ended are enough: the remaining cases of the batch are not run
			if timeouts++; timeouts >= 3 {
				fmt.Println("STOP")
				return
			}
		}
	}
}

func c10batch(inputs []string) []string {
	var outs []string
	exe, err := os.Executable()
	for len(outs) < len(inputs) {
		if err != nil {
			outs = append(outs, inputs[len(outs)]+" | err setup no-executable")
			continue
		}
		rest := inputs[len(outs):]
		cmd := exec.Command(exe, "C10", "lkchild")
		stdin, _ := cmd.StdinPipe()
		stdout, _ := cmd.StdoutPipe()
		var stderr bytes.Buffer
		cmd.Stderr = &stderr
		if e := cmd.Start(); e != nil {
			outs = append(outs, rest[0]+" | err setup "+strings.ReplaceAll(e.Error(), " ", "_"))
			continue
		}
		go func() {
			w := bufio.NewWriterSize(stdin, 1<<20)
			for _, ln := range rest {
				w.WriteString(ln)
				w.WriteByte('\n')
			}
			w.Flush()
			stdin.Close()
		}()
		got := 0
		sc := bufio.NewScanner(stdout)
		sc.Buffer(make([]byte, 1<<20), 64<<20)
		stopped := false
		for sc.Scan() {
			ln := sc.Text()
			if ln == "STOP" {
				stopped = true
			} else if strings.HasPrefix(ln, "lk ") && got < len(rest) {
				outs = append(outs, ln)
				got++
			}
		}
		if stopped {
			stdin.Close()
			cmd.Process.Kill()
			cmd.Wait()
			return outs
		}
		cmd.Wait()
		if got < len(rest) {
			msg := "child-exited-without-a-line"
			for _, ln := range strings.Split(stderr.String(), "\n") {
				if strings.HasPrefix(ln, "panic:") || strings.HasPrefix(ln, "fatal error:") {
					msg = strings.ReplaceAll(strings.TrimSpace(ln), " ", "_")
					break
				}
			}
			outs = append(outs, rest[got]+" | panic "+msg)
		}
	}
	return outs
}

func c10push(c *Ctx, target enode.ID, max int, ids []enode.ID) {
	out := portalwire.VerifLookupPush(target, max, ids)
	f := func(l []enode.ID) string {
		if len(l) == 0 {
			return "."
		}
		p := make([]string, len(l))
		for i, id := range l {
			p[i] = c10hexid(id)
		}
		return strings.Join(p, ",")
	}
	c.Emit("push %s %d %s | ok %s", c10hexid(target), max, f(ids), f(out))
}

func c10replay(c *Ctx, lines []string) {
	for _, ln := range lines {
		f := strings.Fields(strings.SplitN(ln, "|", 2)[0])
		if len(f) == 0 {
			continue
		}
		switch f[0] {
		case "lk":
			if len(f) >= 7 {
				c10emit(c, c10parse(f))
			}
		case "push":
			var t enode.ID
			copy(t[:], unhx(f[1]))
			m, _ := strconv.Atoi(f[2])
			var ids []enode.ID
			if f[3] != "." {
				for _, h := range strings.Split(f[3], ",") {
					var id enode.ID
					copy(id[:], unhx(h))
					ids = append(ids, id)
				}
			}
			c10push(c, t, m, ids)
		case "cl":
			c10contentReplay(c, f)
		case "ll":
			c10liveReplay(c, f)
		case "cu":
			c10utpReplay(c, f)
		}
	}
}

func runC10(c *Ctx) {
	if len(c.Args) >= 2 && c.Args[0] == "replay" {
		c10replay(c, readReplayCases(c.Args[1]))
		return
	}
	if len(c.Args) >= 1 && c.Args[0] == "lkchild" {
		c10lkchild(c)
		return
	}
	if len(c.Args) >= 1 && c.Args[0] == "cuchild" {
		c10uchildMain(c, c.Args[1:])
		return
	}
	if len(c.Args) >= 1 && c.Args[0] == "llchild" {
		c10llchild(c, c.Args[1:])
		return
	}
	if len(c.Args) >= 1 && c.Args[0] == "clchild" {
		c10clchild(c, c.Args[1:])
		return
	}
	n := c.N
	if n == 0 {
		n = 700
		if c.Tier == "thorough" {
			n = 6000
		}
	}
	r := c.Rng
	// push on its own: small bounds, equal ids, every insertion position
	for i := 0; i < n/2; i++ {
		var t enode.ID
		copy(t[:], r.Bytes(32))
		m := []int{0, 1, 2, 3, 16, 16, 16, 5}[r.Intn(8)]
		cnt := r.Intn(40)
		var ids []enode.ID
		for j := 0; j < cnt; j++ {
			if len(ids) > 0 && r.Intn(8) == 0 {
				ids = append(ids, ids[r.Intn(len(ids))]) // the same id again (callers filter these; push itself does not)
			} else {
				ids = append(ids, c10id(r, t))
			}
		}
		c.Count("push_cases")
		c10push(c, t, m, ids)
	}
	sizes := []int{0, 0, 1, 2, 3, 4, 5, 8, 15, 16, 17, 18, 30, 33, 50, 64, 100, 150, 200}
	// an empty starting table with tab.closeReq open: the lookup pauses once for 1 s (slowdown) and must then end by
	// itself - no cancellation, nobody closes the table.  These runs wait on the clock, so they go on in the background.
	nslow := 2
	if c.Tier == "thorough" {
		nslow = 6
	}
	if c.N > 0 && c.N < 100 {
		nslow = 1
	}
	var slowIn []string
	for i := 0; i < nslow; i++ {
		k := c10gen(c, []int{0, 5, 1, 30, 2, 100}[i%6])
		k.table = nil
		k.closeTable = false
		k.cancelAt = -1
		k.hold = false
		c10normaliseTable(k)
		slowIn = append(slowIn, k.inputs())
		c.Count("slowdown_1s_runs")
	}
	slowOut := make([][]string, nslow)
	var wg sync.WaitGroup
	for i := range slowIn {
		wg.Add(1)
		go func(i int) {
			defer wg.Done()
			slowOut[i] = c10batch(slowIn[i : i+1])
		}(i)
	}
	var inputs []string
	for i := 0; i < n; i++ {
		sz := r.Pick(sizes)
		if r.Intn(3) == 0 {
			sz = r.Intn(201)
		}
		k := c10gen(c, sz)
		c10normaliseTable(k)
		inputs = append(inputs, k.inputs())
	}
	outs := c10batch(inputs)
	wg.Wait()
	for _, o := range slowOut {
		outs = append(outs, o...)
	}
	for _, ln := range outs {
		c.Count("result_" + strings.TrimSpace(strings.SplitN(ln, "|", 2)[1])[:2])
		c.Emit("%s", ln)
	}
	c10content(c)
	c10livelookups(c)
	c10utplookups(c)
}

var _ = bytes.Equal
