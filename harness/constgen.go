package main

import (
	"fmt"
	"sort"

	"github.com/zen-eth/shisui/portalwire"
)

// constgen prints coq/Gen/Constants.v from the constants as compiled from the current /repo tree.
func init() { registry["constgen"] = runConstgen }

var extraConsts = []func() map[string]uint64{}

func runConstgen(c *Ctx) {
	m := portalwire.VerifConstants()
	for _, f := range extraConsts {
		for k, v := range f() {
			m[k] = v
		}
	}
	keys := make([]string, 0, len(m))
	for k := range m {
		keys = append(keys, k)
	}
	sort.Strings(keys)
	c.Emit("(* GENERATED on every run by `harness constgen` from the Go constants compiled from /repo. Do not edit. *)")
	c.Emit("From Coq Require Import NArith List.")
	c.Emit("Import ListNotations.")
	c.Emit("Open Scope N_scope.")
	c.Emit("Module K.")
	for _, k := range keys {
		c.Emit("Definition %s : N := %d.", k, m[k])
	}
	vs := portalwire.VerifVersions()
	s := ""
	for i, v := range vs {
		if i > 0 {
			s += "; "
		}
		s += fmt.Sprint(v)
	}
	c.Emit("Definition Versions : list N := [%s].", s)
	c.Emit("End K.")
}
