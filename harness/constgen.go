package main

import (
	"fmt"
	"sort"
)

// emitConsts prints one coq/Gen/K_<group>.v from constants compiled from the current /repo tree.
func emitConsts(c *Ctx, group string, m map[string]uint64, lists map[string][]uint64) {
	keys := make([]string, 0, len(m))
	for k := range m {
		keys = append(keys, k)
	}
	sort.Strings(keys)
	c.Emit("(* GENERATED on every run by `harness constgen_%s` from the Go constants compiled from /repo. Do not edit. *)", group)
	c.Emit("From Coq Require Import NArith List.")
	c.Emit("Import ListNotations.")
	c.Emit("Open Scope N_scope.")
	for _, k := range keys {
		c.Emit("Definition K_%s : N := %d.", k, m[k])
	}
	lk := make([]string, 0, len(lists))
	for k := range lists {
		lk = append(lk, k)
	}
	sort.Strings(lk)
	for _, k := range lk {
		s := ""
		for i, v := range lists[k] {
			if i > 0 {
				s += "; "
			}
			s += fmt.Sprint(v)
		}
		c.Emit("Definition K_%s : list N := [%s].", k, s)
	}
}
