//go:build c01 || all

package main

import (
	"bufio"
	"fmt"
	"net"
	"os"
	"os/exec"
	"strconv"
	"strings"
	"time"

	"github.com/ethereum/go-ethereum/common"
	"github.com/ethereum/go-ethereum/crypto"
	"github.com/ethereum/go-ethereum/log"
	"github.com/ethereum/go-ethereum/p2p/discover"
	"github.com/ethereum/go-ethereum/p2p/enode"
	"github.com/zen-eth/shisui/portal"
	"github.com/zen-eth/shisui/portalwire"
)

// Live attack: a full node (history, beacon, state + uTP) runs in a CHILD process with its talk handlers in the
// discv5 goroutines, exactly as deployed (no recover anywhere).  The parent sends TALKREQs over loopback UDP on the
// three portal protocol ids and the uTP id and checks after every input that the child is still alive and answering.
//   live <proto> <hex> | alive / dead / silent

// c01victim is the child: start the node, print its ENR, serve until stdin closes.
func c01victim(c *Ctx) {
	log.SetDefault(log.NewLogger(log.DiscardHandler()))
	dir, err := os.MkdirTemp("", "verif-c01v-")
	if err != nil {
		panic(err)
	}
	defer os.RemoveAll(dir)
	key, _ := crypto.ToECDSA(common.LeftPadBytes([]byte{0x43, byte(c.Seed)}, 32))
	cfg := portal.DefaultConfig()
	cfg.PrivateKey = key
	cfg.DataDir = dir
	cfg.DataCapacity = 10
	cfg.RpcAddr = "127.0.0.1:0"
	cfg.Networks = []string{"history", "beacon", "state"}
	cfg.DisableTableInitCheck = true
	cfg.PortalProtocolConfig.ListenAddr = "127.0.0.1:0"
	n, err := portal.NewNode(cfg)
	if err != nil {
		panic(err)
	}
	if err := n.Start(); err != nil {
		panic(err)
	}
	h, _, _ := n.VerifDNetworks()
	fmt.Printf("ENR %d\n", h.VerifDProtocol().Self().UDP())
	os.Stdout.Sync()
	// a stored historical-summaries record, so the stateful beacon paths are reachable
	_, b, _ := n.VerifDNetworks()
	k := []byte{0x14, 1, 0, 0, 0, 0, 0, 0, 0}
	_ = b.VerifDProtocol().VerifDStorage().Put(k, b.VerifDProtocol().VerifDToContentId(k), make([]byte, 64))
	rd := bufio.NewReader(os.Stdin)
	for {
		if _, err := rd.ReadString('\n'); err != nil {
			break
		}
	}
	os.Exit(0)
}

type c01victimProc struct {
	cmd  *exec.Cmd
	node *enode.Node
	in   interface{ Close() error }
	done chan struct{}
}

func c01spawn(c *Ctx) (*c01victimProc, error) {
	exe, err := os.Executable()
	if err != nil {
		return nil, err
	}
	cmd := exec.Command(exe, "-seed", fmt.Sprint(c.Seed), "C01", "victim")
	in, _ := cmd.StdinPipe()
	out, _ := cmd.StdoutPipe()
	cmd.Stderr = nil
	if err := cmd.Start(); err != nil {
		return nil, err
	}
	v := &c01victimProc{cmd: cmd, in: in, done: make(chan struct{})}
	go func() { _ = cmd.Wait(); close(v.done) }()
	rd := bufio.NewReader(out)
	lineCh := make(chan string, 1)
	go func() {
		for {
			l, err := rd.ReadString('\n')
			if err != nil {
				return
			}
			if strings.HasPrefix(l, "ENR ") {
				lineCh <- strings.TrimSpace(l[4:])
				return
			}
		}
	}()
	select {
	case l := <-lineCh:
		port, err := strconv.Atoi(l)
		if err != nil {
			return nil, err
		}
		key, _ := crypto.ToECDSA(common.LeftPadBytes([]byte{0x43, byte(c.Seed)}, 32))
		v.node = enode.NewV4(&key.PublicKey, net.IPv4(127, 0, 0, 1), 0, port)
		return v, nil
	case <-v.done:
		return nil, fmt.Errorf("victim exited during start")
	case <-time.After(60 * time.Second):
		return nil, fmt.Errorf("victim did not start")
	}
}

func (v *c01victimProc) alive() bool {
	select {
	case <-v.done:
		return false
	default:
		return true
	}
}
func (v *c01victimProc) stop() {
	v.in.Close()
	select {
	case <-v.done:
	case <-time.After(5 * time.Second):
		_ = v.cmd.Process.Kill()
	}
}

type c01liveItem struct {
	proto   string
	payload []byte
}

func runC01Live(c *Ctx, n int) { runC01LiveList(c, n, nil) }

// runC01LiveList: when fixed != nil exactly those inputs are delivered (replay), otherwise the generated ones.
func runC01LiveList(c *Ctx, n int, fixed []c01liveItem) {
	log.SetDefault(log.NewLogger(log.DiscardHandler()))
	v, err := c01spawn(c)
	if err != nil {
		panic(err)
	}
	defer func() { v.stop() }()
	// attacker: a bare discv5 endpoint
	key, _ := crypto.ToECDSA(common.LeftPadBytes([]byte{0x66, byte(c.Seed)}, 32))
	conn, err := net.ListenUDP("udp", &net.UDPAddr{IP: net.IPv4(127, 0, 0, 1), Port: 0})
	if err != nil {
		panic(err)
	}
	db, _ := enode.OpenDB("")
	ln := enode.NewLocalNode(db, key)
	ln.SetFallbackIP(net.IPv4(127, 0, 0, 1))
	ln.SetFallbackUDP(conn.LocalAddr().(*net.UDPAddr).Port)
	disc, err := discover.ListenV5(conn, ln, discover.Config{PrivateKey: key})
	if err != nil {
		panic(err)
	}
	defer disc.Close()
	protos := []struct {
		name string
		id   string
	}{{"history", string(portalwire.History)}, {"beacon", string(portalwire.Beacon)}, {"state", string(portalwire.State)}, {"utp", string(portalwire.Utp)}}
	r := c.Rng
	valid := c01validMessages(r)
	send := func(pi int, payload []byte) bool {
		p := protos[pi]
		_, terr := disc.TalkRequest(v.node, p.id, payload)
		// liveness: process still there and answering a ping
		time.Sleep(5 * time.Millisecond)
		status := "alive"
		if !v.alive() {
			status = "dead"
		} else if terr != nil {
			if _, perr := disc.Ping(v.node); perr != nil {
				time.Sleep(50 * time.Millisecond)
				if !v.alive() {
					status = "dead"
				} else if _, perr2 := disc.Ping(v.node); perr2 != nil {
					status = "silent"
				}
			}
		}
		c.Count("live_" + p.name + "_" + status)
		c.Emit("live %s %s | %s", p.name, hx(payload), status)
		if status == "dead" {
			// restart so the remaining inputs are still delivered to a live node
			nv, err := c01spawn(c)
			if err != nil {
				panic(err)
			}
			v = nv
			return false
		}
		return true
	}
	// flood: an EMPTY uTP TALKREQ followed by count uTP datagrams, then probes: the uTP talk handler must still answer
	// (a reader goroutine that stopped on the empty datagram lets the handler's queue fill up and the handler block)
	flood := func(count int) {
		utpID := string(portalwire.Utp)
		_, _ = disc.TalkRequest(v.node, utpID, []byte{})
		status := "alive"
		misses := 0
		for k := 0; k < count+3 && misses < 3; k++ {
			pkt := make([]byte, 20)
			pkt[0] = 0x01 // ST_DATA, version 1-ish header bytes; content does not matter for the queue
			pkt[2], pkt[3] = byte(k>>8), byte(k)
			if _, terr := disc.TalkRequest(v.node, utpID, pkt); terr != nil {
				misses++
			} else {
				misses = 0
			}
		}
		if !v.alive() {
			status = "dead"
		} else if misses >= 3 {
			status = "silent"
		}
		c.Count("liveflood_" + status)
		c.Emit("liveflood utp %d | %s", count, status)
		if status != "alive" {
			v.stop()
			if nv, err := c01spawn(c); err == nil {
				v = nv
			} else {
				panic(err)
			}
		}
	}
	if fixed != nil {
		for _, it := range fixed {
			if it.proto == "utp-flood" {
				flood(int(it.payload[0])<<8 | int(it.payload[1]))
				continue
			}
			for pi := range protos {
				if protos[pi].name == it.proto {
					send(pi, it.payload)
				}
			}
		}
		return
	}
	// boundary prefixes on every protocol id
	for pi := range protos {
		send(pi, []byte{})
		for code := 0; code < 9; code++ {
			send(pi, []byte{byte(code)})
			send(pi, []byte{byte(code), 0})
			send(pi, []byte{byte(code), 4, 0, 0, 0})
		}
		for _, m := range valid {
			send(pi, m)
		}
		for l := 0; l <= 10; l++ {
			send(pi, c01findContent(append([]byte{0x14}, r.Bytes(l)...)))
		}
	}
	flood(1100)
	for i := 0; i < n; i++ {
		pi := r.Intn(len(protos))
		var m []byte
		switch r.Intn(3) {
		case 0:
			m = c01mutate(r, valid[r.Intn(len(valid))])
		case 1:
			m = c01findContent(c01key(r, protos[pi].name))
		default:
			m = r.Bytes(r.Intn(40))
			if r.Bool() && len(m) > 0 {
				m[0] = byte(r.Intn(9))
			}
		}
		send(pi, m)
	}
}
