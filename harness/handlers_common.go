//go:build c11 || c08 || c20 || all

package main

// Shared by the handler-level harnesses (C11, C08, C20): deterministic key pool, ENR construction with chosen
// address / port / size, protocol instances through the VerifH hooks, and the textual form of a node record
//     tag:idhex:flags:port:size:valid
// consumed by the OCaml drivers (flags = address predicates of n.IP(), see portalwire.VerifHRelayFlags).

import (
	"crypto/ecdsa"
	"fmt"
	"math/big"
	"net"
	"net/netip"
	"strconv"
	"strings"

	"github.com/ethereum/go-ethereum/crypto"
	"github.com/ethereum/go-ethereum/log"
	"github.com/ethereum/go-ethereum/p2p/enode"
	"github.com/ethereum/go-ethereum/p2p/enr"
	"github.com/ethereum/go-ethereum/rlp"
	"github.com/holiman/uint256"
	"github.com/zen-eth/shisui/portalwire"
	"github.com/zen-eth/shisui/storage"
)

func hQuiet() { log.SetDefault(log.NewLogger(log.DiscardHandler())) }

// hKey derives a secp256k1 key from the seeded generator (crypto.GenerateKey would read the system RNG).
func hKey(r *Rng) *ecdsa.PrivateKey {
	for {
		d := new(big.Int).SetBytes(r.Bytes(32))
		if d.Sign() == 0 || d.Cmp(crypto.S256().Params().N) >= 0 {
			continue
		}
		k, err := crypto.ToECDSA(d.FillBytes(make([]byte, 32)))
		if err == nil {
			return k
		}
	}
}

type hPoolKey struct {
	key *ecdsa.PrivateKey
	id  enode.ID
}

func hPool(r *Rng, n int) []hPoolKey {
	out := make([]hPoolKey, n)
	for i := range out {
		k := hKey(r)
		out[i] = hPoolKey{k, enode.PubkeyToIDV4(&k.PublicKey)}
	}
	return out
}

// address kinds
var hIPKinds = []string{"loop", "lan10", "lan192", "pub", "special", "linklocal", "v6loop", "v6pub", "v6special", "v6lan"}

// hIP returns an address of the given kind; public addresses get a fresh /24 every call (table IP limits).
func hIP(r *Rng, kind string) net.IP {
	switch kind {
	case "loop":
		return net.IPv4(127, 0, byte(r.Intn(3)), byte(1+r.Intn(200)))
	case "lan10":
		return net.IPv4(10, byte(r.Intn(256)), byte(r.Intn(256)), byte(1+r.Intn(250)))
	case "lan192":
		return net.IPv4(192, 168, byte(r.Intn(256)), byte(1+r.Intn(250)))
	case "pub":
		a := []byte{11, 23, 45, 52, 77, 81, 93, 104, 130, 151, 172, 185, 193, 201, 212}
		x := a[r.Intn(len(a))]
		if x == 172 {
			return net.IPv4(172, byte(40+r.Intn(100)), byte(r.Intn(256)), byte(1+r.Intn(250)))
		}
		return net.IPv4(x, byte(r.Intn(256)), byte(r.Intn(256)), byte(1+r.Intn(250)))
	case "special":
		return [][]byte{net.IPv4(192, 0, 2, byte(1+r.Intn(200))), net.IPv4(203, 0, 113, byte(1+r.Intn(200))), net.IPv4(198, 18, byte(r.Intn(256)), 7),
			net.IPv4(192, 88, 99, 1), net.IPv4(0, 1, 2, 3)}[r.Intn(5)]
	case "linklocal":
		return net.IPv4(169, 254, byte(r.Intn(256)), byte(1+r.Intn(250)))
	case "v6loop":
		return net.ParseIP("::1")
	case "v6pub":
		return net.ParseIP(fmt.Sprintf("2606:4700:%x:%x::%x", r.Intn(65536), r.Intn(65536), 1+r.Intn(60000)))
	case "v6special":
		return net.ParseIP(fmt.Sprintf("2001:db8::%x", 1+r.Intn(60000)))
	case "v6lan":
		return net.ParseIP(fmt.Sprintf("fe80::%x", 1+r.Intn(60000)))
	}
	return net.IPv4(127, 0, 0, 1)
}

// hRecord builds a record with the given endpoint; key != nil: "v4" signed, otherwise the unsigned "null"
// scheme with the chosen id.  size > 0 pads the record with an extra entry so that its RLP encoding has exactly
// that many bytes (when reachable; at most enr.SizeLimit).
func hRecord(key *ecdsa.PrivateKey, id enode.ID, ip net.IP, udp int, seq uint64, size int) *enode.Node {
	build := func(pad int) (*enode.Node, int) {
		var r enr.Record
		if ip != nil {
			if ip4 := ip.To4(); ip4 != nil {
				r.Set(enr.IPv4(ip4))
				r.Set(enr.UDP(udp))
			} else {
				r.Set(enr.IPv6(ip))
				r.Set(enr.UDP6(udp))
			}
		} else {
			r.Set(enr.UDP(udp))
		}
		if pad >= 0 {
			r.Set(enr.WithEntry("zpad", make([]byte, pad)))
		}
		r.SetSeq(seq)
		var n *enode.Node
		if key != nil {
			if err := enode.SignV4(&r, key); err != nil {
				return nil, 0
			}
			var err error
			n, err = enode.New(enode.ValidSchemes, &r)
			if err != nil {
				return nil, 0
			}
		} else {
			func() {
				defer func() { recover() }()
				n = enode.SignNull(&r, id)
			}()
			if n == nil {
				return nil, 0
			}
		}
		b, _ := rlp.EncodeToBytes(n.Record())
		return n, len(b)
	}
	n, sz := build(-1)
	if size <= 0 || sz >= size {
		return n
	}
	// padding entry costs key (5) + value header + bytes, and may widen the list header
	pad := size - sz - 7
	if pad < 0 {
		pad = 0
	}
	var best *enode.Node = n
	for tries := 0; tries < 12; tries++ {
		m, s := build(pad)
		if m == nil { // too big
			pad--
			if pad < 0 {
				break
			}
			continue
		}
		if s == size {
			return m
		}
		if s < size {
			best = m
			pad += size - s
		} else {
			pad -= s - size
			if pad < 0 {
				break
			}
		}
	}
	return best
}

// hIDAtDistance returns an id whose log distance to self is exactly d (1..256), lower bits random.
func hIDAtDistance(r *Rng, self enode.ID, d int) enode.ID {
	var x [32]byte
	copy(x[:], r.Bytes(32))
	// bit d-1 (counting from the least significant bit of the big-endian value) set, higher bits clear
	top := d - 1
	for bit := 255; bit > top; bit-- {
		x[31-bit/8] &^= 1 << (bit % 8)
	}
	x[31-top/8] |= 1 << (top % 8)
	var id enode.ID
	for i := range id {
		id[i] = self[i] ^ x[i]
	}
	return id
}

func hEnrBytes(n *enode.Node) []byte {
	b, err := rlp.EncodeToBytes(n.Record())
	if err != nil {
		panic(err)
	}
	return b
}

// hTags assigns small numbers to distinct ENR byte strings within one case.
type hTags struct {
	m    map[string]int
	next int
}

func newTags() *hTags { return &hTags{m: map[string]int{}, next: 1} }
func (t *hTags) tag(b []byte) int {
	if v, ok := t.m[string(b)]; ok {
		return v
	}
	t.m[string(b)] = t.next
	t.next++
	return t.next - 1
}
func (t *hTags) lookup(b []byte) (int, bool) { v, ok := t.m[string(b)]; return v, ok }

// lookupNode: the tag of a node an implementation call returned; a nil node (which no call should return) has no tag.
func (t *hTags) lookupNode(n *enode.Node) (int, bool) {
	if n == nil {
		return 0, false
	}
	return t.lookup(hEnrBytes(n))
}

// hRecStr prints the abstract record of a node.
func hRecStr(tag int, n *enode.Node, size int, valid bool) string {
	v := 0
	if valid {
		v = 1
	}
	return fmt.Sprintf("%d:%x:%d:%d:%d:%d", tag, n.ID().Bytes(), portalwire.VerifHRelayFlags(n.IP()), n.UDP(), size, v)
}

// hRecInvalid prints the abstract record of bytes that are not a valid record.
func hRecInvalid(tag int, size int) string { return fmt.Sprintf("%d:0:0:0:%d:0", tag, size) }

func hTagList(tags []string) string {
	if len(tags) == 0 {
		return "."
	}
	return strings.Join(tags, ",")
}

// hMemStorage is an in-memory ContentStorage with a configurable radius and an optional failure switch.
type hMemStorage struct {
	db     map[string][]byte
	fail   map[string]bool
	radius []byte // 32 bytes big-endian, nil = max
	onGet  func() // scripted fault: runs inside Get before it answers (e.g. a table change during the store read)
}

func newMemStorage() *hMemStorage {
	return &hMemStorage{db: map[string][]byte{}, fail: map[string]bool{}}
}

func (m *hMemStorage) Get(contentKey []byte, contentId []byte) ([]byte, error) {
	if m.onGet != nil {
		m.onGet()
	}
	if m.fail[string(contentId)] { // scripted I/O error, also for a key that is held
		return nil, fmt.Errorf("storage failure")
	}
	if c, ok := m.db[string(contentId)]; ok {
		return c, nil
	}
	return nil, storage.ErrContentNotFound
}
func (m *hMemStorage) Put(contentKey []byte, contentId []byte, content []byte) error {
	m.db[string(contentId)] = content
	return nil
}
func (m *hMemStorage) Close() error { return nil }
func (m *hMemStorage) Radius() *uint256.Int {
	if m.radius == nil {
		return uint256.MustFromHex("0xffffffffffffffffffffffffffffffffffffffffffffffffffffffffffffffff")
	}
	return new(uint256.Int).SetBytes(m.radius)
}

// hSchemes accepts both the signed "v4" scheme and the unsigned "null" scheme (harness-side decoding of table fillers only).
var hSchemes = enr.SchemeMap{"v4": enode.V4ID{}, "null": enode.NullID{}}

func hNodeFromBytes(b []byte) (*enode.Node, error) {
	var r enr.Record
	if err := rlp.DecodeBytes(b, &r); err != nil {
		return nil, err
	}
	return enode.New(hSchemes, &r)
}

type hInstKey struct {
	key, ip, proto string
	permits        int
}

var hInsts = map[hInstKey]*portalwire.VerifHInstance{}
var hStores = map[*portalwire.VerifHInstance]*hMemStorage{}

// hInstance returns (creating on first use) the protocol instance for a private key / static IP / network.
func hInstance(keyhex string, sip string, proto string) *portalwire.VerifHInstance {
	return hInstanceP(keyhex, sip, proto, 50)
}

// hInstanceP: as hInstance with a chosen number of uTP permits per direction.
func hInstanceP(keyhex string, sip string, proto string, permits int) *portalwire.VerifHInstance {
	k := hInstKey{keyhex, sip, proto, permits}
	if i, ok := hInsts[k]; ok {
		return i
	}
	key, err := crypto.HexToECDSA(keyhex)
	if err != nil {
		panic(err)
	}
	var ip net.IP
	if sip != "-" {
		ip = net.ParseIP(sip)
	}
	pid := portalwire.History
	switch proto {
	case "state":
		pid = portalwire.State
	case "beacon":
		pid = portalwire.Beacon
	case "other":
		pid = portalwire.CanonicalIndices
	}
	st := newMemStorage()
	inst, err := portalwire.VerifHNew(pid, key, st, ip, nil, permits)
	if err != nil {
		panic(err)
	}
	hInsts[k] = inst
	hStores[inst] = st
	return inst
}

// hInstanceDrop forgets an instance whose transport no longer makes progress (a discv5 call that never returns): the
// next case with the same parameters gets a fresh one.  The old instance is left alone (closing it could block too).
func hInstanceDrop(inst *portalwire.VerifHInstance) {
	for k, i := range hInsts {
		if i == inst {
			delete(hInsts, k)
		}
	}
	delete(hStores, inst)
}

func hKeyHex(k *ecdsa.PrivateKey) string { return fmt.Sprintf("%064x", k.D) }

// hBucket is the bit length of n (histogram bucket).
func hBucket(n int) int {
	b := 0
	for n > 0 {
		n >>= 1
		b++
	}
	return b
}

type c11ins struct {
	enr   []byte
	live  bool
	reval bool // not an insertion: the outcome of a liveness check of that node is delivered (live = it answered)
}

func c11insStr(ins []c11ins) string {
	if len(ins) == 0 {
		return "."
	}
	p := make([]string, len(ins))
	for i, x := range ins {
		l := 0
		if x.live {
			l = 1
		}
		p[i] = fmt.Sprintf("%x:%d", x.enr, l)
		if x.reval {
			p[i] = "R" + p[i]
		}
	}
	return strings.Join(p, ",")
}
func c11parseIns(s string) []c11ins {
	out := []c11ins{}
	if s == "." {
		return out
	}
	for _, p := range strings.Split(s, ",") {
		rv := strings.HasPrefix(p, "R")
		q := strings.Split(strings.TrimPrefix(p, "R"), ":")
		out = append(out, c11ins{unhx(q[0]), q[1] == "1", rv})
	}
	return out
}

// hTableStr prints the snapshot of an instance's table, registering tags.
func hTableStr(inst *portalwire.VerifHInstance, t *hTags) string { return hTableStrU(inst, t, nil) }

// hUncheckedEndpoints: for every id of the insert list the endpoints of the records that were inserted WITH the liveness flag.
// A liveness flag is only ever set when such a record enters the table, so an entry can be liveness-checked only if its
// current record has one of these endpoints (a later record update to another address or port is unchecked).
type hEndpoint struct {
	ip   netip.Addr
	port int
}

func hUncheckedEndpoints(ins []c11ins) map[enode.ID][]hEndpoint {
	checked := map[enode.ID][]hEndpoint{}
	for _, x := range ins {
		n, err := hNodeFromBytes(x.enr)
		if err != nil {
			continue
		}
		if _, ok := checked[n.ID()]; !ok {
			checked[n.ID()] = append([]hEndpoint{}, hFillChecked[n.ID()]...)
		}
		if x.reval {
			continue
		}
		if x.live {
			checked[n.ID()] = append(checked[n.ID()], hEndpoint{n.IPAddr(), n.UDP()})
		}
	}
	return checked
}

// hTableStrU: as hTableStr; an entry whose current record has an endpoint that no record inserted with the liveness flag had (a
// record update with a new address or port took place) is reported as not live whatever the table's flag says: that endpoint was
// never liveness-checked (ground truth of the insert history).
func hTableStrU(inst *portalwire.VerifHInstance, t *hTags, checked map[enode.ID][]hEndpoint) string {
	snap := inst.Snapshot()
	bs := make([]string, len(snap))
	for bi, b := range snap {
		if len(b) == 0 {
			bs[bi] = "-"
			continue
		}
		es := make([]string, len(b))
		for i, e := range b {
			eb := hEnrBytes(e.Node)
			l := 0
			if e.Live {
				l = 1
				if eps, ok := checked[e.Node.ID()]; ok {
					l = 0
					for _, ep := range eps {
						if ep.ip == e.Node.IPAddr() && ep.port == e.Node.UDP() {
							l = 1
						}
					}
				}
			}
			es[i] = hRecStr(t.tag(eb), e.Node, len(eb), true) + ":" + strconv.Itoa(l)
		}
		bs[bi] = strings.Join(es, ",")
	}
	return strings.Join(bs, "/")
}

func hFill(inst *portalwire.VerifHInstance, ins []c11ins) {
	if err := inst.ResetTable(); err != nil {
		panic(err)
	}
	hFillChecked = map[enode.ID][]hEndpoint{}
	for _, x := range ins {
		n, err := hNodeFromBytes(x.enr)
		if err != nil {
			continue
		}
		if x.reval {
			if inst.RevalResponse(n.ID(), x.live) && x.live {
				// the endpoint the table has for that node right now has just answered a liveness check
				for _, b := range inst.Snapshot() {
					for _, e := range b {
						if e.Node.ID() == n.ID() {
							hFillChecked[n.ID()] = append(hFillChecked[n.ID()], hEndpoint{e.Node.IPAddr(), e.Node.UDP()})
						}
					}
				}
			}
			continue
		}
		inst.AddNode(n, x.live, false)
	}
}

// hFillChecked: endpoints that answered a liveness check delivered during the last hFill (ground truth for hUncheckedEndpoints)
var hFillChecked = map[enode.ID][]hEndpoint{}

func (r *Rng) Pick2(xs []string) string { return xs[r.Intn(len(xs))] }

// hTimeoutErr: the error of a live exchange is a timeout / cancellation (RPC timeout, uTP connect / read / idle timeout,
// context deadline): on a loaded machine this says nothing about the code under test.
func hTimeoutErr(err error) bool {
	if err == nil {
		return false
	}
	m := strings.ToLower(err.Error())
	for _, k := range []string{"timeout", "timed out", "deadline", "canceled", "cancelled", "closed"} {
		if strings.Contains(m, k) {
			return true
		}
	}
	return false
}
