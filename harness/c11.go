//go:build c11 || all

package main

// C11: FINDNODES replies (responder) and acceptance of NODES replies (asker).  Lines (concrete inputs ; derived abstract view | observable):
//
//	fn <selfkey> <selfip|-> <askerip:port> <h|t|s> <dists> <enrhex:live,...> ; <selfrec> <askerflags> <table> <initdone> | ok <replylen> <tags> / err / nil
//	   h = handleFindNodes directly, t = through handleTalkRequest (t@<ip> / t@-: the sender's record advertises another address / none), s = handleFindNodes on a table that is still seeding (Table.isInitDone() false)
//	   the table (after the call) is bucket/bucket/... with entries tag:id:flags:port:size:valid:live, "-" for an empty bucket
//	pn <senderenr> <dists|N> <resphex> <genflags> ; <senderrec> <E | recs tag:id:flags:port:size:valid:gen> | ok <tags> / err / panic
//	pq ... same fields as pn, but the response is served by a scripted responder to the asking side's real findNodes (unobserved on a timeout)
//	dg <reqidlen> <resplen> | <sizes of the datagrams the asker read from the responder during the request> / unobserved
//	lfn <dists> ; <responder-self-rec> <table of the responder> | ok <tags the asker's findNodes returned> / err
import (
	"crypto/sha256"
	"encoding/binary"
	"fmt"
	"net"
	"net/netip"
	"sort"
	"strconv"
	"strings"

	"github.com/ethereum/go-ethereum/p2p/enode"
	"github.com/ethereum/go-ethereum/p2p/enr"
	"github.com/ethereum/go-ethereum/rlp"
	"github.com/zen-eth/shisui/portalwire"
)

func init() { registry["C11"] = runC11 }

func c11dists(ds []uint) string {
	if ds == nil {
		return "N"
	}
	if len(ds) == 0 {
		return "."
	}
	p := make([]string, len(ds))
	for i, d := range ds {
		p[i] = strconv.Itoa(int(d))
	}
	return strings.Join(p, ",")
}
func c11parseDists(s string) []uint {
	if s == "N" {
		return nil
	}
	out := []uint{}
	if s == "." {
		return out
	}
	for _, p := range strings.Split(s, ",") {
		v, _ := strconv.Atoi(p)
		out = append(out, uint(v))
	}
	return out
}

// c11execFn builds the table from the insert list on the instance of the given key and asks it.
func c11execFn(c *Ctx, keyhex, sip, asker, via string, dists []uint, ins []c11ins) {
	inst := hInstance(keyhex, sip, "history")
	if via == "s" {
		// a table that is still seeding (initDone open): the records are inserted the way loadSeedNodes does it and the main
		// loop is started only after the request
		var ns []*enode.Node
		var lv []bool
		for _, x := range ins {
			if x.reval {
				continue
			}
			if n, err := hNodeFromBytes(x.enr); err == nil {
				ns = append(ns, n)
				lv = append(lv, x.live)
			}
		}
		if err := inst.SeedingTable(ns, lv); err != nil {
			panic(err)
		}
		defer inst.FinishSeeding()
	} else {
		hFill(inst, ins)
	}
	ap, err := netip.ParseAddrPort(asker)
	if err != nil {
		panic(err)
	}
	addr := net.UDPAddrFromAddrPort(ap)
	enc := make([][2]byte, len(dists))
	for i, d := range dists {
		binary.LittleEndian.PutUint16(enc[i][:], uint16(d))
	}
	req := &portalwire.FindNodes{Distances: enc}
	var resp []byte
	var herr error
	panicked, pmsg := guard(func() {
		if strings.HasPrefix(via, "t") {
			body, err := req.MarshalSSZ()
			if err != nil {
				herr = err
				return
			}
			h := sha256.Sum256([]byte(asker))
			// the sender's record: normally it advertises the address the packet comes from; "t@<ip>" / "t@-": it advertises
			// another address / none at all.  What counts for the relay check is the packet's source address.
			enrIP, enrPort := addr.IP, addr.Port
			if strings.HasPrefix(via, "t@") {
				enrPort = 30303
				if via == "t@-" {
					enrIP = nil
				} else {
					enrIP = net.ParseIP(via[2:])
				}
			}
			an := hRecord(nil, enode.ID(h), enrIP, enrPort, 1, 0)
			resp = inst.HandleTalkRequest(an, addr, append([]byte{portalwire.FINDNODES}, body...))
			if resp == nil {
				herr = fmt.Errorf("nil")
			}
		} else {
			resp, herr = inst.HandleFindNodes(addr, req)
		}
	})
	t := newTags()
	self := inst.Self()
	sb := hEnrBytes(self)
	selfs := hRecStr(t.tag(sb), self, len(sb), true)
	tab := hTableStrU(inst, t, hUncheckedEndpoints(ins))
	obs := ""
	switch {
	case panicked:
		obs = "panic " + pmsg
	case herr != nil:
		obs = "err"
	case len(resp) == 0 || resp[0] != portalwire.NODES:
		obs = fmt.Sprintf("ok %d badcode", len(resp))
	default:
		m := &portalwire.Nodes{}
		if err := m.UnmarshalSSZ(resp[1:]); err != nil {
			obs = fmt.Sprintf("ok %d undecodable", len(resp))
		} else {
			tags := make([]string, len(m.Enrs))
			for i, e := range m.Enrs {
				if v, ok := t.lookup(e); ok {
					tags[i] = strconv.Itoa(v)
				} else {
					tags[i] = "?"
				}
			}
			obs = fmt.Sprintf("ok %d %s", len(resp), hTagList(tags))
			if m.Total != 1 {
				obs += " total=" + strconv.Itoa(int(m.Total))
			}
			c.Count(fmt.Sprintf("fn_reply_records_%d", hBucket(len(m.Enrs))))
		}
	}
	initDone := 0
	if inst.TableInitDone() {
		initDone = 1
	}
	c.Count(fmt.Sprintf("fn_table_init_done_%d", initDone))
	c.Emit("fn %s %s %s %s %s %s ; %s %d %s %d | %s", keyhex, sip, asker, via, c11dists(dists), c11insStr(ins),
		selfs, portalwire.VerifHRelayFlags(addr.IP), tab, initDone, obs)
}

// c11execPn feeds a NODES response to processNodes of the asking instance.
// scripted responder for the real asking path: instance B's talk handler answers every request with c11scriptResp
var c11scriptA, c11scriptB *portalwire.VerifHInstance
var c11scriptResp []byte

func c11scriptPair(r *Rng) {
	if c11scriptA != nil {
		return
	}
	c11scriptA = hInstance(hKeyHex(hKey(r)), "-", "history")
	c11scriptB = hInstance(hKeyHex(hKey(r)), "-", "history")
	c11scriptB.P.DiscV5.RegisterTalkHandler(string(portalwire.History), func(*enode.Node, *net.UDPAddr, []byte) []byte {
		return c11scriptResp
	})
}

// c11execPq: the same judgement as c11execPn, but through the real findNodes of the asking side against the scripted responder.
func c11execPq(c *Ctx, r *Rng, dists []uint, resp []byte, gen string) {
	c11scriptPair(r)
	c11scriptResp = resp
	c11execPnVia(c, "pq", "-", hEnrBytes(c11scriptB.Self()), dists, resp, gen)
}

func c11execPn(c *Ctx, keyhex string, senderEnr []byte, dists []uint, resp []byte, gen string) {
	c11execPnVia(c, "pn", keyhex, senderEnr, dists, resp, gen)
}

func c11execPnVia(c *Ctx, kind string, keyhex string, senderEnr []byte, dists []uint, resp []byte, gen string) {
	var inst *portalwire.VerifHInstance
	if kind == "pq" {
		inst = c11scriptA
	} else {
		inst = hInstance(keyhex, "-", "history")
	}
	sender, err := hNodeFromBytes(senderEnr)
	if err != nil {
		panic(err)
	}
	t := newTags()
	senders := hRecStr(t.tag(senderEnr), sender, len(senderEnr), true)
	// the library's view of the response
	dec := "E"
	if len(resp) >= 1 {
		m := &portalwire.Nodes{}
		if err := m.UnmarshalSSZ(resp[1:]); err == nil {
			rs := make([]string, len(m.Enrs))
			for i, e := range m.Enrs {
				g := "0"
				if i < len(gen) && gen[i] == '1' {
					g = "1"
				}
				var r enr.Record
				var n *enode.Node
				if err := rlp.DecodeBytes(e, &r); err == nil {
					n, err = enode.New(enode.ValidSchemes, &r)
					if err != nil {
						n = nil
					}
				}
				if n != nil {
					rs[i] = hRecStr(t.tag(e), n, len(e), true) + ":" + g
				} else {
					rs[i] = hRecInvalid(t.tag(e), len(e)) + ":" + g
				}
			}
			dec = hTagList(rs)
		}
	}
	var out []*enode.Node
	var perr error
	panicked, pmsg := guard(func() {
		if kind == "pq" {
			out, perr = inst.FindNodes(c11scriptB.Self(), dists)
		} else {
			out, perr = inst.ProcessNodes(sender, resp, dists)
		}
	})
	obs := ""
	switch {
	case panicked:
		obs = "panic " + pmsg
	case kind == "pq" && hTimeoutErr(perr):
		obs = "unobserved " + strings.ReplaceAll(perr.Error(), " ", "_")
		c.Count("pq_unobserved")
	case perr != nil:
		obs = "err"
	default:
		tags := make([]string, len(out))
		for i, n := range out {
			if v, ok := t.lookupNode(n); ok {
				tags[i] = strconv.Itoa(v)
			} else {
				tags[i] = "?"
			}
		}
		obs = "ok " + hTagList(tags)
		c.Count(fmt.Sprintf("pn_accepted_%d", hBucket(len(out))))
	}
	if gen == "" {
		gen = "-"
	}
	c.Count(kind + "_cases")
	c.Emit("%s %s %s %s %s %s ; %s %s | %s", kind, keyhex, hx(senderEnr), c11dists(dists), hx(resp), gen, senders, dec, obs)
}

func c11replay(c *Ctx, lines []string) {
	for _, ln := range lines {
		f := strings.Fields(strings.SplitN(ln, "|", 2)[0])
		if len(f) < 2 {
			continue
		}
		switch f[0] {
		case "fn":
			c11execFn(c, f[1], f[2], f[3], f[4], c11parseDists(f[5]), c11parseIns(f[6]))
		case "pq":
			g := f[5]
			if g == "-" {
				g = ""
			}
			c11execPq(c, NewRng(c.Seed), c11parseDists(f[3]), unhx(f[4]), g)
		case "pn":
			g := f[5]
			if g == "-" {
				g = ""
			}
			c11execPn(c, f[1], unhx(f[2]), c11parseDists(f[3]), unhx(f[4]), g)
		default:
			// dg / lfn lines are measurements of a live exchange; re-run the live section
			c11live(c, NewRng(c.Seed), 2)
			return
		}
	}
}

type c11gen struct {
	c    *Ctx
	r    *Rng
	pool []hPoolKey
	keys []string // instance keys
	sips []string
}

// genNode makes a table filler at log distance d from self (d = 0: any distance, taken from the signed pool).
func (g *c11gen) genNode(self enode.ID, d int, ipkind string, size int) *enode.Node {
	r := g.r
	port := r.Pick([]int{30303, 9009, 1025, 1024, 80, 65535, 4000 + r.Intn(1000)})
	ip := hIP(r, ipkind)
	if d == 0 {
		k := g.pool[r.Intn(len(g.pool))]
		return hRecord(k.key, k.id, ip, port, uint64(1+r.Intn(5)), size)
	}
	return hRecord(nil, hIDAtDistance(r, self, d), ip, port, uint64(1+r.Intn(5)), size)
}

var c11ipMix = []string{"loop", "loop", "lan10", "lan192", "pub", "pub", "pub", "special", "linklocal", "v6loop", "v6pub", "v6special", "v6lan"}

func (g *c11gen) fill(self enode.ID) []c11ins {
	r := g.r
	var ins []c11ins
	add := func(d int, ipkind string, size int, live bool) {
		n := g.genNode(self, d, ipkind, size)
		if n != nil {
			ins = append(ins, c11ins{hEnrBytes(n), live, false})
		}
	}
	plan := r.Intn(10)
	g.c.Count(fmt.Sprintf("fn_fill_plan_%d", plan))
	switch plan {
	case 0: // empty
	case 1, 2: // sparse, mixed addresses
		for i, n := 0, 1+r.Intn(12); i < n; i++ {
			add(r.Pick([]int{256, 256, 255, 254, 250, 241, 240, 239, 200, 17, 1, 0}), c11ipMix[r.Intn(len(c11ipMix))], 0, r.Intn(5) != 0)
		}
	case 3: // one bucket with 16 (+ overflow into replacements) maximum-size records
		d := r.Pick([]int{256, 255, 250, 241, 240, 100})
		for i := 0; i < 16+r.Intn(4); i++ {
			add(d, r.Pick2([]string{"loop", "lan10", "lan192"}), 300, r.Intn(8) != 0)
		}
	case 4: // every bucket full of maximum-size LAN records
		for d := 240; d <= 256; d++ {
			for i := 0; i < 16; i++ {
				add(d, r.Pick2([]string{"loop", "lan10", "lan192"}), 300, r.Intn(10) != 0)
			}
		}
	case 5: // bucket 0 holding several distinct distances
		for i, n := 0, 4+r.Intn(14); i < n; i++ {
			add(r.Pick([]int{1, 2, 50, 100, 200, 238, 239, 240}), c11ipMix[r.Intn(len(c11ipMix))], r.Pick([]int{0, 0, 150, 300}), r.Intn(4) != 0)
		}
	case 6: // public addresses from distinct /24s, many buckets, sizes around the packing boundary
		for i, n := 0, 10+r.Intn(60); i < n; i++ {
			add(240+r.Intn(17), "pub", r.Pick([]int{0, 120, 200, 282, 283, 284, 290, 300}), r.Intn(6) != 0)
		}
	case 7: // signed records from the key pool (distances as they fall) plus a few chosen ones
		for i, n := 0, 5+r.Intn(40); i < n; i++ {
			add(0, c11ipMix[r.Intn(len(c11ipMix))], r.Pick([]int{0, 0, 300}), r.Intn(5) != 0)
		}
		for i := 0; i < 5; i++ {
			add(241+r.Intn(16), "lan10", 0, true)
		}
	default: // general mix
		for i, n := 0, r.Intn(120); i < n; i++ {
			d := 256 - r.Intn(18)
			if r.Intn(6) == 0 {
				d = 1 + r.Intn(256)
			}
			add(d, c11ipMix[r.Intn(len(c11ipMix))], r.Pick([]int{0, 0, 0, 100, 250, 300}), r.Intn(5) != 0)
		}
	}
	return ins
}

func (g *c11gen) dists() []uint {
	r := g.r
	k := r.Intn(14)
	g.c.Count(fmt.Sprintf("fn_dists_kind_%d", k))
	valid := func() uint {
		return uint(r.Pick([]int{256, 256, 255, 254, 253, 250, 245, 241, 240, 239, 238, 200, 100, 2, 1, 0}))
	}
	switch k {
	case 0:
		return []uint{}
	case 1:
		return []uint{0}
	case 2:
		return []uint{valid()}
	case 3:
		return []uint{valid(), valid(), valid()}
	case 4: // repeated
		d := valid()
		return []uint{d, d, valid(), d}
	case 5: // invalid ones mixed in
		return []uint{uint(r.Pick([]int{257, 258, 300, 1000, 65535})), valid(), 257, valid()}
	case 6: // all 257 values ascending
		out := make([]uint, 257)
		for i := range out {
			out[i] = uint(i)
		}
		return out[:256] // a FINDNODES message carries at most 256 distances
	case 7: // all values descending from 256 (256 entries)
		out := make([]uint, 256)
		for i := range out {
			out[i] = uint(256 - i)
		}
		return out
	case 8: // several distances of bucket 0
		return []uint{uint(1 + r.Intn(239)), uint(1 + r.Intn(239)), 240, 239}
	case 9: // 0 first / last
		if r.Bool() {
			return []uint{0, valid(), valid()}
		}
		return []uint{valid(), valid(), 0}
	case 10: // only invalid
		return []uint{257, 65535}
	case 11: // more than 256 entries (only reachable by a direct handler call; undecodable on the wire)
		out := make([]uint, 257+r.Intn(40))
		for i := range out {
			out[i] = uint(r.Intn(300))
		}
		return out
	default:
		out := make([]uint, 1+r.Intn(12))
		for i := range out {
			out[i] = uint(r.Intn(262))
			if r.Intn(3) == 0 {
				out[i] = uint(240 + r.Intn(17))
			}
		}
		return out
	}
}

func (g *c11gen) asker() string {
	r := g.r
	kind := r.Pick2([]string{"loop", "loop", "lan10", "lan192", "pub", "pub", "linklocal", "v6loop", "v6pub", "v6lan", "special"})
	ip := hIP(r, kind)
	g.c.Count("fn_asker_" + kind)
	a, _ := netip.AddrFromSlice(ip)
	return netip.AddrPortFrom(a.Unmap(), uint16(1025+r.Intn(60000))).String()
}

func (g *c11gen) fnCase() {
	r := g.r
	ki := r.Intn(len(g.keys))
	inst := hInstance(g.keys[ki], g.sips[ki], "history")
	ins := g.fill(inst.Self().ID())
	// record updates of entries already inserted: a newer record (higher sequence number) with the same address and a new port,
	// or a new address: the entry's new endpoint has not been liveness-checked and must not be offered until it is
	if len(ins) > 0 && r.Intn(3) == 0 {
		for k, cnt := 0, 1+r.Intn(3); k < cnt; k++ {
			x := ins[r.Intn(len(ins))]
			old, err := hNodeFromBytes(x.enr)
			if err != nil || old.Record().IdentityScheme() != "null" {
				continue
			}
			ip, port := old.IP(), old.UDP()
			if r.Intn(3) == 0 {
				ip = hIP(r, r.Pick2([]string{"loop", "lan10", "pub"}))
			} else {
				port = port + 1 + r.Intn(100)
			}
			if nn := hRecord(nil, old.ID(), ip, port, old.Seq()+1, 0); nn != nil {
				ins = append(ins, c11ins{hEnrBytes(nn), false, false}) // an update never carries a liveness check of its own
				g.c.Count("fn_entry_record_updated_endpoint_changed")
			}
		}
	}
	ds := g.dists()
	// liveness history of one entry: it earns checks, its record is replaced by one with another port, and the re-check of the
	// new endpoint fails (it must not be offered) or succeeds (it may be offered again); then its bucket is asked for
	revalHistory := false
	if len(ins) > 0 && r.Intn(6) == 0 {
		x := ins[r.Intn(len(ins))]
		if old, err := hNodeFromBytes(x.enr); err == nil && x.live && !x.reval && old.Record().IdentityScheme() == "null" {
			for k, cnt := 0, 2+r.Intn(3); k < cnt; k++ {
				ins = append(ins, c11ins{x.enr, true, true})
			}
			if nn := hRecord(nil, old.ID(), old.IP(), old.UDP()+1+r.Intn(50), old.Seq()+5, 0); nn != nil {
				ins = append(ins, c11ins{hEnrBytes(nn), false, false})
				ins = append(ins, c11ins{hEnrBytes(nn), r.Intn(3) == 0, true})
				ds = append([]uint{uint(enode.LogDist(inst.Self().ID(), old.ID()))}, ds...)
				if len(ds) > 256 {
					ds = ds[:256]
				}
				revalHistory = true
				g.c.Count("fn_liveness_history_checks_update_recheck")
			}
		}
	}
	via := "h"
	if len(ds) <= 256 && r.Intn(3) == 0 {
		via = "t"
		switch r.Intn(4) {
		case 0: // the sender's record advertises an address of another kind than the packet's source
			via = "t@" + hIP(r, r.Pick2([]string{"loop", "lan10", "lan192", "pub", "pub", "v6pub", "v6loop"})).String()
			g.c.Count("fn_talk_enr_address_differs")
		case 1:
			via = "t@-"
			g.c.Count("fn_talk_enr_without_address")
		}
	}
	asker := g.asker()
	// a request that reaches the 32-record cap, followed on the same instance by requests naming the same distances
	if !revalHistory && r.Intn(10) == 0 {
		var full []c11ins
		self := inst.Self().ID()
		d1, d2 := 256, 255-r.Intn(3)
		for _, d := range []int{d1, d2} {
			for i := 0; i < 16; i++ {
				if n := g.genNode(self, d, r.Pick2([]string{"loop", "lan10", "lan192"}), 0); n != nil {
					full = append(full, c11ins{hEnrBytes(n), true, false})
				}
			}
		}
		lo := "127.0.0.1:30303"
		c11execFn(g.c, g.keys[ki], g.sips[ki], lo, "h", []uint{0, uint(d1), uint(d2)}, full)
		c11execFn(g.c, g.keys[ki], g.sips[ki], lo, "h", []uint{0}, full)
		c11execFn(g.c, g.keys[ki], g.sips[ki], lo, "h", []uint{uint(d1)}, full)
		g.c.Count("fn_cap_reached_then_follow_up")
	}
	if !revalHistory && r.Intn(4) == 0 {
		// the same request while the table is still seeding and, on the same table, after seeding has finished
		c11execFn(g.c, g.keys[ki], g.sips[ki], asker, "s", ds, ins)
		via = "h"
	}
	c11execFn(g.c, g.keys[ki], g.sips[ki], asker, via, ds, ins)
}

// pqCase: the asking side's real findNodes against a responder that answers with records no matter what was asked: requested
// lists that are empty, all invalid, mixed, with duplicates, or proper.
func (g *c11gen) pqCase() {
	r := g.r
	c11scriptPair(r)
	sender := c11scriptB.Self()
	var enrs [][]byte
	gen := ""
	var actual []uint
	for i, k := 0, 1+r.Intn(3); i < k; i++ {
		pk := g.pool[r.Intn(len(g.pool))]
		n := hRecord(pk.key, pk.id, hIP(r, r.Pick2([]string{"loop", "lan10", "pub", "pub"})), r.Pick([]int{30303, 30303, 9009, 1024}), 1, 0)
		enrs = append(enrs, hEnrBytes(n))
		gen += "1"
		actual = append(actual, uint(enode.LogDist(sender.ID(), n.ID())))
	}
	var ds []uint
	switch k := r.Intn(8); k {
	case 0:
		ds = []uint{}
	case 1:
		ds = []uint{257}
	case 2:
		ds = []uint{300, 65535}
	case 3: // mixed: invalid ones and one actual distance
		ds = []uint{999, actual[0], 257}
	case 4: // duplicates
		ds = []uint{actual[0], actual[0], actual[len(actual)-1]}
	case 5: // valid distances, none of them the actual ones
		ds = []uint{uint(1 + r.Intn(200)), 0}
	case 6:
		ds = append([]uint{}, actual...)
	default:
		ds = []uint{256, 255, 254}
	}
	g.c.Count(fmt.Sprintf("pq_dists_kind_%d", r.Intn(1)+len(ds)))
	m := &portalwire.Nodes{Total: 1, Enrs: enrs}
	body, err := m.MarshalSSZ()
	if err != nil {
		return
	}
	c11execPq(g.c, r, ds, append([]byte{portalwire.NODES}, body...), gen)
}

// pnCase builds a NODES response from a signing pool.
func (g *c11gen) pnCase() {
	r := g.r
	c := g.c
	sk := g.pool[r.Intn(len(g.pool))]
	sender := hRecord(sk.key, sk.id, hIP(r, r.Pick2([]string{"loop", "lan10", "pub", "pub", "v6pub"})), 30303, 1, 0)
	cnt := r.Pick([]int{0, 1, 2, 3, 5, 8, 12, 16})
	var enrs [][]byte
	gen := ""
	var actual []uint
	for i := 0; i < cnt; i++ {
		k := g.pool[r.Intn(len(g.pool))]
		port := r.Pick([]int{30303, 9009, 1025, 1025, 1024, 1024, 1023, 80, 0, 65535})
		ipkind := r.Pick2([]string{"loop", "lan10", "lan192", "pub", "pub", "pub", "special", "linklocal", "v6pub", "v6loop", "v6special"})
		n := hRecord(k.key, k.id, hIP(r, ipkind), port, uint64(1+r.Intn(3)), r.Pick([]int{0, 0, 300}))
		b := hEnrBytes(n)
		valid := true
		switch cat := r.Intn(16); {
		case cat < 8:
			c.Count("pn_rec_valid")
		case cat == 8: // corrupt one byte of the signature
			b = append([]byte{}, b...)
			b[4+r.Intn(60)] ^= byte(1 << r.Intn(8))
			valid = false
			c.Count("pn_rec_bad_signature")
		case cat == 9: // corrupt one byte of the signed content
			b = append([]byte{}, b...)
			b[len(b)-1-r.Intn(8)] ^= byte(1 << r.Intn(8))
			valid = false
			c.Count("pn_rec_bad_content")
		case cat == 10: // unsigned null scheme
			b = hEnrBytes(hRecord(nil, k.id, hIP(r, "pub"), 30303, 1, 0))
			valid = false
			c.Count("pn_rec_null_scheme")
		case cat == 11: // not RLP / truncated / trailing byte
			switch r.Intn(3) {
			case 0:
				b = r.Bytes(1 + r.Intn(80))
			case 1:
				b = b[:len(b)-1-r.Intn(10)]
			default:
				b = append(append([]byte{}, b...), 0)
			}
			valid = false
			c.Count("pn_rec_garbage")
		case cat == 12 && len(enrs) > 0: // exact repeat of an earlier item
			j := r.Intn(len(enrs))
			b = enrs[j]
			valid = gen[j] == '1'
			c.Count("pn_rec_repeat_bytes")
		case cat == 13: // no address at all
			b = hEnrBytes(hRecord(k.key, k.id, nil, port, 1, 0))
			c.Count("pn_rec_no_ip")
		case cat == 14: // unspecified address
			b = hEnrBytes(hRecord(k.key, k.id, net.IPv4(0, 0, 0, 0), port, 1, 0))
			c.Count("pn_rec_unspecified_ip")
		default: // same identity, newer sequence number (a repeat by id, not by bytes)
			if len(enrs) > 0 {
				if prev, err := hNodeFromBytes(enrs[r.Intn(len(enrs))]); err == nil {
					for _, pk := range g.pool {
						if pk.id == prev.ID() {
							b = hEnrBytes(hRecord(pk.key, pk.id, hIP(r, "pub"), 30303, prev.Seq()+1, 0))
						}
					}
				}
			}
			c.Count("pn_rec_repeat_id")
		}
		if nn, err := hNodeFromBytes(b); err == nil && valid {
			actual = append(actual, uint(enode.LogDist(sender.ID(), nn.ID())))
		}
		enrs = append(enrs, b)
		if valid {
			gen += "1"
		} else {
			gen += "0"
		}
	}
	var ds []uint
	switch k := r.Intn(8); {
	case k == 0:
		ds = nil
	case k == 1:
		ds = []uint{}
	case k == 2 && len(actual) > 0: // all actual distances
		ds = append([]uint{}, actual...)
	default: // a subset of the actual ones plus neighbours
		ds = []uint{}
		for _, d := range actual {
			switch r.Intn(4) {
			case 0:
				ds = append(ds, d)
			case 1:
				ds = append(ds, d+1)
			case 2:
				if d > 0 {
					ds = append(ds, d-1)
				}
			}
		}
		ds = append(ds, uint(r.Pick([]int{256, 255, 254, 0, 300})))
	}
	sort.Slice(ds, func(i, j int) bool { return ds[i] < ds[j] })
	m := &portalwire.Nodes{Total: 1, Enrs: enrs}
	body, err := m.MarshalSSZ()
	if err != nil {
		return
	}
	resp := append([]byte{portalwire.NODES}, body...)
	switch r.Intn(14) {
	case 0:
		resp = []byte{}
		c.Count("pn_resp_empty")
	case 1:
		resp[0] = byte(r.Pick([]int{0, 1, 2, 5, 7, 255}))
		c.Count("pn_resp_wrong_code")
	case 2:
		resp = resp[:1+r.Intn(len(resp))]
		c.Count("pn_resp_truncated")
	case 3:
		resp = append([]byte{portalwire.NODES}, r.Bytes(r.Intn(30))...)
		c.Count("pn_resp_garbage")
	default:
		c.Count("pn_resp_wellformed")
	}
	c11execPn(c, g.keys[0], hEnrBytes(sender), ds, resp, gen)
}

// c11live: two instances over loopback UDP.  The responder's table holds maximum-size records; the asker's findNodes runs for real.
// Reported: the sizes of the datagrams the responder wrote while serving each request, with the TALKRESP length it returned.
func c11live(c *Ctx, r *Rng, rounds int) {
	ka, kb := hKey(r), hKey(r)
	a := hInstance(hKeyHex(ka), "-", "history")
	b := hInstance(hKeyHex(kb), "-", "history")
	// handshake, so that later replies are ordinary packets (retried: on a loaded machine the first RPC may time out)
	var perr error
	for try := 0; try < 6; try++ {
		if _, perr = a.Ping(b.Self()); perr == nil {
			break
		}
	}
	if perr != nil {
		c.Count("live_unobserved_no_handshake")
		c.Emit("live-unobserved ping | %s", strings.ReplaceAll(perr.Error(), " ", "_"))
		return
	}
	bport := b.Self().UDP()
	pool := hPool(r, 80)
	for round := 0; round < rounds; round++ {
		// signed records (the asker verifies signatures), distances as they fall: mostly 256, 255, 254, ...
		var ins []c11ins
		size := r.Pick([]int{300, 300, 0, 200})
		for _, k := range pool {
			port := r.Pick([]int{30303, 30303, 30303, 1024, 80})
			n := hRecord(k.key, k.id, hIP(r, r.Pick2([]string{"loop", "lan10", "pub"})), port, 1, size)
			ins = append(ins, c11ins{hEnrBytes(n), r.Intn(10) != 0, false})
		}
		hFill(b, ins)
		for _, ds := range [][]uint{{256}, {0}, {255, 256, 254}, {0, 256, 250}, {253, 253, 999, 252}, {}, {254}, {255}} {
			// Attribution of datagrams to this request without a race: the ASKER's socket wrapper logs every datagram it reads
			// before handing it to discv5, so when findNodes has returned successfully the TALKRESP datagram is in the asker's
			// log; the responder logs the response length before the response is sent.  Only when the call succeeded and the
			// responder served exactly one talk request in the window is the pair (response length, datagrams from the
			// responder) reported; anything else (RPC timeout, a late answer to an earlier request) is "unobserved".
			a.Datagrams()
			b.Talks()
			nodes, err := a.FindNodes(b.Self(), ds)
			talks := b.Talks()
			dgs := a.Datagrams()
			sizes := []string{}
			for _, d := range dgs {
				if !d.Out && int(d.Peer.Port()) == bport {
					sizes = append(sizes, strconv.Itoa(d.Size))
				}
			}
			if err == nil && len(talks) == 1 && len(sizes) > 0 {
				c.Emit("dg 8 %d | %s", talks[0].RespLen, hTagList(sizes))
				c.Count("live_datagram")
			} else {
				c.Emit("dg 8 0 | unobserved")
				c.Count("live_datagram_unobserved")
			}
			t := newTags()
			sb := hEnrBytes(b.Self())
			selfs := hRecStr(t.tag(sb), b.Self(), len(sb), true)
			tab := hTableStr(b, t)
			obs := "err"
			if err == nil {
				tags := make([]string, len(nodes))
				for i, n := range nodes {
					if v, ok := t.lookupNode(n); ok {
						tags[i] = strconv.Itoa(v)
					} else {
						tags[i] = "?"
					}
				}
				obs = "ok " + hTagList(tags)
			}
			c.Emit("lfn %s ; %s %s | %s", c11dists(ds), selfs, tab, obs)
		}
	}
}

func runC11(c *Ctx) {
	hQuiet()
	if len(c.Args) >= 2 && c.Args[0] == "replay" {
		c11replay(c, readReplayCases(c.Args[1]))
		return
	}
	nfn, npn, rounds := 700, 2500, 3
	if c.Tier == "thorough" {
		nfn, npn, rounds = 4000, 20000, 10
	}
	if c.N > 0 {
		nfn, npn = c.N, c.N
	}
	r := c.Rng
	g := &c11gen{c: c, r: r, pool: hPool(r, 96)}
	// three responders: record on loopback (the default of the tests), on a LAN address, on a public address
	for _, sip := range []string{"-", "192.168.7.5", "52.10.20.30"} {
		g.keys = append(g.keys, hKeyHex(hKey(r)))
		g.sips = append(g.sips, sip)
	}
	for i := 0; i < nfn; i++ {
		g.fnCase()
	}
	for i := 0; i < npn; i++ {
		g.pnCase()
	}
	for i := 0; i < npn/20; i++ {
		g.pqCase()
	}
	c11live(c, r, rounds)
}
