//go:build c10 || all

package main

import (
	"bytes"
	"context"
	"crypto/sha256"
	"fmt"
	"os"
	"os/exec"
	"strconv"
	"strings"
	"sync"
	"time"

	"github.com/zen-eth/shisui/portalwire"
)

// Content lookup over loopback UDP (the real ContentLookup / contentLookupWorker / findContent / processContent of an
// asker against scripted discv5 peers).  Lines:
//
//	cl <npeers> <answers> <table>:<delays-ms> <kseed> <target> <ids> <scan> | ok <events> <outcome> <undrained>   /  panic <msg>  /  err timeout
//	   answers  per peer 1..n separated by ';' : c<hex> content ("c-" = zero-length) / e<i,j,..> closer nodes ("e." none) /
//	            x not listening (request times out) / z empty response / g garbage response
//	   kseed    seed of the node keys (ids and scan are derived from it; printed for the model)
//	   target   the content id; ids = node identifiers, index 0 = asker; scan = table entries in findnodeByID visiting order
//	   events   S<i> FINDCONTENT handler of peer i entered, A<i> it is about to return its answer, T<i> the asker's
//	            lookup.query handed the outcome for i to tab.trackRequest (hint for the reply order; the only event of an x peer)
//	   outcome  found:<hex> | notfound | err:<msg>
//	   undrained  peers whose handler had been entered but had not answered when ContentLookup returned
//	Every net runs in a CHILD process (re-exec of this binary, `C10 clchild ...`): a panic in one of the lookup's query
//	goroutines (nothing can recover it in-process) is then observable as `| panic <msg>` instead of ending the run.
type c10cnet struct {
	peers  []portalwire.VerifContentPeer
	table  []int
	delays []int
	kseed  uint64
	// filled in by exec
	ids  []string
	scan []int
}

var c10contentKey = []byte{0x03, 0x04}

func (k *c10cnet) keys() [][]byte {
	r := NewRng(k.kseed)
	out := make([][]byte, len(k.peers)+1)
	for i := range out {
		out[i] = r.Bytes(32)
		out[i][0] &= 0x7f // below the group order
		out[i][31] |= 1
	}
	return out
}

func (k *c10cnet) inputs() string {
	ans := make([]string, len(k.peers))
	for i, p := range k.peers {
		switch p.Kind {
		case 'c':
			ans[i] = "c" + hx(p.Content)
		case 'e':
			ans[i] = "e" + c10idxs(p.Closer)
		default:
			ans[i] = string(p.Kind)
		}
	}
	ids := "."
	if len(k.ids) > 0 {
		ids = strings.Join(k.ids, ",")
	}
	tgt := sha256.Sum256(c10contentKey)
	return fmt.Sprintf("cl %d %s %s:%s %d %x %s %s", len(k.peers), strings.Join(ans, ";"), c10idxs(k.table), c10idxs(k.delays),
		k.kseed, tgt[:], ids, c10idxs(k.scan))
}

func c10cparse(f []string) *c10cnet {
	k := &c10cnet{}
	for _, a := range strings.Split(f[2], ";") {
		p := portalwire.VerifContentPeer{Kind: a[0]}
		switch a[0] {
		case 'c':
			p.Content = unhx(a[1:])
		case 'e':
			p.Closer = c10parseIdxs(a[1:])
		}
		k.peers = append(k.peers, p)
	}
	td := strings.SplitN(f[3], ":", 2)
	k.table = c10parseIdxs(td[0])
	k.delays = c10parseIdxs(td[1])
	for i := range k.peers {
		if i < len(k.delays) {
			k.peers[i].Delay = time.Duration(k.delays[i]) * time.Millisecond
		}
	}
	if len(f) > 4 {
		k.kseed, _ = strconv.ParseUint(f[4], 10, 64)
	}
	return k
}

func c10cexec(k *c10cnet) string {
	net, err := portalwire.VerifContentNetNewKeys(k.peers, k.table, k.keys())
	if err != nil {
		return "err setup " + strings.ReplaceAll(err.Error(), " ", "_")
	}
	defer net.Close()
	k.ids = nil
	for _, id := range net.IDs() {
		k.ids = append(k.ids, c10hexid(id))
	}
	k.scan = net.TableScan()
	id := sha256.Sum256(c10contentKey)
	type out struct {
		c   []byte
		err error
		at  []string
	}
	ch := make(chan out, 1)
	go func() {
		c, err, at := net.LookupTrace(c10contentKey, id[:])
		ch <- out{c, err, at}
	}()
	count := func(ev []string, k byte) int {
		n := 0
		for _, e := range ev {
			if e[0] == k {
				n++
			}
		}
		return n
	}
	bound := 15 * time.Second
	if len(k.table) == 0 {
		bound = 5 * time.Second // isolated node: one 1 s slowdown, then not found
	}
	select {
	case o := <-ch:
		// every query has been drained; its T event is logged by another goroutine and may still be on its way
		var ev []string
		for w := 0; w < 600; w++ {
			ev = net.Events()
			if count(ev, 'T') >= count(ev, 'S') {
				break
			}
			time.Sleep(500 * time.Microsecond)
		}
		time.Sleep(3 * time.Millisecond)
		ev = net.Events()
		st := "."
		if len(ev) > 0 {
			st = strings.Join(ev, ",")
		}
		undrained := count(o.at, 'S') - count(o.at, 'A')
		switch {
		case o.err == nil:
			return fmt.Sprintf("ok %s found:%s %d", st, hx(o.c), undrained)
		case portalwire.VerifContentNotFound(o.err):
			return fmt.Sprintf("ok %s notfound %d", st, undrained)
		default:
			return fmt.Sprintf("ok %s err:%s %d", st, strings.ReplaceAll(o.err.Error(), " ", "_"), undrained)
		}
	case <-time.After(bound):
		return "err timeout " + strings.Join(net.Events(), ",")
	}
}

func c10cgen(c *Ctx) *c10cnet {
	r := c.Rng
	n := 2 + r.Intn(6)
	k := &c10cnet{}
	ncontent := 0
	for i := 1; i <= n; i++ {
		p := portalwire.VerifContentPeer{}
		switch x := r.Intn(10); {
		case x < 2:
			p.Kind = 'c'
			switch r.Intn(5) {
			case 0: // a zero-length value is content too
				p.Content = []byte{}
				c.Count("content_answer_empty")
			case 1: // one byte
				p.Content = []byte{byte(i)}
				c.Count("content_answer_1byte")
			default:
				p.Content = append([]byte{byte(i)}, r.Bytes(1+r.Intn(20))...)
			}
			ncontent++
		case x < 7:
			p.Kind = 'e'
			for j := 0; j < 1+r.Intn(4); j++ {
				p.Closer = append(p.Closer, r.Intn(n+1)) // 0 = the asker itself
			}
		case x == 7:
			p.Kind = 'x'
		case x == 8:
			p.Kind = 'z'
		default:
			p.Kind = 'g'
		}
		d := []int{0, 0, 1, 3, 10, 30}[r.Intn(6)]
		k.delays = append(k.delays, d)
		p.Delay = time.Duration(d) * time.Millisecond
		k.peers = append(k.peers, p)
	}
	for j := 0; j < 1+r.Intn(3); j++ {
		v := 1 + r.Intn(n)
		dup := false
		for _, t := range k.table {
			dup = dup || t == v
		}
		if !dup {
			k.table = append(k.table, v)
		}
	}
	c.Count(fmt.Sprintf("content_peers_with_content_%d", ncontent))
	k.kseed = r.U64() % 1000000007
	return k
}

func c10content(c *Ctx) {
	n := 24
	if c.Tier == "thorough" {
		n = 150
	}
	if c.N > 0 && c.N < 100 {
		n = 4
	}
	// directed nets first: boundary contents (0 and 1 byte) found at the first peer, found behind a peer that only
	// knows closer nodes, as the only content answer next to failing peers, and next to a non-empty holder
	E := func(closer ...int) portalwire.VerifContentPeer {
		return portalwire.VerifContentPeer{Kind: 'e', Closer: closer}
	}
	C := func(b ...byte) portalwire.VerifContentPeer {
		return portalwire.VerifContentPeer{Kind: 'c', Content: append([]byte{}, b...)}
	}
	K := func(k byte) portalwire.VerifContentPeer { return portalwire.VerifContentPeer{Kind: k} }
	mk := func(table []int, peers ...portalwire.VerifContentPeer) *c10cnet {
		return &c10cnet{peers: peers, table: table, delays: make([]int, len(peers)), kseed: c.Rng.U64() % 1000000007}
	}
	mkd := func(table []int, delays []int, peers ...portalwire.VerifContentPeer) *c10cnet {
		k := mk(table, peers...)
		copy(k.delays, delays)
		for i := range k.peers {
			k.peers[i].Delay = time.Duration(k.delays[i]) * time.Millisecond
		}
		return k
	}
	nets := []*c10cnet{
		mk([]int{1}, C()),                             // found first, empty
		mk([]int{1}, C(7)),                            // found first, one byte
		mk([]int{1}, E(2), C()),                       // found later, empty
		mk([]int{1}, E(2), E(3), C(9)),                // found later, one byte
		mk([]int{1, 2}, K('z'), E(3, 4), K('g'), C()), // the only content answer is empty
		mk([]int{1}, E(2, 3), C(), C(3, 3, 3)),        // empty and non-empty holders
		mk([]int{1, 2, 3}, C(), C(), C()),             // everybody holds the empty value
		mk([]int{1}, E(0, 1, 2), E(1), K('x')),        // nobody has it
		// content arrives while slower peers are still working: the lookup is cancelled and must wait for them
		mkd([]int{1, 2, 3}, []int{0, 60, 100}, C(5, 5), E(1), E(2)),
		mkd([]int{1, 2, 3}, []int{80, 0, 50}, E(2), C(6), E(1, 3)),
		mkd([]int{1, 2}, []int{0, 80}, C(1), K('z')),
		// an isolated node (empty table): one 1 s pause, then not found - it must not wait for the table to fill
		mk([]int{}, E(2), C(9)),
	}
	c.Count("content_directed_nets")
	for len(nets) < n+12 {
		nets = append(nets, c10cgen(c))
	}
	n = len(nets)
	outs := make([]string, n)
	var wg sync.WaitGroup
	sem := make(chan struct{}, 6)
	for i := range nets {
		wg.Add(1)
		go func(i int) {
			defer wg.Done()
			sem <- struct{}{}
			outs[i] = c10cchild(nets[i])
			<-sem
		}(i)
	}
	wg.Wait()
	for i := range nets {
		c.Count("content_lookups")
		if strings.Contains(outs[i], "found:") {
			c.Count("content_found")
		}
		if strings.Contains(outs[i], ",A") {
			c.Count("content_lookups_with_queries")
		}
		c.Emit("%s", outs[i])
	}
}

// c10cchild runs one net in a child process and returns the whole case line.
func c10cchild(k *c10cnet) string {
	exe, err := os.Executable()
	if err != nil {
		return k.inputs() + " | err setup no-executable"
	}
	f := strings.Fields(k.inputs())
	ctx, cancel := context.WithTimeout(context.Background(), 40*time.Second)
	defer cancel()
	cmd := exec.CommandContext(ctx, exe, "C10", "clchild", f[1], f[2], f[3], f[4])
	var stdout, stderr bytes.Buffer
	cmd.Stdout, cmd.Stderr = &stdout, &stderr
	runErr := cmd.Run()
	for _, ln := range strings.Split(stdout.String(), "\n") {
		if strings.HasPrefix(ln, "cl ") && strings.Contains(ln, " | ") {
			return ln
		}
	}
	// the child died before it could print its line
	msg := "child-exited-without-a-line"
	for _, ln := range strings.Split(stderr.String(), "\n") {
		if strings.HasPrefix(ln, "panic:") || strings.HasPrefix(ln, "fatal error:") {
			msg = strings.ReplaceAll(strings.TrimSpace(ln), " ", "_")
			break
		}
	}
	if ctx.Err() != nil {
		return k.inputs() + " | err timeout child"
	}
	_ = runErr
	return k.inputs() + " | panic " + msg
}

// c10clchild is the child: one net, one line on stdout.
func c10clchild(c *Ctx, args []string) {
	if len(args) < 4 {
		os.Exit(3)
	}
	k := c10cparse(append([]string{"cl"}, args...))
	out := c10cexec(k)
	fmt.Printf("%s | %s\n", k.inputs(), out)
	os.Stdout.Sync()
}

func c10contentReplay(c *Ctx, f []string) {
	if len(f) < 4 {
		return
	}
	c.Emit("%s", c10cchild(c10cparse(f)))
}

var _ = strconv.Itoa
