//go:build c10 || all

package main

import (
	"crypto/sha256"
	"fmt"
	"strconv"
	"strings"
	"sync"
	"time"

	"github.com/zen-eth/shisui/portalwire"
)

// Content lookup over loopback UDP (the real ContentLookup / contentLookupWorker / findContent / processContent of an
// asker against scripted discv5 peers).  Lines:
//
//	cl <npeers> <answers> <table>:<delays-ms> | ok <started> <outcome>
//	   answers  per peer 1..n separated by ';' : c<hex> content / e<i,j,..> closer nodes ("e." none) / x not listening
//	            (request times out) / z empty response / g garbage response
//	   started  peers whose FINDCONTENT handler ran, in order ("." none); outcome = found:<hex> | notfound | err:<msg>
type c10cnet struct {
	peers  []portalwire.VerifContentPeer
	table  []int
	delays []int
}

func (k *c10cnet) inputs() string {
	ans := make([]string, len(k.peers))
	for i, p := range k.peers {
		switch p.Kind {
		case 'c':
			ans[i] = "c" + hx(p.Content)
		case 'e':
			ans[i] = "e" + c10idxs(p.Closer)
		default:
			ans[i] = string(p.Kind)
		}
	}
	return fmt.Sprintf("cl %d %s %s:%s", len(k.peers), strings.Join(ans, ";"), c10idxs(k.table), c10idxs(k.delays))
}

func c10cparse(f []string) *c10cnet {
	k := &c10cnet{}
	for _, a := range strings.Split(f[2], ";") {
		p := portalwire.VerifContentPeer{Kind: a[0]}
		switch a[0] {
		case 'c':
			p.Content = unhx(a[1:])
		case 'e':
			p.Closer = c10parseIdxs(a[1:])
		}
		k.peers = append(k.peers, p)
	}
	td := strings.SplitN(f[3], ":", 2)
	k.table = c10parseIdxs(td[0])
	k.delays = c10parseIdxs(td[1])
	for i := range k.peers {
		if i < len(k.delays) {
			k.peers[i].Delay = time.Duration(k.delays[i]) * time.Millisecond
		}
	}
	return k
}

func c10cexec(k *c10cnet) string {
	net, err := portalwire.VerifContentNetNew(k.peers, k.table)
	if err != nil {
		return "err setup " + strings.ReplaceAll(err.Error(), " ", "_")
	}
	defer net.Close()
	key := []byte{0x03, 0x04}
	id := sha256.Sum256(key)
	type out struct {
		c       []byte
		err     error
		started []int
	}
	ch := make(chan out, 1)
	go func() {
		c, err, st := net.Lookup(key, id[:])
		ch <- out{c, err, st}
	}()
	select {
	case o := <-ch:
		st := c10idxs(o.started)
		switch {
		case o.err == nil:
			return fmt.Sprintf("ok %s found:%s", st, hx(o.c))
		case portalwire.VerifContentNotFound(o.err):
			return fmt.Sprintf("ok %s notfound", st)
		default:
			return fmt.Sprintf("ok %s err:%s", st, strings.ReplaceAll(o.err.Error(), " ", "_"))
		}
	case <-time.After(30 * time.Second):
		return "err timeout"
	}
}

func c10cgen(c *Ctx) *c10cnet {
	r := c.Rng
	n := 2 + r.Intn(6)
	k := &c10cnet{}
	ncontent := 0
	for i := 1; i <= n; i++ {
		p := portalwire.VerifContentPeer{}
		switch x := r.Intn(10); {
		case x < 2:
			p.Kind = 'c'
			p.Content = append([]byte{byte(i)}, r.Bytes(1+r.Intn(20))...)
			ncontent++
		case x < 7:
			p.Kind = 'e'
			for j := 0; j < 1+r.Intn(4); j++ {
				p.Closer = append(p.Closer, r.Intn(n+1)) // 0 = the asker itself
			}
		case x == 7:
			p.Kind = 'x'
		case x == 8:
			p.Kind = 'z'
		default:
			p.Kind = 'g'
		}
		d := []int{0, 0, 1, 3, 10, 30}[r.Intn(6)]
		k.delays = append(k.delays, d)
		p.Delay = time.Duration(d) * time.Millisecond
		k.peers = append(k.peers, p)
	}
	for j := 0; j < 1+r.Intn(3); j++ {
		v := 1 + r.Intn(n)
		dup := false
		for _, t := range k.table {
			dup = dup || t == v
		}
		if !dup {
			k.table = append(k.table, v)
		}
	}
	c.Count(fmt.Sprintf("content_peers_with_content_%d", ncontent))
	return k
}

func c10content(c *Ctx) {
	n := 24
	if c.Tier == "thorough" {
		n = 150
	}
	if c.N > 0 && c.N < 100 {
		n = 4
	}
	nets := make([]*c10cnet, n)
	for i := range nets {
		nets[i] = c10cgen(c)
	}
	outs := make([]string, n)
	var wg sync.WaitGroup
	sem := make(chan struct{}, 6)
	for i := range nets {
		wg.Add(1)
		go func(i int) {
			defer wg.Done()
			sem <- struct{}{}
			outs[i] = c10cexec(nets[i])
			<-sem
		}(i)
	}
	wg.Wait()
	for i := range nets {
		c.Count("content_lookups")
		if strings.Contains(outs[i], "found:") {
			c.Count("content_found")
		}
		c.Emit("%s | %s", nets[i].inputs(), outs[i])
	}
}

func c10contentReplay(c *Ctx, f []string) {
	if len(f) < 4 {
		return
	}
	k := c10cparse(f)
	c.Emit("%s | %s", k.inputs(), c10cexec(k))
}

var _ = strconv.Itoa
