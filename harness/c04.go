//go:build c04 || c05 || c06 || c17 || all

package main

// Storage harness shared by C04, C05, C06 and C17: runs the REAL pebble content store
// (storage/pebble.NewDB + NewStorage) in a temporary directory on generated histories.
//
// Line kinds (fields before the bar are the inputs, after the bar the implementation observable):
//
//	h04|h05|h06|h17 <capMB> <node> <ops> | ok <step>;<step>;...      history, one observation per op
//	   op   = p,<id>,<val> | g,<id> | r                                 put / get / close+reopen
//	   val  = s<hex> (explicit bytes, s- = empty) | l<vid>.<len>        (generated value: 8-byte BE vid, then a PRNG stream)
//	   step = <res>,<radius hex>,<counter>,<size record>,<held bytes>,<get of every id of the history joined by +>
//	   res  = ok | refused | err | found value (for g) | - (for r)
//	   get  = nf | s<hex> | l<vid>.<len> | x<len>.<sha prefix> (bytes nobody generated)
//	xor <id> <node> | ok <key>
//	thr <capMB> | ok <prune target> <radius reload threshold>
//	retain <items> <vlen> <keep> <churn> | ok changed=<n>              retained-slice check (C04)
//	conc <capMB> <goroutines> <puts> <vlen> <round> | ok held=.. rec=.. cnt=.. cap=..   (C05)
import (
	"bytes"
	"crypto/sha256"
	"encoding/binary"
	"encoding/hex"
	"errors"
	"fmt"
	"os"
	"runtime"
	"runtime/debug"
	"strconv"
	"strings"
	"sync"
	"time"

	"github.com/cockroachdb/pebble"
	"github.com/ethereum/go-ethereum/log"
	"github.com/zen-eth/shisui/storage"
	spebble "github.com/zen-eth/shisui/storage/pebble"
)

func init() {
	log.SetDefault(log.NewLogger(log.DiscardHandler()))
	registry["C04"] = func(c *Ctx) { runStorage(c, "04") }
	registry["C05"] = func(c *Ctx) { runStorage(c, "05") }
	registry["C06"] = func(c *Ctx) { runStorage(c, "06") }
	registry["C17"] = func(c *Ctx) { runStorage(c, "17") }
}

// ---------------------------------------------------------------- values

type stVal struct {
	long bool
	raw  []byte // short values
	vid  uint64
	n    int
}

func (v stVal) String() string {
	if v.long {
		return fmt.Sprintf("l%d.%d", v.vid, v.n)
	}
	return "s" + hx(v.raw)
}

// bytes of a generated value: 8-byte big-endian vid, then a splitmix stream seeded by vid (n >= 16)
func (v stVal) Bytes() []byte {
	if !v.long {
		return append([]byte{}, v.raw...)
	}
	b := make([]byte, v.n)
	binary.BigEndian.PutUint64(b, v.vid)
	r := NewRng(v.vid ^ 0xabcdef)
	copy(b[8:], r.Bytes(v.n-8))
	return b
}

func parseVal(s string) stVal {
	if s[0] == 's' {
		return stVal{raw: unhx(s[1:])}
	}
	p := strings.SplitN(s[1:], ".", 2)
	vid, _ := strconv.ParseUint(p[0], 10, 64)
	n, _ := strconv.Atoi(p[1])
	return stVal{long: true, vid: vid, n: n}
}

// describe bytes handed back by Get
func describe(b []byte) string {
	if len(b) < 16 {
		return "s" + hx(b)
	}
	vid := binary.BigEndian.Uint64(b)
	v := stVal{long: true, vid: vid, n: len(b)}
	if vid < 1<<40 && bytes.Equal(v.Bytes(), b) {
		return v.String()
	}
	h := sha256.Sum256(b)
	return fmt.Sprintf("x%d.%s", len(b), hex.EncodeToString(h[:4]))
}

// ---------------------------------------------------------------- store wrapper

// wrappers in front of the store through which Get is issued (registered by c04_hybrid.go, keyed by line kind)
var stWrappers = map[string]func(s *stStore) func(id []byte) ([]byte, error){}

type stStore struct {
	getVia func(id []byte) ([]byte, error)
	wrap   func(s *stStore) func(id []byte) ([]byte, error)
	closed bool
	dir    string
	capMB  uint64
	node   [32]byte
	db     *pebble.DB
	cs     storage.ContentStorage
	pruned bool
}

func stTempDir() string {
	d, err := os.MkdirTemp("", "b-storage-")
	if err != nil {
		panic(err)
	}
	return d
}

func stOpen(dir string, capMB uint64, node [32]byte) (*stStore, error) {
	db, err := spebble.NewDB(dir, 16, 16, "verif")
	if err != nil {
		return nil, err
	}
	// NewStorage can panic (a size record shorter than 8 bytes, written through content id = node id): close the
	// database and let the panic through with its own message
	defer func() {
		if r := recover(); r != nil {
			waitPruneGoroutines()
			_ = db.Close()
			panic(r)
		}
	}()
	cs, err := spebble.NewStorage(storage.PortalStorageConfig{StorageCapacityMB: capMB, NodeId: node, NetworkName: "verif"}, db)
	if err != nil {
		db.Close()
		return nil, err
	}
	// NewStorage prunes when the persisted counter exceeds the capacity
	return &stStore{dir: dir, capMB: capMB, node: node, db: db, cs: cs, pruned: true}, nil
}

// prune() starts `go db.Compact(...)`; closing the database before that goroutine has finished makes it
// panic (pebble: closed) and kills the process.  Wait until no goroutine started by the store package is left
// (matched by its "created by" frame, so the wait survives renames / extraction of the compaction closure).
var stackBuf = make([]byte, 1<<20)

func waitPruneGoroutines() {
	for i := 0; i < 20000; i++ {
		// runtime.Stack truncates silently when the buffer is too small (many goroutines alive): the goroutine looked
		// for may then be missing from the dump, so grow the buffer until the whole dump fits
		n := runtime.Stack(stackBuf, true)
		for n == len(stackBuf) && len(stackBuf) < 1<<30 {
			stackBuf = make([]byte, 2*len(stackBuf))
			n = runtime.Stack(stackBuf, true)
		}
		if !bytes.Contains(stackBuf[:n], []byte("created by github.com/zen-eth/shisui/storage/pebble.")) {
			return
		}
		time.Sleep(500 * time.Microsecond)
	}
	panic("compaction goroutine of prune() did not finish")
}

func (s *stStore) close() {
	if s.closed {
		return
	}
	s.closed = true
	if s.pruned {
		waitPruneGoroutines()
	}
	// prune() never closes its iterator, so Close may report leaked iterators; the data is flushed regardless
	_ = s.db.Close()
}

func (s *stStore) reopen() error {
	s.close()
	n, err := stOpen(s.dir, s.capMB, s.node)
	if err != nil {
		return err
	}
	n.wrap = s.wrap
	if n.wrap != nil {
		n.getVia = n.wrap(n)
	}
	*s = *n
	return nil
}

func (s *stStore) get(id []byte) string {
	var b []byte
	var err error
	if s.getVia != nil {
		b, err = s.getVia(id)
	} else {
		b, err = s.cs.Get(nil, id)
	}
	if err != nil {
		if errors.Is(err, storage.ErrContentNotFound) {
			return "nf"
		}
		return "err"
	}
	return describe(b)
}

// held bytes (key+value of everything except the size record) and the raw size record
func (s *stStore) scan() (held uint64, rec string) {
	rec = "none"
	it, err := s.db.NewIter(nil)
	if err != nil {
		panic(err)
	}
	defer it.Close()
	for it.First(); it.Valid(); it.Next() {
		if bytes.Equal(it.Key(), storage.SizeKey) {
			v := it.Value()
			if len(v) == 8 {
				rec = strconv.FormatUint(binary.BigEndian.Uint64(v), 10)
			} else {
				rec = "x" + describe(v)
			}
			continue
		}
		held += uint64(len(it.Key())) + uint64(len(it.Value()))
	}
	return
}

func (s *stStore) observe(res string, ids [][]byte) string {
	held, rec := s.scan()
	gets := make([]string, len(ids))
	for i, id := range ids {
		gets[i] = s.get(id)
	}
	g := strings.Join(gets, "+")
	if len(gets) == 0 {
		g = "."
	}
	return fmt.Sprintf("%s,%s,%d,%s,%d,%s", res, s.cs.Radius().Hex()[2:], spebble.VerifCounter(s.cs), rec, held, g)
}

// ---------------------------------------------------------------- history execution

type stOp struct {
	kind byte
	id   []byte
	val  stVal
	cap  uint64 // kind 'c': close, then reopen with this capacity in MB (a configuration change between runs)
	// kind 'b': a bulk of `count` puts of tiny far items (ids and values derived from seed and index, see bulkItem);
	// observed as one step
	count int
	seed  int
}

// item i of a bulk: key f0|i>>8, i&0xff, seed, 0... (the far end of the key space) and a value of 0..16 bytes
func bulkItem(node []byte, seed, i int) ([]byte, []byte) {
	k := make([]byte, 32)
	k[0] = 0xf0 | byte((i>>8)&0x0f)
	k[1] = byte(i)
	k[2] = byte(seed)
	n := (i*7 + seed) % 17
	v := make([]byte, n)
	for j := range v {
		v[j] = byte(i + j + seed)
	}
	return xor32(k, node), v
}

func parseOps(s string) []stOp {
	var ops []stOp
	if s == "." {
		return ops
	}
	for _, o := range strings.Split(s, ";") {
		f := strings.Split(o, ",")
		switch f[0] {
		case "p":
			ops = append(ops, stOp{kind: 'p', id: unhx(f[1]), val: parseVal(f[2])})
		case "g":
			ops = append(ops, stOp{kind: 'g', id: unhx(f[1])})
		case "r":
			ops = append(ops, stOp{kind: 'r'})
		case "c":
			mb, _ := strconv.ParseUint(f[1], 10, 64)
			ops = append(ops, stOp{kind: 'c', cap: mb})
		case "x":
			ops = append(ops, stOp{kind: 'x', id: unhx(f[1]), val: parseVal(f[2])})
		case "b":
			n, _ := strconv.Atoi(f[1])
			sd, _ := strconv.Atoi(f[2])
			ops = append(ops, stOp{kind: 'b', count: n, seed: sd})
		}
	}
	return ops
}

func opsString(ops []stOp) string {
	if len(ops) == 0 {
		return "."
	}
	p := make([]string, len(ops))
	for i, o := range ops {
		switch o.kind {
		case 'p':
			p[i] = "p," + hx(o.id) + "," + o.val.String()
		case 'g':
			p[i] = "g," + hx(o.id)
		case 'c':
			p[i] = fmt.Sprintf("c,%d", o.cap)
		case 'b':
			p[i] = fmt.Sprintf("b,%d,%d", o.count, o.seed)
		case 'x':
			p[i] = "x," + hx(o.id) + "," + o.val.String()
		default:
			p[i] = "r"
		}
	}
	return strings.Join(p, ";")
}

func idPool(ops []stOp) [][]byte {
	var ids [][]byte
	seen := map[string]bool{}
	for _, o := range ops {
		if o.kind == 'r' || o.kind == 'c' || o.kind == 'b' || o.kind == 'x' {
			continue
		}
		if !seen[string(o.id)] {
			seen[string(o.id)] = true
			ids = append(ids, o.id)
		}
	}
	return ids
}

func putRes(err error) string {
	switch {
	case err == nil:
		return "ok"
	case errors.Is(err, storage.ErrInsufficientRadius):
		return "refused"
	default:
		return "err"
	}
}

func stHistory(c *Ctx, kind string, capMB uint64, node [32]byte, ops []stOp) {
	head := fmt.Sprintf("%s %d %s %s", kind, capMB, hx(node[:]), opsString(ops))
	var steps []string
	p, msg := guard(func() {
		dir := stTempDir()
		defer os.RemoveAll(dir)
		s, err := stOpen(dir, capMB, node)
		if err != nil {
			panic("open: " + err.Error())
		}
		s.pruned = false
		if w, ok := stWrappers[kind]; ok {
			s.wrap = w
			s.getVia = w(s)
		}
		defer func() { s.close() }()
		ids := idPool(ops)
		for _, o := range ops {
			var res string
			switch o.kind {
			case 'p':
				err := s.cs.Put(nil, o.id, o.val.Bytes())
				res = putRes(err)
				s.pruned = true
			case 'g':
				res = s.get(o.id)
			case 'x':
				// a foreign entry written into the database behind the store's back (o.id is the raw key)
				if err := s.db.Set(o.id, o.val.Bytes(), pebble.NoSync); err != nil {
					panic(err)
				}
				res = "-"
			case 'b':
				acc := 0
				for i := 0; i < o.count; i++ {
					id, v := bulkItem(node[:], o.seed, i)
					if s.cs.Put(nil, id, v) == nil {
						acc++
					}
				}
				res = fmt.Sprintf("b%d", acc)
				s.pruned = true
			case 'r':
				if err := s.reopen(); err != nil {
					panic("reopen: " + err.Error())
				}
				res = "-"
			case 'c':
				s.capMB = o.cap
				if err := s.reopen(); err != nil {
					panic("reopen: " + err.Error())
				}
				res = "-"
			}
			steps = append(steps, s.observe(res, ids))
		}
	})
	if p {
		// the history failed (NewStorage returned an error, or a panic) at op number len(steps): the observations of the
		// steps before it are still reported and compared
		st := strings.Join(steps, ";")
		if len(steps) == 0 {
			st = "."
		}
		c.Emit("%s | panic %s after=%d %s", head, msg, len(steps), st)
		return
	}
	st := strings.Join(steps, ";")
	if len(steps) == 0 {
		st = "."
	}
	c.Emit("%s | ok %s", head, st)
}

// ---------------------------------------------------------------- generators

func flipBit(id []byte, bit int) []byte {
	o := append([]byte{}, id...)
	o[bit/8] ^= 1 << (7 - uint(bit%8))
	return o
}

func xor32(a, b []byte) []byte {
	o := make([]byte, 32)
	for i := range o {
		o[i] = a[i] ^ b[i]
	}
	return o
}

func key32(first, last byte) []byte {
	k := make([]byte, 32)
	k[0] = first
	k[31] = last
	return k
}

func genNode(c *Ctx) (n [32]byte) {
	r := c.Rng
	switch r.Intn(6) {
	case 0: // zero
		c.Count("node_zero")
	case 1:
		for i := range n {
			n[i] = 0xff
		}
		c.Count("node_ff")
	case 2:
		n[31] = 1
		c.Count("node_one")
	default:
		copy(n[:], r.Bytes(32))
		c.Count("node_random")
	}
	return
}

// id pool: random ids, single-bit neighbours, ids whose KEYS differ only in byte 0 vs byte 31 (adversarial for the
// little-endian/big-endian reading), and (only when excluded=true) the node id itself and ids of other lengths.
func genIds(c *Ctx, node [32]byte, excluded bool) [][]byte {
	r := c.Rng
	var ids [][]byte
	nb := 2 + r.Intn(4)
	for i := 0; i < nb; i++ {
		base := r.Bytes(32)
		ids = append(ids, base)
		switch r.Intn(4) {
		case 0:
			ids = append(ids, flipBit(base, 255))
		case 1:
			ids = append(ids, flipBit(base, 0))
		case 2:
			ids = append(ids, flipBit(base, r.Intn(256)))
		}
	}
	if r.Intn(2) == 0 {
		c.Count("ids_adversarial_keys")
		for _, k := range [][]byte{key32(1, 0), key32(2, 0), key32(3, 0), key32(0, 9), key32(0, 1), key32(0, 2), key32(1, 1), key32(0xff, 0), key32(0, 0xff)} {
			if r.Intn(3) != 0 {
				ids = append(ids, xor32(k, node[:]))
			}
		}
	}
	if excluded {
		switch r.Intn(3) {
		case 0:
			ids = append(ids, append([]byte{}, node[:]...))
			c.Count("ids_node_itself")
		case 1:
			l := r.Pick([]int{1, 3, 20, 31, 33, 40})
			ids = append(ids, r.Bytes(l))
			c.Count("ids_other_length")
		}
	}
	return ids
}

func genVal(c *Ctx, capMB uint64, vidc *uint64, profile int) stVal {
	r := c.Rng
	cp := int(capMB) * 1000000
	five := cp / 20
	var n int
	switch profile {
	case 0: // mixed sizes, the C04 grid
		n = r.Pick([]int{0, 1, 8, 8, 15, 16, 17, 300, 20000, five - 33, five - 32, five - 31, five, 300000, cp/2 + 7, cp + 1000})
	case 1: // only items <= 5% (C05 capacity clause)
		n = r.Pick([]int{0, 1, 8, 300, 20000, 40000, five - 33, five - 32, five - 32, five - 32})
	case 2: // many prunes with few ops
		n = r.Pick([]int{300000, 300000, 200000, five - 32, 100000, 450000, 17})
	default:
		n = r.Pick([]int{40000, 40000, 20000, five - 32, 8})
	}
	c.Count(fmt.Sprintf("val_len_bucket_%d", stBucket(n)))
	if n < 16 {
		return stVal{raw: r.Bytes(n)}
	}
	*vidc++
	return stVal{long: true, vid: *vidc, n: n}
}

func genOps(c *Ctx, capMB uint64, ids [][]byte, nops int, profile int, reopen bool) []stOp {
	r := c.Rng
	var ops []stOp
	var vidc uint64 = uint64(r.Intn(1000)) * 1000
	for i := 0; i < nops; i++ {
		k := r.Intn(100)
		switch {
		case k < 78:
			id := ids[r.Intn(len(ids))]
			if len(ops) > 0 && r.Intn(8) == 0 { // overwrite the most recent id
				for j := len(ops) - 1; j >= 0; j-- {
					if ops[j].kind == 'p' {
						id = ops[j].id
						c.Count("op_overwrite_recent")
						break
					}
				}
			}
			ops = append(ops, stOp{kind: 'p', id: id, val: genVal(c, capMB, &vidc, profile)})
			c.Count("op_put")
		case k < 90 || !reopen:
			ops = append(ops, stOp{kind: 'g', id: ids[r.Intn(len(ids))]})
			c.Count("op_get")
		default:
			ops = append(ops, stOp{kind: 'r'})
			c.Count("op_reopen")
		}
	}
	return ops
}

func zeroNode() (n [32]byte) { return }

// fixed histories: the scenarios found while the design was written
func stCorpus(c *Ctx, kind string) {
	z := zeroNode()
	big := func(vid uint64) stVal { return stVal{long: true, vid: vid, n: 300000} }
	// little-endian radius: keys 01..00, 02..00, 03..00, 00..09
	stHistory(c, kind, 1, z, []stOp{
		{kind: 'p', id: key32(1, 0), val: big(1)}, {kind: 'p', id: key32(2, 0), val: big(2)},
		{kind: 'p', id: key32(3, 0), val: big(3)}, {kind: 'p', id: key32(0, 9), val: big(4)},
		{kind: 'p', id: key32(0, 1), val: big(5)}, {kind: 'r'}})
	// overwrites of one id inflate the counter until the item itself is pruned; then reopen
	var ops []stOp
	id := key32(0x55, 0x66)
	for i := 0; i < 26; i++ {
		ops = append(ops, stOp{kind: 'p', id: id, val: stVal{long: true, vid: uint64(100 + i), n: 40000}})
	}
	ops = append(ops, stOp{kind: 'r'}, stOp{kind: 'p', id: key32(0x11, 0x22), val: stVal{long: true, vid: 200, n: 1000}}, stOp{kind: 'g', id: id})
	stHistory(c, kind, 1, z, ops)
	// the TestPrune sequence
	ops = nil
	for i, n := range []int{900000, 40000, 20000, 20000, 20000, 20000, 20000} {
		ops = append(ops, stOp{kind: 'p', id: key32(0, byte(i+1)), val: stVal{long: true, vid: uint64(300 + i), n: n}})
	}
	ops = append(ops, stOp{kind: 'r'})
	stHistory(c, kind, 1, z, ops)
	// excluded case content id = node id: an 8-byte value overwrites the size record, the counter reloaded from it
	// is an arbitrary uint64 (here above 2^63); everything must still compare exactly
	zid := make([]byte, 32)
	stHistory(c, kind, 1, z, []stOp{
		{kind: 'p', id: key32(3, 3), val: stVal{long: true, vid: 500, n: 20000}},
		{kind: 'p', id: zid, val: stVal{raw: []byte{0x85, 0x80, 0xa7, 0x60, 0x61, 0xb7, 0x29, 0x50}}},
		{kind: 'g', id: zid}, {kind: 'r'},
		{kind: 'p', id: key32(4, 4), val: stVal{long: true, vid: 501, n: 30000}}, {kind: 'g', id: zid},
		{kind: 'p', id: zid, val: stVal{raw: []byte{0xfe, 0, 0, 0, 0, 0, 0, 1}}}, {kind: 'r'}, {kind: 'g', id: key32(3, 3)}})
	// prune, then close and reopen twice with no accepted put in between: what was readable before the close stays readable
	var pr []stOp
	for i, n := range []int{300000, 300000, 300000, 150000} {
		pr = append(pr, stOp{kind: 'p', id: key32(byte(i+1), 0x21), val: stVal{long: true, vid: uint64(600 + i), n: n}})
	}
	pr = append(pr, stOp{kind: 'g', id: key32(1, 0x21)}, stOp{kind: 'r'}, stOp{kind: 'g', id: key32(2, 0x21)}, stOp{kind: 'r'}, stOp{kind: 'g', id: key32(3, 0x21)},
		stOp{kind: 'p', id: key32(1, 0x22), val: stVal{raw: []byte{9}}}, stOp{kind: 'r'})
	stHistory(c, kind, 1, z, pr)
	// empty history, reopen of an empty store
	stHistory(c, kind, 1, z, []stOp{{kind: 'r'}, {kind: 'g', id: key32(1, 1)}})
	// a value larger than the capacity
	stHistory(c, kind, 1, z, []stOp{{kind: 'p', id: key32(7, 7), val: stVal{long: true, vid: 400, n: 1200000}}, {kind: 'p', id: key32(7, 8), val: stVal{raw: []byte{1}}}, {kind: 'r'}})
}

// Directed boundary histories: the counter lands exactly on a threshold (and one below / one above), then the store
// is reopened.  `target` bytes are written as distinct items of 32+len bytes each; reopening with capacity `reopenMB`.
func stBoundary(c *Ctx, kind string, fillMB uint64, target uint64, reopenMB uint64, node [32]byte, seed int) {
	var ops []stOp
	left := target
	i := 0
	for left > 0 {
		chunk := uint64(200000 + 7919*((seed+i)%13))
		if left <= chunk+40 {
			chunk = left // the last item makes the sum exact (32 + len = chunk, len >= 8)
		}
		// ids close to the node first, so nothing is refused and keys are distinct
		id := make([]byte, 32)
		id[0] = byte(i + 1)
		id[31] = byte(seed)
		n := int(chunk) - 32
		var v stVal
		if n < 16 {
			v = stVal{raw: make([]byte, n)}
		} else {
			v = stVal{long: true, vid: uint64(9000 + seed*100 + i), n: n}
		}
		ops = append(ops, stOp{kind: 'p', id: xor32(id, node[:]), val: v})
		left -= chunk
		i++
	}
	if reopenMB == fillMB {
		ops = append(ops, stOp{kind: 'r'})
	} else {
		ops = append(ops, stOp{kind: 'c', cap: reopenMB})
	}
	// one more put and a plain reopen afterwards: the store must go on working
	id := make([]byte, 32)
	id[0] = 0x7f
	ops = append(ops, stOp{kind: 'p', id: xor32(id, node[:]), val: stVal{raw: []byte{1, 2, 3}}}, stOp{kind: 'r'})
	c.Count("boundary_history")
	stHistory(c, kind, fillMB, node, ops)
}

func stBoundaries(c *Ctx, kind string) {
	r := c.Rng
	seed := 0
	for _, mb := range []uint64{1, 2, 3} {
		cp := mb * 1000000
		five := cp / 20
		for _, d := range []int64{-1, 0, 1} {
			// the 95% rule of NewStorage: counter == capacity - 5%, one below, one above
			seed++
			stBoundary(c, kind, mb, uint64(int64(cp-five)+d), mb, genNode(c), seed)
			// the prune-on-open rule: counter == capacity of the reopening configuration, +-1
			// (filled under a larger capacity, reopened with a smaller one: a configuration change)
			seed++
			stBoundary(c, kind, mb+1+uint64(r.Intn(2)), uint64(int64(cp)+d), mb, genNode(c), seed)
			// and the 95% rule under a configuration change
			if d == 0 {
				seed++
				stBoundary(c, kind, mb+1, cp-five, mb, genNode(c), seed)
			}
		}
	}
}

// ---------------------------------------------------------------- retained slices by value size class (C04)

// For every size class a few items are stored; a slice obtained from Get is kept while the store serves other Gets
// (other tiny values, other ids, the same id), Gets from several goroutines, puts, and garbage collections; the kept
// slice must still hold the bytes that were put.  Output: per size class the number of kept slices that changed.
func stRetainClasses(c *Ctx, round int) {
	classes := []int{0, 1, 2, 4, 7, 8, 9, 16, 32, 300, 20000, 300000}
	head := fmt.Sprintf("retainx %d", round)
	changed := map[int]int{}
	checked := 0
	p, msg := guard(func() {
		dir := stTempDir()
		defer os.RemoveAll(dir)
		s, err := stOpen(dir, 1000, zeroNode())
		if err != nil {
			panic(err)
		}
		s.pruned = false
		defer func() { s.close() }()
		r := NewRng(uint64(round)*7919 + 5)
		const per = 6
		idOf := func(ci, j int) []byte {
			id := make([]byte, 32)
			id[0] = byte(ci + 1)
			id[1] = byte(j + 1)
			id[31] = byte(round)
			return id
		}
		valOf := func(ci, j int) []byte {
			n := classes[ci]
			if n < 16 {
				b := make([]byte, n)
				for k := range b {
					b[k] = byte(0x10*ci + 0x31*j + k + 1)
				}
				return b
			}
			return stVal{long: true, vid: uint64(ci*100 + j + 1), n: n}.Bytes()
		}
		for ci := range classes {
			for j := 0; j < per; j++ {
				if err := s.cs.Put(nil, idOf(ci, j), valOf(ci, j)); err != nil {
					panic(err)
				}
			}
		}
		type kept struct {
			ci, j int
			b     []byte
		}
		var ks []kept
		keep := func(ci, j int) {
			b, err := s.cs.Get(nil, idOf(ci, j))
			if err != nil {
				panic(err)
			}
			ks = append(ks, kept{ci, j, b})
		}
		churn := func() {
			// other tiny values, other ids, the same ids again
			for k := 0; k < 40; k++ {
				ci := r.Intn(len(classes))
				if r.Intn(2) == 0 {
					ci = r.Intn(7) // tiny classes
				}
				_, _ = s.cs.Get(nil, idOf(ci, r.Intn(per)))
			}
		}
		for ci := range classes {
			keep(ci, 0)
			churn()
			keep(ci, 1)
			// immediately followed by a Get of another tiny value and of the same id
			_, _ = s.cs.Get(nil, idOf((ci+1)%7, 2))
			_, _ = s.cs.Get(nil, idOf(ci, 1))
			keep(ci, 2)
			runtime.GC()
			churn()
		}
		// Gets from several goroutines
		var wg sync.WaitGroup
		for g := 0; g < 4; g++ {
			wg.Add(1)
			go func(g int) {
				defer wg.Done()
				rr := NewRng(uint64(round)*31 + uint64(g))
				for k := 0; k < 400; k++ {
					_, _ = s.cs.Get(nil, idOf(rr.Intn(len(classes)), rr.Intn(per)))
				}
			}(g)
		}
		for ci := range classes {
			keep(ci, 3)
		}
		wg.Wait()
		// overwrites of the kept ids with other bytes, a flush, a collection
		for ci := range classes {
			n := classes[ci]
			_ = s.cs.Put(nil, idOf(ci, 0), r.Bytes(n))
		}
		_ = s.db.Flush()
		runtime.GC()
		churn()
		for _, k := range ks {
			checked++
			if !bytes.Equal(k.b, valOf(k.ci, k.j)) {
				changed[classes[k.ci]]++
			}
		}
	})
	if p {
		c.Emit("%s | panic %s", head, msg)
		return
	}
	total := 0
	var parts []string
	for _, n := range classes {
		if changed[n] > 0 {
			parts = append(parts, fmt.Sprintf("%d:%d", n, changed[n]))
			total += changed[n]
		}
	}
	cl := "-"
	if len(parts) > 0 {
		cl = strings.Join(parts, "+")
	}
	c.Emit("%s | ok checked=%d changed=%d classes=%s", head, checked, total, cl)
}

// Directed history: a few large near items, then `count` tiny items (0..16 bytes) at the far end of the key space,
// then a put of exactly 5% of the capacity: the pruning pass of that put has to delete far more than a thousand
// items to free its 5%.
func stManyTiny(c *Ctx, kind string, count int, seed int) {
	node := genNode(c)
	near := func(x byte) []byte { k := make([]byte, 32); k[0] = x; k[31] = byte(seed); return xor32(k, node[:]) }
	// bytes the bulk will take: 32 + (i*7+seed)%17 each
	bulk := 0
	for i := 0; i < count; i++ {
		bulk += 32 + (i*7+seed)%17
	}
	fill := 1000000 - bulk - 20000 // the store ends 20 kB below capacity before the 5% put
	var ops []stOp
	x := byte(1)
	vid := uint64(8000 + 100*seed)
	for fill > 0 {
		n := 300000
		if fill < n+40000 {
			n = fill
		}
		vid++
		ops = append(ops, stOp{kind: 'p', id: near(x), val: stVal{long: true, vid: vid, n: n - 32}})
		fill -= n
		x++
	}
	ops = append(ops, stOp{kind: 'b', count: count, seed: seed})
	ops = append(ops, stOp{kind: 'g', id: near(1)})
	vid++
	ops = append(ops, stOp{kind: 'p', id: near(x), val: stVal{long: true, vid: vid, n: 50000 - 32}}) // 5% of 1 MB incl. the key
	ops = append(ops, stOp{kind: 'p', id: near(x + 1), val: stVal{raw: []byte{1, 2, 3}}}, stOp{kind: 'r'})
	c.Count("many_tiny_items_history")
	stHistory(c, kind, 1, node, ops)
}

// Directed history (f05 lines, monitors on the implementation's observations only - a database holding a key that is
// not 32 bytes is outside the model): three near items, then a FOREIGN 33-byte key written into the database exactly
// where the next pruning pass will stop, then the over-capacity put - its item is committed, then prune() fails on the
// undecodable key - then further puts (a restart of such a database fails in NewStorage).  Whatever Put returns, what is held must stay on the usage figure.
func stPruneFails(c *Ctx, seed int) {
	var node [32]byte
	key := func(a byte) []byte { k := make([]byte, 32); k[0] = a; k[31] = byte(seed); return k }
	vid := uint64(9700 + 100*seed)
	big := func(n int) stVal { vid++; return stVal{long: true, vid: vid, n: n} }
	ops := []stOp{
		{kind: 'p', id: key(1), val: big(300000)}, {kind: 'p', id: key(2), val: big(300000)}, {kind: 'p', id: key(3), val: big(300000)},
		{kind: 'x', id: append(key(4), 0x77), val: stVal{raw: []byte{1, 2, 3, 4, 5}}},
		{kind: 'p', id: key(5), val: big(100000 + 1000*(seed%90))}, // over capacity: committed, then the prune errors
		{kind: 'g', id: key(5)},
		{kind: 'p', id: key(1), val: big(20000)}, {kind: 'p', id: key(2), val: stVal{raw: []byte{9, 9}}},
		{kind: 'p', id: key(6), val: big(30000)}, {kind: 'p', id: key(7), val: stVal{raw: []byte{1}}},
	}
	c.Count("prune_fails_history")
	stHistory(c, "f05", 1, node, ops)
}

func stThr(c *Ctx, capMB uint64) {
	a, b := spebble.VerifThresholds(capMB)
	c.Emit("thr %d | ok %d %d", capMB, a, b)
}

func stXor(c *Ctx, id, node []byte) {
	var k []byte
	if p, msg := guard(func() { k = spebble.VerifXor(id, node) }); p {
		c.Emit("xor %s %s | panic %s", hx(id), hx(node), msg)
		return
	}
	c.Emit("xor %s %s | ok %s", hx(id), hx(node), hx(k))
}

// ---------------------------------------------------------------- retained slices (C04, memory lifetime)

// Many small values, a number of slices obtained from Get are kept, then the block cache is churned by
// reading everything else and writing more; the kept slices must still hold the bytes that were put.
func stRetain(c *Ctx, items, vlen, keep, churn int) {
	head := fmt.Sprintf("retain %d %d %d %d", items, vlen, keep, churn)
	var changed, checked int
	p, msg := guard(func() {
		dir := stTempDir()
		defer os.RemoveAll(dir)
		s, err := stOpen(dir, 100000, zeroNode())
		if err != nil {
			panic(err)
		}
		s.pruned = false
		defer func() { s.close() }()
		idOf := func(i int) []byte {
			id := make([]byte, 32)
			binary.BigEndian.PutUint64(id[0:], uint64(i)*0x9E3779B97F4A7C15+1)
			binary.BigEndian.PutUint64(id[24:], uint64(i)+1)
			return id
		}
		valOf := func(i int) []byte { return stVal{long: true, vid: uint64(i + 1), n: vlen}.Bytes() }
		for i := 0; i < items; i++ {
			if err := s.cs.Put(nil, idOf(i), valOf(i)); err != nil {
				panic(err)
			}
		}
		_ = s.db.Flush()
		type kept struct {
			i int
			b []byte
		}
		var ks []kept
		step := items / keep
		for j := 0; j < keep; j++ {
			i := j * step
			b, err := s.cs.Get(nil, idOf(i))
			if err != nil {
				panic(err)
			}
			ks = append(ks, kept{i, b})
		}
		for round := 0; round < 3; round++ {
			for i := 0; i < items; i++ {
				if i%step == 0 {
					continue
				}
				if _, err := s.cs.Get(nil, idOf(i)); err != nil {
					panic(err)
				}
			}
		}
		for i := items; i < items+churn; i++ {
			if err := s.cs.Put(nil, idOf(i), valOf(i)); err != nil {
				panic(err)
			}
		}
		_ = s.db.Flush()
		for _, k := range ks {
			checked++
			if !bytes.Equal(k.b, valOf(k.i)) {
				changed++
			}
		}
	})
	if p {
		c.Emit("%s | panic %s", head, msg)
		return
	}
	c.Emit("%s | ok checked=%d changed=%d", head, checked, changed)
}

// ---------------------------------------------------------------- concurrent puts (C05, schedules)

func stConc(c *Ctx, capMB uint64, g, puts, vlen, round int) {
	head := fmt.Sprintf("conc %d %d %d %d %d", capMB, g, puts, vlen, round)
	var out string
	p, msg := guard(func() {
		dir := stTempDir()
		defer os.RemoveAll(dir)
		s, err := stOpen(dir, capMB, zeroNode())
		if err != nil {
			panic(err)
		}
		defer func() { s.close() }()
		var wg sync.WaitGroup
		var errs sync.Map
		for t := 0; t < g; t++ {
			wg.Add(1)
			go func(t int) {
				defer wg.Done()
				for i := 0; i < puts; i++ {
					id := make([]byte, 32)
					r := NewRng(uint64(round)*1000003 + uint64(t)*1009 + uint64(i))
					copy(id, r.Bytes(32))
					v := stVal{long: true, vid: uint64(t*puts + i + 1), n: vlen}
					if err := s.cs.Put(nil, id, v.Bytes()); err != nil && !errors.Is(err, storage.ErrInsufficientRadius) {
						errs.Store(err.Error(), true)
					}
				}
			}(t)
		}
		wg.Wait()
		waitPruneGoroutines()
		held, rec := s.scan()
		ne := 0
		errs.Range(func(k, v any) bool { ne++; return true })
		out = fmt.Sprintf("held=%d rec=%s cnt=%d cap=%d errs=%d", held, rec, spebble.VerifCounter(s.cs), capMB*1000000, ne)
	})
	if p {
		c.Emit("%s | panic %s", head, msg)
		return
	}
	c.Emit("%s | ok %s", head, out)
}

// ---------------------------------------------------------------- replay and main loop

func stExecLine(c *Ctx, ln string) {
	f := strings.Fields(strings.SplitN(ln, "|", 2)[0])
	if len(f) == 0 {
		return
	}
	atoi := func(s string) int { n, _ := strconv.Atoi(s); return n }
	switch {
	case (f[0][0] == 'h' || f[0] == "z04" || f[0] == "f05") && len(f) == 4:
		var node [32]byte
		copy(node[:], unhx(f[2]))
		stHistory(c, f[0], uint64(atoi(f[1])), node, parseOps(f[3]))
	case f[0] == "xor":
		stXor(c, unhx(f[1]), unhx(f[2]))
	case f[0] == "thr":
		n, _ := strconv.ParseUint(f[1], 10, 64)
		stThr(c, n)
	case f[0] == "retainx":
		stRetainClasses(c, atoi(f[1]))
	case f[0] == "retain":
		stRetain(c, atoi(f[1]), atoi(f[2]), atoi(f[3]), atoi(f[4]))
	case f[0] == "conc":
		stConc(c, uint64(atoi(f[1])), atoi(f[2]), atoi(f[3]), atoi(f[4]), atoi(f[5]))
	default:
		if fn, ok := stExtraExec[f[0]]; ok {
			fn(c, f)
		}
	}
}

// line kinds and generators contributed by c06.go (inRange) and c17.go (crash enumeration)
var stExtraExec = map[string]func(c *Ctx, f []string){}
var stExtraGens = map[string]func(c *Ctx){}

func stExtraGen(c *Ctx, prop string) {
	if fn, ok := stExtraGens[prop]; ok {
		fn(c)
	}
}

func runStorage(c *Ctx, prop string) {
	defer func() {
		c.Stats["goroutines_alive_at_end"] = runtime.NumGoroutine()
	}()
	// a use-after-free of a pebble buffer shows up as a memory fault: turn it into a recoverable panic
	debug.SetPanicOnFault(true)
	if len(c.Args) >= 2 && c.Args[0] == "replay" {
		for _, ln := range readReplayCases(c.Args[1]) {
			stExecLine(c, ln)
		}
		return
	}
	kind := "h" + prop
	thorough := c.Tier == "thorough"
	n := c.N
	r := c.Rng
	stCorpus(c, kind)
	for _, mb := range []uint64{0, 1, 2, 3, 7, 10, 100, 1000, 4096, 1 << 20, 16 << 20, 1<<33 - 1, 9007199254} {
		stThr(c, mb)
	}
	for i := 0; i < 20; i++ {
		stThr(c, uint64(r.Intn(1<<30)))
	}
	switch prop {
	case "04":
		if n == 0 {
			n = 120
			if thorough {
				n = 2500
			}
		}
		for i := 0; i < n; i++ {
			capMB := uint64(r.Pick([]int{1, 1, 1, 2, 3}))
			node := genNode(c)
			excluded := r.Intn(6) == 0
			if excluded {
				c.Count("history_with_excluded_ids")
			}
			ids := genIds(c, node, excluded)
			stHistory(c, kind, capMB, node, genOps(c, capMB, ids, 10+r.Intn(51), r.Pick([]int{0, 0, 0, 1, 2, 3}), true))
		}
		for i := 0; i < 200; i++ {
			node := genNode(c)
			id := r.Bytes(r.Pick([]int{32, 32, 32, 0, 1, 20, 31, 33, 40, 64}))
			stXor(c, id, node[:])
			if len(id) == 32 {
				stXor(c, flipBit(id, r.Intn(256)), node[:])
			}
		}
		stXor(c, make([]byte, 32), make([]byte, 32))
		stExtraGen(c, prop)
		for i := 0; i < 3; i++ {
			stRetainClasses(c, i)
		}
		if thorough {
			for i := 3; i < 40; i++ {
				stRetainClasses(c, i)
			}
			stRetain(c, 200000, 300, 50, 100000)
		} else {
			stRetain(c, 120000, 300, 50, 60000)
		}
	case "05":
		if n == 0 {
			n = 220
			if thorough {
				n = 2000
			}
		}
		for i := 0; i < n; i++ {
			capMB := uint64(r.Pick([]int{1, 1, 2, 3}))
			node := genNode(c)
			ids := genIds(c, node, false)
			prof := r.Pick([]int{1, 1, 2, 0, 3})
			nops := 10 + r.Intn(51)
			if prof == 1 || prof == 3 {
				nops = 30 + r.Intn(50)
			}
			stHistory(c, kind, capMB, node, genOps(c, capMB, ids, nops, prof, r.Intn(3) == 0))
		}
		stPruneFails(c, 1+r.Intn(200))
		stPruneFails(c, 1+r.Intn(200))
		stManyTiny(c, kind, 1500, 1+r.Intn(200))
		stManyTiny(c, kind, 2600, 1+r.Intn(200))
		if thorough {
			for i := 0; i < 10; i++ {
				stManyTiny(c, kind, 1100+r.Intn(1900), 1+r.Intn(200))
			}
		}
		rounds := 3
		if thorough {
			rounds = 30
		}
		for i := 0; i < rounds; i++ {
			stConc(c, 1, r.Pick([]int{2, 4, 8, 16}), 40, 20000, i)
		}
		stConc(c, 1, 16, 40, 20000, 99)
		stExtraGen(c, prop)
	case "06":
		if n == 0 {
			n = 110
			if thorough {
				n = 2000
			}
		}
		for i := 0; i < n; i++ {
			capMB := uint64(r.Pick([]int{1, 1, 2}))
			node := genNode(c)
			ids := genIds(c, node, false)
			stHistory(c, kind, capMB, node, genOps(c, capMB, ids, 8+r.Intn(30), r.Pick([]int{2, 2, 0, 3}), r.Intn(4) == 0))
		}
		stExtraGen(c, prop)
	case "17":
		if n == 0 {
			n = 150
			if thorough {
				n = 1000
			}
		}
		for i := 0; i < n; i++ {
			capMB := uint64(r.Pick([]int{1, 1, 2}))
			node := genNode(c)
			ids := genIds(c, node, false)
			ops := genOps(c, capMB, ids, 6+r.Intn(30), r.Pick([]int{2, 3, 3, 0}), true)
			// reopen often and always at the end
			for j := range ops {
				if ops[j].kind == 'g' && r.Intn(2) == 0 {
					ops[j] = stOp{kind: 'r'}
				}
			}
			ops = append(ops, stOp{kind: 'r'})
			stHistory(c, kind, capMB, node, ops)
		}
		stBoundaries(c, kind)
		stExtraGen(c, prop)
	}
}

func stBucket(n int) int {
	b := 0
	for n > 0 {
		n >>= 1
		b++
	}
	return b
}

// ---------------------------------------------------------------- plans of concurrent puts (lin lines of C05, lin06 lines of C06)

type linPut struct {
	id  []byte
	val stVal
}

func linPlanString(plan [][]linPut) string {
	ts := make([]string, len(plan))
	for i, t := range plan {
		ps := make([]string, len(t))
		for j, p := range t {
			ps[j] = hx(p.id) + "," + p.val.String()
		}
		ts[i] = strings.Join(ps, ";")
	}
	return strings.Join(ts, "/")
}

func linParsePlan(s string) [][]linPut {
	var plan [][]linPut
	for _, t := range strings.Split(s, "/") {
		var ps []linPut
		for _, p := range strings.Split(t, ";") {
			f := strings.Split(p, ",")
			if len(f) == 2 {
				ps = append(ps, linPut{unhx(f[0]), parseVal(f[1])})
			}
		}
		plan = append(plan, ps)
	}
	return plan
}
