// Correspondence harness: runs the real shisui code (build tag verif) on generated cases and
// prints one line per case:  <kind> <inputs...> | <implementation observable>
package main

import (
	"bufio"
	"flag"
	"fmt"
	"os"
	"sort"
	"time"
)

type runner func(ctx *Ctx)

var registry = map[string]runner{}

type Ctx struct {
	Seed  uint64
	Tier  string
	N     int
	Out   *bufio.Writer
	Rng   *Rng
	Stats map[string]int
	Args  []string

	emitted int
}

func (c *Ctx) Emit(format string, a ...any) {
	fmt.Fprintf(c.Out, format, a...)
	c.Out.WriteByte('\n')
	// flush often: if the implementation kills the process (panic in a goroutine) the lines written so far
	// are what identifies the input that did it
	c.emitted++
	if c.emitted%16 == 0 {
		c.Out.Flush()
	}
}
func (c *Ctx) Count(k string) { c.Stats[k]++ }

func main() {
	seed := flag.Uint64("seed", 1, "seed")
	tier := flag.String("tier", "quick", "quick|thorough")
	n := flag.Int("n", 0, "number of cases (0 = tier default)")
	out := flag.String("out", "", "output file (default stdout)")
	stats := flag.String("stats", "", "write generator statistics (json lines key count) here")
	flag.Parse()
	if flag.NArg() < 1 {
		fmt.Fprintln(os.Stderr, "usage: harness [flags] <property> [args]")
		os.Exit(2)
	}
	r, ok := registry[flag.Arg(0)]
	if !ok {
		fmt.Fprintln(os.Stderr, "unknown property", flag.Arg(0))
		os.Exit(2)
	}
	w := os.Stdout
	if *out != "" {
		f, err := os.Create(*out)
		if err != nil {
			panic(err)
		}
		defer f.Close()
		w = f
	}
	bw := bufio.NewWriterSize(w, 1<<20)
	ctx := &Ctx{Seed: *seed, Tier: *tier, N: *n, Out: bw, Rng: NewRng(*seed), Stats: map[string]int{}, Args: flag.Args()[1:]}
	r(ctx)
	bw.Flush()
	for _, a := range ctx.Args {
		if a == "replay" {
			// give goroutines started by the replayed calls time to run: a panic there kills the process
			time.Sleep(2 * time.Second)
		}
	}
	if *stats != "" {
		f, err := os.Create(*stats)
		if err != nil {
			panic(err)
		}
		keys := make([]string, 0, len(ctx.Stats))
		for k := range ctx.Stats {
			keys = append(keys, k)
		}
		sort.Strings(keys)
		for _, k := range keys {
			fmt.Fprintf(f, "%s %d\n", k, ctx.Stats[k])
		}
		f.Close()
	}
}
