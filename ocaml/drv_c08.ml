(* drv_c08.ml : model side of the C08 correspondence (FINDCONTENT handler, CONTENT processing) and monitors.
   The responder sorts its table with sort.Slice (ties in log distance in any order); the driver reconstructs a candidate
   order from the implementation's reply and runs the extracted model with it; the model re-checks the witness (pick_sorted). *)
open C08_model
let n_ (k : int) : n = Obj.magic (Util.n_of_int k)
let nhex (s : string) : n = Obj.magic (Util.n_of_hex s)
let int_n (x : n) : int = Util.int_of_n (Obj.magic x)
let hex_n (x : n) : string = Util.hex_of_n (Obj.magic x)
let b (l : int list) : byte list = Obj.magic l
let ub (l : byte list) : int list = Obj.magic l
let split c s = String.split_on_char c s
let starts s p = String.length s >= String.length p && String.sub s 0 (String.length p) = p

let parse_rec (s : string) : nrec * string list =
  match split ':' s with
  | tag :: id :: fl :: port :: size :: valid :: rest ->
    ({ rtag = n_ (int_of_string tag); rid = nhex id; rflags = n_ (int_of_string fl); rport = n_ (int_of_string port);
       rsize = n_ (int_of_string size); rvalid = (valid = "1") }, rest)
  | _ -> failwith ("bad record " ^ s)
let tag_of (r : nrec) = int_n r.rtag
let show_tags (l : nrec list) = match l with [] -> "." | _ -> String.concat "," (List.map (fun r -> string_of_int (tag_of r)) l)
let mem_rec r l = List.exists (rec_eqb r) l

let show_fc = function
  | Ok (FC_Raw c) as r -> Printf.sprintf "raw %d %s" (int_n (fc_reply_len (FC_Raw c))) (Util.hex_of_bytes (ub c))
  | Ok FC_ConnId -> Printf.sprintf "connid %d" (int_n (fc_reply_len FC_ConnId))
  | Ok (FC_Enrs l) -> Printf.sprintf "enrs %d %s" (int_n (fc_reply_len (FC_Enrs l))) (show_tags l)
  | Err _ -> "err" | Panic -> "panic"

let handle fields impl : string option * string list =
  match fields with
  | ["fc"; _; _; _; _; st; _; ";"; reqid; cid; recs] ->
    let nodelist = if recs = "." then [] else List.map (fun s -> fst (parse_rec s)) (split ',' recs) in
    let requester = nhex reqid and cid = nhex cid in
    let st = if starts st "T!" || starts st "P!" then String.sub st 2 (String.length st - 2) else st in
    let stv = if st = "N" || starts st "N@" then St_NotFound else if st = "E" || starts st "E:" then St_Error
      else St_Found (b (Util.bytes_of_hex (String.sub st 2 (String.length st - 2)))) in
    let find t = if t = "?" then None else List.find_opt (fun r -> tag_of r = int_of_string t) nodelist in
    let parts = split ' ' impl in
    let reply = (match parts with ["enrs"; _; t] -> if t = "." then [] else List.map find (split ',' t) | _ -> []) in
    let r = List.filter_map (fun x -> x) reply in
    let dtab = Hashtbl.create 512 in
    List.iter (fun (x : nrec) -> Hashtbl.replace dtab (tag_of x) (int_n (logdist x.rid cid))) nodelist;
    let dist (x : nrec) = Hashtbl.find dtab (tag_of x) in
    (* ties: the returned records in the order returned; the requester early or late (two attempts); the others largest first,
       so that the record following a size cut is one that does not fit *)
    let attempt requester_rank =
      let rank (x : nrec) =
        let rec pos i = function
          | [] -> if hex_n x.rid = hex_n requester then requester_rank else 1000 + (4000 - int_n x.rsize)
          | y :: t -> if rec_eqb x y then i else pos (i + 1) t in pos 0 r in
      let rtab = Hashtbl.create 512 in
      List.iter (fun (x : nrec) -> Hashtbl.replace rtab (tag_of x) (rank x)) nodelist;
      let w = List.stable_sort (fun x y -> compare (dist x, Hashtbl.find rtab (tag_of x)) (dist y, Hashtbl.find rtab (tag_of y))) nodelist in
      show_fc (handle_find_content nodelist (pick_sorted cid w) requester stv) in
    let m1 = attempt 500 in
    let m = if m1 = impl then m1 else (let m2 = attempt 9000 in if m2 = impl then m2 else m1) in
    (* monitors on the implementation's reply *)
    let fails = ref [] in
    let add k = if not (List.mem k !fails) then fails := k :: !fails in
    (match parts with
     | [kind; len; _] | [kind; len] when kind = "raw" || kind = "connid" || kind = "enrs" ->
       if int_n (talkresp_datagram (n_ 8) false (n_ (int_of_string len)) false) > 1280 then add (Printf.sprintf "findcontent-reply-too-big reply=%s" len)
     | _ -> if starts impl "reply-changed-by-later-request" then add "findcontent-reply-changed-by-later-request the-reply-bytes-were-overwritten-while-a-second-request-was-served"
       else if starts impl "malformed" then add ("findcontent-reply-malformed " ^ impl) else if starts impl "panic" then add ("findcontent-panic " ^ impl));
    (match stv, parts with
     | St_Found c, ["raw"; _; h] -> if Util.bytes_of_hex h <> ub c then add "findcontent-wrong-bytes inline-bytes-differ-from-the-stored-bytes"
     | St_Found c, ["connid"; _] -> if List.length (ub c) <= int_n findcontent_max_payload then add "findcontent-small-content-not-inline"
     | St_Found _, ("enrs" :: _) -> add "findcontent-held-content-not-returned"
     | St_NotFound, ("raw" :: _) | St_NotFound, ("connid" :: _) -> add "findcontent-wrong-bytes content-returned-that-is-not-held"
     | St_Error, ("raw" :: _) | St_Error, ("connid" :: _) | St_Error, ("enrs" :: _) ->
       (* the store could not be read: whatever is answered is not the stored content (the unchanged code answers nothing) *)
       add ("findcontent-answers-content-on-storage-error " ^ (match parts with k :: l :: _ -> k ^ "-" ^ l | _ -> ""))
     | _ -> ());
    (match parts with
     | ["enrs"; _; _] ->
       if List.exists (fun x -> x = None) reply then add "findcontent-enrs-not-from-table";
       if List.length reply > 32 then add "findcontent-more-than-32";
       if not (sorted_by_b cid r) then add "findcontent-enrs-not-sorted";
       List.iter (fun (x : nrec) -> if hex_n x.rid = hex_n requester then add (Printf.sprintf "findcontent-returns-asker tag=%d" (tag_of x))) r;
       (* among the 32 nearest *)
       List.iter (fun (x : nrec) ->
         let closer = List.length (List.filter (fun y -> dist y < dist x) nodelist) in
         if closer >= 32 then add (Printf.sprintf "findcontent-enrs-not-among-32-nearest tag=%d" (tag_of x))) r
     | _ -> ());
    (Some m, List.rev !fails)
  | ["pc"; _; _; resph; _; ";"; senders; decs] ->
    let (sender, _) = parse_rec senders in
    let resp = b (Util.bytes_of_hex resph) in
    let dec_pairs = if decs = "E" then None else if decs = "." then Some [] else
        Some (List.map (fun s -> let (r, rest) = parse_rec s in (r, rest = ["1"])) (split ',' decs)) in
    let decoded = match dec_pairs with None -> Err (n_ 3) | Some l -> Ok (List.map fst l) in
    let m = (match process_content resp decoded sender with
        | Ok (PC_Raw c) -> "raw " ^ Util.hex_of_bytes (ub c)
        | Ok (PC_ConnId c) -> "connid " ^ Util.hex_of_bytes (ub c)
        | Ok (PC_Enrs l) -> "enrs " ^ show_tags l
        | Err _ -> "err" | Panic -> "panic") in
    let m = if m = "panic" && starts impl "panic" then impl else m in
    let mons =
      (match split ' ' impl, dec_pairs with
       | ["enrs"; t], Some l ->
         let truth = List.map (fun ((r : nrec), g) -> { r with rvalid = r.rvalid && g }) l in
         let out = ref (if t = "." then [] else split ',' t) in
         let fails = ref [] in
         let rec walk before = function
           | [] -> ()
           | (r : nrec) :: rest ->
             let accepted = (match !out with x :: tl when x = string_of_int (tag_of r) -> out := tl; true | _ -> false) in
             let should = accept_conditions_b sender None (List.rev before) r in
             if accepted && not should then
               fails := (Printf.sprintf "%s tag=%d" (if not r.rvalid then "content-enrs-accepted-bad-signature"
                                                     else if not (relay_ok sender.rflags r.rflags) then "content-enrs-accepted-relay-unsafe"
                                                     else if int_n r.rport <= 1024 then "content-enrs-accepted-low-port" else "content-enrs-accepted-repeat") (tag_of r)) :: !fails
             else if should && not accepted then fails := (Printf.sprintf "content-enrs-rejected-acceptable-record tag=%d" (tag_of r)) :: !fails;
             walk (r :: before) rest in
         walk [] truth; List.rev !fails
       | ["raw"; h], _ ->
         (* the asker hands out exactly the bytes after the selector *)
         let body = (match ub resp with _ :: _ :: t -> t | _ -> []) in
         if Util.bytes_of_hex h <> body then ["findcontent-wrong-bytes asker-returns-bytes-that-are-not-the-reply-payload"] else []
       | _ -> []) in
    (Some m, mons)
  | ["uc"; own; pv; op; h; _] ->   (* last field: an older record of the peer in the table - irrelevant, the record in hand decides *)
    (* stream framing including the version lookup on the peer's record (C19's model of getOrStoreHighestVersion, empty cache) *)
    let vs str = List.map (fun ch -> n_ (Char.code ch - 48)) (List.init (String.length str) (String.get str)) in
    let entry = (match pv with "M" -> PvMissing | "X" -> PvMalformed | "E" -> PvList [] | str -> PvList (vs str)) in
    let d = b (Util.bytes_of_hex h) in
    let res = if op = "enc" then node_encode_utp (vs own) empty_cache (n_ 0) entry d
      else node_decode_utp (vs own) empty_cache (n_ 0) entry d in
    let m = (match res with Ok x -> "ok " ^ Util.hex_of_bytes (ub x) | Err _ -> "err" | Panic -> "panic") in
    let m = if m = "panic" && starts impl "panic" then impl else m in
    let mons =
      if pv = "M" && String.length own > 0 && own.[0] = '0' then
        (* wire spec: no pv entry = version 0 = the stream carries the stored bytes as they are, in both directions *)
        (if impl <> "ok " ^ h then [Printf.sprintf "findcontent-wrong-bytes legacy-peer-without-pv-entry-%s-gives-%s" op (if String.length impl > 40 then String.sub impl 0 40 else impl)] else [])
      else if starts impl "ok" && starts m "ok" && impl <> m then
        ["findcontent-wrong-bytes stream-framing-differs-from-the-negotiated-version " ^ op]
      else [] in
    (Some m, mons)
  | ("lfc" :: _ | "lfe" :: _) when starts impl "unobserved" -> (None, [])   (* a timeout on a loaded machine proves nothing either way *)
  | "live-unobserved" :: _ -> (None, [])
  | ["lfc"; _; _; size; ";"; want] ->
    (* live transfer: exercised, not proved.  Expected: selector raw (1) up to the threshold, connection id (0) above; the bytes obtained are the stored ones *)
    let sz = int_of_string size in
    let sel = if sz <= int_n findcontent_max_payload then 1 else 0 in
    (match split ' ' impl with
     | ["ok"; flag; len; sha; maxdg] ->
       let fails = ref [] in
       if sha <> want || int_of_string len <> sz then fails := "findcontent-wrong-bytes live-transfer-delivered-other-bytes" :: !fails;
       if int_of_string maxdg > 1280 then fails := (Printf.sprintf "findcontent-reply-too-big datagram=%s" maxdg) :: !fails;
       (Some (Printf.sprintf "ok %d %d %s %s" sel sz want maxdg), List.rev !fails)
     | _ -> (Some "ok", ["findcontent-live-transfer-failed " ^ impl]))
  | ["lfe"; _; _; ";"; askerid; cid; recs] ->
    let nodelist = if recs = "." then [] else List.map (fun s -> fst (parse_rec s)) (split ',' recs) in
    let asker = nhex askerid and cid = nhex cid in
    (match split ' ' impl with
     | ["ok"; t; maxdg] ->
       let find x = if x = "?" then None else List.find_opt (fun r -> tag_of r = int_of_string x) nodelist in
       let reply = if t = "." then [] else List.map find (split ',' t) in
       let r = List.filter_map (fun x -> x) reply in
       let fails = ref [] in
       if List.exists (fun x -> x = None) reply then fails := "findcontent-enrs-not-from-table live" :: !fails;
       if not (sorted_by_b cid r) then fails := "findcontent-enrs-not-sorted live" :: !fails;
       if List.exists (fun (x : nrec) -> hex_n x.rid = hex_n asker) r then fails := "findcontent-returns-asker live" :: !fails;
       if (try int_of_string maxdg > 1280 with _ -> false) then fails := (Printf.sprintf "findcontent-reply-too-big datagram=%s" maxdg) :: !fails;
       (None, List.rev !fails)
     | _ -> (Some "ok", ["findcontent-live-exchange-failed " ^ impl]))
  | "live-error" :: _ -> (Some "live exchange failed", [])
  | _ -> (Some "driver: unknown line", [])

let () = Util.run handle
