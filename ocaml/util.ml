(* util.ml : glue between text lines and Coq-extracted data.  The extracted modules each declare
   their own copies of nat / positive / n / byte; these are structurally identical to the types
   below (same constructors in the same order), so values cross the boundary through Obj.magic.
   byte has 256 constant constructors x00..xff in order, i.e. it is represented as the int 0..255. *)
type nat = O | S of nat
type positive = XI of positive | XO of positive | XH
type n = N0 | Npos of positive
type z = Z0 | Zpos of positive | Zneg of positive

let nat_of_int (k : int) : nat =
  let r = ref O in for _ = 1 to k do r := S !r done; !r
let int_of_nat (x : nat) : int =
  let rec go acc = function O -> acc | S y -> go (acc + 1) y in go 0 x

let rec pos_of_int (k : int) : positive =
  if k = 1 then XH else if k land 1 = 1 then XI (pos_of_int (k lsr 1)) else XO (pos_of_int (k lsr 1))
let n_of_int (k : int) : n = if k = 0 then N0 else Npos (pos_of_int k)
let rec int_of_pos = function XH -> 1 | XI p -> 2 * int_of_pos p + 1 | XO p -> 2 * int_of_pos p
let int_of_n = function N0 -> 0 | Npos p -> int_of_pos p
let z_of_int k = if k = 0 then Z0 else if k > 0 then Zpos (pos_of_int k) else Zneg (pos_of_int (-k))
let int_of_z = function Z0 -> 0 | Zpos p -> int_of_pos p | Zneg p -> - (int_of_pos p)

(* arbitrary-size N <-> big-endian hex (no leading zeros, "0" for zero) *)
let n_of_hex (s : string) : n =
  (* bits, most significant first *)
  let bits = ref [] in
  String.iter (fun c ->
    let v = match c with
      | '0'..'9' -> Char.code c - 48 | 'a'..'f' -> Char.code c - 87 | 'A'..'F' -> Char.code c - 55
      | _ -> failwith "n_of_hex" in
    bits := (v land 1 = 1) :: (v land 2 = 2) :: (v land 4 = 4) :: (v land 8 = 8) :: !bits) s;
  (* !bits is least significant first *)
  let rec build = function
    | [] -> None
    | b :: rest ->
      (match build rest with
       | None -> if b then Some XH else None
       | Some p -> Some (if b then XI p else XO p)) in
  match build !bits with None -> N0 | Some p -> Npos p
let hex_of_n (x : n) : string =
  match x with
  | N0 -> "0"
  | Npos p ->
    let rec bits acc = function XH -> true :: acc | XI q -> bits (true :: acc) q | XO q -> bits (false :: acc) q in
    (* bits returns most significant first?  we cons lower bits first, so reverse *)
    let lsb_first = List.rev (bits [] p) in
    let rec nibbles l = match l with
      | [] -> []
      | _ ->
        let take i = match List.nth_opt l i with Some true -> 1 lsl i | _ -> 0 in
        let v = take 0 + take 1 + take 2 + take 3 in
        let rec drop k l = if k = 0 then l else match l with [] -> [] | _ :: t -> drop (k - 1) t in
        v :: nibbles (drop 4 l) in
    let ns = List.rev (nibbles lsb_first) in
    let b = Buffer.create 16 in
    List.iter (fun v -> Buffer.add_char b "0123456789abcdef".[v]) ns;
    (* strip leading zeros *)
    let s = Buffer.contents b in
    let i = ref 0 in
    while !i < String.length s - 1 && s.[!i] = '0' do incr i done;
    String.sub s !i (String.length s - !i)

(* bytes: "-" is empty, otherwise lowercase hex *)
let bytes_of_hex (s : string) : int list =
  if s = "-" then [] else begin
    let n = String.length s / 2 in
    let hv c = match c with '0'..'9' -> Char.code c - 48 | 'a'..'f' -> Char.code c - 87 | 'A'..'F' -> Char.code c - 55 | _ -> failwith "hex" in
    let r = ref [] in
    for i = n - 1 downto 0 do r := (hv s.[2*i] * 16 + hv s.[2*i+1]) :: !r done;
    !r
  end
let hex_of_bytes (l : int list) : string =
  match l with
  | [] -> "-"
  | _ ->
    let b = Buffer.create 64 in
    List.iter (fun v -> Buffer.add_char b "0123456789abcdef".[v lsr 4]; Buffer.add_char b "0123456789abcdef".[v land 15]) l;
    Buffer.contents b
(* lists of byte strings: "." is the empty list, items separated by ',' *)
let items_of_string (s : string) : int list list =
  if s = "." then [] else List.map bytes_of_hex (String.split_on_char ',' s)
let string_of_items (l : int list list) : string =
  match l with [] -> "." | _ -> String.concat "," (List.map hex_of_bytes l)

let split_bar (line : string) : string list * string =
  (* "<f1> <f2> ... | <observable>" *)
  match String.index_opt line '|' with
  | None -> (String.split_on_char ' ' (String.trim line), "")
  | Some i ->
    let l = String.trim (String.sub line 0 i) and r = String.trim (String.sub line (i + 1) (String.length line - i - 1)) in
    (List.filter (fun s -> s <> "") (String.split_on_char ' ' l), r)

(* error classes are informative only: "err 3" and "err 99" compare equal (the properties say "rejected with an error") *)
let norm (s : string) : string =
  if String.length s >= 3 && String.sub s 0 3 = "err" then "err" else s

(* driver loop: f returns (model_observable option, monitor failures) *)
let run (f : string list -> string -> string option * string list) =
  let total = ref 0 and diffs = ref 0 and mons = ref 0 in
  (try
    while true do
      let line = input_line stdin in
      if String.length line > 0 then begin
        incr total;
        let (fields, impl) = split_bar line in
        let (model, fails) =
          try f fields impl with e -> (Some ("driver-exception:" ^ Printexc.to_string e), []) in
        (match model with
         | Some m when norm m <> norm impl ->
           incr diffs; Printf.printf "DIFF %d model=%s\n" !total (if String.length m > 300 && Sys.getenv_opt "VERIF_FULL" = None then String.sub m 0 300 ^ "..." else m)
         | _ -> ());
        List.iter (fun m -> incr mons; Printf.printf "MON %d %s\n" !total m) fails
      end
    done
  with End_of_file -> ());
  Printf.printf "SUMMARY total=%d diffs=%d monitor_failures=%d\n" !total !diffs !mons
